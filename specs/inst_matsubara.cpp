// Explicit instantiation of MatsubaraContainer1 from the REAL header (include/pomerol/MatsubaraContainers.h).
// The class template is never instantiated inside the library (no user in include/ or src/), so the compiler
// produces no member bodies in any library TU.  `Src1` is the minimal source type the template asks for:
// a class with `ComplexType value(long) const`.
#include "pomerol/MatsubaraContainers.h"
namespace Pomerol {
struct Src1 { ComplexType value(long MatsubaraNumber) const; };
}
template class Pomerol::MatsubaraContainer1<Pomerol::Src1>;
