/* C01, last sentence -- "The value is the same whether it is read from a stand-alone Green's function object or from the
 * container of all components": the container of single-particle Green's functions.
 *   include/pomerol/IndexContainer2.h  (templates; instantiated for <GreensFunction,GFContainer> by specs/inst_container2.cpp,
 *                                       which contains nothing but the explicit instantiation): isInContainer, set, operator(), fill
 *   src/pomerol/GFContainer.cpp        prepareAll, computeAll          (createElement: specs/containers.c)
 *   src/pomerol/Index.cpp              IndexCombination2 constructor, operator<
 * What is / is not proved, assumptions and mutants: comment at the end of the file. */
#include "../stubs/common.h"
#include <stdlib.h>
//@include types_common.inc
//@type boost::shared_ptr<(Pomerol::)?GreensFunction> => GFPtr val
//@type (typename )?std::map<(Pomerol::)?IndexCombination2, boost::shared_ptr<(Pomerol::)?GreensFunction> ?(, .*)?>::iterator|std::_Rb_tree_iterator<std::pair<const (Pomerol::)?IndexCombination2, boost::shared_ptr<(Pomerol::)?GreensFunction> ?> ?> => GMapIt val
//@type std::pair<(const )?(Pomerol::)?IndexCombination2, boost::shared_ptr<(Pomerol::)?GreensFunction> ?> => GPair val
//@type std::map<(Pomerol::)?IndexCombination2, boost::shared_ptr<(Pomerol::)?GreensFunction>(, .*)?> => GMap ptr
//@type (typename )?std::set<(Pomerol::)?IndexCombination2(, .*)?>::(const_)?iterator|std::_Rb_tree_const_iterator<(Pomerol::)?IndexCombination2> => ISetIt val
//@type (const )?std::set<(Pomerol::)?IndexCombination2(, .*)?> => ISet ptr
//@type (Pomerol::)?IndexContainer2<(Pomerol::)?GreensFunction, ?(Pomerol::)?GFContainer> => struct GFContainer ptr
//@record Pomerol::IndexCombination2 => IC2 val
//@record Pomerol::IndexContainer2 => struct GFContainer ptr
//@rename GFContainer_set => IC2C_set
//@rename GFContainer_isInContainer/1 => IC2C_isInContainer
//@rename GFContainer_fill => IC2C_fill
//@tu /verif/specs/inst_container2.cpp
//@enum ComputableObject::
typedef struct IC2 IC2;
//@struct Pomerol::IndexCombination2
//@tu src/pomerol/Index.cpp
/* twins for the other spelling of an increment (`++it` for `it++` and vice versa): same effect.  X_inc yields the iterator after the step
 * (exact); X_postinc made from X_inc is void, so a use of its value does not compile (UNDECIDED) instead of being modelled wrongly */
#define GMapIt_inc(it_) (GMapIt_postinc(it_), (it_))      /* pre-increment: the iterator itself, after the step */
#define ISetIt_inc(it_) (ISetIt_postinc(it_), (it_))      /* pre-increment: the iterator itself, after the step */
//@function Pomerol::IndexCombination2::IndexCombination2(unsigned int, unsigned int) as IC2_ctor2
//@end
//@function Pomerol::IndexCombination2::operator<(Pomerol::IndexCombination2 const&) const as IC2_lt
//@end

/* ---- TRUSTED MODEL: GreensFunction element objects and boost::shared_ptr<GreensFunction> (as in specs/container4.c).
 * An element is created by pSource->createElement(K) (monitor below; what it constructs is proved in specs/containers.c:
 * annihilation operator K.Index1, creation operator K.Index2, the container's S, H, DM -- the same computation as the stand-alone
 * object); K is its "creator pair".  The shared pointer carries a ghost copy of the creator pair of the object it points to, so
 * that invariants never dereference element pointers.  Element pointers are compared, never dereferenced after construction. */
struct GreensFunction { IC2 creator; };
typedef struct GFPtr { struct GreensFunction *p; /* ghost */ IC2 creator; } GFPtr;
static inline GFPtr GFPtr_ctor1(struct GreensFunction *raw)
{
  __CPROVER_assert(raw != (void *)0, "shared_ptr constructed from a non-null element");
  GFPtr s; s.p = raw; s.creator = raw->creator; return s;
}
struct GFContainer;
static inline _Bool is_other_entry(GFPtr *s);   /* s is the mapped value of the `other` entry of the container's map (defined below) */
static inline struct GreensFunction *GFPtr_mul(GFPtr *s)
{
  /* the obligation is checked for local pointers and for the entry of the ghost key (arbitrary => every entry); about the
   * entries of other keys nothing is known in the ghost-key model */
  if (!is_other_entry(s)) __CPROVER_assert(s->p != (void *)0, "boost::shared_ptr::operator*: the pointer is not null");
  return s->p;
}
/* shared_ptr assignment: the target refers to the source's object afterwards (the object it referred to before is released) */
static inline GFPtr *GFPtr_assign(GFPtr *dst, GFPtr src) { *dst = src; return dst; }

#define KEQ(a, b) ((a).Index1 == (b).Index1 && (a).Index2 == (b).Index2)
/* ghost key */
IC2 g_X;

/* ---- TRUSTED MODEL: std::map<IndexCombination2, shared_ptr> / std::set<IndexCombination2>, ghost-key model (DESIGN.md 3.2; the
 * same as in specs/container4.c).  State kept: presence bit and entry of the ONE ghost key g_X; entries of other keys land in
 * `other` and nothing is known about them (presence of a non-ghost key is nondeterministic at every query).  Key equivalence is the
 * one std::map uses: !(a<b) && !(b<a) with the comparator AS WRITTEN IN POMEROL (IC2_lt is extracted from src/pomerol/Index.cpp).
 * ASSUMED (guarantees of the standard containers): find/count are exact; operator[] returns the mapped value of the key, inserting
 * a default-constructed (null) shared_ptr first if the key is absent; clear() removes every entry; references to mapped values stay
 * valid; the elements of a std::set are pairwise inequivalent; iteration visits every entry exactly once in key order. */
static inline _Bool ic2_equiv(IC2 a, IC2 b) { return !IC2_lt(&a, b) && !IC2_lt(&b, a); }
static inline IC2 nondet_ic2(void) { IC2 k; k.Index1 = nondet_int(); k.Index2 = nondet_int(); return k; }
typedef struct GPair { IC2 first; GFPtr second; } GPair;
typedef struct GMap { int gpresent; GPair g; GPair other; } GMap;      /* gpresent: 0 / 1 */
typedef struct GMapIt { GMap *m; int pos; long idx; } GMapIt;          /* pos: 0 = end(), 1 = entry of the ghost key, 2 = entry of another key; idx: position in key order (iteration only) */
static inline GPair nondet_gpair(IC2 k)
{ GPair p; p.first = k; p.second.p = (struct GreensFunction *)0; p.second.creator = nondet_ic2(); return p; }
static inline unsigned long GMap_count(GMap *m, IC2 k) { return ic2_equiv(k, g_X) ? (m->gpresent ? 1UL : 0UL) : (nondet_bool() ? 1UL : 0UL); }
static inline GMapIt GMap_find(GMap *m, IC2 k)
{
  GMapIt it; it.m = m; it.idx = 0;
  if (ic2_equiv(k, g_X)) it.pos = m->gpresent ? 1 : 0;
  else if (nondet_bool()) { it.pos = 2; m->other = nondet_gpair(k); }
  else it.pos = 0;
  return it;
}
#define GMap_end(mp) ((GMapIt){(mp), 0, 0})
static inline _Bool op_eq_GMapIt_GMapIt(GMapIt *a, GMapIt *b) { return a->pos == b->pos; }      /* used only against end() */
static inline _Bool op_ne_GMapIt_GMapIt(GMapIt *a, GMapIt *b) { return a->pos != b->pos; }
static inline GPair *GMapIt_arrow(GMapIt *it)
{
  __CPROVER_assert(it->pos == 1 || it->pos == 2, "std::map iterator dereferenced only when it points to an entry");
  return it->pos == 1 ? &it->m->g : &it->m->other;
}
static inline void GMap_clear(GMap *m) { m->gpresent = 0; }
static inline GFPtr *GMap_at(GMap *m, IC2 *k)                         /* operator[] */
{
  if (ic2_equiv(*k, g_X)) {
    if (!m->gpresent) { m->gpresent = 1; m->g.first = *k; m->g.second.p = (struct GreensFunction *)0; m->g.second.creator = nondet_ic2(); }
    return &m->g.second;
  }
  m->other = nondet_gpair(*k);
  return &m->other.second;
}
/* iteration view: gmap_n entries, the entry of the ghost key (if present) at position gmap_gpos; both unknown, drawn at begin()
 * and fixed afterwards (nothing is inserted or erased inside the loops of prepareAll / computeAll: their frame conditions show it) */
long gmap_n, gmap_gpos;
#define GMAP_MAXN (1L << 40)
#define GMAP_POS(m, i) ((i) >= gmap_n ? 0 : (((m)->gpresent && (i) == gmap_gpos) ? 1 : 2))
static inline void gmap_other_entry(GMap *m)
{
  IC2 k = nondet_ic2();
  __CPROVER_assume(!ic2_equiv(k, g_X));   /* ASSUMED (std::map): keys are pairwise inequivalent */
  m->other = nondet_gpair(k);
}
static inline GMapIt GMap_begin(GMap *m)
{
  gmap_n = nondet_long(); gmap_gpos = nondet_long();
  __CPROVER_assume(0 <= gmap_n && gmap_n <= GMAP_MAXN && (m->gpresent ? (0 <= gmap_gpos && gmap_gpos < gmap_n) : gmap_gpos == -1));
  GMapIt it; it.m = m; it.idx = 0; it.pos = GMAP_POS(m, 0);
  if (it.pos == 2) gmap_other_entry(m);
  return it;
}
#define GMapIt_postinc(it) ({ \
  __CPROVER_assert((it)->pos != 0, "std::map: end() is not incremented"); \
  (it)->idx++; (it)->pos = GMAP_POS((it)->m, (it)->idx); \
  if ((it)->pos == 2) gmap_other_entry((it)->m); })
/* std::set<IndexCombination2>: n elements in iteration order, the ghost key at position gpos iff ghas */
typedef struct ISet { long n; int ghas; long gpos; } ISet;
typedef struct ISetIt { ISet *s; long pos; } ISetIt;
IC2 iset_cur;                                                    /* the element the iterator was last dereferenced at */
static inline _Bool ISet_wf(ISet s) { return 0 <= s.n && s.n <= (1L << 40) && (s.ghas == 0 || s.ghas == 1) && (!s.ghas || (0 <= s.gpos && s.gpos < s.n)); }
static inline ISet ISet_ctor0(void) { ISet s; s.n = 0; s.ghas = 0; s.gpos = 0; return s; }
static inline unsigned long ISet_size(ISet *s) { return (unsigned long)s->n; }
static inline ISet *ISet_assign(ISet *a, ISet *b) { *a = *b; return a; }
#define ISet_begin(sp) ((ISetIt){(sp), 0})
#define ISet_end(sp)   ((ISetIt){(sp), (sp)->n})
#define op_ne_ISetIt_ISetIt(a, b) ((a)->pos != (b)->pos)
#define ISetIt_postinc(it) ((it)->pos++)
#define ISetIt_mul(it) ({ \
  __CPROVER_assert(0 <= (it)->pos && (it)->pos < (it)->s->n, "std::set iterator dereferenced before end()"); \
  if ((it)->s->ghas && (it)->pos == (it)->s->gpos) iset_cur = g_X; \
  else { iset_cur = nondet_ic2(); \
         /* ASSUMED: the elements of a set are pairwise inequivalent, and g_X is a member iff ghas */ \
         __CPROVER_assume(!ic2_equiv(iset_cur, g_X)); } \
  &iset_cur; })

//@tu /verif/specs/inst_container2.cpp
//@struct Pomerol::GFContainer only=pSource,ElementsMap

/* MONITOR: pSource->createElement(K) -- `new GreensFunction(...)` for the pair K */
struct GFContainer *g_self;
static inline _Bool is_other_entry(GFPtr *s) { return s == &g_self->ElementsMap.other.second; }
unsigned long g_created;           /* number of elements created */
unsigned long g_created_X;         /* number of elements created for the ghost key */
IC2 g_created_for;                 /* pair of the last creation */
struct GreensFunction *g_created_el;
struct GreensFunction *GFContainer_createElement(struct GFContainer *src, IC2 K)
{
  __CPROVER_assert(src == g_self, "C01: elements are created by the container's own source object");
  struct GreensFunction *e = malloc(sizeof(struct GreensFunction));
  __CPROVER_assume(e != (void *)0);   /* ASSUMED: operator new never returns null (allocation failure = std::bad_alloc is not modelled) */
  e->creator = K;
  g_created++; g_created_for = K; g_created_el = e;
  if (KEQ(K, g_X)) g_created_X++;
  REACH("createElement");
  return e;
}
/* enumerateInitialIndices(): all pairs -- an arbitrary set here */
ISet g_all;
#define GFContainer_enumerateInitialIndices(self) (*enumerate_stub())
static inline ISet *enumerate_stub(void) { g_all.n = nondet_long(); g_all.ghas = nondet_bool() ? 1 : 0; g_all.gpos = nondet_long(); __CPROVER_assume(ISet_wf(g_all)); return &g_all; }

/* ======================= IndexContainer2: isInContainer, set, operator(), fill =======================
 * INV (g: key X):  X |-> e  ==>  e is an object and it is THE element created by createElement for X (creator(e) == X).
 * INV is pre- and post-condition of set and operator() from every state and fill establishes it from ANY prior state, so it
 * holds after every sequence of fill / prepareAll / lookup calls. */
#define EM (self->ElementsMap)
#define PRES_WF(E) ((E).gpresent == 0 || (E).gpresent == 1)
#define INV(E) (!(E).gpresent || (KEQ((E).g.first, g_X) && (E).g.second.p != (void *)0 && KEQ((E).g.second.creator, g_X)))
static _Bool gpair_same(GPair a, GPair b) { return KEQ(a.first, b.first) && a.second.p == b.second.p && KEQ(a.second.creator, b.second.creator); }

//@function Pomerol::IndexContainer2<Pomerol::GreensFunction, Pomerol::GFContainer>::isInContainer(Pomerol::IndexCombination2 const&) const as IC2C_isInContainer
//@contract
__CPROVER_requires(__CPROVER_is_fresh(self, sizeof(*self)))
__CPROVER_assigns()
__CPROVER_ensures(KEQ(Indices, g_X) ==> __CPROVER_return_value == (EM.gpresent != 0))
//@end
//@harness h_IC2C_isInContainer enforce=IC2C_isInContainer props=C01 min_obl=51 reach=1 timeout=120
void h_IC2C_isInContainer(void)
{
  struct GFContainer *c; IC2 K;
  _Bool r = IC2C_isInContainer(c, K);
  REACH("exit");
}

//@function Pomerol::IndexContainer2<Pomerol::GreensFunction, Pomerol::GFContainer>::set(Pomerol::IndexCombination2 const&) as IC2C_set
//@contract
__CPROVER_requires(__CPROVER_is_fresh(self, sizeof(*self)) && self->pSource == self && g_self == self)
__CPROVER_requires(PRES_WF(EM) && INV(EM))
__CPROVER_assigns(EM, g_created, g_created_X, g_created_for, g_created_el)
__CPROVER_ensures(PRES_WF(EM) && INV(EM))
/* exactly one element is created, for K, and it is the one returned */
__CPROVER_ensures(g_created == __CPROVER_old(g_created) + 1 && KEQ(g_created_for, Indices) && __CPROVER_return_value == g_created_el)
__CPROVER_ensures(g_created_X == __CPROVER_old(g_created_X) + (KEQ(Indices, g_X) ? 1UL : 0UL))
/* (g: key X) X = K maps to the new element (an existing entry is REPLACED: ElementsMap[K] = pElement); other keys are untouched */
__CPROVER_ensures(KEQ(Indices, g_X) ==> (EM.gpresent && EM.g.second.p == g_created_el && KEQ(EM.g.second.creator, Indices)))
__CPROVER_ensures(!KEQ(Indices, g_X) ==> (EM.gpresent == __CPROVER_old(EM.gpresent) && (!EM.gpresent || gpair_same(EM.g, __CPROVER_old(EM.g)))))
//@end
//@harness h_IC2C_set enforce=IC2C_set props=C01 min_obl=299 reach=2 timeout=300
void h_IC2C_set(void)
{
  struct GFContainer *c; IC2 K;
  struct GreensFunction *r = IC2C_set(c, K);
  REACH("exit");
}

//@function Pomerol::IndexContainer2<Pomerol::GreensFunction, Pomerol::GFContainer>::operator()(Pomerol::IndexCombination2 const&) as IC2C_call
//@contract
__CPROVER_requires(__CPROVER_is_fresh(self, sizeof(*self)) && self->pSource == self && g_self == self && g_created == 0)
__CPROVER_requires(PRES_WF(EM) && INV(EM))
__CPROVER_assigns(EM, g_created, g_created_X, g_created_for, g_created_el)
__CPROVER_ensures(PRES_WF(EM) && INV(EM))
/* THE C01 CLAUSE (g: X = (i,j)): the element returned for (i,j) is the stored one, and it is the element createElement made for (i,j) */
__CPROVER_ensures(KEQ(Indices, g_X) ==> (EM.gpresent && __CPROVER_return_value == EM.g.second.p && KEQ(EM.g.second.creator, Indices)))
/* a key that is in the container: its element is returned, nothing is created, nothing changes */
__CPROVER_ensures((KEQ(Indices, g_X) && __CPROVER_old(EM.gpresent)) ==> (g_created == 0 && gpair_same(EM.g, __CPROVER_old(EM.g))))
/* a key that is not: exactly one element is created, for K, stored and returned */
__CPROVER_ensures((KEQ(Indices, g_X) && !__CPROVER_old(EM.gpresent)) ==> (g_created == 1 && KEQ(g_created_for, Indices) && __CPROVER_return_value == g_created_el))
/* other keys (g: X != K): untouched */
__CPROVER_ensures(!KEQ(Indices, g_X) ==> (EM.gpresent == __CPROVER_old(EM.gpresent) && (!EM.gpresent || gpair_same(EM.g, __CPROVER_old(EM.g)))))
//@end
//@harness h_IC2C_call enforce=IC2C_call replace=IC2C_set props=C01 min_obl=472 reach=3 timeout=300
void h_IC2C_call(void)
{
  struct GFContainer *c; IC2 K;
  struct GreensFunction *r = IC2C_call(c, K);
  if (g_created) REACH("miss"); else REACH("hit");
  REACH("exit");
}

//@function Pomerol::IndexContainer2<Pomerol::GreensFunction, Pomerol::GFContainer>::fill(std::set<Pomerol::IndexCombination2, std::less<Pomerol::IndexCombination2>, std::allocator<Pomerol::IndexCombination2> >) as IC2C_fill
//@contract
/* ANY prior state of the map: no invariant is required */
__CPROVER_requires(__CPROVER_is_fresh(self, sizeof(*self)) && self->pSource == self && g_self == self)
__CPROVER_requires(ISet_wf(InitialIndices) && g_created_X == 0)
__CPROVER_assigns(EM, g_created, g_created_X, g_created_for, g_created_el, iset_cur, g_all)
__CPROVER_ensures(PRES_WF(EM) && INV(EM))
/* (g: key X) every requested key is in the container afterwards, with exactly one element created for it */
__CPROVER_ensures((InitialIndices.n != 0 && InitialIndices.ghas) ==> (EM.gpresent && g_created_X == 1))
/* nothing is created twice, and a key is present only if an element was created for it */
__CPROVER_ensures(g_created_X == (EM.gpresent ? 1UL : 0UL))
//@loop 1
__CPROVER_assigns(iter.pos, EM, g_created, g_created_X, g_created_for, g_created_el, iset_cur)
__CPROVER_loop_invariant(0 <= iter.pos && iter.pos <= II.n && iter.s == &II)
__CPROVER_loop_invariant(PRES_WF(EM) && INV(EM) && g_created_X == (EM.gpresent ? 1UL : 0UL))
__CPROVER_loop_invariant((II.ghas && iter.pos > II.gpos) ==> EM.gpresent)
__CPROVER_decreases(II.n - iter.pos)
//@end
//@harness h_IC2C_fill enforce=IC2C_fill replace=IC2C_set props=C01 min_obl=679 reach=1 timeout=300
void h_IC2C_fill(void)
{
  struct GFContainer *c; ISet s;
  IC2C_fill(c, s);
  REACH("exit");
}

/* ---- the two-index overloads (observation point of C01: GFContainer::operator()(i,j)): forwards to the pair versions with the
 * pair (i,j) in this order */
//@rename GFContainer_call/1 => IC2C_call
//@function Pomerol::IndexContainer2<Pomerol::GreensFunction, Pomerol::GFContainer>::operator()(unsigned int, unsigned int) as IC2C_call_ij
//@contract
__CPROVER_requires(__CPROVER_is_fresh(self, sizeof(*self)) && self->pSource == self && g_self == self && g_created == 0)
__CPROVER_requires(PRES_WF(EM) && INV(EM))
__CPROVER_assigns(EM, g_created, g_created_X, g_created_for, g_created_el)
__CPROVER_ensures(PRES_WF(EM) && INV(EM))
/* (g: X = (i,j)) the element returned is the one stored under (i,j), created by createElement for (i,j) */
__CPROVER_ensures((Index1 == g_X.Index1 && Index2 == g_X.Index2) ==> (EM.gpresent && __CPROVER_return_value == EM.g.second.p && EM.g.second.creator.Index1 == Index1 && EM.g.second.creator.Index2 == Index2))
__CPROVER_ensures((Index1 == g_X.Index1 && Index2 == g_X.Index2 && __CPROVER_old(EM.gpresent)) ==> (g_created == 0 && gpair_same(EM.g, __CPROVER_old(EM.g))))
__CPROVER_ensures((Index1 == g_X.Index1 && Index2 == g_X.Index2 && !__CPROVER_old(EM.gpresent)) ==> (g_created == 1 && g_created_for.Index1 == Index1 && g_created_for.Index2 == Index2 && __CPROVER_return_value == g_created_el))
__CPROVER_ensures(!(Index1 == g_X.Index1 && Index2 == g_X.Index2) ==> (EM.gpresent == __CPROVER_old(EM.gpresent) && (!EM.gpresent || gpair_same(EM.g, __CPROVER_old(EM.g)))))
//@end
//@harness h_IC2C_call_ij enforce=IC2C_call_ij replace=IC2C_call props=C01 min_obl=424 reach=2 timeout=300
void h_IC2C_call_ij(void)
{
  struct GFContainer *c; unsigned int i, j;
  struct GreensFunction *r = IC2C_call_ij(c, i, j);
  if (g_created) REACH("miss"); else REACH("hit");
}
//@function Pomerol::IndexContainer2<Pomerol::GreensFunction, Pomerol::GFContainer>::isInContainer(unsigned int, unsigned int) const as IC2C_isInContainer_ij
//@contract
__CPROVER_requires(__CPROVER_is_fresh(self, sizeof(*self)))
__CPROVER_assigns()
__CPROVER_ensures((Index1 == g_X.Index1 && Index2 == g_X.Index2) ==> __CPROVER_return_value == (EM.gpresent != 0))
//@end
//@harness h_IC2C_isInContainer_ij enforce=IC2C_isInContainer_ij replace=IC2C_isInContainer props=C01 min_obl=62 reach=1 timeout=120
void h_IC2C_isInContainer_ij(void)
{
  struct GFContainer *c; unsigned int i, j;
  _Bool r = IC2C_isInContainer_ij(c, i, j);
  REACH("exit");
}

/* ======================= GFContainer::prepareAll, computeAll =======================
 * (g: entry X of ElementsMap, arbitrary => every entry)  prepareAll(I): INV afterwards; every key listed in I is present; the element of
 * entry X is prepared exactly once (prepare() returns normally => Status >= Prepared); an operator that is not prepared makes
 * prepare() throw and prepareAll propagates (INV still holds).   computeAll(): compute() exactly once on the element of entry X,
 * Computed afterwards; the map is not modified (frame).
 * The Status of the ghost entry's element is the ghost scalar g_gstatus (element pointers are never dereferenced);
 * shared_ptr::operator-> tells the monitors whether the pointer used is the one stored in the ghost entry.
 * GreensFunction::prepare / compute are MONITORS carrying the Status clauses of the contracts proved in specs/gf.c (h_GF_prepare,
 * h_GF_compute): prepare: already prepared -> nothing; operator not prepared -> exStatusMismatch, status unchanged; else Prepared.
 * compute: already computed -> nothing; not prepared -> prepare() first (may throw); then Computed. */
unsigned int g_gstatus;            /* Status of the element of the ghost entry */
_Bool g_gvanishing;                /* its Vanishing flag: true until prepare() has found a part (proved in specs/gf.c: h_GF_ctor ensures Vanishing,
                                      h_GF_prepare: Status >= Prepared || (Vanishing && no parts) is kept, Vanishing <=> no part afterwards) */
_Bool g_at_ghost;                  /* the shared pointer dereferenced last is the one stored in the ghost entry */
unsigned long g_prep_hits, g_comp_hits, g_n_calls;
static inline struct GreensFunction *GFPtr_arrow(GFPtr *s)
{
  g_at_ghost = (s == &g_self->ElementsMap.g.second);
  if (g_at_ghost) __CPROVER_assert(s->p != (void *)0, "boost::shared_ptr::operator->: the pointer of a listed entry is not null");
  return s->p;
}
void GreensFunction_prepare(struct GreensFunction *e)
{
  g_n_calls++;
  if (!g_at_ghost) return;
  g_prep_hits++; REACH("prepare_ghost");
  if (g_gstatus >= Prepared) return;
  if (nondet_bool()) { VERIF_THROW("exStatusMismatch"); return; }
  g_gstatus = Prepared; g_gvanishing = nondet_bool();
}
/* GreensFunction::isVanishing(): the flag of the element (not called by the unchanged container code; modelled so that a change that
 * consults it is decided instead of being reported as missing vocabulary) */
static inline _Bool GreensFunction_isVanishing(struct GreensFunction *e)
{
  if (!g_at_ghost) return nondet_bool();
  return g_gvanishing;
}
void GreensFunction_compute(struct GreensFunction *e)
{
  g_n_calls++;
  if (!g_at_ghost) return;
  g_comp_hits++; REACH("compute_ghost");
  if (g_gstatus >= Computed) return;
  if (g_gstatus < Prepared) { if (nondet_bool()) { VERIF_THROW("exStatusMismatch"); return; } g_gvanishing = nondet_bool(); }
  g_gstatus = Computed;
}
//@maythrow GreensFunction_prepare GreensFunction_compute
//@tu src/pomerol/GFContainer.cpp
//@function Pomerol::GFContainer::prepareAll(std::set<Pomerol::IndexCombination2, std::less<Pomerol::IndexCombination2>, std::allocator<Pomerol::IndexCombination2> > const&) as GFC_prepareAll
//@contract
__CPROVER_requires(__CPROVER_is_fresh(self, sizeof(*self)) && self->pSource == self && g_self == self)
__CPROVER_requires(__CPROVER_is_fresh(InitialIndices, sizeof(*InitialIndices)) && ISet_wf(*InitialIndices))
__CPROVER_requires(!VERIF_thrown && g_prep_hits == 0 && g_created_X == 0 && (g_gstatus >= Prepared || g_gvanishing))
__CPROVER_assigns(EM, g_created, g_created_X, g_created_for, g_created_el, iset_cur, g_all, gmap_n, gmap_gpos, g_gstatus, g_gvanishing, g_at_ghost, g_prep_hits, g_n_calls, VERIF_thrown)
__CPROVER_ensures(PRES_WF(EM) && INV(EM))
__CPROVER_ensures((InitialIndices->n != 0 && InitialIndices->ghas) ==> (EM.gpresent && g_created_X == 1))
__CPROVER_ensures((!VERIF_thrown && EM.gpresent) ==> (g_prep_hits == 1 && g_gstatus >= Prepared))
__CPROVER_ensures(!EM.gpresent ==> g_prep_hits == 0)
//@loop 1
__CPROVER_assigns(iter.idx, iter.pos, EM.other, g_gstatus, g_gvanishing, g_at_ghost, g_prep_hits, g_n_calls, VERIF_thrown)
__CPROVER_loop_invariant(iter.m == &EM && 0 <= iter.idx && iter.idx <= gmap_n && iter.pos == GMAP_POS(&EM, iter.idx) && !VERIF_thrown)
__CPROVER_loop_invariant(g_prep_hits == ((EM.gpresent && iter.idx > gmap_gpos) ? 1UL : 0UL))
__CPROVER_loop_invariant((EM.gpresent && iter.idx > gmap_gpos) ==> g_gstatus >= Prepared)
__CPROVER_decreases(gmap_n - iter.idx)
//@end
//@harness h_GFC_prepareAll enforce=GFC_prepareAll replace=IC2C_fill props=C01 min_obl=488 reach=4 timeout=300
void h_GFC_prepareAll(void)
{
  struct GFContainer *c; ISet *s;
  GFC_prepareAll(c, s);
  if (VERIF_thrown) REACH("exit_thrown"); else if (g_prep_hits) REACH("exit_prepared"); else REACH("exit_absent");
}
//@function Pomerol::GFContainer::computeAll() as GFC_computeAll
//@contract
__CPROVER_requires(__CPROVER_is_fresh(self, sizeof(*self)) && g_self == self)
__CPROVER_requires(PRES_WF(EM) && INV(EM) && !VERIF_thrown && g_comp_hits == 0 && (g_gstatus >= Prepared || g_gvanishing))
/* frame: presence bit and entry of the ghost key are not written => the container is unchanged, INV is preserved */
__CPROVER_assigns(EM.other, gmap_n, gmap_gpos, g_gstatus, g_gvanishing, g_at_ghost, g_comp_hits, g_n_calls, VERIF_thrown)
__CPROVER_ensures((!VERIF_thrown && EM.gpresent) ==> (g_comp_hits == 1 && g_gstatus >= Computed))
__CPROVER_ensures(!EM.gpresent ==> g_comp_hits == 0)
//@loop 1
__CPROVER_assigns(iter.idx, iter.pos, EM.other, g_gstatus, g_gvanishing, g_at_ghost, g_comp_hits, g_n_calls, VERIF_thrown)
__CPROVER_loop_invariant(iter.m == &EM && 0 <= iter.idx && iter.idx <= gmap_n && iter.pos == GMAP_POS(&EM, iter.idx) && !VERIF_thrown)
__CPROVER_loop_invariant(g_comp_hits == ((EM.gpresent && iter.idx > gmap_gpos) ? 1UL : 0UL))
__CPROVER_loop_invariant((EM.gpresent && iter.idx > gmap_gpos) ==> g_gstatus >= Computed)
__CPROVER_decreases(gmap_n - iter.idx)
//@end
//@harness h_GFC_computeAll enforce=GFC_computeAll props=C01 min_obl=335 reach=4 timeout=300
void h_GFC_computeAll(void)
{
  struct GFContainer *c;
  GFC_computeAll(c);
  if (VERIF_thrown) REACH("exit_thrown"); else if (g_comp_hits) REACH("exit_computed"); else REACH("exit_absent");
}

/* =====================================================================================================================
 * WHAT IS PROVED (ghost key X = (i,j) arbitrary => for every pair), WHAT IS NOT
 *
 * h_IC2C_isInContainer: isInContainer(K) == (K is a key of ElementsMap).
 * h_IC2C_set: set(K) creates exactly one element, through the container's own createElement, for K; stores it under K (an existing
 *   entry is replaced) and returns it; no other key is touched; INV preserved.
 * h_IC2C_call (set replaced by its contract): operator()(K): hit -> the stored element, nothing created, nothing changed; miss -> exactly
 *   one element created for K, stored and returned; in both cases THE C01 CLAUSE: the element returned for (i,j) is the one stored under
 *   (i,j) and it is the element createElement made for (i,j) (creator == (i,j)); other keys untouched; INV preserved.
 *   With h_GFContainer_createElement (specs/containers.c: that element is built from c_i, c^+_j and the container's S, H, DM) the
 *   value read through the container is the value of the stand-alone object G_ij.
 * h_IC2C_fill (set replaced): from ANY prior state: INV; every listed key present; exactly one element created per present key
 *   (none twice, none present without a creation); iterator safety; termination.
 * h_GFC_prepareAll (fill replaced): INV; every listed key present (one element created for it); the element of EVERY entry of
 *   ElementsMap (ghost entry) is prepared exactly once and is >= Prepared on normal return; exStatusMismatch of an element propagates.
 * h_GFC_computeAll: compute() exactly once on the element of every entry; Computed afterwards on normal return; the container is not
 *   modified (frame: only the model's scratch entry is written).
 * History: INV is pre- and post-condition of set / operator() / computeAll and is established by fill / prepareAll from any state =>
 *   it holds after every sequence of these calls.
 * h_IC2C_call_ij / h_IC2C_isInContainer_ij: the two-index overloads forward the pair (i,j) in this order (callee replaced by its contract).
 * NOT proved: enumerateInitialIndices
 *   (contents of the default index set); release of replaced elements (shared_ptr reference counting is not modelled).
 *
 * ASSUMPTIONS / TRUSTED MODELS: std::map ghost-key model incl. operator[] and the iteration view (see the model comment); std::set
 *   iteration; shared_ptr as (pointer, ghost creator), operator* / -> return the pointer; operator new does not return null;
 *   Status clauses of GreensFunction::prepare / compute (specs/gf.c); the non-null obligation of shared_ptr dereference is checked for
 *   the ghost entry and local pointers only (nothing is known about other entries in a ghost-key model; the ghost key is arbitrary).
 *
 * MUTANTS (scratch worktree, re-extracted; obligation that failed)
 *   set:  `ElementsMap[Indices] = pElement` removed                    -> IC2C_set.postcondition.4
 *         createElement(IndexCombination2(Index2, Index1))             -> IC2C_set.postcondition.1-.4
 *   IndexCombination2::operator< : `Index2 < rhs.Index1`               -> IC2C_set.postcondition.1/.4/.5
 *   operator(): `iter != end()`                                        -> GMapIt_arrow.assertion.1, IC2C_call.postcondition.2-.4
 *         hit branch `return set(Indices)`                             -> IC2C_call.postcondition.3
 *   fill: `if(isInContainer(*iter))`                                   -> invariant step (IC2C_fill_wrapped_for_contract_checking.6/.7)
 *         `ElementsMap.clear()` removed                                -> IC2C_fill.postcondition.1/.3, IC2C_set.precondition.2, invariant base
 *         (guard removed: semantically equivalent for a std::set; fails the loop invariant as written -- not counted)
 *   prepareAll: prepare() -> compute()                                 -> GreensFunction_compute.assigns.2, invariant step (..._wrapped_for_contract_checking.6)
 *         fill() removed                                               -> GFC_prepareAll.postcondition.1/.2, GFPtr_arrow.assertion.1
 *   computeAll: compute() -> prepare()                                 -> GreensFunction_prepare.assigns.2, invariant step (.6/.7)
 *   operator()(i,j): IndexCombination2(Index2,Index1)                  -> IC2C_call_ij.postcondition.2-.5
 *   isInContainer(i,j): IndexCombination2(Index1,Index1)               -> IC2C_isInContainer_ij.postcondition.1
 */
