/* Symmetrizer (C07): acceptance test of an integral of motion, default candidates N and S_z.
 *   Symmetrizer::checkSymmetry(const Operator&)
 *   Symmetrizer::compute(bool ignore_symmetries)
 */
#include "../stubs/common.h"
//@include types_common.inc
//@type boost::shared_ptr<(Pomerol::)?Operator> => OpPtr val
//@type std::vector<boost::shared_ptr<(Pomerol::)?Operator>.*> => VecOpPtr ptr
//@type std::vector<(Pomerol::)?ParticleIndex>|std::vector<unsigned int(, std::allocator<unsigned int> ?)?> => UVecCnt ptr
//@record Pomerol::IndexHamiltonian => struct Operator ptr
//@record Pomerol::OperatorPresets::N => struct Operator ptr
//@record Pomerol::OperatorPresets::Sz => struct Operator ptr
//@record Pomerol::IndexClassification::IndexInfo => IdxInfo val
//@rename Operator_ctor1 => PresetN_make
//@rename Operator_ctor2 => PresetSz_make
//@maythrow PresetSz_make
//@free n => preset_n
//@tu src/pomerol/Symmetrizer.cpp
//@enum ComputableObject::
//@enum spin

/* ---- Operator: an opaque value (identity `id`); a copy has the same id.  `commutes` is an ORACLE (uninterpreted
 * function of the two operators): the algebra behind it is the subject of specs/operator.c. */
struct Operator { unsigned long id; int is_n; unsigned int nidx; };
_Bool __CPROVER_uninterpreted_commutes(unsigned long, unsigned long);
unsigned long __CPROVER_uninterpreted_nid(unsigned int);            /* identity of OperatorPresets::n(i) */
#define COMMUTES(a_id, b_id) __CPROVER_uninterpreted_commutes((a_id), (b_id))
#define N_ID(i) __CPROVER_uninterpreted_nid(i)
#define preset_n(i_) ((struct Operator){ N_ID(i_), 1, (i_) })
unsigned int g_i;         /* ghost: an ARBITRARY mode index (soundness direction) */
_Bool g_ci;           /* = COMMUTES(n(g_i), in), evaluated by the stub of `new Operator(in)` at function entry (no calls in loop invariants) */
unsigned int g_wit;       /* WITNESS: the mode whose occupation number does not commute (completeness direction) */
static inline _Bool Operator_commutes(struct Operator *a, struct Operator *b)
{
  _Bool r = COMMUTES(a->id, b->id);
  if (!r && a->is_n) g_wit = a->nidx;
  return r;
}
/* new Operator(in) / boost::shared_ptr: a fresh object holding a copy */
typedef struct OpPtr { struct Operator *p; } OpPtr;
void *malloc(size_t);
static inline struct Operator *Operator_new1(struct Operator *in)
{
  struct Operator *p = malloc(sizeof(struct Operator));
  __CPROVER_assume(p != (struct Operator *)0);      /* ASSUMED: allocation succeeds (operator new throws otherwise) */
  *p = *in; p->is_n = 0;
  g_ci = COMMUTES(N_ID(g_i), in->id);      /* ghost bookkeeping only */
  return p;
}
static inline OpPtr OpPtr_ctor1(struct Operator *p) { OpPtr r; r.p = p; return r; }
static inline struct Operator *OpPtr_mul(OpPtr *s) { __CPROVER_assert(s->p != (struct Operator *)0, "shared_ptr dereferenced while non-null"); return s->p; }
/* std::vector<shared_ptr<Operator>> Operations: MONITOR -- size and the identity of the last operator appended */
typedef struct VecOpPtr { unsigned long size; unsigned long last_id; } VecOpPtr;
static inline void VecOpPtr_push_back(VecOpPtr *v, OpPtr x) { v->size++; v->last_id = x.p->id; REACH("append"); }
#define SYM_MAX 1000000UL

/* IndexClassification: an ARBITRARY index table -- every query of an index's spin returns an arbitrary value */
typedef struct IdxInfo { unsigned short Spin; } IdxInfo;
struct IndexClassification { unsigned int IndexSize; };
static inline unsigned int IndexClassification_getIndexSize(struct IndexClassification *ic) { return ic->IndexSize; }
unsigned short nondet_ushort(void);
static inline IdxInfo IndexClassification_getInfo(struct IndexClassification *ic, unsigned int i)
{
  __CPROVER_assert(i < ic->IndexSize, "IndexClassification::getInfo: index < IndexSize (throws exWrongIndex otherwise)");
  IdxInfo r; r.Spin = nondet_ushort(); return r;
}

//@struct Pomerol::Symmetrizer only=Status,IndexSize,NSymmetries,Operations,Storage,IndexInfo embed=Storage,IndexInfo

//@function Pomerol::Symmetrizer::checkSymmetry(Pomerol::Operator const&) as Symmetrizer_checkSymmetry
//@contract
__CPROVER_requires(__CPROVER_is_fresh(self, sizeof(*self)) && __CPROVER_is_fresh(in, sizeof(*in)))
/* TYPE INVARIANT: one accepted operation per symmetry */
__CPROVER_requires(self->NSymmetries >= 0 && (unsigned long)self->NSymmetries == self->Operations.size && self->Operations.size < SYM_MAX)
__CPROVER_assigns(self->Operations, self->NSymmetries, g_wit, g_ci)
/* accepted => [H, in] = 0 and [n_i, in] = 0 for the arbitrary mode g_i < IndexSize */
__CPROVER_ensures(__CPROVER_return_value ==> (COMMUTES(self->Storage.id, in->id) && (g_i < self->IndexSize ==> COMMUTES(N_ID(g_i), in->id))))
/* rejected => [H, in] != 0, or [n_i, in] != 0 for the witness mode */
__CPROVER_ensures(!__CPROVER_return_value ==> (!COMMUTES(self->Storage.id, in->id) || (g_wit < self->IndexSize && !COMMUTES(N_ID(g_wit), in->id))))
/* a copy of the operator is appended iff it is accepted; nothing else changes */
__CPROVER_ensures(self->Operations.size == __CPROVER_old(self->Operations.size) + (__CPROVER_return_value ? 1UL : 0UL))
__CPROVER_ensures(self->NSymmetries == __CPROVER_old(self->NSymmetries) + (__CPROVER_return_value ? 1 : 0))
__CPROVER_ensures(__CPROVER_return_value ==> self->Operations.last_id == in->id)
__CPROVER_ensures(!__CPROVER_return_value ==> self->Operations.last_id == __CPROVER_old(self->Operations.last_id))
//@loop 1
__CPROVER_assigns(i, g_wit)
__CPROVER_loop_invariant(i <= self->IndexSize && OP1.p->id == in->id && !OP1.p->is_n && g_ci == __CPROVER_loop_entry(g_ci))
__CPROVER_loop_invariant(g_i < i ==> g_ci)
__CPROVER_decreases(self->IndexSize - i)
//@end
//@harness h_checkSymmetry enforce=Symmetrizer_checkSymmetry props=C07 min_obl=355 reach=4 timeout=120
void h_checkSymmetry(void)
{
  struct Symmetrizer *s; struct Operator *in;
  g_i = nondet_ulong(); g_wit = nondet_ulong(); g_ci = nondet_bool();
  _Bool r = Symmetrizer_checkSymmetry(s, in);
  REACH("exit");
  if (r) REACH("accepted"); else REACH("rejected");
}

/* ---- default candidates.  OperatorPresets::N(Nmodes): no pre-condition.
 * OperatorPresets::Sz(Nmodes, SpinUpIndices): DOCUMENTED PRE-CONDITION "Sz operator requires even number of indices":
 * the constructor collects the remaining indices as spin-down and THROWS exWrongLabel unless there are as many down as
 * up indices (OperatorPresets.cpp:45) -- a throwing stub; the caller must establish the pre-condition. */
typedef struct UVecCnt { unsigned long size; } UVecCnt;     /* only the number of (distinct, increasing) entries matters here */
static inline UVecCnt UVecCnt_ctor0(void) { UVecCnt v; v.size = 0; return v; }
static inline void UVecCnt_push_back(UVecCnt *v, unsigned int x) { (void)x; v->size++; }
static inline unsigned long UVecCnt_size(UVecCnt *v) { return v->size; }
unsigned long nondet_ulong_id(void);
static inline struct Operator PresetN_make(unsigned int nmodes) { struct Operator o; o.id = nondet_ulong(); o.is_n = 0; o.nidx = 0; (void)nmodes; REACH("N"); return o; }
static inline struct Operator PresetSz_make(unsigned int nmodes, UVecCnt *up)
{
  struct Operator o; o.id = nondet_ulong(); o.is_n = 0; o.nidx = 0;
  /* the entries of `up` are distinct indices < nmodes (they are pushed for increasing i < IndexSize) */
  __CPROVER_assert(up->size <= nmodes, "Sz: the spin-up indices are distinct indices below Nmodes");
  if (up->size != (unsigned long)nmodes - up->size) { VERIF_THROW("Operator::exWrongLabel"); REACH("Sz-throws"); }
  else REACH("Sz");
  return o;
}
unsigned long g_ops_before;
//@function Pomerol::Symmetrizer::compute(bool) as Symmetrizer_compute_b
//@contract
__CPROVER_requires(__CPROVER_is_fresh(self, sizeof(*self)) && !VERIF_thrown)
__CPROVER_requires(self->NSymmetries >= 0 && (unsigned long)self->NSymmetries == self->Operations.size && self->Operations.size < SYM_MAX - 2)
__CPROVER_requires(g_ops_before == self->Operations.size)
__CPROVER_assigns(self->Status, self->IndexSize, self->Operations, self->NSymmetries, g_wit, g_ci, VERIF_thrown)
/* C07: "the analysis completes without error for every lattice, including spinless sites and sites with different numbers
 * of spins": no exception escapes, whatever the index table says */
__CPROVER_ensures(!VERIF_thrown && self->Status >= Computed)
/* ignored symmetries (or already computed): no operation is added; otherwise at most N and S_z */
__CPROVER_ensures((ignore_symmetries || __CPROVER_old(self->Status) >= Computed) ==> self->Operations.size == g_ops_before)
__CPROVER_ensures(self->Operations.size <= g_ops_before + 2 && (unsigned long)self->NSymmetries == self->Operations.size)
//@loop 1
__CPROVER_assigns(i, valid_sz)
__CPROVER_loop_invariant(i <= self->IndexSize)
__CPROVER_decreases(self->IndexSize - i)
//@loop 2
__CPROVER_assigns(i, SpinUpIndices.size)
__CPROVER_loop_invariant(i <= self->IndexSize && SpinUpIndices.size <= i)
__CPROVER_decreases(self->IndexSize - i)
//@end
//@harness h_Symmetrizer_compute enforce=Symmetrizer_compute_b replace=Symmetrizer_checkSymmetry props=C07 min_obl=409 reach=3 timeout=180
void h_Symmetrizer_compute(void)
{
  struct Symmetrizer *s; _Bool ignore;
  g_ops_before = nondet_ulong(); VERIF_thrown = 0;
  Symmetrizer_compute_b(s, ignore);
  REACH("exit");
}

/* ---------------------------------------------------------------------------------------------------------------------
 * KNOWN FINDING D9 is not decided here: the post-condition of checkSymmetry (commutes with H and with every n_i) is all an
 * accepted integral guarantees; it does not imply the pre-condition SingleTarget of FieldOperator::mapsTo (specs/states.c).
 * The obligation that cannot be discharged for accepted non-linear diagonal integrals is the `requires` of
 * FieldOperator_mapsTo (SingleTarget clause) at its call sites in Creation/Annihilation/QuadraticOperator::prepare.
 *
 * MUTATION LOG (all killed):
 *  pre-fix f9d8073^ (Sz built unconditionally)               Symmetrizer_compute_b.postcondition.1 (an exception escapes)
 *  compute: `2*size == IndexSize` -> `<=`                     Symmetrizer_compute_b.postcondition.1
 *  compute: `!ignore_symmetries` -> `ignore_symmetries`       Symmetrizer_compute_b.postcondition.2
 *  checkSymmetry: drop the Storage.commutes test              Symmetrizer_checkSymmetry.postcondition.1
 *  checkSymmetry: loop from i = 1                             Symmetrizer_checkSymmetry.postcondition.1, loop_invariant_base.2
 *  checkSymmetry: `return false` in the loop -> `break`       Symmetrizer_checkSymmetry.postcondition.1
 *  checkSymmetry: drop Operations.push_back                   Symmetrizer_checkSymmetry.postcondition.3/.5
 * ------------------------------------------------------------------------------------------------------------------- */
