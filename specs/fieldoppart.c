/* FieldOperatorPart::getLeftIndex / getRightIndex, AnnihilationOperatorPart::transpose(), CreationOperatorPart::transpose().   C10.
 *
 * Documentation (include/pomerol/FieldOperatorPart.h): HFrom "the HamiltonianPart on the right hand side", HTo "... on the left hand
 * side"; getRightIndex "Returns the right hand side index", getLeftIndex "Returns the left hand side index";
 * transpose() "Construct the CreationOperatorPart from the class (transpose it)" / "Construct the AnnihilationOperatorPart ...".
 * Proved: getRightIndex() == HFrom.getBlockNumber(), getLeftIndex() == HTo.getBlockNumber(), nothing written.
 *   transpose(): returns a NEW part of the OPPOSITE kind, constructed from this part's IndexInfo, S and index with the two
 *   Hamiltonian parts SWAPPED (so its right block is this part's left block and vice versa); its row-major matrix is assigned
 *   transpose(this row-major matrix), its column-major matrix transpose(this column-major matrix), each exactly once, with the
 *   dimensions swapped; this part is not modified.  The new part's Status stays what the constructor sets (Constructed): the
 *   header promises nothing about it.  Neither transpose() is called from src/, prog/ or tutorial/ (library-wise dead code; only
 *   test/FieldOperatorPartTest.cpp:110 calls CreationOperatorPart::transpose()); CreationOperator::transpose() /
 *   AnnihilationOperator::transpose() (FieldOperator.h) are declared but defined nowhere.
 * ASSUMED (Eigen): `dst = src.transpose()` for compressed sparse matrices gives a compressed matrix with rows and columns
 *   exchanged and tightly allocated arrays (content not modelled).  ASSUMED: `new` succeeds and returns a fresh object.
 */
#include "../stubs/common.h"
#include "../stubs/sparse.h"
#include <stdlib.h>
//@include types_common.inc
//@type (const )?Eigen::Transpose<.*> => TrView val
//@record Pomerol::BlockNumber => BlockNumber val
//@record Pomerol::CreationOperatorPart => CXPart ptr
//@record Pomerol::AnnihilationOperatorPart => CPart ptr
//@tu src/pomerol/FieldOperatorPart.cpp
//@enum ComputableObject::
typedef struct BlockNumber { int number; } BlockNumber;
struct IndexClassification { char opaque; }; struct StatesClassification { char opaque; };
struct HamiltonianPart { int block; };            /* ghost: what getBlockNumber() returns (contract: specs/hamacc.c) */
static inline BlockNumber HamiltonianPart_getBlockNumber(struct HamiltonianPart *h) { BlockNumber b; b.number = h->block; return b; }
//@struct Pomerol::FieldOperatorPart only=Status,IndexInfo,S,HFrom,HTo,PIndex,elementsRowMajor,elementsColMajor
//@extra
int kind;                                         /* ghost: 1 = creation part, 2 = annihilation part */
//@end
typedef struct FieldOperatorPart CXPart;
typedef struct FieldOperatorPart CPart;

//@function Pomerol::FieldOperatorPart::getLeftIndex() const as FOP_getLeftIndex
//@contract
__CPROVER_requires(__CPROVER_is_fresh(self, sizeof(*self)) && __CPROVER_is_fresh(self->HTo, sizeof(struct HamiltonianPart)) && __CPROVER_is_fresh(self->HFrom, sizeof(struct HamiltonianPart)))
__CPROVER_assigns()
__CPROVER_ensures(__CPROVER_return_value.number == self->HTo->block)
//@end
//@harness h_FOP_getLeftIndex enforce=FOP_getLeftIndex props=C10 min_obl=45 reach=1 timeout=60
void h_FOP_getLeftIndex(void) { struct FieldOperatorPart *p; FOP_getLeftIndex(p); REACH("exit"); }
//@function Pomerol::FieldOperatorPart::getRightIndex() const as FOP_getRightIndex
//@contract
__CPROVER_requires(__CPROVER_is_fresh(self, sizeof(*self)) && __CPROVER_is_fresh(self->HTo, sizeof(struct HamiltonianPart)) && __CPROVER_is_fresh(self->HFrom, sizeof(struct HamiltonianPart)))
__CPROVER_assigns()
__CPROVER_ensures(__CPROVER_return_value.number == self->HFrom->block)
//@end
//@harness h_FOP_getRightIndex enforce=FOP_getRightIndex props=C10 min_obl=45 reach=1 timeout=60
void h_FOP_getRightIndex(void) { struct FieldOperatorPart *p; FOP_getRightIndex(p); REACH("exit"); }

/* ---- constructors (FieldOperatorPart.h: "HFrom ... right hand side", "HTo ... left hand side", "PIndex Index of the field operator") */
static inline struct FieldOperatorPart *part_new(int kind, struct IndexClassification *I, struct StatesClassification *S,
                                                 struct HamiltonianPart *hfrom, struct HamiltonianPart *hto, unsigned int idx)
{
  struct FieldOperatorPart *p = malloc(sizeof(struct FieldOperatorPart));
  __CPROVER_assume(p != (struct FieldOperatorPart *)0);       /* ASSUMED: new succeeds */
  p->Status = Constructed; p->IndexInfo = I; p->S = S; p->HFrom = hfrom; p->HTo = hto; p->PIndex = idx; p->kind = kind;
  p->elementsRowMajor.outerSize = 0; p->elementsRowMajor.innerSize = 0; p->elementsRowMajor.nnz = 0;   /* default-constructed: 0 x 0 */
  p->elementsColMajor.outerSize = 0; p->elementsColMajor.innerSize = 0; p->elementsColMajor.nnz = 0;
  return p;
}
#define CXPart_new5(I, S, f, t, i) part_new(1, (I), (S), (f), (t), (i))
#define CPart_new5(I, S, f, t, i)  part_new(2, (I), (S), (f), (t), (i))
/* ---- m.transpose() and the assignment of it: monitors */
typedef struct TrView { SparseM *src; } TrView;
#define SparseRM_transpose(m) (*(TrView[1]){ { (m) } })
#define SparseCM_transpose(m) (*(TrView[1]){ { (m) } })
SparseM *g_rm_dst, *g_rm_src, *g_cm_dst, *g_cm_src; unsigned long g_rm_n, g_cm_n;
static inline void sparse_assign_transposed(SparseM *dst, SparseM *src)
{
  /* ASSUMED (Eigen): same storage order, rows and columns exchanged: outer <-> inner; compressed, tight arrays */
  dst->outerSize = src->innerSize; dst->innerSize = src->outerSize; dst->nnz = src->nnz;
  dst->outer = malloc((size_t)(dst->outerSize + 1) * sizeof(int)); dst->inner = malloc((size_t)dst->nnz * sizeof(int)); dst->values = malloc((size_t)dst->nnz * 8UL);
  __CPROVER_assume(dst->outer != (int *)0 && dst->inner != (int *)0 && dst->values != (double *)0);
  dst->gpos = -1; dst->gouter = 0; dst->last_value_pos = -1; dst->last_value_outer = -1;
}
static inline void SparseRM_assign(SparseRM *dst, TrView *v) { g_rm_dst = dst; g_rm_src = v->src; g_rm_n++; sparse_assign_transposed(dst, v->src); }
static inline void SparseCM_assign(SparseCM *dst, TrView *v) { g_cm_dst = dst; g_cm_src = v->src; g_cm_n++; sparse_assign_transposed(dst, v->src); }

#define PART_WF(self) (__CPROVER_is_fresh(self, sizeof(*self)) && \
   0 <= self->elementsRowMajor.outerSize && self->elementsRowMajor.outerSize <= SP_MAX && 0 <= self->elementsRowMajor.innerSize && self->elementsRowMajor.innerSize <= SP_MAX && \
   0 <= self->elementsRowMajor.nnz && self->elementsRowMajor.nnz <= SP_MAX && \
   self->elementsColMajor.outerSize == self->elementsRowMajor.innerSize && self->elementsColMajor.innerSize == self->elementsRowMajor.outerSize && \
   0 <= self->elementsColMajor.nnz && self->elementsColMajor.nnz <= SP_MAX && g_rm_n == 0 && g_cm_n == 0)
#define TRANSPOSED(self, kind_) \
  __CPROVER_ensures(__CPROVER_return_value != self && __CPROVER_return_value->kind == (kind_)) \
  __CPROVER_ensures(__CPROVER_return_value->IndexInfo == self->IndexInfo && __CPROVER_return_value->S == self->S && __CPROVER_return_value->PIndex == self->PIndex) \
  /* blocks swapped: the new part's right-hand Hamiltonian part is this part's left-hand one and vice versa */ \
  __CPROVER_ensures(__CPROVER_return_value->HFrom == self->HTo && __CPROVER_return_value->HTo == self->HFrom) \
  /* status invariant "Computed => the matrices are the rotated operator" (what compute() establishes and every reader relies on): \
   * the new part may report Computed only if it received the matrices of a computed part (the code leaves it Constructed) */ \
  __CPROVER_ensures(__CPROVER_return_value->Status >= Computed ==> self->Status >= Computed) \
  /* matrices: each storage order receives the transpose of this part's matrix of the same order, once */ \
  __CPROVER_ensures(g_rm_n == 1 && g_rm_dst == &__CPROVER_return_value->elementsRowMajor && g_rm_src == &self->elementsRowMajor) \
  __CPROVER_ensures(g_cm_n == 1 && g_cm_dst == &__CPROVER_return_value->elementsColMajor && g_cm_src == &self->elementsColMajor) \
  __CPROVER_ensures(__CPROVER_return_value->elementsRowMajor.outerSize == self->elementsRowMajor.innerSize && __CPROVER_return_value->elementsRowMajor.innerSize == self->elementsRowMajor.outerSize) \
  __CPROVER_ensures(__CPROVER_return_value->elementsColMajor.outerSize == self->elementsColMajor.innerSize && __CPROVER_return_value->elementsColMajor.innerSize == self->elementsColMajor.outerSize)

//@function Pomerol::AnnihilationOperatorPart::transpose() const as AOP_transpose
//@contract
__CPROVER_requires(PART_WF(self) && self->kind == 2)
__CPROVER_assigns(g_rm_dst, g_rm_src, g_cm_dst, g_cm_src, g_rm_n, g_cm_n)
TRANSPOSED(self, 1)
//@end
//@harness h_AOP_transpose enforce=AOP_transpose props=C10 min_obl=504 reach=1 timeout=120
void h_AOP_transpose(void) { struct FieldOperatorPart *p; AOP_transpose(p); REACH("exit"); }

//@function Pomerol::CreationOperatorPart::transpose() const as COP_transpose
//@contract
__CPROVER_requires(PART_WF(self) && self->kind == 1)
__CPROVER_assigns(g_rm_dst, g_rm_src, g_cm_dst, g_cm_src, g_rm_n, g_cm_n)
TRANSPOSED(self, 2)
//@end
//@harness h_COP_transpose enforce=COP_transpose props=C10 min_obl=504 reach=1 timeout=120
void h_COP_transpose(void) { struct FieldOperatorPart *p; COP_transpose(p); REACH("exit"); }

/* ---- mutation record (tools/try_mutant.py; every mutant KILLED) -----------------------------------------------------------------
 * h_FOP_getLeftIndex:  HTo -> HFrom                                         FOP_getLeftIndex.postcondition.1
 * h_FOP_getRightIndex: HFrom -> HTo                                         FOP_getRightIndex.postcondition.1
 * h_AOP_transpose:     new CreationOperatorPart(.., HTo, HFrom, ..) -> (.., HFrom, HTo, ..)     AOP_transpose.postcondition.3 (blocks swapped)
 *                      `CX->elementsColMajor = elementsColMajor.transpose();` removed           postcondition.5/.7
 *                      elementsRowMajor = elementsRowMajor.transpose() -> elementsColMajor.transpose()   postcondition.4/.6
 * h_COP_transpose:     new AnnihilationOperatorPart(.., HTo, HFrom, ..) -> (.., HFrom, HTo, ..) COP_transpose.postcondition.3
 *                      `C->elementsRowMajor = elementsRowMajor.transpose();` removed            postcondition.4/.6
 */
