/* TermList<GreensFunctionPart::Term>::add_term and the three function objects it is built from (C01, mechanism
 * "term reduction: like poles merged within 1e-8, residues below tolerance dropped").
 *
 * Documentation used for the contracts (include/pomerol/TermList.h, GreensFunctionPart.h):
 *   "Like terms (equivalent w.r.t. TermType::Compare) are automatically collected and reduced to one term using operator+=().
 *    A term T is considered negligible and is automatically removed from the container if
 *    TermType::IsNegligible(T, current_number_of_terms + 1) evaluates to true."
 *   Term::operator+= : "This operator add a term to this one. It does not check the similarity of the terms!"
 *   Term            : "Every term is a fraction R/(z - P)" -- adding two fractions with the same P adds the residues.
 */
#include "../stubs/common.h"
#include "../stubs/cplx.h"
#include "../stubs/ordset.h"
//@include types_common.inc
//@record Pomerol::GreensFunctionPart::Term => GFTerm val
//@record Pomerol::GreensFunctionPart::Term::Compare => GFTermCompare val
//@record Pomerol::GreensFunctionPart::Term::IsNegligible => GFTermIsNegligible val
//@record Pomerol::TermList => TermListGF ptr
//@type std::set<(Pomerol::)?GreensFunctionPart::Term, (Pomerol::)?GreensFunctionPart::Term::Compare(, std::allocator<(Pomerol::)?GreensFunctionPart::Term> ?)?> => TermSet ptr
//@type std::_Rb_tree_const_iterator<(Pomerol::)?GreensFunctionPart::Term>(::_Self)?|std::set<.*>::(const_)?iterator => TermSetIt val
//@type (Pomerol::)?TermList<(Pomerol::)?GreensFunctionPart::Term> => TermListGF ptr
//@free abs(cplx) => c_abs
//@tu src/pomerol/GreensFunctionPart.cpp
typedef struct GFTerm GFTerm;
typedef struct GFTermCompare GFTermCompare;
typedef struct GFTermIsNegligible GFTermIsNegligible;
//@struct Pomerol::GreensFunctionPart::Term
//@struct Pomerol::GreensFunctionPart::Term::Compare
//@struct Pomerol::GreensFunctionPart::Term::IsNegligible
#define TERM_SAME(a, b) (C_SAME((a).Residue, (b).Residue) && D_SAME((a).Pole, (b).Pole))

/* =========================================================== Term::Compare::operator() and the equivalence it induces
 * term_like(c,a,b) = !c(a,b) && !c(b,a) is the equivalence std::set uses ("like terms").  Bit-precise floats:
 *   for finite poles and a tolerance that is not NaN:   like  <==>  b.Pole - a.Pole < Tolerance and a.Pole - b.Pole < Tolerance
 *                                                             <==>  |b.Pole - a.Pole| < Tolerance   ("poles within 1e-8"; h_Compare_like_abs)
 *   c(a,b) and Tolerance > 0  ==>  a.Pole < b.Pole                                              (terms are ordered by pole)
 * Nothing but the poles and the tolerance is looked at (the residues are unconstrained), nothing is written. */
static inline double f_abs(double x) { return x < 0.0 ? -x : x; }
//@function Pomerol::GreensFunctionPart::Term::Compare::operator()(Pomerol::GreensFunctionPart::Term const&, Pomerol::GreensFunctionPart::Term const&) const as GFTermCompare_call
//@contract
__CPROVER_requires(__CPROVER_is_fresh(self, sizeof(*self)))
__CPROVER_assigns()
#ifdef VERIF_FP_IEEE
__CPROVER_requires(d_finite(t1.Pole) && d_finite(t2.Pole) && self->Tolerance == self->Tolerance)
__CPROVER_ensures((__CPROVER_return_value && self->Tolerance > 0.0) ==> t1.Pole < t2.Pole)
__CPROVER_ensures((!__CPROVER_return_value && self->Tolerance > 0.0) ==> t2.Pole - t1.Pole < self->Tolerance)
#endif
//@end
_Bool term_like(GFTermCompare c, GFTerm a, GFTerm b)
__CPROVER_assigns()
#ifdef VERIF_FP_IEEE
__CPROVER_requires(d_finite(a.Pole) && d_finite(b.Pole) && c.Tolerance == c.Tolerance)
__CPROVER_ensures(__CPROVER_return_value == (b.Pole - a.Pole < c.Tolerance && a.Pole - b.Pole < c.Tolerance))
#ifdef VERIF_LIKE_ABS
__CPROVER_ensures(__CPROVER_return_value == (f_abs(b.Pole - a.Pole) < c.Tolerance))
#endif
#endif
{
  return !GFTermCompare_call(&c, a, b) && !GFTermCompare_call(&c, b, a);
}
//@harness h_Compare_order enforce=GFTermCompare_call props=C01 defs=-DVERIF_FP_IEEE min_obl=52 reach=1 timeout=300
void h_Compare_order(void)
{
  GFTermCompare *c; GFTerm a, b;
  GFTermCompare_call(c, a, b);
  REACH("exit");
}
//@harness h_Compare_like enforce=term_like props=C01 defs=-DVERIF_FP_IEEE min_obl=19 reach=1 timeout=900
void h_Compare_like(void)
{
  GFTermCompare c; GFTerm a, b;
  term_like(c, a, b);
  REACH("exit");
}

//@harness h_Compare_like_abs enforce=term_like props=C01 defs=-DVERIF_FP_IEEE,-DVERIF_LIKE_ABS min_obl=20 reach=1 timeout=900 tier=thorough
void h_Compare_like_abs(void)
{
  GFTermCompare c; GFTerm a, b;
  term_like(c, a, b);
  REACH("exit");
}

/* =========================================================== Term::IsNegligible::operator():  |Residue| < Tolerance / divisor */
static _Bool spec_negligible(GFTerm t, double tol, unsigned long divisor) { return D_LT(c_abs(t.Residue), D_DIV(tol, (double)divisor)); }
//@function Pomerol::GreensFunctionPart::Term::IsNegligible::operator()(Pomerol::GreensFunctionPart::Term const&, unsigned long) const as GFTermIsNegligible_call
//@contract
__CPROVER_requires(__CPROVER_is_fresh(self, sizeof(*self)))
__CPROVER_assigns()
__CPROVER_ensures(__CPROVER_return_value == spec_negligible(t, self->Tolerance, ToleranceDivisor))
//@end
//@harness h_IsNegligible enforce=GFTermIsNegligible_call props=C01 min_obl=33 reach=1 timeout=120
void h_IsNegligible(void)
{
  GFTermIsNegligible *p; GFTerm t; unsigned long n;
  GFTermIsNegligible_call(p, t, n);
  REACH("exit");
}

/* =========================================================== Term::operator+= : residues add, the pole of *this is kept */
static GFTerm spec_sum(GFTerm stored, GFTerm t) { GFTerm r; r.Residue = op_add_cplx_cplx(stored.Residue, t.Residue); r.Pole = stored.Pole; return r; }
//@function Pomerol::GreensFunctionPart::Term::operator+=(Pomerol::GreensFunctionPart::Term const&) as GFTerm_addassign
//@contract
__CPROVER_requires(__CPROVER_is_fresh(self, sizeof(*self)))
__CPROVER_assigns(self->Residue)
__CPROVER_ensures(__CPROVER_return_value == self)
__CPROVER_ensures(TERM_SAME(*self, spec_sum(__CPROVER_old(*self), AnotherTerm)))
//@end
//@harness h_Term_addassign enforce=GFTerm_addassign props=C01 min_obl=78 reach=1 timeout=120
void h_Term_addassign(void)
{
  GFTerm *t; GFTerm u;
  GFTerm_addassign(t, u);
  REACH("exit");
}

/* =========================================================== TermList<Term>::add_term
 * std::set<Term,Compare> : ghost-element view of stubs/ordset.h (B), equivalence = term_like with the set's comparator. */
OSG_DECL(TermSet, TermSetIt, GFTerm, GFTermCompare)
#define OSG_EQUIV(s, a, b) term_like((s)->comp, (a), (b))
#define OSG_SAME(a, b) TERM_SAME(a, b)
#define OSG_NONDET() nondet_TermSet_elem()
#define TermSet_find(s, k) OSG_find(TermSetIt, s, k)
#define TermSet_end(s) OSG_end(TermSetIt, s)
#define TermSet_insert(s, v) OSG_insert(s, v)
#define TermSet_erase(s, k) OSG_erase(s, k)
#define TermSet_size(s) OSG_size(s)
#define op_eq_TermSetIt_TermSetIt(a, b) OSG_eq(a, b)
#define TermSetIt_mul(it) OSG_deref(it)          /* unary operator* */
typedef struct TermListGF TermListGF;
//@struct Pomerol::TermList<Pomerol::GreensFunctionPart::Term>

/* The post-condition, as a pure function of the container before and after, of the predicate object and of the argument
 * (structs by value).  `pre`/`post` are the abstract set: size, the observed element (ghas,gval) and the call log.
 *   no like term stored  : the term is stored (size+1); the observed element is untouched
 *   a like term e stored : e is replaced by  e + term  (residues added, pole of e kept; size unchanged), unless
 *                          |residue sum| < Tolerance / (number of terms now in the container + 1), then e is removed (size-1);
 *                          every other element (the observed one, when it is not e) is untouched.
 * "number of terms now in the container": e has been taken out at that point, i.e. pre.size - 1. */
static _Bool add_term_post(TermSet pre, TermSet post, GFTermIsNegligible isneg, GFTerm t)
{
  if (post.n_find != 1) return 0;
  if (post.find_kind == OSG_END)
    return post.size == pre.size + 1 && post.n_inserted == 1 && post.n_erased == 0 && TERM_SAME(post.last_inserted, t) &&
           post.ghas && (pre.ghas ? TERM_SAME(post.gval, pre.gval) : TERM_SAME(post.gval, t));
  GFTerm e = post.find_val;                        /* the stored like term (term_like(e, t): semantics of find) */
  GFTerm sum = spec_sum(e, t);
  _Bool neg = spec_negligible(sum, isneg.Tolerance, (pre.size - 1) + 1);
  _Bool observed = post.find_kind == OSG_GHOST;    /* e is the observed element */
  if (post.n_erased != 1) return 0;
  if (neg)
    return post.size == pre.size - 1 && post.n_inserted == 0 &&
           (observed ? !post.ghas : (post.ghas == pre.ghas && (!pre.ghas || TERM_SAME(post.gval, pre.gval))));
  return post.size == pre.size && post.n_inserted == 1 && TERM_SAME(post.last_inserted, sum) && post.ghas &&
         ((observed || !pre.ghas) ? TERM_SAME(post.gval, sum) : TERM_SAME(post.gval, pre.gval));
}
//@function Pomerol::TermList<Pomerol::GreensFunctionPart::Term>::add_term(Pomerol::GreensFunctionPart::Term const&) as TermListGF_add_term
//@contract
__CPROVER_requires(__CPROVER_is_fresh(self, sizeof(*self)) && OSG_wf(&self->data))
__CPROVER_assigns(self->data)
__CPROVER_ensures(add_term_post(__CPROVER_old(self->data), self->data, self->is_negligible, term))
/* the observed element is like the new term ==> the term is merged (into it, or -- tolerance comparators are not
 * transitive -- into another like element), never stored as a separate term */
__CPROVER_ensures((__CPROVER_old(self->data.ghas) && term_like(self->data.comp, __CPROVER_old(self->data.gval), term)) ==> self->data.find_kind != OSG_END)
//@end
//@harness h_TermList_add_term enforce=TermListGF_add_term props=C01,C02,C14 min_obl=944 reach=6 timeout=600
void h_TermList_add_term(void)
{
  TermListGF *tl; GFTerm t;
  TermListGF_add_term(tl, t);
  REACH("exit");
}

/* =====================================================================================================================
 * WHAT IS PROVED, WHAT IS NOT
 * h_Compare_order (bit-precise): Compare(t1,t2) with Tolerance > 0 implies t1.Pole < t2.Pole (so Compare is irreflexive and orders by pole);
 *   !Compare(t1,t2) implies t2.Pole - t1.Pole < Tolerance.       h_Compare_like / h_Compare_like_abs (slow, thorough tier): two terms are
 *   "like" (equivalent for std::set) iff both pole differences are below the tolerance iff |t2.Pole - t1.Pole| < Tolerance.
 * h_IsNegligible: |Residue| < Tolerance/divisor (pin).     h_Term_addassign: residues added, pole kept, returns *this, writes Residue only.
 * h_TermList_add_term: std::set = ghost-element view of stubs/ordset.h (B) with the EXTRACTED comparator.  For an arbitrary observed
 *   stored element x (or none) and an arbitrary term t:
 *     no stored term is like t  -> t is stored, size+1, x untouched;
 *     a stored term e is like t -> e is replaced by (e.Residue + t.Residue, e.Pole), size unchanged, unless
 *                                  |sum| < Tolerance/((size-1)+1) -- then e is removed, size-1; every other element (x != e) untouched;
 *     x like t -> t is merged, never stored separately.   Exactly one find; *it only while the element is stored.
 *   Reading of the documentation: "IsNegligible(T, current_number_of_terms + 1)" with current_number_of_terms = terms in the container at
 *   that moment, i.e. WITHOUT the like term that has just been taken out (divisor = old size).  check_terms() uses size()+1 with the
 *   term included; add_term is therefore slightly stricter than check_terms (drops |sum| in [Tol/(n+1), Tol/n)) -- harmless for C01.
 * NOT proved: TermList::check_terms, serialization; global statements over all equivalence classes at once ("sum of residues per class is
 *   preserved") follow from the per-element statement only by the ghost-element argument.
 * ASSUMPTIONS introduced here (stubs/ordset.h (B)): semantics of std::set find/insert/erase(key); stored elements pairwise not equivalent;
 *   Compare irreflexive (proved for Tolerance > 0 in h_Compare_order).  Compare is NOT a strict weak ordering (tolerance equivalence is
 *   not transitive); the model does not assume it is: find may return any like element.
 * MUTANTS (obligation that failed): if(true) instead of the negligibility test, size()+2, no erase, insert(term) instead of insert(sum),
 *   inverted test, operator+= also adding the poles -> TermListGF_add_term.postcondition.1;  erase before `sum = *it` -> assertion.4
 *   (iterator used after erase);  operator+=: `-=` / poles added -> GFTerm_addassign.postcondition.2 (+ assigns.1);
 *   Compare: `>` -> h_Compare_order postcondition.2, term_like.postcondition.1;  t1-t2 -> postcondition.1/.2;
 *   IsNegligible: `>` / `*` -> GFTermIsNegligible_call.postcondition.1
 */
