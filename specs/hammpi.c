/* Hamiltonian::prepare(comm) / Hamiltonian::compute(comm)  (src/pomerol/Hamiltonian.cpp) -- the MPI side of C03
 * ("It is a container for several hamiltonian parts, each for single defined QuantumNumbers and a corresponding BlockNumber", Hamiltonian.h).
 *
 * CLAIM: per-rank SEQUENTIAL bookkeeping under ASSUMED contracts of mpi_skel::run (C16, specs/mpi.c), boost::mpi::broadcast and
 * comm.barrier().  ONE rank is looked at, with an arbitrary rank number, an arbitrary communicator size and an arbitrary job map;
 * there is no second rank, no schedule exploration, nothing about the matching of collectives across ranks, nothing about the VALUES
 * that travel (they are opaque).  What is proved is what THIS rank does with its parts:
 *
 *   prepare(): no-op when already prepared.  Otherwise parts.size() == NumberOfBlocks; exactly one `new HamiltonianPart(IndexInfo, F, S, b)` per
 *     block b, in block order, stored at parts[b] (ghost block); the skeleton mpi_skel<PrepareWrap<HamiltonianPart>> holds one wrapper per part
 *     (wrapper k wraps parts[k], complexity 1) when it is run, and is run once on prepare()'s communicator; one barrier; then for every part
 *     (ghost block) H -- and only H -- is broadcast exactly once, rows*cols elements, from the rank job_map[p] that prepared it; on the other
 *     ranks H is first sized to getSize() x getSize() and the part's Status set to Prepared, the preparing rank touches neither; Status = Prepared.
 *   compute(): no-op when already computed.  Otherwise the skeleton mpi_skel<ComputeWrap<HamiltonianPart>> holds one wrapper per part (wrapper k
 *     wraps parts[k], complexity = parts[k]->getSize()) when it is run, once, on compute()'s communicator; one barrier; then for every part (ghost
 *     block) H (rows*cols elements) and then Eigenvalues (H.rows() elements) are broadcast exactly once each from job_map[p]; on the other ranks
 *     Eigenvalues is first sized to H.rows() and the part's Status set to Computed, the computing rank touches neither; computeGroundEnergy() is
 *     called once, after all 2*parts.size() broadcasts, with every part Computed and Eigenvalues.size() == block size (its pre-condition in
 *     ham.c); Status = Computed.  The `throw logic_error("Worker didn't calculate this part")` is unreachable under the skeleton's contract.
 *
 * ASSUMPTIONS (all inside dependency stubs, marked ASSUMED): contract of mpi_skel::run (job map: every job a key, every value a rank of the
 *   communicator; a part whose job ran on this rank has been prepared / computed: contracts of HamiltonianPart::prepare / compute, hampart.c);
 *   PART INVARIANT instantiated at the accessed index for the non-ghost parts; block sizes in [1, HM_MAXDIM] (C07 + LIMIT); `new` succeeds.
 * LIMITS: block dimension <= 32767 (the element count of a broadcast is an `int`: rows*cols must fit, true up to 46340); the VALUE of the count is
 *   compared with rows*cols only for dimensions <= HM_CNT_GUARD = 1023 (solver cost of 64-bit products), n >= 0 beyond.
 * OBSERVATIONS (not defects): compute() does not test Status >= Prepared: on a Hamiltonian that was never prepared it runs an empty skeleton and
 *   calls computeGroundEnergy() with no parts (LEV of uninitialised entries) -- the pre-condition "prepared, one part per block" is the caller's.
 *   The `int` element count limits dense blocks to dimension 46340.
 */
#include "../stubs/common.h"
#include "../stubs/mpi.h"
void VERIF_mpi_store_hook(MpiReq *dst, MpiReq src) { }
void VERIF_mpi_send_hook(Comm *c, int dest, int tag, _Bool has_value, int value) { }
void VERIF_mpi_post_hook(int source, int tag, int *buf) { }
void VERIF_mpi_deliver_hook(MpiReq *r, int value) { }
#include <stddef.h>
//@include types_common.inc
//@type boost::mpi::communicator => Comm ptr
//@type (Pomerol::)?RealVectorType|Eigen::Matrix<double, -1, 1(, 0)?(, -1, 1)?> => EVec ptr
//@type (Pomerol::)?(Real)?MatrixType|Eigen::Matrix<double, -1, -1(, 1)?(, -1, -1)?> => HMat ptr
//@type std::vector<boost::shared_ptr<(Pomerol::)?HamiltonianPart> ?.*> => PartVec ptr
//@type boost::shared_ptr<(Pomerol::)?HamiltonianPart> => PartPtr ptr
//@type pMPI::mpi_skel<pMPI::ComputeWrap<Pomerol::HamiltonianPart> ?> => struct CSkel ptr
//@type pMPI::mpi_skel<pMPI::PrepareWrap<Pomerol::HamiltonianPart> ?> => struct PSkel ptr
//@type std::vector<pMPI::ComputeWrap<Pomerol::HamiltonianPart>(, .*)?> => CWrapVec ptr
//@type std::vector<pMPI::PrepareWrap<Pomerol::HamiltonianPart>(, .*)?> => PWrapVec ptr
//@type pMPI::ComputeWrap<Pomerol::HamiltonianPart> => CWrap val
//@type pMPI::PrepareWrap<Pomerol::HamiltonianPart> => PWrap val
//@type std::map<pMPI::JobId, pMPI::WorkerId>|std::map<int, int(, .*)?> => JobMap ptr
//@type std::map<int, int>::key_type => int scalar
//@record Pomerol::BlockNumber => BlockNumber val
//@record Pomerol::IndexHamiltonian => struct Operator ptr
//@free broadcast => broadcast_buf
//@tu src/pomerol/Hamiltonian.cpp
//@enum ComputableObject::
typedef struct BlockNumber BlockNumber;
//@struct Pomerol::BlockNumber
struct IndexClassification { char opaque; };
struct Operator { char opaque; };            /* IndexHamiltonian: only handed on to the parts */
//@struct Pomerol::StatesClassification only=Status
//@extra
long nblocks;                        /* ghost: StatesContainer.size() */
//@end

/* ---- BlockNumber: the real inline members */
//@function Pomerol::BlockNumber::BlockNumber(int) as BlockNumber_ctor1
//@end
//@function Pomerol::BlockNumber::operator int() const as BlockNumber_conv_int
//@end
//@function Pomerol::BlockNumber::operator++(int) as BlockNumber_postinc_impl
//@end
#define BlockNumber_postinc(p) BlockNumber_postinc_impl((p), 0)   /* call sites are printed without the dummy int */
//@tu src/pomerol/StatesClassification.cpp
//@function Pomerol::BlockNumber::operator<(Pomerol::BlockNumber const&) const as BlockNumber_lt
//@end
//@tu src/pomerol/Hamiltonian.cpp
#define HM_MAXBLOCKS (1L << 30)
static inline BlockNumber SC_NumberOfBlocks_v(struct StatesClassification *S) { BlockNumber b; b.number = (int)S->nblocks; return b; }
#define StatesClassification_NumberOfBlocks(S) (*(BlockNumber[1]){ SC_NumberOfBlocks_v(S) })

/* ---- the dense members of a part: only their dimensions and what is DONE with their storage (broadcast, resize) are modelled.
 * data() returns the address of the ghost cell inside the object, so that the broadcast stub can tell WHICH member of WHICH part
 * it was handed. */
typedef struct HMat { long rows, cols; double cell; /* ghost */ unsigned long n_bcast, n_resize; int root; } HMat;
typedef struct EVec { long size; double cell; /* ghost */ unsigned long n_bcast, n_resize; int root; } EVec;
static inline long HMat_rows(HMat *m) { return m->rows; }
static inline long HMat_cols(HMat *m) { return m->cols; }
static inline double *HMat_data(HMat *m) { return &m->cell; }
static inline double *EVec_data(EVec *v) { return &v->cell; }
static inline void HMat_resize(HMat *m, long r, long c)
{
  __CPROVER_assert(r >= 0 && c >= 0, "Eigen resize: non-negative dimensions");
  m->rows = r; m->cols = c; m->n_resize++;
}
static inline void EVec_resize(EVec *v, long n)
{
  __CPROVER_assert(n >= 0, "Eigen resize: non-negative size");
  v->size = n; v->n_resize++;
}
//@struct Pomerol::HamiltonianPart only=Status,H,Eigenvalues
//@extra
long gsize;                          /* ghost: getSize() = S.getBlockSize(Block), the number of states of the part's block */
int gblock;                          /* ghost: the block number the part was constructed with */
//@end
/* LIMIT: the element count of a broadcast is an `int`: rows*cols of a block must fit (block dimension <= 46340); the model stops at 2^15-1 */
#define HM_MAXDIM 32767L
#define HM_CNT_GUARD 1023L
#define HM_DIM_OK(n) (((n) & ~HM_MAXDIM) == 0)      /* 0 <= n <= HM_MAXDIM, written as a bit mask (keeps the products of two dimensions small for the solver) */
/* HamiltonianPart::getSize() = S.getBlockSize(Block) -- callee contract (hampart.c h_HP_getSize; S is computed here) */
static inline unsigned long HamiltonianPart_getSize(struct HamiltonianPart *p) { return (unsigned long)p->gsize; }

/* ---- std::vector<boost::shared_ptr<HamiltonianPart>> parts: ghost-element model as in ham.c.  The element at ONE arbitrary index gidx
 * is a real object; an access to any other index yields a scratch part about which only the PART INVARIANT of the current phase is known
 * (instantiated at that index; contents fresh at every access). */
typedef struct PartPtr { struct HamiltonianPart *px; } PartPtr;
typedef struct PartVec {
  long size;
  long gidx; PartPtr g;
  PartPtr otherp; struct HamiltonianPart other;   /* landing place for the element at index other_idx != gidx */
  int other_phase; long other_idx;                       /* which element `other` currently stands for (-1: none); stable while the same index is accessed again */
} PartVec;
struct Hamiltonian;
struct Hamiltonian *g_self;          /* the object under verification (for the monitors; compared, and read through the is_fresh idiom) */
Comm *g_comm;                        /* the communicator argument */
int g_rank, g_nranks;                /* = comm.rank(), comm.size() */
int g_owner;                         /* the rank that ran the job of the ghost part: job_map[gidx] */
long g_gidx;                         /* = parts.gidx */
long g_nparts;                       /* = parts.size() */
struct HamiltonianPart *g_gp;        /* the ghost part parts[gidx] / the scratch part (COMPARED only, never dereferenced: a pointer known
                                        only through a requires-equality makes CBMC case-split over every object) */
int g_phase;                         /* 0: before skel.run, 1: after */
int g_what;                          /* the status the skeleton's jobs establish: Prepared (prepare) or Computed (compute) */
struct HamiltonianPart *g_curp;      /* the part the most recent parts[...] yielded (assigned by the stub at run time: may be dereferenced) */
/* the rank that ran job k (contract of mpi_skel::run: a function of the job) */
int __CPROVER_uninterpreted_job_owner(long);
#define JOB_OWNER(k) __CPROVER_uninterpreted_job_owner(k)
struct HamiltonianPart g_new_ghost, g_new_other;     /* prepare(): the object `new HamiltonianPart` yields for the ghost block / for any other block */
static inline unsigned long PartVec_size(PartVec *v) { return (unsigned long)v->size; }
static inline PartPtr *PartVec_at(PartVec *v, unsigned long i)
{
  __CPROVER_assert(i < (unsigned long)v->size, "std::vector<shared_ptr<HamiltonianPart>>::operator[]: index inside the vector");
  if ((long)i == v->gidx) {
    if (g_what == Prepared && v->g.px != (struct HamiltonianPart *)0) {
      /* prepare(): the stored pointer has passed through loop abstractions (CBMC knows it only through an invariant equality and cannot follow it):
       * CHECK that it is the part created for the ghost block, then name that object explicitly (a no-op for the program) */
      __CPROVER_assert(v->g.px == &g_new_ghost, "C03: parts[g] holds the part created for block g");
      v->g.px = &g_new_ghost;
    }
    g_curp = v->g.px; return &v->g;
  }
  if ((long)i != v->other_idx || g_phase != v->other_phase) {
    /* another element (or the skeleton has worked on the parts since): arbitrary contents (an uninitialised local is nondeterministic) ... */
    struct HamiltonianPart fresh_part;
    /* ... subject to the PART INVARIANT instantiated at index i (ASSUMED = the quantified pre-condition of the caller, resp. the contract of the skeleton) */
    __CPROVER_assume(1 <= fresh_part.gsize && HM_DIM_OK(fresh_part.gsize) && fresh_part.gblock == (int)i && fresh_part.Status <= Computed);
    __CPROVER_assume(fresh_part.H.n_bcast == 0 && fresh_part.Eigenvalues.n_bcast == 0);      /* ghost counters of this call */
    if (g_what == Computed) {
      /* a prepared Hamiltonian: every part holds its block matrix */
      __CPROVER_assume(fresh_part.Status >= Prepared && fresh_part.H.rows == fresh_part.gsize && fresh_part.H.cols == fresh_part.gsize);
      __CPROVER_assume(fresh_part.Status < Computed || fresh_part.Eigenvalues.size == fresh_part.gsize);
    }
    /* before skel.run in prepare(): the part has just been constructed */
    if (g_what == Prepared) __CPROVER_assume(fresh_part.Status == Constructed);
    /* after skel.run: the job of part i was run on rank JOB_OWNER(i) (contract of mpi_skel::run + of HamiltonianPart::prepare/compute) */
    if (g_phase == 1 && g_rank == JOB_OWNER((long)i)) {
      __CPROVER_assume(fresh_part.H.rows == fresh_part.gsize && fresh_part.H.cols == fresh_part.gsize);
      if (g_what == Computed) __CPROVER_assume(fresh_part.Status == Computed && fresh_part.Eigenvalues.size == fresh_part.gsize);
      else fresh_part.Status = Prepared;
    }
    v->other = fresh_part; v->other_idx = (long)i; v->other_phase = g_phase;
  }
  v->otherp.px = &v->other; g_curp = &v->other;
  return &v->otherp;
}
static inline struct HamiltonianPart *PartPtr_arrow(PartPtr *p)
{ __CPROVER_assert(p->px != (struct HamiltonianPart *)0, "shared_ptr::operator->: not empty"); return p->px; }
static inline struct HamiltonianPart *PartPtr_mul(PartPtr *p)
{ __CPROVER_assert(p->px != (struct HamiltonianPart *)0, "shared_ptr::operator*: not empty"); return p->px; }

/* ---- the job map returned by mpi_skel::run.  ASSUMED (contract of run, C16: DispatchMap[j] = the worker job j was sent to, every job
 * 0..njobs-1 is dispatched, workers are ranks of the communicator): every job is a key and its value is a rank in [0, comm.size()).
 * ASSERTED: operator[] is applied to jobs only (another key would be inserted with rank 0). */
typedef struct JobMap { long njobs; long gkey; int gval; int other; } JobMap;
static inline int *JobMap_at(JobMap *m, int k)
{
  __CPROVER_assert(0 <= k && (long)k < m->njobs, "job_map[k]: k is a job of the skeleton (operator[] inserts nothing)");
  if ((long)k == m->gkey) return &m->gval;
  m->other = JOB_OWNER((long)k);
  __CPROVER_assume(0 <= m->other && m->other < g_nranks);
  return &m->other;
}

//@struct Pomerol::Hamiltonian embed=S,IndexInfo,F

/* ---- boost::mpi::broadcast(comm, T* values, int n, int root)  (collectives/broadcast.hpp: "values: a pointer to storage for n values
 * of type T"): ASSERTED: the buffer is the storage of H or of Eigenvalues of the part parts[p] just indexed and holds exactly n
 * elements; root is a rank of the communicator.  Recorded at the part: number of broadcasts of that member and the root.
 * ASSUMED: on return the n values of the root are in the buffer on every rank (values opaque: nothing is modelled). */
unsigned long g_n_bcast;             /* all broadcasts so far */
unsigned long g_n_barrier, g_n_run, g_n_cge;
unsigned long g_bcast_at_cge;        /* broadcasts seen when computeGroundEnergy() was called */
static inline void broadcast_buf(Comm *comm, double *buf, int n, int root)
{
  __CPROVER_assert(comm == g_comm, "C03: broadcast on the communicator handed to prepare()/compute()");
  __CPROVER_assert(0 <= root && root < comm->size_, "C03: the root of a broadcast is a rank of the communicator");
  struct HamiltonianPart *part = g_curp;
  _Bool isH = buf == &part->H.cell, isE = buf == &part->Eigenvalues.cell;
  __CPROVER_assert(isH || isE, "C03: the buffer of a broadcast is H.data() or Eigenvalues.data() of the part parts[p] just indexed");
  if (!(isH || isE)) return;
  if (isH) {
    /* (the value of the count is compared with rows*cols for dimensions up to HM_CNT_GUARD only: proving two 64-bit products equal for
     * arbitrary dimensions costs the SAT solver minutes per call site; beyond the guard only n >= 0 is checked) */
    __CPROVER_assert(n >= 0 && (part->H.rows > HM_CNT_GUARD || part->H.cols > HM_CNT_GUARD || (long)n == part->H.rows * part->H.cols),
                     "C03: the H buffer holds exactly the n = rows*cols elements that are broadcast");
    part->H.n_bcast++; part->H.root = root;
    REACH("broadcast H");
  } else {
    __CPROVER_assert((long)n == part->Eigenvalues.size, "C03: the Eigenvalues buffer holds exactly the n elements that are broadcast");
    __CPROVER_assert(part->H.n_bcast == part->Eigenvalues.n_bcast + 1, "C03: H is broadcast before Eigenvalues");
    part->Eigenvalues.n_bcast++; part->Eigenvalues.root = root;
    REACH("broadcast Eigenvalues");
  }
  g_n_bcast++;
}
#define Comm_barrier(c_) ((void)(g_n_barrier++))

/* ---- the skeleton mpi_skel<ComputeWrap<HamiltonianPart>>: vector of wrappers (ghost element at the same index as parts) */
//@tu src/pomerol/Hamiltonian.cpp filter=pMPI::
typedef struct ComputeWrap { struct HamiltonianPart *x; int complexity; } CWrap;
#define CWrap_assign(dst_, src_) (*(dst_) = (src_))
//@function pMPI::ComputeWrap<Pomerol::HamiltonianPart>::ComputeWrap(Pomerol::HamiltonianPart&, int) as CWrap_ctor2
//@end
//@tu src/pomerol/Hamiltonian.cpp
typedef struct CWrapVec { unsigned long size; long gidx; CWrap g, scratch; unsigned long g_stores; } CWrapVec;
struct CSkel { CWrapVec parts; };
static inline struct CSkel CSkel_ctor0(void)
{ struct CSkel s; s.parts.size = 0; s.parts.gidx = g_gidx; s.parts.g.x = (struct HamiltonianPart *)0; s.parts.g.complexity = 0; s.parts.scratch = s.parts.g; s.parts.g_stores = 0; return s; }
static inline void CWrapVec_resize(CWrapVec *v, unsigned long n) { v->size = n; }
static inline CWrap *CWrapVec_at(CWrapVec *v, unsigned long i)
{
  __CPROVER_assert(i < v->size, "std::vector<ComputeWrap>::operator[]: index inside the vector");
  if ((long)i == v->gidx) { v->g_stores++; return &v->g; }
  return &v->scratch;
}
/* mpi_skel<ComputeWrap<HamiltonianPart>>::run(comm, verbose)  -- CONTRACT STUB (C16, specs/mpi.c proves the dispatcher's bookkeeping and the
 * dissemination of the job map; that every job is run exactly once on the rank the map names is the dispatcher's master invariant).
 * ASSERTED (what Hamiltonian::compute must have set up): run on compute()'s communicator, one wrapper per part, the wrapper of the (arbitrary)
 * ghost index wraps parts[gidx] with that part's size as complexity.
 * ASSUMED: returns the job map (every job a key, every value a rank); a part whose job ran HERE has had run() = x->compute() called:
 * Status == Computed, as many eigenvalues as the block has states (contract of HamiltonianPart::compute, hampart.c). */
static inline JobMap CSkel_run(struct CSkel *s, Comm *comm, _Bool verbose)
{
  __CPROVER_assert(comm == g_comm, "C03: the skeleton is run on the communicator handed to compute()");
  __CPROVER_assert(s->parts.size == (unsigned long)g_nparts, "C03: one wrapper per part");
  if (0 <= g_gidx && g_gidx < g_nparts) {
    __CPROVER_assert(s->parts.g_stores == 1, "C03: the wrapper of a part is stored exactly once");
    __CPROVER_assert(s->parts.g.x == g_gp, "C03: wrapper k wraps parts[k]");
    if (s->parts.g.x == g_gp) {
      struct HamiltonianPart *x = s->parts.g.x;     /* the pointer the wrapper's run() calls compute() through */
      __CPROVER_assert(s->parts.g.complexity == (int)x->gsize, "C03: the complexity of a job is the size of its part");
      if (g_rank == g_owner) {
        x->Status = Computed; x->Eigenvalues.size = x->H.rows;
        REACH("ghost part computed here");
      }
    }
  }
  g_n_run++; g_phase = 1;
  JobMap m; m.njobs = g_nparts; m.gkey = g_gidx; m.gval = g_owner; m.other = 0;
  REACH("skel.run");
  return m;
}

/* Hamiltonian::computeGroundEnergy() -- callee contract (ham.c h_Ham_computeGroundEnergy): pre: every part computed, one part per block
 * (checked at the ghost part); post: GroundEnergy = the minimum over the parts (opaque here). */
double g_ge;
static inline void Hamiltonian_computeGroundEnergy(struct Hamiltonian *self);

#define GP(self) ((self)->parts.g.px)
#define HAS_GP(self) (0 <= (self)->parts.gidx && (self)->parts.gidx < (self)->parts.size)
#define HAM_MPI_WF(self, comm) (g_rank == comm->rank_ && g_nranks == comm->size_ && \
   0 <= comm->rank_ && comm->rank_ < comm->size_ && 0 <= g_owner && g_owner < comm->size_ && \
   g_n_bcast == 0 && g_n_barrier == 0 && g_n_run == 0 && g_n_cge == 0 && g_phase == 0 && !VERIF_thrown)
/* PART INVARIANT of a prepared Hamiltonian at the ghost part */
#define GP_PREPARED(self) (GP(self)->Status >= Prepared && GP(self)->Status <= Computed && 1 <= GP(self)->gsize && HM_DIM_OK(GP(self)->gsize) && \
   GP(self)->H.rows == GP(self)->gsize && GP(self)->H.cols == GP(self)->gsize && (GP(self)->Status < Computed || GP(self)->Eigenvalues.size == GP(self)->gsize))

//@function Pomerol::Hamiltonian::compute(boost::mpi::communicator const&) as Hamiltonian_compute
//@contract
__CPROVER_requires(__CPROVER_is_fresh(self, sizeof(*self)) && g_self == self)
/* (an equality with a ghost pointer must be the last conjunct of the clause of is_fresh: CBMC's value sets) */
__CPROVER_requires(__CPROVER_is_fresh(comm, sizeof(*comm)) && g_comm == comm)
__CPROVER_requires(HAM_MPI_WF(self, comm) && g_what == Computed)
/* a prepared Hamiltonian: one part per block */
__CPROVER_requires(self->S.nblocks >= 1 && self->S.nblocks <= HM_MAXBLOCKS && self->parts.size == self->S.nblocks && self->Status <= Computed)
__CPROVER_requires((self->parts.gidx == -1 || HAS_GP(self)) && g_gidx == self->parts.gidx && self->parts.other_idx == -1 && self->parts.other_phase == 0 && g_nparts == self->parts.size)
__CPROVER_requires(__CPROVER_is_fresh(self->parts.g.px, sizeof(struct HamiltonianPart)) && g_gp == self->parts.g.px)
__CPROVER_requires(GP_PREPARED(self))
__CPROVER_requires(GP(self)->H.n_bcast == 0 && GP(self)->Eigenvalues.n_bcast == 0 && GP(self)->Eigenvalues.n_resize == 0 && GP(self)->H.n_resize == 0)
__CPROVER_assigns(self->Status, self->GroundEnergy, VERIF_thrown, g_n_bcast, g_n_barrier, g_n_run, g_n_cge, g_bcast_at_cge, g_phase, g_curp,
                  __CPROVER_object_whole(self->parts.g.px), self->parts.otherp, self->parts.other, self->parts.other_idx, self->parts.other_phase)
__CPROVER_ensures(!VERIF_thrown)
/* already computed: nothing happens, no communication */
__CPROVER_ensures(__CPROVER_old(self->Status) >= Computed ==> (self->Status == __CPROVER_old(self->Status) && g_n_run == 0 && g_n_bcast == 0 && g_n_barrier == 0 && g_n_cge == 0))
/* otherwise: the skeleton is run once (monitor: one wrapper per part, complexity = size), one barrier, two broadcasts per part, the ground
 * energy is computed once, after all broadcasts; Status = Computed */
__CPROVER_ensures(__CPROVER_old(self->Status) < Computed ==> (self->Status == Computed && g_n_run == 1 && g_n_barrier == 1 &&
                  g_n_bcast == 2UL * (unsigned long)self->parts.size && g_n_cge == 1 && g_bcast_at_cge == g_n_bcast))
/* the ghost part: H and Eigenvalues broadcast once each from the rank that computed it; Computed on every rank;
 * the receiving ranks size Eigenvalues to the block dimension first, the owning rank leaves its data alone */
__CPROVER_ensures((__CPROVER_old(self->Status) < Computed && HAS_GP(self)) ==> (GP(self)->Status == Computed &&
                  GP(self)->H.n_bcast == 1 && GP(self)->H.root == g_owner && GP(self)->Eigenvalues.n_bcast == 1 && GP(self)->Eigenvalues.root == g_owner &&
                  GP(self)->Eigenvalues.size == GP(self)->gsize && GP(self)->H.rows == GP(self)->gsize && GP(self)->H.cols == GP(self)->gsize &&
                  GP(self)->H.n_resize == 0 && GP(self)->Eigenvalues.n_resize == (g_rank == g_owner ? 0UL : 1UL)))
//@loop 1
__CPROVER_assigns(i, skel.parts.g, skel.parts.scratch, skel.parts.g_stores, g_curp, self->parts.otherp, self->parts.other, self->parts.other_idx, self->parts.other_phase)
__CPROVER_loop_invariant(self->parts.other_idx < (long)i && self->parts.other_phase == 0)
__CPROVER_loop_invariant(i <= (unsigned long)self->parts.size && skel.parts.size == (unsigned long)self->parts.size && skel.parts.gidx == self->parts.gidx)
__CPROVER_loop_invariant(skel.parts.g_stores == ((HAS_GP(self) && (long)i > self->parts.gidx) ? 1UL : 0UL))
__CPROVER_loop_invariant(!(HAS_GP(self) && (long)i > self->parts.gidx) || (skel.parts.g.x == GP(self) && skel.parts.g.complexity == (int)GP(self)->gsize))
__CPROVER_decreases((unsigned long)self->parts.size - i)
//@loop 2
__CPROVER_assigns(p, VERIF_thrown, g_n_bcast, g_curp, job_map.other, __CPROVER_object_whole(self->parts.g.px), self->parts.otherp, self->parts.other, self->parts.other_idx, self->parts.other_phase)
__CPROVER_loop_invariant(self->parts.other_idx < (long)p || self->parts.other_phase != 1)
__CPROVER_loop_invariant(p <= (unsigned long)self->parts.size && !VERIF_thrown && g_n_bcast == 2UL * p)
__CPROVER_loop_invariant(job_map.njobs == self->parts.size && job_map.gkey == self->parts.gidx && job_map.gval == g_owner && rank == g_rank)
__CPROVER_loop_invariant(!HAS_GP(self) || (GP(self)->gsize == __CPROVER_loop_entry(GP(self)->gsize) && GP(self)->H.rows == GP(self)->gsize && GP(self)->H.cols == GP(self)->gsize &&
                         1 <= GP(self)->gsize && HM_DIM_OK(GP(self)->gsize) && GP(self)->H.n_resize == 0))
__CPROVER_loop_invariant(!HAS_GP(self) || ((long)p <= self->parts.gidx
      ? (GP(self)->H.n_bcast == 0 && GP(self)->Eigenvalues.n_bcast == 0 && GP(self)->Eigenvalues.n_resize == 0 && GP(self)->Status == __CPROVER_loop_entry(GP(self)->Status) &&
         (g_rank != g_owner || (GP(self)->Status == Computed && GP(self)->Eigenvalues.size == GP(self)->gsize)))
      : (GP(self)->H.n_bcast == 1 && GP(self)->H.root == g_owner && GP(self)->Eigenvalues.n_bcast == 1 && GP(self)->Eigenvalues.root == g_owner && GP(self)->Status == Computed &&
         GP(self)->Eigenvalues.size == GP(self)->gsize && GP(self)->Eigenvalues.n_resize == (g_rank == g_owner ? 0UL : 1UL))))
__CPROVER_decreases((unsigned long)self->parts.size - p)
//@end

static inline void Hamiltonian_computeGroundEnergy(struct Hamiltonian *self)
{
  __CPROVER_assert(self == g_self && self->parts.size == self->S.nblocks, "computeGroundEnergy: one part per block");
  if (HAS_GP(self))
    __CPROVER_assert(GP(self)->Status == Computed && GP(self)->Eigenvalues.size == GP(self)->gsize, "computeGroundEnergy: every part is computed and holds the eigenvalues of its block (pre-condition, ham.c)");
  g_n_cge++; g_bcast_at_cge = g_n_bcast;
  self->GroundEnergy = g_ge;
  REACH("computeGroundEnergy");
}

//@harness h_Ham_compute_mpi enforce=Hamiltonian_compute props=C03 min_obl=2398 reach=8 timeout=450
void h_Ham_compute_mpi(void)
{
  struct Hamiltonian *h; Comm *c;
  Hamiltonian_compute(h, c);
  if (g_n_run) { if (g_rank == g_owner) REACH("exit-owner"); else REACH("exit-other"); } else REACH("exit-noop");
}

/* ================================================================================================================
 * Hamiltonian::prepare(comm)
 * ================================================================================================================ */
static inline void PartVec_resize(PartVec *v, unsigned long n)
{ v->size = (long)n; v->g.px = (struct HamiltonianPart *)0; v->other_idx = -1; }    /* n empty shared_ptrs */
unsigned long g_n_new, g_new_hits;
long __CPROVER_uninterpreted_block_size(int);
static inline struct HamiltonianPart *HamiltonianPart_new4(struct IndexClassification *ii, struct Operator *f, struct StatesClassification *s, BlockNumber b)
{
  __CPROVER_assert(ii == &g_self->IndexInfo && f == &g_self->F && s == &g_self->S, "C03: a part is built from the Hamiltonian's own IndexInfo, F and S");
  __CPROVER_assert(b.number >= 0 && (unsigned long)b.number == g_n_new, "C03: the k-th part is created for block k");
  g_n_new++;
  struct HamiltonianPart fresh_part;
  long bs = __CPROVER_uninterpreted_block_size(b.number);
  __CPROVER_assume(1 <= bs && HM_DIM_OK(bs));         /* ASSUMED (C07): a block has at least one state; LIMIT HM_MAXDIM */
  fresh_part.Status = Constructed; fresh_part.gblock = b.number; fresh_part.gsize = bs;
  fresh_part.H.rows = 0; fresh_part.H.cols = 0; fresh_part.H.n_bcast = 0; fresh_part.H.n_resize = 0;
  fresh_part.Eigenvalues.size = 0; fresh_part.Eigenvalues.n_bcast = 0; fresh_part.Eigenvalues.n_resize = 0;
  if ((long)b.number == g_gidx) { g_new_ghost = fresh_part; g_new_hits++; REACH("new part@ghost"); return &g_new_ghost; }
  g_new_other = fresh_part;
  return &g_new_other;
}
static inline void PartPtr_reset(PartPtr *p, struct HamiltonianPart *x) { p->px = x; }


/* ---- the skeleton mpi_skel<PrepareWrap<HamiltonianPart>> */
//@tu src/pomerol/Hamiltonian.cpp filter=pMPI::
typedef struct PrepareWrap { struct HamiltonianPart *x; int complexity; } PWrap;
#define PWrap_assign(dst_, src_) (*(dst_) = (src_))
//@function pMPI::PrepareWrap<Pomerol::HamiltonianPart>::PrepareWrap(Pomerol::HamiltonianPart&, int) as PWrap_ctor2
//@end
/* the call site `PrepareWrap<HamiltonianPart>(*parts[i])` relies on the default argument `int complexity = 1` (mpi_skel.hpp:30; the printer
 * drops default arguments): READ OFF the header, the constructor body itself is extracted */
#define PWrap_ctor1(y_) PWrap_ctor2((y_), 1)
//@tu src/pomerol/Hamiltonian.cpp
typedef struct PWrapVec { unsigned long size; long gidx; PWrap g, scratch; unsigned long g_stores; } PWrapVec;
struct PSkel { PWrapVec parts; };
static inline struct PSkel PSkel_ctor0(void)
{ struct PSkel s; s.parts.size = 0; s.parts.gidx = g_gidx; s.parts.g.x = (struct HamiltonianPart *)0; s.parts.g.complexity = 0; s.parts.scratch = s.parts.g; s.parts.g_stores = 0; return s; }
static inline void PWrapVec_resize(PWrapVec *v, unsigned long n) { v->size = n; }
static inline PWrap *PWrapVec_at(PWrapVec *v, unsigned long i)
{
  __CPROVER_assert(i < v->size, "std::vector<PrepareWrap>::operator[]: index inside the vector");
  if ((long)i == v->gidx) { v->g_stores++; return &v->g; }
  return &v->scratch;
}
/* mpi_skel<PrepareWrap<HamiltonianPart>>::run(comm, verbose) -- CONTRACT STUB, as CSkel_run above; a part whose job ran HERE has had
 * run() = x->prepare() called: Status == Prepared, H is BlockSize x BlockSize (contract of HamiltonianPart::prepare, hampart.c). */
static inline JobMap PSkel_run(struct PSkel *s, Comm *comm, _Bool verbose)
{
  __CPROVER_assert(comm == g_comm, "C03: the skeleton is run on the communicator handed to prepare()");
  __CPROVER_assert(s->parts.size == (unsigned long)g_nparts, "C03: one wrapper per part");
  if (0 <= g_gidx && g_gidx < g_nparts) {
    __CPROVER_assert(s->parts.g_stores == 1, "C03: the wrapper of a part is stored exactly once");
    __CPROVER_assert(s->parts.g.x == &g_new_ghost, "C03: wrapper k wraps parts[k], the part created for block k");
    __CPROVER_assert(s->parts.g.complexity == 1, "C03: every preparation job has complexity 1");
    if (g_rank == g_owner) {
      g_new_ghost.Status = Prepared; g_new_ghost.H.rows = g_new_ghost.gsize; g_new_ghost.H.cols = g_new_ghost.gsize;
      REACH("ghost part prepared here");
    }
  }
  g_n_run++; g_phase = 1;
  JobMap m; m.njobs = g_nparts; m.gkey = g_gidx; m.gval = g_owner; m.other = 0;
  REACH("skel.run (prepare)");
  return m;
}

#define HAS_G (g_gidx >= 0)
#define NG g_new_ghost
#define NG_FRESH (NG.Status == Constructed && (long)NG.gblock == g_gidx && 1 <= NG.gsize && HM_DIM_OK(NG.gsize) && NG.H.rows == 0 && NG.H.cols == 0 && \
                  NG.H.n_bcast == 0 && NG.H.n_resize == 0 && NG.Eigenvalues.n_bcast == 0 && NG.Eigenvalues.n_resize == 0 && NG.Eigenvalues.size == 0)
#define PREP_GHOSTS g_n_bcast, g_n_barrier, g_n_run, g_phase, g_curp, g_new_ghost, g_new_other, g_n_new, g_new_hits
//@function Pomerol::Hamiltonian::prepare(boost::mpi::communicator const&) as Hamiltonian_prepare
//@contract
__CPROVER_requires(__CPROVER_is_fresh(self, sizeof(*self)) && g_self == self)
__CPROVER_requires(__CPROVER_is_fresh(comm, sizeof(*comm)) && g_comm == comm)
__CPROVER_requires(HAM_MPI_WF(self, comm) && g_what == Prepared)
/* a computed classification with at least one block (2^IndexSize >= 1 states); block numbers are `int` */
__CPROVER_requires(self->S.nblocks >= 1 && self->S.nblocks <= HM_MAXBLOCKS && self->Status <= Computed && g_nparts == self->S.nblocks)
/* the ghost block */
__CPROVER_requires((g_gidx == -1 || (0 <= g_gidx && g_gidx < self->S.nblocks)) && self->parts.gidx == g_gidx && self->parts.other_idx == -1 && self->parts.other_phase == 0)
__CPROVER_requires(g_n_new == 0 && g_new_hits == 0)
__CPROVER_assigns(self->Status, self->parts.size, self->parts.g, self->parts.otherp, self->parts.other, self->parts.other_idx, self->parts.other_phase, VERIF_thrown, PREP_GHOSTS)
__CPROVER_ensures(!VERIF_thrown)
/* already prepared: nothing happens */
__CPROVER_ensures(__CPROVER_old(self->Status) >= Prepared ==> (self->Status == __CPROVER_old(self->Status) && g_n_new == 0 && g_n_run == 0 && g_n_bcast == 0 && g_n_barrier == 0 &&
                  self->parts.size == __CPROVER_old(self->parts.size)))
/* otherwise: one part per block, created in block order (monitor of `new`: the k-th part is built for block k from IndexInfo, F, S); the skeleton is
 * run once with one PrepareWrap per part; one barrier; one broadcast per part; Status = Prepared */
__CPROVER_ensures(__CPROVER_old(self->Status) < Prepared ==> (self->Status == Prepared && self->parts.size == self->S.nblocks && g_n_new == (unsigned long)self->S.nblocks &&
                  g_new_hits == (HAS_G ? 1UL : 0UL) && g_n_run == 1 && g_n_barrier == 1 && g_n_bcast == (unsigned long)self->S.nblocks))
/* the ghost block: parts[g] is THE part created for block g; its matrix is broadcast once from the rank that prepared it; Prepared on every rank;
 * the receiving ranks size H to BlockSize x BlockSize first, the preparing rank leaves it alone; Eigenvalues are not touched */
__CPROVER_ensures((__CPROVER_old(self->Status) < Prepared && HAS_G) ==> (self->parts.g.px == &g_new_ghost && (long)NG.gblock == g_gidx && NG.Status == Prepared &&
                  NG.H.n_bcast == 1 && NG.H.root == g_owner && NG.H.rows == NG.gsize && NG.H.cols == NG.gsize && 1 <= NG.gsize &&
                  NG.H.n_resize == (g_rank == g_owner ? 0UL : 1UL) && NG.Eigenvalues.n_bcast == 0 && NG.Eigenvalues.n_resize == 0))
//@loop 1
__CPROVER_assigns(CurrentBlock, self->parts.g, self->parts.otherp, self->parts.other, self->parts.other_idx, self->parts.other_phase, g_curp, g_new_ghost, g_new_other, g_n_new, g_new_hits)
__CPROVER_loop_invariant(0 <= CurrentBlock.number && CurrentBlock.number <= NumberOfBlocks.number && NumberOfBlocks.number == (int)self->S.nblocks && self->parts.size == self->S.nblocks)
__CPROVER_loop_invariant(self->parts.gidx == g_gidx && self->parts.other_phase == 0 && g_n_new == (unsigned long)CurrentBlock.number)
__CPROVER_loop_invariant(g_new_hits == ((HAS_G && (long)CurrentBlock.number > g_gidx) ? 1UL : 0UL))
__CPROVER_loop_invariant(!(HAS_G && (long)CurrentBlock.number > g_gidx) || (self->parts.g.px == &g_new_ghost && NG_FRESH))
__CPROVER_loop_invariant(!(HAS_G && (long)CurrentBlock.number <= g_gidx) || self->parts.g.px == (struct HamiltonianPart *)0)
__CPROVER_decreases(NumberOfBlocks.number - CurrentBlock.number)
//@loop 2
__CPROVER_assigns(i, skel.parts.g, skel.parts.scratch, skel.parts.g_stores, g_curp, self->parts.g, self->parts.otherp, self->parts.other, self->parts.other_idx, self->parts.other_phase)
__CPROVER_loop_invariant(self->parts.other_phase == 0 && (!HAS_G || self->parts.g.px == &g_new_ghost))
__CPROVER_loop_invariant(i <= (unsigned long)self->parts.size && skel.parts.size == (unsigned long)self->parts.size && skel.parts.gidx == g_gidx)
__CPROVER_loop_invariant(skel.parts.g_stores == ((HAS_G && (long)i > g_gidx) ? 1UL : 0UL))
__CPROVER_loop_invariant(!(HAS_G && (long)i > g_gidx) || (skel.parts.g.x == &g_new_ghost && skel.parts.g.complexity == 1))
__CPROVER_decreases((unsigned long)self->parts.size - i)
//@loop 3
__CPROVER_assigns(p, VERIF_thrown, g_n_bcast, g_curp, job_map.other, g_new_ghost, self->parts.g, self->parts.otherp, self->parts.other, self->parts.other_idx, self->parts.other_phase)
__CPROVER_loop_invariant(self->parts.other_idx < (long)p || self->parts.other_phase != 1)
__CPROVER_loop_invariant(p <= (unsigned long)self->parts.size && !VERIF_thrown && g_n_bcast == p && (!HAS_G || self->parts.g.px == &g_new_ghost))
__CPROVER_loop_invariant(job_map.njobs == self->parts.size && job_map.gkey == g_gidx && job_map.gval == g_owner)
__CPROVER_loop_invariant(!HAS_G || ((long)NG.gblock == g_gidx && 1 <= NG.gsize && HM_DIM_OK(NG.gsize) && NG.Eigenvalues.n_bcast == 0 && NG.Eigenvalues.n_resize == 0))
__CPROVER_loop_invariant(!HAS_G || ((long)p <= g_gidx
      ? (NG.H.n_bcast == 0 && NG.H.n_resize == 0 && (g_rank == g_owner ? (NG.Status == Prepared && NG.H.rows == NG.gsize && NG.H.cols == NG.gsize) : NG.Status == Constructed))
      : (NG.H.n_bcast == 1 && NG.H.root == g_owner && NG.Status == Prepared && NG.H.rows == NG.gsize && NG.H.cols == NG.gsize && NG.H.n_resize == (g_rank == g_owner ? 0UL : 1UL))))
__CPROVER_decreases((unsigned long)self->parts.size - p)
//@end

//@harness h_Ham_prepare_mpi enforce=Hamiltonian_prepare props=C03 min_obl=1153 reach=7 timeout=360
void h_Ham_prepare_mpi(void)
{
  struct Hamiltonian *h; Comm *c;
  Hamiltonian_prepare(h, c);
  if (g_n_run) { if (g_rank == g_owner) REACH("exit-owner"); else REACH("exit-other"); } else REACH("exit-noop");
}

/* ---- mutation record (tools/try_mutant.py, src/pomerol/Hamiltonian.cpp; all killed) -------------------------------------------------------
 * h_Ham_compute_mpi  C1  non-owner Eigenvalues broadcast with root 0 instead of job_map[p]      Hamiltonian_compute.loop_invariant_step.9 (ghost part: root == owner)
 *                    C2  `parts[p]->Status = Computed` dropped                                  loop_invariant_step.9
 *                    C3  ComputeWrap(*parts[i], 1)                                              loop_invariant_step.4 (complexity == size of the part)
 *                    C4  ComputeWrap(*parts[0], ...)                                            loop_invariant_step.4 (wrapper k wraps parts[k])
 *                    C5  `Eigenvalues.resize(H.rows())` dropped                                 broadcast_buf.assertion.5 (buffer holds n elements), loop_invariant_step.9
 *                    C6  computeGroundEnergy() also before the broadcasts                       postcondition.3, Hamiltonian_computeGroundEnergy.assertion.2 (every part computed)
 *                    C7  owner's H count H.rows() instead of rows*cols                          broadcast_buf.assertion.4
 *                    C8  `if (Status >= Computed) return` dropped                               postcondition.2
 *                    C9  owner broadcasts Eigenvalues in place of H                             broadcast_buf.assertion.6 (H before Eigenvalues), loop_invariant_step.9
 *                    C10 broadcast loop from p = 1                                              postcondition.3/.4, Hamiltonian_computeGroundEnergy.assertion.2, loop_invariant_base.4
 * h_Ham_prepare_mpi  P1  every part built for BlockNumber(0)                                    HamiltonianPart_new4.assertion.2 (k-th part for block k), loop_invariant_step.3/.4
 *                    P2  creation loop from block 1                                             postcondition.3, new4.assertion.2, PartPtr_mul (empty shared_ptr), loop_invariant_base
 *                    P3  `H.resize(getSize(),getSize())` dropped                                broadcast_buf.assertion.4, loop_invariant_step.14
 *                    P4  `parts[p]->Status = Prepared` dropped                                  loop_invariant_step.14
 *                    P5  non-owner broadcast with root 0                                        loop_invariant_step.14
 *                    P6  PrepareWrap(*parts[0])                                                 loop_invariant_step.9
 *                    P7  parts[0].reset(new ...)                                                loop_invariant_step.4 (parts[g] is the part created for block g)
 *                    P8  count getSize() instead of getSize()*getSize()                         broadcast_buf.assertion.4
 *                    P9  `if (Status >= Prepared) return` dropped                               postcondition.2
 */
