/* FieldOperatorPart::compute -- rotation of a creation / annihilation / quadratic operator into the eigenbasis of the
 * Hamiltonian between two blocks.   Properties C10 (eigenbasis field operators), C07 (clause "every operator maps all
 * states of a block into at most one block": the row index l is looked up inside the TARGET block).
 *
 * Documentation (include/pomerol/FieldOperatorPart.h): the part stores  C_{nm} = sum_{lk} U^*_{ln} O_{lk} U_{km}  with
 * U = eigenvectors of the target block (left factor) resp. source block (right factor), "each column of O_{lk} has only
 * one nonzero element".  HamiltonianPart::H holds the eigenvectors as columns: H(l,n) = component l of eigenvector n.
 * The code builds two dense factors and hands their product to Eigen:
 *     LeftMat(n,k)  = conj(U_to(l(k), n))          for every n   (real build: no conjugation)
 *     RightMat(k,m) = s_k * U_from(k, m)           for every m   where  O|K> = s_k |L>,  l(k) = position of L in the target block
 *   and column k of LeftMat / row k of RightMat stay zero when O annihilates K, so that entry-wise (as a mathematical product)
 *   LeftMat*RightMat = U_to^+ O U_from.
 * What is proved: for an ARBITRARY source state k and arbitrary n, m the cells LeftMat(n,k) and RightMat(k,m) handed to the
 * product have exactly these values (monitor at the product, soundness + completeness for the ghost cells); every access
 * is inside the four dense matrices; the result matrices have the dimensions of the blocks; frame; Status.
 * Not decided: the dense product itself, the 1e-8 pruning (Eigen's, opaque).
 *
 * NAMED HYPOTHESIS  HYP_SINGLETARGET (C07): the image L of every state K of the source block that O does not annihilate
 *   lies in the block `to` of this part.  ASSUMED in fo_entry() (REACH "hyp-singletarget-used").  Without it l is a position
 *   in ANOTHER block and HTo.getMatrixElement(l,n) reads outside H (known finding D9: accepted non-linear integrals).
 * ASSUMED contract of O (the presets C, Cdag, N_offdiag: ONE monomial with coefficient 1; pkgE's operator.c): actRight(K)
 *   has at most one entry, its state has the size of K (not ERROR_FOCK_STATE) and its matrix element is +1 or -1.
 *   (The code converts the matrix element to int: for an operator with non-integer matrix elements the factor would be
 *   truncated -- not reachable with the presets.)
 */
#include "../stubs/common.h"
#include "../stubs/dense.h"
#include "../stubs/sparse.h"
#include "../stubs/bitset.h"
//@include types_common.inc
//@type (Pomerol::)?RealVectorType|Eigen::Matrix<double, -1, 1(, 0)?(, -1, 1)?> => RealVector ptr
//@type (Pomerol::)?(Real)?MatrixType|Eigen::Matrix<double, -1, -1(, 1)?(, -1, -1)?> => RealMatrix ptr
//@type (Pomerol::)?FockState|boost::dynamic_bitset<.*> => Bitset val
//@type std::map<(Pomerol::)?FockState, (Pomerol::)?MelemType.*>|std::map<boost::dynamic_bitset<.*>, double.*> => FockMap ptr
//@type std::map<(Pomerol::)?FockState, (Pomerol::)?MelemType.*>::(const_)?iterator|std::_Rb_tree_(const_)?iterator<std::pair<const boost::dynamic_bitset<.*>, double> ?>(::(iterator|_Self))?|std::map<boost::dynamic_bitset<.*>, double.*>::(const_)?iterator => FockMapIt val
//@type std::vector<(Pomerol::)?FockState.*>|std::vector<boost::dynamic_bitset<.*> ?.*> => VecFock ptr
//@type std::vector<(Pomerol::)?FockState.*>::const_iterator|__gnu_cxx::__normal_iterator<const boost::dynamic_bitset<.*> ?\*, std::vector<.*> ?> => VecFockIt val
//@type (const )?Eigen::Product<.*> => DenseProd val
//@type (const )?Eigen::SparseView<.*> => SparseViewT val
//@record Pomerol::BlockNumber => BlockNumber val
//@rename op_ne_Bitset_Bitset => Bitset_ne_p
/* two-argument Eigen forms sparseView(reference, epsilon) / prune(reference, epsilon) (not used by the current code; stubs/denseprod.h) */
//@rename DenseProd_sparseView/2 => DenseProd_sparseView2
//@rename SparseRM_prune/2 => SparseRM_prune2
//@free abs => fo_abs_int
//@tu src/pomerol/FieldOperatorPart.cpp
//@enum ComputableObject::
typedef struct BlockNumber BlockNumber;
//@struct Pomerol::BlockNumber
struct Operator { int opaque; };
const Bitset ERROR_FOCK_STATE = {0UL, 0UL};      /* Misc.h: FockState(), "a state with the size==0 is an error state" */
static inline _Bool Bitset_ne_p(const Bitset *a, const Bitset *b) { return op_ne_Bitset_Bitset(*a, *b); }
static inline int fo_abs_int(int x) { __CPROVER_assert(x != (-2147483647 - 1), "abs(int): not INT_MIN"); return x < 0 ? -x : x; }
/* std::numeric_limits<double>::epsilon().  ASSUMED: two ground facts of the IEEE comparison, needed because comparisons are
 * uninterpreted in the default arithmetic mode (both are evaluated to true by -DVERIF_FP_IEEE) */
static inline double epsilon(void)
{
  double e = 2.220446049250313e-16;
  __CPROVER_assume(D_GT(1.0, e) && !D_GT(0.0, e));
  return e;
}

//@struct Pomerol::StatesClassification only=StateSize,IndexSize,Status
//@extra
long nblocks;                        /* ghost: StatesContainer.size() */
//@end
/* ---- StatesClassification: callee contracts (C07 / pkgE), the abstract partition as in hampart.c */
unsigned long __CPROVER_uninterpreted_sc_size(long block);
long          __CPROVER_uninterpreted_sc_block(unsigned long w);
unsigned long __CPROVER_uninterpreted_sc_pos(unsigned long w);
unsigned long __CPROVER_uninterpreted_sc_state(long block, unsigned long pos);
#define sc_size  __CPROVER_uninterpreted_sc_size
#define sc_block __CPROVER_uninterpreted_sc_block
#define sc_pos   __CPROVER_uninterpreted_sc_pos
#define sc_state __CPROVER_uninterpreted_sc_state
#define SC_MAXSTATES (1UL << 30)
static inline _Bool StatesClassification_wf(struct StatesClassification S)
{ return S.nblocks >= 1 && S.nblocks <= (long)SC_MAXSTATES && S.StateSize >= 1 && S.StateSize <= SC_MAXSTATES && 1 <= S.IndexSize && S.IndexSize <= 30 && S.Status <= Computed; }
/* const std::vector<FockState>& getFockStates(BlockNumber): the vector of a block = (block, size); element m = sc_state(block, m) */
typedef struct VecFock { long block; unsigned long size; unsigned int bits; unsigned long statesize; } VecFock;
typedef struct VecFockIt { VecFock v; unsigned long pos; } VecFockIt;
static inline VecFock sc_fockstates(struct StatesClassification *S, BlockNumber in)
{
  VecFock v; v.block = in.number; v.bits = S->IndexSize; v.statesize = S->StateSize; v.size = nondet_ulong();
  if (S->Status < Computed) { VERIF_THROW("exStatusMismatch"); return v; }
  /* the real function indexes StatesContainer[in] unchecked: ASSERTED */
  __CPROVER_assert(0 <= in.number && in.number < S->nblocks, "StatesClassification::getFockStates: block number inside StatesContainer");
  v.size = sc_size(in.number);
  __CPROVER_assume(1 <= v.size && v.size <= S->StateSize);     /* ASSUMED (C07) */
  return v;
}
#define StatesClassification_getFockStates(S, b) ((VecFock[1]){ sc_fockstates((S), (b)) })
#define VecFock_size(v) ((v)->size)
#define VecFock_begin(v) ((VecFockIt){ *(v), 0UL })
#define VecFock_end(v)   (*(VecFockIt[1]){ { *(v), (v)->size } })
#define op_lt_VecFockIt_VecFockIt(a, b) ((a)->pos < (b)->pos)
#define VecFockIt_postinc(it) ((it)->pos++)
static inline Bitset vecfock_elem(VecFock v, unsigned long pos)
{
  Bitset r;
  __CPROVER_assert(pos < v.size, "std::vector<FockState> iterator dereferenced only before end()");
  r.w = sc_state(v.block, pos); r.size = v.bits;
  /* ASSUMED (C07, address recovery): the state stored at (block, pos) has that block and that position */
  __CPROVER_assume(r.w < v.statesize && sc_block(r.w) == v.block && sc_pos(r.w) == pos);
  return r;
}
#define VecFockIt_mul(it) ((Bitset[1]){ vecfock_elem((it)->v, (it)->pos) })
static inline unsigned long StatesClassification_getInnerState(struct StatesClassification *S, Bitset state)
{
  if (S->Status < Computed) { VERIF_THROW("exStatusMismatch"); return nondet_ulong(); }
  if (state.w >= S->StateSize || state.size != S->IndexSize) { VERIF_THROW("exWrongState"); return S->StateSize; }
  long b = sc_block(state.w);
  unsigned long n = sc_pos(state.w);
  __CPROVER_assume(0 <= b && b < S->nblocks && n < sc_size(b) && sc_state(b, n) == state.w);   /* ASSUMED (C07) */
  return n;
}

/* ---- O->actRight(K): the map as a function of the ket (see hampart.c); here at most one entry */
unsigned long __CPROVER_uninterpreted_ar_n(unsigned long ket);
unsigned long __CPROVER_uninterpreted_ar_key(unsigned long ket, long pos);
double        __CPROVER_uninterpreted_ar_val(unsigned long ket, long pos);
#define ar_n   __CPROVER_uninterpreted_ar_n
#define ar_key __CPROVER_uninterpreted_ar_key
#define ar_val __CPROVER_uninterpreted_ar_val
typedef struct FockPair { Bitset first; double second; } FockPair;
typedef struct FockMap { Bitset ket; long n; } FockMap;
typedef struct FockMapIt { Bitset ket; long n, pos; FockPair cur; } FockMapIt;
long g_to;                  /* ghost: block number of HTo (the target block of this part) */
unsigned long g_StateSize;
static inline FockMap Operator_actRight(struct Operator *O, Bitset ket)
{
  FockMap m; m.ket = ket; m.n = (long)ar_n(ket.w);
  __CPROVER_assume(m.n == 0 || m.n == 1);       /* ASSUMED: O is ONE monomial: at most one image state */
  return m;
}
static inline FockPair fo_entry(Bitset ket, long pos)
{
  FockPair p; p.first.w = ar_key(ket.w, pos); p.first.size = ket.size; p.second = ar_val(ket.w, pos);
  /* ASSUMED (preset operators): the matrix element of the single monomial is +1 or -1 */
  __CPROVER_assume(D_SAME(p.second, 1.0) || D_SAME(p.second, -1.0));
  /* NAMED HYPOTHESIS HYP_SINGLETARGET (C07): the image lies in the target block of this part */
  __CPROVER_assume(p.first.w < g_StateSize && sc_block(p.first.w) == g_to);
  REACH("hyp-singletarget-used");
  return p;
}
#define FockMap_size(m) ((unsigned long)(m)->n)
#define FockMap_begin(m) (*(FockMapIt[1]){ { (m)->ket, (m)->n, 0L, { {0UL, 0UL}, 0.0 } } })
static inline FockPair *fo_arrow(FockMapIt *it)
{
  __CPROVER_assert(0 <= it->pos && it->pos < it->n, "std::map iterator dereferenced only before end()");
  it->cur = fo_entry(it->ket, it->pos);
  return &it->cur;
}
#define FockMapIt_arrow(it) fo_arrow(it)

/* ---- HamiltonianPart: eigenvector matrix H; getBlockNumber() = callee contract "Return the BlockNumber associated with
 * the Hamiltonian part" (the field Block) */
//@struct Pomerol::HamiltonianPart only=Status,H,Block
static inline BlockNumber HamiltonianPart_getBlockNumber(struct HamiltonianPart *self) { return self->Block; }
//@tu src/pomerol/StatesClassification.cpp
/* twins for the other spelling of an increment (`++it` for `it++` and vice versa): same effect.  X_inc yields the iterator after the step
 * (exact); X_postinc made from X_inc is void, so a use of its value does not compile (UNDECIDED) instead of being modelled wrongly */
#define VecFockIt_inc(it_) (VecFockIt_postinc(it_), (it_))      /* pre-increment: the iterator itself, after the step */
//@function Pomerol::BlockNumber::operator==(Pomerol::BlockNumber const&) const as BlockNumber_eq
//@end
//@tu src/pomerol/HamiltonianPart.cpp
//@function Pomerol::HamiltonianPart::getMatrixElement(unsigned long, unsigned long) const as HamiltonianPart_getMatrixElement
//@end
//@tu src/pomerol/FieldOperatorPart.cpp

/* ---- ghosts and the monitor at the dense product */
struct FieldOperatorPart;
struct FieldOperatorPart *g_self;
long g_k, g_n, g_m;          /* ghost source position k, ghost row n of LeftMat, ghost column m of RightMat */
_Bool g_has;                 /* O does not annihilate the ghost source state K = state(from, g_k) */
long g_l;                    /* position of the image L in the target block */
double g_s;                  /* O|K> = g_s |L> */
double g_left_expect, g_right_expect;   /* spec values of the ghost cells (calls are not allowed in loop invariants) */
static void fo_monitor(RealMatrix *A, RealMatrix *B);
#define DENSEPROD_MONITOR(A, B) fo_monitor((A), (B))
#include "../stubs/denseprod.h"
//@struct Pomerol::FieldOperatorPart skip=IndexInfo embed=S,HFrom,HTo

#define LVBITS(x) (*(const unsigned long *)&(x))
#define UTO(self, l, n)   ((self)->HTo.H.data[DENSE_IDX((l), (n))])
#define UFROM(self, k, m) ((self)->HFrom.H.data[DENSE_IDX((k), (m))])
/* SPEC (class documentation): LeftMat(n,k) = conj(U_to(l,n)) [real build: U_to(l,n)],  RightMat(k,m) = s * U_from(k,m) */
static inline double spec_left(void)  { return UTO(g_self, g_l, g_n); }
static inline double spec_right(void) { return D_MUL(g_s, UFROM(g_self, g_k, g_m)); }
static void fo_monitor(RealMatrix *A, RealMatrix *B)
{
  __CPROVER_assert(A->rows == g_self->HTo.H.rows && A->cols == g_self->HFrom.H.rows, "C10: left factor is dim(to) x dim(from)");
  __CPROVER_assert(B->rows == g_self->HFrom.H.rows && B->cols == g_self->HFrom.H.rows, "C10: right factor is dim(from) x dim(from)");
  double a = A->data[DENSE_IDX(g_n, g_k)], b = B->data[DENSE_IDX(g_k, g_m)];
  if (g_has) {
    __CPROVER_assert(D_SAME(a, spec_left()), "C10: LeftMat(n,k) == conj(U_to(l,n)) for the image l of k");
    __CPROVER_assert(D_SAME(b, spec_right()), "C10: RightMat(k,m) == s * U_from(k,m)");
    REACH("monitor-image");
  } else {
    __CPROVER_assert(D_SAME(a, 0.0), "C10: column k of LeftMat stays zero when O annihilates state k");
    __CPROVER_assert(D_SAME(b, 0.0), "C10: row k of RightMat stays zero when O annihilates state k");
    REACH("monitor-annihilated");
  }
}

#define FROMN(self) sc_size((self)->HFrom.Block.number)
#define TON(self)   sc_size((self)->HTo.Block.number)
#define GK_STATE(self) sc_state((self)->HFrom.Block.number, (unsigned long)g_k)
unsigned long g_fromN, g_toN;   /* ghost copies of the block sizes for the loop invariants */
//@maythrow StatesClassification_getInnerState sc_fockstates
//@function Pomerol::FieldOperatorPart::compute() as FieldOperatorPart_compute
//@contract
__CPROVER_requires(__CPROVER_is_fresh(self, sizeof(*self)) && g_self == self && !VERIF_thrown && self->Status <= Computed)
__CPROVER_requires(StatesClassification_wf(self->S) && self->S.Status == Computed && g_StateSize == self->S.StateSize)
__CPROVER_requires(__CPROVER_is_fresh(self->O, sizeof(struct Operator)))
/* the two Hamiltonian parts belong to existing blocks and hold their (square) eigenvector matrices (C03) */
__CPROVER_requires(0 <= self->HFrom.Block.number && self->HFrom.Block.number < self->S.nblocks)
__CPROVER_requires(0 <= self->HTo.Block.number && self->HTo.Block.number < self->S.nblocks && g_to == self->HTo.Block.number)
__CPROVER_requires(g_fromN == FROMN(self) && g_toN == TON(self) && 1 <= g_fromN && g_fromN <= SP_MAX && 1 <= g_toN && g_toN <= SP_MAX)
__CPROVER_requires(RealMatrix_wf(&self->HFrom.H, DENSE_MAXDIM) && self->HFrom.H.rows == (long)g_fromN && self->HFrom.H.cols == (long)g_fromN)
__CPROVER_requires(RealMatrix_wf(&self->HTo.H, DENSE_MAXDIM) && self->HTo.H.rows == (long)g_toN && self->HTo.H.cols == (long)g_toN)
/* ghost cells */
__CPROVER_requires(0 <= g_k && (unsigned long)g_k < g_fromN && 0 <= g_m && (unsigned long)g_m < g_fromN && 0 <= g_n && (unsigned long)g_n < g_toN)
/* ghost source state K and what O does to it (the same facts that the stubs deliver for every state) */
__CPROVER_requires(g_has == (ar_n(GK_STATE(self)) == 1))
__CPROVER_requires(g_has ==> (g_l == (long)sc_pos(ar_key(GK_STATE(self), 0)) && D_SAME(g_s, ar_val(GK_STATE(self), 0)) &&
                              0 <= g_l && (unsigned long)g_l < g_toN))
__CPROVER_requires(!g_has ==> (g_l == 0 && D_SAME(g_s, 0.0)))
__CPROVER_requires(D_SAME(g_left_expect, spec_left()) && D_SAME(g_right_expect, spec_right()))
/* frame: nothing when already computed; otherwise the two sparse matrices and Status */
__CPROVER_assigns(self->Status < Computed: self->elementsRowMajor, self->elementsColMajor, self->Status, VERIF_thrown)
__CPROVER_ensures(!VERIF_thrown && self->Status == Computed)
/* the stored matrix is dim(to) x dim(from) in both storage orders (what the sparse walks of C01/C02/C14 rely on) */
__CPROVER_ensures(__CPROVER_old(self->Status) < Computed ==> (self->elementsRowMajor.outerSize == (long)g_toN && self->elementsRowMajor.innerSize == (long)g_fromN))
__CPROVER_ensures(__CPROVER_old(self->Status) < Computed ==> (self->elementsColMajor.outerSize == (long)g_fromN && self->elementsColMajor.innerSize == (long)g_toN))
//@loop 1
__CPROVER_assigns(CurrentState, VERIF_thrown, __CPROVER_object_whole(LeftMat.data), __CPROVER_object_whole(RightMat.data))
__CPROVER_loop_invariant(CurrentState.pos <= g_fromN && CurrentState.v.block == self->HFrom.Block.number && CurrentState.v.size == g_fromN &&
                         CurrentState.v.bits == self->S.IndexSize && CurrentState.v.statesize == self->S.StateSize)
__CPROVER_loop_invariant(!VERIF_thrown)
__CPROVER_loop_invariant(CurrentState.pos <= (unsigned long)g_k ==> (LVBITS(LeftMat.data[DENSE_IDX(g_n, g_k)]) == 0UL && LVBITS(RightMat.data[DENSE_IDX(g_k, g_m)]) == 0UL))
__CPROVER_loop_invariant((CurrentState.pos > (unsigned long)g_k && g_has) ==>
     (LVBITS(LeftMat.data[DENSE_IDX(g_n, g_k)]) == LVBITS(g_left_expect) && LVBITS(RightMat.data[DENSE_IDX(g_k, g_m)]) == LVBITS(g_right_expect)))
__CPROVER_loop_invariant((CurrentState.pos > (unsigned long)g_k && !g_has) ==>
     (LVBITS(LeftMat.data[DENSE_IDX(g_n, g_k)]) == 0UL && LVBITS(RightMat.data[DENSE_IDX(g_k, g_m)]) == 0UL))
__CPROVER_decreases(g_fromN - CurrentState.pos)
//@loop 2
__CPROVER_assigns(n, __CPROVER_object_whole(LeftMat.data))
__CPROVER_loop_invariant(n <= g_toN)
__CPROVER_loop_invariant(k != (unsigned long)g_k ==> LVBITS(LeftMat.data[DENSE_IDX(g_n, g_k)]) == __CPROVER_loop_entry(LVBITS(LeftMat.data[DENSE_IDX(g_n, g_k)])))
__CPROVER_loop_invariant((k == (unsigned long)g_k && n <= (unsigned long)g_n) ==> LVBITS(LeftMat.data[DENSE_IDX(g_n, g_k)]) == 0UL)
__CPROVER_loop_invariant((k == (unsigned long)g_k && n > (unsigned long)g_n) ==> LVBITS(LeftMat.data[DENSE_IDX(g_n, g_k)]) == LVBITS(g_left_expect))
__CPROVER_decreases(g_toN - n)
//@loop 3
__CPROVER_assigns(m, __CPROVER_object_whole(RightMat.data))
__CPROVER_loop_invariant(m <= g_fromN)
__CPROVER_loop_invariant(k != (unsigned long)g_k ==> LVBITS(RightMat.data[DENSE_IDX(g_k, g_m)]) == __CPROVER_loop_entry(LVBITS(RightMat.data[DENSE_IDX(g_k, g_m)])))
__CPROVER_loop_invariant((k == (unsigned long)g_k && m <= (unsigned long)g_m) ==> LVBITS(RightMat.data[DENSE_IDX(g_k, g_m)]) == 0UL)
__CPROVER_loop_invariant((k == (unsigned long)g_k && m > (unsigned long)g_m) ==> LVBITS(RightMat.data[DENSE_IDX(g_k, g_m)]) == LVBITS(g_right_expect))
__CPROVER_decreases(g_fromN - m)
//@end

//@harness h_FOP_compute enforce=FieldOperatorPart_compute props=C10,C07 min_obl=1613 reach=4 timeout=900
void h_FOP_compute(void)
{
  struct FieldOperatorPart *p;
  FieldOperatorPart_compute(p);
  REACH("exit");
}

/* ---- mutation record -----------------------------------------------------------------------------------------------------
 * h_FOP_compute: LeftMat(n,k) = HTo.getMatrixElement(l,n) -> (n,l)          FAIL compute.loop_invariant_step.4/.12 (LeftMat ghost cell)
 *                RightMat(k,m) = RealType(sign)*HFrom(k,m) -> HFrom(k,m)    FAIL compute.loop_invariant_step.8/.16 (RightMat ghost cell = s*U_from)
 *                RightMat(k,m) -> RightMat(m,k)                              UNDECIDED (630 obligations UNKNOWN, no verdict within the run; not a survivor, not a kill)
 */
