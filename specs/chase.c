/* chaseIndices (file-static in TwoParticleGFPart.cpp): "make the lagging index catch up or outrun
 * the leading index".  Properties: C02 (index chasing), C17 (no read outside the sparse arrays). */
#include "../stubs/common.h"
#include "../stubs/sparse.h"
//@include types_common.inc
//@tu src/pomerol/TwoParticleGFPart.cpp

//@function Pomerol::chaseIndices(Eigen::SparseCompressedBase<Eigen::SparseMatrix<double, 1, int> >::InnerIterator&, Eigen::SparseCompressedBase<Eigen::SparseMatrix<double, 0, int> >::InnerIterator&) as chaseIndices
//@contract
__CPROVER_requires(__CPROVER_is_fresh(index1_iter, sizeof(SpIt)) && __CPROVER_is_fresh(index2_iter, sizeof(SpIt)))
__CPROVER_requires(__CPROVER_is_fresh(index1_iter->m, sizeof(SparseM)) && SparseM_wf(index1_iter->m))
__CPROVER_requires(__CPROVER_is_fresh(index2_iter->m, sizeof(SparseM)) && SparseM_wf(index2_iter->m))
/* both iterators valid (the callers test `it1 && it2` before the call) */
__CPROVER_requires(0 <= index1_iter->m_id && index1_iter->m_id < index1_iter->m_end && index1_iter->m_end <= index1_iter->m->nnz)
__CPROVER_requires(0 <= index2_iter->m_id && index2_iter->m_id < index2_iter->m_end && index2_iter->m_end <= index2_iter->m->nnz)
__CPROVER_requires(0 <= index1_iter->m_outer && index1_iter->m_outer < index1_iter->m->outerSize && 0 <= index2_iter->m_outer && index2_iter->m_outer < index2_iter->m->outerSize)
__CPROVER_assigns(index1_iter->m_id, index2_iter->m_id)
/* equal indices: nothing moves, result true */
__CPROVER_ensures(__CPROVER_return_value ==
   (__CPROVER_old(index1_iter->m->inner[index1_iter->m_id]) == __CPROVER_old(index2_iter->m->inner[index2_iter->m_id])))
__CPROVER_ensures(__CPROVER_return_value ==> (index1_iter->m_id == __CPROVER_old(index1_iter->m_id) && index2_iter->m_id == __CPROVER_old(index2_iter->m_id)))
/* otherwise only the lagging iterator moved, forward, and not past its end */
__CPROVER_ensures(index1_iter->m_id >= __CPROVER_old(index1_iter->m_id) && index1_iter->m_id <= index1_iter->m_end)
__CPROVER_ensures(index2_iter->m_id >= __CPROVER_old(index2_iter->m_id) && index2_iter->m_id <= index2_iter->m_end)
__CPROVER_ensures(index1_iter->m_id == __CPROVER_old(index1_iter->m_id) || index2_iter->m_id == __CPROVER_old(index2_iter->m_id))
/* it stops at the first position whose index is >= the leader's index, or at its end */
__CPROVER_ensures((!__CPROVER_return_value && index1_iter->m_id != __CPROVER_old(index1_iter->m_id) && index1_iter->m_id < index1_iter->m_end) ==>
   index1_iter->m->inner[index1_iter->m_id] >= index2_iter->m->inner[index2_iter->m_id])
__CPROVER_ensures((!__CPROVER_return_value && index2_iter->m_id != __CPROVER_old(index2_iter->m_id) && index2_iter->m_id < index2_iter->m_end) ==>
   index2_iter->m->inner[index2_iter->m_id] >= index1_iter->m->inner[index1_iter->m_id])
/* ghost position g of a matrix (arbitrary): the chase never skips a stored element whose index is >= the leader's index */
__CPROVER_ensures((index1_iter->m->gpos >= 0 && index1_iter->m_outer == index1_iter->m->gouter && __CPROVER_old(index1_iter->m_id) <= index1_iter->m->gpos &&
                   index1_iter->m->inner[index1_iter->m->gpos] >= __CPROVER_old(index2_iter->m->inner[index2_iter->m_id])) ==> index1_iter->m_id <= index1_iter->m->gpos)
__CPROVER_ensures((index2_iter->m->gpos >= 0 && index2_iter->m_outer == index2_iter->m->gouter && __CPROVER_old(index2_iter->m_id) <= index2_iter->m->gpos &&
                   index2_iter->m->inner[index2_iter->m->gpos] >= __CPROVER_old(index1_iter->m->inner[index1_iter->m_id])) ==> index2_iter->m_id <= index2_iter->m->gpos)
//@loop 1
__CPROVER_assigns(index1_iter->m_id)
__CPROVER_loop_invariant(__CPROVER_loop_entry(index1_iter->m_id) <= index1_iter->m_id && index1_iter->m_id <= index1_iter->m_end)
__CPROVER_loop_invariant((index1_iter->m->gpos >= 0 && index1_iter->m_outer == index1_iter->m->gouter && __CPROVER_loop_entry(index1_iter->m_id) <= index1_iter->m->gpos &&
                          (unsigned long)index1_iter->m->inner[index1_iter->m->gpos] >= index2) ==> index1_iter->m_id <= index1_iter->m->gpos)
__CPROVER_decreases(index1_iter->m_end - index1_iter->m_id)
//@loop 2
__CPROVER_assigns(index2_iter->m_id)
__CPROVER_loop_invariant(__CPROVER_loop_entry(index2_iter->m_id) <= index2_iter->m_id && index2_iter->m_id <= index2_iter->m_end)
__CPROVER_loop_invariant((index2_iter->m->gpos >= 0 && index2_iter->m_outer == index2_iter->m->gouter && __CPROVER_loop_entry(index2_iter->m_id) <= index2_iter->m->gpos &&
                          (unsigned long)index2_iter->m->inner[index2_iter->m->gpos] >= index1) ==> index2_iter->m_id <= index2_iter->m->gpos)
__CPROVER_decreases(index2_iter->m_end - index2_iter->m_id)
//@end

//@harness h_chaseIndices enforce=chaseIndices replay=sparsewalk:chase props=C02,C17 min_obl=2669 reach=1
void h_chaseIndices(void)
{
  SpIt *a, *b;
  chaseIndices(a, b);
  REACH("exit");
}
