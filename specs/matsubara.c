/* C15 -- Vertex4 and its precomputed Matsubara storage (include/pomerol/MatsubaraContainers.h,
 * src/pomerol/Vertex4.cpp).
 *
 *   MatsubaraContainer4<Vertex4>::fill / operator()   (instantiated by the compiler in Vertex4.cpp)
 *   Vertex4::value                                     (pin against the \mainpage definition, Misc.h)
 *   Vertex4::operator() / compute                      (thin wrappers, on top of the container contracts)
 *   MatsubaraContainer1<Src>::fill / operator()        (never instantiated inside the library: specs/inst_matsubara.cpp)
 *
 * All statements hold for EVERY window size N in [0,2^40] and every triple in [-2^40,2^40]^3; the
 * containers are ghost-element models (stubs/gvec.h), nothing is unwound or bounded.
 */
#include "../stubs/common.h"
#include "../stubs/cplx.h"
#include "../stubs/gvec.h"
//@include types_common.inc
//@type std::vector<long(, std::allocator<long> ?)?> => VecLong ptr
//@type std::vector<(Pomerol::)?ComplexMatrixType(, .*)?>|std::vector<Eigen::Matrix<std::complex<double>, -1, -1, 1(, -1, -1)?>(, .*)?> => VecCMat ptr
//@type (Pomerol::)?ComplexMatrixType|Eigen::Matrix<std::complex<double>, -1, -1, 1(, -1, -1)?> => CMat ptr
//@type (Pomerol::)?ComplexVectorType|Eigen::Matrix<std::complex<double>, -1, 1(, 0)?(, -1, 1)?> => CVec ptr
//@type (Pomerol::)?MatsubaraContainer4<(Pomerol::)?Vertex4> => struct MC4 ptr
//@record Pomerol::MatsubaraContainer4 => struct MC4 ptr
//@type (Pomerol::)?MatsubaraContainer1<(Pomerol::)?Src1> => struct MC1 ptr
//@record Pomerol::MatsubaraContainer1 => struct MC1 ptr
//@free abs(long) => l_abs
//@tu src/pomerol/Vertex4.cpp
//@enum ComputableObject::

/* dependencies of Vertex4::value: opaque objects with an identity; their values are opaque functions
 * of (identity, frequency arguments) */
struct TwoParticleGF { long id; double beta; };      /* identity + the inverse temperature it was built for (Thermal base) */
struct GreensFunction { long id; double beta; };
struct Vertex4;
//@struct Pomerol::MatsubaraContainer4<Pomerol::Vertex4>
//@struct Pomerol::Vertex4 embed=Chi4,G13,G24,G14,G23

/* ======================= SPEC (written from the documentation, not from the code) =======================
 * Header comment of fill():  omega_1 = nu, omega_3 = nu', omega_1+omega_2 = Omega; the layout is
 * "bosonic index major": slice V holds the bosonic frequency Omega = V - 2N (V = 0 is the smallest
 * possible sum n1+n2 = -2N of two fermionic indices of the window [-N,N)); inside a slice the
 * fermionic indices nu, nu' are counted from the smallest index lo(Omega) for which both nu and
 * Omega-nu lie in the window [-N,N):  lo = max(-N, Omega-N+1),  hi = min(N, Omega+N+1) (exclusive).
 * The window therefore consists of the triples whose FOUR fermionic indices n1,n2,n3,n1+n2-n3 lie in [-N,N).
 */
#define NMAX (1L << 40)
#define SP_OMEGA(N, V)      ((V) - 2 * (N))
#define SP_LO(N, Om)        ((((Om) - (N) + 1) > -(N)) ? ((Om) - (N) + 1) : -(N))
#define SP_HI(N, Om)        ((((Om) + (N) + 1) < (N)) ? ((Om) + (N) + 1) : (N))
#define SP_SIZE(N, Om)      (SP_HI(N, Om) - SP_LO(N, Om))
#define SP_NSLICES(N)       ((N) == 0 ? 0 : 4 * (N) - 1)       /* number of Omega with a non-empty slice: -2N .. 2N-2 */
/* slot_triple(N,V,nu,nup) = (n1,n2,n3) */
#define SP_N1(N, V, nu)     (SP_LO(N, SP_OMEGA(N, V)) + (nu))
#define SP_N3(N, V, nup)    (SP_LO(N, SP_OMEGA(N, V)) + (nup))
#define SP_N2(N, V, nu)     (SP_OMEGA(N, V) - SP_N1(N, V, nu))
#define IN1(N, n)           (-(N) <= (n) && (n) < (N))
#define IN_WINDOW(N, a, b, c) (IN1(N, a) && IN1(N, b) && IN1(N, c) && IN1(N, (a) + (b) - (c)))
#define SLOT_V_VALID(N, V)  (0 <= (V) && (V) < SP_NSLICES(N))
#define SLOT_VALID(N, V, nu, nup) (SLOT_V_VALID(N, V) && 0 <= (nu) && (nu) < SP_SIZE(N, SP_OMEGA(N, V)) && 0 <= (nup) && (nup) < SP_SIZE(N, SP_OMEGA(N, V)))
#define GBOX(x)             (-(1L << 44) <= (x) && (x) <= (1L << 44))
#define BOX(n)              (-NMAX <= (n) && (n) <= NMAX)
#define DBITS(x)            (*(const unsigned long *)&(x))     /* bit pattern of a double lvalue (no call: usable in loop invariants) */
#define C_SAMEBITS(a, b)    (DBITS((a).re) == DBITS((b).re) && DBITS((a).im) == DBITS((b).im))

/* ghost state */
long g_N;                         /* window size */
long g_V, g_nu, g_nup;            /* ghost slot (arbitrary) */
struct Vertex4 *g_src;            /* the source object handed to fill */
long g_hits;                      /* fill: number of source evaluations at the ghost slot's triple */
unsigned long g_calls;            /* number of source evaluations (wraps: only compared with 0/1 on loop-free paths) */
long g_a1, g_a2, g_a3;            /* arguments of the last source evaluation */
cplx g_expect;                    /* = vertex_uf(slot_triple(ghost)) (calls are not allowed in loop invariants) */
#define GHOST_VALID  SLOT_VALID(g_N, g_V, g_nu, g_nup)
#define G_N1 SP_N1(g_N, g_V, g_nu)
#define G_N2 SP_N2(g_N, g_V, g_nu)
#define G_N3 SP_N3(g_N, g_V, g_nup)
/* the spec quantities of the ghost slot, evaluated ONCE (pre-condition GHOST_CONSTS) and then used in the
 * monitor and the loop invariants: re-evaluating the min/max expressions at every use costs minutes */
_Bool g_ok, g_vok;                /* = GHOST_VALID, = SLOT_V_VALID(g_N, g_V) */
long g_lo, g_sz;                  /* = lo and size of the ghost slice */
long g_n1, g_n2, g_n3;            /* = slot_triple(ghost) */
#define GHOST_CONSTS (g_vok == SLOT_V_VALID(g_N, g_V) && g_ok == GHOST_VALID && g_lo == SP_LO(g_N, SP_OMEGA(g_N, g_V)) && \
                      g_sz == SP_SIZE(g_N, SP_OMEGA(g_N, g_V)) && g_n1 == G_N1 && g_n2 == G_N2 && g_n3 == G_N3)

/* the value of the source object: an opaque function of the triple */
double __CPROVER_uninterpreted_vtx_re(long, long, long);
double __CPROVER_uninterpreted_vtx_im(long, long, long);
static inline cplx vertex_uf(long n1, long n2, long n3)
{ cplx c = {__CPROVER_uninterpreted_vtx_re(n1, n2, n3), __CPROVER_uninterpreted_vtx_im(n1, n2, n3)}; return c; }

/* MONITOR for pSource->value(n1,n2,n3) as called by the container */
//@rename Vertex4_value => Vertex4_value_mon
cplx Vertex4_value_mon(struct Vertex4 *src, long n1, long n2, long n3)
{
  __CPROVER_assert(src == g_src, "C15: the container evaluates the source object it was filled from");
#ifdef MON_FILL
  /* soundness of fill: only triples of the window are precomputed */
  __CPROVER_assert(IN_WINDOW(g_N, n1, n2, n3), "C15: fill evaluates the source only at triples of the window");
  if (g_ok && n1 == g_n1 && n2 == g_n2 && n3 == g_n3) { g_hits++; REACH("fill_hit"); }
#else
  g_calls++; g_a1 = n1; g_a2 = n2; g_a3 = n3;    /* lookup: number and arguments of the evaluations */
#endif
  REACH("value");
  return vertex_uf(n1, n2, n3);
}

/* ======================= MatsubaraContainer4<Vertex4>::fill ======================= */
#define VALS (&self->Values)
#define OFFS (&self->FermionicIndexOffset)
#define HITCELL (g_hits == 1 && C_SAMEBITS(self->Values.g.gcell, g_expect))
#define HIT_INV(passed) ((g_ok && (passed)) ? HITCELL : g_hits == 0)
//@function Pomerol::MatsubaraContainer4<Pomerol::Vertex4>::fill(Pomerol::Vertex4 const*, long) as MC4_fill
//@contract
__CPROVER_requires(__CPROVER_is_fresh(self, sizeof(*self)))
__CPROVER_requires(0 <= NumberOfMatsubaras && NumberOfMatsubaras <= NMAX && g_N == NumberOfMatsubaras && g_src == pSource)
/* any prior state of the container */
__CPROVER_requires(0 <= self->Values.size && self->Values.size <= GVEC_MAXSIZE && 0 <= self->FermionicIndexOffset.size && self->FermionicIndexOffset.size <= GVEC_MAXSIZE)
__CPROVER_requires(-1 <= self->Values.cur && self->Values.cur < self->Values.size && -1 <= self->FermionicIndexOffset.cur && self->FermionicIndexOffset.cur < self->FermionicIndexOffset.size)
/* ghost slot: arbitrary inside a box that contains every valid slot */
__CPROVER_requires(GBOX(g_V) && GBOX(g_nu) && GBOX(g_nup))
__CPROVER_requires(self->Values.gidx == g_V && self->FermionicIndexOffset.gidx == g_V && self->Values.g.gi == g_nu && self->Values.g.gj == g_nup)
__CPROVER_requires(GHOST_CONSTS)
__CPROVER_requires(g_hits == 0 && C_SAME(g_expect, vertex_uf(g_n1, g_n2, g_n3)))
__CPROVER_assigns(self->NumberOfMatsubaras, self->pSource, self->Values, self->FermionicIndexOffset, g_hits)
__CPROVER_ensures(self->NumberOfMatsubaras == NumberOfMatsubaras && self->pSource == pSource)
/* one slice per bosonic frequency with a non-empty window */
__CPROVER_ensures(self->Values.size == SP_NSLICES(g_N) && self->FermionicIndexOffset.size == SP_NSLICES(g_N))
/* (g: slice V) offset and shape of the slice */
__CPROVER_ensures(SLOT_V_VALID(g_N, g_V) ==> (self->FermionicIndexOffset.gval == SP_LO(g_N, SP_OMEGA(g_N, g_V)) &&
                  self->Values.g.rows == SP_SIZE(g_N, SP_OMEGA(g_N, g_V)) && self->Values.g.cols == SP_SIZE(g_N, SP_OMEGA(g_N, g_V))))
/* (g: slot) the source is evaluated exactly once at the slot's triple, and the slot holds that value */
__CPROVER_ensures(GHOST_VALID ==> (g_hits == 1 && C_SAME(self->Values.g.gcell, vertex_uf(G_N1, G_N2, G_N3))))
__CPROVER_ensures(!GHOST_VALID ==> g_hits == 0)
//@loop 1
__CPROVER_assigns(BosonicIndexV, g_hits,
                  self->Values.g.rows, self->Values.g.cols, self->Values.g.gcell, self->Values.g.other, self->Values.cur, self->Values.curm,
                  self->FermionicIndexOffset.gval, self->FermionicIndexOffset.cur, self->FermionicIndexOffset.curval)
__CPROVER_loop_invariant(0 <= BosonicIndexV && BosonicIndexV <= 4 * NumberOfMatsubaras - 1)
__CPROVER_loop_invariant(HIT_INV(BosonicIndexV > g_V))
__CPROVER_loop_invariant((g_vok && BosonicIndexV > g_V) ==> (self->FermionicIndexOffset.gval == g_lo && self->Values.g.rows == g_sz && self->Values.g.cols == g_sz))
__CPROVER_decreases(4 * NumberOfMatsubaras - 1 - BosonicIndexV)
//@loop 2
__CPROVER_assigns(NuIndexM, g_hits,
                  self->Values.g.gcell, self->Values.g.other, self->Values.curm.gcell, self->Values.curm.other)
__CPROVER_loop_invariant(0 <= NuIndexM && NuIndexM <= FermionicMatrixSize)
__CPROVER_loop_invariant(HIT_INV(BosonicIndexV > g_V || (BosonicIndexV == g_V && NuIndexM > g_nu)))
__CPROVER_decreases(FermionicMatrixSize - NuIndexM)
//@loop 3
__CPROVER_assigns(NupIndexM, g_hits,
                  self->Values.g.gcell, self->Values.g.other, self->Values.curm.gcell, self->Values.curm.other)
__CPROVER_loop_invariant(0 <= NupIndexM && NupIndexM <= FermionicMatrixSize)
__CPROVER_loop_invariant(HIT_INV(BosonicIndexV > g_V || (BosonicIndexV == g_V && (NuIndexM > g_nu || (NuIndexM == g_nu && NupIndexM > g_nup)))))
__CPROVER_decreases(FermionicMatrixSize - NupIndexM)
//@end

//@harness h_MC4_fill enforce=MC4_fill props=C15,C17 min_obl=1640 reach=3 timeout=900 defs=-DMON_FILL
void h_MC4_fill(void)
{
  struct MC4 *c; struct Vertex4 *src; long N;
  MC4_fill(c, src, N);
  REACH("exit");
}

/* ======================= MatsubaraContainer4<Vertex4>::operator() =======================
 * Class invariant CINV of a filled container = post-condition of fill (proved there for an arbitrary slice /
 * slot, hence for all).  It is needed at the slice the lookup touches; the ghost slice is therefore
 * instantiated at Omega = n1+n2 whenever that slice exists (lemma L3 below shows that no other slice can
 * hold the triple), the ghost cell (nu,nu') stays arbitrary. */
#define N_ (self->NumberOfMatsubaras)
#define n1_ MatsubaraNumber1
#define n2_ MatsubaraNumber2
#define n3_ MatsubaraNumber3
#define CINV_SIZES(self)  ((self)->Values.size == SP_NSLICES(g_N) && (self)->FermionicIndexOffset.size == SP_NSLICES(g_N))
#define CINV_SLICE(self)  (SLOT_V_VALID(g_N, g_V) ==> ((self)->FermionicIndexOffset.gval == SP_LO(g_N, SP_OMEGA(g_N, g_V)) && \
                           (self)->Values.g.rows == SP_SIZE(g_N, SP_OMEGA(g_N, g_V)) && (self)->Values.g.cols == SP_SIZE(g_N, SP_OMEGA(g_N, g_V))))
#define CINV_CELL(self)   (GHOST_VALID ==> C_SAME((self)->Values.g.gcell, vertex_uf(G_N1, G_N2, G_N3)))
#define GHOST_IS(a, b, c) (GHOST_VALID && G_N1 == (a) && G_N2 == (b) && G_N3 == (c))
//@function Pomerol::MatsubaraContainer4<Pomerol::Vertex4>::operator()(long, long, long) const as MC4_call
//@contract
__CPROVER_requires(__CPROVER_is_fresh(self, sizeof(*self)))
__CPROVER_requires(0 <= N_ && N_ <= NMAX && g_N == N_ && g_src == self->pSource)
__CPROVER_requires(BOX(n1_) && BOX(n2_) && BOX(n3_))
__CPROVER_requires(GBOX(g_V) && GBOX(g_nu) && GBOX(g_nup))
__CPROVER_requires(self->Values.gidx == g_V && self->FermionicIndexOffset.gidx == g_V && self->Values.g.gi == g_nu && self->Values.g.gj == g_nup)
__CPROVER_requires(SLOT_V_VALID(g_N, n1_ + n2_ + 2 * g_N) ==> g_V == n1_ + n2_ + 2 * g_N)
__CPROVER_requires(CINV_SIZES(self) && CINV_SLICE(self) && CINV_CELL(self))
__CPROVER_requires(g_calls == 0)
__CPROVER_assigns(g_calls, g_a1, g_a2, g_a3, self->Values.cur, self->Values.curm, self->Values.g.other,
                  self->FermionicIndexOffset.cur, self->FermionicIndexOffset.curval)
/* inside the window: no evaluation of the source ... */
__CPROVER_ensures(IN_WINDOW(g_N, n1_, n2_, n3_) == (g_calls == 0))
/* ... the value comes from the slot whose stored triple is (n1,n2,n3) (g: slot), which holds value(n1,n2,n3) */
__CPROVER_ensures(GHOST_IS(n1_, n2_, n3_) ==> (g_calls == 0 && C_SAME(__CPROVER_return_value, __CPROVER_old(self->Values.g.gcell))))
/* outside: exactly one evaluation, with the same arguments */
__CPROVER_ensures(!IN_WINDOW(g_N, n1_, n2_, n3_) ==> (g_calls == 1 && g_a1 == n1_ && g_a2 == n2_ && g_a3 == n3_))
/* transparency: in both cases the result is value(n1,n2,n3) */
__CPROVER_ensures((GHOST_IS(n1_, n2_, n3_) || !IN_WINDOW(g_N, n1_, n2_, n3_)) ==> C_SAME(__CPROVER_return_value, vertex_uf(n1_, n2_, n3_)))
//@end

//@harness h_MC4_call enforce=MC4_call props=C15,C17 min_obl=659 reach=5 timeout=300
void h_MC4_call(void)
{
  struct MC4 *c; long n1, n2, n3;
  cplx r = MC4_call(c, n1, n2, n3);
  if (g_calls == 0) REACH("cached"); else REACH("miss");
  if (GHOST_IS(n1, n2, n3)) REACH("ghost_cell_read");
  REACH("exit");
}

/* Index lemmas about the SPEC functions (loop-free, all N in [0,2^40]): the valid slots and the triples of the
 * window are in bijection through slot_triple.  L1/L2 make the conditional post-conditions above non-vacuous
 * (every triple of the window is the triple of a valid slot), L3 justifies the instantiation of the ghost slice.
 * (three harnesses: one SAT instance for all of them takes 2 min, separately 3-20 s each) */
static void mc4_index_lemma(int which)
{
  long N = nondet_long(), n1 = nondet_long(), n2 = nondet_long(), n3 = nondet_long();
  long V = nondet_long(), nu = nondet_long(), nup = nondet_long();
  if (!(0 <= N && N <= NMAX && BOX(n1) && BOX(n2) && BOX(n3) && GBOX(V) && GBOX(nu) && GBOX(nup))) return;
  /* L1: a triple of the window is the triple of the valid slot (n1+n2+2N, n1-lo, n3-lo) */
  if (which == 1 && IN_WINDOW(N, n1, n2, n3)) {
    long W = n1 + n2 + 2 * N, a = n1 - SP_LO(N, n1 + n2), b = n3 - SP_LO(N, n1 + n2);
    __CPROVER_assert(SLOT_VALID(N, W, a, b), "C15 L1: every triple of the window has a valid slot");
    __CPROVER_assert(SP_N1(N, W, a) == n1 && SP_N2(N, W, a) == n2 && SP_N3(N, W, b) == n3, "C15 L1: ... whose triple it is");
    REACH("L1");
  }
  /* L2: the triple of a valid slot lies in the window */
  if (which == 2 && SLOT_VALID(N, V, nu, nup)) {
    __CPROVER_assert(IN_WINDOW(N, SP_N1(N, V, nu), SP_N2(N, V, nu), SP_N3(N, V, nup)), "C15 L2: the triple of a valid slot lies in the window");
    REACH("L2");
  }
  /* L3: slot_triple is injective: the slot of a triple is unique (slice = n1+n2+2N) */
  if (which == 3 && SLOT_VALID(N, V, nu, nup) && SP_N1(N, V, nu) == n1 && SP_N2(N, V, nu) == n2 && SP_N3(N, V, nup) == n3) {
    __CPROVER_assert(V == n1 + n2 + 2 * N && nu == n1 - SP_LO(N, n1 + n2) && nup == n3 - SP_LO(N, n1 + n2), "C15 L3: the slot of a triple is unique");
    REACH("L3");
  }
  /* the number of slices and the slice sizes of the documentation (4N-1 slices; 2N-|Omega+1| per side) */
  if (which == 3 && N > 0 && SLOT_V_VALID(N, V)) {
    long Om = SP_OMEGA(N, V);
    __CPROVER_assert(SP_SIZE(N, Om) == 2 * N - (Om + 1 < 0 ? -(Om + 1) : Om + 1) && SP_SIZE(N, Om) >= 1, "C15: slice size = 2N-|Omega+1| >= 1");
    REACH("size");
  }
}
//@harness h_MC4_lemma_L1 enforce=none props=C15 min_obl=1041 reach=1 timeout=200 loops=0
void h_MC4_lemma_L1(void) { mc4_index_lemma(1); }
//@harness h_MC4_lemma_L2 enforce=none props=C15 min_obl=1041 reach=1 timeout=200 loops=0
void h_MC4_lemma_L2(void) { mc4_index_lemma(2); }
//@harness h_MC4_lemma_L3 enforce=none props=C15 min_obl=1041 reach=2 timeout=200 loops=0
void h_MC4_lemma_L3(void) { mc4_index_lemma(3); }

/* ======================= Vertex4::value =======================
 * Documentation (\mainpage of include/pomerol/Misc.h, "Conventions"):
 *   chi^0_1234(w1,w2;w3,w4) = beta d(w1,w4) d(w2,w3) G14(w1) G23(w2) - beta d(w1,w3) d(w2,w4) G13(w1) G24(w2)
 *   Gamma_1234 = chi_1234 - chi^0_1234,            w4 = w1+w2-w3
 * With w4 = w1+w2-w3:  d(w1,w4) d(w2,w3) = [n2==n3],  d(w1,w3) d(w2,w4) = [n1==n3].  Hence
 *   Gamma(n1,n2,n3) = chi(n1,n2,n3) + [n1==n3] beta G13(n1) G24(n2) - [n2==n3] beta G14(n1) G23(n2).
 * PIN: this expression, evaluated left to right, products as (beta*Ga)*Gb, a Kronecker delta = the term is
 * present or absent.  (Machine arithmetic is uninterpreted: + and * commutative, no associativity, so
 * chi - (A - B) and (chi + B) - A are different trees; the pin uses the second, expanded form.)
 * chi, G13, ... are opaque functions of (object identity, arguments). */
double __CPROVER_uninterpreted_chi_re(long, long, long, long);
double __CPROVER_uninterpreted_chi_im(long, long, long, long);
double __CPROVER_uninterpreted_gf_re(long, long);
double __CPROVER_uninterpreted_gf_im(long, long);
static inline cplx chi_uf(long id, long n1, long n2, long n3)
{ cplx c = {__CPROVER_uninterpreted_chi_re(id, n1, n2, n3), __CPROVER_uninterpreted_chi_im(id, n1, n2, n3)}; return c; }
static inline cplx gf_uf(long id, long n)
{ cplx c = {__CPROVER_uninterpreted_gf_re(id, n), __CPROVER_uninterpreted_gf_im(id, n)}; return c; }
/* monitors of the calls made by the code (pure value + reachability marker) */
cplx TwoParticleGF_call(struct TwoParticleGF *x, long n1, long n2, long n3) { REACH("chi"); return chi_uf(x->id, n1, n2, n3); }
cplx GreensFunction_call(struct GreensFunction *g, long n) { REACH("gf"); return gf_uf(g->id, n); }
/* the documented expression (pure; operands in the order of the documentation) */
static cplx spec_vertex(double beta, long chi, long g13, long g24, long g14, long g23, long n1, long n2, long n3)
{
  cplx r = chi_uf(chi, n1, n2, n3);
  if (n1 == n3) r = op_add_cplx_cplx(r, op_mul_cplx_cplx(op_mul_double_cplx(beta, gf_uf(g13, n1)), gf_uf(g24, n2)));
  if (n2 == n3) r = op_sub_cplx_cplx(r, op_mul_cplx_cplx(op_mul_double_cplx(beta, gf_uf(g14, n1)), gf_uf(g23, n2)));
  return r;
}
/* (a function, not the macro C_SAME: the macro would evaluate the spec expression twice, and every further
 * application of the uninterpreted arithmetic costs a quadratic number of congruence constraints) */
static _Bool c_same(cplx a, cplx b) { return C_SAME(a, b); }
//@function Pomerol::Vertex4::value(long, long, long) const as Vertex4_value
//@contract
__CPROVER_requires(__CPROVER_is_fresh(self, sizeof(*self)))
__CPROVER_assigns()
__CPROVER_ensures(c_same(__CPROVER_return_value, spec_vertex(self->beta, self->Chi4.id, self->G13.id, self->G24.id, self->G14.id, self->G23.id,
                                                            MatsubaraNumber1, MatsubaraNumber2, MatsubaraNumber3)))
//@end

//@harness h_Vertex4_value enforce=Vertex4_value props=C15 min_obl=134 reach=3 timeout=120
void h_Vertex4_value(void)
{
  struct Vertex4 *v; long n1, n2, n3;
  cplx r = Vertex4_value(v, n1, n2, n3);
  REACH("exit");
}

/* ======================= Vertex4::operator() and Vertex4::compute: the wrappers around the storage =========
 * on top of the container contracts (replace-call-with-contract): reading through the storage is transparent */
//@function Pomerol::Vertex4::operator()(long, long, long) const as Vertex4_call
//@contract
__CPROVER_requires(__CPROVER_is_fresh(self, sizeof(*self)))
__CPROVER_requires(0 <= self->Storage.NumberOfMatsubaras && self->Storage.NumberOfMatsubaras <= NMAX && g_N == self->Storage.NumberOfMatsubaras && g_src == self->Storage.pSource)
__CPROVER_requires(BOX(n1_) && BOX(n2_) && BOX(n3_))
__CPROVER_requires(GBOX(g_V) && GBOX(g_nu) && GBOX(g_nup))
__CPROVER_requires(self->Storage.Values.gidx == g_V && self->Storage.FermionicIndexOffset.gidx == g_V && self->Storage.Values.g.gi == g_nu && self->Storage.Values.g.gj == g_nup)
__CPROVER_requires(SLOT_V_VALID(g_N, n1_ + n2_ + 2 * g_N) ==> g_V == n1_ + n2_ + 2 * g_N)
__CPROVER_requires(CINV_SIZES(&self->Storage) && CINV_SLICE(&self->Storage) && CINV_CELL(&self->Storage))
__CPROVER_requires(g_calls == 0)
__CPROVER_assigns(g_calls, g_a1, g_a2, g_a3, self->Storage.Values.cur, self->Storage.Values.curm, self->Storage.Values.g.other,
                  self->Storage.FermionicIndexOffset.cur, self->Storage.FermionicIndexOffset.curval)
__CPROVER_ensures((GHOST_IS(n1_, n2_, n3_) || !IN_WINDOW(g_N, n1_, n2_, n3_)) ==> C_SAME(__CPROVER_return_value, vertex_uf(n1_, n2_, n3_)))
__CPROVER_ensures(IN_WINDOW(g_N, n1_, n2_, n3_) == (g_calls == 0))
//@end
//@harness h_Vertex4_call enforce=Vertex4_call replace=MC4_call props=C15,C17 min_obl=748 reach=1 timeout=120
void h_Vertex4_call(void)
{
  struct Vertex4 *v; long n1, n2, n3;
  cplx r = Vertex4_call(v, n1, n2, n3);
  REACH("exit");
}

/* ======================= Vertex4::Vertex4 =======================
 * Header (include/pomerol/Vertex4.h): Vertex4(TwoParticleGF& Chi4, GreensFunction& G13, GreensFunction& G24,
 * GreensFunction& G14, GreensFunction& G23) -- the role of each argument is its name (G_{13} connects operators 1 and 3 ...),
 * the reference members carry the same names.  Reference members are modelled as embedded copies of the opaque
 * dependency objects (identity `id`): "member X refers to argument X" is `self->X.id == X->id`.
 * Thermal(Chi4.beta): the vertex has the temperature of chi; ComputableObject(): Status = Constructed;
 * Storage: default-constructed = empty window (N = 0, no source, both vectors empty). */
//@tu src/pomerol/Thermal.cpp
//@global I
//@struct Pomerol::Thermal
//@function Pomerol::Thermal::Thermal(double) as Thermal_base
//@end
#define Thermal_ctor1(selfp, b) Thermal_base_init((selfp), (b))
//@tu src/pomerol/Vertex4.cpp
struct ComputableObject { unsigned int Status; };
//@function Pomerol::ComputableObject::ComputableObject() as ComputableObject_base
//@end
/* the printer passes the derived object's address for every base; the ComputableObject sub-object of the flattened
 * struct Vertex4 is the field Status */
#define ComputableObject_ctor0(selfp) ComputableObject_base_init((struct ComputableObject *)&((struct Vertex4 *)(selfp))->Status)
//@function Pomerol::MatsubaraContainer4<Pomerol::Vertex4>::MatsubaraContainer4() as MC4_ctor0
//@end
//@function Pomerol::Vertex4::Vertex4(Pomerol::TwoParticleGF&, Pomerol::GreensFunction&, Pomerol::GreensFunction&, Pomerol::GreensFunction&, Pomerol::GreensFunction&) as Vertex4_ctor5
//@contract
__CPROVER_requires(__CPROVER_is_fresh(self, sizeof(*self)) && __CPROVER_is_fresh(Chi4, sizeof(*Chi4)))
__CPROVER_requires(__CPROVER_is_fresh(G13, sizeof(*G13)) && __CPROVER_is_fresh(G24, sizeof(*G24)) && __CPROVER_is_fresh(G14, sizeof(*G14)) && __CPROVER_is_fresh(G23, sizeof(*G23)))
__CPROVER_assigns(*self)
/* every reference member refers to the argument of the same documented role */
__CPROVER_ensures(self->Chi4.id == Chi4->id && self->G13.id == G13->id && self->G24.id == G24->id && self->G14.id == G14->id && self->G23.id == G23->id)
/* temperature of chi, status Constructed, empty storage */
__CPROVER_ensures(D_SAME(self->beta, Chi4->beta) && self->Status == Constructed)
__CPROVER_ensures(self->Storage.NumberOfMatsubaras == 0 && self->Storage.pSource == (void *)0 && self->Storage.Values.size == 0 && self->Storage.FermionicIndexOffset.size == 0)
//@end
//@harness h_Vertex4_ctor enforce=Vertex4_init5 props=C15 min_obl=253 reach=1 timeout=120
void h_Vertex4_ctor(void)
{
  struct Vertex4 *v; struct TwoParticleGF *chi; struct GreensFunction *g13, *g24, *g14, *g23;
  Vertex4_init5(v, chi, g13, g24, g14, g23);
  REACH("exit");
}

//@function Pomerol::Vertex4::compute(long) as Vertex4_compute
//@contract
__CPROVER_requires(__CPROVER_is_fresh(self, sizeof(*self)))
__CPROVER_requires(0 <= NumberOfMatsubaras && NumberOfMatsubaras <= NMAX && g_N == NumberOfMatsubaras && g_src == self)
__CPROVER_requires(0 <= self->Storage.Values.size && self->Storage.Values.size <= GVEC_MAXSIZE && 0 <= self->Storage.FermionicIndexOffset.size && self->Storage.FermionicIndexOffset.size <= GVEC_MAXSIZE)
__CPROVER_requires(-1 <= self->Storage.Values.cur && self->Storage.Values.cur < self->Storage.Values.size && -1 <= self->Storage.FermionicIndexOffset.cur && self->Storage.FermionicIndexOffset.cur < self->Storage.FermionicIndexOffset.size)
__CPROVER_requires(GBOX(g_V) && GBOX(g_nu) && GBOX(g_nup))
__CPROVER_requires(self->Storage.Values.gidx == g_V && self->Storage.FermionicIndexOffset.gidx == g_V && self->Storage.Values.g.gi == g_nu && self->Storage.Values.g.gj == g_nup)
__CPROVER_requires(GHOST_CONSTS)
__CPROVER_requires(g_hits == 0 && C_SAME(g_expect, vertex_uf(g_n1, g_n2, g_n3)))
__CPROVER_assigns(self->Storage, self->Status, g_hits)
/* the storage is filled from this very object, satisfies the class invariant of the lookup, and the vertex is Computed */
__CPROVER_ensures(self->Storage.pSource == self && self->Storage.NumberOfMatsubaras == NumberOfMatsubaras && self->Status == Computed)
__CPROVER_ensures(CINV_SIZES(&self->Storage) && CINV_SLICE(&self->Storage) && CINV_CELL(&self->Storage))
__CPROVER_ensures(g_hits == (GHOST_VALID ? 1 : 0))
//@end
//@harness h_Vertex4_compute enforce=Vertex4_compute replace=MC4_fill props=C15,C17 min_obl=783 reach=1 timeout=120
void h_Vertex4_compute(void)
{
  struct Vertex4 *v; long N;
  Vertex4_compute(v, N);
  REACH("exit");
}

/* ======================= MatsubaraContainer1<Src1> =======================
 * Never instantiated in the library (specs/inst_matsubara.cpp instantiates the real template for a minimal
 * source type).  Window = [-N,N), slot i holds the value at Matsubara number i-N, 2N slots. */
//@tu /verif/specs/inst_matsubara.cpp
struct Src1 { long id; };
//@struct Pomerol::MatsubaraContainer1<Pomerol::Src1>
long g_i;                         /* ghost slot of the one-frequency container */
struct Src1 *g_src1;
double __CPROVER_uninterpreted_src1_re(long);
double __CPROVER_uninterpreted_src1_im(long);
static inline cplx src1_uf(long n) { cplx c = {__CPROVER_uninterpreted_src1_re(n), __CPROVER_uninterpreted_src1_im(n)}; return c; }
#define G1_VALID (0 <= g_i && g_i < 2 * g_N)
cplx Src1_value(struct Src1 *src, long n)
{
  __CPROVER_assert(src == g_src1, "C15: the container evaluates the source object it was constructed for");
#ifdef MON_FILL
  __CPROVER_assert(IN1(g_N, n), "C15: fill evaluates the source only inside the window");
  if (G1_VALID && n == g_i - g_N) { g_hits++; REACH("fill1_hit"); }
#else
  g_calls++; g_a1 = n;
#endif
  REACH("value1");
  return src1_uf(n);
}
//@function Pomerol::MatsubaraContainer1<Pomerol::Src1>::fill(long) as MC1_fill
//@contract
__CPROVER_requires(__CPROVER_is_fresh(self, sizeof(*self)))
__CPROVER_requires(0 <= NumberOfMatsubaras && NumberOfMatsubaras <= NMAX && g_N == NumberOfMatsubaras && g_src1 == self->pSource)
__CPROVER_requires(0 <= self->Values.size && GBOX(g_i) && self->Values.gidx == g_i)
__CPROVER_requires(g_hits == 0 && C_SAME(g_expect, src1_uf(g_i - g_N)))
__CPROVER_assigns(self->NumberOfMatsubaras, self->Values, g_hits)
__CPROVER_ensures(self->NumberOfMatsubaras == NumberOfMatsubaras && self->Values.size == 2 * g_N)
__CPROVER_ensures(G1_VALID ==> (g_hits == 1 && C_SAME(self->Values.gcell, src1_uf(g_i - g_N))))
__CPROVER_ensures(!G1_VALID ==> g_hits == 0)
//@loop 1
__CPROVER_assigns(MatsubaraNum, g_hits, self->Values.gcell, self->Values.other)
__CPROVER_loop_invariant(-NumberOfMatsubaras <= MatsubaraNum && MatsubaraNum <= NumberOfMatsubaras)
__CPROVER_loop_invariant((G1_VALID && MatsubaraNum + NumberOfMatsubaras > g_i) ? (g_hits == 1 && C_SAMEBITS(self->Values.gcell, g_expect)) : g_hits == 0)
__CPROVER_decreases(NumberOfMatsubaras - MatsubaraNum)
//@end
//@harness h_MC1_fill enforce=MC1_fill props=C15 min_obl=250 reach=3 timeout=120 defs=-DMON_FILL
void h_MC1_fill(void)
{
  struct MC1 *c; long N;
  MC1_fill(c, N);
  REACH("exit");
}

//@function Pomerol::MatsubaraContainer1<Pomerol::Src1>::operator()(long) const as MC1_call
//@contract
__CPROVER_requires(__CPROVER_is_fresh(self, sizeof(*self)))
__CPROVER_requires(0 <= N_ && N_ <= NMAX && g_N == N_ && g_src1 == self->pSource && BOX(MatsubaraNumber))
__CPROVER_requires(GBOX(g_i) && self->Values.gidx == g_i)
/* class invariant = post-condition of fill */
__CPROVER_requires(self->Values.size == 2 * g_N && (G1_VALID ==> C_SAME(self->Values.gcell, src1_uf(g_i - g_N))))
__CPROVER_requires(g_calls == 0)
__CPROVER_assigns(g_calls, g_a1, self->Values.other)
__CPROVER_ensures(IN1(g_N, MatsubaraNumber) == (g_calls == 0))
__CPROVER_ensures((IN1(g_N, MatsubaraNumber) && g_i == MatsubaraNumber + g_N) ==> C_SAME(__CPROVER_return_value, __CPROVER_old(self->Values.gcell)))
__CPROVER_ensures(!IN1(g_N, MatsubaraNumber) ==> (g_calls == 1 && g_a1 == MatsubaraNumber))
__CPROVER_ensures((!IN1(g_N, MatsubaraNumber) || g_i == MatsubaraNumber + g_N) ==> C_SAME(__CPROVER_return_value, src1_uf(MatsubaraNumber)))
//@end
//@harness h_MC1_call enforce=MC1_call props=C15 min_obl=141 reach=5 timeout=120
void h_MC1_call(void)
{
  struct MC1 *c; long n;
  cplx r = MC1_call(c, n);
  if (g_calls == 0) REACH("cached"); else REACH("miss");
  if (g_i == n + g_N) REACH("ghost_cell_read");
  REACH("exit");
}

/* ======================= MUTATION RECORD (scratch copy of /repo, one textual mutation each; all killed) =======
 * MatsubaraContainer4::fill      (h_MC4_fill)
 *   offset `(BosonicIndex < 0 ? ...` -> `<= 0`            : Vertex4_value_mon.assertion "fill evaluates the source only at triples of the window", MC4_fill.loop_invariant_step
 *   store  `Values[V](Nu,Nup) =` -> `(Nup,Nu)`            : MC4_fill.loop_invariant_step (innermost loop: ghost cell does not hold value(slot_triple))
 *   outer loop bound `<= 4N-2` -> `< 4N-2`                : MC4_fill.postcondition.3 / .4 (shape of the last slice, exactly-once)
 * MatsubaraContainer4::operator() (h_MC4_call)
 *   slice test `<= 2*(2N-1)` -> `<`                       : MC4_call.postcondition.1/.2
 *   `NuIndexM = MatsubaraNumber1 - ...` -> `MatsubaraNumber2`: MC4_call.postcondition.2/.4
 *   miss path `value(n1,n2,n3)` -> `value(n2,n1,n3)`      : MC4_call.postcondition.3/.4
 *   `BosonicIndexV = n2+n1+2N` -> `+1`                    : MC4_call.postcondition.1-4, MC4_call.overflow
 * Vertex4::value (h_Vertex4_value): G13->G14 in the first term; `Value -=` -> `+=`; `if(n2==n3)` -> `if(n1==n2)`;
 *   `G24(n2)` -> `G24(n1)`; factor beta dropped           : Vertex4_value.postcondition.1 (each)
 * Vertex4::operator() (h_Vertex4_call): `Storage(n1,n2,n3)` -> `Storage(n1,n3,n2)` : Vertex4_call.postcondition.1/.2, MC4_call.precondition
 * Vertex4::compute (h_Vertex4_compute): `fill(this,N)` -> `fill(this,N+1)`          : MC4_fill.precondition, Vertex4_compute.postcondition.1
 * Vertex4::Vertex4 (h_Vertex4_ctor): seeded `G14(G23), G23(G14)`; `G13(G24), G24(G13)`; `Thermal(G13.beta)` : Vertex4_init5.postcondition.1 / .2
 * MatsubaraContainer4::operator() seeded: guard `NuIndexM >= 0` dropped (h_MC4_call): MC4_call.postcondition.1/.3/.4, CMat_call.assertion.1 (row index inside the matrix)
 * MatsubaraContainer1::operator() (h_MC1_call): `n < N` -> `n <= N` : MC1_call.postcondition.1/.3/.4, CVec_call.assertion;
 *   `Values(N+n)` -> `Values(N-n)`                        : MC1_call.postcondition.2/.4, CVec_call.assertion
 * MatsubaraContainer1::fill (h_MC1_fill): `resize(2N)` -> `resize(2N-1)` : CVec_resize/CVec_call assertions, MC1_fill.postcondition.1;
 *   loop bound `< N` -> `< N-1`                           : MC1_fill.postcondition.2
 */
