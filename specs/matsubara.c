#include "../stubs/common.h"
#include "../stubs/cplx.h"
//@include types_common.inc
//@type std::vector<long(, std::allocator<long> ?)?> => VecLong ptr
//@type std::vector<(Pomerol::)?ComplexMatrixType(, .*)?>|std::vector<Eigen::Matrix<std::complex<double>, -1, -1, 1(, -1, -1)?>(, .*)?> => VecCMat ptr
//@type (Pomerol::)?ComplexMatrixType|Eigen::Matrix<std::complex<double>, -1, -1, 1(, -1, -1)?> => CMat ptr
//@record Pomerol::MatsubaraContainer4 => struct MC4 ptr
//@tu src/pomerol/Vertex4.cpp
typedef struct VecLong {long size;} VecLong;
typedef struct CMat {long size;} CMat;
typedef struct VecCMat {long size;} VecCMat;
//@struct Pomerol::MatsubaraContainer4
//@function Pomerol::MatsubaraContainer4<Pomerol::Vertex4>::operator()(long, long, long) const as MC4_call
//@end
//@function Pomerol::MatsubaraContainer4<Pomerol::Vertex4>::fill(Pomerol::Vertex4 const*, long) as MC4_fill
//@end
//@function Pomerol::Vertex4::value(long, long, long) const as Vertex4_value
//@end
