/* Evaluation of a Green's function part (C01, C11):
 *   Term::operator()(z)            = Residue/(z - Pole)                      (doc of struct Term: "a fraction R/(z-P)")
 *   Term::operator()(tau,beta)     sign / range statement of C11 (bit-precise floats)
 *   TermList<Term>::operator()     "Pass arguments to operator() of each term in the container and return a sum of
 *                                   their return values" (TermList.h)
 *   GreensFunctionPart::operator()(z), operator()(long n) at z = i*pi*(2n+1)/beta, of_tau(tau) = Terms(tau, beta)
 *   Thermal::Thermal(beta)         MatsubaraSpacing = i*pi/beta
 */
#include "../stubs/common.h"
#ifdef VERIF_FP_AXIOM
/* every division in the axiomatised harness (Term::operator()(tau,beta)) is observed: C11 "denominator in [1,2]" */
unsigned long g_div_calls;
#define FA_DIV_HOOK(a, b) do { __CPROVER_assert(1.0 <= (b) && (b) <= 2.0, "C11: every denominator is in [1,2]"); g_div_calls++; } while (0)
#include "../stubs/fp_axiom.h"
#endif
#include "../stubs/cplx.h"
#include "../stubs/ordset.h"
//@include types_common.inc
//@record Pomerol::GreensFunctionPart::Term => GFTerm val
//@record Pomerol::TermList => TermListGF ptr
//@type std::set<(Pomerol::)?GreensFunctionPart::Term, (Pomerol::)?GreensFunctionPart::Term::Compare(, std::allocator<(Pomerol::)?GreensFunctionPart::Term> ?)?> => TermSet ptr
//@type std::_Rb_tree_const_iterator<(Pomerol::)?GreensFunctionPart::Term>(::_Self)?|std::set<.*>::(const_)?iterator => TermSetIt val
//@type (Pomerol::)?TermList<(Pomerol::)?GreensFunctionPart::Term> => TermListGF ptr
//@tu src/pomerol/GreensFunctionPart.cpp
typedef struct GFTerm GFTerm;
//@struct Pomerol::GreensFunctionPart::Term

/* ---- std::set<Term,Compare>: iteration view (stubs/ordset.h (A)) */
OSA_DECL(TermSet, TermSetIt, GFTerm)
#define TermSet_begin(s) OSA_begin(TermSetIt, s)
#define TermSet_end(s) OSA_end(TermSetIt, s)
#define op_ne_TermSetIt_TermSetIt(a, b) OSA_ne(a, b)
#define TermSetIt_inc(it) OSA_inc(it)
#define TermSetIt_mul(it) OSA_deref(it)          /* unary operator* */
typedef struct TermListGF TermListGF;
//@struct Pomerol::TermList<Pomerol::GreensFunctionPart::Term> only=data
//@struct Pomerol::Thermal
//@struct Pomerol::GreensFunctionPart only=beta,MatsubaraSpacing,Terms

/* ---- exp (libm).  UF mode: a function.  IEEE mode: contract only (DESIGN 3.2):
 * ASSERTED: the argument is not NaN and -- the overflow-avoidance clause of C11 -- not positive.
 * ASSUMED:  x <= 0 ==> 0 <= exp(x) <= 1;  exp(+-0) = 1;  (exp(x) >= 0 always; monotonicity NOT assumed). */
double __CPROVER_uninterpreted_exp(double);
unsigned long g_exp_calls;
#ifdef VERIF_FP_IEEE
static double exp(double x)
{
  __CPROVER_assert(x == x, "C11: argument of exp is not NaN");
  __CPROVER_assert(x <= 0.0, "C11: every argument passed to exp is <= 0 (no overflow)");
  double r = __CPROVER_uninterpreted_exp(x);
  __CPROVER_assume(r >= 0.0);
  __CPROVER_assume(!(x <= 0.0) || r <= 1.0);
  __CPROVER_assume(!(x == 0.0) || r == 1.0);
  g_exp_calls++;
  return r;
}
#else
static double exp(double x) { return __CPROVER_uninterpreted_exp(x); }
#endif

/* =========================================================== Term::operator()(z)  -- formula pin */
//@rename GFTerm_call/1 => GFTerm_call_z
//@rename GFTerm_call/2 => GFTerm_call_tau
//@rename TermListGF_call/1 => TermListGF_call_z
//@rename TermListGF_call/2 => TermListGF_call_tau
//@rename GreensFunctionPart_call/1 => GFP_call_z
static cplx spec_term_z(GFTerm t, cplx z) { return op_div_cplx_cplx(t.Residue, op_sub_cplx_double(z, t.Pole)); }
/* twins for the other spelling of an increment (`++it` for `it++` and vice versa): same effect.  X_inc yields the iterator after the step
 * (exact); X_postinc made from X_inc is void, so a use of its value does not compile (UNDECIDED) instead of being modelled wrongly */
#define TermSetIt_postinc(it_) ((void)TermSetIt_inc(it_))
//@function Pomerol::GreensFunctionPart::Term::operator()(std::complex<double>) const as GFTerm_call_z
//@contract
__CPROVER_requires(__CPROVER_is_fresh(self, sizeof(*self)))
__CPROVER_assigns()
__CPROVER_ensures(C_SAME(__CPROVER_return_value, spec_term_z(*self, Frequency)))
//@end
//@harness h_Term_call_z enforce=GFTerm_call_z props=C01 min_obl=45 reach=1 timeout=120
void h_Term_call_z(void)
{
  GFTerm *t; cplx z;
  GFTerm_call_z(t, z);
  REACH("exit");
}

/* =========================================================== Term::operator()(tau,beta)
 * (1) formula pin (uninterpreted arithmetic).  Spec = Fourier transform of R/(z-P) to imaginary time,
 *       -R e^{-tau P} / (1 + e^{-beta P}),
 *     and, for P <= 0, the same fraction expanded by e^{beta P} ("two branches by sign of the pole to avoid
 *     overflow", property C11):  -R e^{(beta-tau) P} / (e^{beta P} + 1).
 * (2) C11 range clause, bit-precise floats except '*' and '/' (stubs/fp_axiom.h).  Proved for
 *     beta > 0 finite, 0 <= tau <= beta, Pole finite, Residue finite:
 *     (a) both arguments of exp are <= 0 and not NaN                     (asserted in the exp stub)
 *     (b) both divisions have a denominator in [1,2]                      (asserted in FA_DIV_HOOK)
 *     (c) the result is finite and |Re| <= |Re Residue|, |Im| <= |Im Residue|
 *     (d) Residue real and >= 0 ==> Re result <= 0 and Im result == 0    (G_ii(tau) <= 0 term by term)
 */
_Bool g_pole_pos;   /* ghost: which branch (vacuity markers only) */
static cplx spec_term_tau(GFTerm t, double tau, double beta)
{
  if (D_GT(t.Pole, 0.0))
    return op_div_cplx_double(op_mul_cplx_double(op_sub_cplx(t.Residue), exp(D_MUL(D_NEG(tau), t.Pole))), D_ADD(1.0, exp(D_MUL(D_NEG(beta), t.Pole))));
  return op_div_cplx_double(op_mul_cplx_double(op_sub_cplx(t.Residue), exp(D_MUL(D_SUB(beta, tau), t.Pole))), D_ADD(exp(D_MUL(beta, t.Pole)), 1.0));
}
//@function Pomerol::GreensFunctionPart::Term::operator()(double, double) const as GFTerm_call_tau
//@contract
__CPROVER_requires(__CPROVER_is_fresh(self, sizeof(*self)))
#ifdef VERIF_FP_AXIOM
__CPROVER_requires(d_finite(beta) && beta > 0.0 && d_finite(tau) && 0.0 <= tau && tau <= beta)
__CPROVER_requires(d_finite(self->Pole) && d_finite(self->Residue.re) && d_finite(self->Residue.im))
__CPROVER_requires(g_exp_calls == 0 && g_div_calls == 0 && g_pole_pos == (self->Pole > 0.0))
__CPROVER_assigns(g_exp_calls, g_div_calls)
__CPROVER_ensures(g_exp_calls == 2 && g_div_calls == 2)
__CPROVER_ensures(d_finite(__CPROVER_return_value.re) && d_finite(__CPROVER_return_value.im))
__CPROVER_ensures(fa_abs(__CPROVER_return_value.re) <= fa_abs(self->Residue.re) && fa_abs(__CPROVER_return_value.im) <= fa_abs(self->Residue.im))
__CPROVER_ensures((self->Residue.im == 0.0 && self->Residue.re >= 0.0) ==> (__CPROVER_return_value.re <= 0.0 && __CPROVER_return_value.im == 0.0))
__CPROVER_ensures((self->Residue.im == 0.0 && self->Residue.re <= 0.0) ==> (__CPROVER_return_value.re >= 0.0 && __CPROVER_return_value.im == 0.0))
#else
__CPROVER_assigns()
__CPROVER_ensures(C_SAME(__CPROVER_return_value, spec_term_tau(*self, tau, beta)))
#endif
//@end
//@harness h_Term_call_tau_pin enforce=GFTerm_call_tau props=C11 min_obl=74 reach=1 timeout=120
void h_Term_call_tau_pin(void)
{
  GFTerm *t; double tau, beta;
  GFTerm_call_tau(t, tau, beta);
  REACH("exit");
}
//@harness h_Term_call_tau_range enforce=GFTerm_call_tau props=C11 defs=-DVERIF_FP_IEEE,-DVERIF_FP_AXIOM min_obl=119 reach=2 timeout=300
void h_Term_call_tau_range(void)
{
  GFTerm *t; double tau, beta;
  GFTerm_call_tau(t, tau, beta);
  if (g_pole_pos) REACH("exit_pos"); else REACH("exit_nonpos");
}

/* ---- lemmas: the facts assumed of '*' and '/' in stubs/fp_axiom.h hold for CBMC's bit-precise IEEE-754 operations. */
//@harness h_lemma_fmul_sign enforce=none props=C11 defs=-DVERIF_FP_IEEE,-DVERIF_FP_AXIOM min_obl=6 reach=1 timeout=120
void h_lemma_fmul_sign(void)
{
#ifdef VERIF_FP_AXIOM
  double a = nondet_double(), b = nondet_double();
  __CPROVER_assert(fa_mul_sign_ok(a, b, fa_native_mul(a, b)), "M1,M2: a*b of finite operands is not NaN and obeys the sign rule");
  REACH("exit");
#endif
}
//@harness h_lemma_fdiv_sign enforce=none props=C11 defs=-DVERIF_FP_IEEE,-DVERIF_FP_AXIOM min_obl=6 reach=1 timeout=120
void h_lemma_fdiv_sign(void)
{
#ifdef VERIF_FP_AXIOM
  double a = nondet_double(), b = nondet_double();
  __CPROVER_assert(fa_div_sign_ok(a, b, fa_native_div(a, b)), "D1,D2: a/b of finite operands, b != 0, is not NaN and obeys the sign rule");
  REACH("exit");
#endif
}
//@harness h_lemma_fmul_mag enforce=none props=C11 defs=-DVERIF_FP_IEEE,-DVERIF_FP_AXIOM min_obl=6 reach=1 timeout=900
void h_lemma_fmul_mag(void)
{
#ifdef VERIF_FP_AXIOM
  double a = nondet_double(), b = nondet_double();
  __CPROVER_assert(fa_mul_mag_ok(a, b, fa_native_mul(a, b)), "M3: |b| <= 1 ==> |a*b| <= |a|");
  REACH("exit");
#endif
}
//@harness h_lemma_fdiv_mag enforce=none props=C11 defs=-DVERIF_FP_IEEE,-DVERIF_FP_AXIOM min_obl=6 reach=1 timeout=900
void h_lemma_fdiv_mag(void)
{
#ifdef VERIF_FP_AXIOM
  double a = nondet_double(), b = nondet_double();
  __CPROVER_assert(fa_div_mag_ok(a, b, fa_native_div(a, b)), "D3: |b| >= 1 ==> |a/b| <= |a|");
  REACH("exit");
#endif
}

/* =========================================================== TermList<Term>::operator()(args...)
 * Documentation (TermList.h): "Pass arguments to operator() of each term in the container and return a sum of their
 * return values."  Whole-view statement without quantifiers:
 *   - the accumulation `res += v` is a MONITOR (acc_add): it asserts that v is the value of operator() of the stored term
 *     that the iterator was last dereferenced at, evaluated at the arguments of the call (ghost g_z / g_tau, g_beta),
 *     that this term lies strictly behind the previously accumulated one (every term at most once, in container order),
 *     and it maintains a shadow accumulator g_acc that nothing else writes;
 *   - post: the returned value is g_acc (which started at 0), and an ARBITRARY stored term (ghost position gpos) was
 *     accumulated exactly once.  Hence result = ((0 + t_0(args)) + t_1(args)) + ... + t_{n-1}(args).
 */
/* bit-equality of two double lvalues without a function call (calls are not allowed in loop invariants) */
#define D_SAMEL(a, b) (*(const unsigned long *)&(a) == *(const unsigned long *)&(b))
#define C_SAMEL(a, b) (D_SAMEL((a).re, (b).re) && D_SAMEL((a).im, (b).im))
TermListGF *g_tl;        /* the term list under evaluation (for the monitor) */
cplx g_acc;              /* shadow accumulator */
int g_mode;              /* 1: operator()(z)   2: operator()(tau, beta) */
cplx g_z; double g_tau, g_beta;
cplx GFTerm_call_z(GFTerm *self, cplx Frequency);
cplx GFTerm_call_tau(GFTerm *self, double tau, double beta);
static cplx *acc_add(cplx *res, cplx v)
{
  TermSet *s = &g_tl->data;
  long p = s->last_deref;
  __CPROVER_assert(0 <= p && p < s->n, "C01: the value added comes from a stored term");
  __CPROVER_assert(p > s->last_acc, "C01: every stored term is added at most once (container order)");
  __CPROVER_assert(C_SAME(*res, g_acc), "C01: the accumulator is changed by nothing but these additions");
  if (g_mode == 1)
    __CPROVER_assert(C_SAME(v, GFTerm_call_z(&s->elems[p], g_z)), "C01: the value added is term(z) at the argument of the call");
  else
    __CPROVER_assert(C_SAME(v, GFTerm_call_tau(&s->elems[p], g_tau, g_beta)), "C11: the value added is term(tau,beta) at the arguments of the call");
  s->last_acc = p;
  if (p == s->gpos) s->hits++;
  g_acc = op_add_cplx_cplx(g_acc, v);
  REACH("acc_add");
  return cplx_addassign(res, v);
}
#define TERMLIST_SUM_FRAME g_acc, self->data.last_deref, self->data.last_acc, self->data.hits
/* NB (CBMC pitfall): `g_tl == self` must directly follow is_fresh(self) in the same clause; placed after another is_fresh
 * the monitor's reads through g_tl resolve to a different (unconstrained) object and everything fails spuriously. */
#define TERMLIST_SUM_PRE(tl) (OSA_wf(&(tl)->data) && (tl)->data.last_acc == -1 && (tl)->data.hits == 0 && \
                              D_SAME(g_acc.re, 0.0) && D_SAME(g_acc.im, 0.0))
#define TERMLIST_SUM_POST(tl) (C_SAME(__CPROVER_return_value, g_acc) && (tl)->data.hits == ((tl)->data.gpos >= 0 ? 1UL : 0UL) && \
                               (tl)->data.last_acc == (tl)->data.n - 1)
//@rename cplx_addassign => acc_add
//@function std::complex<double> Pomerol::TermList<Pomerol::GreensFunctionPart::Term>::operator()<std::complex<double> >(std::complex<double>) const as TermListGF_call_z
//@contract
__CPROVER_requires(__CPROVER_is_fresh(self, sizeof(*self)) && g_tl == self)
__CPROVER_requires(TERMLIST_SUM_PRE(self))
__CPROVER_requires(g_mode == 1 && C_SAME(arg0, g_z))
__CPROVER_assigns(TERMLIST_SUM_FRAME)
__CPROVER_ensures(TERMLIST_SUM_POST(self))
//@loop 1
__CPROVER_assigns(it.pos, res, TERMLIST_SUM_FRAME)
__CPROVER_loop_invariant(it.s == &self->data && 0 <= it.pos && it.pos <= self->data.n)
__CPROVER_loop_invariant(self->data.last_acc == it.pos - 1 && C_SAMEL(res, g_acc))
__CPROVER_loop_invariant(self->data.hits == ((self->data.gpos >= 0 && it.pos > self->data.gpos) ? 1UL : 0UL))
__CPROVER_decreases(self->data.n - it.pos)
//@end
//@function std::complex<double> Pomerol::TermList<Pomerol::GreensFunctionPart::Term>::operator()<double, double>(double, double) const as TermListGF_call_tau
//@contract
__CPROVER_requires(__CPROVER_is_fresh(self, sizeof(*self)) && g_tl == self)
__CPROVER_requires(TERMLIST_SUM_PRE(self))
__CPROVER_requires(g_mode == 2 && D_SAME(arg0, g_tau) && D_SAME(arg1, g_beta))
__CPROVER_assigns(TERMLIST_SUM_FRAME)
__CPROVER_ensures(TERMLIST_SUM_POST(self))
//@loop 1
__CPROVER_assigns(it.pos, res, TERMLIST_SUM_FRAME)
__CPROVER_loop_invariant(it.s == &self->data && 0 <= it.pos && it.pos <= self->data.n)
__CPROVER_loop_invariant(self->data.last_acc == it.pos - 1 && C_SAMEL(res, g_acc))
__CPROVER_loop_invariant(self->data.hits == ((self->data.gpos >= 0 && it.pos > self->data.gpos) ? 1UL : 0UL))
__CPROVER_decreases(self->data.n - it.pos)
//@end
//@rename cplx_addassign => cplx_addassign

//@harness h_TermList_call_z enforce=TermListGF_call_z props=C01 min_obl=478 reach=2 timeout=600
void h_TermList_call_z(void)
{
  TermListGF *tl; cplx z;
  TermListGF_call_z(tl, z);
  REACH("exit");
}
//@harness h_TermList_call_tau enforce=TermListGF_call_tau props=C11 min_obl=478 reach=2 timeout=600
void h_TermList_call_tau(void)
{
  TermListGF *tl; double tau, beta;
  TermListGF_call_tau(tl, tau, beta);
  REACH("exit");
}

/* =========================================================== Thermal::Thermal(beta):  MatsubaraSpacing = i*pi/beta
 * ("\omega_n = \pi*(2*n+1)/\beta", GreensFunctionPart.h; the spacing of the Matsubara grid i*w_n is 2*i*pi/beta and the
 *  first point i*pi/beta). */
//@global I
#define SPEC_PI 3.14159265358979323846
static cplx spec_matsubara_spacing(double beta) { return op_div_cplx_double(op_mul_cplx_double(cplx_ctor2(0.0, 1.0), SPEC_PI), beta); }
//@tu src/pomerol/Thermal.cpp
//@function Pomerol::Thermal::Thermal(double) as Thermal_ctor1
//@contract
__CPROVER_requires(__CPROVER_is_fresh(self, sizeof(*self)))
__CPROVER_assigns(self->beta, self->MatsubaraSpacing)
__CPROVER_ensures(D_SAME(self->beta, beta) && C_SAME(self->MatsubaraSpacing, spec_matsubara_spacing(beta)))
//@end
//@harness h_Thermal_ctor enforce=Thermal_init1 props=C01 min_obl=60 reach=1 timeout=120
void h_Thermal_ctor(void)
{
  struct Thermal *t; double beta;
  Thermal_init1(t, beta);
  REACH("exit");
}
//@tu src/pomerol/GreensFunctionPart.cpp

/* =========================================================== GreensFunctionPart::operator()(z), operator()(long), of_tau
 * operator()(z)  = Terms(z);   of_tau(tau) = Terms(tau, beta) with the object's own beta;
 * operator()(n)  = operator()(z_n),  z_n = i*pi*(2n+1)/beta = MatsubaraSpacing*(2n+1)   (type invariant of Thermal:
 *                  MatsubaraSpacing = i*pi/beta, the post-condition of the constructor above).
 * The callee contracts require `argument == ghost evaluation point`, so the point of evaluation is pinned by the
 * pre-condition check at the call; their post-conditions (result = sum of every stored term once) are passed on. */
//@function Pomerol::GreensFunctionPart::operator()(std::complex<double>) const as GFP_call_z
//@contract
__CPROVER_requires(__CPROVER_is_fresh(self, sizeof(*self)) && g_tl == &self->Terms)
__CPROVER_requires(TERMLIST_SUM_PRE(&self->Terms))
__CPROVER_requires(g_mode == 1 && C_SAME(z, g_z))
__CPROVER_assigns(g_acc, self->Terms.data.last_deref, self->Terms.data.last_acc, self->Terms.data.hits)
__CPROVER_ensures(TERMLIST_SUM_POST(&self->Terms))
//@end
//@function Pomerol::GreensFunctionPart::of_tau(double) const as GFP_of_tau
//@contract
__CPROVER_requires(__CPROVER_is_fresh(self, sizeof(*self)) && g_tl == &self->Terms)
__CPROVER_requires(TERMLIST_SUM_PRE(&self->Terms))
__CPROVER_requires(g_mode == 2 && D_SAME(tau, g_tau) && D_SAME(self->beta, g_beta))
__CPROVER_assigns(g_acc, self->Terms.data.last_deref, self->Terms.data.last_acc, self->Terms.data.hits)
__CPROVER_ensures(TERMLIST_SUM_POST(&self->Terms))
//@end
static cplx spec_matsubara_point(double beta, long n) { return op_mul_cplx_double(spec_matsubara_spacing(beta), (double)(2 * n + 1)); }
//@function Pomerol::GreensFunctionPart::operator()(long) const as GFP_call_n
//@contract
__CPROVER_requires(__CPROVER_is_fresh(self, sizeof(*self)) && g_tl == &self->Terms)
__CPROVER_requires(TERMLIST_SUM_PRE(&self->Terms))
/* type invariant of Thermal; bound on n that keeps 2n+1 inside long */
__CPROVER_requires(C_SAME(self->MatsubaraSpacing, spec_matsubara_spacing(self->beta)))
__CPROVER_requires(-(1L << 61) < MatsubaraNumber && MatsubaraNumber < (1L << 61))
__CPROVER_requires(g_mode == 1 && C_SAME(g_z, spec_matsubara_point(self->beta, MatsubaraNumber)))
__CPROVER_assigns(g_acc, self->Terms.data.last_deref, self->Terms.data.last_acc, self->Terms.data.hits)
__CPROVER_ensures(TERMLIST_SUM_POST(&self->Terms))
//@end
//@harness h_GFP_call_z enforce=GFP_call_z replace=TermListGF_call_z props=C01 min_obl=156 reach=1 timeout=120
void h_GFP_call_z(void)
{
  struct GreensFunctionPart *p; cplx z;
  GFP_call_z(p, z);
  REACH("exit");
}
//@harness h_GFP_of_tau enforce=GFP_of_tau replace=TermListGF_call_tau props=C11 min_obl=167 reach=1 timeout=120
void h_GFP_of_tau(void)
{
  struct GreensFunctionPart *p; double tau;
  GFP_of_tau(p, tau);
  REACH("exit");
}
//@harness h_GFP_call_n enforce=GFP_call_n replace=GFP_call_z props=C01 min_obl=193 reach=1 timeout=120
void h_GFP_call_n(void)
{
  struct GreensFunctionPart *p; long n;
  GFP_call_n(p, n);
  REACH("exit");
}

/* =====================================================================================================================
 * WHAT IS PROVED, WHAT IS NOT
 * h_Term_call_z: Term::operator()(z) = Residue/(z - Pole) (formula pin, uninterpreted arithmetic, textbook complex division of stubs/cplx.h).
 * h_Term_call_tau_pin: Term::operator()(tau,beta) = -R e^{-tau P}/(1 + e^{-beta P}) for P > 0, -R e^{(beta-tau)P}/(e^{beta P} + 1) otherwise (pin).
 * h_Term_call_tau_range (C11; bit-precise IEEE-754 for + - unary- and comparisons; '*' '/' = uninterpreted functions constrained by the facts
 *   of stubs/fp_axiom.h; exp = contract stub): for beta > 0 finite, 0 <= tau <= beta, Pole and Residue finite:
 *   both arguments of exp are numbers <= 0; both denominators are in [1,2]; the result is finite with |Re| <= |Re Residue|,
 *   |Im| <= |Im Residue|; Residue real >= 0 ==> Re result <= 0, Im result = +-0 (and real <= 0 ==> Re result >= 0).
 * h_lemma_fmul_sign / fdiv_sign / fmul_mag / fdiv_mag: every fact assumed in stubs/fp_axiom.h holds for CBMC's bit-precise '*' and '/'.
 *   So the range statement rests on: CBMC's float model + the exp contract.  NOT proved: anything about accuracy.
 * h_TermList_call_z / _tau: TermList::operator() returns the left-fold sum, starting from 0, of term(args) over the stored terms in
 *   container order, every stored term exactly once (monitor acc_add + shadow accumulator + ghost position); iterator safety; termination.
 * h_Thermal_ctor: beta stored, MatsubaraSpacing = I*pi/beta (pin).
 * h_GFP_call_z / h_GFP_of_tau / h_GFP_call_n (callees replaced by their contracts): Terms is evaluated at z / at (tau, own beta) /
 *   at MatsubaraSpacing*(2n+1) = (I*pi/beta)*(2n+1) (|n| < 2^61 LIMIT), and the sum is returned unchanged.
 * ASSUMPTIONS introduced here: exp contract (x <= 0 ==> 0 <= exp x <= 1; exp(+-0) = 1; exp >= 0); std::set iteration = array in
 *   container order (stubs/ordset.h (A), nothing assumed about the order); Thermal's type invariant MatsubaraSpacing = I*pi/beta
 *   (pre-condition of h_GFP_call_n, established by h_Thermal_ctor).
 * MUTANTS (obligation that failed)
 *   Term(z): z + Pole, Pole - z                       -> GFTerm_call_z.postcondition.1
 *   Term(tau): Pole < 0                                -> tau_range postcondition.2-.5, exp.assertion.2, d_div_ax.assertion.1; tau_pin postcondition.1
 *              (tau-beta)*Pole                         -> tau_range postcondition.2-.5, exp.assertion.2;  tau_pin postcondition.1
 *              +Residue in the first branch            -> tau_range postcondition.4/.5;  tau_pin postcondition.1
 *              1 - exp(-beta*Pole)                     -> tau_range postcondition.2-.5, d_div_ax.assertion.1;  tau_pin postcondition.1
 *              exp(-beta*Pole) in the numerator        -> survives tau_range (still in range), killed by tau_pin postcondition.1
 *   TermList(): res = 1 -> postcondition.1, acc_add.assertion.3, loop_invariant_base.2;  res -= -> loop_invariant_step.2/.3
 *   GFP: 2n / 2n-1 -> GFP_call_z.precondition.3;  Terms(beta,tau) -> TermListGF_call_tau.precondition.3;  Terms(-z) -> TermListGF_call_z.precondition.3
 *   Thermal: pi*beta, -I -> Thermal_init1.postcondition.1
 */
