/* CreationOperator::prepare / AnnihilationOperator::prepare / QuadraticOperator::prepare (C10, C07): for every block r whose image
 * l = mapsTo(r) exists -- INCLUDING l == r -- exactly one part is created, connecting H.getPart(r) -> H.getPart(l), registered under
 * right key r, left key l and as the relation (l,r) of the block bimap; nothing else is created. */
#include "../stubs/common.h"
//@tu src/pomerol/FieldOperator.cpp
//@enum ComputableObject::
//@record Pomerol::BlockNumber => BlockNumber val
typedef struct BlockNumber { int number; } BlockNumber;
#define BlockNumber_ctor1(n) ((BlockNumber){ (n) })
#define BlockNumber_postinc(b) ((b)->number++, (b))
#define BlockNumber_isCorrect(b) ((b)->number >= 0)
#define BlockNumber_conv_int(b) ((b)->number)
/* ^ BlockNumber's inline members (StatesClassification.h:124-134), mirrored: constructor from int, operator int, post-increment, isCorrect = number >= 0 */
//@type std::vector<(Pomerol::)?FieldOperatorPart \*(, std::allocator<.*>)?> => VecPart ptr
//@type std::map<unsigned long, (Pomerol::)?BlockNumber(, std::less<unsigned long>, std::allocator<.*>)?> => MapSB ptr
//@type boost::bimaps::bimap<boost::bimaps::set_of<Pomerol::BlockNumber.*|((Pomerol::)?FieldOperator::)?BlocksBimap => BlocksBimapM ptr
//@type ((Pomerol::)?FieldOperator::)?BlockMapping|((Pomerol::)?FieldOperator::)?BlocksBimap::value_type|boost::bimaps::relation::mutant_relation<.* => BiRel val
//@record Pomerol::CreationOperator => struct FieldOperator ptr
//@record Pomerol::AnnihilationOperator => struct FieldOperator ptr
//@record Pomerol::CreationOperatorPart => struct FieldOperatorPart ptr
//@record Pomerol::AnnihilationOperatorPart => struct FieldOperatorPart ptr
//@record Pomerol::QuadraticOperatorPart => struct FieldOperatorPart ptr
struct FieldOperatorPart { char opaque; }; struct HamiltonianPart { char opaque; };
struct IndexClassification { char opaque; };
struct StatesClassification { int nblocks; };
struct Hamiltonian { int nblocks; struct HamiltonianPart ghost_parts[1]; };
#define H_PART(h, b) (&(h)->ghost_parts[0] + (b))
typedef struct BiRel { BlockNumber left, right; } BiRel;
typedef struct VecPart { unsigned long n; } VecPart;
typedef struct MapSB { unsigned long gkey; _Bool has; BlockNumber gval; BlockNumber scratch; } MapSB;   /* ghost-key model of std::map<size_t,BlockNumber> */
typedef struct BlocksBimapM { unsigned long n_insert; } BlocksBimapM;
//@struct Pomerol::FieldOperator only=Status,Index,parts,mapPartsFromRight,mapPartsFromLeft,LeftRightBlocks,IndexInfo,S,H embed=IndexInfo,S,H

struct FieldOperator *g_self;
int g_r;                                 /* ghost right block */
long g_hits; unsigned long g_n_new; int g_last_r, g_last_l;   /* blocks of the most recent mapsTo call and its result */
unsigned long g_ord_at_ghost;            /* ordinal of the part created for the ghost block */
/* mapsTo: contract proved in specs/states.c -- the unique target block, or ERROR_BLOCK_NUMBER (-1); here an opaque function of r */
int __CPROVER_uninterpreted_mapsto(int);
static inline BlockNumber FieldOperator_mapsTo(struct FieldOperator *op, BlockNumber r)
{ int l = __CPROVER_uninterpreted_mapsto(r.number); __CPROVER_assume(-1 <= l && l < op->S.nblocks); g_last_r = r.number; g_last_l = l; return (BlockNumber){ l }; }
#define CreationOperator_mapsTo FieldOperator_mapsTo
static inline BlockNumber StatesClassification_NumberOfBlocks(struct StatesClassification *s) { return (BlockNumber){ s->nblocks }; }
static inline struct HamiltonianPart *Hamiltonian_getPart(struct Hamiltonian *h, BlockNumber b)
{ __CPROVER_assert(0 <= b.number && b.number < h->nblocks, "Hamiltonian::getPart: block number inside parts[]"); return H_PART(h, b.number); }
#define VecPart_size(v) ((v)->n)
struct FieldOperatorPart g_new_parts[1];
unsigned long g_parts0;   /* parts.size() at entry */
static struct FieldOperatorPart *part_new(struct IndexClassification *I, struct StatesClassification *S, struct HamiltonianPart *from, struct HamiltonianPart *to, unsigned int idx)
{
  __CPROVER_assert(g_last_l >= 0, "C10: a part is created only for a block with an existing image");
  __CPROVER_assert(I == &g_self->IndexInfo && S == &g_self->S && idx == g_self->Index, "C10: the part belongs to this operator (index, classification)");
  __CPROVER_assert(from == H_PART(&g_self->H, g_last_r) && to == H_PART(&g_self->H, g_last_l), "C10: the part connects H.getPart(r) (from) with H.getPart(mapsTo(r)) (to)");
  if (g_last_r == g_r) { g_hits++; g_ord_at_ghost = g_n_new; }
  g_n_new++;
  REACH("new_part");
  return &g_new_parts[0] + (g_n_new - 1);
}
#define FieldOperatorPart_new5 part_new
static inline void VecPart_push_back(VecPart *v, struct FieldOperatorPart *p)
{ __CPROVER_assert(p == &g_new_parts[0] + (g_n_new - 1), "C10: the part just created is appended to parts"); __CPROVER_assert(v->n + 1 == g_n_new + g_parts0, "C10: one list entry per created part"); v->n++; }
/* std::map<size_t,BlockNumber>::operator[] (TRUSTED: inserts a default entry if absent, returns a reference to the mapped value) */
static inline BlockNumber *MapSB_at(MapSB *m, unsigned long key)
{ if (key == m->gkey) { m->has = 1; return &m->gval; } return &m->scratch; }
static inline BlockNumber *BlockNumber_assign(BlockNumber *lhs, BlockNumber rhs) { *lhs = rhs; return lhs; }
#define BiRel_ctor2(l, r) ((BiRel){ (l), (r) })
static inline void BlocksBimapM_insert(BlocksBimapM *b, BiRel rel)
{
  __CPROVER_assert(rel.right.number == g_last_r && rel.left.number == g_last_l, "C10: the relation (mapsTo(r), r) is recorded in the block bimap");
  b->n_insert++;
}
//@tu src/pomerol/StatesClassification.cpp
//@function Pomerol::BlockNumber::operator<(Pomerol::BlockNumber const&) const as BlockNumber_lt
//@end
//@function Pomerol::BlockNumber::operator==(Pomerol::BlockNumber const&) const as BlockNumber_eq
//@end
//@tu src/pomerol/FieldOperator.cpp

#define EXPECT ((0 <= g_r && g_r < self->S.nblocks && __CPROVER_uninterpreted_mapsto(g_r) >= 0) ? 1 : 0)
long g_expected;
//@function Pomerol::CreationOperator::prepare() as CreationOperator_prepare
//@contract
__CPROVER_requires(__CPROVER_is_fresh(self, sizeof(*self)) && g_self == self && self->S.nblocks >= 0 && self->S.nblocks <= 1000000 && self->H.nblocks == self->S.nblocks)
__CPROVER_requires(g_hits == 0 && g_n_new == 0 && g_parts0 == self->parts.n && self->parts.n <= 1000000 && g_expected == EXPECT && !VERIF_thrown)
__CPROVER_requires(self->mapPartsFromRight.gkey == (unsigned long)g_r && !self->mapPartsFromRight.has)
__CPROVER_assigns(self->Status, self->parts.n, self->mapPartsFromRight, self->mapPartsFromLeft, self->LeftRightBlocks.n_insert, g_hits, g_n_new, g_last_r, g_last_l, g_ord_at_ghost)
/* already prepared: nothing happens */
__CPROVER_ensures(__CPROVER_old(self->Status) >= Prepared ==> (g_n_new == 0 && self->Status == __CPROVER_old(self->Status) && self->parts.n == __CPROVER_old(self->parts.n)))
/* exactly one part for the ghost block iff its image exists (also when the image is the block itself) */
__CPROVER_ensures(__CPROVER_old(self->Status) < Prepared ==> (g_hits == g_expected && self->Status == Prepared))
__CPROVER_ensures(__CPROVER_old(self->Status) < Prepared ==> (self->parts.n == g_parts0 + g_n_new && self->LeftRightBlocks.n_insert == __CPROVER_old(self->LeftRightBlocks.n_insert) + g_n_new))
/* the part of the ghost block is registered under its right key with its internal number */
__CPROVER_ensures((__CPROVER_old(self->Status) < Prepared && g_expected == 1) ==> (self->mapPartsFromRight.has && (unsigned long)self->mapPartsFromRight.gval.number == g_parts0 + g_ord_at_ghost))
//@loop 1
__CPROVER_assigns(RightIndex, Size, self->parts.n, self->mapPartsFromRight, self->mapPartsFromLeft, self->LeftRightBlocks.n_insert, g_hits, g_n_new, g_last_r, g_last_l, g_ord_at_ghost)
__CPROVER_loop_invariant(0 <= RightIndex.number && RightIndex.number <= self->S.nblocks)
__CPROVER_loop_invariant(Size == g_parts0 + g_n_new && self->parts.n == Size && g_n_new <= (unsigned long)RightIndex.number)
__CPROVER_loop_invariant(self->LeftRightBlocks.n_insert == __CPROVER_loop_entry(self->LeftRightBlocks.n_insert) + g_n_new)
__CPROVER_loop_invariant(self->mapPartsFromRight.gkey == (unsigned long)g_r)
__CPROVER_loop_invariant(RightIndex.number <= g_r ? (g_hits == 0 && !self->mapPartsFromRight.has)
     : (g_hits == g_expected && (g_expected == 1 ==> (self->mapPartsFromRight.has && (unsigned long)self->mapPartsFromRight.gval.number == g_parts0 + g_ord_at_ghost))))
__CPROVER_decreases(self->S.nblocks - RightIndex.number)
//@end
//@harness h_CreationOperator_prepare enforce=CreationOperator_prepare props=C10,C07 min_obl=499 reach=2 timeout=300
void h_CreationOperator_prepare(void)
{
  struct FieldOperator *op;
  CreationOperator_prepare(op);
  REACH("exit");
}

#define AnnihilationOperator_mapsTo FieldOperator_mapsTo
//@function Pomerol::AnnihilationOperator::prepare() as AnnihilationOperator_prepare
//@contract
__CPROVER_requires(__CPROVER_is_fresh(self, sizeof(*self)) && g_self == self && self->S.nblocks >= 0 && self->S.nblocks <= 1000000 && self->H.nblocks == self->S.nblocks)
__CPROVER_requires(g_hits == 0 && g_n_new == 0 && g_parts0 == self->parts.n && self->parts.n <= 1000000 && g_expected == EXPECT && !VERIF_thrown)
__CPROVER_requires(self->mapPartsFromRight.gkey == (unsigned long)g_r && !self->mapPartsFromRight.has)
__CPROVER_assigns(self->Status, self->parts.n, self->mapPartsFromRight, self->mapPartsFromLeft, self->LeftRightBlocks.n_insert, g_hits, g_n_new, g_last_r, g_last_l, g_ord_at_ghost)
/* already prepared: nothing happens */
__CPROVER_ensures(__CPROVER_old(self->Status) >= Prepared ==> (g_n_new == 0 && self->Status == __CPROVER_old(self->Status) && self->parts.n == __CPROVER_old(self->parts.n)))
/* exactly one part for the ghost block iff its image exists (also when the image is the block itself) */
__CPROVER_ensures(__CPROVER_old(self->Status) < Prepared ==> (g_hits == g_expected && self->Status == Prepared))
__CPROVER_ensures(__CPROVER_old(self->Status) < Prepared ==> (self->parts.n == g_parts0 + g_n_new && self->LeftRightBlocks.n_insert == __CPROVER_old(self->LeftRightBlocks.n_insert) + g_n_new))
/* the part of the ghost block is registered under its right key with its internal number */
__CPROVER_ensures((__CPROVER_old(self->Status) < Prepared && g_expected == 1) ==> (self->mapPartsFromRight.has && (unsigned long)self->mapPartsFromRight.gval.number == g_parts0 + g_ord_at_ghost))
//@loop 1
__CPROVER_assigns(RightIndex, Size, self->parts.n, self->mapPartsFromRight, self->mapPartsFromLeft, self->LeftRightBlocks.n_insert, g_hits, g_n_new, g_last_r, g_last_l, g_ord_at_ghost)
__CPROVER_loop_invariant(0 <= RightIndex.number && RightIndex.number <= self->S.nblocks)
__CPROVER_loop_invariant(Size == g_parts0 + g_n_new && self->parts.n == Size && g_n_new <= (unsigned long)RightIndex.number)
__CPROVER_loop_invariant(self->LeftRightBlocks.n_insert == __CPROVER_loop_entry(self->LeftRightBlocks.n_insert) + g_n_new)
__CPROVER_loop_invariant(self->mapPartsFromRight.gkey == (unsigned long)g_r)
__CPROVER_loop_invariant(RightIndex.number <= g_r ? (g_hits == 0 && !self->mapPartsFromRight.has)
     : (g_hits == g_expected && (g_expected == 1 ==> (self->mapPartsFromRight.has && (unsigned long)self->mapPartsFromRight.gval.number == g_parts0 + g_ord_at_ghost))))
__CPROVER_decreases(self->S.nblocks - RightIndex.number)
//@end
//@harness h_AnnihilationOperator_prepare enforce=AnnihilationOperator_prepare props=C10,C07 min_obl=499 reach=2 timeout=300
void h_AnnihilationOperator_prepare(void)
{
  struct FieldOperator *op;
  AnnihilationOperator_prepare(op);
  REACH("exit");
}

/* QuadraticOperator (c^+_i c_j) derives from FieldOperator and adds Index1, Index2: its part is built from both indices */
//@struct Pomerol::QuadraticOperator only=Status,Index,Index1,Index2,parts,mapPartsFromRight,mapPartsFromLeft,LeftRightBlocks,IndexInfo,S,H embed=IndexInfo,S,H
struct QuadraticOperator *g_qself;
static struct FieldOperatorPart *qpart_new(struct IndexClassification *I, struct StatesClassification *S, struct HamiltonianPart *from, struct HamiltonianPart *to, unsigned int i1, unsigned int i2)
{
  __CPROVER_assert(i1 == g_qself->Index1 && i2 == g_qself->Index2, "C10: the part of c^+_i c_j is built from both indices, in this order");
  return part_new(I, S, from, to, g_self->Index);
}
#define FieldOperatorPart_new6 qpart_new
#define QuadraticOperator_mapsTo(op, r) FieldOperator_mapsTo((struct FieldOperator *)(op), (r))
//@function Pomerol::QuadraticOperator::prepare() as QuadraticOperator_prepare
//@contract
__CPROVER_requires(__CPROVER_is_fresh(self, sizeof(*self)) && g_self == (struct FieldOperator *)self && g_qself == self && self->S.nblocks >= 0 && self->S.nblocks <= 1000000 && self->H.nblocks == self->S.nblocks)
__CPROVER_requires(g_hits == 0 && g_n_new == 0 && g_parts0 == self->parts.n && self->parts.n <= 1000000 && g_expected == EXPECT && !VERIF_thrown)
__CPROVER_requires(self->mapPartsFromRight.gkey == (unsigned long)g_r && !self->mapPartsFromRight.has)
__CPROVER_assigns(self->Status, self->parts.n, self->mapPartsFromRight, self->mapPartsFromLeft, self->LeftRightBlocks.n_insert, g_hits, g_n_new, g_last_r, g_last_l, g_ord_at_ghost)
/* already prepared: nothing happens */
__CPROVER_ensures(__CPROVER_old(self->Status) >= Prepared ==> (g_n_new == 0 && self->Status == __CPROVER_old(self->Status) && self->parts.n == __CPROVER_old(self->parts.n)))
/* exactly one part for the ghost block iff its image exists (also when the image is the block itself) */
__CPROVER_ensures(__CPROVER_old(self->Status) < Prepared ==> (g_hits == g_expected && self->Status == Prepared))
__CPROVER_ensures(__CPROVER_old(self->Status) < Prepared ==> (self->parts.n == g_parts0 + g_n_new && self->LeftRightBlocks.n_insert == __CPROVER_old(self->LeftRightBlocks.n_insert) + g_n_new))
/* the part of the ghost block is registered under its right key with its internal number */
__CPROVER_ensures((__CPROVER_old(self->Status) < Prepared && g_expected == 1) ==> (self->mapPartsFromRight.has && (unsigned long)self->mapPartsFromRight.gval.number == g_parts0 + g_ord_at_ghost))
//@loop 1
__CPROVER_assigns(RightIndex, Size, self->parts.n, self->mapPartsFromRight, self->mapPartsFromLeft, self->LeftRightBlocks.n_insert, g_hits, g_n_new, g_last_r, g_last_l, g_ord_at_ghost)
__CPROVER_loop_invariant(0 <= RightIndex.number && RightIndex.number <= self->S.nblocks)
__CPROVER_loop_invariant(Size == g_parts0 + g_n_new && self->parts.n == Size && g_n_new <= (unsigned long)RightIndex.number)
__CPROVER_loop_invariant(self->LeftRightBlocks.n_insert == __CPROVER_loop_entry(self->LeftRightBlocks.n_insert) + g_n_new)
__CPROVER_loop_invariant(self->mapPartsFromRight.gkey == (unsigned long)g_r)
__CPROVER_loop_invariant(RightIndex.number <= g_r ? (g_hits == 0 && !self->mapPartsFromRight.has)
     : (g_hits == g_expected && (g_expected == 1 ==> (self->mapPartsFromRight.has && (unsigned long)self->mapPartsFromRight.gval.number == g_parts0 + g_ord_at_ghost))))
__CPROVER_decreases(self->S.nblocks - RightIndex.number)
//@end
//@harness h_QuadraticOperator_prepare enforce=QuadraticOperator_prepare props=C10,C07 min_obl=529 reach=2 timeout=300
void h_QuadraticOperator_prepare(void)
{
  struct QuadraticOperator *op;
  QuadraticOperator_prepare(op);
  REACH("exit");
}
