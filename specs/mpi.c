/* C16 -- job dispatcher (src/mpi_dispatcher/mpi_dispatcher.cpp, include/mpi_dispatcher/mpi_skel.hpp).
 *
 * CLAIM: per-rank SEQUENTIAL bookkeeping under an assumed sequential MPI contract (stubs/mpi.h); no
 * schedule exploration, no second rank, no fairness.  What is proved is the master invariant
 *
 *   MINV  (a) |WorkerStack| + (#receives posted - #receives completed) == Nprocs
 *         (b) ghost worker w = worker_pool[g_wp]:  inStack(w) + active(wait_statuses[g_wp]) == 1,
 *             an active wait_statuses[g_wp] listens to (w, Pending), WorkerIndices[w] == g_wp
 *         (c) ghost job j:  inStack(j) + #Work(j) sent == g_jmult   (1 if j is a task, else 0),
 *             #Work(j) sent == 1  =>  DispatchMap[j] == destination of that message
 *         (d) ghost worker w:  #Finish sent to w == workers_finish[g_wp]  (0/1)
 *
 * is established by fill_stack_ and preserved by order / order_worker / check_workers, plus the per-call
 * statements listed at each function.  The ghosts are arbitrary, so (b)-(d) hold for every worker / job.
 */
#include "../stubs/common.h"
#include "../stubs/mpi.h"
//@include types_common.inc
//@type boost::mpi::communicator => Comm ptr
//@type boost::mpi::request => MpiReq val
//@type boost::mpi::status => MpiStatus val
//@type (boost::)?optional<boost::mpi::status> => OptStatus val
//@type std::stack<int(, std::deque<int(, std::allocator<int> ?)?> ?)?> => IntStack ptr
//@type std::vector<int(, std::allocator<int> ?)?>|std::vector<(pMPI::)?(WorkerId|JobId)> => IntVec ptr
//@type std::vector<bool(, std::allocator<bool> ?)?> => BoolVec ptr
//@type std::vector<boost::mpi::request(, std::allocator<boost::mpi::request> ?)?> => ReqVec ptr
//@type std::map<int, int(, .*)?> => IntMap ptr
//@type std::map<unsigned long, int(, .*)?> => UlMap ptr
//@type std::map<int, int>::key_type => int scalar
//@type std::map<unsigned long, int>::key_type => unsigned long scalar
//@type std::_Bit_reference|std::vector<bool>::reference => _Bool scalar
//@type std::_Bit_const_iterator|std::vector<bool>::const_iterator => BoolIt val
//@type std::plus<int> => int scalar
//@type (pMPI::)?WorkerTag => int scalar
//@type std::map<pMPI::JobId, pMPI::WorkerId> => IntMap ptr
//@type std::map<pMPI::JobId, pMPI::WorkerId>::const_iterator|std::_Rb_tree_const_iterator<std::pair<const int, int> ?> => MapIt val
//@type std::pair<const int, int> => IntPair ptr
//@type std::vector<WrapType>|std::vector<pMPI::ComputeWrap<Pomerol::HamiltonianPart>(, .*)?> => SkelPartVec ptr
//@type pMPI::mpi_skel<pMPI::ComputeWrap<Pomerol::HamiltonianPart> ?> => struct mpi_skel ptr
//@type boost::scoped_ptr<pMPI::MPIMaster> => MasterPtr ptr
//@record pMPI::mpi_skel => struct mpi_skel ptr
//@rename Comm_send/2 => Comm_send2
//@rename Comm_send/3 => Comm_send3
//@rename Comm_irecv/2 => Comm_irecv2
//@rename Comm_irecv/3 => Comm_irecv3
//@free get => OptStatus_get
//@tu src/mpi_dispatcher/mpi_dispatcher.cpp filter=pMPI::
//@enum WorkerTag
//@struct pMPI::MPIMaster
//@struct pMPI::MPIWorker

/* ---------------------------------------------------------------- ghosts and monitors */
struct MPIMaster *g_master;   /* the master under verification (for the monitors) */
struct MPIWorker *g_worker;   /* the worker under verification */
long g_wp;                    /* ghost position in worker_pool ... */
int g_w;                      /* ... and the ghost worker worker_pool[g_wp] */
int g_job;                    /* ghost job id */
unsigned long g_jmult;        /* 1 if g_job is one of task_numbers, else 0 */
_Bool g_old_flag;              /* check_workers: workers_finish[g_wp] of the pre-state (0 if there is no ghost worker) */
long g_tp;                    /* fill_stack_: position of g_job in task_numbers, or -1 */
long g_ws;                    /* order_worker: position of its `worker` argument in the pool */
long g_os;                    /* order_worker: an arbitrary OTHER slot (frame) */
MpiReq *g_watch;              /* the request slot watched by the store monitor */
unsigned long g_pops;         /* order: number of iterations = min(|WorkerStack|,|JobStack|) of the pre-state */

/* "a receive is posted only into a slot whose previous receive has completed" (otherwise a pending completion
 * message is lost and the worker never returns to the stack) -- checked at the ghost slot */
void VERIF_mpi_store_hook(MpiReq *dst, MpiReq src)
{
  /* element invariant of MPIMaster::wait_statuses (assumed at ReqVec_at when the vector is tagged `nobuf`) */
  if (g_master) __CPROVER_assert(!src.has_buf && src.tag == Pending, "C16: the master posts only receives for Pending, without a buffer");
  if (dst == g_watch) {
    __CPROVER_assert(!dst->active, "C16: a receive is posted only over a completed / null request");
    REACH("store@ghost");
  }
}
/* the only receive with a buffer is the worker's: irecv(boss, MPI_ANY_TAG, current_job_); its payload lands in current_job_ */
void VERIF_mpi_post_hook(int source, int tag, int *buf)
{
  __CPROVER_assert(g_worker && buf == &g_worker->current_job_, "C16: the receive buffer of the worker is current_job_");
}
void VERIF_mpi_deliver_hook(MpiReq *r, int value)
{
  __CPROVER_assert(g_worker && (r == (MpiReq *)0 || r == &g_worker->req), "C16: only the worker's receive has a buffer");
  if (g_worker) g_worker->current_job_ = value;
}
void VERIF_mpi_send_hook(Comm *c, int dest, int tag, _Bool has_value, int value)
{
  if (g_master) {
    __CPROVER_assert(tag == Work || tag == Finish, "C16: the master sends only Work and Finish");
    if (tag == Work) {
      __CPROVER_assert(has_value, "C16: Work carries the job id");
      /* Work is sent only to an idle worker (ghost worker) */
      if (g_wp >= 0 && dest == g_w)
        __CPROVER_assert(!g_master->wait_statuses.data[g_wp].active, "C16: Work is sent only to a worker without outstanding job");
      REACH("send Work");
    }
    if (tag == Finish) {
      __CPROVER_assert(!has_value, "C16: Finish carries no payload");
      __CPROVER_assert(g_master->JobStack.size == 0, "C16: Finish is sent only when no job is left");
      __CPROVER_assert(MPI_n_outstanding == 0, "C16: Finish is sent only when no completion message is outstanding");
      if (g_wp >= 0 && dest == g_w)
        __CPROVER_assert(!g_master->workers_finish.data[g_wp], "C16: Finish is sent at most once per worker");
      REACH("send Finish");
    }
  }
  if (g_worker) {
    __CPROVER_assert(dest == g_worker->boss && tag == Pending && !has_value, "C16: a worker only reports Pending to its boss");
    REACH("send Pending");
  }
}

/* type invariant of MPIMaster: ESTABLISHED by the constructors (section 3b: wait_statuses / workers_finish have Nprocs entries,
 * Ntasks = task_numbers.size(), Nprocs = worker_pool.size(), Comm = the caller's communicator); worker_pool / task_numbers are pools
 * (distinct ids: pre-condition of the 3-argument constructor, strictly increasing by construction in _autorange_*) */
/* (a) the scalar facts -- exactly what the constructor must establish (ensures of MPIMaster::MPIMaster below) */
#define MASTER_WF_SC(m) ((m)->Ntasks <= MPI_MAXN && (m)->Nprocs <= MPI_MAXN && \
         (m)->task_numbers.pool == 2 && (m)->worker_pool.pool == 1 && VERIF_pool_sealed[1] && VERIF_pool_sealed[2] && \
         VERIF_pool_size[2] == (m)->task_numbers.size && VERIF_pool_size[1] == (m)->worker_pool.size && \
         (m)->task_numbers.size == (m)->Ntasks && (m)->worker_pool.size == (m)->Nprocs && \
         (m)->wait_statuses.size == (m)->Nprocs && (m)->wait_statuses.nobuf && (m)->workers_finish.size == (m)->Nprocs && \
         (m)->JobStack.gcount <= (m)->JobStack.size && (m)->JobStack.size <= MPI_MAXN && (m)->WorkerStack.gcount <= (m)->WorkerStack.size && (m)->WorkerStack.size <= MPI_MAXN && \
         (m)->JobStack.pool == 0 && ((m)->WorkerStack.pool == 0 || (m)->WorkerStack.pool == 1) && \
         ((m)->WorkerIndices.inv_pool == 0 || (m)->WorkerIndices.inv_pool == 1) && \
         (m)->DispatchMap.inv_pool == 0 && (m)->DispatchMap.size <= MPI_MAXN && (m)->WorkerIndices.size <= MPI_MAXN && \
         MPI_n_outstanding >= 0 && MPI_n_outstanding <= (long)MPI_MAXN && MPI_n_posted <= MPI_MAXN && (m)->Comm.n_sends <= MPI_MAXN)
/* (b) + the four arrays are separate objects of the right length */
static _Bool Master_wf(struct MPIMaster *m)
{
  return MASTER_WF_SC(m) &&
         __CPROVER_is_fresh(m->task_numbers.data, m->task_numbers.size * sizeof(int)) && __CPROVER_is_fresh(m->worker_pool.data, m->worker_pool.size * sizeof(int)) &&
         __CPROVER_is_fresh(m->wait_statuses.data, m->wait_statuses.size * sizeof(MpiReq)) && __CPROVER_is_fresh(m->workers_finish.data, m->workers_finish.size * sizeof(_Bool));
}
/* the ghost worker: a position g_wp of the pool (or -1 iff the pool is empty) and the id g_w stored there;
 * the ghost value of WorkerStack and the ghost key of WorkerIndices are g_w */
static _Bool Ghost_worker(struct MPIMaster *m)
{
  return (m->Nprocs == 0 ? g_wp == -1 : (0 <= g_wp && (unsigned long)g_wp < m->Nprocs)) &&
         (g_wp < 0 || (m->worker_pool.data[g_wp] == g_w && POOL_ID(1, g_wp) == g_w && POOL_IDX(1, g_w) == g_wp)) &&
         (g_wp >= 0 || POOL_IDX(1, g_w) == -1) &&
         m->WorkerStack.gval == g_w && m->WorkerIndices.gkey == (long)g_w;
}
/* ... and the store monitor watches the ghost worker's request slot (functions that post receives) */
static _Bool Ghost_worker_w(struct MPIMaster *m)
{ return Ghost_worker(m) && g_watch == (g_wp >= 0 ? &m->wait_statuses.data[g_wp] : (MpiReq *)0); }
/* WorkerIndices is the inverse of worker_pool (established by fill_stack_): tag for the other keys, explicit at the ghost key */
static _Bool WorkerIndices_inv(struct MPIMaster *m)
{
  return m->WorkerIndices.inv_pool == 1 && m->WorkerStack.pool == 1 &&
         (g_wp < 0 || (m->WorkerIndices.gpresent && m->WorkerIndices.gval == (int)g_wp));
}

/* ---------------------------------------------------------------- 1. MPIMaster::order_worker
 * doc (mpi_dispatcher.hpp / property C16): "order = ... send Work(job), post receive for the completion message".
 * pre : `worker` is a member of the pool and idle (no outstanding receive in its slot).
 * post: exactly one message, (worker, Work, job); DispatchMap[job] = worker, other keys untouched;
 *       exactly one receive posted, into wait_statuses[position of worker], listening to (worker, Pending);
 *       every other slot, WorkerIndices, both stacks, workers_finish untouched. */
//@function pMPI::MPIMaster::order_worker(int, int) as MPIMaster_order_worker
//@contract
/* (the equality with the ghost pointer must stay in the clause of is_fresh and be its last conjunct: CBMC's value sets) */
__CPROVER_requires(__CPROVER_is_fresh(self, sizeof(*self)) && g_master == self)
__CPROVER_requires(g_worker == (struct MPIWorker *)0 && Master_wf(self))
__CPROVER_requires(Ghost_worker_w(self) && WorkerIndices_inv(self))
/* worker is a pool member at position g_ws, and idle */
__CPROVER_requires(g_ws == POOL_IDX(1, worker) && 0 <= g_ws && (unsigned long)g_ws < self->Nprocs && POOL_ID(1, g_ws) == worker)
__CPROVER_requires(!self->wait_statuses.data[g_ws].active)
__CPROVER_requires(0 <= g_os && (unsigned long)g_os < self->Nprocs)
__CPROVER_assigns(self->Comm.n_sends, self->Comm.n_dest_tag, self->Comm.last_dest_tag_value, self->Comm.last_dest_tag_has_value,
                  self->Comm.n_tag_value, self->Comm.tag_value_dest,
                  self->DispatchMap.size, self->DispatchMap.gpresent, self->DispatchMap.gval, self->DispatchMap.other,
                  self->WorkerIndices.size, self->WorkerIndices.gpresent, self->WorkerIndices.gval, self->WorkerIndices.other,
                  __CPROVER_object_whole(self->wait_statuses.data), MPI_n_outstanding, MPI_n_posted)
/* exactly one message: (worker, Work, job) */
__CPROVER_ensures(self->Comm.n_sends == __CPROVER_old(self->Comm.n_sends) + 1)
__CPROVER_ensures((self->Comm.g_dest == worker && self->Comm.g_tag == Work)
    ? (self->Comm.n_dest_tag == __CPROVER_old(self->Comm.n_dest_tag) + 1 && self->Comm.last_dest_tag_has_value && self->Comm.last_dest_tag_value == job)
    : self->Comm.n_dest_tag == __CPROVER_old(self->Comm.n_dest_tag))
__CPROVER_ensures((self->Comm.g_vtag == Work && self->Comm.g_value == job)
    ? (self->Comm.n_tag_value == __CPROVER_old(self->Comm.n_tag_value) + 1 && self->Comm.tag_value_dest == worker)
    : (self->Comm.n_tag_value == __CPROVER_old(self->Comm.n_tag_value) && self->Comm.tag_value_dest == __CPROVER_old(self->Comm.tag_value_dest)))
/* DispatchMap[job] = worker, every other key keeps its state */
__CPROVER_ensures(self->DispatchMap.gkey == (long)job
    ? (self->DispatchMap.gpresent && self->DispatchMap.gval == worker &&
       self->DispatchMap.size == __CPROVER_old(self->DispatchMap.size) + (__CPROVER_old(self->DispatchMap.gpresent) ? 0 : 1))
    : (self->DispatchMap.gpresent == __CPROVER_old(self->DispatchMap.gpresent) && self->DispatchMap.gval == __CPROVER_old(self->DispatchMap.gval) &&
       self->DispatchMap.size >= __CPROVER_old(self->DispatchMap.size) && self->DispatchMap.size <= __CPROVER_old(self->DispatchMap.size) + 1))
/* exactly one receive posted, at the worker's slot, for (worker, Pending) */
__CPROVER_ensures(MPI_n_posted == __CPROVER_old(MPI_n_posted) + 1 && MPI_n_outstanding == __CPROVER_old(MPI_n_outstanding) + 1)
__CPROVER_ensures(self->wait_statuses.data[g_ws].active && self->wait_statuses.data[g_ws].source == worker &&
                  self->wait_statuses.data[g_ws].tag == Pending && !self->wait_statuses.data[g_ws].has_buf && !self->wait_statuses.data[g_ws].cancelled)
__CPROVER_ensures(g_os == g_ws || (self->wait_statuses.data[g_os].active == __CPROVER_old(self->wait_statuses.data[g_os].active) &&
                  self->wait_statuses.data[g_os].source == __CPROVER_old(self->wait_statuses.data[g_os].source) &&
                  self->wait_statuses.data[g_os].tag == __CPROVER_old(self->wait_statuses.data[g_os].tag)))
/* WorkerIndices is only read (the worker is a key) */
__CPROVER_ensures(self->WorkerIndices.size == __CPROVER_old(self->WorkerIndices.size) &&
                  self->WorkerIndices.gpresent == __CPROVER_old(self->WorkerIndices.gpresent) && self->WorkerIndices.gval == __CPROVER_old(self->WorkerIndices.gval))
//@end

//@harness h_order_worker enforce=MPIMaster_order_worker props=C16 min_obl=901 reach=3 timeout=120
void h_order_worker(void)
{
  struct MPIMaster *m; int worker, job;
  MPIMaster_order_worker(m, worker, job);
  REACH("exit");
}

/* ---------------------------------------------------------------- 2. MPIMaster::order
 * "order = pop both [stacks], send Work(job), post receive for the completion message" (C16 mechanism).
 * MINV is preserved; both stacks are popped together, min(|WorkerStack|,|JobStack|) times, one message and one
 * posted receive per pop; afterwards one of the stacks is empty; terminates (decreases |WorkerStack|).
 * order_worker is inlined (its pre-condition "worker idle" holds for the popped worker because of MINV(b), which this
 * harness knows for the ghost worker only: the store / send monitors check it at the ghost). */
#define MINV_A(self) ((long)(self)->WorkerStack.size + MPI_n_outstanding == (long)(self)->Nprocs)
#define MINV_B(self) (g_wp < 0 || ((self)->WorkerStack.gcount + ((self)->wait_statuses.data[g_wp].active ? 1UL : 0UL) == 1UL && \
                      (!(self)->wait_statuses.data[g_wp].active || ((self)->wait_statuses.data[g_wp].source == g_w && (self)->wait_statuses.data[g_wp].tag == Pending)) && \
                      (self)->WorkerIndices.gpresent && (self)->WorkerIndices.gval == (int)g_wp))
#define MINV_C(self) ((self)->JobStack.gcount + (self)->Comm.n_tag_value == g_jmult && \
                      ((self)->Comm.n_tag_value == 0 || ((self)->DispatchMap.gpresent && (self)->DispatchMap.gval == (self)->Comm.tag_value_dest)))
/* ghost selection of MINV(c): the ghost job is the ghost value of JobStack, the ghost key of DispatchMap and the (Work, value) selector of the send log */
#define GHOST_JOB(self) ((self)->JobStack.gval == g_job && (self)->DispatchMap.gkey == (long)g_job && (self)->Comm.g_vtag == Work && (self)->Comm.g_value == g_job && g_jmult <= 1)
//@function pMPI::MPIMaster::order() as MPIMaster_order
//@contract
__CPROVER_requires(__CPROVER_is_fresh(self, sizeof(*self)) && g_master == self)
__CPROVER_requires(g_worker == (struct MPIWorker *)0 && Master_wf(self))
__CPROVER_requires(Ghost_worker_w(self) && WorkerIndices_inv(self) && GHOST_JOB(self))
__CPROVER_requires(MINV_A(self) && MINV_B(self) && MINV_C(self))
__CPROVER_requires(g_pops == (self->WorkerStack.size < self->JobStack.size ? self->WorkerStack.size : self->JobStack.size))
__CPROVER_assigns(self->Comm.n_sends, self->Comm.n_dest_tag, self->Comm.last_dest_tag_value, self->Comm.last_dest_tag_has_value,
                  self->Comm.n_tag_value, self->Comm.tag_value_dest,
                  self->DispatchMap.size, self->DispatchMap.gpresent, self->DispatchMap.gval, self->DispatchMap.other,
                  self->WorkerIndices.size, self->WorkerIndices.gpresent, self->WorkerIndices.gval, self->WorkerIndices.other,
                  self->WorkerStack.size, self->WorkerStack.top, self->WorkerStack.gcount,
                  self->JobStack.size, self->JobStack.top, self->JobStack.gcount,
                  __CPROVER_object_whole(self->wait_statuses.data), MPI_n_outstanding, MPI_n_posted)
__CPROVER_ensures(MINV_A(self) && MINV_B(self) && MINV_C(self))
__CPROVER_ensures(self->WorkerStack.size == 0 || self->JobStack.size == 0)
/* both stacks popped together, one message and one posted receive per pop */
__CPROVER_ensures(self->WorkerStack.size == __CPROVER_old(self->WorkerStack.size) - g_pops && self->JobStack.size == __CPROVER_old(self->JobStack.size) - g_pops)
__CPROVER_ensures(self->Comm.n_sends == __CPROVER_old(self->Comm.n_sends) + g_pops && MPI_n_posted == __CPROVER_old(MPI_n_posted) + g_pops)
__CPROVER_ensures(self->WorkerIndices.size == __CPROVER_old(self->WorkerIndices.size))
/* nothing is ever pushed: the ghost worker / job can only leave its stack */
__CPROVER_ensures(self->WorkerStack.gcount <= __CPROVER_old(self->WorkerStack.gcount) && self->JobStack.gcount <= __CPROVER_old(self->JobStack.gcount))
//@loop 1
__CPROVER_assigns(self->Comm.n_sends, self->Comm.n_dest_tag, self->Comm.last_dest_tag_value, self->Comm.last_dest_tag_has_value,
                  self->Comm.n_tag_value, self->Comm.tag_value_dest,
                  self->DispatchMap.size, self->DispatchMap.gpresent, self->DispatchMap.gval, self->DispatchMap.other,
                  self->WorkerIndices.size, self->WorkerIndices.gpresent, self->WorkerIndices.gval, self->WorkerIndices.other,
                  self->WorkerStack.size, self->WorkerStack.top, self->WorkerStack.gcount,
                  self->JobStack.size, self->JobStack.top, self->JobStack.gcount,
                  __CPROVER_object_whole(self->wait_statuses.data), MPI_n_outstanding, MPI_n_posted)
__CPROVER_loop_invariant(self->WorkerStack.gcount <= self->WorkerStack.size && self->JobStack.gcount <= self->JobStack.size)
__CPROVER_loop_invariant(self->WorkerStack.size <= __CPROVER_loop_entry(self->WorkerStack.size) && self->JobStack.size <= __CPROVER_loop_entry(self->JobStack.size))
__CPROVER_loop_invariant(__CPROVER_loop_entry(self->WorkerStack.size) - self->WorkerStack.size == __CPROVER_loop_entry(self->JobStack.size) - self->JobStack.size)
__CPROVER_loop_invariant(self->Comm.n_sends - __CPROVER_loop_entry(self->Comm.n_sends) == __CPROVER_loop_entry(self->WorkerStack.size) - self->WorkerStack.size)
__CPROVER_loop_invariant(MPI_n_posted - __CPROVER_loop_entry(MPI_n_posted) == __CPROVER_loop_entry(self->WorkerStack.size) - self->WorkerStack.size)
__CPROVER_loop_invariant(self->WorkerStack.gcount <= __CPROVER_loop_entry(self->WorkerStack.gcount) && self->JobStack.gcount <= __CPROVER_loop_entry(self->JobStack.gcount))
__CPROVER_loop_invariant(self->WorkerIndices.size == __CPROVER_loop_entry(self->WorkerIndices.size))
__CPROVER_loop_invariant(MPI_n_outstanding >= 0 && MPI_n_outstanding <= (long)self->Nprocs && MINV_A(self) && MINV_B(self) && MINV_C(self))
__CPROVER_decreases(self->WorkerStack.size)
//@end

//@harness h_order enforce=MPIMaster_order props=C16 min_obl=1761 reach=3 timeout=300
void h_order(void)
{
  struct MPIMaster *m;
  MPIMaster_order(m);
  REACH("exit");
}

/* ---------------------------------------------------------------- 3. MPIMaster::fill_stack_
 * called by the constructor on empty stacks / maps, null requests, nothing sent.  Establishes MINV with every job and
 * every worker in its stack exactly once (ghost job / ghost worker), WorkerIndices[worker_pool[p]] == p (ghost p),
 * |JobStack| == Ntasks, |WorkerStack| == Nprocs, first task / first worker on top. */
//@function pMPI::MPIMaster::fill_stack_() as MPIMaster_fill_stack_
//@contract
/* (no monitor runs in here: the ghost pointers g_master / g_worker are not needed, so the contract can be used for a local object too) */
__CPROVER_requires(__CPROVER_is_fresh(self, sizeof(*self)) && Master_wf(self))
__CPROVER_requires(Ghost_worker(self) && GHOST_JOB(self))
/* the ghost job: at position g_tp of task_numbers, or not a task at all */
__CPROVER_requires((g_tp == -1 || (0 <= g_tp && (unsigned long)g_tp < self->Ntasks)) && g_jmult == (g_tp >= 0 ? 1UL : 0UL) && POOL_IDX(2, g_job) == g_tp)
__CPROVER_requires(g_tp < 0 || (self->task_numbers.data[g_tp] == g_job && POOL_ID(2, g_tp) == g_job))
/* state left by the constructor's member initialisers */
__CPROVER_requires(self->JobStack.size == 0 && self->JobStack.gcount == 0 && self->WorkerStack.size == 0 && self->WorkerStack.gcount == 0 && self->WorkerStack.pool == 1)
__CPROVER_requires(self->WorkerIndices.size == 0 && !self->WorkerIndices.gpresent && self->WorkerIndices.inv_pool == 0)
__CPROVER_requires(self->DispatchMap.size == 0 && !self->DispatchMap.gpresent && self->Comm.n_tag_value == 0 && MPI_n_outstanding == 0)
__CPROVER_requires(g_wp < 0 || !self->wait_statuses.data[g_wp].active)
__CPROVER_assigns(self->WorkerIndices.size, self->WorkerIndices.gpresent, self->WorkerIndices.gval, self->WorkerIndices.other,
                  self->WorkerStack.size, self->WorkerStack.top, self->WorkerStack.gcount,
                  self->JobStack.size, self->JobStack.top, self->JobStack.gcount)
__CPROVER_ensures(MINV_A(self) && MINV_B(self) && MINV_C(self))
__CPROVER_ensures(self->JobStack.size == self->Ntasks && self->WorkerStack.size == self->Nprocs)
/* every job / worker is in its stack exactly once; anything else is not in it */
__CPROVER_ensures(self->JobStack.gcount == g_jmult && self->WorkerStack.gcount == (g_wp >= 0 ? 1UL : 0UL))
__CPROVER_ensures(g_wp < 0 || (self->WorkerIndices.gpresent && self->WorkerIndices.gval == (int)g_wp))
__CPROVER_ensures(self->WorkerIndices.size <= self->Nprocs)
__CPROVER_ensures(self->Ntasks == 0 || self->JobStack.top == self->task_numbers.data[0])
__CPROVER_ensures(self->Nprocs == 0 || self->WorkerStack.top == self->worker_pool.data[0])
//@loop 1
__CPROVER_assigns(i, self->JobStack.size, self->JobStack.top, self->JobStack.gcount)
__CPROVER_loop_invariant(-1 <= i && (i < 0 || (unsigned long)i < self->Ntasks))
__CPROVER_loop_invariant(self->JobStack.size == self->Ntasks - 1UL - (unsigned long)(long)i)
__CPROVER_loop_invariant(self->JobStack.gcount == ((g_tp >= 0 && g_tp > (long)i) ? 1UL : 0UL))
__CPROVER_loop_invariant((unsigned long)((long)i + 1) == self->Ntasks || self->JobStack.top == self->task_numbers.data[i + 1])
__CPROVER_decreases((long)i + 1)
//@loop 2
__CPROVER_assigns(p, self->WorkerStack.size, self->WorkerStack.top, self->WorkerStack.gcount,
                  self->WorkerIndices.size, self->WorkerIndices.gpresent, self->WorkerIndices.gval, self->WorkerIndices.other)
__CPROVER_loop_invariant(-1 <= p && (p < 0 || (unsigned long)p < self->Nprocs))
__CPROVER_loop_invariant(self->WorkerStack.size == self->Nprocs - 1UL - (unsigned long)(long)p)
__CPROVER_loop_invariant(self->WorkerStack.gcount == ((g_wp >= 0 && g_wp > (long)p) ? 1UL : 0UL))
__CPROVER_loop_invariant(self->WorkerIndices.gpresent == (g_wp >= 0 && g_wp > (long)p) && (!self->WorkerIndices.gpresent || self->WorkerIndices.gval == (int)g_wp))
__CPROVER_loop_invariant(self->WorkerIndices.size <= self->WorkerStack.size)
__CPROVER_loop_invariant((unsigned long)((long)p + 1) == self->Nprocs || self->WorkerStack.top == self->worker_pool.data[p + 1])
__CPROVER_decreases((long)p + 1)
//@end

//@harness h_fill_stack enforce=MPIMaster_fill_stack_ props=C16 min_obl=1232 reach=2 timeout=120
void h_fill_stack(void)
{
  struct MPIMaster *m;
  MPIMaster_fill_stack_(m);
  REACH("exit");
}

#define MINV_D(self) (g_wp < 0 || (self)->Comm.n_dest_tag == ((self)->workers_finish.data[g_wp] ? 1UL : 0UL))
#define GHOST_FINISH(self) ((self)->Comm.g_dest == g_w && (self)->Comm.g_tag == Finish)
/* ---------------------------------------------------------------- 3b. the MPIMaster constructors, swap, _autorange_*
 * MPIMaster(comm, worker_pool, task_numbers) ESTABLISHES the type invariant that every other contract of this file requires
 * (MASTER_WF_SC: Ntasks / Nprocs = sizes of the two vectors, wait_statuses and workers_finish have Nprocs entries -- null requests,
 * flags false --, empty maps), keeps the caller's communicator (Comm.id == comm.id: the communicator is modelled with an identity,
 * 0 = MPI_COMM_WORLD = what a default-constructed communicator is) and, through fill_stack_ (used by its CONTRACT), MINV.
 * Pre-condition: the two vectors hold pairwise distinct ids (pools 1 and 2).  The ghost selections of the containers created inside
 * are prophecy ghosts of stubs/mpi.h, tied here to the ghost worker / job. */
#define CTOR_GHOSTS(comm) (MPI_n_stack_ctor % 2 == 0 && MPI_new_stack_gval[0] == g_job && MPI_new_stack_gval[1] == g_w && \
         MPI_new_stack_pool[0] == 0 && MPI_new_stack_pool[1] == 1 && MPI_new_intmap_gkey == (long)g_job && MPI_new_ulmap_gkey == (long)g_w && \
         (comm)->g_vtag == Work && (comm)->g_value == g_job && (comm)->n_tag_value == 0 && (comm)->g_dest == g_w && (comm)->g_tag == Finish && (comm)->n_dest_tag == 0 && \
         (comm)->n_sends <= MPI_MAXN && MPI_n_outstanding == 0 && MPI_n_posted <= MPI_MAXN && g_jmult <= 1)
#define COMM_KEPT(self, comm) ((self)->Comm.id == (comm)->id && (self)->Comm.rank_ == (comm)->rank_ && (self)->Comm.size_ == (comm)->size_ && \
         (self)->Comm.n_sends == (comm)->n_sends && (self)->Comm.n_tag_value == 0 && (self)->Comm.n_dest_tag == 0 && GHOST_FINISH(self))
/* what a constructed master looks like (besides the arrays being allocated) */
#define CTOR_POST(self) (MASTER_WF_SC(self) && GHOST_JOB(self) && MINV_A(self) && MINV_B(self) && MINV_C(self) && MINV_D(self) && \
         (self)->JobStack.size == (self)->Ntasks && (self)->WorkerStack.size == (self)->Nprocs && (self)->WorkerStack.pool == 1 && \
         (self)->JobStack.gcount == g_jmult && (self)->WorkerStack.gcount == (g_wp >= 0 ? 1UL : 0UL) && \
         (self)->WorkerStack.gval == g_w && (self)->WorkerIndices.gkey == (long)g_w && (self)->WorkerIndices.size <= (self)->Nprocs && \
         (self)->DispatchMap.size == 0 && !(self)->DispatchMap.gpresent && MPI_n_outstanding == 0 && \
         (g_wp < 0 || (!(self)->workers_finish.data[g_wp] && !(self)->wait_statuses.data[g_wp].active)))
//@function pMPI::MPIMaster::MPIMaster(boost::mpi::communicator const&, std::vector<int, std::allocator<int> >, std::vector<int, std::allocator<int> >) as MPIMaster_ctor3
//@contract
__CPROVER_requires(__CPROVER_is_fresh(self, sizeof(*self)) && __CPROVER_is_fresh(comm, sizeof(*comm)))
__CPROVER_requires(!VERIF_thrown && worker_pool.size <= MPI_MAXN && task_numbers.size <= MPI_MAXN &&
                   __CPROVER_is_fresh(worker_pool.data, worker_pool.size * sizeof(int)) && __CPROVER_is_fresh(task_numbers.data, task_numbers.size * sizeof(int)))
/* the vectors are pools: pairwise distinct ids */
__CPROVER_requires(worker_pool.pool == 1 && task_numbers.pool == 2 && VERIF_pool_sealed[1] && VERIF_pool_sealed[2] &&
                   VERIF_pool_size[1] == worker_pool.size && VERIF_pool_size[2] == task_numbers.size)
__CPROVER_requires(CTOR_GHOSTS(comm))
/* ghost worker / ghost job (as in fill_stack_) */
__CPROVER_requires((worker_pool.size == 0 ? g_wp == -1 : (0 <= g_wp && (unsigned long)g_wp < worker_pool.size)) &&
                   (g_wp < 0 || (worker_pool.data[g_wp] == g_w && POOL_ID(1, g_wp) == g_w && POOL_IDX(1, g_w) == g_wp)) && (g_wp >= 0 || POOL_IDX(1, g_w) == -1))
__CPROVER_requires((g_tp == -1 || (0 <= g_tp && (unsigned long)g_tp < task_numbers.size)) && g_jmult == (g_tp >= 0 ? 1UL : 0UL) && POOL_IDX(2, g_job) == g_tp &&
                   (g_tp < 0 || (task_numbers.data[g_tp] == g_job && POOL_ID(2, g_tp) == g_job)))
__CPROVER_assigns(*self, MPI_n_stack_ctor)
__CPROVER_ensures(COMM_KEPT(self, comm))
__CPROVER_ensures(self->Ntasks == task_numbers.size && self->Nprocs == worker_pool.size && self->task_numbers.data == task_numbers.data && self->worker_pool.data == worker_pool.data)
__CPROVER_ensures(__CPROVER_is_fresh(self->wait_statuses.data, self->Nprocs * sizeof(MpiReq)) && __CPROVER_is_fresh(self->workers_finish.data, self->Nprocs * sizeof(_Bool)))
__CPROVER_ensures(CTOR_POST(self))
//@end

//@harness h_master_ctor enforce=MPIMaster_init3 replace=MPIMaster_fill_stack_ props=C16 min_obl=1330 reach=1 timeout=240
void h_master_ctor(void)
{
  struct MPIMaster *m; Comm *c; IntVec wp, tn;
  MPIMaster_init3(m, c, wp, tn);
  REACH("exit");
}

/* ---- _autorange_tasks(n) = (0,1,...,n-1);  _autorange_workers(comm, include_boss) = all ranks, without the caller's own rank unless
 * include_boss; throws std::logic_error when that leaves nobody.  Both sequences are strictly increasing, hence pools.
 * Each function is printed twice: `*_proved` is ENFORCED with the pool label 0 on the vector it fills (a labelled vector under
 * construction would make the stubs assume the pool facts about half-written contents); the copy under the name the callers use
 * carries the same contract without that restriction and is only ever used by REPLACEMENT in the delegating constructors --
 * justified because the label is ghost data that the code never reads. */
unsigned long g_at, g_aw;     /* ghost indices into the two generated vectors */
#define COMM_OK(comm) ((comm)->size_ >= 1 && 0 <= (comm)->rank_ && (comm)->rank_ < (comm)->size_)     /* ASSUMED: MPI: a communicator has >= 1 ranks, 0 <= rank < size */
#define AW_NPROCS(comm, ib) ((unsigned long)((comm)->size_ - ((ib) ? 0 : 1)))
#define AW_VALUE(comm, ib, k) (((ib) || (long)(k) < (long)(comm)->rank_) ? (int)(k) : (int)(k) + 1)
//@maythrow _autorange_workers autorange_workers_proved
//@function pMPI::_autorange_tasks(unsigned long) as autorange_tasks_proved
//@contract
__CPROVER_requires(ntasks <= MPI_MAXN && MPI_new_vec1_pool == 0)
__CPROVER_assigns()
__CPROVER_ensures(__CPROVER_return_value.size == ntasks && __CPROVER_return_value.pool == MPI_new_vec1_pool && __CPROVER_is_fresh(__CPROVER_return_value.data, ntasks * sizeof(int)))
__CPROVER_ensures(g_at >= ntasks || __CPROVER_return_value.data[g_at] == (int)g_at)
//@loop 1
__CPROVER_assigns(i, __CPROVER_object_whole(out.data))
__CPROVER_loop_invariant(i <= ntasks && out.size == ntasks && out.pool == 0 && (g_at >= i || out.data[g_at] == (int)g_at))
__CPROVER_decreases(ntasks - i)
//@end
//@function pMPI::_autorange_tasks(unsigned long) as _autorange_tasks
//@contract
__CPROVER_requires(ntasks <= MPI_MAXN)
__CPROVER_assigns()
__CPROVER_ensures(__CPROVER_return_value.size == ntasks && __CPROVER_return_value.pool == MPI_new_vec1_pool && __CPROVER_is_fresh(__CPROVER_return_value.data, ntasks * sizeof(int)))
__CPROVER_ensures(g_at >= ntasks || __CPROVER_return_value.data[g_at] == (int)g_at)
//@loop 1
__CPROVER_assigns(i, __CPROVER_object_whole(out.data))
__CPROVER_loop_invariant(i <= ntasks)
__CPROVER_decreases(ntasks - i)
//@end
//@function pMPI::_autorange_workers(boost::mpi::communicator const&, bool) as autorange_workers_proved
//@contract
__CPROVER_requires(__CPROVER_is_fresh(comm, sizeof(*comm)) && COMM_OK(comm) && MPI_new_vec0_cap >= (unsigned long)comm->size_ && MPI_new_vec0_pool == 0 && !VERIF_thrown)
__CPROVER_assigns(VERIF_thrown)
__CPROVER_ensures(VERIF_thrown == (AW_NPROCS(comm, include_boss) == 0))
__CPROVER_ensures(VERIF_thrown || (__CPROVER_return_value.size == AW_NPROCS(comm, include_boss) && __CPROVER_return_value.pool == MPI_new_vec0_pool &&
                                   __CPROVER_is_fresh(__CPROVER_return_value.data, __CPROVER_return_value.size * sizeof(int))))
__CPROVER_ensures(VERIF_thrown || g_aw >= AW_NPROCS(comm, include_boss) || __CPROVER_return_value.data[g_aw] == AW_VALUE(comm, include_boss, g_aw))
//@loop 1
__CPROVER_assigns(p, out.size, __CPROVER_object_whole(out.data))
__CPROVER_loop_invariant(p <= (unsigned long)comm->size_ && out.pool == 0 && out.size == ((include_boss || p <= (unsigned long)comm->rank_) ? p : p - 1))
__CPROVER_loop_invariant(g_aw >= out.size || out.data[g_aw] == AW_VALUE(comm, include_boss, g_aw))
__CPROVER_decreases((unsigned long)comm->size_ - p)
//@end
//@function pMPI::_autorange_workers(boost::mpi::communicator const&, bool) as _autorange_workers
//@contract
__CPROVER_requires(__CPROVER_is_fresh(comm, sizeof(*comm)) && COMM_OK(comm) && !VERIF_thrown)
__CPROVER_assigns(VERIF_thrown)
__CPROVER_ensures(VERIF_thrown == (AW_NPROCS(comm, include_boss) == 0))
__CPROVER_ensures(VERIF_thrown || (__CPROVER_return_value.size == AW_NPROCS(comm, include_boss) && __CPROVER_return_value.pool == MPI_new_vec0_pool &&
                                   __CPROVER_is_fresh(__CPROVER_return_value.data, __CPROVER_return_value.size * sizeof(int))))
__CPROVER_ensures(VERIF_thrown || g_aw >= AW_NPROCS(comm, include_boss) || __CPROVER_return_value.data[g_aw] == AW_VALUE(comm, include_boss, g_aw))
//@loop 1
__CPROVER_assigns(p, out.size, __CPROVER_object_whole(out.data))
__CPROVER_loop_invariant(p <= (unsigned long)comm->size_)
__CPROVER_decreases((unsigned long)comm->size_ - p)
//@end
//@harness h_autorange_tasks enforce=autorange_tasks_proved props=C16 min_obl=139 reach=1 timeout=60
void h_autorange_tasks(void) { unsigned long n; autorange_tasks_proved(n); REACH("exit"); }
//@harness h_autorange_workers enforce=autorange_workers_proved props=C16 min_obl=263 reach=2 timeout=60
void h_autorange_workers(void) { Comm *c; _Bool ib; autorange_workers_proved(c, ib); if (VERIF_thrown) REACH("thrown"); else REACH("exit"); }

/* ---- MPIMaster::swap (no contract: inlined) and the two delegating constructors
 *   MPIMaster(comm, ntasks, include_boss)  = MPIMaster x(comm, _autorange_workers(comm, include_boss), _autorange_tasks(ntasks)); swap(x)
 *   MPIMaster(comm, task_numbers, include_boss) = ... with the given task vector.
 * swap() exchanges every member EXCEPT Comm, so the object keeps the communicator its own initialiser list copied: Comm(comm).
 * The inner constructor and _autorange_* are used by their contracts. */
//@function pMPI::MPIMaster::swap(pMPI::MPIMaster&) as MPIMaster_swap
//@end
#define NTASKS ntasks
//@function pMPI::MPIMaster::MPIMaster(boost::mpi::communicator const&, unsigned long, bool) as MPIMaster_ctor3n
//@contract
__CPROVER_requires(__CPROVER_is_fresh(self, sizeof(*self)) && __CPROVER_is_fresh(comm, sizeof(*comm)) && COMM_OK(comm) && !VERIF_thrown)
/* prophecy ghosts: the generated worker vector is pool 1, the task vector pool 2 */
__CPROVER_requires(MPI_new_vec0_pool == 1 && MPI_new_vec1_pool == 2 && VERIF_pool_sealed[1] && VERIF_pool_sealed[2] && MPI_new_vec0_cap <= MPI_MAXN &&
                   VERIF_pool_size[1] == AW_NPROCS(comm, include_boss) && VERIF_pool_size[2] == NTASKS)
__CPROVER_requires(CTOR_GHOSTS(comm))
/* ghost worker: position g_wp of the generated pool and the rank generated there */
__CPROVER_requires((AW_NPROCS(comm, include_boss) == 0 ? g_wp == -1 : (0 <= g_wp && (unsigned long)g_wp < AW_NPROCS(comm, include_boss))) && g_aw == (unsigned long)g_wp &&
                   (g_wp < 0 || (g_w == AW_VALUE(comm, include_boss, g_wp) && POOL_ID(1, g_wp) == g_w && POOL_IDX(1, g_w) == g_wp)) && (g_wp >= 0 || POOL_IDX(1, g_w) == -1))
__CPROVER_requires(ntasks <= MPI_MAXN)
/* ghost job: the task id generated at position g_tp (= g_tp), or not a task */
__CPROVER_requires((g_tp == -1 || (0 <= g_tp && (unsigned long)g_tp < ntasks)) && g_at == (unsigned long)g_tp && g_jmult == (g_tp >= 0 ? 1UL : 0UL) && POOL_IDX(2, g_job) == g_tp &&
                   (g_tp < 0 || (g_job == (int)g_tp && POOL_ID(2, g_tp) == g_job)))
__CPROVER_assigns(*self, MPI_n_stack_ctor, VERIF_thrown)
/* nobody to work: std::logic_error */
__CPROVER_ensures(VERIF_thrown == (AW_NPROCS(comm, include_boss) == 0))
/* otherwise: the caller's communicator, the generated pool, and the state established by MPIMaster(comm, worker_pool, task_numbers) */
__CPROVER_ensures(VERIF_thrown || (COMM_KEPT(self, comm) && self->Nprocs == AW_NPROCS(comm, include_boss) && self->Ntasks == NTASKS))
__CPROVER_ensures(VERIF_thrown || CTOR_POST(self))
//@end
#undef NTASKS
#define NTASKS task_numbers.size
//@function pMPI::MPIMaster::MPIMaster(boost::mpi::communicator const&, std::vector<int, std::allocator<int> >, bool) as MPIMaster_ctor3v
//@contract
__CPROVER_requires(__CPROVER_is_fresh(self, sizeof(*self)) && __CPROVER_is_fresh(comm, sizeof(*comm)) && COMM_OK(comm) && !VERIF_thrown)
/* prophecy ghosts: the generated worker vector is pool 1, the task vector pool 2 */
__CPROVER_requires(MPI_new_vec0_pool == 1 && MPI_new_vec1_pool == 2 && VERIF_pool_sealed[1] && VERIF_pool_sealed[2] && MPI_new_vec0_cap <= MPI_MAXN &&
                   VERIF_pool_size[1] == AW_NPROCS(comm, include_boss) && VERIF_pool_size[2] == NTASKS)
__CPROVER_requires(CTOR_GHOSTS(comm))
/* ghost worker: position g_wp of the generated pool and the rank generated there */
__CPROVER_requires((AW_NPROCS(comm, include_boss) == 0 ? g_wp == -1 : (0 <= g_wp && (unsigned long)g_wp < AW_NPROCS(comm, include_boss))) && g_aw == (unsigned long)g_wp &&
                   (g_wp < 0 || (g_w == AW_VALUE(comm, include_boss, g_wp) && POOL_ID(1, g_wp) == g_w && POOL_IDX(1, g_w) == g_wp)) && (g_wp >= 0 || POOL_IDX(1, g_w) == -1))
__CPROVER_requires(task_numbers.size <= MPI_MAXN && __CPROVER_is_fresh(task_numbers.data, task_numbers.size * sizeof(int)) && task_numbers.pool == 2)
__CPROVER_requires((g_tp == -1 || (0 <= g_tp && (unsigned long)g_tp < task_numbers.size)) && g_jmult == (g_tp >= 0 ? 1UL : 0UL) && POOL_IDX(2, g_job) == g_tp &&
                   (g_tp < 0 || (task_numbers.data[g_tp] == g_job && POOL_ID(2, g_tp) == g_job)))
__CPROVER_assigns(*self, MPI_n_stack_ctor, VERIF_thrown)
/* nobody to work: std::logic_error */
__CPROVER_ensures(VERIF_thrown == (AW_NPROCS(comm, include_boss) == 0))
/* otherwise: the caller's communicator, the generated pool, and the state established by MPIMaster(comm, worker_pool, task_numbers) */
__CPROVER_ensures(VERIF_thrown || (COMM_KEPT(self, comm) && self->Nprocs == AW_NPROCS(comm, include_boss) && self->Ntasks == NTASKS))
__CPROVER_ensures(VERIF_thrown || CTOR_POST(self))
//@end
#undef NTASKS

//@harness h_master_ctor_ntasks enforce=MPIMaster_init3n replace=MPIMaster_init3,_autorange_workers,_autorange_tasks props=C16 min_obl=1531 reach=2 timeout=240
void h_master_ctor_ntasks(void)
{
  struct MPIMaster *m; Comm *c; unsigned long n; _Bool ib;
  MPIMaster_init3n(m, c, n, ib);
  if (VERIF_thrown) REACH("thrown"); else REACH("exit");
}
//@harness h_master_ctor_tasks enforce=MPIMaster_init3v replace=MPIMaster_init3,_autorange_workers props=C16 min_obl=1526 reach=2 timeout=240
void h_master_ctor_tasks(void)
{
  struct MPIMaster *m; Comm *c; IntVec tn; _Bool ib;
  MPIMaster_init3v(m, c, tn, ib);
  if (VERIF_thrown) REACH("thrown"); else REACH("exit");
}

/* ---------------------------------------------------------------- 4. MPIMaster::check_workers
 * "completion polling, re-queueing of idle workers, Finish broadcast when no job is left and all workers are idle".
 * MINV (a),(b),(d) preserved ((c) is framed: JobStack, DispatchMap and the Work log are not written).
 * FIN := no job left and no completion message outstanding (after the polling loop).
 *   Finish is sent only in FIN (send monitor), at most once per worker (monitor + (d)), and in FIN every worker
 *   has its Finish afterwards (ghost worker: flag set, exactly one Finish in the log). Outside FIN nothing is sent. */
#define FIN(self) ((self)->JobStack.size == 0 && MPI_n_outstanding == 0)
//@function pMPI::MPIMaster::check_workers() as MPIMaster_check_workers
//@contract
__CPROVER_requires(__CPROVER_is_fresh(self, sizeof(*self)) && g_master == self)
__CPROVER_requires(g_worker == (struct MPIWorker *)0 && Master_wf(self))
__CPROVER_requires(Ghost_worker_w(self) && WorkerIndices_inv(self) && GHOST_FINISH(self))
__CPROVER_requires(MINV_A(self) && MINV_B(self) && MINV_D(self))
__CPROVER_requires(g_old_flag == (g_wp >= 0 ? self->workers_finish.data[g_wp] : 0))
__CPROVER_assigns(self->Comm.n_sends, self->Comm.n_dest_tag, self->Comm.last_dest_tag_value, self->Comm.last_dest_tag_has_value,
                  self->WorkerStack.size, self->WorkerStack.top, self->WorkerStack.gcount,
                  __CPROVER_object_whole(self->wait_statuses.data), __CPROVER_object_whole(self->workers_finish.data), MPI_n_outstanding)
__CPROVER_ensures(MINV_A(self) && MINV_B(self) && MINV_D(self))
/* workers only return to the stack, receives only complete */
__CPROVER_ensures(self->WorkerStack.size >= __CPROVER_old(self->WorkerStack.size) && self->WorkerStack.gcount >= __CPROVER_old(self->WorkerStack.gcount) &&
                  MPI_n_outstanding <= __CPROVER_old(MPI_n_outstanding) &&
                  self->WorkerStack.size - __CPROVER_old(self->WorkerStack.size) == (unsigned long)(__CPROVER_old(MPI_n_outstanding) - MPI_n_outstanding))
/* in FIN every worker has got its Finish exactly once; outside FIN nothing is sent and no flag changes */
__CPROVER_ensures(!FIN(self) || g_wp < 0 || (self->workers_finish.data[g_wp] && self->Comm.n_dest_tag == 1))
__CPROVER_ensures(FIN(self) || (self->Comm.n_sends == __CPROVER_old(self->Comm.n_sends) &&
                  (g_wp < 0 || (self->workers_finish.data[g_wp] == g_old_flag && self->Comm.n_dest_tag == __CPROVER_old(self->Comm.n_dest_tag)))))
__CPROVER_ensures(self->Comm.n_sends - __CPROVER_old(self->Comm.n_sends) <= self->Nprocs)
/* a flag is never reset */
__CPROVER_ensures(g_wp < 0 || !g_old_flag || self->workers_finish.data[g_wp])
//@loop 1
__CPROVER_assigns(i, self->WorkerStack.size, self->WorkerStack.top, self->WorkerStack.gcount,
                  __CPROVER_object_whole(self->wait_statuses.data), MPI_n_outstanding)
__CPROVER_loop_invariant(i <= self->Nprocs)
__CPROVER_loop_invariant(self->WorkerStack.gcount <= self->WorkerStack.size && self->WorkerStack.size <= self->Nprocs)
__CPROVER_loop_invariant(self->WorkerStack.size >= __CPROVER_loop_entry(self->WorkerStack.size) && self->WorkerStack.gcount >= __CPROVER_loop_entry(self->WorkerStack.gcount))
__CPROVER_loop_invariant(MPI_n_outstanding >= 0 && MPI_n_outstanding <= __CPROVER_loop_entry(MPI_n_outstanding) && MPI_n_outstanding <= (long)self->Nprocs)
__CPROVER_loop_invariant(MINV_A(self) && MINV_B(self))
__CPROVER_decreases(self->Nprocs - i)
//@loop 2
__CPROVER_assigns(i, self->Comm.n_sends, self->Comm.n_dest_tag, self->Comm.last_dest_tag_value, self->Comm.last_dest_tag_has_value,
                  __CPROVER_object_whole(self->workers_finish.data))
__CPROVER_loop_invariant(i <= self->Nprocs)
__CPROVER_loop_invariant(self->Comm.n_sends >= __CPROVER_loop_entry(self->Comm.n_sends) && self->Comm.n_sends - __CPROVER_loop_entry(self->Comm.n_sends) <= i)
__CPROVER_loop_invariant(MINV_D(self))
__CPROVER_loop_invariant(g_wp < 0 || ((long)i <= g_wp
     ? (self->workers_finish.data[g_wp] == g_old_flag && self->Comm.n_dest_tag == __CPROVER_loop_entry(self->Comm.n_dest_tag))
     : (self->workers_finish.data[g_wp] && self->Comm.n_dest_tag == 1)))
__CPROVER_decreases(self->Nprocs - i)
//@end

//@harness h_check_workers enforce=MPIMaster_check_workers props=C16 min_obl=1703 reach=4 timeout=300
void h_check_workers(void)
{
  struct MPIMaster *m;
  MPIMaster_check_workers(m);
  REACH("exit");
}

/* ---------------------------------------------------------------- 5a. MPIMaster::is_finished
 * is_finished <=> every worker has its finish flag (std::accumulate over vector<bool> = number of true entries):
 *   true  => workers_finish[gidx] for the arbitrary ghost index;   false => workers_finish[witness] is not set. */
//@function pMPI::MPIMaster::is_finished() const as MPIMaster_is_finished
//@contract
__CPROVER_requires(__CPROVER_is_fresh(self, sizeof(*self)) && g_master == self)
__CPROVER_requires(g_worker == (struct MPIWorker *)0 && Master_wf(self))
__CPROVER_assigns(VERIF_acc_witness)
__CPROVER_ensures(!__CPROVER_return_value || self->workers_finish.gidx >= self->Nprocs || self->workers_finish.data[self->workers_finish.gidx])
__CPROVER_ensures(__CPROVER_return_value || (VERIF_acc_witness < self->Nprocs && !self->workers_finish.data[VERIF_acc_witness]))
__CPROVER_ensures(self->Nprocs != 0 || __CPROVER_return_value)
//@end

//@harness h_master_is_finished enforce=MPIMaster_is_finished props=C16 min_obl=342 reach=2 timeout=60
void h_master_is_finished(void)
{
  struct MPIMaster *m;
  _Bool r = MPIMaster_is_finished(m);
  if (r) REACH("finished"); else REACH("not finished");
}

/* ---------------------------------------------------------------- 5b. MPIWorker
 * "worker state machine Pending -> Work -> Pending ... -> Finish driven by a re-posted non-blocking receive".
 * type invariant: Status is one of the three tags; an active `req` is the receive posted for (boss, any tag) with a buffer
 * (the buffer is current_job_: asserted by the post hook whenever such a receive is posted), and the program has left the buffer
 * alone since (MPI-3.1 3.7.2): if the message was delivered eagerly, current_job_ still holds it. */
static _Bool Worker_wf(struct MPIWorker *w)
{
  return (w->Status == Pending || w->Status == Work || w->Status == Finish) &&
         (!w->req.active || (w->req.source == w->boss && w->req.tag == MPI_ANY_TAG_ && w->req.has_buf)) &&
         (!w->req.active || !w->req.eager || w->current_job_ == w->req.msg) &&
         g_watch == &w->req;
}
/* ghost counters start in a range that excludes wrap-around */
#define MPI_COUNTERS_BOUNDED(c) (MPI_n_outstanding >= 0 && MPI_n_outstanding <= (long)MPI_MAXN && MPI_n_posted <= MPI_MAXN && (c)->n_sends <= MPI_MAXN)
//@function pMPI::MPIWorker::is_finished() as MPIWorker_is_finished
//@contract
__CPROVER_requires(__CPROVER_is_fresh(self, sizeof(*self)))
__CPROVER_assigns()
__CPROVER_ensures(__CPROVER_return_value == (self->Status == Finish))
//@end
//@function pMPI::MPIWorker::is_working() as MPIWorker_is_working
//@contract
__CPROVER_requires(__CPROVER_is_fresh(self, sizeof(*self)))
__CPROVER_assigns()
__CPROVER_ensures(__CPROVER_return_value == (self->Status == Work))
//@end

/* receive_order: nothing happens unless the worker is Pending.  A Pending worker polls its receive once:
 *   not complete -> nothing changes;
 *   complete     -> Status := tag of the message (ASSUMED peer behaviour, required below: the boss sends only Work or
 *                   Finish -- proved for MPIMaster by the send monitor), current_job_ holds the payload of the completed receive
 *                   (whether it was delivered eagerly or only now), the receive is re-posted for (boss, any tag, current_job_) over
 *                   the completed request, and cancelled iff Finish.  If the RE-POSTED receive is itself satisfied eagerly, its
 *                   payload replaces the job id at once (what the code does; it can only happen if the boss sends to a worker that
 *                   has not reported yet, which MPIMaster's monitors exclude). */
//@function pMPI::MPIWorker::receive_order() as MPIWorker_receive_order
//@contract
__CPROVER_requires(__CPROVER_is_fresh(self, sizeof(*self)) && g_worker == self)
__CPROVER_requires(g_master == (struct MPIMaster *)0 && Worker_wf(self) && MPI_COUNTERS_BOUNDED(&self->Comm))
__CPROVER_requires(MPI_next_tag == Work || MPI_next_tag == Finish)
__CPROVER_assigns(self->Status, self->req, self->current_job_, MPI_n_outstanding, MPI_n_posted, MPI_next_tag, MPI_next_value, MPI_next_eager)
__CPROVER_ensures(Worker_wf(self))
/* not Pending, or the receive is not complete: nothing changes */
__CPROVER_ensures(MPI_n_posted == __CPROVER_old(MPI_n_posted) || MPI_n_posted == __CPROVER_old(MPI_n_posted) + 1)
__CPROVER_ensures(MPI_n_posted != __CPROVER_old(MPI_n_posted) ||
    (self->Status == __CPROVER_old(self->Status) && self->current_job_ == __CPROVER_old(self->current_job_) &&
     self->req.active == __CPROVER_old(self->req.active) && self->req.cancelled == __CPROVER_old(self->req.cancelled) &&
     MPI_n_outstanding == __CPROVER_old(MPI_n_outstanding) && MPI_next_tag == __CPROVER_old(MPI_next_tag)))
__CPROVER_ensures(__CPROVER_old(self->Status) == Pending || MPI_n_posted == __CPROVER_old(MPI_n_posted))
__CPROVER_ensures(__CPROVER_old(self->req.active) || MPI_n_posted == __CPROVER_old(MPI_n_posted))
/* the receive completed: Pending -> Work | Finish, job id taken from the message, receive re-posted, cancelled on Finish */
#define RO_DONE (MPI_n_posted == __CPROVER_old(MPI_n_posted) + 1)
__CPROVER_ensures(!RO_DONE || (self->Status == __CPROVER_old(MPI_next_tag) && (self->Status == Work || self->Status == Finish)))
__CPROVER_ensures(!RO_DONE || (self->req.msg == __CPROVER_old(MPI_next_value) && self->req.eager == __CPROVER_old(MPI_next_eager)))
__CPROVER_ensures(!RO_DONE || self->current_job_ == (self->req.eager ? self->req.msg : __CPROVER_old(self->req.msg)))
__CPROVER_ensures(!RO_DONE || (self->req.active && self->req.source == self->boss && self->req.tag == MPI_ANY_TAG_ && self->req.has_buf))
__CPROVER_ensures(!RO_DONE || self->req.cancelled == (self->Status == Finish))
__CPROVER_ensures(!RO_DONE || MPI_n_outstanding == __CPROVER_old(MPI_n_outstanding))
//@end

/* report_job_done: exactly one message, (boss, Pending, no payload); state Pending */
//@function pMPI::MPIWorker::report_job_done() as MPIWorker_report_job_done
//@contract
__CPROVER_requires(__CPROVER_is_fresh(self, sizeof(*self)) && g_worker == self)
__CPROVER_requires(g_master == (struct MPIMaster *)0 && Worker_wf(self) && MPI_COUNTERS_BOUNDED(&self->Comm))
__CPROVER_assigns(self->Status, self->Comm.n_sends, self->Comm.n_dest_tag, self->Comm.last_dest_tag_value, self->Comm.last_dest_tag_has_value)
__CPROVER_ensures(self->Status == Pending)
__CPROVER_ensures(self->Comm.n_sends == __CPROVER_old(self->Comm.n_sends) + 1)
__CPROVER_ensures((self->Comm.g_dest == self->boss && self->Comm.g_tag == Pending)
    ? (self->Comm.n_dest_tag == __CPROVER_old(self->Comm.n_dest_tag) + 1 && !self->Comm.last_dest_tag_has_value)
    : self->Comm.n_dest_tag == __CPROVER_old(self->Comm.n_dest_tag))
//@end

//@harness h_worker_is_finished enforce=MPIWorker_is_finished props=C16 min_obl=33 reach=1 timeout=60
void h_worker_is_finished(void) { struct MPIWorker *w; MPIWorker_is_finished(w); REACH("exit"); }
//@harness h_worker_is_working enforce=MPIWorker_is_working props=C16 min_obl=33 reach=1 timeout=60
void h_worker_is_working(void) { struct MPIWorker *w; MPIWorker_is_working(w); REACH("exit"); }
//@harness h_receive_order enforce=MPIWorker_receive_order props=C16 min_obl=382 reach=4 timeout=60
void h_receive_order(void) { struct MPIWorker *w; MPIWorker_receive_order(w); REACH("exit"); }
//@harness h_report_job_done enforce=MPIWorker_report_job_done props=C16 min_obl=283 reach=2 timeout=60
void h_report_job_done(void) { struct MPIWorker *w; MPIWorker_report_job_done(w); REACH("exit"); }

/* ---------------------------------------------------------------- 5c. MPIWorker::MPIWorker(comm, boss)
 * establishes the worker's type invariant: Pending, id = rank, exactly one receive posted for (boss, any tag) into current_job_
 * (post hook), nothing sent; current_job_ is -1 ("no job") UNLESS the first message was already queued and has been delivered
 * during the irecv -- then it is that message (the initialisation must not come after the receive is posted: MPI-3.1 3.7.2). */
//@tu src/mpi_dispatcher/mpi_dispatcher.cpp filter=pMPI::
//@function pMPI::MPIWorker::MPIWorker(boost::mpi::communicator const&, int) as MPIWorker_ctor2
//@contract
__CPROVER_requires(__CPROVER_is_fresh(self, sizeof(*self)) && g_worker == self)
__CPROVER_requires(g_master == (struct MPIMaster *)0 && __CPROVER_is_fresh(comm, sizeof(*comm)) && g_watch == &self->req && MPI_COUNTERS_BOUNDED(comm))
__CPROVER_assigns(*self, MPI_n_outstanding, MPI_n_posted, MPI_next_value, MPI_next_eager)
__CPROVER_ensures(Worker_wf(self) && self->Status == Pending && self->id == comm->rank_ && self->boss == boss)
__CPROVER_ensures(self->req.msg == __CPROVER_old(MPI_next_value) && self->req.eager == __CPROVER_old(MPI_next_eager) && self->current_job_ == (self->req.eager ? self->req.msg : -1))
__CPROVER_ensures(self->req.active && !self->req.cancelled && self->req.source == boss && self->req.tag == MPI_ANY_TAG_ && self->req.has_buf)
__CPROVER_ensures(MPI_n_posted == __CPROVER_old(MPI_n_posted) + 1 && MPI_n_outstanding == __CPROVER_old(MPI_n_outstanding) + 1)
__CPROVER_ensures(self->Comm.n_sends == comm->n_sends && self->Comm.rank_ == comm->rank_ && self->Comm.size_ == comm->size_)
//@end
//@harness h_worker_ctor enforce=MPIWorker_init2 props=C16 min_obl=291 reach=2 timeout=60
void h_worker_ctor(void) { struct MPIWorker *w; Comm *c; int boss; MPIWorker_init2(w, c, boss); REACH("exit"); }

/* ---------------------------------------------------------------- 6. mpi_skel<WrapType>::run, dissemination of the job map
 * (template: the instantiation mpi_skel<ComputeWrap<HamiltonianPart>> compiled into Hamiltonian.cpp is extracted; the
 * other instantiations differ only in WrapType, which the two statements below do not touch.)
 * The whole function cannot be printed (BOOST_LOCAL_FUNCTION expansion, std::sort with a local functor): the two branches of its
 * LAST if-statement `if (rank == ROOT) {...} else {...}` are extracted as statements (//@fragment): the contracts below are claims
 * about these statements, started in the state described by their pre-conditions; that this state is the one reached in run()
 * (job_map freshly default-constructed, disp set on the root) is read off the source, not proved. */
//@tu src/pomerol/Hamiltonian.cpp filter=pMPI::
//@struct pMPI::mpi_skel

/* non-root ranks: "map on workers = map on root": job_map[jobs[i]] = workers[i] for all i.
 * ASSUMED about the root (proved for the root's statement below): both broadcast vectors have the same length and `jobs` holds
 * pairwise distinct ids (keys of a std::map in iteration order) -- given to the broadcast stub through its prophecy ghosts.
 * Ghost index MPI_bcast_gidx: the entry (jobs[g], workers[g]) ends up in job_map. */
//@fragment pMPI::mpi_skel<pMPI::ComputeWrap<Pomerol::HamiltonianPart> >::run(boost::mpi::communicator const&, bool) path=-2/else as run_disseminate_worker
//@contract
__CPROVER_requires(__CPROVER_is_fresh(self, sizeof(*self)) && __CPROVER_is_fresh(comm, sizeof(*comm)) && __CPROVER_is_fresh(ROOT, sizeof(*ROOT)) && __CPROVER_is_fresh(job_map, sizeof(*job_map)))
__CPROVER_requires(*ROOT == 0 && comm->rank_ != 0 && self->parts.size <= MPI_MAXN)
/* job_map is the freshly constructed (empty) local of run() */
__CPROVER_requires(job_map->size == 0 && !job_map->gpresent && job_map->inv_pool == 0)
/* what the root sends (assumed, see above) */
__CPROVER_requires(MPI_bcast_k == 0 && MPI_bcast_len[0] == MPI_bcast_len[1] && MPI_bcast_len[0] <= MPI_MAXN)
__CPROVER_requires(MPI_bcast_pool[0] == 2 && MPI_bcast_pool[1] == 0 && VERIF_pool_size[2] == MPI_bcast_len[0] && VERIF_pool_sealed[2] && MPI_new_vec1_pool == 0)
__CPROVER_requires(MPI_bcast_gidx >= MPI_bcast_len[0] || (job_map->gkey == (long)MPI_bcast_gval[0] && POOL_IDX(2, MPI_bcast_gval[0]) == (long)MPI_bcast_gidx))
__CPROVER_assigns(job_map->size, job_map->gpresent, job_map->gval, job_map->other, MPI_bcast_k)
/* the ghost entry is in the map; a key that is not among the jobs is not */
__CPROVER_ensures(MPI_bcast_gidx >= MPI_bcast_len[0] || (job_map->gpresent && job_map->gval == MPI_bcast_gval[1]))
__CPROVER_ensures(job_map->size <= MPI_bcast_len[0] && MPI_bcast_k == 2)
//@loop 1
__CPROVER_assigns(i, job_map->size, job_map->gpresent, job_map->gval, job_map->other)
__CPROVER_loop_invariant(i <= jobs.size && jobs.size == MPI_bcast_len[0] && workers.size == MPI_bcast_len[0] && jobs.pool == 2 && workers.pool == 0)
__CPROVER_loop_invariant(job_map->size <= i)
__CPROVER_loop_invariant(MPI_bcast_gidx >= MPI_bcast_len[0] || (i <= MPI_bcast_gidx ? !job_map->gpresent : (job_map->gpresent && job_map->gval == MPI_bcast_gval[1])))
__CPROVER_decreases(jobs.size - i)
//@end

//@harness h_run_disseminate_worker enforce=run_disseminate_worker props=C16 min_obl=426 reach=2 timeout=60
void h_run_disseminate_worker(void)
{
  struct mpi_skel *s; Comm *c; unsigned long *root; IntMap *jm;
  run_disseminate_worker(s, c, root, jm);
  REACH("exit");
}

/* root: job_map := DispatchMap, flattened in iteration order into two vectors of length job_map.size(), both broadcast.
 * Proved: both broadcast vectors have the length of DispatchMap (=> equal lengths, the assumption of the non-root statement);
 * the entry of the ghost key sits at its iteration position in both vectors; a key that is not in the map is in no position of `jobs`.
 * (|DispatchMap| == parts.size() is NOT needed: boost's broadcast of a std::vector replaces the receiver's vector.) */
//@fragment pMPI::mpi_skel<pMPI::ComputeWrap<Pomerol::HamiltonianPart> >::run(boost::mpi::communicator const&, bool) path=-2/then as run_disseminate_root
//@contract
__CPROVER_requires(__CPROVER_is_fresh(job_map, sizeof(*job_map)) && __CPROVER_is_fresh(disp, sizeof(*disp)) && __CPROVER_is_fresh(comm, sizeof(*comm)) && __CPROVER_is_fresh(ROOT, sizeof(*ROOT)))
__CPROVER_requires(__CPROVER_is_fresh(disp->p, sizeof(struct MPIMaster)))
__CPROVER_requires(*ROOT == 0 && comm->rank_ == 0 && MPI_bcast_k == 0 && disp->p->DispatchMap.size <= MPI_MAXN && MPI_new_vec1_pool == 0)
/* the ghost index is the iteration position of the ghost key (if it is present), arbitrary otherwise */
__CPROVER_requires(!disp->p->DispatchMap.gpresent || (MPI_bcast_gidx == disp->p->DispatchMap.gpos && disp->p->DispatchMap.gpos < disp->p->DispatchMap.size))
__CPROVER_assigns(*job_map, MPI_bcast_k, __CPROVER_object_whole(MPI_bcast_len), __CPROVER_object_whole(MPI_bcast_gval))
__CPROVER_ensures(MPI_bcast_k == 2 && MPI_bcast_len[0] == disp->p->DispatchMap.size && MPI_bcast_len[1] == disp->p->DispatchMap.size)
__CPROVER_ensures(job_map->size == disp->p->DispatchMap.size && job_map->gkey == disp->p->DispatchMap.gkey &&
                  job_map->gpresent == disp->p->DispatchMap.gpresent && job_map->gval == disp->p->DispatchMap.gval)
__CPROVER_ensures(!disp->p->DispatchMap.gpresent || ((long)MPI_bcast_gval[0] == disp->p->DispatchMap.gkey && MPI_bcast_gval[1] == disp->p->DispatchMap.gval))
__CPROVER_ensures(disp->p->DispatchMap.gpresent || MPI_bcast_gidx >= disp->p->DispatchMap.size || (long)MPI_bcast_gval[0] != disp->p->DispatchMap.gkey)
//@loop 1
__CPROVER_assigns(i, it.pos, it.cur, __CPROVER_object_whole(jobs.data), __CPROVER_object_whole(workers.data))
__CPROVER_loop_invariant(0 <= i && (unsigned long)i <= workers.size && it.pos == (unsigned long)i && it.m == job_map)
__CPROVER_loop_invariant(jobs.size == job_map->size && workers.size == job_map->size && job_map->size <= MPI_MAXN)
__CPROVER_loop_invariant((unsigned long)i <= MPI_bcast_gidx || MPI_bcast_gidx >= jobs.size ||
     (job_map->gpresent ? ((long)jobs.data[MPI_bcast_gidx] == job_map->gkey && workers.data[MPI_bcast_gidx] == job_map->gval)
                        : (long)jobs.data[MPI_bcast_gidx] != job_map->gkey))
__CPROVER_decreases(workers.size - (unsigned long)i)
//@end

//@harness h_run_disseminate_root enforce=run_disseminate_root props=C16 min_obl=842 reach=2 timeout=90
void h_run_disseminate_root(void)
{
  IntMap *jm; MasterPtr *d; Comm *c; unsigned long *root;
  run_disseminate_root(jm, d, c, root);
  REACH("exit");
}

/* ================================================================ mutation record (scratch copies of /repo, tools as in tools/README.md)
 * harness                   mutant                                                             caught by
 * h_order_worker            DispatchMap[worker]=job                                            order_worker.postcondition.4
 *                           wait_statuses[worker] = irecv (index not through WorkerIndices)   postcondition.6/.7, store monitor, ReqVec_at bounds
 *                           send(job, Work, worker)                                            postcondition.2/.3, send monitor (idle worker)
 *                           irecv(worker, Work) instead of Pending                             postcondition.6 (+ store monitor tag)
 * h_order                   pop only WorkerStack                                               loop_invariant_step.3/.8 (popped together, MINV c)
 *                           pop only JobStack                                                  loop_invariant_step.3/.4/.5/.8, loop_decreases.1
 *                           `&&` -> `||` in the loop condition                                 IntStack_top.assertion.1 (top of an empty stack)
 *                           pop WorkerStack before order_worker (dangling reference)           send/store monitors, loop_invariant_step.7/.8, bounds
 *                           order_worker(job, worker)                                          send/store monitors, loop_invariant_step.7/.8, bounds
 *                           while -> if                                                        EXTRACTION-BREAK (loop contract without loop) = undecided
 * h_fill_stack              i>=0 -> i>0 (job 0 lost)                                           postcondition.1/.2/.3/.6
 *                           WorkerIndices[p] = worker_pool[p]                                  loop_invariant_step.8
 *                           worker pushed twice                                                loop_invariant_step.6/.7
 *                           JobStack.push(i)                                                   loop_invariant_step.3/.4
 *                           p starts at Nprocs-2                                               postcondition.1-.4/.7, loop_invariant_base.4
 * h_check_workers           `>=` -> `>` in the Finish condition                                postcondition.3 (in FIN every worker gets Finish)
 *                           JobStack.empty() dropped                                           send monitor "no job is left", postcondition.4
 *                           WorkerStack.size()>=Nprocs dropped                                 send monitor "no completion message is outstanding", postcondition.4
 *                           worker pushed back twice                                           loop_invariant_step.2/.5 (MINV a, b)
 *                           wait_statuses[0].test()                                            loop_invariant_step.5 (MINV b)
 *                           `if (!workers_finish[i])` dropped                                  send monitor "at most once per worker", loop_invariant_step.8/.9
 *                           `workers_finish[i] = true` dropped                                 loop_invariant_step.8/.9 (MINV d)
 * h_master_is_finished      NFinished+1 == Nprocs ; NFinished > 0                              postcondition.1/.2/.3
 * h_receive_order           guard `Status != Pending` dropped                                  postcondition.4
 *                           cancel unconditionally                                             postcondition.9
 *                           receive not re-posted                                              postcondition.3
 *                           re-posted for tag Work only                                        postcondition.1/.8
 *                           Status = Work regardless of the tag                                postcondition.6
 * h_report_job_done         send(boss, Work) ; send(id, Pending)                               postcondition.3, send monitor
 *                           Status = Work                                                      postcondition.1
 * h_worker_is_finished/_is_working   compare with the wrong tag                                postcondition.1
 * h_worker_ctor             Status(Work) ; current_job_(0) ; irecv(id, ...)                    postcondition.1 (/.2)
 * h_master_ctor             wait_statuses(Ntasks) [seeded]                                     init3.postcondition.3/.4, fill_stack_.precondition.1 (Master_wf at the call)
 *                           workers_finish(Nprocs,true); Comm(comm) dropped; Nprocs(task_numbers.size())   init3.postcondition.4 / .1 / .2 (+ fill_stack_ pre-conditions)
 * h_master_ctor_ntasks      Comm(comm) dropped [seeded]                                        init3n.postcondition.2/.3 (Comm.id == comm.id)
 *                           swap of wait_statuses / of Nprocs dropped                          init3n.postcondition.3 / .2
 * h_master_ctor_tasks       Comm(comm) dropped                                                 init3v.postcondition.2/.3
 * h_autorange_workers       rank() == p ; Nprocs(comm.size())                                  loop_invariant_step.1/.2 ; postcondition.1
 * h_autorange_tasks         out[i] = 0                                                         loop_invariant_step.2
 * h_worker_ctor             member current_job_ declared after req (seeded C16-2): `current_job_ = -1` runs after the irecv
 *                                                                                              init2.postcondition.1 (Worker_wf: eager => current_job_ == msg), .2 (current_job_ == (eager ? msg : -1))
 * h_run_disseminate_worker  job_map[workers[i]] = jobs[i]                                      loop_invariant_step.3
 *                           loop from i=1                                                      postcondition.1, loop_invariant_base.2
 *                           i < parts.size()                                                   postcondition.1, IntVec_at bounds, loop_invariant_step.1
 * h_run_disseminate_root    workers[i] = it->first                                             loop_invariant_step.3
 *                           ++it dropped                                                       loop_invariant_step.1
 *                           i <= workers.size()                                                MapIt_arrow/MapIt_inc/IntVec_at asserts, loop_invariant_step.1
 *                           workers(job_map.size()+1)                                          loop_invariant_base.2, iterator asserts
 */
