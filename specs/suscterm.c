/* SusceptibilityPart::Term: the three function objects TermList<Term>::add_term is built from (C14, mechanism
 * "term reduction: like poles merged, residues below tolerance dropped").  Mirrors specs/termlist.c (GreensFunctionPart::Term);
 * the add_term template itself is proved there for the single-particle instantiation (same template text).
 *
 * Documentation used (include/pomerol/SusceptibilityPart.h, TermList.h):
 *   Term            : "Every term is a fraction R/(z - P)" -- adding two fractions with the same P adds the residues.
 *   Term::operator+= : "This operator add a term to this one. It does not check the similarity of the terms!"
 *   Compare         : "Comparator object for terms";  IsNegligible : "Does term have a negligible residue?"
 */
#include "../stubs/common.h"
#include "../stubs/cplx.h"
//@include types_common.inc
//@record Pomerol::SusceptibilityPart::Term => SPTerm val
//@record Pomerol::SusceptibilityPart::Term::Compare => SPTermCompare val
//@record Pomerol::SusceptibilityPart::Term::IsNegligible => SPTermIsNegligible val
//@free abs(cplx) => c_abs
//@tu src/pomerol/SusceptibilityPart.cpp
typedef struct SPTerm SPTerm;
typedef struct SPTermCompare SPTermCompare;
typedef struct SPTermIsNegligible SPTermIsNegligible;
//@struct Pomerol::SusceptibilityPart::Term
//@struct Pomerol::SusceptibilityPart::Term::Compare
//@struct Pomerol::SusceptibilityPart::Term::IsNegligible
#define TERM_SAME(a, b) (C_SAME((a).Residue, (b).Residue) && D_SAME((a).Pole, (b).Pole))

/* =========================================================== Term::Compare::operator() and the equivalence it induces
 * (bit-precise floats) for finite poles and a tolerance that is not NaN:
 *   like(a,b) = !c(a,b) && !c(b,a)  <==>  b.Pole - a.Pole < Tolerance and a.Pole - b.Pole < Tolerance   ("like poles")
 *   c(a,b) and Tolerance > 0  ==>  a.Pole < b.Pole                                                  (terms are ordered by pole) */
//@function Pomerol::SusceptibilityPart::Term::Compare::operator()(Pomerol::SusceptibilityPart::Term const&, Pomerol::SusceptibilityPart::Term const&) const as SPTermCompare_call
//@contract
__CPROVER_requires(__CPROVER_is_fresh(self, sizeof(*self)))
__CPROVER_assigns()
#ifdef VERIF_FP_IEEE
__CPROVER_requires(d_finite(t1.Pole) && d_finite(t2.Pole) && self->Tolerance == self->Tolerance)
__CPROVER_ensures((__CPROVER_return_value && self->Tolerance > 0.0) ==> t1.Pole < t2.Pole)
__CPROVER_ensures((!__CPROVER_return_value && self->Tolerance > 0.0) ==> t2.Pole - t1.Pole < self->Tolerance)
#endif
//@end
_Bool sp_term_like(SPTermCompare c, SPTerm a, SPTerm b)
__CPROVER_assigns()
#ifdef VERIF_FP_IEEE
__CPROVER_requires(d_finite(a.Pole) && d_finite(b.Pole) && c.Tolerance == c.Tolerance)
__CPROVER_ensures(__CPROVER_return_value == (b.Pole - a.Pole < c.Tolerance && a.Pole - b.Pole < c.Tolerance))
#endif
{
  return !SPTermCompare_call(&c, a, b) && !SPTermCompare_call(&c, b, a);
}
//@harness h_SPCompare_order enforce=SPTermCompare_call props=C14 defs=-DVERIF_FP_IEEE min_obl=52 reach=1 timeout=300
void h_SPCompare_order(void)
{
  SPTermCompare *c; SPTerm a, b;
  SPTermCompare_call(c, a, b);
  REACH("exit");
}
//@harness h_SPCompare_like enforce=sp_term_like props=C14 defs=-DVERIF_FP_IEEE min_obl=19 reach=1 timeout=900
void h_SPCompare_like(void)
{
  SPTermCompare c; SPTerm a, b;
  sp_term_like(c, a, b);
  REACH("exit");
}

/* =========================================================== Term::IsNegligible::operator():  |Residue| < Tolerance / divisor */
static _Bool sp_spec_negligible(SPTerm t, double tol, unsigned long divisor) { return D_LT(c_abs(t.Residue), D_DIV(tol, (double)divisor)); }
//@function Pomerol::SusceptibilityPart::Term::IsNegligible::operator()(Pomerol::SusceptibilityPart::Term const&, unsigned long) const as SPTermIsNegligible_call
//@contract
__CPROVER_requires(__CPROVER_is_fresh(self, sizeof(*self)))
__CPROVER_assigns()
__CPROVER_ensures(__CPROVER_return_value == sp_spec_negligible(t, self->Tolerance, ToleranceDivisor))
//@end
//@harness h_SPIsNegligible enforce=SPTermIsNegligible_call props=C14 min_obl=33 reach=1 timeout=120
void h_SPIsNegligible(void)
{
  SPTermIsNegligible *p; SPTerm t; unsigned long n;
  SPTermIsNegligible_call(p, t, n);
  REACH("exit");
}

/* =========================================================== Term::operator+= : residues add, the pole of *this is kept */
static SPTerm sp_spec_sum(SPTerm stored, SPTerm t) { SPTerm r; r.Residue = op_add_cplx_cplx(stored.Residue, t.Residue); r.Pole = stored.Pole; return r; }
//@function Pomerol::SusceptibilityPart::Term::operator+=(Pomerol::SusceptibilityPart::Term const&) as SPTerm_addassign
//@contract
__CPROVER_requires(__CPROVER_is_fresh(self, sizeof(*self)))
__CPROVER_assigns(self->Residue)
__CPROVER_ensures(__CPROVER_return_value == self)
__CPROVER_ensures(TERM_SAME(*self, sp_spec_sum(__CPROVER_old(*self), AnotherTerm)))
//@end
//@harness h_SPTerm_addassign enforce=SPTerm_addassign props=C14 min_obl=78 reach=1 timeout=120
void h_SPTerm_addassign(void)
{
  SPTerm *t; SPTerm u;
  SPTerm_addassign(t, u);
  REACH("exit");
}
