/* Normal ordering and products of operator polynomials (C05) -- BOUNDED stand-in: every run is about CONCRETE operator strings.
 *   Operator::normalize_and_insert(monomial, coeff, target)   recursive bubble sort with sign flips, contractions, vanishing of repeated factors
 *   Operator::erase_zero_monomial                              (inlined)
 *   Operator::operator*=(Operator const&)                      product = normal form of every concatenation, collected in a new map
 *   Operator::operator+=(Operator const&), operator-=(Operator const&), getCommutator, getAntiCommutator   (as used by the commutator instances)
 * No contracts: the extracted functions are executed by plain CBMC (enforce=none loops=0) on concrete operator strings; all loops and the
 * recursion are unwound with unwinding assertions (complete for the given strings); the coefficient(s), the ket and the bra are symbolic.
 * monomial_t and monomials_map_t are REAL small arrays here (contents matter), not the ghost-key view of specs/operator.c; exceeding a
 * capacity fails a "MODEL BOUND" assertion.
 *
 * WHAT IS PROVED, per operator string S (see check_string / algebra_case for the exact obligations):
 *   for every non-zero integer coefficient c, |c| <= 2^20, every ket and every bra of the 3-mode Fock space:
 *   c*<bra|S|ket> == sum over the monomials inserted by normalize_and_insert(S, c, {}) of coeff_k*<bra|monomial_k|ket>   (Jordan-Wigner spec function
 *   of specs/operator.c), every inserted monomial is strictly increasing in pomerol's composite-index order, no stored coefficient is < 100 eps;
 *   the same for A*B, [A,B], {A,B} against PRODUCTS of the Jordan-Wigner matrices of A and B, the canonical anticommutation relations as
 *   polynomial identities, and (A*B)*C == A*(B*C) on selected triples.
 * WHICH strings: see tools/gen_normalorder.py (it writes the //@harness lines between the two GENERATED markers; do not edit them by hand):
 *   quick: every string of length <= 3 over 2 modes (85), 24 selected strings of length 4; products of all pairs of strings of length <= 1 over 2
 *          modes + selected longer and two-term operands; commutator/anticommutator of all pairs of single factors over 2 modes; 8 associativity triples;
 *   thorough: EVERY string of length <= 4 over 3 modes (1555, in batches of <= 36), EVERY string of length 5 over 2 modes (1024), 10 selected strings of
 *          length 5/6 over 3 modes; products S1*S2 for all S1, S2 of length <= 2 over 2 modes (441); commutators of all 36 pairs of single factors over 3 modes.
 * NOT covered: strings longer than the bound, more than 3 modes, non-integer coefficients (rounding of sums), A *= A / A += A (aliasing),
 * the iteration ORDER of std::map (the model iterates in insertion order), Operator::commutes / operator== on products (ordered comparison).
 */
#include "../stubs/common.h"
#include "../stubs/bitset.h"
#include "../stubs/cplx.h"   /* d_abs */
//@include types_common.inc
//@type (Pomerol::)?(Operator::)?op_type => int scalar
//@type (Pomerol::)?Operator::composite_index_t|boost::tuples::tuple<Pomerol::Operator::op_type, unsigned int(, boost::tuples::null_type)*>|(const )?(boost::tuples::)?cons<Pomerol::Operator::op_type, (boost::tuples::)?cons<unsigned int, (boost::tuples::)?null_type> ?> => CompIdx val
//@type ((Pomerol::)?Operator::)?monomial_t::(const_)?iterator|__gnu_cxx::__normal_iterator<(const )?boost::tuples::tuple<Pomerol::Operator::op_type, unsigned int.*> => MonIt val
//@type std::back_insert_iterator<std::vector<boost::tuples::tuple<Pomerol::Operator::op_type, unsigned int.*> => BackIns val
//@type (Pomerol::)?Operator::monomial_t|std::vector<boost::tuples::tuple<Pomerol::Operator::op_type, unsigned int.*> => Monomial ptr
//@type ((Pomerol::)?Operator::)?monomials_map_t::(const_)?iterator|((Pomerol::)?Operator::)?const_iterator|std::_Rb_tree_(const_)?iterator<std::pair<const std::vector<boost::tuples::tuple<Pomerol::Operator::op_type.*> => MonoIt val
//@type (const )?((Pomerol::)?Operator::)?monomials_map_t::value_type|std::pair<const std::vector<boost::tuples::tuple<Pomerol::Operator::op_type, unsigned int.*>, double> => MonoEntry ptr
//@type boost::tuples::tuple<std::_Rb_tree_iterator<std::pair<const std::vector<boost::tuples::tuple<Pomerol::Operator::op_type, unsigned int>>, double>> ?&, bool ?&.*> => TieIB val
//@type std::pair<std::_Rb_tree_iterator<std::pair<const std::vector<boost::tuples::tuple<Pomerol::Operator::op_type, unsigned int.*>, double>>, bool> => InsRes val
//@type ((Pomerol::)?Operator::)?monomials_map_t|std::map<std::vector<boost::tuples::tuple<Pomerol::Operator::op_type, unsigned int.*>, double.*> => MonoMap ptr
//@free make_pair(Monomial,double) => make_pair_md
//@free tie(MonoIt,Bool) => tie_ib
//@free erase_zero_monomial => Operator_erase_zero_monomial
//@free normalize_and_insert => Operator_normalize_and_insert
//@free abs(double) => d_abs
//@free get => tuple_get0
//@free copy(MonIt,MonIt,BackIns) => copy_factors
//@free swap(CompIdx,CompIdx) => swap_factors
//@free swap(MonoMap,MonoMap) => swap_maps
//@tu src/pomerol/Operator.cpp
/* Operator.h line 64: enum op_type {creation, annihilation};  (Lattice::Term has an op_type of its own with the opposite order) */
//@enum Operator::op_type

/* ---- composite_index_t = boost::tuple<op_type, ParticleIndex>;  monomial_t = std::vector<composite_index_t>: a REAL (small) array model */
typedef struct CompIdx { int type; unsigned int index; } CompIdx;
#ifndef MONO_CAP
#define MONO_CAP 6UL          /* capacity of the vector model; push_back beyond it FAILS an assertion (never silently truncated) */
#endif
typedef struct Monomial { unsigned long size; CompIdx e[MONO_CAP]; } Monomial;
typedef struct MonIt { Monomial *m; unsigned long pos; } MonIt;       /* monomial_t::iterator */
typedef struct BackIns { Monomial *m; } BackIns;                      /* std::back_insert_iterator<monomial_t> */
static inline unsigned long Monomial_size(Monomial *m) { return m->size; }
static inline CompIdx *Monomial_at(Monomial *m, unsigned long i)
{
  __CPROVER_assert(i < m->size, "vector<composite_index_t>::operator[]: index < size()");
  return &m->e[i];
}
static inline Monomial Monomial_ctor0(void) { Monomial r; r.size = 0; return r; }
static inline void Monomial_reserve(Monomial *m, unsigned long n)
{ (void)m; __CPROVER_assert(n <= MONO_CAP, "vector::reserve(n): n <= max_size() (a wrapped-around size_t would throw length_error)"); }
#define Monomial_begin(m_) ((MonIt){ (m_), 0UL })
#define Monomial_end(m_) ((MonIt){ (m_), (m_)->size })
#define MonIt_add(it_, k_) ((MonIt){ (it_)->m, (it_)->pos + (unsigned long)(k_) })
#define MonIt_sub(it_, k_) ((MonIt){ (it_)->m, (it_)->pos - (unsigned long)(k_) })
#define back_inserter(m_) ((BackIns){ (m_) })
/* std::copy(first, last, back_inserter(v)): ASSERTED: [first,last) is a valid range of one vector; appends the elements in order */
static inline BackIns copy_factors(MonIt first, MonIt last, BackIns out)
{
  __CPROVER_assert(first.m == last.m && first.pos <= last.pos && last.pos <= first.m->size, "std::copy: [first,last) is a valid range");
  for (unsigned long k = first.pos; k < last.pos; k++) {
    __CPROVER_assert(out.m->size < MONO_CAP, "MODEL BOUND: monomial longer than MONO_CAP");
    out.m->e[out.m->size] = first.m->e[k]; out.m->size++;
  }
  return out;
}
static inline void swap_factors(CompIdx *a, CompIdx *b) { CompIdx t = *a; *a = *b; *b = t; }
/* boost::get<create_annihilate>(t), create_annihilate == 0 (Operator.h line 65) -- the only boost::get used in the extracted code */
#define tuple_get0(t_) (&(t_)->type)
/* Boost.Tuple, tuple_comparison.hpp: ASSUMED (documented): == is element-wise, <, > "implement a lexicographical ordering" */
static inline _Bool op_eq_CompIdx_CompIdx(CompIdx a, CompIdx b) { return a.type == b.type && a.index == b.index; }
static inline _Bool op_lt_CompIdx_CompIdx(CompIdx a, CompIdx b) { return a.type < b.type || (!(b.type < a.type) && a.index < b.index); }
static inline _Bool op_gt_CompIdx_CompIdx(CompIdx a, CompIdx b) { return op_lt_CompIdx_CompIdx(b, a); }

/* ---- monomials_map_t = std::map<monomial_t, MelemType>: a REAL (small) associative array in INSERTION order.
 * ASSUMED (std::map): keys are unique; insert(value) does not overwrite and returns (position of the key, inserted?);
 * two keys are equivalent iff neither is less than the other = iff they have the same factors (the comparator -- pomerol's
 * size-first operator< or std::lexicographical_compare -- is a strict total order on factor sequences).
 * The key ORDER of the iteration is not modelled (normalize_and_insert does not iterate; see MonoMap_begin below). */
#ifndef MAP_CAP
#define MAP_CAP 8UL
#endif
#define epsilon() 2.220446049250313e-16      /* std::numeric_limits<double>::epsilon() */
typedef struct MonoEntry { Monomial first; double second; } MonoEntry;
typedef struct MonoMap { unsigned long size; MonoEntry ent[MAP_CAP]; } MonoMap;
typedef struct MonoIt { MonoMap *m; unsigned long pos; } MonoIt;
typedef struct InsRes { MonoIt first; _Bool second; } InsRes;      /* std::pair<iterator, bool> */
typedef struct TieIB { int unused; } TieIB;
#define MonoIt_ctor0() ((MonoIt){ (MonoMap *)0, 0UL })
/* std::make_pair(monomial, coefficient): the coefficient arrives by value (rvalue) or by address (lvalue bound to a forwarding reference) */
static inline double md_val_d(double v) { return v; }
static inline double md_val_p(double *v) { return *v; }
#define make_pair_md(k_, v_) (&(MonoEntry){ *(k_), _Generic((v_), double: md_val_d, double *: md_val_p)(v_) })
#define tie_ib(a_, b_) _tie_tmp, *(a_) = _s->first, *(b_) = _s->second
#define TieIB_assign(t, src) ({ InsRes *_s = (src); TieIB _tie_tmp; (void)(t); })
static inline _Bool Monomial_same(const Monomial *a, const Monomial *b)
{
  if (a->size != b->size) return 0;
  for (unsigned long k = 0; k < MONO_CAP; k++) if (k < a->size && !op_eq_CompIdx_CompIdx(a->e[k], b->e[k])) return 0;
  return 1;
}
static inline InsRes MonoMap_insert_fn(MonoMap *m, MonoEntry *e)
{
  InsRes r; r.first.m = m;
  for (unsigned long k = 0; k < MAP_CAP; k++)
    if (k < m->size && Monomial_same(&m->ent[k].first, &e->first)) { r.first.pos = k; r.second = 0; REACH("insert-existing"); return r; }
  __CPROVER_assert(m->size < MAP_CAP, "MODEL BOUND: more than MAP_CAP monomials");
  m->ent[m->size] = *e; r.first.pos = m->size; m->size++; r.second = 1;
  return r;
}
#define MonoMap_insert(m_, e_) (((InsRes[1]){ MonoMap_insert_fn((m_), (e_)) })[0])
static inline MonoEntry *MonoIt_arrow(MonoIt *it)
{
  __CPROVER_assert(it->m != (MonoMap *)0 && it->pos < it->m->size, "map iterator dereferenced: points to an entry");
  return &it->m->ent[it->pos];
}
static inline void MonoMap_erase(MonoMap *m, MonoIt it)
{
  __CPROVER_assert(it.m == m && it.pos < m->size, "map::erase(iterator): a valid iterator of this map");
  m->size--; m->ent[it.pos] = m->ent[m->size];
  REACH("erase");
}

/* iteration (BOOST_FOREACH) in the order of the array model.  std::map iterates in key order; the order in which operator*=, += and -=
 * visit the monomials only permutes the additions into the result map, which are exact for the integer coefficients used here. */
#define MonoMap_ctor0() ((MonoMap){ 0UL })
#define MonoMap_begin(m_) ((MonoIt){ (m_), 0UL })
#define MonoMap_foreach_more(m_, it_) ((it_)->pos < (m_)->size)
#define MonoIt_inc(it_) ((it_)->pos++)
static inline MonoEntry *MonoIt_mul(MonoIt *it)
{
  __CPROVER_assert(it->pos < it->m->size, "map iterator dereferenced before end()");
  return &it->m->ent[it->pos];
}
static inline void swap_maps(MonoMap *a, MonoMap *b) { MonoMap t = *a; *a = *b; *b = t; }      /* std::swap(map, map) */

/* twins for the other spelling of an increment (`++it` for `it++` and vice versa): same effect.  X_inc yields the iterator after the step
 * (exact); X_postinc made from X_inc is void, so a use of its value does not compile (UNDECIDED) instead of being modelled wrongly */
#define MonoIt_postinc(it_) ((void)MonoIt_inc(it_))
//@function Pomerol::Operator::erase_zero_monomial(std::map<std::vector<boost::tuples::tuple<Pomerol::Operator::op_type, unsigned int, boost::tuples::null_type, boost::tuples::null_type, boost::tuples::null_type, boost::tuples::null_type, boost::tuples::null_type, boost::tuples::null_type, boost::tuples::null_type, boost::tuples::null_type>, std::allocator<boost::tuples::tuple<Pomerol::Operator::op_type, unsigned int, boost::tuples::null_type, boost::tuples::null_type, boost::tuples::null_type, boost::tuples::null_type, boost::tuples::null_type, boost::tuples::null_type, boost::tuples::null_type, boost::tuples::null_type> > >, double, std::less<std::vector<boost::tuples::tuple<Pomerol::Operator::op_type, unsigned int, boost::tuples::null_type, boost::tuples::null_type, boost::tuples::null_type, boost::tuples::null_type, boost::tuples::null_type, boost::tuples::null_type, boost::tuples::null_type, boost::tuples::null_type>, std::allocator<boost::tuples::tuple<Pomerol::Operator::op_type, unsigned int, boost::tuples::null_type, boost::tuples::null_type, boost::tuples::null_type, boost::tuples::null_type, boost::tuples::null_type, boost::tuples::null_type, boost::tuples::null_type, boost::tuples::null_type> > > >, std::allocator<std::pair<std::vector<boost::tuples::tuple<Pomerol::Operator::op_type, unsigned int, boost::tuples::null_type, boost::tuples::null_type, boost::tuples::null_type, boost::tuples::null_type, boost::tuples::null_type, boost::tuples::null_type, boost::tuples::null_type, boost::tuples::null_type>, std::allocator<boost::tuples::tuple<Pomerol::Operator::op_type, unsigned int, boost::tuples::null_type, boost::tuples::null_type, boost::tuples::null_type, boost::tuples::null_type, boost::tuples::null_type, boost::tuples::null_type, boost::tuples::null_type, boost::tuples::null_type> > > const, double> > >&, std::_Rb_tree_iterator<std::pair<std::vector<boost::tuples::tuple<Pomerol::Operator::op_type, unsigned int, boost::tuples::null_type, boost::tuples::null_type, boost::tuples::null_type, boost::tuples::null_type, boost::tuples::null_type, boost::tuples::null_type, boost::tuples::null_type, boost::tuples::null_type>, std::allocator<boost::tuples::tuple<Pomerol::Operator::op_type, unsigned int, boost::tuples::null_type, boost::tuples::null_type, boost::tuples::null_type, boost::tuples::null_type, boost::tuples::null_type, boost::tuples::null_type, boost::tuples::null_type, boost::tuples::null_type> > > const, double> >&) as Operator_erase_zero_monomial
//@end
//@function Pomerol::Operator::normalize_and_insert(std::vector<boost::tuples::tuple<Pomerol::Operator::op_type, unsigned int, boost::tuples::null_type, boost::tuples::null_type, boost::tuples::null_type, boost::tuples::null_type, boost::tuples::null_type, boost::tuples::null_type, boost::tuples::null_type, boost::tuples::null_type>, std::allocator<boost::tuples::tuple<Pomerol::Operator::op_type, unsigned int, boost::tuples::null_type, boost::tuples::null_type, boost::tuples::null_type, boost::tuples::null_type, boost::tuples::null_type, boost::tuples::null_type, boost::tuples::null_type, boost::tuples::null_type> > >&, double, std::map<std::vector<boost::tuples::tuple<Pomerol::Operator::op_type, unsigned int, boost::tuples::null_type, boost::tuples::null_type, boost::tuples::null_type, boost::tuples::null_type, boost::tuples::null_type, boost::tuples::null_type, boost::tuples::null_type, boost::tuples::null_type>, std::allocator<boost::tuples::tuple<Pomerol::Operator::op_type, unsigned int, boost::tuples::null_type, boost::tuples::null_type, boost::tuples::null_type, boost::tuples::null_type, boost::tuples::null_type, boost::tuples::null_type, boost::tuples::null_type, boost::tuples::null_type> > >, double, std::less<std::vector<boost::tuples::tuple<Pomerol::Operator::op_type, unsigned int, boost::tuples::null_type, boost::tuples::null_type, boost::tuples::null_type, boost::tuples::null_type, boost::tuples::null_type, boost::tuples::null_type, boost::tuples::null_type, boost::tuples::null_type>, std::allocator<boost::tuples::tuple<Pomerol::Operator::op_type, unsigned int, boost::tuples::null_type, boost::tuples::null_type, boost::tuples::null_type, boost::tuples::null_type, boost::tuples::null_type, boost::tuples::null_type, boost::tuples::null_type, boost::tuples::null_type> > > >, std::allocator<std::pair<std::vector<boost::tuples::tuple<Pomerol::Operator::op_type, unsigned int, boost::tuples::null_type, boost::tuples::null_type, boost::tuples::null_type, boost::tuples::null_type, boost::tuples::null_type, boost::tuples::null_type, boost::tuples::null_type, boost::tuples::null_type>, std::allocator<boost::tuples::tuple<Pomerol::Operator::op_type, unsigned int, boost::tuples::null_type, boost::tuples::null_type, boost::tuples::null_type, boost::tuples::null_type, boost::tuples::null_type, boost::tuples::null_type, boost::tuples::null_type, boost::tuples::null_type> > > const, double> > >&) as Operator_normalize_and_insert
//@end

//@struct Pomerol::Operator
//@function Pomerol::Operator::operator*=(Pomerol::Operator const&) as Operator_mulassign
//@end

//@function Pomerol::Operator::operator+=(Pomerol::Operator const&) as Operator_addassign
//@end
//@function Pomerol::Operator::operator-=(Pomerol::Operator const&) as Operator_subassign
//@end
/* Boost.Operators, multipliable/addable/subtractable<Operator>: ASSUMED (documented):  T operator*(const T& l, const T& r) { T nrv(l); nrv *= r; return nrv; }
 * and likewise + / - from += / -= ; Operator's copy constructor copies the map (Operator.h line 52). */
static inline struct Operator op_mul_fn(struct Operator *l, struct Operator *r) { struct Operator t = *l; Operator_mulassign(&t, r); return t; }
static inline struct Operator op_add_fn(struct Operator *l, struct Operator *r) { struct Operator t = *l; Operator_addassign(&t, r); return t; }
static inline struct Operator op_sub_fn(struct Operator *l, struct Operator *r) { struct Operator t = *l; Operator_subassign(&t, r); return t; }
#define op_mul_Operator_Operator(l_, r_) (((struct Operator[1]){ op_mul_fn((l_), (r_)) })[0])
#define op_add_Operator_Operator(l_, r_) (((struct Operator[1]){ op_add_fn((l_), (r_)) })[0])
#define op_sub_Operator_Operator(l_, r_) (((struct Operator[1]){ op_sub_fn((l_), (r_)) })[0])
//@function Pomerol::Operator::getAntiCommutator(Pomerol::Operator const&) const as Operator_getAntiCommutator
//@end
//@function Pomerol::Operator::getCommutator(Pomerol::Operator const&) const as Operator_getCommutator
//@end

/* ---- SPEC (property statement C05, textbook Jordan-Wigner; the same spec function as in specs/operator.c, where the extracted
 * Operator::actRight is proved equal to it): a monomial acts factor by factor, right to left; a factor on mode k annihilates the
 * state if the occupation forbids it; otherwise the amplitude is multiplied by (-1)^(number of occupied modes below k), bit k flips. */
typedef struct JW { unsigned long w; int sign; _Bool dead; } JW;
static inline JW jw_apply(JW s, CompIdx f)
{
  if (s.dead) return s;
  unsigned long k = f.index;
  _Bool occ = (s.w >> k) & 1UL;
  if ((f.type == creation && occ) || (f.type == annihilation && !occ)) { s.dead = 1; return s; }
  if (__builtin_popcountl(s.w & ((1UL << k) - 1UL)) & 1) s.sign = -s.sign;
  s.w ^= (1UL << k);
  return s;
}
/* <bra| monomial |ket>  in {-1, 0, +1} */
static inline int jw_melem(const Monomial *m, unsigned long bra, unsigned long ket)
{
  JW s; s.w = ket; s.sign = 1; s.dead = 0;
  for (long k = (long)MONO_CAP - 1; k >= 0; k--) if ((unsigned long)k < m->size) s = jw_apply(s, m->e[k]);
  return (s.dead || s.w != bra) ? 0 : s.sign;
}
/* x * s for s in {-1, 0, +1}, without a floating-point multiplier */
static inline double times_sign(double x, int s) { return s == 0 ? 0.0 : (s > 0 ? x : -x); }
/* pomerol's order of composite indices (Operator.h: composite_index_t = tuple<op_type, ParticleIndex> "is LessThanComparable",
 * op_type {creation, annihilation}): creation operators before annihilation operators, ascending mode index within each kind.
 * NORMAL ORDERED = the factors are STRICTLY increasing in this order (in particular: all c^+ to the left of all c). */
static inline _Bool factor_before(CompIdx a, CompIdx b)
{ return (a.type == creation && b.type == annihilation) || (a.type == b.type && a.index < b.index); }

/* ---- the operator string of a run: STR_LEN hexadecimal digits of STR_CODE, leftmost factor = most significant digit;
 * digit d: bit 3 set = creation operator, low 3 bits = mode.   0x819 = c^+_0 c_1 c^+_1 */
#ifndef NMODES
#define NMODES 3              /* size of the Fock space the identity is checked on (>= every mode of the string: asserted) */
#endif
#define CMAX 1048576          /* |coefficient| <= 2^20 */
static inline void decode_string(Monomial *m, unsigned long len, unsigned long code)
{
  __CPROVER_assert(len <= MONO_CAP, "harness: string fits the monomial model");
  m->size = len;
  for (unsigned long k = 0; k < MONO_CAP; k++) if (k < len) {
    unsigned long d = (code >> (4 * (len - 1 - k))) & 0xFUL;
    m->e[k].type = (d & 8UL) ? creation : annihilation; m->e[k].index = (unsigned int)(d & 7UL);
    __CPROVER_assert(m->e[k].index < NMODES, "harness: modes of the string < NMODES");
  }
}
/* OBLIGATIONS for one string S (coefficient c an arbitrary non-zero integer, |c| <= 2^20, so that every sum of +-c is exact):
 *   (1) every monomial stored by normalize_and_insert(S, c, empty map) is normal ordered;
 *   (2) no stored coefficient is below 100 eps (class invariant behind erase_zero_monomial);
 *   (3) for EVERY ket and bra of the NMODES-mode Fock space:  c * <bra|S|ket>  ==  sum_k coeff_k * <bra|monomial_k|ket>. */
/* (1), (2) and the right-hand side of (3) for a polynomial */
static inline double check_polynomial(const MonoMap *p, unsigned long bra, unsigned long ket)
{
  double rhs = 0.0;
  for (unsigned long k = 0; k < MAP_CAP; k++) if (k < p->size) {
    const Monomial *mk = &p->ent[k].first;
    for (unsigned long j = 1; j < MONO_CAP; j++) if (j < mk->size)
      __CPROVER_assert(factor_before(mk->e[j - 1], mk->e[j]), "C05: every inserted monomial is normal ordered (creation first, ascending modes)");
    __CPROVER_assert(!(d_abs(p->ent[k].second) < 100 * epsilon()), "C05: no stored coefficient is below 100 eps");
    rhs = rhs + times_sign(p->ent[k].second, jw_melem(mk, bra, ket));
    REACH("monomial");
  }
  return rhs;
}
static inline void check_string(unsigned long len, unsigned long code, double c, unsigned long bra, unsigned long ket)
{
  Monomial in, work; MonoMap target; target.size = 0;
  decode_string(&in, len, code); work = in;
  Operator_normalize_and_insert(&work, c, &target);
  double rhs = check_polynomial(&target, bra, ket);
  double lhs = times_sign(c, jw_melem(&in, bra, ket));
  __CPROVER_assert(lhs == rhs, "C05: c*<bra|S|ket> == sum_k coeff_k*<bra|monomial_k|ket> (Jordan-Wigner)");
}
/* ---- one run = the strings  P L1..Lk : P = the STR_LEN-STR_SUFFIX leading factors given by STR_CODE, followed by EVERY choice of STR_SUFFIX
 * trailing factors over the alphabet {c^+_i, c_i : i < STR_MODES}  (STR_SUFFIX == 0: the single string STR_CODE).  The coefficient, the
 * ket and the bra are symbolic (the same arbitrary values for all strings of a run). */
#ifndef STR_LEN
#define STR_LEN 0
#endif
#ifndef STR_CODE
#define STR_CODE 0
#endif
#ifndef STR_SUFFIX
#define STR_SUFFIX 0
#endif
#ifndef STR_MODES
#define STR_MODES 2
#endif
#define LETTER(i_) ((i_) < STR_MODES ? (8UL | (i_)) : ((i_) - STR_MODES))
static inline void run_strings(void)
{
  unsigned long ket = nondet_ulong(), bra = nondet_ulong();
  if (ket >= (1UL << NMODES) || bra >= (1UL << NMODES)) return;
  int ci = nondet_int();
  if (ci == 0 || ci < -CMAX || ci > CMAX) return;      /* input domain of the run: non-zero integers up to 2^20 (no __CPROVER_assume) */
  double c = (double)ci;
#if STR_SUFFIX == 0
  check_string(STR_LEN, STR_CODE, c, bra, ket);
#elif STR_SUFFIX == 1
  for (unsigned long a = 0; a < 2 * STR_MODES; a++) check_string(STR_LEN, ((unsigned long)STR_CODE << 4) | LETTER(a), c, bra, ket);
#else
  for (unsigned long a = 0; a < 2 * STR_MODES; a++)
    for (unsigned long b = 0; b < 2 * STR_MODES; b++) check_string(STR_LEN, ((unsigned long)STR_CODE << 8) | (LETTER(a) << 4) | LETTER(b), c, bra, ket);
#endif
  REACH("exit");
}
/* ---- operator*=(Operator const&), getCommutator, getAntiCommutator on  A = a*S1 [+ a*S1B],  B = b*S2 [+ b*S2B]
 * (a in {2,-7}, b in {-3,-1,2,5}, chosen nondeterministically: every coefficient that occurs is an exactly represented integer; a
 *  symbolic product of two arbitrary doubles is beyond the bit-precise floating-point back end -- measured 10-36 s per pair instead of 3 s):
 *   (1), (2) for the resulting polynomial, and for EVERY ket and bra of the NMODES-mode Fock space
 *   (3')  (A*B)_{bra,ket}  ==  sum_mid A_{bra,mid} B_{mid,ket}         -- the Jordan-Wigner matrix of the product is the PRODUCT of the matrices
 *   (3'') [A,B]_{bra,ket} == (AB - BA)_{bra,ket},  {A,B}_{bra,ket} == (AB + BA)_{bra,ket}
 *   the operands are unchanged;  for two single factors x, y additionally the canonical anticommutation relations as polynomial identities:
 *   {a*x, b*y} == a*b * delta  with delta = 1 iff x, y are c_i and c^+_i (in either order), i.e. the constant polynomial a*b or the empty polynomial. */
#ifndef STRB_LEN
#define STRB_LEN (-1)         /* -1: A has one monomial */
#define STRB_CODE 0
#endif
#ifndef STR2_LEN
#define STR2_LEN 0
#endif
#ifndef STR2_CODE
#define STR2_CODE 0
#endif
#ifndef STR2B_LEN
#define STR2B_LEN (-1)
#define STR2B_CODE 0
#endif
#ifndef STR3_LEN
#define STR3_LEN 0
#define STR3_CODE 0
#endif
#ifndef STR2_SUFFIX
#define STR2_SUFFIX 0         /* > 0: S2 = STR2_CODE followed by EVERY choice of STR2_SUFFIX trailing factors over STR_MODES modes */
#endif
/* integer Jordan-Wigner matrix element of S1 [+ S1B] (coefficients stripped) */
static inline int melem_sum(const MonoMap *p, unsigned long bra, unsigned long ket)
{
  int r = 0;
  for (unsigned long k = 0; k < 2; k++) if (k < p->size) r += jw_melem(&p->ent[k].first, bra, ket);
  return r;
}
/* x * n for an integer |n| <= 4, by exact additions */
static inline double times_int(double x, int n)
{
  double x2 = x + x, x3 = x2 + x, x4 = x2 + x2;
  int m = n < 0 ? -n : n;
  double r = m == 0 ? 0.0 : m == 1 ? x : m == 2 ? x2 : m == 3 ? x3 : x4;
  return n < 0 ? -r : r;
}
static inline _Bool same_polynomial_terms(const MonoMap *p, const MonoMap *q)     /* same entries at the same positions (operands unchanged) */
{
  if (p->size != q->size) return 0;
  for (unsigned long k = 0; k < 2; k++) if (k < p->size && !(Monomial_same(&p->ent[k].first, &q->ent[k].first) && p->ent[k].second == q->ent[k].second)) return 0;
  return 1;
}
/* every entry of p occurs in q with the same coefficient, and both have the same number of entries (keys are unique: equality as sets) */
static inline _Bool same_polynomial(const MonoMap *p, const MonoMap *q)
{
  if (p->size != q->size) return 0;
  for (unsigned long k = 0; k < MAP_CAP; k++) if (k < p->size) {
    _Bool found = 0;
    for (unsigned long j = 0; j < MAP_CAP; j++)
      if (j < q->size && Monomial_same(&p->ent[k].first, &q->ent[j].first) && p->ent[k].second == q->ent[j].second) found = 1;
    if (!found) return 0;
  }
  return 1;
}
/* what == 0: operator*=     what == 1: getCommutator and getAntiCommutator     what == 2: associativity (A*B)*C == A*(B*C), C = 3*S3 */
static inline void algebra_case(int what, unsigned long len2, unsigned long code2, double a, double b, unsigned long bra, unsigned long ket)
{
  double ab = a * b;
  struct Operator A, B, A0, B0;
  A.monomials.size = 1; decode_string(&A.monomials.ent[0].first, STR_LEN, STR_CODE); A.monomials.ent[0].second = a;
  if (STRB_LEN >= 0) { A.monomials.size = 2; decode_string(&A.monomials.ent[1].first, STRB_LEN, STRB_CODE); A.monomials.ent[1].second = a; }
  B.monomials.size = 1; decode_string(&B.monomials.ent[0].first, len2, code2); B.monomials.ent[0].second = b;
  if (STR2B_LEN >= 0) { B.monomials.size = 2; decode_string(&B.monomials.ent[1].first, STR2B_LEN, STR2B_CODE); B.monomials.ent[1].second = b; }
  A0 = A; B0 = B;
  /* integer matrix elements of the products of the coefficient-free matrices */
  int AB = 0, BA = 0;
  for (unsigned long mid = 0; mid < (1UL << NMODES); mid++) {
    AB += melem_sum(&A0.monomials, bra, mid) * melem_sum(&B0.monomials, mid, ket);
    BA += melem_sum(&B0.monomials, bra, mid) * melem_sum(&A0.monomials, mid, ket);
  }
  __CPROVER_assert(-4 <= AB && AB <= 4 && -4 <= BA && BA <= 4, "harness: |matrix element of a product of two <=2-term polynomials| <= 4");
  if (what == 0) {
    struct Operator *r = Operator_mulassign(&A, &B);
    __CPROVER_assert(r == &A, "operator*= returns *this");
    __CPROVER_assert(same_polynomial_terms(&B.monomials, &B0.monomials), "C05: the right operand of *= is unchanged");
    double got = check_polynomial(&A.monomials, bra, ket);
    __CPROVER_assert(got == times_int(ab, AB), "C05: (A*B)_{bra,ket} == sum_mid A_{bra,mid} B_{mid,ket} (Jordan-Wigner matrices)");
  } else if (what == 2) {
    struct Operator C3, AB_, BC_, P, Q;
    C3.monomials.size = 1; decode_string(&C3.monomials.ent[0].first, STR3_LEN, STR3_CODE); C3.monomials.ent[0].second = 3.0;
    AB_ = A; Operator_mulassign(&AB_, &B); P = AB_; Operator_mulassign(&P, &C3);
    BC_ = B; Operator_mulassign(&BC_, &C3); Q = A; Operator_mulassign(&Q, &BC_);
    int ABC = 0;
    for (unsigned long m1 = 0; m1 < (1UL << NMODES); m1++) for (unsigned long m2 = 0; m2 < (1UL << NMODES); m2++)
      ABC += melem_sum(&A0.monomials, bra, m1) * melem_sum(&B0.monomials, m1, m2) * jw_melem(&C3.monomials.ent[0].first, m2, ket);
    __CPROVER_assert(-4 <= ABC && ABC <= 4, "harness: |matrix element of the triple product| <= 4");
    double gotP = check_polynomial(&P.monomials, bra, ket);
    __CPROVER_assert(gotP == times_int(ab * 3.0, ABC), "C05: ((A*B)*C)_{bra,ket} == (A B C)_{bra,ket} (Jordan-Wigner matrices)");
    double gotQ = check_polynomial(&Q.monomials, bra, ket);
    __CPROVER_assert(gotQ == gotP, "C05: (A*(B*C))_{bra,ket} == ((A*B)*C)_{bra,ket}");
    __CPROVER_assert(same_polynomial(&P.monomials, &Q.monomials), "C05: (A*B)*C == A*(B*C) as polynomials (same monomials, same coefficients)");
  } else {
    struct Operator C = Operator_getCommutator(&A, &B);
    struct Operator D = Operator_getAntiCommutator(&A, &B);
    __CPROVER_assert(same_polynomial_terms(&A.monomials, &A0.monomials) && same_polynomial_terms(&B.monomials, &B0.monomials), "C05: commutators leave their operands unchanged");
    double gotC = check_polynomial(&C.monomials, bra, ket);
    __CPROVER_assert(gotC == times_int(ab, AB - BA), "C05: [A,B]_{bra,ket} == (AB - BA)_{bra,ket} (Jordan-Wigner matrices)");
    double gotD = check_polynomial(&D.monomials, bra, ket);
    __CPROVER_assert(gotD == times_int(ab, AB + BA), "C05: {A,B}_{bra,ket} == (AB + BA)_{bra,ket} (Jordan-Wigner matrices)");
    if (STR_LEN == 1 && len2 == 1 && STRB_LEN < 0 && STR2B_LEN < 0) {
      CompIdx x = A0.monomials.ent[0].first.e[0], y = B0.monomials.ent[0].first.e[0];
      if (x.index == y.index && x.type != y.type) {
        __CPROVER_assert(D.monomials.size == 1 && D.monomials.ent[0].first.size == 0 && D.monomials.ent[0].second == ab, "C05: {c_i, c^+_i} == 1 (times the coefficients), as a polynomial");
        REACH("delta=1");
      } else {
        __CPROVER_assert(D.monomials.size == 0, "C05: {c_i, c_j} == {c^+_i, c^+_j} == 0 and {c_i, c^+_j} == 0 for i != j, as polynomials");
        REACH("delta=0");
      }
    }
  }
}
static inline void run_algebra(int what)
{
  unsigned long ket = nondet_ulong(), bra = nondet_ulong();
  if (ket >= (1UL << NMODES) || bra >= (1UL << NMODES)) return;
  int ai = nondet_int(), bi = nondet_int();
  double a = ai > 0 ? 2.0 : -7.0, b = bi > 500 ? 2.0 : bi > 0 ? 5.0 : bi > -500 ? -1.0 : -3.0;
#if STR2_SUFFIX == 0
  algebra_case(what, STR2_LEN, STR2_CODE, a, b, bra, ket);
#elif STR2_SUFFIX == 1
  for (unsigned long x = 0; x < 2 * STR_MODES; x++) algebra_case(what, STR2_LEN, ((unsigned long)STR2_CODE << 4) | LETTER(x), a, b, bra, ket);
#else
  for (unsigned long x = 0; x < 2 * STR_MODES; x++)
    for (unsigned long y = 0; y < 2 * STR_MODES; y++) algebra_case(what, STR2_LEN, ((unsigned long)STR2_CODE << 8) | (LETTER(x) << 4) | LETTER(y), a, b, bra, ket);
#endif
  REACH("exit");
}
//@GENERATED-BEGIN (tools/gen_normalorder.py)
//@harness h_no_L0 enforce=none loops=0 unwind=10 props=C05 defs=-DVERIF_FP_IEEE,-DSTR_LEN=0,-DSTR_CODE=0x0,-DMONO_CAP=2UL,-DMAP_CAP=4UL bounded=string=1;coefficient=nonzero_integer<=2^20;states=3_modes min_obl=616 reach=1 timeout=120
void h_no_L0(void) { run_strings(); }
//@harness h_no_L1_8 enforce=none loops=0 unwind=10 props=C05 defs=-DVERIF_FP_IEEE,-DSTR_LEN=1,-DSTR_CODE=0x8,-DMONO_CAP=2UL,-DMAP_CAP=4UL bounded=string=c+0;coefficient=nonzero_integer<=2^20;states=3_modes min_obl=616 reach=1 timeout=120
void h_no_L1_8(void) { run_strings(); }
//@harness h_no_L1_9 enforce=none loops=0 unwind=10 props=C05 defs=-DVERIF_FP_IEEE,-DSTR_LEN=1,-DSTR_CODE=0x9,-DMONO_CAP=2UL,-DMAP_CAP=4UL bounded=string=c+1;coefficient=nonzero_integer<=2^20;states=3_modes min_obl=616 reach=1 timeout=120
void h_no_L1_9(void) { run_strings(); }
//@harness h_no_L1_0 enforce=none loops=0 unwind=10 props=C05 defs=-DVERIF_FP_IEEE,-DSTR_LEN=1,-DSTR_CODE=0x0,-DMONO_CAP=2UL,-DMAP_CAP=4UL bounded=string=c0;coefficient=nonzero_integer<=2^20;states=3_modes min_obl=616 reach=1 timeout=120
void h_no_L1_0(void) { run_strings(); }
//@harness h_no_L1_1 enforce=none loops=0 unwind=10 props=C05 defs=-DVERIF_FP_IEEE,-DSTR_LEN=1,-DSTR_CODE=0x1,-DMONO_CAP=2UL,-DMAP_CAP=4UL bounded=string=c1;coefficient=nonzero_integer<=2^20;states=3_modes min_obl=616 reach=1 timeout=120
void h_no_L1_1(void) { run_strings(); }
//@harness h_no_L2_88 enforce=none loops=0 unwind=10 props=C05 defs=-DVERIF_FP_IEEE,-DSTR_LEN=2,-DSTR_CODE=0x88,-DMONO_CAP=2UL,-DMAP_CAP=4UL bounded=string=c+0.c+0;coefficient=nonzero_integer<=2^20;states=3_modes min_obl=616 reach=1 timeout=120
void h_no_L2_88(void) { run_strings(); }
//@harness h_no_L2_89 enforce=none loops=0 unwind=10 props=C05 defs=-DVERIF_FP_IEEE,-DSTR_LEN=2,-DSTR_CODE=0x89,-DMONO_CAP=2UL,-DMAP_CAP=4UL bounded=string=c+0.c+1;coefficient=nonzero_integer<=2^20;states=3_modes min_obl=616 reach=1 timeout=120
void h_no_L2_89(void) { run_strings(); }
//@harness h_no_L2_80 enforce=none loops=0 unwind=10 props=C05 defs=-DVERIF_FP_IEEE,-DSTR_LEN=2,-DSTR_CODE=0x80,-DMONO_CAP=2UL,-DMAP_CAP=4UL bounded=string=c+0.c0;coefficient=nonzero_integer<=2^20;states=3_modes min_obl=616 reach=1 timeout=120
void h_no_L2_80(void) { run_strings(); }
//@harness h_no_L2_81 enforce=none loops=0 unwind=10 props=C05 defs=-DVERIF_FP_IEEE,-DSTR_LEN=2,-DSTR_CODE=0x81,-DMONO_CAP=2UL,-DMAP_CAP=4UL bounded=string=c+0.c1;coefficient=nonzero_integer<=2^20;states=3_modes min_obl=616 reach=1 timeout=120
void h_no_L2_81(void) { run_strings(); }
//@harness h_no_L2_98 enforce=none loops=0 unwind=10 props=C05 defs=-DVERIF_FP_IEEE,-DSTR_LEN=2,-DSTR_CODE=0x98,-DMONO_CAP=2UL,-DMAP_CAP=4UL bounded=string=c+1.c+0;coefficient=nonzero_integer<=2^20;states=3_modes min_obl=616 reach=1 timeout=120
void h_no_L2_98(void) { run_strings(); }
//@harness h_no_L2_99 enforce=none loops=0 unwind=10 props=C05 defs=-DVERIF_FP_IEEE,-DSTR_LEN=2,-DSTR_CODE=0x99,-DMONO_CAP=2UL,-DMAP_CAP=4UL bounded=string=c+1.c+1;coefficient=nonzero_integer<=2^20;states=3_modes min_obl=616 reach=1 timeout=120
void h_no_L2_99(void) { run_strings(); }
//@harness h_no_L2_90 enforce=none loops=0 unwind=10 props=C05 defs=-DVERIF_FP_IEEE,-DSTR_LEN=2,-DSTR_CODE=0x90,-DMONO_CAP=2UL,-DMAP_CAP=4UL bounded=string=c+1.c0;coefficient=nonzero_integer<=2^20;states=3_modes min_obl=616 reach=1 timeout=120
void h_no_L2_90(void) { run_strings(); }
//@harness h_no_L2_91 enforce=none loops=0 unwind=10 props=C05 defs=-DVERIF_FP_IEEE,-DSTR_LEN=2,-DSTR_CODE=0x91,-DMONO_CAP=2UL,-DMAP_CAP=4UL bounded=string=c+1.c1;coefficient=nonzero_integer<=2^20;states=3_modes min_obl=616 reach=1 timeout=120
void h_no_L2_91(void) { run_strings(); }
//@harness h_no_L2_08 enforce=none loops=0 unwind=10 props=C05 defs=-DVERIF_FP_IEEE,-DSTR_LEN=2,-DSTR_CODE=0x08,-DMONO_CAP=2UL,-DMAP_CAP=4UL bounded=string=c0.c+0;coefficient=nonzero_integer<=2^20;states=3_modes min_obl=616 reach=1 timeout=120
void h_no_L2_08(void) { run_strings(); }
//@harness h_no_L2_09 enforce=none loops=0 unwind=10 props=C05 defs=-DVERIF_FP_IEEE,-DSTR_LEN=2,-DSTR_CODE=0x09,-DMONO_CAP=2UL,-DMAP_CAP=4UL bounded=string=c0.c+1;coefficient=nonzero_integer<=2^20;states=3_modes min_obl=616 reach=1 timeout=120
void h_no_L2_09(void) { run_strings(); }
//@harness h_no_L2_00 enforce=none loops=0 unwind=10 props=C05 defs=-DVERIF_FP_IEEE,-DSTR_LEN=2,-DSTR_CODE=0x00,-DMONO_CAP=2UL,-DMAP_CAP=4UL bounded=string=c0.c0;coefficient=nonzero_integer<=2^20;states=3_modes min_obl=616 reach=1 timeout=120
void h_no_L2_00(void) { run_strings(); }
//@harness h_no_L2_01 enforce=none loops=0 unwind=10 props=C05 defs=-DVERIF_FP_IEEE,-DSTR_LEN=2,-DSTR_CODE=0x01,-DMONO_CAP=2UL,-DMAP_CAP=4UL bounded=string=c0.c1;coefficient=nonzero_integer<=2^20;states=3_modes min_obl=616 reach=1 timeout=120
void h_no_L2_01(void) { run_strings(); }
//@harness h_no_L2_18 enforce=none loops=0 unwind=10 props=C05 defs=-DVERIF_FP_IEEE,-DSTR_LEN=2,-DSTR_CODE=0x18,-DMONO_CAP=2UL,-DMAP_CAP=4UL bounded=string=c1.c+0;coefficient=nonzero_integer<=2^20;states=3_modes min_obl=616 reach=1 timeout=120
void h_no_L2_18(void) { run_strings(); }
//@harness h_no_L2_19 enforce=none loops=0 unwind=10 props=C05 defs=-DVERIF_FP_IEEE,-DSTR_LEN=2,-DSTR_CODE=0x19,-DMONO_CAP=2UL,-DMAP_CAP=4UL bounded=string=c1.c+1;coefficient=nonzero_integer<=2^20;states=3_modes min_obl=616 reach=1 timeout=120
void h_no_L2_19(void) { run_strings(); }
//@harness h_no_L2_10 enforce=none loops=0 unwind=10 props=C05 defs=-DVERIF_FP_IEEE,-DSTR_LEN=2,-DSTR_CODE=0x10,-DMONO_CAP=2UL,-DMAP_CAP=4UL bounded=string=c1.c0;coefficient=nonzero_integer<=2^20;states=3_modes min_obl=616 reach=1 timeout=120
void h_no_L2_10(void) { run_strings(); }
//@harness h_no_L2_11 enforce=none loops=0 unwind=10 props=C05 defs=-DVERIF_FP_IEEE,-DSTR_LEN=2,-DSTR_CODE=0x11,-DMONO_CAP=2UL,-DMAP_CAP=4UL bounded=string=c1.c1;coefficient=nonzero_integer<=2^20;states=3_modes min_obl=616 reach=1 timeout=120
void h_no_L2_11(void) { run_strings(); }
//@harness h_no_L3_888 enforce=none loops=0 unwind=10 props=C05 defs=-DVERIF_FP_IEEE,-DSTR_LEN=3,-DSTR_CODE=0x888,-DMONO_CAP=3UL,-DMAP_CAP=4UL bounded=string=c+0.c+0.c+0;coefficient=nonzero_integer<=2^20;states=3_modes min_obl=616 reach=1 timeout=120
void h_no_L3_888(void) { run_strings(); }
//@harness h_no_L3_889 enforce=none loops=0 unwind=10 props=C05 defs=-DVERIF_FP_IEEE,-DSTR_LEN=3,-DSTR_CODE=0x889,-DMONO_CAP=3UL,-DMAP_CAP=4UL bounded=string=c+0.c+0.c+1;coefficient=nonzero_integer<=2^20;states=3_modes min_obl=616 reach=1 timeout=120
void h_no_L3_889(void) { run_strings(); }
//@harness h_no_L3_880 enforce=none loops=0 unwind=10 props=C05 defs=-DVERIF_FP_IEEE,-DSTR_LEN=3,-DSTR_CODE=0x880,-DMONO_CAP=3UL,-DMAP_CAP=4UL bounded=string=c+0.c+0.c0;coefficient=nonzero_integer<=2^20;states=3_modes min_obl=616 reach=1 timeout=120
void h_no_L3_880(void) { run_strings(); }
//@harness h_no_L3_881 enforce=none loops=0 unwind=10 props=C05 defs=-DVERIF_FP_IEEE,-DSTR_LEN=3,-DSTR_CODE=0x881,-DMONO_CAP=3UL,-DMAP_CAP=4UL bounded=string=c+0.c+0.c1;coefficient=nonzero_integer<=2^20;states=3_modes min_obl=616 reach=1 timeout=120
void h_no_L3_881(void) { run_strings(); }
//@harness h_no_L3_898 enforce=none loops=0 unwind=10 props=C05 defs=-DVERIF_FP_IEEE,-DSTR_LEN=3,-DSTR_CODE=0x898,-DMONO_CAP=3UL,-DMAP_CAP=4UL bounded=string=c+0.c+1.c+0;coefficient=nonzero_integer<=2^20;states=3_modes min_obl=616 reach=1 timeout=120
void h_no_L3_898(void) { run_strings(); }
//@harness h_no_L3_899 enforce=none loops=0 unwind=10 props=C05 defs=-DVERIF_FP_IEEE,-DSTR_LEN=3,-DSTR_CODE=0x899,-DMONO_CAP=3UL,-DMAP_CAP=4UL bounded=string=c+0.c+1.c+1;coefficient=nonzero_integer<=2^20;states=3_modes min_obl=616 reach=1 timeout=120
void h_no_L3_899(void) { run_strings(); }
//@harness h_no_L3_890 enforce=none loops=0 unwind=10 props=C05 defs=-DVERIF_FP_IEEE,-DSTR_LEN=3,-DSTR_CODE=0x890,-DMONO_CAP=3UL,-DMAP_CAP=4UL bounded=string=c+0.c+1.c0;coefficient=nonzero_integer<=2^20;states=3_modes min_obl=616 reach=1 timeout=120
void h_no_L3_890(void) { run_strings(); }
//@harness h_no_L3_891 enforce=none loops=0 unwind=10 props=C05 defs=-DVERIF_FP_IEEE,-DSTR_LEN=3,-DSTR_CODE=0x891,-DMONO_CAP=3UL,-DMAP_CAP=4UL bounded=string=c+0.c+1.c1;coefficient=nonzero_integer<=2^20;states=3_modes min_obl=616 reach=1 timeout=120
void h_no_L3_891(void) { run_strings(); }
//@harness h_no_L3_808 enforce=none loops=0 unwind=10 props=C05 defs=-DVERIF_FP_IEEE,-DSTR_LEN=3,-DSTR_CODE=0x808,-DMONO_CAP=3UL,-DMAP_CAP=4UL bounded=string=c+0.c0.c+0;coefficient=nonzero_integer<=2^20;states=3_modes min_obl=616 reach=1 timeout=120
void h_no_L3_808(void) { run_strings(); }
//@harness h_no_L3_809 enforce=none loops=0 unwind=10 props=C05 defs=-DVERIF_FP_IEEE,-DSTR_LEN=3,-DSTR_CODE=0x809,-DMONO_CAP=3UL,-DMAP_CAP=4UL bounded=string=c+0.c0.c+1;coefficient=nonzero_integer<=2^20;states=3_modes min_obl=616 reach=1 timeout=120
void h_no_L3_809(void) { run_strings(); }
//@harness h_no_L3_800 enforce=none loops=0 unwind=10 props=C05 defs=-DVERIF_FP_IEEE,-DSTR_LEN=3,-DSTR_CODE=0x800,-DMONO_CAP=3UL,-DMAP_CAP=4UL bounded=string=c+0.c0.c0;coefficient=nonzero_integer<=2^20;states=3_modes min_obl=616 reach=1 timeout=120
void h_no_L3_800(void) { run_strings(); }
//@harness h_no_L3_801 enforce=none loops=0 unwind=10 props=C05 defs=-DVERIF_FP_IEEE,-DSTR_LEN=3,-DSTR_CODE=0x801,-DMONO_CAP=3UL,-DMAP_CAP=4UL bounded=string=c+0.c0.c1;coefficient=nonzero_integer<=2^20;states=3_modes min_obl=616 reach=1 timeout=120
void h_no_L3_801(void) { run_strings(); }
//@harness h_no_L3_818 enforce=none loops=0 unwind=10 props=C05 defs=-DVERIF_FP_IEEE,-DSTR_LEN=3,-DSTR_CODE=0x818,-DMONO_CAP=3UL,-DMAP_CAP=4UL bounded=string=c+0.c1.c+0;coefficient=nonzero_integer<=2^20;states=3_modes min_obl=616 reach=1 timeout=120
void h_no_L3_818(void) { run_strings(); }
//@harness h_no_L3_819 enforce=none loops=0 unwind=10 props=C05 defs=-DVERIF_FP_IEEE,-DSTR_LEN=3,-DSTR_CODE=0x819,-DMONO_CAP=3UL,-DMAP_CAP=4UL bounded=string=c+0.c1.c+1;coefficient=nonzero_integer<=2^20;states=3_modes min_obl=616 reach=1 timeout=120
void h_no_L3_819(void) { run_strings(); }
//@harness h_no_L3_810 enforce=none loops=0 unwind=10 props=C05 defs=-DVERIF_FP_IEEE,-DSTR_LEN=3,-DSTR_CODE=0x810,-DMONO_CAP=3UL,-DMAP_CAP=4UL bounded=string=c+0.c1.c0;coefficient=nonzero_integer<=2^20;states=3_modes min_obl=616 reach=1 timeout=120
void h_no_L3_810(void) { run_strings(); }
//@harness h_no_L3_811 enforce=none loops=0 unwind=10 props=C05 defs=-DVERIF_FP_IEEE,-DSTR_LEN=3,-DSTR_CODE=0x811,-DMONO_CAP=3UL,-DMAP_CAP=4UL bounded=string=c+0.c1.c1;coefficient=nonzero_integer<=2^20;states=3_modes min_obl=616 reach=1 timeout=120
void h_no_L3_811(void) { run_strings(); }
//@harness h_no_L3_988 enforce=none loops=0 unwind=10 props=C05 defs=-DVERIF_FP_IEEE,-DSTR_LEN=3,-DSTR_CODE=0x988,-DMONO_CAP=3UL,-DMAP_CAP=4UL bounded=string=c+1.c+0.c+0;coefficient=nonzero_integer<=2^20;states=3_modes min_obl=616 reach=1 timeout=120
void h_no_L3_988(void) { run_strings(); }
//@harness h_no_L3_989 enforce=none loops=0 unwind=10 props=C05 defs=-DVERIF_FP_IEEE,-DSTR_LEN=3,-DSTR_CODE=0x989,-DMONO_CAP=3UL,-DMAP_CAP=4UL bounded=string=c+1.c+0.c+1;coefficient=nonzero_integer<=2^20;states=3_modes min_obl=616 reach=1 timeout=120
void h_no_L3_989(void) { run_strings(); }
//@harness h_no_L3_980 enforce=none loops=0 unwind=10 props=C05 defs=-DVERIF_FP_IEEE,-DSTR_LEN=3,-DSTR_CODE=0x980,-DMONO_CAP=3UL,-DMAP_CAP=4UL bounded=string=c+1.c+0.c0;coefficient=nonzero_integer<=2^20;states=3_modes min_obl=616 reach=1 timeout=120
void h_no_L3_980(void) { run_strings(); }
//@harness h_no_L3_981 enforce=none loops=0 unwind=10 props=C05 defs=-DVERIF_FP_IEEE,-DSTR_LEN=3,-DSTR_CODE=0x981,-DMONO_CAP=3UL,-DMAP_CAP=4UL bounded=string=c+1.c+0.c1;coefficient=nonzero_integer<=2^20;states=3_modes min_obl=616 reach=1 timeout=120
void h_no_L3_981(void) { run_strings(); }
//@harness h_no_L3_998 enforce=none loops=0 unwind=10 props=C05 defs=-DVERIF_FP_IEEE,-DSTR_LEN=3,-DSTR_CODE=0x998,-DMONO_CAP=3UL,-DMAP_CAP=4UL bounded=string=c+1.c+1.c+0;coefficient=nonzero_integer<=2^20;states=3_modes min_obl=616 reach=1 timeout=120
void h_no_L3_998(void) { run_strings(); }
//@harness h_no_L3_999 enforce=none loops=0 unwind=10 props=C05 defs=-DVERIF_FP_IEEE,-DSTR_LEN=3,-DSTR_CODE=0x999,-DMONO_CAP=3UL,-DMAP_CAP=4UL bounded=string=c+1.c+1.c+1;coefficient=nonzero_integer<=2^20;states=3_modes min_obl=616 reach=1 timeout=120
void h_no_L3_999(void) { run_strings(); }
//@harness h_no_L3_990 enforce=none loops=0 unwind=10 props=C05 defs=-DVERIF_FP_IEEE,-DSTR_LEN=3,-DSTR_CODE=0x990,-DMONO_CAP=3UL,-DMAP_CAP=4UL bounded=string=c+1.c+1.c0;coefficient=nonzero_integer<=2^20;states=3_modes min_obl=616 reach=1 timeout=120
void h_no_L3_990(void) { run_strings(); }
//@harness h_no_L3_991 enforce=none loops=0 unwind=10 props=C05 defs=-DVERIF_FP_IEEE,-DSTR_LEN=3,-DSTR_CODE=0x991,-DMONO_CAP=3UL,-DMAP_CAP=4UL bounded=string=c+1.c+1.c1;coefficient=nonzero_integer<=2^20;states=3_modes min_obl=616 reach=1 timeout=120
void h_no_L3_991(void) { run_strings(); }
//@harness h_no_L3_908 enforce=none loops=0 unwind=10 props=C05 defs=-DVERIF_FP_IEEE,-DSTR_LEN=3,-DSTR_CODE=0x908,-DMONO_CAP=3UL,-DMAP_CAP=4UL bounded=string=c+1.c0.c+0;coefficient=nonzero_integer<=2^20;states=3_modes min_obl=616 reach=1 timeout=120
void h_no_L3_908(void) { run_strings(); }
//@harness h_no_L3_909 enforce=none loops=0 unwind=10 props=C05 defs=-DVERIF_FP_IEEE,-DSTR_LEN=3,-DSTR_CODE=0x909,-DMONO_CAP=3UL,-DMAP_CAP=4UL bounded=string=c+1.c0.c+1;coefficient=nonzero_integer<=2^20;states=3_modes min_obl=616 reach=1 timeout=120
void h_no_L3_909(void) { run_strings(); }
//@harness h_no_L3_900 enforce=none loops=0 unwind=10 props=C05 defs=-DVERIF_FP_IEEE,-DSTR_LEN=3,-DSTR_CODE=0x900,-DMONO_CAP=3UL,-DMAP_CAP=4UL bounded=string=c+1.c0.c0;coefficient=nonzero_integer<=2^20;states=3_modes min_obl=616 reach=1 timeout=120
void h_no_L3_900(void) { run_strings(); }
//@harness h_no_L3_901 enforce=none loops=0 unwind=10 props=C05 defs=-DVERIF_FP_IEEE,-DSTR_LEN=3,-DSTR_CODE=0x901,-DMONO_CAP=3UL,-DMAP_CAP=4UL bounded=string=c+1.c0.c1;coefficient=nonzero_integer<=2^20;states=3_modes min_obl=616 reach=1 timeout=120
void h_no_L3_901(void) { run_strings(); }
//@harness h_no_L3_918 enforce=none loops=0 unwind=10 props=C05 defs=-DVERIF_FP_IEEE,-DSTR_LEN=3,-DSTR_CODE=0x918,-DMONO_CAP=3UL,-DMAP_CAP=4UL bounded=string=c+1.c1.c+0;coefficient=nonzero_integer<=2^20;states=3_modes min_obl=616 reach=1 timeout=120
void h_no_L3_918(void) { run_strings(); }
//@harness h_no_L3_919 enforce=none loops=0 unwind=10 props=C05 defs=-DVERIF_FP_IEEE,-DSTR_LEN=3,-DSTR_CODE=0x919,-DMONO_CAP=3UL,-DMAP_CAP=4UL bounded=string=c+1.c1.c+1;coefficient=nonzero_integer<=2^20;states=3_modes min_obl=616 reach=1 timeout=120
void h_no_L3_919(void) { run_strings(); }
//@harness h_no_L3_910 enforce=none loops=0 unwind=10 props=C05 defs=-DVERIF_FP_IEEE,-DSTR_LEN=3,-DSTR_CODE=0x910,-DMONO_CAP=3UL,-DMAP_CAP=4UL bounded=string=c+1.c1.c0;coefficient=nonzero_integer<=2^20;states=3_modes min_obl=616 reach=1 timeout=120
void h_no_L3_910(void) { run_strings(); }
//@harness h_no_L3_911 enforce=none loops=0 unwind=10 props=C05 defs=-DVERIF_FP_IEEE,-DSTR_LEN=3,-DSTR_CODE=0x911,-DMONO_CAP=3UL,-DMAP_CAP=4UL bounded=string=c+1.c1.c1;coefficient=nonzero_integer<=2^20;states=3_modes min_obl=616 reach=1 timeout=120
void h_no_L3_911(void) { run_strings(); }
//@harness h_no_L3_088 enforce=none loops=0 unwind=10 props=C05 defs=-DVERIF_FP_IEEE,-DSTR_LEN=3,-DSTR_CODE=0x088,-DMONO_CAP=3UL,-DMAP_CAP=4UL bounded=string=c0.c+0.c+0;coefficient=nonzero_integer<=2^20;states=3_modes min_obl=616 reach=1 timeout=120
void h_no_L3_088(void) { run_strings(); }
//@harness h_no_L3_089 enforce=none loops=0 unwind=10 props=C05 defs=-DVERIF_FP_IEEE,-DSTR_LEN=3,-DSTR_CODE=0x089,-DMONO_CAP=3UL,-DMAP_CAP=4UL bounded=string=c0.c+0.c+1;coefficient=nonzero_integer<=2^20;states=3_modes min_obl=616 reach=1 timeout=120
void h_no_L3_089(void) { run_strings(); }
//@harness h_no_L3_080 enforce=none loops=0 unwind=10 props=C05 defs=-DVERIF_FP_IEEE,-DSTR_LEN=3,-DSTR_CODE=0x080,-DMONO_CAP=3UL,-DMAP_CAP=4UL bounded=string=c0.c+0.c0;coefficient=nonzero_integer<=2^20;states=3_modes min_obl=616 reach=1 timeout=120
void h_no_L3_080(void) { run_strings(); }
//@harness h_no_L3_081 enforce=none loops=0 unwind=10 props=C05 defs=-DVERIF_FP_IEEE,-DSTR_LEN=3,-DSTR_CODE=0x081,-DMONO_CAP=3UL,-DMAP_CAP=4UL bounded=string=c0.c+0.c1;coefficient=nonzero_integer<=2^20;states=3_modes min_obl=616 reach=1 timeout=120
void h_no_L3_081(void) { run_strings(); }
//@harness h_no_L3_098 enforce=none loops=0 unwind=10 props=C05 defs=-DVERIF_FP_IEEE,-DSTR_LEN=3,-DSTR_CODE=0x098,-DMONO_CAP=3UL,-DMAP_CAP=4UL bounded=string=c0.c+1.c+0;coefficient=nonzero_integer<=2^20;states=3_modes min_obl=616 reach=1 timeout=120
void h_no_L3_098(void) { run_strings(); }
//@harness h_no_L3_099 enforce=none loops=0 unwind=10 props=C05 defs=-DVERIF_FP_IEEE,-DSTR_LEN=3,-DSTR_CODE=0x099,-DMONO_CAP=3UL,-DMAP_CAP=4UL bounded=string=c0.c+1.c+1;coefficient=nonzero_integer<=2^20;states=3_modes min_obl=616 reach=1 timeout=120
void h_no_L3_099(void) { run_strings(); }
//@harness h_no_L3_090 enforce=none loops=0 unwind=10 props=C05 defs=-DVERIF_FP_IEEE,-DSTR_LEN=3,-DSTR_CODE=0x090,-DMONO_CAP=3UL,-DMAP_CAP=4UL bounded=string=c0.c+1.c0;coefficient=nonzero_integer<=2^20;states=3_modes min_obl=616 reach=1 timeout=120
void h_no_L3_090(void) { run_strings(); }
//@harness h_no_L3_091 enforce=none loops=0 unwind=10 props=C05 defs=-DVERIF_FP_IEEE,-DSTR_LEN=3,-DSTR_CODE=0x091,-DMONO_CAP=3UL,-DMAP_CAP=4UL bounded=string=c0.c+1.c1;coefficient=nonzero_integer<=2^20;states=3_modes min_obl=616 reach=1 timeout=120
void h_no_L3_091(void) { run_strings(); }
//@harness h_no_L3_008 enforce=none loops=0 unwind=10 props=C05 defs=-DVERIF_FP_IEEE,-DSTR_LEN=3,-DSTR_CODE=0x008,-DMONO_CAP=3UL,-DMAP_CAP=4UL bounded=string=c0.c0.c+0;coefficient=nonzero_integer<=2^20;states=3_modes min_obl=616 reach=1 timeout=120
void h_no_L3_008(void) { run_strings(); }
//@harness h_no_L3_009 enforce=none loops=0 unwind=10 props=C05 defs=-DVERIF_FP_IEEE,-DSTR_LEN=3,-DSTR_CODE=0x009,-DMONO_CAP=3UL,-DMAP_CAP=4UL bounded=string=c0.c0.c+1;coefficient=nonzero_integer<=2^20;states=3_modes min_obl=616 reach=1 timeout=120
void h_no_L3_009(void) { run_strings(); }
//@harness h_no_L3_000 enforce=none loops=0 unwind=10 props=C05 defs=-DVERIF_FP_IEEE,-DSTR_LEN=3,-DSTR_CODE=0x000,-DMONO_CAP=3UL,-DMAP_CAP=4UL bounded=string=c0.c0.c0;coefficient=nonzero_integer<=2^20;states=3_modes min_obl=616 reach=1 timeout=120
void h_no_L3_000(void) { run_strings(); }
//@harness h_no_L3_001 enforce=none loops=0 unwind=10 props=C05 defs=-DVERIF_FP_IEEE,-DSTR_LEN=3,-DSTR_CODE=0x001,-DMONO_CAP=3UL,-DMAP_CAP=4UL bounded=string=c0.c0.c1;coefficient=nonzero_integer<=2^20;states=3_modes min_obl=616 reach=1 timeout=120
void h_no_L3_001(void) { run_strings(); }
//@harness h_no_L3_018 enforce=none loops=0 unwind=10 props=C05 defs=-DVERIF_FP_IEEE,-DSTR_LEN=3,-DSTR_CODE=0x018,-DMONO_CAP=3UL,-DMAP_CAP=4UL bounded=string=c0.c1.c+0;coefficient=nonzero_integer<=2^20;states=3_modes min_obl=616 reach=1 timeout=120
void h_no_L3_018(void) { run_strings(); }
//@harness h_no_L3_019 enforce=none loops=0 unwind=10 props=C05 defs=-DVERIF_FP_IEEE,-DSTR_LEN=3,-DSTR_CODE=0x019,-DMONO_CAP=3UL,-DMAP_CAP=4UL bounded=string=c0.c1.c+1;coefficient=nonzero_integer<=2^20;states=3_modes min_obl=616 reach=1 timeout=120
void h_no_L3_019(void) { run_strings(); }
//@harness h_no_L3_010 enforce=none loops=0 unwind=10 props=C05 defs=-DVERIF_FP_IEEE,-DSTR_LEN=3,-DSTR_CODE=0x010,-DMONO_CAP=3UL,-DMAP_CAP=4UL bounded=string=c0.c1.c0;coefficient=nonzero_integer<=2^20;states=3_modes min_obl=616 reach=1 timeout=120
void h_no_L3_010(void) { run_strings(); }
//@harness h_no_L3_011 enforce=none loops=0 unwind=10 props=C05 defs=-DVERIF_FP_IEEE,-DSTR_LEN=3,-DSTR_CODE=0x011,-DMONO_CAP=3UL,-DMAP_CAP=4UL bounded=string=c0.c1.c1;coefficient=nonzero_integer<=2^20;states=3_modes min_obl=616 reach=1 timeout=120
void h_no_L3_011(void) { run_strings(); }
//@harness h_no_L3_188 enforce=none loops=0 unwind=10 props=C05 defs=-DVERIF_FP_IEEE,-DSTR_LEN=3,-DSTR_CODE=0x188,-DMONO_CAP=3UL,-DMAP_CAP=4UL bounded=string=c1.c+0.c+0;coefficient=nonzero_integer<=2^20;states=3_modes min_obl=616 reach=1 timeout=120
void h_no_L3_188(void) { run_strings(); }
//@harness h_no_L3_189 enforce=none loops=0 unwind=10 props=C05 defs=-DVERIF_FP_IEEE,-DSTR_LEN=3,-DSTR_CODE=0x189,-DMONO_CAP=3UL,-DMAP_CAP=4UL bounded=string=c1.c+0.c+1;coefficient=nonzero_integer<=2^20;states=3_modes min_obl=616 reach=1 timeout=120
void h_no_L3_189(void) { run_strings(); }
//@harness h_no_L3_180 enforce=none loops=0 unwind=10 props=C05 defs=-DVERIF_FP_IEEE,-DSTR_LEN=3,-DSTR_CODE=0x180,-DMONO_CAP=3UL,-DMAP_CAP=4UL bounded=string=c1.c+0.c0;coefficient=nonzero_integer<=2^20;states=3_modes min_obl=616 reach=1 timeout=120
void h_no_L3_180(void) { run_strings(); }
//@harness h_no_L3_181 enforce=none loops=0 unwind=10 props=C05 defs=-DVERIF_FP_IEEE,-DSTR_LEN=3,-DSTR_CODE=0x181,-DMONO_CAP=3UL,-DMAP_CAP=4UL bounded=string=c1.c+0.c1;coefficient=nonzero_integer<=2^20;states=3_modes min_obl=616 reach=1 timeout=120
void h_no_L3_181(void) { run_strings(); }
//@harness h_no_L3_198 enforce=none loops=0 unwind=10 props=C05 defs=-DVERIF_FP_IEEE,-DSTR_LEN=3,-DSTR_CODE=0x198,-DMONO_CAP=3UL,-DMAP_CAP=4UL bounded=string=c1.c+1.c+0;coefficient=nonzero_integer<=2^20;states=3_modes min_obl=616 reach=1 timeout=120
void h_no_L3_198(void) { run_strings(); }
//@harness h_no_L3_199 enforce=none loops=0 unwind=10 props=C05 defs=-DVERIF_FP_IEEE,-DSTR_LEN=3,-DSTR_CODE=0x199,-DMONO_CAP=3UL,-DMAP_CAP=4UL bounded=string=c1.c+1.c+1;coefficient=nonzero_integer<=2^20;states=3_modes min_obl=616 reach=1 timeout=120
void h_no_L3_199(void) { run_strings(); }
//@harness h_no_L3_190 enforce=none loops=0 unwind=10 props=C05 defs=-DVERIF_FP_IEEE,-DSTR_LEN=3,-DSTR_CODE=0x190,-DMONO_CAP=3UL,-DMAP_CAP=4UL bounded=string=c1.c+1.c0;coefficient=nonzero_integer<=2^20;states=3_modes min_obl=616 reach=1 timeout=120
void h_no_L3_190(void) { run_strings(); }
//@harness h_no_L3_191 enforce=none loops=0 unwind=10 props=C05 defs=-DVERIF_FP_IEEE,-DSTR_LEN=3,-DSTR_CODE=0x191,-DMONO_CAP=3UL,-DMAP_CAP=4UL bounded=string=c1.c+1.c1;coefficient=nonzero_integer<=2^20;states=3_modes min_obl=616 reach=1 timeout=120
void h_no_L3_191(void) { run_strings(); }
//@harness h_no_L3_108 enforce=none loops=0 unwind=10 props=C05 defs=-DVERIF_FP_IEEE,-DSTR_LEN=3,-DSTR_CODE=0x108,-DMONO_CAP=3UL,-DMAP_CAP=4UL bounded=string=c1.c0.c+0;coefficient=nonzero_integer<=2^20;states=3_modes min_obl=616 reach=1 timeout=120
void h_no_L3_108(void) { run_strings(); }
//@harness h_no_L3_109 enforce=none loops=0 unwind=10 props=C05 defs=-DVERIF_FP_IEEE,-DSTR_LEN=3,-DSTR_CODE=0x109,-DMONO_CAP=3UL,-DMAP_CAP=4UL bounded=string=c1.c0.c+1;coefficient=nonzero_integer<=2^20;states=3_modes min_obl=616 reach=1 timeout=120
void h_no_L3_109(void) { run_strings(); }
//@harness h_no_L3_100 enforce=none loops=0 unwind=10 props=C05 defs=-DVERIF_FP_IEEE,-DSTR_LEN=3,-DSTR_CODE=0x100,-DMONO_CAP=3UL,-DMAP_CAP=4UL bounded=string=c1.c0.c0;coefficient=nonzero_integer<=2^20;states=3_modes min_obl=616 reach=1 timeout=120
void h_no_L3_100(void) { run_strings(); }
//@harness h_no_L3_101 enforce=none loops=0 unwind=10 props=C05 defs=-DVERIF_FP_IEEE,-DSTR_LEN=3,-DSTR_CODE=0x101,-DMONO_CAP=3UL,-DMAP_CAP=4UL bounded=string=c1.c0.c1;coefficient=nonzero_integer<=2^20;states=3_modes min_obl=616 reach=1 timeout=120
void h_no_L3_101(void) { run_strings(); }
//@harness h_no_L3_118 enforce=none loops=0 unwind=10 props=C05 defs=-DVERIF_FP_IEEE,-DSTR_LEN=3,-DSTR_CODE=0x118,-DMONO_CAP=3UL,-DMAP_CAP=4UL bounded=string=c1.c1.c+0;coefficient=nonzero_integer<=2^20;states=3_modes min_obl=616 reach=1 timeout=120
void h_no_L3_118(void) { run_strings(); }
//@harness h_no_L3_119 enforce=none loops=0 unwind=10 props=C05 defs=-DVERIF_FP_IEEE,-DSTR_LEN=3,-DSTR_CODE=0x119,-DMONO_CAP=3UL,-DMAP_CAP=4UL bounded=string=c1.c1.c+1;coefficient=nonzero_integer<=2^20;states=3_modes min_obl=616 reach=1 timeout=120
void h_no_L3_119(void) { run_strings(); }
//@harness h_no_L3_110 enforce=none loops=0 unwind=10 props=C05 defs=-DVERIF_FP_IEEE,-DSTR_LEN=3,-DSTR_CODE=0x110,-DMONO_CAP=3UL,-DMAP_CAP=4UL bounded=string=c1.c1.c0;coefficient=nonzero_integer<=2^20;states=3_modes min_obl=616 reach=1 timeout=120
void h_no_L3_110(void) { run_strings(); }
//@harness h_no_L3_111 enforce=none loops=0 unwind=10 props=C05 defs=-DVERIF_FP_IEEE,-DSTR_LEN=3,-DSTR_CODE=0x111,-DMONO_CAP=3UL,-DMAP_CAP=4UL bounded=string=c1.c1.c1;coefficient=nonzero_integer<=2^20;states=3_modes min_obl=616 reach=1 timeout=120
void h_no_L3_111(void) { run_strings(); }
//@harness h_no_L4_0198 enforce=none loops=0 unwind=10 props=C05 defs=-DVERIF_FP_IEEE,-DSTR_LEN=4,-DSTR_CODE=0x0198,-DMONO_CAP=4UL,-DMAP_CAP=4UL bounded=string=c0.c1.c+1.c+0;coefficient=nonzero_integer<=2^20;states=3_modes min_obl=616 reach=1 timeout=120
void h_no_L4_0198(void) { run_strings(); }
//@harness h_no_L4_1098 enforce=none loops=0 unwind=10 props=C05 defs=-DVERIF_FP_IEEE,-DSTR_LEN=4,-DSTR_CODE=0x1098,-DMONO_CAP=4UL,-DMAP_CAP=4UL bounded=string=c1.c0.c+1.c+0;coefficient=nonzero_integer<=2^20;states=3_modes min_obl=616 reach=1 timeout=120
void h_no_L4_1098(void) { run_strings(); }
//@harness h_no_L4_0808 enforce=none loops=0 unwind=10 props=C05 defs=-DVERIF_FP_IEEE,-DSTR_LEN=4,-DSTR_CODE=0x0808,-DMONO_CAP=4UL,-DMAP_CAP=4UL bounded=string=c0.c+0.c0.c+0;coefficient=nonzero_integer<=2^20;states=3_modes min_obl=616 reach=1 timeout=120
void h_no_L4_0808(void) { run_strings(); }
//@harness h_no_L4_8080 enforce=none loops=0 unwind=10 props=C05 defs=-DVERIF_FP_IEEE,-DSTR_LEN=4,-DSTR_CODE=0x8080,-DMONO_CAP=4UL,-DMAP_CAP=4UL bounded=string=c+0.c0.c+0.c0;coefficient=nonzero_integer<=2^20;states=3_modes min_obl=616 reach=1 timeout=120
void h_no_L4_8080(void) { run_strings(); }
//@harness h_no_L4_8091 enforce=none loops=0 unwind=10 props=C05 defs=-DVERIF_FP_IEEE,-DSTR_LEN=4,-DSTR_CODE=0x8091,-DMONO_CAP=4UL,-DMAP_CAP=4UL bounded=string=c+0.c0.c+1.c1;coefficient=nonzero_integer<=2^20;states=3_modes min_obl=616 reach=1 timeout=120
void h_no_L4_8091(void) { run_strings(); }
//@harness h_no_L4_9180 enforce=none loops=0 unwind=10 props=C05 defs=-DVERIF_FP_IEEE,-DSTR_LEN=4,-DSTR_CODE=0x9180,-DMONO_CAP=4UL,-DMAP_CAP=4UL bounded=string=c+1.c1.c+0.c0;coefficient=nonzero_integer<=2^20;states=3_modes min_obl=616 reach=1 timeout=120
void h_no_L4_9180(void) { run_strings(); }
//@harness h_no_L4_0089 enforce=none loops=0 unwind=10 props=C05 defs=-DVERIF_FP_IEEE,-DSTR_LEN=4,-DSTR_CODE=0x0089,-DMONO_CAP=4UL,-DMAP_CAP=4UL bounded=string=c0.c0.c+0.c+1;coefficient=nonzero_integer<=2^20;states=3_modes min_obl=616 reach=1 timeout=120
void h_no_L4_0089(void) { run_strings(); }
//@harness h_no_L4_8180 enforce=none loops=0 unwind=10 props=C05 defs=-DVERIF_FP_IEEE,-DSTR_LEN=4,-DSTR_CODE=0x8180,-DMONO_CAP=4UL,-DMAP_CAP=4UL bounded=string=c+0.c1.c+0.c0;coefficient=nonzero_integer<=2^20;states=3_modes min_obl=616 reach=1 timeout=120
void h_no_L4_8180(void) { run_strings(); }
//@harness h_no_L4_0918 enforce=none loops=0 unwind=10 props=C05 defs=-DVERIF_FP_IEEE,-DSTR_LEN=4,-DSTR_CODE=0x0918,-DMONO_CAP=4UL,-DMAP_CAP=4UL bounded=string=c0.c+1.c1.c+0;coefficient=nonzero_integer<=2^20;states=3_modes min_obl=616 reach=1 timeout=120
void h_no_L4_0918(void) { run_strings(); }
//@harness h_no_L4_8901 enforce=none loops=0 unwind=10 props=C05 defs=-DVERIF_FP_IEEE,-DSTR_LEN=4,-DSTR_CODE=0x8901,-DMONO_CAP=4UL,-DMAP_CAP=4UL bounded=string=c+0.c+1.c0.c1;coefficient=nonzero_integer<=2^20;states=3_modes min_obl=616 reach=1 timeout=120
void h_no_L4_8901(void) { run_strings(); }
//@harness h_no_L4_0189 enforce=none loops=0 unwind=10 props=C05 defs=-DVERIF_FP_IEEE,-DSTR_LEN=4,-DSTR_CODE=0x0189,-DMONO_CAP=4UL,-DMAP_CAP=4UL bounded=string=c0.c1.c+0.c+1;coefficient=nonzero_integer<=2^20;states=3_modes min_obl=616 reach=1 timeout=120
void h_no_L4_0189(void) { run_strings(); }
//@harness h_no_L4_1908 enforce=none loops=0 unwind=10 props=C05 defs=-DVERIF_FP_IEEE,-DSTR_LEN=4,-DSTR_CODE=0x1908,-DMONO_CAP=4UL,-DMAP_CAP=4UL bounded=string=c1.c+1.c0.c+0;coefficient=nonzero_integer<=2^20;states=3_modes min_obl=616 reach=1 timeout=120
void h_no_L4_1908(void) { run_strings(); }
//@harness h_no_L4_0819 enforce=none loops=0 unwind=10 props=C05 defs=-DVERIF_FP_IEEE,-DSTR_LEN=4,-DSTR_CODE=0x0819,-DMONO_CAP=4UL,-DMAP_CAP=4UL bounded=string=c0.c+0.c1.c+1;coefficient=nonzero_integer<=2^20;states=3_modes min_obl=616 reach=1 timeout=120
void h_no_L4_0819(void) { run_strings(); }
//@harness h_no_L4_9810 enforce=none loops=0 unwind=10 props=C05 defs=-DVERIF_FP_IEEE,-DSTR_LEN=4,-DSTR_CODE=0x9810,-DMONO_CAP=4UL,-DMAP_CAP=4UL bounded=string=c+1.c+0.c1.c0;coefficient=nonzero_integer<=2^20;states=3_modes min_obl=616 reach=1 timeout=120
void h_no_L4_9810(void) { run_strings(); }
//@harness h_no_L4_0110 enforce=none loops=0 unwind=10 props=C05 defs=-DVERIF_FP_IEEE,-DSTR_LEN=4,-DSTR_CODE=0x0110,-DMONO_CAP=4UL,-DMAP_CAP=4UL bounded=string=c0.c1.c1.c0;coefficient=nonzero_integer<=2^20;states=3_modes min_obl=616 reach=1 timeout=120
void h_no_L4_0110(void) { run_strings(); }
//@harness h_no_L4_0981 enforce=none loops=0 unwind=10 props=C05 defs=-DVERIF_FP_IEEE,-DSTR_LEN=4,-DSTR_CODE=0x0981,-DMONO_CAP=4UL,-DMAP_CAP=4UL bounded=string=c0.c+1.c+0.c1;coefficient=nonzero_integer<=2^20;states=3_modes min_obl=616 reach=1 timeout=120
void h_no_L4_0981(void) { run_strings(); }
//@harness h_no_L4_8019 enforce=none loops=0 unwind=10 props=C05 defs=-DVERIF_FP_IEEE,-DSTR_LEN=4,-DSTR_CODE=0x8019,-DMONO_CAP=4UL,-DMAP_CAP=4UL bounded=string=c+0.c0.c1.c+1;coefficient=nonzero_integer<=2^20;states=3_modes min_obl=616 reach=1 timeout=120
void h_no_L4_8019(void) { run_strings(); }
//@harness h_no_L4_1809 enforce=none loops=0 unwind=10 props=C05 defs=-DVERIF_FP_IEEE,-DSTR_LEN=4,-DSTR_CODE=0x1809,-DMONO_CAP=4UL,-DMAP_CAP=4UL bounded=string=c1.c+0.c0.c+1;coefficient=nonzero_integer<=2^20;states=3_modes min_obl=616 reach=1 timeout=120
void h_no_L4_1809(void) { run_strings(); }
//@harness h_no_L4_2819 enforce=none loops=0 unwind=10 props=C05 defs=-DVERIF_FP_IEEE,-DSTR_LEN=4,-DSTR_CODE=0x2819,-DMONO_CAP=4UL,-DMAP_CAP=4UL bounded=string=c2.c+0.c1.c+1;coefficient=nonzero_integer<=2^20;states=3_modes min_obl=616 reach=1 timeout=120
void h_no_L4_2819(void) { run_strings(); }
//@harness h_no_L4_219A enforce=none loops=0 unwind=10 props=C05 defs=-DVERIF_FP_IEEE,-DSTR_LEN=4,-DSTR_CODE=0x219A,-DMONO_CAP=4UL,-DMAP_CAP=4UL bounded=string=c2.c1.c+1.c+2;coefficient=nonzero_integer<=2^20;states=3_modes min_obl=616 reach=1 timeout=120
void h_no_L4_219A(void) { run_strings(); }
//@harness h_no_L4_A280 enforce=none loops=0 unwind=10 props=C05 defs=-DVERIF_FP_IEEE,-DSTR_LEN=4,-DSTR_CODE=0xA280,-DMONO_CAP=4UL,-DMAP_CAP=4UL bounded=string=c+2.c2.c+0.c0;coefficient=nonzero_integer<=2^20;states=3_modes min_obl=616 reach=1 timeout=120
void h_no_L4_A280(void) { run_strings(); }
//@harness h_no_L4_1A29 enforce=none loops=0 unwind=10 props=C05 defs=-DVERIF_FP_IEEE,-DSTR_LEN=4,-DSTR_CODE=0x1A29,-DMONO_CAP=4UL,-DMAP_CAP=4UL bounded=string=c1.c+2.c2.c+1;coefficient=nonzero_integer<=2^20;states=3_modes min_obl=616 reach=1 timeout=120
void h_no_L4_1A29(void) { run_strings(); }
//@harness h_no_L4_02A8 enforce=none loops=0 unwind=10 props=C05 defs=-DVERIF_FP_IEEE,-DSTR_LEN=4,-DSTR_CODE=0x02A8,-DMONO_CAP=4UL,-DMAP_CAP=4UL bounded=string=c0.c2.c+2.c+0;coefficient=nonzero_integer<=2^20;states=3_modes min_obl=616 reach=1 timeout=120
void h_no_L4_02A8(void) { run_strings(); }
//@harness h_no_L4_2A08 enforce=none loops=0 unwind=10 props=C05 defs=-DVERIF_FP_IEEE,-DSTR_LEN=4,-DSTR_CODE=0x2A08,-DMONO_CAP=4UL,-DMAP_CAP=4UL bounded=string=c2.c+2.c0.c+0;coefficient=nonzero_integer<=2^20;states=3_modes min_obl=616 reach=1 timeout=120
void h_no_L4_2A08(void) { run_strings(); }
//@harness h_no_L4_20A8 enforce=none loops=0 unwind=10 props=C05 defs=-DVERIF_FP_IEEE,-DSTR_LEN=4,-DSTR_CODE=0x20A8,-DMONO_CAP=4UL,-DMAP_CAP=4UL bounded=string=c2.c0.c+2.c+0;coefficient=nonzero_integer<=2^20;states=3_modes min_obl=616 reach=1 timeout=120
void h_no_L4_20A8(void) { run_strings(); }
//@harness h_mul_L0_x_L0 enforce=none loops=0 unwind=10 props=C05 defs=-DVERIF_FP_IEEE,-DSTR_LEN=0,-DSTR_CODE=0x0,-DSTR2_LEN=0,-DSTR2_CODE=0x0,-DMONO_CAP=2UL,-DMAP_CAP=4UL bounded=A=a*(1),B=b*(1);coefficients=a{2,-7},b{-3,-1,2,5};states=3_modes min_obl=616 reach=1 timeout=120
void h_mul_L0_x_L0(void) { run_algebra(0); }
//@harness h_mul_L0_x_L1_8 enforce=none loops=0 unwind=10 props=C05 defs=-DVERIF_FP_IEEE,-DSTR_LEN=0,-DSTR_CODE=0x0,-DSTR2_LEN=1,-DSTR2_CODE=0x8,-DMONO_CAP=2UL,-DMAP_CAP=4UL bounded=A=a*(1),B=b*(c+0);coefficients=a{2,-7},b{-3,-1,2,5};states=3_modes min_obl=616 reach=1 timeout=120
void h_mul_L0_x_L1_8(void) { run_algebra(0); }
//@harness h_mul_L0_x_L1_9 enforce=none loops=0 unwind=10 props=C05 defs=-DVERIF_FP_IEEE,-DSTR_LEN=0,-DSTR_CODE=0x0,-DSTR2_LEN=1,-DSTR2_CODE=0x9,-DMONO_CAP=2UL,-DMAP_CAP=4UL bounded=A=a*(1),B=b*(c+1);coefficients=a{2,-7},b{-3,-1,2,5};states=3_modes min_obl=616 reach=1 timeout=120
void h_mul_L0_x_L1_9(void) { run_algebra(0); }
//@harness h_mul_L0_x_L1_0 enforce=none loops=0 unwind=10 props=C05 defs=-DVERIF_FP_IEEE,-DSTR_LEN=0,-DSTR_CODE=0x0,-DSTR2_LEN=1,-DSTR2_CODE=0x0,-DMONO_CAP=2UL,-DMAP_CAP=4UL bounded=A=a*(1),B=b*(c0);coefficients=a{2,-7},b{-3,-1,2,5};states=3_modes min_obl=616 reach=1 timeout=120
void h_mul_L0_x_L1_0(void) { run_algebra(0); }
//@harness h_mul_L0_x_L1_1 enforce=none loops=0 unwind=10 props=C05 defs=-DVERIF_FP_IEEE,-DSTR_LEN=0,-DSTR_CODE=0x0,-DSTR2_LEN=1,-DSTR2_CODE=0x1,-DMONO_CAP=2UL,-DMAP_CAP=4UL bounded=A=a*(1),B=b*(c1);coefficients=a{2,-7},b{-3,-1,2,5};states=3_modes min_obl=616 reach=1 timeout=120
void h_mul_L0_x_L1_1(void) { run_algebra(0); }
//@harness h_mul_L1_8_x_L0 enforce=none loops=0 unwind=10 props=C05 defs=-DVERIF_FP_IEEE,-DSTR_LEN=1,-DSTR_CODE=0x8,-DSTR2_LEN=0,-DSTR2_CODE=0x0,-DMONO_CAP=2UL,-DMAP_CAP=4UL bounded=A=a*(c+0),B=b*(1);coefficients=a{2,-7},b{-3,-1,2,5};states=3_modes min_obl=616 reach=1 timeout=120
void h_mul_L1_8_x_L0(void) { run_algebra(0); }
//@harness h_mul_L1_8_x_L1_8 enforce=none loops=0 unwind=10 props=C05 defs=-DVERIF_FP_IEEE,-DSTR_LEN=1,-DSTR_CODE=0x8,-DSTR2_LEN=1,-DSTR2_CODE=0x8,-DMONO_CAP=2UL,-DMAP_CAP=4UL bounded=A=a*(c+0),B=b*(c+0);coefficients=a{2,-7},b{-3,-1,2,5};states=3_modes min_obl=616 reach=1 timeout=120
void h_mul_L1_8_x_L1_8(void) { run_algebra(0); }
//@harness h_mul_L1_8_x_L1_9 enforce=none loops=0 unwind=10 props=C05 defs=-DVERIF_FP_IEEE,-DSTR_LEN=1,-DSTR_CODE=0x8,-DSTR2_LEN=1,-DSTR2_CODE=0x9,-DMONO_CAP=2UL,-DMAP_CAP=4UL bounded=A=a*(c+0),B=b*(c+1);coefficients=a{2,-7},b{-3,-1,2,5};states=3_modes min_obl=616 reach=1 timeout=120
void h_mul_L1_8_x_L1_9(void) { run_algebra(0); }
//@harness h_mul_L1_8_x_L1_0 enforce=none loops=0 unwind=10 props=C05 defs=-DVERIF_FP_IEEE,-DSTR_LEN=1,-DSTR_CODE=0x8,-DSTR2_LEN=1,-DSTR2_CODE=0x0,-DMONO_CAP=2UL,-DMAP_CAP=4UL bounded=A=a*(c+0),B=b*(c0);coefficients=a{2,-7},b{-3,-1,2,5};states=3_modes min_obl=616 reach=1 timeout=120
void h_mul_L1_8_x_L1_0(void) { run_algebra(0); }
//@harness h_mul_L1_8_x_L1_1 enforce=none loops=0 unwind=10 props=C05 defs=-DVERIF_FP_IEEE,-DSTR_LEN=1,-DSTR_CODE=0x8,-DSTR2_LEN=1,-DSTR2_CODE=0x1,-DMONO_CAP=2UL,-DMAP_CAP=4UL bounded=A=a*(c+0),B=b*(c1);coefficients=a{2,-7},b{-3,-1,2,5};states=3_modes min_obl=616 reach=1 timeout=120
void h_mul_L1_8_x_L1_1(void) { run_algebra(0); }
//@harness h_mul_L1_9_x_L0 enforce=none loops=0 unwind=10 props=C05 defs=-DVERIF_FP_IEEE,-DSTR_LEN=1,-DSTR_CODE=0x9,-DSTR2_LEN=0,-DSTR2_CODE=0x0,-DMONO_CAP=2UL,-DMAP_CAP=4UL bounded=A=a*(c+1),B=b*(1);coefficients=a{2,-7},b{-3,-1,2,5};states=3_modes min_obl=616 reach=1 timeout=120
void h_mul_L1_9_x_L0(void) { run_algebra(0); }
//@harness h_mul_L1_9_x_L1_8 enforce=none loops=0 unwind=10 props=C05 defs=-DVERIF_FP_IEEE,-DSTR_LEN=1,-DSTR_CODE=0x9,-DSTR2_LEN=1,-DSTR2_CODE=0x8,-DMONO_CAP=2UL,-DMAP_CAP=4UL bounded=A=a*(c+1),B=b*(c+0);coefficients=a{2,-7},b{-3,-1,2,5};states=3_modes min_obl=616 reach=1 timeout=120
void h_mul_L1_9_x_L1_8(void) { run_algebra(0); }
//@harness h_mul_L1_9_x_L1_9 enforce=none loops=0 unwind=10 props=C05 defs=-DVERIF_FP_IEEE,-DSTR_LEN=1,-DSTR_CODE=0x9,-DSTR2_LEN=1,-DSTR2_CODE=0x9,-DMONO_CAP=2UL,-DMAP_CAP=4UL bounded=A=a*(c+1),B=b*(c+1);coefficients=a{2,-7},b{-3,-1,2,5};states=3_modes min_obl=616 reach=1 timeout=120
void h_mul_L1_9_x_L1_9(void) { run_algebra(0); }
//@harness h_mul_L1_9_x_L1_0 enforce=none loops=0 unwind=10 props=C05 defs=-DVERIF_FP_IEEE,-DSTR_LEN=1,-DSTR_CODE=0x9,-DSTR2_LEN=1,-DSTR2_CODE=0x0,-DMONO_CAP=2UL,-DMAP_CAP=4UL bounded=A=a*(c+1),B=b*(c0);coefficients=a{2,-7},b{-3,-1,2,5};states=3_modes min_obl=616 reach=1 timeout=120
void h_mul_L1_9_x_L1_0(void) { run_algebra(0); }
//@harness h_mul_L1_9_x_L1_1 enforce=none loops=0 unwind=10 props=C05 defs=-DVERIF_FP_IEEE,-DSTR_LEN=1,-DSTR_CODE=0x9,-DSTR2_LEN=1,-DSTR2_CODE=0x1,-DMONO_CAP=2UL,-DMAP_CAP=4UL bounded=A=a*(c+1),B=b*(c1);coefficients=a{2,-7},b{-3,-1,2,5};states=3_modes min_obl=616 reach=1 timeout=120
void h_mul_L1_9_x_L1_1(void) { run_algebra(0); }
//@harness h_mul_L1_0_x_L0 enforce=none loops=0 unwind=10 props=C05 defs=-DVERIF_FP_IEEE,-DSTR_LEN=1,-DSTR_CODE=0x0,-DSTR2_LEN=0,-DSTR2_CODE=0x0,-DMONO_CAP=2UL,-DMAP_CAP=4UL bounded=A=a*(c0),B=b*(1);coefficients=a{2,-7},b{-3,-1,2,5};states=3_modes min_obl=616 reach=1 timeout=120
void h_mul_L1_0_x_L0(void) { run_algebra(0); }
//@harness h_mul_L1_0_x_L1_8 enforce=none loops=0 unwind=10 props=C05 defs=-DVERIF_FP_IEEE,-DSTR_LEN=1,-DSTR_CODE=0x0,-DSTR2_LEN=1,-DSTR2_CODE=0x8,-DMONO_CAP=2UL,-DMAP_CAP=4UL bounded=A=a*(c0),B=b*(c+0);coefficients=a{2,-7},b{-3,-1,2,5};states=3_modes min_obl=616 reach=1 timeout=120
void h_mul_L1_0_x_L1_8(void) { run_algebra(0); }
//@harness h_mul_L1_0_x_L1_9 enforce=none loops=0 unwind=10 props=C05 defs=-DVERIF_FP_IEEE,-DSTR_LEN=1,-DSTR_CODE=0x0,-DSTR2_LEN=1,-DSTR2_CODE=0x9,-DMONO_CAP=2UL,-DMAP_CAP=4UL bounded=A=a*(c0),B=b*(c+1);coefficients=a{2,-7},b{-3,-1,2,5};states=3_modes min_obl=616 reach=1 timeout=120
void h_mul_L1_0_x_L1_9(void) { run_algebra(0); }
//@harness h_mul_L1_0_x_L1_0 enforce=none loops=0 unwind=10 props=C05 defs=-DVERIF_FP_IEEE,-DSTR_LEN=1,-DSTR_CODE=0x0,-DSTR2_LEN=1,-DSTR2_CODE=0x0,-DMONO_CAP=2UL,-DMAP_CAP=4UL bounded=A=a*(c0),B=b*(c0);coefficients=a{2,-7},b{-3,-1,2,5};states=3_modes min_obl=616 reach=1 timeout=120
void h_mul_L1_0_x_L1_0(void) { run_algebra(0); }
//@harness h_mul_L1_0_x_L1_1 enforce=none loops=0 unwind=10 props=C05 defs=-DVERIF_FP_IEEE,-DSTR_LEN=1,-DSTR_CODE=0x0,-DSTR2_LEN=1,-DSTR2_CODE=0x1,-DMONO_CAP=2UL,-DMAP_CAP=4UL bounded=A=a*(c0),B=b*(c1);coefficients=a{2,-7},b{-3,-1,2,5};states=3_modes min_obl=616 reach=1 timeout=120
void h_mul_L1_0_x_L1_1(void) { run_algebra(0); }
//@harness h_mul_L1_1_x_L0 enforce=none loops=0 unwind=10 props=C05 defs=-DVERIF_FP_IEEE,-DSTR_LEN=1,-DSTR_CODE=0x1,-DSTR2_LEN=0,-DSTR2_CODE=0x0,-DMONO_CAP=2UL,-DMAP_CAP=4UL bounded=A=a*(c1),B=b*(1);coefficients=a{2,-7},b{-3,-1,2,5};states=3_modes min_obl=616 reach=1 timeout=120
void h_mul_L1_1_x_L0(void) { run_algebra(0); }
//@harness h_mul_L1_1_x_L1_8 enforce=none loops=0 unwind=10 props=C05 defs=-DVERIF_FP_IEEE,-DSTR_LEN=1,-DSTR_CODE=0x1,-DSTR2_LEN=1,-DSTR2_CODE=0x8,-DMONO_CAP=2UL,-DMAP_CAP=4UL bounded=A=a*(c1),B=b*(c+0);coefficients=a{2,-7},b{-3,-1,2,5};states=3_modes min_obl=616 reach=1 timeout=120
void h_mul_L1_1_x_L1_8(void) { run_algebra(0); }
//@harness h_mul_L1_1_x_L1_9 enforce=none loops=0 unwind=10 props=C05 defs=-DVERIF_FP_IEEE,-DSTR_LEN=1,-DSTR_CODE=0x1,-DSTR2_LEN=1,-DSTR2_CODE=0x9,-DMONO_CAP=2UL,-DMAP_CAP=4UL bounded=A=a*(c1),B=b*(c+1);coefficients=a{2,-7},b{-3,-1,2,5};states=3_modes min_obl=616 reach=1 timeout=120
void h_mul_L1_1_x_L1_9(void) { run_algebra(0); }
//@harness h_mul_L1_1_x_L1_0 enforce=none loops=0 unwind=10 props=C05 defs=-DVERIF_FP_IEEE,-DSTR_LEN=1,-DSTR_CODE=0x1,-DSTR2_LEN=1,-DSTR2_CODE=0x0,-DMONO_CAP=2UL,-DMAP_CAP=4UL bounded=A=a*(c1),B=b*(c0);coefficients=a{2,-7},b{-3,-1,2,5};states=3_modes min_obl=616 reach=1 timeout=120
void h_mul_L1_1_x_L1_0(void) { run_algebra(0); }
//@harness h_mul_L1_1_x_L1_1 enforce=none loops=0 unwind=10 props=C05 defs=-DVERIF_FP_IEEE,-DSTR_LEN=1,-DSTR_CODE=0x1,-DSTR2_LEN=1,-DSTR2_CODE=0x1,-DMONO_CAP=2UL,-DMAP_CAP=4UL bounded=A=a*(c1),B=b*(c1);coefficients=a{2,-7},b{-3,-1,2,5};states=3_modes min_obl=616 reach=1 timeout=120
void h_mul_L1_1_x_L1_1(void) { run_algebra(0); }
//@harness h_mul_L2_80_x_L2_91 enforce=none loops=0 unwind=10 props=C05 defs=-DVERIF_FP_IEEE,-DSTR_LEN=2,-DSTR_CODE=0x80,-DSTR2_LEN=2,-DSTR2_CODE=0x91,-DMONO_CAP=4UL,-DMAP_CAP=4UL bounded=A=a*(c+0.c0),B=b*(c+1.c1);coefficients=a{2,-7},b{-3,-1,2,5};states=3_modes min_obl=616 reach=1 timeout=120
void h_mul_L2_80_x_L2_91(void) { run_algebra(0); }
//@harness h_mul_L2_80_x_L2_80 enforce=none loops=0 unwind=10 props=C05 defs=-DVERIF_FP_IEEE,-DSTR_LEN=2,-DSTR_CODE=0x80,-DSTR2_LEN=2,-DSTR2_CODE=0x80,-DMONO_CAP=4UL,-DMAP_CAP=4UL bounded=A=a*(c+0.c0),B=b*(c+0.c0);coefficients=a{2,-7},b{-3,-1,2,5};states=3_modes min_obl=616 reach=1 timeout=120
void h_mul_L2_80_x_L2_80(void) { run_algebra(0); }
//@harness h_mul_L2_10_x_L2_98 enforce=none loops=0 unwind=10 props=C05 defs=-DVERIF_FP_IEEE,-DSTR_LEN=2,-DSTR_CODE=0x10,-DSTR2_LEN=2,-DSTR2_CODE=0x98,-DMONO_CAP=4UL,-DMAP_CAP=4UL bounded=A=a*(c1.c0),B=b*(c+1.c+0);coefficients=a{2,-7},b{-3,-1,2,5};states=3_modes min_obl=616 reach=1 timeout=120
void h_mul_L2_10_x_L2_98(void) { run_algebra(0); }
//@harness h_mul_L2_01_x_L2_98 enforce=none loops=0 unwind=10 props=C05 defs=-DVERIF_FP_IEEE,-DSTR_LEN=2,-DSTR_CODE=0x01,-DSTR2_LEN=2,-DSTR2_CODE=0x98,-DMONO_CAP=4UL,-DMAP_CAP=4UL bounded=A=a*(c0.c1),B=b*(c+1.c+0);coefficients=a{2,-7},b{-3,-1,2,5};states=3_modes min_obl=616 reach=1 timeout=120
void h_mul_L2_01_x_L2_98(void) { run_algebra(0); }
//@harness h_mul_L2_81_x_L2_90 enforce=none loops=0 unwind=10 props=C05 defs=-DVERIF_FP_IEEE,-DSTR_LEN=2,-DSTR_CODE=0x81,-DSTR2_LEN=2,-DSTR2_CODE=0x90,-DMONO_CAP=4UL,-DMAP_CAP=4UL bounded=A=a*(c+0.c1),B=b*(c+1.c0);coefficients=a{2,-7},b{-3,-1,2,5};states=3_modes min_obl=616 reach=1 timeout=120
void h_mul_L2_81_x_L2_90(void) { run_algebra(0); }
//@harness h_mul_L1_0_x_L3_808 enforce=none loops=0 unwind=10 props=C05 defs=-DVERIF_FP_IEEE,-DSTR_LEN=1,-DSTR_CODE=0x0,-DSTR2_LEN=3,-DSTR2_CODE=0x808,-DMONO_CAP=4UL,-DMAP_CAP=4UL bounded=A=a*(c0),B=b*(c+0.c0.c+0);coefficients=a{2,-7},b{-3,-1,2,5};states=3_modes min_obl=616 reach=1 timeout=120
void h_mul_L1_0_x_L3_808(void) { run_algebra(0); }
//@harness h_mul_L3_098_x_L1_1 enforce=none loops=0 unwind=10 props=C05 defs=-DVERIF_FP_IEEE,-DSTR_LEN=3,-DSTR_CODE=0x098,-DSTR2_LEN=1,-DSTR2_CODE=0x1,-DMONO_CAP=4UL,-DMAP_CAP=4UL bounded=A=a*(c0.c+1.c+0),B=b*(c1);coefficients=a{2,-7},b{-3,-1,2,5};states=3_modes min_obl=616 reach=1 timeout=120
void h_mul_L3_098_x_L1_1(void) { run_algebra(0); }
//@harness h_mul_L1_9_x_L3_810 enforce=none loops=0 unwind=10 props=C05 defs=-DVERIF_FP_IEEE,-DSTR_LEN=1,-DSTR_CODE=0x9,-DSTR2_LEN=3,-DSTR2_CODE=0x810,-DMONO_CAP=4UL,-DMAP_CAP=4UL bounded=A=a*(c+1),B=b*(c+0.c1.c0);coefficients=a{2,-7},b{-3,-1,2,5};states=3_modes min_obl=616 reach=1 timeout=120
void h_mul_L1_9_x_L3_810(void) { run_algebra(0); }
//@harness h_mul_L2_80_p_L2_91_x_L2_80_p_L2_91 enforce=none loops=0 unwind=10 props=C05 defs=-DVERIF_FP_IEEE,-DSTR_LEN=2,-DSTR_CODE=0x80,-DSTR2_LEN=2,-DSTR2_CODE=0x80,-DSTRB_LEN=2,-DSTRB_CODE=0x91,-DSTR2B_LEN=2,-DSTR2B_CODE=0x91,-DMONO_CAP=4UL,-DMAP_CAP=8UL bounded=A=a*(c+0.c0+c+1.c1),B=b*(c+0.c0+c+1.c1);coefficients=a{2,-7},b{-3,-1,2,5};states=3_modes min_obl=616 reach=1 timeout=120
void h_mul_L2_80_p_L2_91_x_L2_80_p_L2_91(void) { run_algebra(0); }
//@harness h_mul_L1_0_p_L1_9_x_L1_8_p_L1_1 enforce=none loops=0 unwind=10 props=C05 defs=-DVERIF_FP_IEEE,-DSTR_LEN=1,-DSTR_CODE=0x0,-DSTR2_LEN=1,-DSTR2_CODE=0x8,-DSTRB_LEN=1,-DSTRB_CODE=0x9,-DSTR2B_LEN=1,-DSTR2B_CODE=0x1,-DMONO_CAP=2UL,-DMAP_CAP=8UL bounded=A=a*(c0+c+1),B=b*(c+0+c1);coefficients=a{2,-7},b{-3,-1,2,5};states=3_modes min_obl=616 reach=1 timeout=120
void h_mul_L1_0_p_L1_9_x_L1_8_p_L1_1(void) { run_algebra(0); }
//@harness h_mul_L2_80_p_L0_x_L1_9_p_L1_1 enforce=none loops=0 unwind=10 props=C05 defs=-DVERIF_FP_IEEE,-DSTR_LEN=2,-DSTR_CODE=0x80,-DSTR2_LEN=1,-DSTR2_CODE=0x9,-DSTRB_LEN=0,-DSTRB_CODE=0x0,-DSTR2B_LEN=1,-DSTR2B_CODE=0x1,-DMONO_CAP=3UL,-DMAP_CAP=8UL bounded=A=a*(c+0.c0+1),B=b*(c+1+c1);coefficients=a{2,-7},b{-3,-1,2,5};states=3_modes min_obl=616 reach=1 timeout=120
void h_mul_L2_80_p_L0_x_L1_9_p_L1_1(void) { run_algebra(0); }
//@harness h_comm_L1_8_L1_8 enforce=none loops=0 unwind=10 props=C05 defs=-DVERIF_FP_IEEE,-DSTR_LEN=1,-DSTR_CODE=0x8,-DSTR2_LEN=1,-DSTR2_CODE=0x8,-DMONO_CAP=2UL,-DMAP_CAP=4UL bounded=A=a*(c+0),B=b*(c+0);coefficients=a{2,-7},b{-3,-1,2,5};states=3_modes min_obl=616 reach=2 timeout=120
void h_comm_L1_8_L1_8(void) { run_algebra(1); }
//@harness h_comm_L1_8_L1_9 enforce=none loops=0 unwind=10 props=C05 defs=-DVERIF_FP_IEEE,-DSTR_LEN=1,-DSTR_CODE=0x8,-DSTR2_LEN=1,-DSTR2_CODE=0x9,-DMONO_CAP=2UL,-DMAP_CAP=4UL bounded=A=a*(c+0),B=b*(c+1);coefficients=a{2,-7},b{-3,-1,2,5};states=3_modes min_obl=616 reach=2 timeout=120
void h_comm_L1_8_L1_9(void) { run_algebra(1); }
//@harness h_comm_L1_8_L1_0 enforce=none loops=0 unwind=10 props=C05 defs=-DVERIF_FP_IEEE,-DSTR_LEN=1,-DSTR_CODE=0x8,-DSTR2_LEN=1,-DSTR2_CODE=0x0,-DMONO_CAP=2UL,-DMAP_CAP=4UL bounded=A=a*(c+0),B=b*(c0);coefficients=a{2,-7},b{-3,-1,2,5};states=3_modes min_obl=616 reach=2 timeout=120
void h_comm_L1_8_L1_0(void) { run_algebra(1); }
//@harness h_comm_L1_8_L1_1 enforce=none loops=0 unwind=10 props=C05 defs=-DVERIF_FP_IEEE,-DSTR_LEN=1,-DSTR_CODE=0x8,-DSTR2_LEN=1,-DSTR2_CODE=0x1,-DMONO_CAP=2UL,-DMAP_CAP=4UL bounded=A=a*(c+0),B=b*(c1);coefficients=a{2,-7},b{-3,-1,2,5};states=3_modes min_obl=616 reach=2 timeout=120
void h_comm_L1_8_L1_1(void) { run_algebra(1); }
//@harness h_comm_L1_9_L1_8 enforce=none loops=0 unwind=10 props=C05 defs=-DVERIF_FP_IEEE,-DSTR_LEN=1,-DSTR_CODE=0x9,-DSTR2_LEN=1,-DSTR2_CODE=0x8,-DMONO_CAP=2UL,-DMAP_CAP=4UL bounded=A=a*(c+1),B=b*(c+0);coefficients=a{2,-7},b{-3,-1,2,5};states=3_modes min_obl=616 reach=2 timeout=120
void h_comm_L1_9_L1_8(void) { run_algebra(1); }
//@harness h_comm_L1_9_L1_9 enforce=none loops=0 unwind=10 props=C05 defs=-DVERIF_FP_IEEE,-DSTR_LEN=1,-DSTR_CODE=0x9,-DSTR2_LEN=1,-DSTR2_CODE=0x9,-DMONO_CAP=2UL,-DMAP_CAP=4UL bounded=A=a*(c+1),B=b*(c+1);coefficients=a{2,-7},b{-3,-1,2,5};states=3_modes min_obl=616 reach=2 timeout=120
void h_comm_L1_9_L1_9(void) { run_algebra(1); }
//@harness h_comm_L1_9_L1_0 enforce=none loops=0 unwind=10 props=C05 defs=-DVERIF_FP_IEEE,-DSTR_LEN=1,-DSTR_CODE=0x9,-DSTR2_LEN=1,-DSTR2_CODE=0x0,-DMONO_CAP=2UL,-DMAP_CAP=4UL bounded=A=a*(c+1),B=b*(c0);coefficients=a{2,-7},b{-3,-1,2,5};states=3_modes min_obl=616 reach=2 timeout=120
void h_comm_L1_9_L1_0(void) { run_algebra(1); }
//@harness h_comm_L1_9_L1_1 enforce=none loops=0 unwind=10 props=C05 defs=-DVERIF_FP_IEEE,-DSTR_LEN=1,-DSTR_CODE=0x9,-DSTR2_LEN=1,-DSTR2_CODE=0x1,-DMONO_CAP=2UL,-DMAP_CAP=4UL bounded=A=a*(c+1),B=b*(c1);coefficients=a{2,-7},b{-3,-1,2,5};states=3_modes min_obl=616 reach=2 timeout=120
void h_comm_L1_9_L1_1(void) { run_algebra(1); }
//@harness h_comm_L1_0_L1_8 enforce=none loops=0 unwind=10 props=C05 defs=-DVERIF_FP_IEEE,-DSTR_LEN=1,-DSTR_CODE=0x0,-DSTR2_LEN=1,-DSTR2_CODE=0x8,-DMONO_CAP=2UL,-DMAP_CAP=4UL bounded=A=a*(c0),B=b*(c+0);coefficients=a{2,-7},b{-3,-1,2,5};states=3_modes min_obl=616 reach=2 timeout=120
void h_comm_L1_0_L1_8(void) { run_algebra(1); }
//@harness h_comm_L1_0_L1_9 enforce=none loops=0 unwind=10 props=C05 defs=-DVERIF_FP_IEEE,-DSTR_LEN=1,-DSTR_CODE=0x0,-DSTR2_LEN=1,-DSTR2_CODE=0x9,-DMONO_CAP=2UL,-DMAP_CAP=4UL bounded=A=a*(c0),B=b*(c+1);coefficients=a{2,-7},b{-3,-1,2,5};states=3_modes min_obl=616 reach=2 timeout=120
void h_comm_L1_0_L1_9(void) { run_algebra(1); }
//@harness h_comm_L1_0_L1_0 enforce=none loops=0 unwind=10 props=C05 defs=-DVERIF_FP_IEEE,-DSTR_LEN=1,-DSTR_CODE=0x0,-DSTR2_LEN=1,-DSTR2_CODE=0x0,-DMONO_CAP=2UL,-DMAP_CAP=4UL bounded=A=a*(c0),B=b*(c0);coefficients=a{2,-7},b{-3,-1,2,5};states=3_modes min_obl=616 reach=2 timeout=120
void h_comm_L1_0_L1_0(void) { run_algebra(1); }
//@harness h_comm_L1_0_L1_1 enforce=none loops=0 unwind=10 props=C05 defs=-DVERIF_FP_IEEE,-DSTR_LEN=1,-DSTR_CODE=0x0,-DSTR2_LEN=1,-DSTR2_CODE=0x1,-DMONO_CAP=2UL,-DMAP_CAP=4UL bounded=A=a*(c0),B=b*(c1);coefficients=a{2,-7},b{-3,-1,2,5};states=3_modes min_obl=616 reach=2 timeout=120
void h_comm_L1_0_L1_1(void) { run_algebra(1); }
//@harness h_comm_L1_1_L1_8 enforce=none loops=0 unwind=10 props=C05 defs=-DVERIF_FP_IEEE,-DSTR_LEN=1,-DSTR_CODE=0x1,-DSTR2_LEN=1,-DSTR2_CODE=0x8,-DMONO_CAP=2UL,-DMAP_CAP=4UL bounded=A=a*(c1),B=b*(c+0);coefficients=a{2,-7},b{-3,-1,2,5};states=3_modes min_obl=616 reach=2 timeout=120
void h_comm_L1_1_L1_8(void) { run_algebra(1); }
//@harness h_comm_L1_1_L1_9 enforce=none loops=0 unwind=10 props=C05 defs=-DVERIF_FP_IEEE,-DSTR_LEN=1,-DSTR_CODE=0x1,-DSTR2_LEN=1,-DSTR2_CODE=0x9,-DMONO_CAP=2UL,-DMAP_CAP=4UL bounded=A=a*(c1),B=b*(c+1);coefficients=a{2,-7},b{-3,-1,2,5};states=3_modes min_obl=616 reach=2 timeout=120
void h_comm_L1_1_L1_9(void) { run_algebra(1); }
//@harness h_comm_L1_1_L1_0 enforce=none loops=0 unwind=10 props=C05 defs=-DVERIF_FP_IEEE,-DSTR_LEN=1,-DSTR_CODE=0x1,-DSTR2_LEN=1,-DSTR2_CODE=0x0,-DMONO_CAP=2UL,-DMAP_CAP=4UL bounded=A=a*(c1),B=b*(c0);coefficients=a{2,-7},b{-3,-1,2,5};states=3_modes min_obl=616 reach=2 timeout=120
void h_comm_L1_1_L1_0(void) { run_algebra(1); }
//@harness h_comm_L1_1_L1_1 enforce=none loops=0 unwind=10 props=C05 defs=-DVERIF_FP_IEEE,-DSTR_LEN=1,-DSTR_CODE=0x1,-DSTR2_LEN=1,-DSTR2_CODE=0x1,-DMONO_CAP=2UL,-DMAP_CAP=4UL bounded=A=a*(c1),B=b*(c1);coefficients=a{2,-7},b{-3,-1,2,5};states=3_modes min_obl=616 reach=2 timeout=120
void h_comm_L1_1_L1_1(void) { run_algebra(1); }
//@harness h_comm_L2_80_L1_0 enforce=none loops=0 unwind=10 props=C05 defs=-DVERIF_FP_IEEE,-DSTR_LEN=2,-DSTR_CODE=0x80,-DSTR2_LEN=1,-DSTR2_CODE=0x0,-DMONO_CAP=3UL,-DMAP_CAP=4UL bounded=A=a*(c+0.c0),B=b*(c0);coefficients=a{2,-7},b{-3,-1,2,5};states=3_modes min_obl=616 reach=1 timeout=120
void h_comm_L2_80_L1_0(void) { run_algebra(1); }
//@harness h_comm_L2_80_L1_8 enforce=none loops=0 unwind=10 props=C05 defs=-DVERIF_FP_IEEE,-DSTR_LEN=2,-DSTR_CODE=0x80,-DSTR2_LEN=1,-DSTR2_CODE=0x8,-DMONO_CAP=3UL,-DMAP_CAP=4UL bounded=A=a*(c+0.c0),B=b*(c+0);coefficients=a{2,-7},b{-3,-1,2,5};states=3_modes min_obl=616 reach=1 timeout=120
void h_comm_L2_80_L1_8(void) { run_algebra(1); }
//@harness h_comm_L2_80_L2_91 enforce=none loops=0 unwind=10 props=C05 defs=-DVERIF_FP_IEEE,-DSTR_LEN=2,-DSTR_CODE=0x80,-DSTR2_LEN=2,-DSTR2_CODE=0x91,-DMONO_CAP=4UL,-DMAP_CAP=4UL bounded=A=a*(c+0.c0),B=b*(c+1.c1);coefficients=a{2,-7},b{-3,-1,2,5};states=3_modes min_obl=616 reach=1 timeout=120
void h_comm_L2_80_L2_91(void) { run_algebra(1); }
//@harness h_comm_L2_81_L2_90 enforce=none loops=0 unwind=10 props=C05 defs=-DVERIF_FP_IEEE,-DSTR_LEN=2,-DSTR_CODE=0x81,-DSTR2_LEN=2,-DSTR2_CODE=0x90,-DMONO_CAP=4UL,-DMAP_CAP=4UL bounded=A=a*(c+0.c1),B=b*(c+1.c0);coefficients=a{2,-7},b{-3,-1,2,5};states=3_modes min_obl=616 reach=1 timeout=120
void h_comm_L2_81_L2_90(void) { run_algebra(1); }
//@harness h_comm_L2_80_L2_81 enforce=none loops=0 unwind=10 props=C05 defs=-DVERIF_FP_IEEE,-DSTR_LEN=2,-DSTR_CODE=0x80,-DSTR2_LEN=2,-DSTR2_CODE=0x81,-DMONO_CAP=4UL,-DMAP_CAP=4UL bounded=A=a*(c+0.c0),B=b*(c+0.c1);coefficients=a{2,-7},b{-3,-1,2,5};states=3_modes min_obl=616 reach=1 timeout=120
void h_comm_L2_80_L2_81(void) { run_algebra(1); }
//@harness h_comm_L2_80_p_L2_91_L2_81 enforce=none loops=0 unwind=10 props=C05 defs=-DVERIF_FP_IEEE,-DSTR_LEN=2,-DSTR_CODE=0x80,-DSTR2_LEN=2,-DSTR2_CODE=0x81,-DSTRB_LEN=2,-DSTRB_CODE=0x91,-DMONO_CAP=4UL,-DMAP_CAP=8UL bounded=A=a*(c+0.c0+c+1.c1),B=b*(c+0.c1);coefficients=a{2,-7},b{-3,-1,2,5};states=3_modes min_obl=616 reach=1 timeout=120
void h_comm_L2_80_p_L2_91_L2_81(void) { run_algebra(1); }
//@harness h_assoc_L1_0_L1_8_L1_0 enforce=none loops=0 unwind=10 props=C05 defs=-DVERIF_FP_IEEE,-DSTR_LEN=1,-DSTR_CODE=0x0,-DSTR2_LEN=1,-DSTR2_CODE=0x8,-DSTR3_LEN=1,-DSTR3_CODE=0x0,-DMONO_CAP=3UL,-DMAP_CAP=4UL bounded=A=a*(c0),B=b*(c+0),C=3*(c0);coefficients=a{2,-7},b{-3,-1,2,5};states=3_modes min_obl=616 reach=1 timeout=120
void h_assoc_L1_0_L1_8_L1_0(void) { run_algebra(2); }
//@harness h_assoc_L1_1_L1_0_L2_98 enforce=none loops=0 unwind=10 props=C05 defs=-DVERIF_FP_IEEE,-DSTR_LEN=1,-DSTR_CODE=0x1,-DSTR2_LEN=1,-DSTR2_CODE=0x0,-DSTR3_LEN=2,-DSTR3_CODE=0x98,-DMONO_CAP=4UL,-DMAP_CAP=4UL bounded=A=a*(c1),B=b*(c0),C=3*(c+1.c+0);coefficients=a{2,-7},b{-3,-1,2,5};states=3_modes min_obl=616 reach=1 timeout=120
void h_assoc_L1_1_L1_0_L2_98(void) { run_algebra(2); }
//@harness h_assoc_L1_0_L1_1_L2_98 enforce=none loops=0 unwind=10 props=C05 defs=-DVERIF_FP_IEEE,-DSTR_LEN=1,-DSTR_CODE=0x0,-DSTR2_LEN=1,-DSTR2_CODE=0x1,-DSTR3_LEN=2,-DSTR3_CODE=0x98,-DMONO_CAP=4UL,-DMAP_CAP=4UL bounded=A=a*(c0),B=b*(c1),C=3*(c+1.c+0);coefficients=a{2,-7},b{-3,-1,2,5};states=3_modes min_obl=616 reach=1 timeout=120
void h_assoc_L1_0_L1_1_L2_98(void) { run_algebra(2); }
//@harness h_assoc_L2_80_L2_91_L2_80 enforce=none loops=0 unwind=10 props=C05 defs=-DVERIF_FP_IEEE,-DSTR_LEN=2,-DSTR_CODE=0x80,-DSTR2_LEN=2,-DSTR2_CODE=0x91,-DSTR3_LEN=2,-DSTR3_CODE=0x80,-DMONO_CAP=6UL,-DMAP_CAP=8UL bounded=A=a*(c+0.c0),B=b*(c+1.c1),C=3*(c+0.c0);coefficients=a{2,-7},b{-3,-1,2,5};states=3_modes min_obl=616 reach=1 timeout=120
void h_assoc_L2_80_L2_91_L2_80(void) { run_algebra(2); }
//@harness h_assoc_L1_0_L1_9_L2_81 enforce=none loops=0 unwind=10 props=C05 defs=-DVERIF_FP_IEEE,-DSTR_LEN=1,-DSTR_CODE=0x0,-DSTR2_LEN=1,-DSTR2_CODE=0x9,-DSTR3_LEN=2,-DSTR3_CODE=0x81,-DMONO_CAP=4UL,-DMAP_CAP=4UL bounded=A=a*(c0),B=b*(c+1),C=3*(c+0.c1);coefficients=a{2,-7},b{-3,-1,2,5};states=3_modes min_obl=616 reach=1 timeout=120
void h_assoc_L1_0_L1_9_L2_81(void) { run_algebra(2); }
//@harness h_assoc_L1_1_L1_9_L1_1 enforce=none loops=0 unwind=10 props=C05 defs=-DVERIF_FP_IEEE,-DSTR_LEN=1,-DSTR_CODE=0x1,-DSTR2_LEN=1,-DSTR2_CODE=0x9,-DSTR3_LEN=1,-DSTR3_CODE=0x1,-DMONO_CAP=3UL,-DMAP_CAP=4UL bounded=A=a*(c1),B=b*(c+1),C=3*(c1);coefficients=a{2,-7},b{-3,-1,2,5};states=3_modes min_obl=616 reach=1 timeout=120
void h_assoc_L1_1_L1_9_L1_1(void) { run_algebra(2); }
//@harness h_assoc_L2_08_L1_0_L1_8 enforce=none loops=0 unwind=10 props=C05 defs=-DVERIF_FP_IEEE,-DSTR_LEN=2,-DSTR_CODE=0x08,-DSTR2_LEN=1,-DSTR2_CODE=0x0,-DSTR3_LEN=1,-DSTR3_CODE=0x8,-DMONO_CAP=4UL,-DMAP_CAP=4UL bounded=A=a*(c0.c+0),B=b*(c0),C=3*(c+0);coefficients=a{2,-7},b{-3,-1,2,5};states=3_modes min_obl=616 reach=1 timeout=120
void h_assoc_L2_08_L1_0_L1_8(void) { run_algebra(2); }
//@harness h_assoc_L1_8_L2_08_L1_0 enforce=none loops=0 unwind=10 props=C05 defs=-DVERIF_FP_IEEE,-DSTR_LEN=1,-DSTR_CODE=0x8,-DSTR2_LEN=2,-DSTR2_CODE=0x08,-DSTR3_LEN=1,-DSTR3_CODE=0x0,-DMONO_CAP=4UL,-DMAP_CAP=4UL bounded=A=a*(c+0),B=b*(c0.c+0),C=3*(c0);coefficients=a{2,-7},b{-3,-1,2,5};states=3_modes min_obl=616 reach=1 timeout=120
void h_assoc_L1_8_L2_08_L1_0(void) { run_algebra(2); }
//@harness h_no_L1_P_M3 enforce=none loops=0 unwind=10 props=C05 defs=-DVERIF_FP_IEEE,-DSTR_LEN=1,-DSTR_CODE=0x0,-DSTR_SUFFIX=1,-DSTR_MODES=3,-DMONO_CAP=2UL,-DMAP_CAP=4UL bounded=strings=any_over_3_modes;coefficient=nonzero_integer<=2^20;states=3_modes min_obl=616 reach=1 timeout=450 tier=thorough
void h_no_L1_P_M3(void) { run_strings(); }
//@harness h_no_L2_P_M3 enforce=none loops=0 unwind=10 props=C05 defs=-DVERIF_FP_IEEE,-DSTR_LEN=2,-DSTR_CODE=0x0,-DSTR_SUFFIX=2,-DSTR_MODES=3,-DMONO_CAP=2UL,-DMAP_CAP=4UL bounded=strings=anyxany_over_3_modes;coefficient=nonzero_integer<=2^20;states=3_modes min_obl=616 reach=1 timeout=450 tier=thorough
void h_no_L2_P_M3(void) { run_strings(); }
//@harness h_no_L3_P8_M3 enforce=none loops=0 unwind=10 props=C05 defs=-DVERIF_FP_IEEE,-DSTR_LEN=3,-DSTR_CODE=0x8,-DSTR_SUFFIX=2,-DSTR_MODES=3,-DMONO_CAP=3UL,-DMAP_CAP=4UL bounded=strings=c+0.anyxany_over_3_modes;coefficient=nonzero_integer<=2^20;states=3_modes min_obl=616 reach=1 timeout=450 tier=thorough
void h_no_L3_P8_M3(void) { run_strings(); }
//@harness h_no_L3_P9_M3 enforce=none loops=0 unwind=10 props=C05 defs=-DVERIF_FP_IEEE,-DSTR_LEN=3,-DSTR_CODE=0x9,-DSTR_SUFFIX=2,-DSTR_MODES=3,-DMONO_CAP=3UL,-DMAP_CAP=4UL bounded=strings=c+1.anyxany_over_3_modes;coefficient=nonzero_integer<=2^20;states=3_modes min_obl=616 reach=1 timeout=450 tier=thorough
void h_no_L3_P9_M3(void) { run_strings(); }
//@harness h_no_L3_PA_M3 enforce=none loops=0 unwind=10 props=C05 defs=-DVERIF_FP_IEEE,-DSTR_LEN=3,-DSTR_CODE=0xA,-DSTR_SUFFIX=2,-DSTR_MODES=3,-DMONO_CAP=3UL,-DMAP_CAP=4UL bounded=strings=c+2.anyxany_over_3_modes;coefficient=nonzero_integer<=2^20;states=3_modes min_obl=616 reach=1 timeout=450 tier=thorough
void h_no_L3_PA_M3(void) { run_strings(); }
//@harness h_no_L3_P0_M3 enforce=none loops=0 unwind=10 props=C05 defs=-DVERIF_FP_IEEE,-DSTR_LEN=3,-DSTR_CODE=0x0,-DSTR_SUFFIX=2,-DSTR_MODES=3,-DMONO_CAP=3UL,-DMAP_CAP=4UL bounded=strings=c0.anyxany_over_3_modes;coefficient=nonzero_integer<=2^20;states=3_modes min_obl=616 reach=1 timeout=450 tier=thorough
void h_no_L3_P0_M3(void) { run_strings(); }
//@harness h_no_L3_P1_M3 enforce=none loops=0 unwind=10 props=C05 defs=-DVERIF_FP_IEEE,-DSTR_LEN=3,-DSTR_CODE=0x1,-DSTR_SUFFIX=2,-DSTR_MODES=3,-DMONO_CAP=3UL,-DMAP_CAP=4UL bounded=strings=c1.anyxany_over_3_modes;coefficient=nonzero_integer<=2^20;states=3_modes min_obl=616 reach=1 timeout=450 tier=thorough
void h_no_L3_P1_M3(void) { run_strings(); }
//@harness h_no_L3_P2_M3 enforce=none loops=0 unwind=10 props=C05 defs=-DVERIF_FP_IEEE,-DSTR_LEN=3,-DSTR_CODE=0x2,-DSTR_SUFFIX=2,-DSTR_MODES=3,-DMONO_CAP=3UL,-DMAP_CAP=4UL bounded=strings=c2.anyxany_over_3_modes;coefficient=nonzero_integer<=2^20;states=3_modes min_obl=616 reach=1 timeout=450 tier=thorough
void h_no_L3_P2_M3(void) { run_strings(); }
//@harness h_no_L4_P88_M3 enforce=none loops=0 unwind=10 props=C05 defs=-DVERIF_FP_IEEE,-DSTR_LEN=4,-DSTR_CODE=0x88,-DSTR_SUFFIX=2,-DSTR_MODES=3,-DMONO_CAP=4UL,-DMAP_CAP=4UL bounded=strings=c+0.c+0.anyxany_over_3_modes;coefficient=nonzero_integer<=2^20;states=3_modes min_obl=616 reach=1 timeout=450 tier=thorough
void h_no_L4_P88_M3(void) { run_strings(); }
//@harness h_no_L4_P89_M3 enforce=none loops=0 unwind=10 props=C05 defs=-DVERIF_FP_IEEE,-DSTR_LEN=4,-DSTR_CODE=0x89,-DSTR_SUFFIX=2,-DSTR_MODES=3,-DMONO_CAP=4UL,-DMAP_CAP=4UL bounded=strings=c+0.c+1.anyxany_over_3_modes;coefficient=nonzero_integer<=2^20;states=3_modes min_obl=616 reach=1 timeout=450 tier=thorough
void h_no_L4_P89_M3(void) { run_strings(); }
//@harness h_no_L4_P8A_M3 enforce=none loops=0 unwind=10 props=C05 defs=-DVERIF_FP_IEEE,-DSTR_LEN=4,-DSTR_CODE=0x8A,-DSTR_SUFFIX=2,-DSTR_MODES=3,-DMONO_CAP=4UL,-DMAP_CAP=4UL bounded=strings=c+0.c+2.anyxany_over_3_modes;coefficient=nonzero_integer<=2^20;states=3_modes min_obl=616 reach=1 timeout=450 tier=thorough
void h_no_L4_P8A_M3(void) { run_strings(); }
//@harness h_no_L4_P80_M3 enforce=none loops=0 unwind=10 props=C05 defs=-DVERIF_FP_IEEE,-DSTR_LEN=4,-DSTR_CODE=0x80,-DSTR_SUFFIX=2,-DSTR_MODES=3,-DMONO_CAP=4UL,-DMAP_CAP=4UL bounded=strings=c+0.c0.anyxany_over_3_modes;coefficient=nonzero_integer<=2^20;states=3_modes min_obl=616 reach=1 timeout=450 tier=thorough
void h_no_L4_P80_M3(void) { run_strings(); }
//@harness h_no_L4_P81_M3 enforce=none loops=0 unwind=10 props=C05 defs=-DVERIF_FP_IEEE,-DSTR_LEN=4,-DSTR_CODE=0x81,-DSTR_SUFFIX=2,-DSTR_MODES=3,-DMONO_CAP=4UL,-DMAP_CAP=4UL bounded=strings=c+0.c1.anyxany_over_3_modes;coefficient=nonzero_integer<=2^20;states=3_modes min_obl=616 reach=1 timeout=450 tier=thorough
void h_no_L4_P81_M3(void) { run_strings(); }
//@harness h_no_L4_P82_M3 enforce=none loops=0 unwind=10 props=C05 defs=-DVERIF_FP_IEEE,-DSTR_LEN=4,-DSTR_CODE=0x82,-DSTR_SUFFIX=2,-DSTR_MODES=3,-DMONO_CAP=4UL,-DMAP_CAP=4UL bounded=strings=c+0.c2.anyxany_over_3_modes;coefficient=nonzero_integer<=2^20;states=3_modes min_obl=616 reach=1 timeout=450 tier=thorough
void h_no_L4_P82_M3(void) { run_strings(); }
//@harness h_no_L4_P98_M3 enforce=none loops=0 unwind=10 props=C05 defs=-DVERIF_FP_IEEE,-DSTR_LEN=4,-DSTR_CODE=0x98,-DSTR_SUFFIX=2,-DSTR_MODES=3,-DMONO_CAP=4UL,-DMAP_CAP=4UL bounded=strings=c+1.c+0.anyxany_over_3_modes;coefficient=nonzero_integer<=2^20;states=3_modes min_obl=616 reach=1 timeout=450 tier=thorough
void h_no_L4_P98_M3(void) { run_strings(); }
//@harness h_no_L4_P99_M3 enforce=none loops=0 unwind=10 props=C05 defs=-DVERIF_FP_IEEE,-DSTR_LEN=4,-DSTR_CODE=0x99,-DSTR_SUFFIX=2,-DSTR_MODES=3,-DMONO_CAP=4UL,-DMAP_CAP=4UL bounded=strings=c+1.c+1.anyxany_over_3_modes;coefficient=nonzero_integer<=2^20;states=3_modes min_obl=616 reach=1 timeout=450 tier=thorough
void h_no_L4_P99_M3(void) { run_strings(); }
//@harness h_no_L4_P9A_M3 enforce=none loops=0 unwind=10 props=C05 defs=-DVERIF_FP_IEEE,-DSTR_LEN=4,-DSTR_CODE=0x9A,-DSTR_SUFFIX=2,-DSTR_MODES=3,-DMONO_CAP=4UL,-DMAP_CAP=4UL bounded=strings=c+1.c+2.anyxany_over_3_modes;coefficient=nonzero_integer<=2^20;states=3_modes min_obl=616 reach=1 timeout=450 tier=thorough
void h_no_L4_P9A_M3(void) { run_strings(); }
//@harness h_no_L4_P90_M3 enforce=none loops=0 unwind=10 props=C05 defs=-DVERIF_FP_IEEE,-DSTR_LEN=4,-DSTR_CODE=0x90,-DSTR_SUFFIX=2,-DSTR_MODES=3,-DMONO_CAP=4UL,-DMAP_CAP=4UL bounded=strings=c+1.c0.anyxany_over_3_modes;coefficient=nonzero_integer<=2^20;states=3_modes min_obl=616 reach=1 timeout=450 tier=thorough
void h_no_L4_P90_M3(void) { run_strings(); }
//@harness h_no_L4_P91_M3 enforce=none loops=0 unwind=10 props=C05 defs=-DVERIF_FP_IEEE,-DSTR_LEN=4,-DSTR_CODE=0x91,-DSTR_SUFFIX=2,-DSTR_MODES=3,-DMONO_CAP=4UL,-DMAP_CAP=4UL bounded=strings=c+1.c1.anyxany_over_3_modes;coefficient=nonzero_integer<=2^20;states=3_modes min_obl=616 reach=1 timeout=450 tier=thorough
void h_no_L4_P91_M3(void) { run_strings(); }
//@harness h_no_L4_P92_M3 enforce=none loops=0 unwind=10 props=C05 defs=-DVERIF_FP_IEEE,-DSTR_LEN=4,-DSTR_CODE=0x92,-DSTR_SUFFIX=2,-DSTR_MODES=3,-DMONO_CAP=4UL,-DMAP_CAP=4UL bounded=strings=c+1.c2.anyxany_over_3_modes;coefficient=nonzero_integer<=2^20;states=3_modes min_obl=616 reach=1 timeout=450 tier=thorough
void h_no_L4_P92_M3(void) { run_strings(); }
//@harness h_no_L4_PA8_M3 enforce=none loops=0 unwind=10 props=C05 defs=-DVERIF_FP_IEEE,-DSTR_LEN=4,-DSTR_CODE=0xA8,-DSTR_SUFFIX=2,-DSTR_MODES=3,-DMONO_CAP=4UL,-DMAP_CAP=4UL bounded=strings=c+2.c+0.anyxany_over_3_modes;coefficient=nonzero_integer<=2^20;states=3_modes min_obl=616 reach=1 timeout=450 tier=thorough
void h_no_L4_PA8_M3(void) { run_strings(); }
//@harness h_no_L4_PA9_M3 enforce=none loops=0 unwind=10 props=C05 defs=-DVERIF_FP_IEEE,-DSTR_LEN=4,-DSTR_CODE=0xA9,-DSTR_SUFFIX=2,-DSTR_MODES=3,-DMONO_CAP=4UL,-DMAP_CAP=4UL bounded=strings=c+2.c+1.anyxany_over_3_modes;coefficient=nonzero_integer<=2^20;states=3_modes min_obl=616 reach=1 timeout=450 tier=thorough
void h_no_L4_PA9_M3(void) { run_strings(); }
//@harness h_no_L4_PAA_M3 enforce=none loops=0 unwind=10 props=C05 defs=-DVERIF_FP_IEEE,-DSTR_LEN=4,-DSTR_CODE=0xAA,-DSTR_SUFFIX=2,-DSTR_MODES=3,-DMONO_CAP=4UL,-DMAP_CAP=4UL bounded=strings=c+2.c+2.anyxany_over_3_modes;coefficient=nonzero_integer<=2^20;states=3_modes min_obl=616 reach=1 timeout=450 tier=thorough
void h_no_L4_PAA_M3(void) { run_strings(); }
//@harness h_no_L4_PA0_M3 enforce=none loops=0 unwind=10 props=C05 defs=-DVERIF_FP_IEEE,-DSTR_LEN=4,-DSTR_CODE=0xA0,-DSTR_SUFFIX=2,-DSTR_MODES=3,-DMONO_CAP=4UL,-DMAP_CAP=4UL bounded=strings=c+2.c0.anyxany_over_3_modes;coefficient=nonzero_integer<=2^20;states=3_modes min_obl=616 reach=1 timeout=450 tier=thorough
void h_no_L4_PA0_M3(void) { run_strings(); }
//@harness h_no_L4_PA1_M3 enforce=none loops=0 unwind=10 props=C05 defs=-DVERIF_FP_IEEE,-DSTR_LEN=4,-DSTR_CODE=0xA1,-DSTR_SUFFIX=2,-DSTR_MODES=3,-DMONO_CAP=4UL,-DMAP_CAP=4UL bounded=strings=c+2.c1.anyxany_over_3_modes;coefficient=nonzero_integer<=2^20;states=3_modes min_obl=616 reach=1 timeout=450 tier=thorough
void h_no_L4_PA1_M3(void) { run_strings(); }
//@harness h_no_L4_PA2_M3 enforce=none loops=0 unwind=10 props=C05 defs=-DVERIF_FP_IEEE,-DSTR_LEN=4,-DSTR_CODE=0xA2,-DSTR_SUFFIX=2,-DSTR_MODES=3,-DMONO_CAP=4UL,-DMAP_CAP=4UL bounded=strings=c+2.c2.anyxany_over_3_modes;coefficient=nonzero_integer<=2^20;states=3_modes min_obl=616 reach=1 timeout=450 tier=thorough
void h_no_L4_PA2_M3(void) { run_strings(); }
//@harness h_no_L4_P08_M3 enforce=none loops=0 unwind=10 props=C05 defs=-DVERIF_FP_IEEE,-DSTR_LEN=4,-DSTR_CODE=0x08,-DSTR_SUFFIX=2,-DSTR_MODES=3,-DMONO_CAP=4UL,-DMAP_CAP=4UL bounded=strings=c0.c+0.anyxany_over_3_modes;coefficient=nonzero_integer<=2^20;states=3_modes min_obl=616 reach=1 timeout=450 tier=thorough
void h_no_L4_P08_M3(void) { run_strings(); }
//@harness h_no_L4_P09_M3 enforce=none loops=0 unwind=10 props=C05 defs=-DVERIF_FP_IEEE,-DSTR_LEN=4,-DSTR_CODE=0x09,-DSTR_SUFFIX=2,-DSTR_MODES=3,-DMONO_CAP=4UL,-DMAP_CAP=4UL bounded=strings=c0.c+1.anyxany_over_3_modes;coefficient=nonzero_integer<=2^20;states=3_modes min_obl=616 reach=1 timeout=450 tier=thorough
void h_no_L4_P09_M3(void) { run_strings(); }
//@harness h_no_L4_P0A_M3 enforce=none loops=0 unwind=10 props=C05 defs=-DVERIF_FP_IEEE,-DSTR_LEN=4,-DSTR_CODE=0x0A,-DSTR_SUFFIX=2,-DSTR_MODES=3,-DMONO_CAP=4UL,-DMAP_CAP=4UL bounded=strings=c0.c+2.anyxany_over_3_modes;coefficient=nonzero_integer<=2^20;states=3_modes min_obl=616 reach=1 timeout=450 tier=thorough
void h_no_L4_P0A_M3(void) { run_strings(); }
//@harness h_no_L4_P00_M3 enforce=none loops=0 unwind=10 props=C05 defs=-DVERIF_FP_IEEE,-DSTR_LEN=4,-DSTR_CODE=0x00,-DSTR_SUFFIX=2,-DSTR_MODES=3,-DMONO_CAP=4UL,-DMAP_CAP=4UL bounded=strings=c0.c0.anyxany_over_3_modes;coefficient=nonzero_integer<=2^20;states=3_modes min_obl=616 reach=1 timeout=450 tier=thorough
void h_no_L4_P00_M3(void) { run_strings(); }
//@harness h_no_L4_P01_M3 enforce=none loops=0 unwind=10 props=C05 defs=-DVERIF_FP_IEEE,-DSTR_LEN=4,-DSTR_CODE=0x01,-DSTR_SUFFIX=2,-DSTR_MODES=3,-DMONO_CAP=4UL,-DMAP_CAP=4UL bounded=strings=c0.c1.anyxany_over_3_modes;coefficient=nonzero_integer<=2^20;states=3_modes min_obl=616 reach=1 timeout=450 tier=thorough
void h_no_L4_P01_M3(void) { run_strings(); }
//@harness h_no_L4_P02_M3 enforce=none loops=0 unwind=10 props=C05 defs=-DVERIF_FP_IEEE,-DSTR_LEN=4,-DSTR_CODE=0x02,-DSTR_SUFFIX=2,-DSTR_MODES=3,-DMONO_CAP=4UL,-DMAP_CAP=4UL bounded=strings=c0.c2.anyxany_over_3_modes;coefficient=nonzero_integer<=2^20;states=3_modes min_obl=616 reach=1 timeout=450 tier=thorough
void h_no_L4_P02_M3(void) { run_strings(); }
//@harness h_no_L4_P18_M3 enforce=none loops=0 unwind=10 props=C05 defs=-DVERIF_FP_IEEE,-DSTR_LEN=4,-DSTR_CODE=0x18,-DSTR_SUFFIX=2,-DSTR_MODES=3,-DMONO_CAP=4UL,-DMAP_CAP=4UL bounded=strings=c1.c+0.anyxany_over_3_modes;coefficient=nonzero_integer<=2^20;states=3_modes min_obl=616 reach=1 timeout=450 tier=thorough
void h_no_L4_P18_M3(void) { run_strings(); }
//@harness h_no_L4_P19_M3 enforce=none loops=0 unwind=10 props=C05 defs=-DVERIF_FP_IEEE,-DSTR_LEN=4,-DSTR_CODE=0x19,-DSTR_SUFFIX=2,-DSTR_MODES=3,-DMONO_CAP=4UL,-DMAP_CAP=4UL bounded=strings=c1.c+1.anyxany_over_3_modes;coefficient=nonzero_integer<=2^20;states=3_modes min_obl=616 reach=1 timeout=450 tier=thorough
void h_no_L4_P19_M3(void) { run_strings(); }
//@harness h_no_L4_P1A_M3 enforce=none loops=0 unwind=10 props=C05 defs=-DVERIF_FP_IEEE,-DSTR_LEN=4,-DSTR_CODE=0x1A,-DSTR_SUFFIX=2,-DSTR_MODES=3,-DMONO_CAP=4UL,-DMAP_CAP=4UL bounded=strings=c1.c+2.anyxany_over_3_modes;coefficient=nonzero_integer<=2^20;states=3_modes min_obl=616 reach=1 timeout=450 tier=thorough
void h_no_L4_P1A_M3(void) { run_strings(); }
//@harness h_no_L4_P10_M3 enforce=none loops=0 unwind=10 props=C05 defs=-DVERIF_FP_IEEE,-DSTR_LEN=4,-DSTR_CODE=0x10,-DSTR_SUFFIX=2,-DSTR_MODES=3,-DMONO_CAP=4UL,-DMAP_CAP=4UL bounded=strings=c1.c0.anyxany_over_3_modes;coefficient=nonzero_integer<=2^20;states=3_modes min_obl=616 reach=1 timeout=450 tier=thorough
void h_no_L4_P10_M3(void) { run_strings(); }
//@harness h_no_L4_P11_M3 enforce=none loops=0 unwind=10 props=C05 defs=-DVERIF_FP_IEEE,-DSTR_LEN=4,-DSTR_CODE=0x11,-DSTR_SUFFIX=2,-DSTR_MODES=3,-DMONO_CAP=4UL,-DMAP_CAP=4UL bounded=strings=c1.c1.anyxany_over_3_modes;coefficient=nonzero_integer<=2^20;states=3_modes min_obl=616 reach=1 timeout=450 tier=thorough
void h_no_L4_P11_M3(void) { run_strings(); }
//@harness h_no_L4_P12_M3 enforce=none loops=0 unwind=10 props=C05 defs=-DVERIF_FP_IEEE,-DSTR_LEN=4,-DSTR_CODE=0x12,-DSTR_SUFFIX=2,-DSTR_MODES=3,-DMONO_CAP=4UL,-DMAP_CAP=4UL bounded=strings=c1.c2.anyxany_over_3_modes;coefficient=nonzero_integer<=2^20;states=3_modes min_obl=616 reach=1 timeout=450 tier=thorough
void h_no_L4_P12_M3(void) { run_strings(); }
//@harness h_no_L4_P28_M3 enforce=none loops=0 unwind=10 props=C05 defs=-DVERIF_FP_IEEE,-DSTR_LEN=4,-DSTR_CODE=0x28,-DSTR_SUFFIX=2,-DSTR_MODES=3,-DMONO_CAP=4UL,-DMAP_CAP=4UL bounded=strings=c2.c+0.anyxany_over_3_modes;coefficient=nonzero_integer<=2^20;states=3_modes min_obl=616 reach=1 timeout=450 tier=thorough
void h_no_L4_P28_M3(void) { run_strings(); }
//@harness h_no_L4_P29_M3 enforce=none loops=0 unwind=10 props=C05 defs=-DVERIF_FP_IEEE,-DSTR_LEN=4,-DSTR_CODE=0x29,-DSTR_SUFFIX=2,-DSTR_MODES=3,-DMONO_CAP=4UL,-DMAP_CAP=4UL bounded=strings=c2.c+1.anyxany_over_3_modes;coefficient=nonzero_integer<=2^20;states=3_modes min_obl=616 reach=1 timeout=450 tier=thorough
void h_no_L4_P29_M3(void) { run_strings(); }
//@harness h_no_L4_P2A_M3 enforce=none loops=0 unwind=10 props=C05 defs=-DVERIF_FP_IEEE,-DSTR_LEN=4,-DSTR_CODE=0x2A,-DSTR_SUFFIX=2,-DSTR_MODES=3,-DMONO_CAP=4UL,-DMAP_CAP=4UL bounded=strings=c2.c+2.anyxany_over_3_modes;coefficient=nonzero_integer<=2^20;states=3_modes min_obl=616 reach=1 timeout=450 tier=thorough
void h_no_L4_P2A_M3(void) { run_strings(); }
//@harness h_no_L4_P20_M3 enforce=none loops=0 unwind=10 props=C05 defs=-DVERIF_FP_IEEE,-DSTR_LEN=4,-DSTR_CODE=0x20,-DSTR_SUFFIX=2,-DSTR_MODES=3,-DMONO_CAP=4UL,-DMAP_CAP=4UL bounded=strings=c2.c0.anyxany_over_3_modes;coefficient=nonzero_integer<=2^20;states=3_modes min_obl=616 reach=1 timeout=450 tier=thorough
void h_no_L4_P20_M3(void) { run_strings(); }
//@harness h_no_L4_P21_M3 enforce=none loops=0 unwind=10 props=C05 defs=-DVERIF_FP_IEEE,-DSTR_LEN=4,-DSTR_CODE=0x21,-DSTR_SUFFIX=2,-DSTR_MODES=3,-DMONO_CAP=4UL,-DMAP_CAP=4UL bounded=strings=c2.c1.anyxany_over_3_modes;coefficient=nonzero_integer<=2^20;states=3_modes min_obl=616 reach=1 timeout=450 tier=thorough
void h_no_L4_P21_M3(void) { run_strings(); }
//@harness h_no_L4_P22_M3 enforce=none loops=0 unwind=10 props=C05 defs=-DVERIF_FP_IEEE,-DSTR_LEN=4,-DSTR_CODE=0x22,-DSTR_SUFFIX=2,-DSTR_MODES=3,-DMONO_CAP=4UL,-DMAP_CAP=4UL bounded=strings=c2.c2.anyxany_over_3_modes;coefficient=nonzero_integer<=2^20;states=3_modes min_obl=616 reach=1 timeout=450 tier=thorough
void h_no_L4_P22_M3(void) { run_strings(); }
//@harness h_no_L5_P888_M2 enforce=none loops=0 unwind=10 props=C05 defs=-DVERIF_FP_IEEE,-DSTR_LEN=5,-DSTR_CODE=0x888,-DSTR_SUFFIX=2,-DSTR_MODES=2,-DMONO_CAP=5UL,-DMAP_CAP=4UL bounded=strings=c+0.c+0.c+0.anyxany_over_2_modes;coefficient=nonzero_integer<=2^20;states=3_modes min_obl=616 reach=1 timeout=450 tier=thorough
void h_no_L5_P888_M2(void) { run_strings(); }
//@harness h_no_L5_P889_M2 enforce=none loops=0 unwind=10 props=C05 defs=-DVERIF_FP_IEEE,-DSTR_LEN=5,-DSTR_CODE=0x889,-DSTR_SUFFIX=2,-DSTR_MODES=2,-DMONO_CAP=5UL,-DMAP_CAP=4UL bounded=strings=c+0.c+0.c+1.anyxany_over_2_modes;coefficient=nonzero_integer<=2^20;states=3_modes min_obl=616 reach=1 timeout=450 tier=thorough
void h_no_L5_P889_M2(void) { run_strings(); }
//@harness h_no_L5_P880_M2 enforce=none loops=0 unwind=10 props=C05 defs=-DVERIF_FP_IEEE,-DSTR_LEN=5,-DSTR_CODE=0x880,-DSTR_SUFFIX=2,-DSTR_MODES=2,-DMONO_CAP=5UL,-DMAP_CAP=4UL bounded=strings=c+0.c+0.c0.anyxany_over_2_modes;coefficient=nonzero_integer<=2^20;states=3_modes min_obl=616 reach=1 timeout=450 tier=thorough
void h_no_L5_P880_M2(void) { run_strings(); }
//@harness h_no_L5_P881_M2 enforce=none loops=0 unwind=10 props=C05 defs=-DVERIF_FP_IEEE,-DSTR_LEN=5,-DSTR_CODE=0x881,-DSTR_SUFFIX=2,-DSTR_MODES=2,-DMONO_CAP=5UL,-DMAP_CAP=4UL bounded=strings=c+0.c+0.c1.anyxany_over_2_modes;coefficient=nonzero_integer<=2^20;states=3_modes min_obl=616 reach=1 timeout=450 tier=thorough
void h_no_L5_P881_M2(void) { run_strings(); }
//@harness h_no_L5_P898_M2 enforce=none loops=0 unwind=10 props=C05 defs=-DVERIF_FP_IEEE,-DSTR_LEN=5,-DSTR_CODE=0x898,-DSTR_SUFFIX=2,-DSTR_MODES=2,-DMONO_CAP=5UL,-DMAP_CAP=4UL bounded=strings=c+0.c+1.c+0.anyxany_over_2_modes;coefficient=nonzero_integer<=2^20;states=3_modes min_obl=616 reach=1 timeout=450 tier=thorough
void h_no_L5_P898_M2(void) { run_strings(); }
//@harness h_no_L5_P899_M2 enforce=none loops=0 unwind=10 props=C05 defs=-DVERIF_FP_IEEE,-DSTR_LEN=5,-DSTR_CODE=0x899,-DSTR_SUFFIX=2,-DSTR_MODES=2,-DMONO_CAP=5UL,-DMAP_CAP=4UL bounded=strings=c+0.c+1.c+1.anyxany_over_2_modes;coefficient=nonzero_integer<=2^20;states=3_modes min_obl=616 reach=1 timeout=450 tier=thorough
void h_no_L5_P899_M2(void) { run_strings(); }
//@harness h_no_L5_P890_M2 enforce=none loops=0 unwind=10 props=C05 defs=-DVERIF_FP_IEEE,-DSTR_LEN=5,-DSTR_CODE=0x890,-DSTR_SUFFIX=2,-DSTR_MODES=2,-DMONO_CAP=5UL,-DMAP_CAP=4UL bounded=strings=c+0.c+1.c0.anyxany_over_2_modes;coefficient=nonzero_integer<=2^20;states=3_modes min_obl=616 reach=1 timeout=450 tier=thorough
void h_no_L5_P890_M2(void) { run_strings(); }
//@harness h_no_L5_P891_M2 enforce=none loops=0 unwind=10 props=C05 defs=-DVERIF_FP_IEEE,-DSTR_LEN=5,-DSTR_CODE=0x891,-DSTR_SUFFIX=2,-DSTR_MODES=2,-DMONO_CAP=5UL,-DMAP_CAP=4UL bounded=strings=c+0.c+1.c1.anyxany_over_2_modes;coefficient=nonzero_integer<=2^20;states=3_modes min_obl=616 reach=1 timeout=450 tier=thorough
void h_no_L5_P891_M2(void) { run_strings(); }
//@harness h_no_L5_P808_M2 enforce=none loops=0 unwind=10 props=C05 defs=-DVERIF_FP_IEEE,-DSTR_LEN=5,-DSTR_CODE=0x808,-DSTR_SUFFIX=2,-DSTR_MODES=2,-DMONO_CAP=5UL,-DMAP_CAP=4UL bounded=strings=c+0.c0.c+0.anyxany_over_2_modes;coefficient=nonzero_integer<=2^20;states=3_modes min_obl=616 reach=1 timeout=450 tier=thorough
void h_no_L5_P808_M2(void) { run_strings(); }
//@harness h_no_L5_P809_M2 enforce=none loops=0 unwind=10 props=C05 defs=-DVERIF_FP_IEEE,-DSTR_LEN=5,-DSTR_CODE=0x809,-DSTR_SUFFIX=2,-DSTR_MODES=2,-DMONO_CAP=5UL,-DMAP_CAP=4UL bounded=strings=c+0.c0.c+1.anyxany_over_2_modes;coefficient=nonzero_integer<=2^20;states=3_modes min_obl=616 reach=1 timeout=450 tier=thorough
void h_no_L5_P809_M2(void) { run_strings(); }
//@harness h_no_L5_P800_M2 enforce=none loops=0 unwind=10 props=C05 defs=-DVERIF_FP_IEEE,-DSTR_LEN=5,-DSTR_CODE=0x800,-DSTR_SUFFIX=2,-DSTR_MODES=2,-DMONO_CAP=5UL,-DMAP_CAP=4UL bounded=strings=c+0.c0.c0.anyxany_over_2_modes;coefficient=nonzero_integer<=2^20;states=3_modes min_obl=616 reach=1 timeout=450 tier=thorough
void h_no_L5_P800_M2(void) { run_strings(); }
//@harness h_no_L5_P801_M2 enforce=none loops=0 unwind=10 props=C05 defs=-DVERIF_FP_IEEE,-DSTR_LEN=5,-DSTR_CODE=0x801,-DSTR_SUFFIX=2,-DSTR_MODES=2,-DMONO_CAP=5UL,-DMAP_CAP=4UL bounded=strings=c+0.c0.c1.anyxany_over_2_modes;coefficient=nonzero_integer<=2^20;states=3_modes min_obl=616 reach=1 timeout=450 tier=thorough
void h_no_L5_P801_M2(void) { run_strings(); }
//@harness h_no_L5_P818_M2 enforce=none loops=0 unwind=10 props=C05 defs=-DVERIF_FP_IEEE,-DSTR_LEN=5,-DSTR_CODE=0x818,-DSTR_SUFFIX=2,-DSTR_MODES=2,-DMONO_CAP=5UL,-DMAP_CAP=4UL bounded=strings=c+0.c1.c+0.anyxany_over_2_modes;coefficient=nonzero_integer<=2^20;states=3_modes min_obl=616 reach=1 timeout=450 tier=thorough
void h_no_L5_P818_M2(void) { run_strings(); }
//@harness h_no_L5_P819_M2 enforce=none loops=0 unwind=10 props=C05 defs=-DVERIF_FP_IEEE,-DSTR_LEN=5,-DSTR_CODE=0x819,-DSTR_SUFFIX=2,-DSTR_MODES=2,-DMONO_CAP=5UL,-DMAP_CAP=4UL bounded=strings=c+0.c1.c+1.anyxany_over_2_modes;coefficient=nonzero_integer<=2^20;states=3_modes min_obl=616 reach=1 timeout=450 tier=thorough
void h_no_L5_P819_M2(void) { run_strings(); }
//@harness h_no_L5_P810_M2 enforce=none loops=0 unwind=10 props=C05 defs=-DVERIF_FP_IEEE,-DSTR_LEN=5,-DSTR_CODE=0x810,-DSTR_SUFFIX=2,-DSTR_MODES=2,-DMONO_CAP=5UL,-DMAP_CAP=4UL bounded=strings=c+0.c1.c0.anyxany_over_2_modes;coefficient=nonzero_integer<=2^20;states=3_modes min_obl=616 reach=1 timeout=450 tier=thorough
void h_no_L5_P810_M2(void) { run_strings(); }
//@harness h_no_L5_P811_M2 enforce=none loops=0 unwind=10 props=C05 defs=-DVERIF_FP_IEEE,-DSTR_LEN=5,-DSTR_CODE=0x811,-DSTR_SUFFIX=2,-DSTR_MODES=2,-DMONO_CAP=5UL,-DMAP_CAP=4UL bounded=strings=c+0.c1.c1.anyxany_over_2_modes;coefficient=nonzero_integer<=2^20;states=3_modes min_obl=616 reach=1 timeout=450 tier=thorough
void h_no_L5_P811_M2(void) { run_strings(); }
//@harness h_no_L5_P988_M2 enforce=none loops=0 unwind=10 props=C05 defs=-DVERIF_FP_IEEE,-DSTR_LEN=5,-DSTR_CODE=0x988,-DSTR_SUFFIX=2,-DSTR_MODES=2,-DMONO_CAP=5UL,-DMAP_CAP=4UL bounded=strings=c+1.c+0.c+0.anyxany_over_2_modes;coefficient=nonzero_integer<=2^20;states=3_modes min_obl=616 reach=1 timeout=450 tier=thorough
void h_no_L5_P988_M2(void) { run_strings(); }
//@harness h_no_L5_P989_M2 enforce=none loops=0 unwind=10 props=C05 defs=-DVERIF_FP_IEEE,-DSTR_LEN=5,-DSTR_CODE=0x989,-DSTR_SUFFIX=2,-DSTR_MODES=2,-DMONO_CAP=5UL,-DMAP_CAP=4UL bounded=strings=c+1.c+0.c+1.anyxany_over_2_modes;coefficient=nonzero_integer<=2^20;states=3_modes min_obl=616 reach=1 timeout=450 tier=thorough
void h_no_L5_P989_M2(void) { run_strings(); }
//@harness h_no_L5_P980_M2 enforce=none loops=0 unwind=10 props=C05 defs=-DVERIF_FP_IEEE,-DSTR_LEN=5,-DSTR_CODE=0x980,-DSTR_SUFFIX=2,-DSTR_MODES=2,-DMONO_CAP=5UL,-DMAP_CAP=4UL bounded=strings=c+1.c+0.c0.anyxany_over_2_modes;coefficient=nonzero_integer<=2^20;states=3_modes min_obl=616 reach=1 timeout=450 tier=thorough
void h_no_L5_P980_M2(void) { run_strings(); }
//@harness h_no_L5_P981_M2 enforce=none loops=0 unwind=10 props=C05 defs=-DVERIF_FP_IEEE,-DSTR_LEN=5,-DSTR_CODE=0x981,-DSTR_SUFFIX=2,-DSTR_MODES=2,-DMONO_CAP=5UL,-DMAP_CAP=4UL bounded=strings=c+1.c+0.c1.anyxany_over_2_modes;coefficient=nonzero_integer<=2^20;states=3_modes min_obl=616 reach=1 timeout=450 tier=thorough
void h_no_L5_P981_M2(void) { run_strings(); }
//@harness h_no_L5_P998_M2 enforce=none loops=0 unwind=10 props=C05 defs=-DVERIF_FP_IEEE,-DSTR_LEN=5,-DSTR_CODE=0x998,-DSTR_SUFFIX=2,-DSTR_MODES=2,-DMONO_CAP=5UL,-DMAP_CAP=4UL bounded=strings=c+1.c+1.c+0.anyxany_over_2_modes;coefficient=nonzero_integer<=2^20;states=3_modes min_obl=616 reach=1 timeout=450 tier=thorough
void h_no_L5_P998_M2(void) { run_strings(); }
//@harness h_no_L5_P999_M2 enforce=none loops=0 unwind=10 props=C05 defs=-DVERIF_FP_IEEE,-DSTR_LEN=5,-DSTR_CODE=0x999,-DSTR_SUFFIX=2,-DSTR_MODES=2,-DMONO_CAP=5UL,-DMAP_CAP=4UL bounded=strings=c+1.c+1.c+1.anyxany_over_2_modes;coefficient=nonzero_integer<=2^20;states=3_modes min_obl=616 reach=1 timeout=450 tier=thorough
void h_no_L5_P999_M2(void) { run_strings(); }
//@harness h_no_L5_P990_M2 enforce=none loops=0 unwind=10 props=C05 defs=-DVERIF_FP_IEEE,-DSTR_LEN=5,-DSTR_CODE=0x990,-DSTR_SUFFIX=2,-DSTR_MODES=2,-DMONO_CAP=5UL,-DMAP_CAP=4UL bounded=strings=c+1.c+1.c0.anyxany_over_2_modes;coefficient=nonzero_integer<=2^20;states=3_modes min_obl=616 reach=1 timeout=450 tier=thorough
void h_no_L5_P990_M2(void) { run_strings(); }
//@harness h_no_L5_P991_M2 enforce=none loops=0 unwind=10 props=C05 defs=-DVERIF_FP_IEEE,-DSTR_LEN=5,-DSTR_CODE=0x991,-DSTR_SUFFIX=2,-DSTR_MODES=2,-DMONO_CAP=5UL,-DMAP_CAP=4UL bounded=strings=c+1.c+1.c1.anyxany_over_2_modes;coefficient=nonzero_integer<=2^20;states=3_modes min_obl=616 reach=1 timeout=450 tier=thorough
void h_no_L5_P991_M2(void) { run_strings(); }
//@harness h_no_L5_P908_M2 enforce=none loops=0 unwind=10 props=C05 defs=-DVERIF_FP_IEEE,-DSTR_LEN=5,-DSTR_CODE=0x908,-DSTR_SUFFIX=2,-DSTR_MODES=2,-DMONO_CAP=5UL,-DMAP_CAP=4UL bounded=strings=c+1.c0.c+0.anyxany_over_2_modes;coefficient=nonzero_integer<=2^20;states=3_modes min_obl=616 reach=1 timeout=450 tier=thorough
void h_no_L5_P908_M2(void) { run_strings(); }
//@harness h_no_L5_P909_M2 enforce=none loops=0 unwind=10 props=C05 defs=-DVERIF_FP_IEEE,-DSTR_LEN=5,-DSTR_CODE=0x909,-DSTR_SUFFIX=2,-DSTR_MODES=2,-DMONO_CAP=5UL,-DMAP_CAP=4UL bounded=strings=c+1.c0.c+1.anyxany_over_2_modes;coefficient=nonzero_integer<=2^20;states=3_modes min_obl=616 reach=1 timeout=450 tier=thorough
void h_no_L5_P909_M2(void) { run_strings(); }
//@harness h_no_L5_P900_M2 enforce=none loops=0 unwind=10 props=C05 defs=-DVERIF_FP_IEEE,-DSTR_LEN=5,-DSTR_CODE=0x900,-DSTR_SUFFIX=2,-DSTR_MODES=2,-DMONO_CAP=5UL,-DMAP_CAP=4UL bounded=strings=c+1.c0.c0.anyxany_over_2_modes;coefficient=nonzero_integer<=2^20;states=3_modes min_obl=616 reach=1 timeout=450 tier=thorough
void h_no_L5_P900_M2(void) { run_strings(); }
//@harness h_no_L5_P901_M2 enforce=none loops=0 unwind=10 props=C05 defs=-DVERIF_FP_IEEE,-DSTR_LEN=5,-DSTR_CODE=0x901,-DSTR_SUFFIX=2,-DSTR_MODES=2,-DMONO_CAP=5UL,-DMAP_CAP=4UL bounded=strings=c+1.c0.c1.anyxany_over_2_modes;coefficient=nonzero_integer<=2^20;states=3_modes min_obl=616 reach=1 timeout=450 tier=thorough
void h_no_L5_P901_M2(void) { run_strings(); }
//@harness h_no_L5_P918_M2 enforce=none loops=0 unwind=10 props=C05 defs=-DVERIF_FP_IEEE,-DSTR_LEN=5,-DSTR_CODE=0x918,-DSTR_SUFFIX=2,-DSTR_MODES=2,-DMONO_CAP=5UL,-DMAP_CAP=4UL bounded=strings=c+1.c1.c+0.anyxany_over_2_modes;coefficient=nonzero_integer<=2^20;states=3_modes min_obl=616 reach=1 timeout=450 tier=thorough
void h_no_L5_P918_M2(void) { run_strings(); }
//@harness h_no_L5_P919_M2 enforce=none loops=0 unwind=10 props=C05 defs=-DVERIF_FP_IEEE,-DSTR_LEN=5,-DSTR_CODE=0x919,-DSTR_SUFFIX=2,-DSTR_MODES=2,-DMONO_CAP=5UL,-DMAP_CAP=4UL bounded=strings=c+1.c1.c+1.anyxany_over_2_modes;coefficient=nonzero_integer<=2^20;states=3_modes min_obl=616 reach=1 timeout=450 tier=thorough
void h_no_L5_P919_M2(void) { run_strings(); }
//@harness h_no_L5_P910_M2 enforce=none loops=0 unwind=10 props=C05 defs=-DVERIF_FP_IEEE,-DSTR_LEN=5,-DSTR_CODE=0x910,-DSTR_SUFFIX=2,-DSTR_MODES=2,-DMONO_CAP=5UL,-DMAP_CAP=4UL bounded=strings=c+1.c1.c0.anyxany_over_2_modes;coefficient=nonzero_integer<=2^20;states=3_modes min_obl=616 reach=1 timeout=450 tier=thorough
void h_no_L5_P910_M2(void) { run_strings(); }
//@harness h_no_L5_P911_M2 enforce=none loops=0 unwind=10 props=C05 defs=-DVERIF_FP_IEEE,-DSTR_LEN=5,-DSTR_CODE=0x911,-DSTR_SUFFIX=2,-DSTR_MODES=2,-DMONO_CAP=5UL,-DMAP_CAP=4UL bounded=strings=c+1.c1.c1.anyxany_over_2_modes;coefficient=nonzero_integer<=2^20;states=3_modes min_obl=616 reach=1 timeout=450 tier=thorough
void h_no_L5_P911_M2(void) { run_strings(); }
//@harness h_no_L5_P088_M2 enforce=none loops=0 unwind=10 props=C05 defs=-DVERIF_FP_IEEE,-DSTR_LEN=5,-DSTR_CODE=0x088,-DSTR_SUFFIX=2,-DSTR_MODES=2,-DMONO_CAP=5UL,-DMAP_CAP=4UL bounded=strings=c0.c+0.c+0.anyxany_over_2_modes;coefficient=nonzero_integer<=2^20;states=3_modes min_obl=616 reach=1 timeout=450 tier=thorough
void h_no_L5_P088_M2(void) { run_strings(); }
//@harness h_no_L5_P089_M2 enforce=none loops=0 unwind=10 props=C05 defs=-DVERIF_FP_IEEE,-DSTR_LEN=5,-DSTR_CODE=0x089,-DSTR_SUFFIX=2,-DSTR_MODES=2,-DMONO_CAP=5UL,-DMAP_CAP=4UL bounded=strings=c0.c+0.c+1.anyxany_over_2_modes;coefficient=nonzero_integer<=2^20;states=3_modes min_obl=616 reach=1 timeout=450 tier=thorough
void h_no_L5_P089_M2(void) { run_strings(); }
//@harness h_no_L5_P080_M2 enforce=none loops=0 unwind=10 props=C05 defs=-DVERIF_FP_IEEE,-DSTR_LEN=5,-DSTR_CODE=0x080,-DSTR_SUFFIX=2,-DSTR_MODES=2,-DMONO_CAP=5UL,-DMAP_CAP=4UL bounded=strings=c0.c+0.c0.anyxany_over_2_modes;coefficient=nonzero_integer<=2^20;states=3_modes min_obl=616 reach=1 timeout=450 tier=thorough
void h_no_L5_P080_M2(void) { run_strings(); }
//@harness h_no_L5_P081_M2 enforce=none loops=0 unwind=10 props=C05 defs=-DVERIF_FP_IEEE,-DSTR_LEN=5,-DSTR_CODE=0x081,-DSTR_SUFFIX=2,-DSTR_MODES=2,-DMONO_CAP=5UL,-DMAP_CAP=4UL bounded=strings=c0.c+0.c1.anyxany_over_2_modes;coefficient=nonzero_integer<=2^20;states=3_modes min_obl=616 reach=1 timeout=450 tier=thorough
void h_no_L5_P081_M2(void) { run_strings(); }
//@harness h_no_L5_P098_M2 enforce=none loops=0 unwind=10 props=C05 defs=-DVERIF_FP_IEEE,-DSTR_LEN=5,-DSTR_CODE=0x098,-DSTR_SUFFIX=2,-DSTR_MODES=2,-DMONO_CAP=5UL,-DMAP_CAP=4UL bounded=strings=c0.c+1.c+0.anyxany_over_2_modes;coefficient=nonzero_integer<=2^20;states=3_modes min_obl=616 reach=1 timeout=450 tier=thorough
void h_no_L5_P098_M2(void) { run_strings(); }
//@harness h_no_L5_P099_M2 enforce=none loops=0 unwind=10 props=C05 defs=-DVERIF_FP_IEEE,-DSTR_LEN=5,-DSTR_CODE=0x099,-DSTR_SUFFIX=2,-DSTR_MODES=2,-DMONO_CAP=5UL,-DMAP_CAP=4UL bounded=strings=c0.c+1.c+1.anyxany_over_2_modes;coefficient=nonzero_integer<=2^20;states=3_modes min_obl=616 reach=1 timeout=450 tier=thorough
void h_no_L5_P099_M2(void) { run_strings(); }
//@harness h_no_L5_P090_M2 enforce=none loops=0 unwind=10 props=C05 defs=-DVERIF_FP_IEEE,-DSTR_LEN=5,-DSTR_CODE=0x090,-DSTR_SUFFIX=2,-DSTR_MODES=2,-DMONO_CAP=5UL,-DMAP_CAP=4UL bounded=strings=c0.c+1.c0.anyxany_over_2_modes;coefficient=nonzero_integer<=2^20;states=3_modes min_obl=616 reach=1 timeout=450 tier=thorough
void h_no_L5_P090_M2(void) { run_strings(); }
//@harness h_no_L5_P091_M2 enforce=none loops=0 unwind=10 props=C05 defs=-DVERIF_FP_IEEE,-DSTR_LEN=5,-DSTR_CODE=0x091,-DSTR_SUFFIX=2,-DSTR_MODES=2,-DMONO_CAP=5UL,-DMAP_CAP=4UL bounded=strings=c0.c+1.c1.anyxany_over_2_modes;coefficient=nonzero_integer<=2^20;states=3_modes min_obl=616 reach=1 timeout=450 tier=thorough
void h_no_L5_P091_M2(void) { run_strings(); }
//@harness h_no_L5_P008_M2 enforce=none loops=0 unwind=10 props=C05 defs=-DVERIF_FP_IEEE,-DSTR_LEN=5,-DSTR_CODE=0x008,-DSTR_SUFFIX=2,-DSTR_MODES=2,-DMONO_CAP=5UL,-DMAP_CAP=4UL bounded=strings=c0.c0.c+0.anyxany_over_2_modes;coefficient=nonzero_integer<=2^20;states=3_modes min_obl=616 reach=1 timeout=450 tier=thorough
void h_no_L5_P008_M2(void) { run_strings(); }
//@harness h_no_L5_P009_M2 enforce=none loops=0 unwind=10 props=C05 defs=-DVERIF_FP_IEEE,-DSTR_LEN=5,-DSTR_CODE=0x009,-DSTR_SUFFIX=2,-DSTR_MODES=2,-DMONO_CAP=5UL,-DMAP_CAP=4UL bounded=strings=c0.c0.c+1.anyxany_over_2_modes;coefficient=nonzero_integer<=2^20;states=3_modes min_obl=616 reach=1 timeout=450 tier=thorough
void h_no_L5_P009_M2(void) { run_strings(); }
//@harness h_no_L5_P000_M2 enforce=none loops=0 unwind=10 props=C05 defs=-DVERIF_FP_IEEE,-DSTR_LEN=5,-DSTR_CODE=0x000,-DSTR_SUFFIX=2,-DSTR_MODES=2,-DMONO_CAP=5UL,-DMAP_CAP=4UL bounded=strings=c0.c0.c0.anyxany_over_2_modes;coefficient=nonzero_integer<=2^20;states=3_modes min_obl=616 reach=1 timeout=450 tier=thorough
void h_no_L5_P000_M2(void) { run_strings(); }
//@harness h_no_L5_P001_M2 enforce=none loops=0 unwind=10 props=C05 defs=-DVERIF_FP_IEEE,-DSTR_LEN=5,-DSTR_CODE=0x001,-DSTR_SUFFIX=2,-DSTR_MODES=2,-DMONO_CAP=5UL,-DMAP_CAP=4UL bounded=strings=c0.c0.c1.anyxany_over_2_modes;coefficient=nonzero_integer<=2^20;states=3_modes min_obl=616 reach=1 timeout=450 tier=thorough
void h_no_L5_P001_M2(void) { run_strings(); }
//@harness h_no_L5_P018_M2 enforce=none loops=0 unwind=10 props=C05 defs=-DVERIF_FP_IEEE,-DSTR_LEN=5,-DSTR_CODE=0x018,-DSTR_SUFFIX=2,-DSTR_MODES=2,-DMONO_CAP=5UL,-DMAP_CAP=4UL bounded=strings=c0.c1.c+0.anyxany_over_2_modes;coefficient=nonzero_integer<=2^20;states=3_modes min_obl=616 reach=1 timeout=450 tier=thorough
void h_no_L5_P018_M2(void) { run_strings(); }
//@harness h_no_L5_P019_M2 enforce=none loops=0 unwind=10 props=C05 defs=-DVERIF_FP_IEEE,-DSTR_LEN=5,-DSTR_CODE=0x019,-DSTR_SUFFIX=2,-DSTR_MODES=2,-DMONO_CAP=5UL,-DMAP_CAP=4UL bounded=strings=c0.c1.c+1.anyxany_over_2_modes;coefficient=nonzero_integer<=2^20;states=3_modes min_obl=616 reach=1 timeout=450 tier=thorough
void h_no_L5_P019_M2(void) { run_strings(); }
//@harness h_no_L5_P010_M2 enforce=none loops=0 unwind=10 props=C05 defs=-DVERIF_FP_IEEE,-DSTR_LEN=5,-DSTR_CODE=0x010,-DSTR_SUFFIX=2,-DSTR_MODES=2,-DMONO_CAP=5UL,-DMAP_CAP=4UL bounded=strings=c0.c1.c0.anyxany_over_2_modes;coefficient=nonzero_integer<=2^20;states=3_modes min_obl=616 reach=1 timeout=450 tier=thorough
void h_no_L5_P010_M2(void) { run_strings(); }
//@harness h_no_L5_P011_M2 enforce=none loops=0 unwind=10 props=C05 defs=-DVERIF_FP_IEEE,-DSTR_LEN=5,-DSTR_CODE=0x011,-DSTR_SUFFIX=2,-DSTR_MODES=2,-DMONO_CAP=5UL,-DMAP_CAP=4UL bounded=strings=c0.c1.c1.anyxany_over_2_modes;coefficient=nonzero_integer<=2^20;states=3_modes min_obl=616 reach=1 timeout=450 tier=thorough
void h_no_L5_P011_M2(void) { run_strings(); }
//@harness h_no_L5_P188_M2 enforce=none loops=0 unwind=10 props=C05 defs=-DVERIF_FP_IEEE,-DSTR_LEN=5,-DSTR_CODE=0x188,-DSTR_SUFFIX=2,-DSTR_MODES=2,-DMONO_CAP=5UL,-DMAP_CAP=4UL bounded=strings=c1.c+0.c+0.anyxany_over_2_modes;coefficient=nonzero_integer<=2^20;states=3_modes min_obl=616 reach=1 timeout=450 tier=thorough
void h_no_L5_P188_M2(void) { run_strings(); }
//@harness h_no_L5_P189_M2 enforce=none loops=0 unwind=10 props=C05 defs=-DVERIF_FP_IEEE,-DSTR_LEN=5,-DSTR_CODE=0x189,-DSTR_SUFFIX=2,-DSTR_MODES=2,-DMONO_CAP=5UL,-DMAP_CAP=4UL bounded=strings=c1.c+0.c+1.anyxany_over_2_modes;coefficient=nonzero_integer<=2^20;states=3_modes min_obl=616 reach=1 timeout=450 tier=thorough
void h_no_L5_P189_M2(void) { run_strings(); }
//@harness h_no_L5_P180_M2 enforce=none loops=0 unwind=10 props=C05 defs=-DVERIF_FP_IEEE,-DSTR_LEN=5,-DSTR_CODE=0x180,-DSTR_SUFFIX=2,-DSTR_MODES=2,-DMONO_CAP=5UL,-DMAP_CAP=4UL bounded=strings=c1.c+0.c0.anyxany_over_2_modes;coefficient=nonzero_integer<=2^20;states=3_modes min_obl=616 reach=1 timeout=450 tier=thorough
void h_no_L5_P180_M2(void) { run_strings(); }
//@harness h_no_L5_P181_M2 enforce=none loops=0 unwind=10 props=C05 defs=-DVERIF_FP_IEEE,-DSTR_LEN=5,-DSTR_CODE=0x181,-DSTR_SUFFIX=2,-DSTR_MODES=2,-DMONO_CAP=5UL,-DMAP_CAP=4UL bounded=strings=c1.c+0.c1.anyxany_over_2_modes;coefficient=nonzero_integer<=2^20;states=3_modes min_obl=616 reach=1 timeout=450 tier=thorough
void h_no_L5_P181_M2(void) { run_strings(); }
//@harness h_no_L5_P198_M2 enforce=none loops=0 unwind=10 props=C05 defs=-DVERIF_FP_IEEE,-DSTR_LEN=5,-DSTR_CODE=0x198,-DSTR_SUFFIX=2,-DSTR_MODES=2,-DMONO_CAP=5UL,-DMAP_CAP=4UL bounded=strings=c1.c+1.c+0.anyxany_over_2_modes;coefficient=nonzero_integer<=2^20;states=3_modes min_obl=616 reach=1 timeout=450 tier=thorough
void h_no_L5_P198_M2(void) { run_strings(); }
//@harness h_no_L5_P199_M2 enforce=none loops=0 unwind=10 props=C05 defs=-DVERIF_FP_IEEE,-DSTR_LEN=5,-DSTR_CODE=0x199,-DSTR_SUFFIX=2,-DSTR_MODES=2,-DMONO_CAP=5UL,-DMAP_CAP=4UL bounded=strings=c1.c+1.c+1.anyxany_over_2_modes;coefficient=nonzero_integer<=2^20;states=3_modes min_obl=616 reach=1 timeout=450 tier=thorough
void h_no_L5_P199_M2(void) { run_strings(); }
//@harness h_no_L5_P190_M2 enforce=none loops=0 unwind=10 props=C05 defs=-DVERIF_FP_IEEE,-DSTR_LEN=5,-DSTR_CODE=0x190,-DSTR_SUFFIX=2,-DSTR_MODES=2,-DMONO_CAP=5UL,-DMAP_CAP=4UL bounded=strings=c1.c+1.c0.anyxany_over_2_modes;coefficient=nonzero_integer<=2^20;states=3_modes min_obl=616 reach=1 timeout=450 tier=thorough
void h_no_L5_P190_M2(void) { run_strings(); }
//@harness h_no_L5_P191_M2 enforce=none loops=0 unwind=10 props=C05 defs=-DVERIF_FP_IEEE,-DSTR_LEN=5,-DSTR_CODE=0x191,-DSTR_SUFFIX=2,-DSTR_MODES=2,-DMONO_CAP=5UL,-DMAP_CAP=4UL bounded=strings=c1.c+1.c1.anyxany_over_2_modes;coefficient=nonzero_integer<=2^20;states=3_modes min_obl=616 reach=1 timeout=450 tier=thorough
void h_no_L5_P191_M2(void) { run_strings(); }
//@harness h_no_L5_P108_M2 enforce=none loops=0 unwind=10 props=C05 defs=-DVERIF_FP_IEEE,-DSTR_LEN=5,-DSTR_CODE=0x108,-DSTR_SUFFIX=2,-DSTR_MODES=2,-DMONO_CAP=5UL,-DMAP_CAP=4UL bounded=strings=c1.c0.c+0.anyxany_over_2_modes;coefficient=nonzero_integer<=2^20;states=3_modes min_obl=616 reach=1 timeout=450 tier=thorough
void h_no_L5_P108_M2(void) { run_strings(); }
//@harness h_no_L5_P109_M2 enforce=none loops=0 unwind=10 props=C05 defs=-DVERIF_FP_IEEE,-DSTR_LEN=5,-DSTR_CODE=0x109,-DSTR_SUFFIX=2,-DSTR_MODES=2,-DMONO_CAP=5UL,-DMAP_CAP=4UL bounded=strings=c1.c0.c+1.anyxany_over_2_modes;coefficient=nonzero_integer<=2^20;states=3_modes min_obl=616 reach=1 timeout=450 tier=thorough
void h_no_L5_P109_M2(void) { run_strings(); }
//@harness h_no_L5_P100_M2 enforce=none loops=0 unwind=10 props=C05 defs=-DVERIF_FP_IEEE,-DSTR_LEN=5,-DSTR_CODE=0x100,-DSTR_SUFFIX=2,-DSTR_MODES=2,-DMONO_CAP=5UL,-DMAP_CAP=4UL bounded=strings=c1.c0.c0.anyxany_over_2_modes;coefficient=nonzero_integer<=2^20;states=3_modes min_obl=616 reach=1 timeout=450 tier=thorough
void h_no_L5_P100_M2(void) { run_strings(); }
//@harness h_no_L5_P101_M2 enforce=none loops=0 unwind=10 props=C05 defs=-DVERIF_FP_IEEE,-DSTR_LEN=5,-DSTR_CODE=0x101,-DSTR_SUFFIX=2,-DSTR_MODES=2,-DMONO_CAP=5UL,-DMAP_CAP=4UL bounded=strings=c1.c0.c1.anyxany_over_2_modes;coefficient=nonzero_integer<=2^20;states=3_modes min_obl=616 reach=1 timeout=450 tier=thorough
void h_no_L5_P101_M2(void) { run_strings(); }
//@harness h_no_L5_P118_M2 enforce=none loops=0 unwind=10 props=C05 defs=-DVERIF_FP_IEEE,-DSTR_LEN=5,-DSTR_CODE=0x118,-DSTR_SUFFIX=2,-DSTR_MODES=2,-DMONO_CAP=5UL,-DMAP_CAP=4UL bounded=strings=c1.c1.c+0.anyxany_over_2_modes;coefficient=nonzero_integer<=2^20;states=3_modes min_obl=616 reach=1 timeout=450 tier=thorough
void h_no_L5_P118_M2(void) { run_strings(); }
//@harness h_no_L5_P119_M2 enforce=none loops=0 unwind=10 props=C05 defs=-DVERIF_FP_IEEE,-DSTR_LEN=5,-DSTR_CODE=0x119,-DSTR_SUFFIX=2,-DSTR_MODES=2,-DMONO_CAP=5UL,-DMAP_CAP=4UL bounded=strings=c1.c1.c+1.anyxany_over_2_modes;coefficient=nonzero_integer<=2^20;states=3_modes min_obl=616 reach=1 timeout=450 tier=thorough
void h_no_L5_P119_M2(void) { run_strings(); }
//@harness h_no_L5_P110_M2 enforce=none loops=0 unwind=10 props=C05 defs=-DVERIF_FP_IEEE,-DSTR_LEN=5,-DSTR_CODE=0x110,-DSTR_SUFFIX=2,-DSTR_MODES=2,-DMONO_CAP=5UL,-DMAP_CAP=4UL bounded=strings=c1.c1.c0.anyxany_over_2_modes;coefficient=nonzero_integer<=2^20;states=3_modes min_obl=616 reach=1 timeout=450 tier=thorough
void h_no_L5_P110_M2(void) { run_strings(); }
//@harness h_no_L5_P111_M2 enforce=none loops=0 unwind=10 props=C05 defs=-DVERIF_FP_IEEE,-DSTR_LEN=5,-DSTR_CODE=0x111,-DSTR_SUFFIX=2,-DSTR_MODES=2,-DMONO_CAP=5UL,-DMAP_CAP=4UL bounded=strings=c1.c1.c1.anyxany_over_2_modes;coefficient=nonzero_integer<=2^20;states=3_modes min_obl=616 reach=1 timeout=450 tier=thorough
void h_no_L5_P111_M2(void) { run_strings(); }
//@harness h_no_L6_210A98 enforce=none loops=0 unwind=10 props=C05 defs=-DVERIF_FP_IEEE,-DSTR_LEN=6,-DSTR_CODE=0x210A98,-DMONO_CAP=6UL,-DMAP_CAP=8UL bounded=string=c2.c1.c0.c+2.c+1.c+0;coefficient=nonzero_integer<=2^20;states=3_modes min_obl=616 reach=1 timeout=300 tier=thorough
void h_no_L6_210A98(void) { run_strings(); }
//@harness h_no_L6_8091A2 enforce=none loops=0 unwind=10 props=C05 defs=-DVERIF_FP_IEEE,-DSTR_LEN=6,-DSTR_CODE=0x8091A2,-DMONO_CAP=6UL,-DMAP_CAP=8UL bounded=string=c+0.c0.c+1.c1.c+2.c2;coefficient=nonzero_integer<=2^20;states=3_modes min_obl=616 reach=1 timeout=300 tier=thorough
void h_no_L6_8091A2(void) { run_strings(); }
//@harness h_no_L6_012A98 enforce=none loops=0 unwind=10 props=C05 defs=-DVERIF_FP_IEEE,-DSTR_LEN=6,-DSTR_CODE=0x012A98,-DMONO_CAP=6UL,-DMAP_CAP=8UL bounded=string=c0.c1.c2.c+2.c+1.c+0;coefficient=nonzero_integer<=2^20;states=3_modes min_obl=616 reach=1 timeout=300 tier=thorough
void h_no_L6_012A98(void) { run_strings(); }
//@harness h_no_L6_0808A2 enforce=none loops=0 unwind=10 props=C05 defs=-DVERIF_FP_IEEE,-DSTR_LEN=6,-DSTR_CODE=0x0808A2,-DMONO_CAP=6UL,-DMAP_CAP=8UL bounded=string=c0.c+0.c0.c+0.c+2.c2;coefficient=nonzero_integer<=2^20;states=3_modes min_obl=616 reach=1 timeout=300 tier=thorough
void h_no_L6_0808A2(void) { run_strings(); }
//@harness h_no_L6_08192A enforce=none loops=0 unwind=10 props=C05 defs=-DVERIF_FP_IEEE,-DSTR_LEN=6,-DSTR_CODE=0x08192A,-DMONO_CAP=6UL,-DMAP_CAP=8UL bounded=string=c0.c+0.c1.c+1.c2.c+2;coefficient=nonzero_integer<=2^20;states=3_modes min_obl=616 reach=1 timeout=300 tier=thorough
void h_no_L6_08192A(void) { run_strings(); }
//@harness h_no_L5_10982 enforce=none loops=0 unwind=10 props=C05 defs=-DVERIF_FP_IEEE,-DSTR_LEN=5,-DSTR_CODE=0x10982,-DMONO_CAP=5UL,-DMAP_CAP=4UL bounded=string=c1.c0.c+1.c+0.c2;coefficient=nonzero_integer<=2^20;states=3_modes min_obl=616 reach=1 timeout=300 tier=thorough
void h_no_L5_10982(void) { run_strings(); }
//@harness h_no_L5_01A98 enforce=none loops=0 unwind=10 props=C05 defs=-DVERIF_FP_IEEE,-DSTR_LEN=5,-DSTR_CODE=0x01A98,-DMONO_CAP=5UL,-DMAP_CAP=4UL bounded=string=c0.c1.c+2.c+1.c+0;coefficient=nonzero_integer<=2^20;states=3_modes min_obl=616 reach=1 timeout=300 tier=thorough
void h_no_L5_01A98(void) { run_strings(); }
//@harness h_no_L5_80912 enforce=none loops=0 unwind=10 props=C05 defs=-DVERIF_FP_IEEE,-DSTR_LEN=5,-DSTR_CODE=0x80912,-DMONO_CAP=5UL,-DMAP_CAP=4UL bounded=string=c+0.c0.c+1.c1.c2;coefficient=nonzero_integer<=2^20;states=3_modes min_obl=616 reach=1 timeout=300 tier=thorough
void h_no_L5_80912(void) { run_strings(); }
//@harness h_no_L6_2A1908 enforce=none loops=0 unwind=10 props=C05 defs=-DVERIF_FP_IEEE,-DSTR_LEN=6,-DSTR_CODE=0x2A1908,-DMONO_CAP=6UL,-DMAP_CAP=8UL bounded=string=c2.c+2.c1.c+1.c0.c+0;coefficient=nonzero_integer<=2^20;states=3_modes min_obl=616 reach=1 timeout=300 tier=thorough
void h_no_L6_2A1908(void) { run_strings(); }
//@harness h_no_L6_0A1928 enforce=none loops=0 unwind=10 props=C05 defs=-DVERIF_FP_IEEE,-DSTR_LEN=6,-DSTR_CODE=0x0A1928,-DMONO_CAP=6UL,-DMAP_CAP=8UL bounded=string=c0.c+2.c1.c+1.c2.c+0;coefficient=nonzero_integer<=2^20;states=3_modes min_obl=616 reach=1 timeout=300 tier=thorough
void h_no_L6_0A1928(void) { run_strings(); }
//@harness h_mul_L0_x_all1_M2 enforce=none loops=0 unwind=10 props=C05 defs=-DVERIF_FP_IEEE,-DSTR_LEN=0,-DSTR_CODE=0x0,-DSTR2_LEN=1,-DSTR2_CODE=0x0,-DSTR2_SUFFIX=1,-DSTR_MODES=2,-DMONO_CAP=2UL,-DMAP_CAP=4UL bounded=A=a*(1),B=b*(every_string_of_length_1_over_2_modes);coefficients=a{2,-7},b{-3,-1,2,5};states=3_modes min_obl=616 reach=1 timeout=300 tier=thorough
void h_mul_L0_x_all1_M2(void) { run_algebra(0); }
//@harness h_mul_L0_x_all2_M2 enforce=none loops=0 unwind=10 props=C05 defs=-DVERIF_FP_IEEE,-DSTR_LEN=0,-DSTR_CODE=0x0,-DSTR2_LEN=2,-DSTR2_CODE=0x0,-DSTR2_SUFFIX=2,-DSTR_MODES=2,-DMONO_CAP=2UL,-DMAP_CAP=4UL bounded=A=a*(1),B=b*(every_string_of_length_2_over_2_modes);coefficients=a{2,-7},b{-3,-1,2,5};states=3_modes min_obl=616 reach=1 timeout=300 tier=thorough
void h_mul_L0_x_all2_M2(void) { run_algebra(0); }
//@harness h_mul_L1_8_x_all1_M2 enforce=none loops=0 unwind=10 props=C05 defs=-DVERIF_FP_IEEE,-DSTR_LEN=1,-DSTR_CODE=0x8,-DSTR2_LEN=1,-DSTR2_CODE=0x0,-DSTR2_SUFFIX=1,-DSTR_MODES=2,-DMONO_CAP=2UL,-DMAP_CAP=4UL bounded=A=a*(c+0),B=b*(every_string_of_length_1_over_2_modes);coefficients=a{2,-7},b{-3,-1,2,5};states=3_modes min_obl=616 reach=1 timeout=300 tier=thorough
void h_mul_L1_8_x_all1_M2(void) { run_algebra(0); }
//@harness h_mul_L1_8_x_all2_M2 enforce=none loops=0 unwind=10 props=C05 defs=-DVERIF_FP_IEEE,-DSTR_LEN=1,-DSTR_CODE=0x8,-DSTR2_LEN=2,-DSTR2_CODE=0x0,-DSTR2_SUFFIX=2,-DSTR_MODES=2,-DMONO_CAP=3UL,-DMAP_CAP=4UL bounded=A=a*(c+0),B=b*(every_string_of_length_2_over_2_modes);coefficients=a{2,-7},b{-3,-1,2,5};states=3_modes min_obl=616 reach=1 timeout=300 tier=thorough
void h_mul_L1_8_x_all2_M2(void) { run_algebra(0); }
//@harness h_mul_L1_9_x_all1_M2 enforce=none loops=0 unwind=10 props=C05 defs=-DVERIF_FP_IEEE,-DSTR_LEN=1,-DSTR_CODE=0x9,-DSTR2_LEN=1,-DSTR2_CODE=0x0,-DSTR2_SUFFIX=1,-DSTR_MODES=2,-DMONO_CAP=2UL,-DMAP_CAP=4UL bounded=A=a*(c+1),B=b*(every_string_of_length_1_over_2_modes);coefficients=a{2,-7},b{-3,-1,2,5};states=3_modes min_obl=616 reach=1 timeout=300 tier=thorough
void h_mul_L1_9_x_all1_M2(void) { run_algebra(0); }
//@harness h_mul_L1_9_x_all2_M2 enforce=none loops=0 unwind=10 props=C05 defs=-DVERIF_FP_IEEE,-DSTR_LEN=1,-DSTR_CODE=0x9,-DSTR2_LEN=2,-DSTR2_CODE=0x0,-DSTR2_SUFFIX=2,-DSTR_MODES=2,-DMONO_CAP=3UL,-DMAP_CAP=4UL bounded=A=a*(c+1),B=b*(every_string_of_length_2_over_2_modes);coefficients=a{2,-7},b{-3,-1,2,5};states=3_modes min_obl=616 reach=1 timeout=300 tier=thorough
void h_mul_L1_9_x_all2_M2(void) { run_algebra(0); }
//@harness h_mul_L1_0_x_all1_M2 enforce=none loops=0 unwind=10 props=C05 defs=-DVERIF_FP_IEEE,-DSTR_LEN=1,-DSTR_CODE=0x0,-DSTR2_LEN=1,-DSTR2_CODE=0x0,-DSTR2_SUFFIX=1,-DSTR_MODES=2,-DMONO_CAP=2UL,-DMAP_CAP=4UL bounded=A=a*(c0),B=b*(every_string_of_length_1_over_2_modes);coefficients=a{2,-7},b{-3,-1,2,5};states=3_modes min_obl=616 reach=1 timeout=300 tier=thorough
void h_mul_L1_0_x_all1_M2(void) { run_algebra(0); }
//@harness h_mul_L1_0_x_all2_M2 enforce=none loops=0 unwind=10 props=C05 defs=-DVERIF_FP_IEEE,-DSTR_LEN=1,-DSTR_CODE=0x0,-DSTR2_LEN=2,-DSTR2_CODE=0x0,-DSTR2_SUFFIX=2,-DSTR_MODES=2,-DMONO_CAP=3UL,-DMAP_CAP=4UL bounded=A=a*(c0),B=b*(every_string_of_length_2_over_2_modes);coefficients=a{2,-7},b{-3,-1,2,5};states=3_modes min_obl=616 reach=1 timeout=300 tier=thorough
void h_mul_L1_0_x_all2_M2(void) { run_algebra(0); }
//@harness h_mul_L1_1_x_all1_M2 enforce=none loops=0 unwind=10 props=C05 defs=-DVERIF_FP_IEEE,-DSTR_LEN=1,-DSTR_CODE=0x1,-DSTR2_LEN=1,-DSTR2_CODE=0x0,-DSTR2_SUFFIX=1,-DSTR_MODES=2,-DMONO_CAP=2UL,-DMAP_CAP=4UL bounded=A=a*(c1),B=b*(every_string_of_length_1_over_2_modes);coefficients=a{2,-7},b{-3,-1,2,5};states=3_modes min_obl=616 reach=1 timeout=300 tier=thorough
void h_mul_L1_1_x_all1_M2(void) { run_algebra(0); }
//@harness h_mul_L1_1_x_all2_M2 enforce=none loops=0 unwind=10 props=C05 defs=-DVERIF_FP_IEEE,-DSTR_LEN=1,-DSTR_CODE=0x1,-DSTR2_LEN=2,-DSTR2_CODE=0x0,-DSTR2_SUFFIX=2,-DSTR_MODES=2,-DMONO_CAP=3UL,-DMAP_CAP=4UL bounded=A=a*(c1),B=b*(every_string_of_length_2_over_2_modes);coefficients=a{2,-7},b{-3,-1,2,5};states=3_modes min_obl=616 reach=1 timeout=300 tier=thorough
void h_mul_L1_1_x_all2_M2(void) { run_algebra(0); }
//@harness h_mul_L2_88_x_all1_M2 enforce=none loops=0 unwind=10 props=C05 defs=-DVERIF_FP_IEEE,-DSTR_LEN=2,-DSTR_CODE=0x88,-DSTR2_LEN=1,-DSTR2_CODE=0x0,-DSTR2_SUFFIX=1,-DSTR_MODES=2,-DMONO_CAP=3UL,-DMAP_CAP=4UL bounded=A=a*(c+0.c+0),B=b*(every_string_of_length_1_over_2_modes);coefficients=a{2,-7},b{-3,-1,2,5};states=3_modes min_obl=616 reach=1 timeout=300 tier=thorough
void h_mul_L2_88_x_all1_M2(void) { run_algebra(0); }
//@harness h_mul_L2_88_x_all2_M2 enforce=none loops=0 unwind=10 props=C05 defs=-DVERIF_FP_IEEE,-DSTR_LEN=2,-DSTR_CODE=0x88,-DSTR2_LEN=2,-DSTR2_CODE=0x0,-DSTR2_SUFFIX=2,-DSTR_MODES=2,-DMONO_CAP=4UL,-DMAP_CAP=4UL bounded=A=a*(c+0.c+0),B=b*(every_string_of_length_2_over_2_modes);coefficients=a{2,-7},b{-3,-1,2,5};states=3_modes min_obl=616 reach=1 timeout=300 tier=thorough
void h_mul_L2_88_x_all2_M2(void) { run_algebra(0); }
//@harness h_mul_L2_88_x_L0 enforce=none loops=0 unwind=10 props=C05 defs=-DVERIF_FP_IEEE,-DSTR_LEN=2,-DSTR_CODE=0x88,-DSTR2_LEN=0,-DSTR2_CODE=0x0,-DMONO_CAP=2UL,-DMAP_CAP=4UL bounded=A=a*(c+0.c+0),B=b*(1);coefficients=a{2,-7},b{-3,-1,2,5};states=3_modes min_obl=616 reach=1 timeout=120 tier=thorough
void h_mul_L2_88_x_L0(void) { run_algebra(0); }
//@harness h_mul_L2_89_x_all1_M2 enforce=none loops=0 unwind=10 props=C05 defs=-DVERIF_FP_IEEE,-DSTR_LEN=2,-DSTR_CODE=0x89,-DSTR2_LEN=1,-DSTR2_CODE=0x0,-DSTR2_SUFFIX=1,-DSTR_MODES=2,-DMONO_CAP=3UL,-DMAP_CAP=4UL bounded=A=a*(c+0.c+1),B=b*(every_string_of_length_1_over_2_modes);coefficients=a{2,-7},b{-3,-1,2,5};states=3_modes min_obl=616 reach=1 timeout=300 tier=thorough
void h_mul_L2_89_x_all1_M2(void) { run_algebra(0); }
//@harness h_mul_L2_89_x_all2_M2 enforce=none loops=0 unwind=10 props=C05 defs=-DVERIF_FP_IEEE,-DSTR_LEN=2,-DSTR_CODE=0x89,-DSTR2_LEN=2,-DSTR2_CODE=0x0,-DSTR2_SUFFIX=2,-DSTR_MODES=2,-DMONO_CAP=4UL,-DMAP_CAP=4UL bounded=A=a*(c+0.c+1),B=b*(every_string_of_length_2_over_2_modes);coefficients=a{2,-7},b{-3,-1,2,5};states=3_modes min_obl=616 reach=1 timeout=300 tier=thorough
void h_mul_L2_89_x_all2_M2(void) { run_algebra(0); }
//@harness h_mul_L2_89_x_L0 enforce=none loops=0 unwind=10 props=C05 defs=-DVERIF_FP_IEEE,-DSTR_LEN=2,-DSTR_CODE=0x89,-DSTR2_LEN=0,-DSTR2_CODE=0x0,-DMONO_CAP=2UL,-DMAP_CAP=4UL bounded=A=a*(c+0.c+1),B=b*(1);coefficients=a{2,-7},b{-3,-1,2,5};states=3_modes min_obl=616 reach=1 timeout=120 tier=thorough
void h_mul_L2_89_x_L0(void) { run_algebra(0); }
//@harness h_mul_L2_80_x_all1_M2 enforce=none loops=0 unwind=10 props=C05 defs=-DVERIF_FP_IEEE,-DSTR_LEN=2,-DSTR_CODE=0x80,-DSTR2_LEN=1,-DSTR2_CODE=0x0,-DSTR2_SUFFIX=1,-DSTR_MODES=2,-DMONO_CAP=3UL,-DMAP_CAP=4UL bounded=A=a*(c+0.c0),B=b*(every_string_of_length_1_over_2_modes);coefficients=a{2,-7},b{-3,-1,2,5};states=3_modes min_obl=616 reach=1 timeout=300 tier=thorough
void h_mul_L2_80_x_all1_M2(void) { run_algebra(0); }
//@harness h_mul_L2_80_x_all2_M2 enforce=none loops=0 unwind=10 props=C05 defs=-DVERIF_FP_IEEE,-DSTR_LEN=2,-DSTR_CODE=0x80,-DSTR2_LEN=2,-DSTR2_CODE=0x0,-DSTR2_SUFFIX=2,-DSTR_MODES=2,-DMONO_CAP=4UL,-DMAP_CAP=4UL bounded=A=a*(c+0.c0),B=b*(every_string_of_length_2_over_2_modes);coefficients=a{2,-7},b{-3,-1,2,5};states=3_modes min_obl=616 reach=1 timeout=300 tier=thorough
void h_mul_L2_80_x_all2_M2(void) { run_algebra(0); }
//@harness h_mul_L2_80_x_L0 enforce=none loops=0 unwind=10 props=C05 defs=-DVERIF_FP_IEEE,-DSTR_LEN=2,-DSTR_CODE=0x80,-DSTR2_LEN=0,-DSTR2_CODE=0x0,-DMONO_CAP=2UL,-DMAP_CAP=4UL bounded=A=a*(c+0.c0),B=b*(1);coefficients=a{2,-7},b{-3,-1,2,5};states=3_modes min_obl=616 reach=1 timeout=120 tier=thorough
void h_mul_L2_80_x_L0(void) { run_algebra(0); }
//@harness h_mul_L2_81_x_all1_M2 enforce=none loops=0 unwind=10 props=C05 defs=-DVERIF_FP_IEEE,-DSTR_LEN=2,-DSTR_CODE=0x81,-DSTR2_LEN=1,-DSTR2_CODE=0x0,-DSTR2_SUFFIX=1,-DSTR_MODES=2,-DMONO_CAP=3UL,-DMAP_CAP=4UL bounded=A=a*(c+0.c1),B=b*(every_string_of_length_1_over_2_modes);coefficients=a{2,-7},b{-3,-1,2,5};states=3_modes min_obl=616 reach=1 timeout=300 tier=thorough
void h_mul_L2_81_x_all1_M2(void) { run_algebra(0); }
//@harness h_mul_L2_81_x_all2_M2 enforce=none loops=0 unwind=10 props=C05 defs=-DVERIF_FP_IEEE,-DSTR_LEN=2,-DSTR_CODE=0x81,-DSTR2_LEN=2,-DSTR2_CODE=0x0,-DSTR2_SUFFIX=2,-DSTR_MODES=2,-DMONO_CAP=4UL,-DMAP_CAP=4UL bounded=A=a*(c+0.c1),B=b*(every_string_of_length_2_over_2_modes);coefficients=a{2,-7},b{-3,-1,2,5};states=3_modes min_obl=616 reach=1 timeout=300 tier=thorough
void h_mul_L2_81_x_all2_M2(void) { run_algebra(0); }
//@harness h_mul_L2_81_x_L0 enforce=none loops=0 unwind=10 props=C05 defs=-DVERIF_FP_IEEE,-DSTR_LEN=2,-DSTR_CODE=0x81,-DSTR2_LEN=0,-DSTR2_CODE=0x0,-DMONO_CAP=2UL,-DMAP_CAP=4UL bounded=A=a*(c+0.c1),B=b*(1);coefficients=a{2,-7},b{-3,-1,2,5};states=3_modes min_obl=616 reach=1 timeout=120 tier=thorough
void h_mul_L2_81_x_L0(void) { run_algebra(0); }
//@harness h_mul_L2_98_x_all1_M2 enforce=none loops=0 unwind=10 props=C05 defs=-DVERIF_FP_IEEE,-DSTR_LEN=2,-DSTR_CODE=0x98,-DSTR2_LEN=1,-DSTR2_CODE=0x0,-DSTR2_SUFFIX=1,-DSTR_MODES=2,-DMONO_CAP=3UL,-DMAP_CAP=4UL bounded=A=a*(c+1.c+0),B=b*(every_string_of_length_1_over_2_modes);coefficients=a{2,-7},b{-3,-1,2,5};states=3_modes min_obl=616 reach=1 timeout=300 tier=thorough
void h_mul_L2_98_x_all1_M2(void) { run_algebra(0); }
//@harness h_mul_L2_98_x_all2_M2 enforce=none loops=0 unwind=10 props=C05 defs=-DVERIF_FP_IEEE,-DSTR_LEN=2,-DSTR_CODE=0x98,-DSTR2_LEN=2,-DSTR2_CODE=0x0,-DSTR2_SUFFIX=2,-DSTR_MODES=2,-DMONO_CAP=4UL,-DMAP_CAP=4UL bounded=A=a*(c+1.c+0),B=b*(every_string_of_length_2_over_2_modes);coefficients=a{2,-7},b{-3,-1,2,5};states=3_modes min_obl=616 reach=1 timeout=300 tier=thorough
void h_mul_L2_98_x_all2_M2(void) { run_algebra(0); }
//@harness h_mul_L2_98_x_L0 enforce=none loops=0 unwind=10 props=C05 defs=-DVERIF_FP_IEEE,-DSTR_LEN=2,-DSTR_CODE=0x98,-DSTR2_LEN=0,-DSTR2_CODE=0x0,-DMONO_CAP=2UL,-DMAP_CAP=4UL bounded=A=a*(c+1.c+0),B=b*(1);coefficients=a{2,-7},b{-3,-1,2,5};states=3_modes min_obl=616 reach=1 timeout=120 tier=thorough
void h_mul_L2_98_x_L0(void) { run_algebra(0); }
//@harness h_mul_L2_99_x_all1_M2 enforce=none loops=0 unwind=10 props=C05 defs=-DVERIF_FP_IEEE,-DSTR_LEN=2,-DSTR_CODE=0x99,-DSTR2_LEN=1,-DSTR2_CODE=0x0,-DSTR2_SUFFIX=1,-DSTR_MODES=2,-DMONO_CAP=3UL,-DMAP_CAP=4UL bounded=A=a*(c+1.c+1),B=b*(every_string_of_length_1_over_2_modes);coefficients=a{2,-7},b{-3,-1,2,5};states=3_modes min_obl=616 reach=1 timeout=300 tier=thorough
void h_mul_L2_99_x_all1_M2(void) { run_algebra(0); }
//@harness h_mul_L2_99_x_all2_M2 enforce=none loops=0 unwind=10 props=C05 defs=-DVERIF_FP_IEEE,-DSTR_LEN=2,-DSTR_CODE=0x99,-DSTR2_LEN=2,-DSTR2_CODE=0x0,-DSTR2_SUFFIX=2,-DSTR_MODES=2,-DMONO_CAP=4UL,-DMAP_CAP=4UL bounded=A=a*(c+1.c+1),B=b*(every_string_of_length_2_over_2_modes);coefficients=a{2,-7},b{-3,-1,2,5};states=3_modes min_obl=616 reach=1 timeout=300 tier=thorough
void h_mul_L2_99_x_all2_M2(void) { run_algebra(0); }
//@harness h_mul_L2_99_x_L0 enforce=none loops=0 unwind=10 props=C05 defs=-DVERIF_FP_IEEE,-DSTR_LEN=2,-DSTR_CODE=0x99,-DSTR2_LEN=0,-DSTR2_CODE=0x0,-DMONO_CAP=2UL,-DMAP_CAP=4UL bounded=A=a*(c+1.c+1),B=b*(1);coefficients=a{2,-7},b{-3,-1,2,5};states=3_modes min_obl=616 reach=1 timeout=120 tier=thorough
void h_mul_L2_99_x_L0(void) { run_algebra(0); }
//@harness h_mul_L2_90_x_all1_M2 enforce=none loops=0 unwind=10 props=C05 defs=-DVERIF_FP_IEEE,-DSTR_LEN=2,-DSTR_CODE=0x90,-DSTR2_LEN=1,-DSTR2_CODE=0x0,-DSTR2_SUFFIX=1,-DSTR_MODES=2,-DMONO_CAP=3UL,-DMAP_CAP=4UL bounded=A=a*(c+1.c0),B=b*(every_string_of_length_1_over_2_modes);coefficients=a{2,-7},b{-3,-1,2,5};states=3_modes min_obl=616 reach=1 timeout=300 tier=thorough
void h_mul_L2_90_x_all1_M2(void) { run_algebra(0); }
//@harness h_mul_L2_90_x_all2_M2 enforce=none loops=0 unwind=10 props=C05 defs=-DVERIF_FP_IEEE,-DSTR_LEN=2,-DSTR_CODE=0x90,-DSTR2_LEN=2,-DSTR2_CODE=0x0,-DSTR2_SUFFIX=2,-DSTR_MODES=2,-DMONO_CAP=4UL,-DMAP_CAP=4UL bounded=A=a*(c+1.c0),B=b*(every_string_of_length_2_over_2_modes);coefficients=a{2,-7},b{-3,-1,2,5};states=3_modes min_obl=616 reach=1 timeout=300 tier=thorough
void h_mul_L2_90_x_all2_M2(void) { run_algebra(0); }
//@harness h_mul_L2_90_x_L0 enforce=none loops=0 unwind=10 props=C05 defs=-DVERIF_FP_IEEE,-DSTR_LEN=2,-DSTR_CODE=0x90,-DSTR2_LEN=0,-DSTR2_CODE=0x0,-DMONO_CAP=2UL,-DMAP_CAP=4UL bounded=A=a*(c+1.c0),B=b*(1);coefficients=a{2,-7},b{-3,-1,2,5};states=3_modes min_obl=616 reach=1 timeout=120 tier=thorough
void h_mul_L2_90_x_L0(void) { run_algebra(0); }
//@harness h_mul_L2_91_x_all1_M2 enforce=none loops=0 unwind=10 props=C05 defs=-DVERIF_FP_IEEE,-DSTR_LEN=2,-DSTR_CODE=0x91,-DSTR2_LEN=1,-DSTR2_CODE=0x0,-DSTR2_SUFFIX=1,-DSTR_MODES=2,-DMONO_CAP=3UL,-DMAP_CAP=4UL bounded=A=a*(c+1.c1),B=b*(every_string_of_length_1_over_2_modes);coefficients=a{2,-7},b{-3,-1,2,5};states=3_modes min_obl=616 reach=1 timeout=300 tier=thorough
void h_mul_L2_91_x_all1_M2(void) { run_algebra(0); }
//@harness h_mul_L2_91_x_all2_M2 enforce=none loops=0 unwind=10 props=C05 defs=-DVERIF_FP_IEEE,-DSTR_LEN=2,-DSTR_CODE=0x91,-DSTR2_LEN=2,-DSTR2_CODE=0x0,-DSTR2_SUFFIX=2,-DSTR_MODES=2,-DMONO_CAP=4UL,-DMAP_CAP=4UL bounded=A=a*(c+1.c1),B=b*(every_string_of_length_2_over_2_modes);coefficients=a{2,-7},b{-3,-1,2,5};states=3_modes min_obl=616 reach=1 timeout=300 tier=thorough
void h_mul_L2_91_x_all2_M2(void) { run_algebra(0); }
//@harness h_mul_L2_91_x_L0 enforce=none loops=0 unwind=10 props=C05 defs=-DVERIF_FP_IEEE,-DSTR_LEN=2,-DSTR_CODE=0x91,-DSTR2_LEN=0,-DSTR2_CODE=0x0,-DMONO_CAP=2UL,-DMAP_CAP=4UL bounded=A=a*(c+1.c1),B=b*(1);coefficients=a{2,-7},b{-3,-1,2,5};states=3_modes min_obl=616 reach=1 timeout=120 tier=thorough
void h_mul_L2_91_x_L0(void) { run_algebra(0); }
//@harness h_mul_L2_08_x_all1_M2 enforce=none loops=0 unwind=10 props=C05 defs=-DVERIF_FP_IEEE,-DSTR_LEN=2,-DSTR_CODE=0x08,-DSTR2_LEN=1,-DSTR2_CODE=0x0,-DSTR2_SUFFIX=1,-DSTR_MODES=2,-DMONO_CAP=3UL,-DMAP_CAP=4UL bounded=A=a*(c0.c+0),B=b*(every_string_of_length_1_over_2_modes);coefficients=a{2,-7},b{-3,-1,2,5};states=3_modes min_obl=616 reach=1 timeout=300 tier=thorough
void h_mul_L2_08_x_all1_M2(void) { run_algebra(0); }
//@harness h_mul_L2_08_x_all2_M2 enforce=none loops=0 unwind=10 props=C05 defs=-DVERIF_FP_IEEE,-DSTR_LEN=2,-DSTR_CODE=0x08,-DSTR2_LEN=2,-DSTR2_CODE=0x0,-DSTR2_SUFFIX=2,-DSTR_MODES=2,-DMONO_CAP=4UL,-DMAP_CAP=4UL bounded=A=a*(c0.c+0),B=b*(every_string_of_length_2_over_2_modes);coefficients=a{2,-7},b{-3,-1,2,5};states=3_modes min_obl=616 reach=1 timeout=300 tier=thorough
void h_mul_L2_08_x_all2_M2(void) { run_algebra(0); }
//@harness h_mul_L2_08_x_L0 enforce=none loops=0 unwind=10 props=C05 defs=-DVERIF_FP_IEEE,-DSTR_LEN=2,-DSTR_CODE=0x08,-DSTR2_LEN=0,-DSTR2_CODE=0x0,-DMONO_CAP=2UL,-DMAP_CAP=4UL bounded=A=a*(c0.c+0),B=b*(1);coefficients=a{2,-7},b{-3,-1,2,5};states=3_modes min_obl=616 reach=1 timeout=120 tier=thorough
void h_mul_L2_08_x_L0(void) { run_algebra(0); }
//@harness h_mul_L2_09_x_all1_M2 enforce=none loops=0 unwind=10 props=C05 defs=-DVERIF_FP_IEEE,-DSTR_LEN=2,-DSTR_CODE=0x09,-DSTR2_LEN=1,-DSTR2_CODE=0x0,-DSTR2_SUFFIX=1,-DSTR_MODES=2,-DMONO_CAP=3UL,-DMAP_CAP=4UL bounded=A=a*(c0.c+1),B=b*(every_string_of_length_1_over_2_modes);coefficients=a{2,-7},b{-3,-1,2,5};states=3_modes min_obl=616 reach=1 timeout=300 tier=thorough
void h_mul_L2_09_x_all1_M2(void) { run_algebra(0); }
//@harness h_mul_L2_09_x_all2_M2 enforce=none loops=0 unwind=10 props=C05 defs=-DVERIF_FP_IEEE,-DSTR_LEN=2,-DSTR_CODE=0x09,-DSTR2_LEN=2,-DSTR2_CODE=0x0,-DSTR2_SUFFIX=2,-DSTR_MODES=2,-DMONO_CAP=4UL,-DMAP_CAP=4UL bounded=A=a*(c0.c+1),B=b*(every_string_of_length_2_over_2_modes);coefficients=a{2,-7},b{-3,-1,2,5};states=3_modes min_obl=616 reach=1 timeout=300 tier=thorough
void h_mul_L2_09_x_all2_M2(void) { run_algebra(0); }
//@harness h_mul_L2_09_x_L0 enforce=none loops=0 unwind=10 props=C05 defs=-DVERIF_FP_IEEE,-DSTR_LEN=2,-DSTR_CODE=0x09,-DSTR2_LEN=0,-DSTR2_CODE=0x0,-DMONO_CAP=2UL,-DMAP_CAP=4UL bounded=A=a*(c0.c+1),B=b*(1);coefficients=a{2,-7},b{-3,-1,2,5};states=3_modes min_obl=616 reach=1 timeout=120 tier=thorough
void h_mul_L2_09_x_L0(void) { run_algebra(0); }
//@harness h_mul_L2_00_x_all1_M2 enforce=none loops=0 unwind=10 props=C05 defs=-DVERIF_FP_IEEE,-DSTR_LEN=2,-DSTR_CODE=0x00,-DSTR2_LEN=1,-DSTR2_CODE=0x0,-DSTR2_SUFFIX=1,-DSTR_MODES=2,-DMONO_CAP=3UL,-DMAP_CAP=4UL bounded=A=a*(c0.c0),B=b*(every_string_of_length_1_over_2_modes);coefficients=a{2,-7},b{-3,-1,2,5};states=3_modes min_obl=616 reach=1 timeout=300 tier=thorough
void h_mul_L2_00_x_all1_M2(void) { run_algebra(0); }
//@harness h_mul_L2_00_x_all2_M2 enforce=none loops=0 unwind=10 props=C05 defs=-DVERIF_FP_IEEE,-DSTR_LEN=2,-DSTR_CODE=0x00,-DSTR2_LEN=2,-DSTR2_CODE=0x0,-DSTR2_SUFFIX=2,-DSTR_MODES=2,-DMONO_CAP=4UL,-DMAP_CAP=4UL bounded=A=a*(c0.c0),B=b*(every_string_of_length_2_over_2_modes);coefficients=a{2,-7},b{-3,-1,2,5};states=3_modes min_obl=616 reach=1 timeout=300 tier=thorough
void h_mul_L2_00_x_all2_M2(void) { run_algebra(0); }
//@harness h_mul_L2_00_x_L0 enforce=none loops=0 unwind=10 props=C05 defs=-DVERIF_FP_IEEE,-DSTR_LEN=2,-DSTR_CODE=0x00,-DSTR2_LEN=0,-DSTR2_CODE=0x0,-DMONO_CAP=2UL,-DMAP_CAP=4UL bounded=A=a*(c0.c0),B=b*(1);coefficients=a{2,-7},b{-3,-1,2,5};states=3_modes min_obl=616 reach=1 timeout=120 tier=thorough
void h_mul_L2_00_x_L0(void) { run_algebra(0); }
//@harness h_mul_L2_01_x_all1_M2 enforce=none loops=0 unwind=10 props=C05 defs=-DVERIF_FP_IEEE,-DSTR_LEN=2,-DSTR_CODE=0x01,-DSTR2_LEN=1,-DSTR2_CODE=0x0,-DSTR2_SUFFIX=1,-DSTR_MODES=2,-DMONO_CAP=3UL,-DMAP_CAP=4UL bounded=A=a*(c0.c1),B=b*(every_string_of_length_1_over_2_modes);coefficients=a{2,-7},b{-3,-1,2,5};states=3_modes min_obl=616 reach=1 timeout=300 tier=thorough
void h_mul_L2_01_x_all1_M2(void) { run_algebra(0); }
//@harness h_mul_L2_01_x_all2_M2 enforce=none loops=0 unwind=10 props=C05 defs=-DVERIF_FP_IEEE,-DSTR_LEN=2,-DSTR_CODE=0x01,-DSTR2_LEN=2,-DSTR2_CODE=0x0,-DSTR2_SUFFIX=2,-DSTR_MODES=2,-DMONO_CAP=4UL,-DMAP_CAP=4UL bounded=A=a*(c0.c1),B=b*(every_string_of_length_2_over_2_modes);coefficients=a{2,-7},b{-3,-1,2,5};states=3_modes min_obl=616 reach=1 timeout=300 tier=thorough
void h_mul_L2_01_x_all2_M2(void) { run_algebra(0); }
//@harness h_mul_L2_01_x_L0 enforce=none loops=0 unwind=10 props=C05 defs=-DVERIF_FP_IEEE,-DSTR_LEN=2,-DSTR_CODE=0x01,-DSTR2_LEN=0,-DSTR2_CODE=0x0,-DMONO_CAP=2UL,-DMAP_CAP=4UL bounded=A=a*(c0.c1),B=b*(1);coefficients=a{2,-7},b{-3,-1,2,5};states=3_modes min_obl=616 reach=1 timeout=120 tier=thorough
void h_mul_L2_01_x_L0(void) { run_algebra(0); }
//@harness h_mul_L2_18_x_all1_M2 enforce=none loops=0 unwind=10 props=C05 defs=-DVERIF_FP_IEEE,-DSTR_LEN=2,-DSTR_CODE=0x18,-DSTR2_LEN=1,-DSTR2_CODE=0x0,-DSTR2_SUFFIX=1,-DSTR_MODES=2,-DMONO_CAP=3UL,-DMAP_CAP=4UL bounded=A=a*(c1.c+0),B=b*(every_string_of_length_1_over_2_modes);coefficients=a{2,-7},b{-3,-1,2,5};states=3_modes min_obl=616 reach=1 timeout=300 tier=thorough
void h_mul_L2_18_x_all1_M2(void) { run_algebra(0); }
//@harness h_mul_L2_18_x_all2_M2 enforce=none loops=0 unwind=10 props=C05 defs=-DVERIF_FP_IEEE,-DSTR_LEN=2,-DSTR_CODE=0x18,-DSTR2_LEN=2,-DSTR2_CODE=0x0,-DSTR2_SUFFIX=2,-DSTR_MODES=2,-DMONO_CAP=4UL,-DMAP_CAP=4UL bounded=A=a*(c1.c+0),B=b*(every_string_of_length_2_over_2_modes);coefficients=a{2,-7},b{-3,-1,2,5};states=3_modes min_obl=616 reach=1 timeout=300 tier=thorough
void h_mul_L2_18_x_all2_M2(void) { run_algebra(0); }
//@harness h_mul_L2_18_x_L0 enforce=none loops=0 unwind=10 props=C05 defs=-DVERIF_FP_IEEE,-DSTR_LEN=2,-DSTR_CODE=0x18,-DSTR2_LEN=0,-DSTR2_CODE=0x0,-DMONO_CAP=2UL,-DMAP_CAP=4UL bounded=A=a*(c1.c+0),B=b*(1);coefficients=a{2,-7},b{-3,-1,2,5};states=3_modes min_obl=616 reach=1 timeout=120 tier=thorough
void h_mul_L2_18_x_L0(void) { run_algebra(0); }
//@harness h_mul_L2_19_x_all1_M2 enforce=none loops=0 unwind=10 props=C05 defs=-DVERIF_FP_IEEE,-DSTR_LEN=2,-DSTR_CODE=0x19,-DSTR2_LEN=1,-DSTR2_CODE=0x0,-DSTR2_SUFFIX=1,-DSTR_MODES=2,-DMONO_CAP=3UL,-DMAP_CAP=4UL bounded=A=a*(c1.c+1),B=b*(every_string_of_length_1_over_2_modes);coefficients=a{2,-7},b{-3,-1,2,5};states=3_modes min_obl=616 reach=1 timeout=300 tier=thorough
void h_mul_L2_19_x_all1_M2(void) { run_algebra(0); }
//@harness h_mul_L2_19_x_all2_M2 enforce=none loops=0 unwind=10 props=C05 defs=-DVERIF_FP_IEEE,-DSTR_LEN=2,-DSTR_CODE=0x19,-DSTR2_LEN=2,-DSTR2_CODE=0x0,-DSTR2_SUFFIX=2,-DSTR_MODES=2,-DMONO_CAP=4UL,-DMAP_CAP=4UL bounded=A=a*(c1.c+1),B=b*(every_string_of_length_2_over_2_modes);coefficients=a{2,-7},b{-3,-1,2,5};states=3_modes min_obl=616 reach=1 timeout=300 tier=thorough
void h_mul_L2_19_x_all2_M2(void) { run_algebra(0); }
//@harness h_mul_L2_19_x_L0 enforce=none loops=0 unwind=10 props=C05 defs=-DVERIF_FP_IEEE,-DSTR_LEN=2,-DSTR_CODE=0x19,-DSTR2_LEN=0,-DSTR2_CODE=0x0,-DMONO_CAP=2UL,-DMAP_CAP=4UL bounded=A=a*(c1.c+1),B=b*(1);coefficients=a{2,-7},b{-3,-1,2,5};states=3_modes min_obl=616 reach=1 timeout=120 tier=thorough
void h_mul_L2_19_x_L0(void) { run_algebra(0); }
//@harness h_mul_L2_10_x_all1_M2 enforce=none loops=0 unwind=10 props=C05 defs=-DVERIF_FP_IEEE,-DSTR_LEN=2,-DSTR_CODE=0x10,-DSTR2_LEN=1,-DSTR2_CODE=0x0,-DSTR2_SUFFIX=1,-DSTR_MODES=2,-DMONO_CAP=3UL,-DMAP_CAP=4UL bounded=A=a*(c1.c0),B=b*(every_string_of_length_1_over_2_modes);coefficients=a{2,-7},b{-3,-1,2,5};states=3_modes min_obl=616 reach=1 timeout=300 tier=thorough
void h_mul_L2_10_x_all1_M2(void) { run_algebra(0); }
//@harness h_mul_L2_10_x_all2_M2 enforce=none loops=0 unwind=10 props=C05 defs=-DVERIF_FP_IEEE,-DSTR_LEN=2,-DSTR_CODE=0x10,-DSTR2_LEN=2,-DSTR2_CODE=0x0,-DSTR2_SUFFIX=2,-DSTR_MODES=2,-DMONO_CAP=4UL,-DMAP_CAP=4UL bounded=A=a*(c1.c0),B=b*(every_string_of_length_2_over_2_modes);coefficients=a{2,-7},b{-3,-1,2,5};states=3_modes min_obl=616 reach=1 timeout=300 tier=thorough
void h_mul_L2_10_x_all2_M2(void) { run_algebra(0); }
//@harness h_mul_L2_10_x_L0 enforce=none loops=0 unwind=10 props=C05 defs=-DVERIF_FP_IEEE,-DSTR_LEN=2,-DSTR_CODE=0x10,-DSTR2_LEN=0,-DSTR2_CODE=0x0,-DMONO_CAP=2UL,-DMAP_CAP=4UL bounded=A=a*(c1.c0),B=b*(1);coefficients=a{2,-7},b{-3,-1,2,5};states=3_modes min_obl=616 reach=1 timeout=120 tier=thorough
void h_mul_L2_10_x_L0(void) { run_algebra(0); }
//@harness h_mul_L2_11_x_all1_M2 enforce=none loops=0 unwind=10 props=C05 defs=-DVERIF_FP_IEEE,-DSTR_LEN=2,-DSTR_CODE=0x11,-DSTR2_LEN=1,-DSTR2_CODE=0x0,-DSTR2_SUFFIX=1,-DSTR_MODES=2,-DMONO_CAP=3UL,-DMAP_CAP=4UL bounded=A=a*(c1.c1),B=b*(every_string_of_length_1_over_2_modes);coefficients=a{2,-7},b{-3,-1,2,5};states=3_modes min_obl=616 reach=1 timeout=300 tier=thorough
void h_mul_L2_11_x_all1_M2(void) { run_algebra(0); }
//@harness h_mul_L2_11_x_all2_M2 enforce=none loops=0 unwind=10 props=C05 defs=-DVERIF_FP_IEEE,-DSTR_LEN=2,-DSTR_CODE=0x11,-DSTR2_LEN=2,-DSTR2_CODE=0x0,-DSTR2_SUFFIX=2,-DSTR_MODES=2,-DMONO_CAP=4UL,-DMAP_CAP=4UL bounded=A=a*(c1.c1),B=b*(every_string_of_length_2_over_2_modes);coefficients=a{2,-7},b{-3,-1,2,5};states=3_modes min_obl=616 reach=1 timeout=300 tier=thorough
void h_mul_L2_11_x_all2_M2(void) { run_algebra(0); }
//@harness h_mul_L2_11_x_L0 enforce=none loops=0 unwind=10 props=C05 defs=-DVERIF_FP_IEEE,-DSTR_LEN=2,-DSTR_CODE=0x11,-DSTR2_LEN=0,-DSTR2_CODE=0x0,-DMONO_CAP=2UL,-DMAP_CAP=4UL bounded=A=a*(c1.c1),B=b*(1);coefficients=a{2,-7},b{-3,-1,2,5};states=3_modes min_obl=616 reach=1 timeout=120 tier=thorough
void h_mul_L2_11_x_L0(void) { run_algebra(0); }
//@harness h_comm_L1_8_L1_A enforce=none loops=0 unwind=10 props=C05 defs=-DVERIF_FP_IEEE,-DSTR_LEN=1,-DSTR_CODE=0x8,-DSTR2_LEN=1,-DSTR2_CODE=0xA,-DMONO_CAP=2UL,-DMAP_CAP=4UL bounded=A=a*(c+0),B=b*(c+2);coefficients=a{2,-7},b{-3,-1,2,5};states=3_modes min_obl=616 reach=2 timeout=120 tier=thorough
void h_comm_L1_8_L1_A(void) { run_algebra(1); }
//@harness h_comm_L1_8_L1_2 enforce=none loops=0 unwind=10 props=C05 defs=-DVERIF_FP_IEEE,-DSTR_LEN=1,-DSTR_CODE=0x8,-DSTR2_LEN=1,-DSTR2_CODE=0x2,-DMONO_CAP=2UL,-DMAP_CAP=4UL bounded=A=a*(c+0),B=b*(c2);coefficients=a{2,-7},b{-3,-1,2,5};states=3_modes min_obl=616 reach=2 timeout=120 tier=thorough
void h_comm_L1_8_L1_2(void) { run_algebra(1); }
//@harness h_comm_L1_9_L1_A enforce=none loops=0 unwind=10 props=C05 defs=-DVERIF_FP_IEEE,-DSTR_LEN=1,-DSTR_CODE=0x9,-DSTR2_LEN=1,-DSTR2_CODE=0xA,-DMONO_CAP=2UL,-DMAP_CAP=4UL bounded=A=a*(c+1),B=b*(c+2);coefficients=a{2,-7},b{-3,-1,2,5};states=3_modes min_obl=616 reach=2 timeout=120 tier=thorough
void h_comm_L1_9_L1_A(void) { run_algebra(1); }
//@harness h_comm_L1_9_L1_2 enforce=none loops=0 unwind=10 props=C05 defs=-DVERIF_FP_IEEE,-DSTR_LEN=1,-DSTR_CODE=0x9,-DSTR2_LEN=1,-DSTR2_CODE=0x2,-DMONO_CAP=2UL,-DMAP_CAP=4UL bounded=A=a*(c+1),B=b*(c2);coefficients=a{2,-7},b{-3,-1,2,5};states=3_modes min_obl=616 reach=2 timeout=120 tier=thorough
void h_comm_L1_9_L1_2(void) { run_algebra(1); }
//@harness h_comm_L1_A_L1_8 enforce=none loops=0 unwind=10 props=C05 defs=-DVERIF_FP_IEEE,-DSTR_LEN=1,-DSTR_CODE=0xA,-DSTR2_LEN=1,-DSTR2_CODE=0x8,-DMONO_CAP=2UL,-DMAP_CAP=4UL bounded=A=a*(c+2),B=b*(c+0);coefficients=a{2,-7},b{-3,-1,2,5};states=3_modes min_obl=616 reach=2 timeout=120 tier=thorough
void h_comm_L1_A_L1_8(void) { run_algebra(1); }
//@harness h_comm_L1_A_L1_9 enforce=none loops=0 unwind=10 props=C05 defs=-DVERIF_FP_IEEE,-DSTR_LEN=1,-DSTR_CODE=0xA,-DSTR2_LEN=1,-DSTR2_CODE=0x9,-DMONO_CAP=2UL,-DMAP_CAP=4UL bounded=A=a*(c+2),B=b*(c+1);coefficients=a{2,-7},b{-3,-1,2,5};states=3_modes min_obl=616 reach=2 timeout=120 tier=thorough
void h_comm_L1_A_L1_9(void) { run_algebra(1); }
//@harness h_comm_L1_A_L1_A enforce=none loops=0 unwind=10 props=C05 defs=-DVERIF_FP_IEEE,-DSTR_LEN=1,-DSTR_CODE=0xA,-DSTR2_LEN=1,-DSTR2_CODE=0xA,-DMONO_CAP=2UL,-DMAP_CAP=4UL bounded=A=a*(c+2),B=b*(c+2);coefficients=a{2,-7},b{-3,-1,2,5};states=3_modes min_obl=616 reach=2 timeout=120 tier=thorough
void h_comm_L1_A_L1_A(void) { run_algebra(1); }
//@harness h_comm_L1_A_L1_0 enforce=none loops=0 unwind=10 props=C05 defs=-DVERIF_FP_IEEE,-DSTR_LEN=1,-DSTR_CODE=0xA,-DSTR2_LEN=1,-DSTR2_CODE=0x0,-DMONO_CAP=2UL,-DMAP_CAP=4UL bounded=A=a*(c+2),B=b*(c0);coefficients=a{2,-7},b{-3,-1,2,5};states=3_modes min_obl=616 reach=2 timeout=120 tier=thorough
void h_comm_L1_A_L1_0(void) { run_algebra(1); }
//@harness h_comm_L1_A_L1_1 enforce=none loops=0 unwind=10 props=C05 defs=-DVERIF_FP_IEEE,-DSTR_LEN=1,-DSTR_CODE=0xA,-DSTR2_LEN=1,-DSTR2_CODE=0x1,-DMONO_CAP=2UL,-DMAP_CAP=4UL bounded=A=a*(c+2),B=b*(c1);coefficients=a{2,-7},b{-3,-1,2,5};states=3_modes min_obl=616 reach=2 timeout=120 tier=thorough
void h_comm_L1_A_L1_1(void) { run_algebra(1); }
//@harness h_comm_L1_A_L1_2 enforce=none loops=0 unwind=10 props=C05 defs=-DVERIF_FP_IEEE,-DSTR_LEN=1,-DSTR_CODE=0xA,-DSTR2_LEN=1,-DSTR2_CODE=0x2,-DMONO_CAP=2UL,-DMAP_CAP=4UL bounded=A=a*(c+2),B=b*(c2);coefficients=a{2,-7},b{-3,-1,2,5};states=3_modes min_obl=616 reach=2 timeout=120 tier=thorough
void h_comm_L1_A_L1_2(void) { run_algebra(1); }
//@harness h_comm_L1_0_L1_A enforce=none loops=0 unwind=10 props=C05 defs=-DVERIF_FP_IEEE,-DSTR_LEN=1,-DSTR_CODE=0x0,-DSTR2_LEN=1,-DSTR2_CODE=0xA,-DMONO_CAP=2UL,-DMAP_CAP=4UL bounded=A=a*(c0),B=b*(c+2);coefficients=a{2,-7},b{-3,-1,2,5};states=3_modes min_obl=616 reach=2 timeout=120 tier=thorough
void h_comm_L1_0_L1_A(void) { run_algebra(1); }
//@harness h_comm_L1_0_L1_2 enforce=none loops=0 unwind=10 props=C05 defs=-DVERIF_FP_IEEE,-DSTR_LEN=1,-DSTR_CODE=0x0,-DSTR2_LEN=1,-DSTR2_CODE=0x2,-DMONO_CAP=2UL,-DMAP_CAP=4UL bounded=A=a*(c0),B=b*(c2);coefficients=a{2,-7},b{-3,-1,2,5};states=3_modes min_obl=616 reach=2 timeout=120 tier=thorough
void h_comm_L1_0_L1_2(void) { run_algebra(1); }
//@harness h_comm_L1_1_L1_A enforce=none loops=0 unwind=10 props=C05 defs=-DVERIF_FP_IEEE,-DSTR_LEN=1,-DSTR_CODE=0x1,-DSTR2_LEN=1,-DSTR2_CODE=0xA,-DMONO_CAP=2UL,-DMAP_CAP=4UL bounded=A=a*(c1),B=b*(c+2);coefficients=a{2,-7},b{-3,-1,2,5};states=3_modes min_obl=616 reach=2 timeout=120 tier=thorough
void h_comm_L1_1_L1_A(void) { run_algebra(1); }
//@harness h_comm_L1_1_L1_2 enforce=none loops=0 unwind=10 props=C05 defs=-DVERIF_FP_IEEE,-DSTR_LEN=1,-DSTR_CODE=0x1,-DSTR2_LEN=1,-DSTR2_CODE=0x2,-DMONO_CAP=2UL,-DMAP_CAP=4UL bounded=A=a*(c1),B=b*(c2);coefficients=a{2,-7},b{-3,-1,2,5};states=3_modes min_obl=616 reach=2 timeout=120 tier=thorough
void h_comm_L1_1_L1_2(void) { run_algebra(1); }
//@harness h_comm_L1_2_L1_8 enforce=none loops=0 unwind=10 props=C05 defs=-DVERIF_FP_IEEE,-DSTR_LEN=1,-DSTR_CODE=0x2,-DSTR2_LEN=1,-DSTR2_CODE=0x8,-DMONO_CAP=2UL,-DMAP_CAP=4UL bounded=A=a*(c2),B=b*(c+0);coefficients=a{2,-7},b{-3,-1,2,5};states=3_modes min_obl=616 reach=2 timeout=120 tier=thorough
void h_comm_L1_2_L1_8(void) { run_algebra(1); }
//@harness h_comm_L1_2_L1_9 enforce=none loops=0 unwind=10 props=C05 defs=-DVERIF_FP_IEEE,-DSTR_LEN=1,-DSTR_CODE=0x2,-DSTR2_LEN=1,-DSTR2_CODE=0x9,-DMONO_CAP=2UL,-DMAP_CAP=4UL bounded=A=a*(c2),B=b*(c+1);coefficients=a{2,-7},b{-3,-1,2,5};states=3_modes min_obl=616 reach=2 timeout=120 tier=thorough
void h_comm_L1_2_L1_9(void) { run_algebra(1); }
//@harness h_comm_L1_2_L1_A enforce=none loops=0 unwind=10 props=C05 defs=-DVERIF_FP_IEEE,-DSTR_LEN=1,-DSTR_CODE=0x2,-DSTR2_LEN=1,-DSTR2_CODE=0xA,-DMONO_CAP=2UL,-DMAP_CAP=4UL bounded=A=a*(c2),B=b*(c+2);coefficients=a{2,-7},b{-3,-1,2,5};states=3_modes min_obl=616 reach=2 timeout=120 tier=thorough
void h_comm_L1_2_L1_A(void) { run_algebra(1); }
//@harness h_comm_L1_2_L1_0 enforce=none loops=0 unwind=10 props=C05 defs=-DVERIF_FP_IEEE,-DSTR_LEN=1,-DSTR_CODE=0x2,-DSTR2_LEN=1,-DSTR2_CODE=0x0,-DMONO_CAP=2UL,-DMAP_CAP=4UL bounded=A=a*(c2),B=b*(c0);coefficients=a{2,-7},b{-3,-1,2,5};states=3_modes min_obl=616 reach=2 timeout=120 tier=thorough
void h_comm_L1_2_L1_0(void) { run_algebra(1); }
//@harness h_comm_L1_2_L1_1 enforce=none loops=0 unwind=10 props=C05 defs=-DVERIF_FP_IEEE,-DSTR_LEN=1,-DSTR_CODE=0x2,-DSTR2_LEN=1,-DSTR2_CODE=0x1,-DMONO_CAP=2UL,-DMAP_CAP=4UL bounded=A=a*(c2),B=b*(c1);coefficients=a{2,-7},b{-3,-1,2,5};states=3_modes min_obl=616 reach=2 timeout=120 tier=thorough
void h_comm_L1_2_L1_1(void) { run_algebra(1); }
//@harness h_comm_L1_2_L1_2 enforce=none loops=0 unwind=10 props=C05 defs=-DVERIF_FP_IEEE,-DSTR_LEN=1,-DSTR_CODE=0x2,-DSTR2_LEN=1,-DSTR2_CODE=0x2,-DMONO_CAP=2UL,-DMAP_CAP=4UL bounded=A=a*(c2),B=b*(c2);coefficients=a{2,-7},b{-3,-1,2,5};states=3_modes min_obl=616 reach=2 timeout=120 tier=thorough
void h_comm_L1_2_L1_2(void) { run_algebra(1); }
//@GENERATED-END
/* ---------------------------------------------------------------------------------------------------------------------
 * ORDER: Operator.h documents composite_index_t = boost::tuple<op_type, ParticleIndex> as "LessThanComparable" with op_type {creation,
 *   annihilation}; the code sorts ascending with the tuple's operator>.  Documentation and code agree: a normal-ordered monomial has all
 *   creation operators first (ascending mode), then all annihilation operators (ascending mode), no factor twice.
 * FINDINGS: none in /repo.  Extractor: `//@enum op_type` used to resolve to Lattice::Term::op_type {annihilation, creation} (the first enum
 *   of that name); `//@enum Operator::op_type` (qualified) now selects the right one (tools/ast2c.py find_enum).
 * Remark (no harness): normalize_and_insert stores a NEW monomial without the near-zero test, so operator*= keeps products of coefficients
 *   below 100 eps (same remark as for operator*=(alpha) in specs/operator.c); the polynomial and its matrix are then genuinely non-zero.
 *
 * MUTATION LOG (tools/try_mutant.py, include/pomerol/Operator.h unless noted; all killed)
 *  normalize_and_insert: drop `coeff = -coeff`                         h_no_L2_10, h_no_L2_08: check_string.assertion.1 (matrix identity)
 *     (h_no_L2_01 = c_0 c_1 is already ordered, no swap: passes, as it must)
 *  normalize_and_insert: drop the contraction call                     h_no_L2_08: check_string.assertion.1;  h_assoc_L1_0_L1_8_L1_0: algebra_case.assertion.6
 *  normalize_and_insert: contraction for ANY swapped c, c^+ pair       h_no_L2_09: check_string.assertion.1      (delta_ij dropped)
 *  normalize_and_insert: contraction inserted with -coeff              h_no_L2_08: check_string.assertion.1
 *  normalize_and_insert: drop `if(prev_index == cur_index) return`     h_no_L2_00: check_polynomial.assertion.1 (strictly increasing; the matrix identity cannot see c_0 c_0)
 *  normalize_and_insert: `prev_index > cur_index` -> `<`               h_no_L2_10: check_polynomial.assertion.1
 *  normalize_and_insert: new_m keeps the current factor (n+1 -> n)     h_no_L3_108: check_string.assertion.1
 *  normalize_and_insert: drop std::swap(prev_index, cur_index)         h_no_L3_080: Operator_normalize_and_insert.unwind.1 (the sort no longer terminates)
 *  normalize_and_insert: merge `+=` -> `=`                             h_no_L3_088: check_string.assertion.1
 *  normalize_and_insert: no erase_zero_monomial after a merge          h_no_L3_088: check_polynomial.assertion.2
 *  erase_zero_monomial: `<` -> `>`                                     h_no_L3_088: check_polynomial.assertion.2   (h_no_L4_0808 has no merge: passes)
 *  operator*=: coefficient a+b instead of a*b                          h_mul_L2_80_x_L2_91: algebra_case.assertion.4
 *  operator*=: concatenation order swapped                             h_mul_L1_0_x_L1_8: algebra_case.assertion.4
 *  operator*=: drop std::swap(monomials, tmp_map)                      h_mul_L1_0_x_L1_8: algebra_case.assertion.4
 *  operator*=: inner loop stops after the first monomial of op         h_mul_L1_0_p_L1_9_x_L1_8_p_L1_1: algebra_case.assertion.4
 *  getAntiCommutator (Operator.cpp): `+` -> `-`                        h_comm_L1_0_L1_8: algebra_case.assertion.11/.12
 *  getCommutator (Operator.cpp): second product not swapped            h_comm_L1_0_L1_1: algebra_case.assertion.10
 *  operator+=(Operator): `it->second += m.second` -> `-=`              h_comm_L1_0_L1_8: algebra_case.assertion.11/.12
 * ------------------------------------------------------------------------------------------------------------------- */
