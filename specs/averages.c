/* Averages as traces of the density matrix (C09, third sentence):
 *   DensityMatrixPart::getAverageEnergy / getAverageOccupancy() / getAverageOccupancy(i) / getAverageDoubleOccupancy(i,j)
 *   DensityMatrix::getAverageEnergy / getAverageOccupancy() / getAverageOccupancy(i) / getAverageDoubleOccupancy(i,j)
 *   EnsembleAverage::compute(Apart, Hpart, DMpart)
 * What is / is not proved, assumptions and mutants: comment at the end of the file. */
#include "../stubs/common.h"
#include "../stubs/cplx.h"
#include "../stubs/sparse.h"
#include "../stubs/bitset.h"
//@include types_common.inc
//@type (Pomerol::)?(Real)?VectorType|Eigen::Matrix<double, -1, 1(, 0)?(, -1, 1)?> => RealVector ptr
//@type (Pomerol::)?(Real)?MatrixType|Eigen::Matrix<double, -1, -1(, 1)?(, -1, -1)?> => EvecM ptr
//@type (Pomerol::)?FockState|boost::dynamic_bitset<.*> => Bitset val
//@record Pomerol::BlockNumber => BlockNumber val
//@tu src/pomerol/DensityMatrixPart.cpp
//@enum ComputableObject::
typedef struct BlockNumber BlockNumber;
//@struct Pomerol::BlockNumber

/* ---- Eigen vectors of doubles in this unit.  Two kinds of objects have the C++ type Eigen::Matrix<double,-1,1>:
 *   (a) DensityMatrixPart::weights, HamiltonianPart::Eigenvalues: heap arrays (as in stubs/dense.h);
 *   (b) the local copy `VectorType CurrentEigenState = hpart.getEigenState(s)` of column s of the eigenvector matrix.
 * The eigenvector matrix is modelled as a FUNCTION (row = Fock index inside the block, column = eigenstate) -> double
 * (uninterpreted evec) plus its dimensions; a copy of column c is the view {size = rows, col = c, data = 0}: its
 * coefficient fi is evec(fi, c).  ASSERTED: every coefficient access inside the vector (Eigen checks this only without NDEBUG).
 * TRUSTED: a copied column holds the coefficients of that column (Eigen's `H.col(s)` and the VectorType copy constructor). */
typedef struct RealVector { long size; double *data; long col; } RealVector;   /* col: VK_WEIGHTS, VK_EIGENVALUES or the column copied */
#define VK_WEIGHTS (-1L)
#define VK_EIGENVALUES (-2L)
typedef struct EvecM { long rows, cols; } EvecM;
double __CPROVER_uninterpreted_evec(long row, long col);
#define evec __CPROVER_uninterpreted_evec
static inline _Bool RealVector_wf(RealVector *v, long maxsize, long kind)
{ return v->size >= 0 && v->size <= maxsize && v->col == kind && __CPROVER_is_fresh(v->data, v->size * sizeof(double)); }
/* ghost record of the coefficient reads of the current addend (written by the access stub, read by the monitors) */
long g_w_idx; double g_w_val;         /* weights(s): index and value read last */
long g_e_idx; double g_e_val;         /* Eigenvalues(s) */
long g_c_row, g_c_col; double g_c_val;/* CurrentEigenState(fi): Fock index, eigenstate, value */
double g_cell;                        /* the cell a column view hands out (same value as g_c_val) */
static inline double *RealVector_call(RealVector *v, long i)
{
  __CPROVER_assert(0 <= i && i < v->size, "Eigen vector coefficient access inside the vector");
  if (v->col >= 0) { g_c_row = i; g_c_col = v->col; g_c_val = evec(i, v->col); g_cell = g_c_val; return &g_cell; }
  if (v->col == VK_WEIGHTS) { g_w_idx = i; g_w_val = v->data[i]; }
  else { g_e_idx = i; g_e_val = v->data[i]; }
  return &v->data[i];
}
static inline long RealVector_size(RealVector *v) { return v->size; }

//@struct Pomerol::HamiltonianPart only=Eigenvalues,Status,Block,H
//@struct Pomerol::StatesClassification only=IndexSize,Status
//@extra
long nblocks;                        /* ghost: number of blocks (StatesContainer.size()) */
//@end
//@struct Pomerol::DensityMatrixPart embed=hpart,S

struct DensityMatrixPart *g_self;   /* the part under verification (for the stubs) */

/* ---- HamiltonianPart callee contracts.
 * getEigenValue is EXTRACTED (below).
 * getEigenState(s): "returns the eigenstate" = column s of the eigenvector matrix H; throws exStatusMismatch before compute.
 *   ASSERTED: s is a column of H (Eigen's col() checks this only without NDEBUG).
 * getBlockNumber(): the number of the block this part belongs to (field Block; the real function looks QN up in S: C07). */
static inline RealVector HamiltonianPart_getEigenState(struct HamiltonianPart *hp, unsigned long state)
{
  RealVector r; r.size = 0; r.data = (double *)0; r.col = 0;
  if (hp->Status < Computed) { VERIF_THROW("exStatusMismatch"); return r; }
  __CPROVER_assert(state < (unsigned long)hp->H.cols, "C09: getEigenState(s): s is a column of the eigenvector matrix");
  r.size = hp->H.rows; r.col = (long)state;
  return r;
}
static inline BlockNumber HamiltonianPart_getBlockNumber(struct HamiltonianPart *hp) { return hp->Block; }
/* getMatrixElement(m, n): "return H(m,n)" -- after compute() the coefficient (m,n) of the eigenvector matrix: component m of eigenstate n.
 * (Not called by the unchanged averages; modelled so that a change that reads the eigenvectors in place is decided.)  Recorded like a
 * read of CurrentEigenState(m) of column n.  ASSERTED: inside the matrix (Eigen checks only without NDEBUG). */
static inline double HamiltonianPart_getMatrixElement(struct HamiltonianPart *hp, unsigned long m, unsigned long n)
{
  __CPROVER_assert(m < (unsigned long)hp->H.rows && n < (unsigned long)hp->H.cols, "C09: getMatrixElement(m,n) inside the eigenvector matrix");
  g_c_row = (long)m; g_c_col = (long)n; g_c_val = evec((long)m, (long)n); g_cell = g_c_val;
  return g_c_val;
}
//@tu src/pomerol/HamiltonianPart.cpp
//@maythrow HamiltonianPart_getEigenValue HamiltonianPart_getEigenState StatesClassification_getFockState
/* twins for the other spelling of an increment (`++it` for `it++` and vice versa): same effect.  X_inc yields the iterator after the step
 * (exact); X_postinc made from X_inc is void, so a use of its value does not compile (UNDECIDED) instead of being modelled wrongly */
#define PartVecIt_inc(it_) (PartVecIt_postinc(it_), (it_))      /* pre-increment: the iterator itself, after the step */
//@function Pomerol::HamiltonianPart::getEigenValue(unsigned long) const as HamiltonianPart_getEigenValue
//@end
//@tu src/pomerol/DensityMatrixPart.cpp

/* ---- StatesClassification::getFockState(block, m): callee contract (proved in specs/states.c, h_getFockState): the state
 * stored at (block, m); throws exStatusMismatch before compute, exWrongState when `block` is not a block or m is not a
 * position of it.  The partition is abstract (uninterpreted sc_size / sc_state as in specs/hampart.c).
 * ASSUMED (C07): every stored Fock state has IndexSize bits. */
unsigned long __CPROVER_uninterpreted_sc_size(long block);
unsigned long __CPROVER_uninterpreted_sc_state(long block, unsigned long pos);
#define sc_size  __CPROVER_uninterpreted_sc_size
#define sc_state __CPROVER_uninterpreted_sc_state
long g_f_blk; unsigned long g_f_idx;   /* ghost record: arguments of the Fock-state lookup read last */
static inline Bitset sc_getFockState(struct StatesClassification *S, BlockNumber in, unsigned long m)
{
  Bitset r = { nondet_ulong(), nondet_ulong() };
  if (S->Status < Computed) { VERIF_THROW("exStatusMismatch"); return r; }
  if (0 <= in.number && in.number < S->nblocks && m < sc_size(in.number)) {
    r.w = sc_state(in.number, m); r.size = S->IndexSize;
    __CPROVER_assume(Bitset_wf(r));   /* ASSUMED (C07): an IndexSize-bit state, no bits beyond IndexSize */
    g_f_blk = in.number; g_f_idx = m;
    return r;
  }
  VERIF_THROW("exWrongState"); return r;
}

/* =========================================================== DensityMatrixPart::getAverageEnergy
 * "Returns an averaged value of the energy": <E>_part = sum_s w_s E_s over the states s of this block.
 * Whole-sum statement without quantifiers (idiom of specs/gfterm.c): every `+` on doubles inside the function goes through the
 * MONITOR acc_E, which asserts that the accumulator is changed by nothing else, that the addend is weights(s)*Eigenvalues(s)
 * for ONE state s read at both places, that s lies behind the state accumulated before (each state at most once, in order),
 * and maintains the model fold g_model.  Post: result = g_model = ((0 + w_0 E_0) + w_1 E_1) + ..., an arbitrary state g_q was
 * accumulated exactly once, the last one accumulated is the last state of the block. */
#define D_SAME_LV(a, b) (*(const unsigned long *)&(a) == *(const unsigned long *)&(b))
long g_q;                 /* ghost: ONE arbitrary state of the block (or -1) */
unsigned long g_hits;     /* additions made for the ghost state (pair) */
long g_last;              /* state accumulated last */
double g_model;           /* model fold */
static double acc_E(double acc, double v)
{
  __CPROVER_assert(g_w_idx == g_e_idx, "C09: weight and eigenvalue of the same state");
  __CPROVER_assert(g_w_idx > g_last, "C09: every state is added at most once (in order)");
  __CPROVER_assert(D_SAME(acc, g_model), "C09: the accumulator is changed by nothing but these additions");
  __CPROVER_assert(D_SAME(v, d_mul(g_w_val, g_e_val)), "C09: the addend is w_s * E_s");
  g_last = g_w_idx;
  if (g_w_idx == g_q) g_hits++;
  g_model = d_add(g_model, v);
  REACH("acc_E");
  return d_add(acc, v);
}
#define WSIZE (self->weights.size)
#define READS_FRAME g_w_idx, g_w_val, g_e_idx, g_e_val
#undef D_ADD
#define D_ADD(a, b) acc_E((a), (b))
//@function Pomerol::DensityMatrixPart::getAverageEnergy() const as DensityMatrixPart_getAverageEnergy
//@contract
__CPROVER_requires(__CPROVER_is_fresh(self, sizeof(*self)) && g_self == self)
__CPROVER_requires(RealVector_wf(&self->weights, SP_MAX, VK_WEIGHTS) && RealVector_wf(&self->hpart.Eigenvalues, SP_MAX, VK_EIGENVALUES))
/* type invariants: one weight per eigenvalue (constructor: weights(hpart.getSize())); H is computed when DM is (C03/C09) */
__CPROVER_requires(self->hpart.Eigenvalues.size == WSIZE && self->hpart.Status >= Computed && !VERIF_thrown)
__CPROVER_requires(g_q >= -1 && g_q < WSIZE && g_hits == 0 && g_last == -1 && D_SAME(g_model, 0.0))
__CPROVER_assigns(READS_FRAME, g_hits, g_last, g_model, VERIF_thrown)
__CPROVER_ensures(!VERIF_thrown && D_SAME(__CPROVER_return_value, g_model))
__CPROVER_ensures(g_hits == (g_q >= 0 ? 1UL : 0UL) && g_last == WSIZE - 1)
//@loop 1
__CPROVER_assigns(s, E, READS_FRAME, g_hits, g_last, g_model, VERIF_thrown)
__CPROVER_loop_invariant(s <= partSize && partSize == (unsigned long)WSIZE && !VERIF_thrown)
__CPROVER_loop_invariant(g_last == (long)s - 1 && D_SAME_LV(E, g_model))
__CPROVER_loop_invariant(g_hits == ((g_q >= 0 && (unsigned long)g_q < s) ? 1UL : 0UL))
__CPROVER_decreases(partSize - s)
//@end
#undef D_ADD
#define D_ADD(a, b) d_add((a), (b))
//@harness h_DMP_getAverageEnergy enforce=DensityMatrixPart_getAverageEnergy props=C09 min_obl=283 reach=2 timeout=300
void h_DMP_getAverageEnergy(void)
{
  struct DensityMatrixPart *p;
  DensityMatrixPart_getAverageEnergy(p);
  REACH("exit");
}

/* =========================================================== DensityMatrixPart::getAverageOccupancy(), getAverageOccupancy(i),
 *                                                             getAverageDoubleOccupancy(i,j)
 * "Returns the average occupancy at site i" / "the total average occupancy" / "an averaged value of the double occupancy" as the
 * trace of the density matrix with N = sum_i n_i, n_i, n_i n_j (property C09): with the eigenstate |s> = sum_f U(f,s) |f> over
 * the Fock states f of this block,
 *      <X>_part = sum_s  sum_f  w_s * x(f) * |U(f,s) U(f,s)|,     x(f) = popcount(f),  bit_i(f),  bit_i(f) * bit_j(f).
 * Every `+` on doubles goes through the MONITOR acc_N: the accumulator is changed by nothing else; the addend is the spec
 * expression built from weights(s), the Fock state stored at (block of this part, fi) and the eigenvector component U(fi,s)
 * with ONE pair (s,fi) read at all three places; pairs come in strictly increasing lexicographic order (each at most once).
 * Post: result = model fold; an arbitrary pair (g_q, g_f) was accumulated exactly once; nothing throws.
 * Pre-conditions = type invariants of a computed density matrix: H is the square eigenvector matrix of the block, one weight
 * per eigenstate, the block exists; AND i, j < IndexSize: the functions do not test their arguments and dynamic_bitset's
 * test()/operator[] are unchecked under NDEBUG (obligation on the callers, see REMARKS). */
int g_mode;               /* 0: getAverageOccupancy()   1: getAverageOccupancy(i)   2: getAverageDoubleOccupancy(i,j) */
unsigned int g_i, g_j;    /* the arguments */
long g_blk;               /* block of this part */
long g_f;                 /* ghost: ONE arbitrary Fock index of the block (pair (g_q, g_f)), or -1 */
long g_ls, g_lf;          /* pair accumulated last */
static inline double spec_addend(int mode, double w, unsigned long f, double c, unsigned int i, unsigned int j)
{
  double cc = d_abs(d_mul(c, c));
  if (mode == 0) return d_mul(d_mul(w, (double)(unsigned long)__builtin_popcountl(f)), cc);
  if (mode == 1) return d_mul(d_mul(w, (double)(int)((f >> i) & 1UL)), cc);
  return d_mul(d_mul(d_mul(w, (double)(int)((f >> i) & 1UL)), (double)(int)((f >> j) & 1UL)), cc);
}
static double acc_N(double acc, double v)
{
  __CPROVER_assert(g_w_idx == g_c_col, "C09: the weight is the one of the eigenstate whose component is squared");
  __CPROVER_assert(g_f_blk == g_blk && g_f_idx == (unsigned long)g_c_row, "C09: the Fock state is the one stored in this block at the component's position");
  __CPROVER_assert(g_c_col > g_ls || (g_c_col == g_ls && g_c_row > g_lf), "C09: every (state, Fock component) pair is added at most once (lexicographic order)");
  __CPROVER_assert(D_SAME(acc, g_model), "C09: the accumulator is changed by nothing but these additions");
  __CPROVER_assert(D_SAME(v, spec_addend(g_mode, g_w_val, sc_state(g_blk, (unsigned long)g_c_row), g_c_val, g_i, g_j)), "C09: the addend is w_s * x(f) * |U(f,s)U(f,s)|");
  g_ls = g_c_col; g_lf = g_c_row;
  if (g_c_col == g_q && g_c_row == g_f) g_hits++;
  g_model = d_add(g_model, v);
  REACH("acc_N");
  return d_add(acc, v);
}
#define StatesClassification_getFockState(S, b, m) (*(Bitset[1]){ sc_getFockState((S), (b), (m)) })
#define HROWS (self->hpart.H.rows)
#define N_FRAME g_w_idx, g_w_val, g_c_row, g_c_col, g_c_val, g_cell, g_f_blk, g_f_idx, g_hits, g_ls, g_lf, g_model, VERIF_thrown
#define PAIR_OK (g_q >= 0)
#define N_PRE(self) \
  (RealVector_wf(&(self)->weights, SP_MAX, VK_WEIGHTS) && (self)->hpart.Status >= Computed && (self)->S.Status >= Computed && !VERIF_thrown && \
   (self)->S.IndexSize <= 64 && 0 <= (self)->hpart.Block.number && (self)->hpart.Block.number < (self)->S.nblocks && g_blk == (self)->hpart.Block.number && \
   (self)->hpart.H.rows == (long)sc_size(g_blk) && (self)->hpart.H.cols == (self)->hpart.H.rows && (self)->weights.size == (self)->hpart.H.rows && \
   ((g_q == -1 && g_f == -1) || (0 <= g_q && g_q < (self)->weights.size && 0 <= g_f && g_f < (self)->hpart.H.rows)) && \
   g_hits == 0 && g_ls == -1 && g_lf == -1 && D_SAME(g_model, 0.0))
#define N_POST (!VERIF_thrown && D_SAME(__CPROVER_return_value, g_model) && g_hits == (PAIR_OK ? 1UL : 0UL))
#undef D_ADD
#define D_ADD(a, b) acc_N((a), (b))
//@free abs(double) => d_abs
//@rename Bitset_at => Bitset_cat
/* calls between the averages of one part (none in the unchanged code) resolve to the extracted overloads */
//@rename DensityMatrixPart_getAverageOccupancy/0 => DensityMatrixPart_getAverageOccupancy0
//@rename DensityMatrixPart_getAverageOccupancy/1 => DensityMatrixPart_getAverageOccupancy1
//@function Pomerol::DensityMatrixPart::getAverageOccupancy() const as DensityMatrixPart_getAverageOccupancy0
//@contract
__CPROVER_requires(__CPROVER_is_fresh(self, sizeof(*self)) && g_self == self)
__CPROVER_requires(N_PRE(self) && g_mode == 0)
__CPROVER_assigns(N_FRAME)
__CPROVER_ensures(N_POST)
//@loop 1
__CPROVER_assigns(s, n, N_FRAME)
__CPROVER_loop_invariant(s <= partSize && partSize == (unsigned long)WSIZE && !VERIF_thrown)
__CPROVER_loop_invariant(g_ls < (long)s && D_SAME_LV(n, g_model))
__CPROVER_loop_invariant(g_hits == ((PAIR_OK && (unsigned long)g_q < s) ? 1UL : 0UL))
__CPROVER_decreases(partSize - s)
//@loop 2
__CPROVER_assigns(fi, n, N_FRAME)
__CPROVER_loop_invariant(fi <= (unsigned long)HROWS && CurrentEigenState.size == HROWS && CurrentEigenState.col == (long)s && !VERIF_thrown)
__CPROVER_loop_invariant((g_ls < (long)s || (g_ls == (long)s && g_lf < (long)fi)) && D_SAME_LV(n, g_model))
__CPROVER_loop_invariant(g_hits == ((PAIR_OK && ((unsigned long)g_q < s || ((unsigned long)g_q == s && (unsigned long)g_f < fi))) ? 1UL : 0UL))
__CPROVER_decreases((unsigned long)HROWS - fi)
//@end
//@function Pomerol::DensityMatrixPart::getAverageOccupancy(unsigned int) const as DensityMatrixPart_getAverageOccupancy1
//@contract
__CPROVER_requires(__CPROVER_is_fresh(self, sizeof(*self)) && g_self == self)
__CPROVER_requires(N_PRE(self) && g_mode == 1 && g_i == i && i < self->S.IndexSize)
__CPROVER_assigns(N_FRAME)
__CPROVER_ensures(N_POST)
//@loop 1
__CPROVER_assigns(s, n, N_FRAME)
__CPROVER_loop_invariant(s <= partSize && partSize == (unsigned long)WSIZE && !VERIF_thrown)
__CPROVER_loop_invariant(g_ls < (long)s && D_SAME_LV(n, g_model))
__CPROVER_loop_invariant(g_hits == ((PAIR_OK && (unsigned long)g_q < s) ? 1UL : 0UL))
__CPROVER_decreases(partSize - s)
//@loop 2
__CPROVER_assigns(fi, n, N_FRAME)
__CPROVER_loop_invariant(fi <= (unsigned long)HROWS && CurrentEigenState.size == HROWS && CurrentEigenState.col == (long)s && !VERIF_thrown)
__CPROVER_loop_invariant((g_ls < (long)s || (g_ls == (long)s && g_lf < (long)fi)) && D_SAME_LV(n, g_model))
__CPROVER_loop_invariant(g_hits == ((PAIR_OK && ((unsigned long)g_q < s || ((unsigned long)g_q == s && (unsigned long)g_f < fi))) ? 1UL : 0UL))
__CPROVER_decreases((unsigned long)HROWS - fi)
//@end
//@function Pomerol::DensityMatrixPart::getAverageDoubleOccupancy(unsigned int, unsigned int) const as DensityMatrixPart_getAverageDoubleOccupancy
//@contract
__CPROVER_requires(__CPROVER_is_fresh(self, sizeof(*self)) && g_self == self)
__CPROVER_requires(N_PRE(self) && g_mode == 2 && g_i == i && g_j == j && i < self->S.IndexSize && j < self->S.IndexSize)
__CPROVER_assigns(N_FRAME)
__CPROVER_ensures(N_POST)
//@loop 1
__CPROVER_assigns(s, NN, N_FRAME)
__CPROVER_loop_invariant(s <= partSize && partSize == (unsigned long)WSIZE && !VERIF_thrown)
__CPROVER_loop_invariant(g_ls < (long)s && D_SAME_LV(NN, g_model))
__CPROVER_loop_invariant(g_hits == ((PAIR_OK && (unsigned long)g_q < s) ? 1UL : 0UL))
__CPROVER_decreases(partSize - s)
//@loop 2
__CPROVER_assigns(fi, NN, N_FRAME)
__CPROVER_loop_invariant(fi <= (unsigned long)HROWS && CurrentEigenState.size == HROWS && CurrentEigenState.col == (long)s && !VERIF_thrown)
__CPROVER_loop_invariant((g_ls < (long)s || (g_ls == (long)s && g_lf < (long)fi)) && D_SAME_LV(NN, g_model))
__CPROVER_loop_invariant(g_hits == ((PAIR_OK && ((unsigned long)g_q < s || ((unsigned long)g_q == s && (unsigned long)g_f < fi))) ? 1UL : 0UL))
__CPROVER_decreases((unsigned long)HROWS - fi)
//@end
#undef D_ADD
#define D_ADD(a, b) d_add((a), (b))
//@harness h_DMP_getAverageOccupancy enforce=DensityMatrixPart_getAverageOccupancy0 props=C09 min_obl=749 reach=3 timeout=300
void h_DMP_getAverageOccupancy(void)
{
  struct DensityMatrixPart *p;
  DensityMatrixPart_getAverageOccupancy0(p);
  if (g_q >= 0) REACH("exit_pair"); else REACH("exit_nopair");
}
//@harness h_DMP_getAverageOccupancy_i enforce=DensityMatrixPart_getAverageOccupancy1 props=C09 min_obl=763 reach=3 timeout=300
void h_DMP_getAverageOccupancy_i(void)
{
  struct DensityMatrixPart *p; unsigned int i;
  DensityMatrixPart_getAverageOccupancy1(p, i);
  if (g_q >= 0) REACH("exit_pair"); else REACH("exit_nopair");
}
//@harness h_DMP_getAverageDoubleOccupancy enforce=DensityMatrixPart_getAverageDoubleOccupancy props=C09 min_obl=769 reach=3 timeout=300
void h_DMP_getAverageDoubleOccupancy(void)
{
  struct DensityMatrixPart *p; unsigned int i, j;
  DensityMatrixPart_getAverageDoubleOccupancy(p, i, j);
  if (g_q >= 0) REACH("exit_pair"); else REACH("exit_nopair");
}

/* ================================================================================================================
 * DensityMatrix::getAverageEnergy / getAverageOccupancy() / getAverageOccupancy(i) / getAverageDoubleOccupancy(i,j)
 * "Returns the average energy / the total average occupancy / the average occupancy at site i / an averaged value of the double
 * occupancy": the sum over ALL parts (blocks) of the part's average, every part exactly once; exStatusMismatch before compute().
 * The parts are opaque here (model of std::vector<DensityMatrixPart*> as in specs/densmat.c: length + canonical handles
 * PART_AT(k), never dereferenced); the part functions are MONITORS standing for the contracts proved above: they assert that the
 * part asked is the vector element the iterator is on and that the arguments i, j are handed through, and return an opaque
 * value part_avg(kind, k, i, j).  Every `+` on doubles is the monitor acc_DM: the addend is the value of the part the iterator
 * is on, for the right kind of average; parts in strictly increasing order; model fold g_model.
 * TRUSTED (std::vector): begin/end/++/ * as for an array of n elements; ASSERTED: * only before end(), end() not incremented. */
//@type std::vector<(Pomerol::)?DensityMatrixPart \*(, std::allocator<.*>)?> => PartVec ptr
//@type std::vector<(Pomerol::)?DensityMatrixPart \*(, std::allocator<.*>)?>::(const_)?iterator|__gnu_cxx::__normal_iterator<(Pomerol::)?DensityMatrixPart \*(const)? ?\*, .*> => PartVecIt val
struct DensityMatrixPart g_parts[1];
#define PART_AT(k) (&g_parts[0] + (k))
#define PV_MAX 1000000L
typedef struct PartVec { unsigned long n; struct DensityMatrixPart *cur; /* ghost */ long gidx, last_pos; } PartVec;
typedef struct PartVecIt { PartVec *v; long pos; } PartVecIt;
#define PartVec_begin(v_) ((PartVecIt){ (v_), 0 })
#define PartVec_end(v_) ((PartVecIt){ (v_), (long)(v_)->n })
#define PartVecIt_ctor1(p) (*(p))                 /* const_iterator(iterator) */
#define op_ne_PartVecIt_PartVecIt(a, b) ((a)->pos != (b)->pos)
#define PartVecIt_postinc(it) ({ __CPROVER_assert(0 <= (it)->pos && (it)->pos < (long)(it)->v->n, "std::vector: end() is not incremented"); (it)->pos++; })
#define PartVecIt_mul(it) ({ \
  __CPROVER_assert(0 <= (it)->pos && (it)->pos < (long)(it)->v->n, "std::vector: iterator dereferenced only before end()"); \
  (it)->v->last_pos = (it)->pos; (it)->v->cur = PART_AT((it)->pos); \
  &(it)->v->cur; })
//@tu src/pomerol/DensityMatrix.cpp
//@struct Pomerol::DensityMatrix skip=H,S

struct DensityMatrix *g_dm;       /* the density matrix under verification (for the monitors) */
double __CPROVER_uninterpreted_part_avg(int kind, long k, unsigned int i, unsigned int j);
long g_p_idx; int g_p_kind; unsigned int g_p_i, g_p_j;     /* ghost record of the part function called last */
static double mon_part_avg(struct DensityMatrixPart *part, int kind, unsigned int i, unsigned int j)
{
  PartVec *v = &g_dm->parts; long k = v->last_pos;
  __CPROVER_assert(0 <= k && k < (long)v->n && part == PART_AT(k), "C09: the part asked is the vector element the iterator is on");
  g_p_idx = k; g_p_kind = kind; g_p_i = i; g_p_j = j;
  REACH("part_avg");
  return __CPROVER_uninterpreted_part_avg(kind, k, i, j);
}
#define mon_part_E(p)         mon_part_avg((p), 3, 0U, 0U)
#define mon_part_N0(p)        mon_part_avg((p), 0, 0U, 0U)
#define mon_part_N1(p, i)     mon_part_avg((p), 1, (i), 0U)
#define mon_part_NN(p, i, j)  mon_part_avg((p), 2, (i), (j))
static double acc_DM(double acc, double v)
{
  __CPROVER_assert(g_p_kind == g_mode && g_p_i == g_i && g_p_j == g_j, "C09: the part function is the one for this average, with the arguments of the call");
  __CPROVER_assert(g_p_idx > g_last, "C09: every part is added at most once (in order)");
  __CPROVER_assert(D_SAME(acc, g_model), "C09: the accumulator is changed by nothing but these additions");
  __CPROVER_assert(D_SAME(v, __CPROVER_uninterpreted_part_avg(g_mode, g_p_idx, g_i, g_j)), "C09: the addend is the average of the part the iterator is on");
  g_last = g_p_idx;
  if (g_p_idx == g_dm->parts.gidx) g_hits++;
  g_model = d_add(g_model, v);
  REACH("acc_DM");
  return d_add(acc, v);
}
#define DM_FRAME self->parts.cur, self->parts.last_pos, g_p_idx, g_p_kind, g_p_i, g_p_j, g_hits, g_last, g_model, VERIF_thrown
#define DM_ONCE(idx, n) ((0 <= (idx) && (idx) < (long)(n)) ? 1UL : 0UL)
#define DM_PRE(self) ((self)->parts.n <= PV_MAX && (self)->parts.gidx >= -1 && (self)->parts.gidx < (long)(self)->parts.n && \
                      g_hits == 0 && g_last == -1 && D_SAME(g_model, 0.0) && !VERIF_thrown)
#define DM_POST(self) \
  __CPROVER_ensures(self->Status < Computed ==> (VERIF_thrown && g_last == -1 && g_hits == 0)) \
  __CPROVER_ensures(self->Status >= Computed ==> (!VERIF_thrown && D_SAME(__CPROVER_return_value, g_model) && \
                    g_hits == DM_ONCE(self->parts.gidx, self->parts.n) && g_last == (long)self->parts.n - 1))
#undef D_ADD
#define D_ADD(a, b) acc_DM((a), (b))
//@rename DensityMatrixPart_getAverageEnergy => mon_part_E
//@rename DensityMatrixPart_getAverageOccupancy/0 => mon_part_N0
//@rename DensityMatrixPart_getAverageOccupancy/1 => mon_part_N1
//@rename DensityMatrixPart_getAverageDoubleOccupancy => mon_part_NN
//@function Pomerol::DensityMatrix::getAverageEnergy() const as DensityMatrix_getAverageEnergy
//@contract
__CPROVER_requires(__CPROVER_is_fresh(self, sizeof(*self)) && g_dm == self)
__CPROVER_requires(DM_PRE(self) && g_mode == 3 && g_i == 0 && g_j == 0)
__CPROVER_assigns(DM_FRAME)
DM_POST(self)
//@loop 1
__CPROVER_assigns(iter.pos, E, DM_FRAME)
__CPROVER_loop_invariant(iter.v == &self->parts && 0 <= iter.pos && iter.pos <= (long)self->parts.n && !VERIF_thrown)
__CPROVER_loop_invariant(g_last == iter.pos - 1 && D_SAME_LV(E, g_model))
__CPROVER_loop_invariant(g_hits == DM_ONCE(self->parts.gidx, iter.pos))
__CPROVER_decreases((long)self->parts.n - iter.pos)
//@end
//@function Pomerol::DensityMatrix::getAverageOccupancy() const as DensityMatrix_getAverageOccupancy0
//@contract
__CPROVER_requires(__CPROVER_is_fresh(self, sizeof(*self)) && g_dm == self)
__CPROVER_requires(DM_PRE(self) && g_mode == 0 && g_i == 0 && g_j == 0)
__CPROVER_assigns(DM_FRAME)
DM_POST(self)
//@loop 1
__CPROVER_assigns(iter.pos, n, DM_FRAME)
__CPROVER_loop_invariant(iter.v == &self->parts && 0 <= iter.pos && iter.pos <= (long)self->parts.n && !VERIF_thrown)
__CPROVER_loop_invariant(g_last == iter.pos - 1 && D_SAME_LV(n, g_model))
__CPROVER_loop_invariant(g_hits == DM_ONCE(self->parts.gidx, iter.pos))
__CPROVER_decreases((long)self->parts.n - iter.pos)
//@end
//@function Pomerol::DensityMatrix::getAverageOccupancy(unsigned int) const as DensityMatrix_getAverageOccupancy1
//@contract
__CPROVER_requires(__CPROVER_is_fresh(self, sizeof(*self)) && g_dm == self)
__CPROVER_requires(DM_PRE(self) && g_mode == 1 && g_i == i && g_j == 0)
__CPROVER_assigns(DM_FRAME)
DM_POST(self)
//@loop 1
__CPROVER_assigns(iter.pos, n, DM_FRAME)
__CPROVER_loop_invariant(iter.v == &self->parts && 0 <= iter.pos && iter.pos <= (long)self->parts.n && !VERIF_thrown)
__CPROVER_loop_invariant(g_last == iter.pos - 1 && D_SAME_LV(n, g_model))
__CPROVER_loop_invariant(g_hits == DM_ONCE(self->parts.gidx, iter.pos))
__CPROVER_decreases((long)self->parts.n - iter.pos)
//@end
//@function Pomerol::DensityMatrix::getAverageDoubleOccupancy(unsigned int, unsigned int) const as DensityMatrix_getAverageDoubleOccupancy
//@contract
__CPROVER_requires(__CPROVER_is_fresh(self, sizeof(*self)) && g_dm == self)
__CPROVER_requires(DM_PRE(self) && g_mode == 2 && g_i == i && g_j == j)
__CPROVER_assigns(DM_FRAME)
DM_POST(self)
//@loop 1
__CPROVER_assigns(iter.pos, NN, DM_FRAME)
__CPROVER_loop_invariant(iter.v == &self->parts && 0 <= iter.pos && iter.pos <= (long)self->parts.n && !VERIF_thrown)
__CPROVER_loop_invariant(g_last == iter.pos - 1 && D_SAME_LV(NN, g_model))
__CPROVER_loop_invariant(g_hits == DM_ONCE(self->parts.gidx, iter.pos))
__CPROVER_decreases((long)self->parts.n - iter.pos)
//@end
#undef D_ADD
#define D_ADD(a, b) d_add((a), (b))
//@harness h_DM_getAverageEnergy enforce=DensityMatrix_getAverageEnergy props=C09 min_obl=377 reach=4 timeout=300
void h_DM_getAverageEnergy(void)
{
  struct DensityMatrix *dm;
  DensityMatrix_getAverageEnergy(dm);
  if (VERIF_thrown) REACH("exit_not_computed"); else REACH("exit_sum");
}
//@harness h_DM_getAverageOccupancy enforce=DensityMatrix_getAverageOccupancy0 props=C09 min_obl=377 reach=4 timeout=300
void h_DM_getAverageOccupancy(void)
{
  struct DensityMatrix *dm;
  DensityMatrix_getAverageOccupancy0(dm);
  if (VERIF_thrown) REACH("exit_not_computed"); else REACH("exit_sum");
}
//@harness h_DM_getAverageOccupancy_i enforce=DensityMatrix_getAverageOccupancy1 props=C09 min_obl=377 reach=4 timeout=300
void h_DM_getAverageOccupancy_i(void)
{
  struct DensityMatrix *dm; unsigned int i;
  DensityMatrix_getAverageOccupancy1(dm, i);
  if (VERIF_thrown) REACH("exit_not_computed"); else REACH("exit_sum");
}
//@harness h_DM_getAverageDoubleOccupancy enforce=DensityMatrix_getAverageDoubleOccupancy props=C09 min_obl=377 reach=4 timeout=300
void h_DM_getAverageDoubleOccupancy(void)
{
  struct DensityMatrix *dm; unsigned int i, j;
  DensityMatrix_getAverageDoubleOccupancy(dm, i, j);
  if (VERIF_thrown) REACH("exit_not_computed"); else REACH("exit_sum");
}

//@record Pomerol::QuadraticOperator => struct FieldOperator ptr
//@record Pomerol::QuadraticOperatorPart => struct FieldOperatorPart ptr
//@tu src/pomerol/EnsembleAverage.cpp
//@struct Pomerol::FieldOperatorPart only=elementsRowMajor,Status
struct EnsembleAverage { char opaque; };
//@tu src/pomerol/FieldOperatorPart.cpp
//@function Pomerol::FieldOperatorPart::getRowMajorValue() const as FieldOperatorPart_getRowMajorValue
//@end
//@tu src/pomerol/DensityMatrixPart.cpp
//@function Pomerol::DensityMatrixPart::getWeight(unsigned long) const as DensityMatrixPart_getWeight
//@end
//@tu src/pomerol/EnsembleAverage.cpp
/* =========================================================== EnsembleAverage::compute(Apart, Hpart, DMpart)
 * "Sum up <index1|A|index1> * weight(index1)": the trace of the density-matrix block with the diagonal block of A,
 *      result_part = sum_n A[n,n] * w_n   over the states n of the block, each diagonal element exactly once.
 * A = Apart.getRowMajorValue() (extracted), w_n = DMpart.getWeight(n) (extracted).  Eigen's SparseMatrix::coeff(row,col) is
 * TRUSTED ("the stored value or 0"): an opaque function of (row,col); ASSERTED: (row,col) inside the matrix (Eigen checks this
 * only without NDEBUG) -- the same model as SparseM_coeff_oi in specs/tpgfcompute.c, plus a ghost record of the arguments.
 * `complex += double` (std::complex<T>::operator+=(const T&): adds to the real part) is the MONITOR acc_EA: accumulator changed by
 * nothing else; the addend is coeff(n,n) * weights(n) with ONE n at all three places; n strictly increasing; model fold g_cmodel.
 * Pre-condition = type invariant of a diagonal block b of the operator: A is dim(b) x dim(b), one weight per state of b
 * (EnsembleAverage::prepare passes operator part and density-matrix part of the same block: proved in specs/ensavg.c). */
double __CPROVER_uninterpreted_coeff(long, long, long);
long g_a_row, g_a_col; double g_a_val;     /* ghost record of the coefficient looked up last */
#define SparseRM_coeff(m, row, col) ({ long _o = (long)(row), _i = (long)(col); \
  __CPROVER_assert(0 <= _o && _o < (m)->outerSize && 0 <= _i && _i < (m)->innerSize, "SparseMatrix::coeff(row,col): row and column inside the matrix"); \
  g_a_row = _o; g_a_col = _i; g_a_val = __CPROVER_uninterpreted_coeff(3, _o, _i); g_a_val; })
cplx g_cmodel;
static cplx *acc_EA(cplx *res, double v)
{
  __CPROVER_assert(g_a_row == g_a_col, "C09: only diagonal elements A[n,n] enter the trace");
  __CPROVER_assert(g_w_idx == g_a_row, "C09: the weight is the one of the state n of the diagonal element");
  __CPROVER_assert(g_a_row > g_last, "C09: every diagonal element is added at most once (in order)");
  __CPROVER_assert(C_SAME(*res, g_cmodel), "C09: the accumulator is changed by nothing but these additions");
  __CPROVER_assert(D_SAME(v, d_mul(g_a_val, g_w_val)), "C09: the addend is A[n,n] * w_n");
  g_last = g_a_row;
  if (g_a_row == g_q) g_hits++;
  g_cmodel.re = d_add(g_cmodel.re, v);
  REACH("acc_EA");
  res->re = d_add(res->re, v);     /* TRUSTED: std::complex<double>::operator+=(const double&) adds to the real part only */
  return res;
}
#define AM (Apart->elementsRowMajor)
//@rename cplx_addassign => acc_EA
//@function Pomerol::EnsembleAverage::compute(Pomerol::QuadraticOperatorPart const&, Pomerol::HamiltonianPart const&, Pomerol::DensityMatrixPart const&) as EnsembleAverage_compute
//@contract
__CPROVER_requires(__CPROVER_is_fresh(Apart, sizeof(*Apart)) && __CPROVER_is_fresh(DMpart, sizeof(*DMpart)))
__CPROVER_requires(RealVector_wf(&DMpart->weights, SP_MAX, VK_WEIGHTS) && AM.outerSize == DMpart->weights.size && AM.innerSize == AM.outerSize)
__CPROVER_requires(g_q >= -1 && g_q < DMpart->weights.size && g_hits == 0 && g_last == -1 && D_SAME(g_cmodel.re, 0.0) && D_SAME(g_cmodel.im, 0.0))
__CPROVER_assigns(g_a_row, g_a_col, g_a_val, g_w_idx, g_w_val, g_hits, g_last, g_cmodel)
__CPROVER_ensures(C_SAME(__CPROVER_return_value, g_cmodel) && D_SAME(__CPROVER_return_value.im, 0.0))
__CPROVER_ensures(g_hits == (g_q >= 0 ? 1UL : 0UL) && g_last == DMpart->weights.size - 1)
//@loop 1
__CPROVER_assigns(index1, result_part, g_a_row, g_a_col, g_a_val, g_w_idx, g_w_val, g_hits, g_last, g_cmodel)
__CPROVER_loop_invariant(Amatrix == &AM && index1 <= (unsigned long)AM.outerSize)
__CPROVER_loop_invariant(g_last == (long)index1 - 1 && D_SAME_LV(result_part.re, g_cmodel.re) && D_SAME_LV(result_part.im, g_cmodel.im) && *(const unsigned long *)&g_cmodel.im == 0UL)
__CPROVER_loop_invariant(g_hits == ((g_q >= 0 && (unsigned long)g_q < index1) ? 1UL : 0UL))
__CPROVER_decreases((unsigned long)AM.outerSize - index1)
//@end
//@rename cplx_addassign => cplx_addassign
//@harness h_EA_compute enforce=EnsembleAverage_compute props=C09 min_obl=365 reach=2 timeout=300
void h_EA_compute(void)
{
  struct EnsembleAverage *ea; struct FieldOperatorPart *a; struct HamiltonianPart *h; struct DensityMatrixPart *d;
  EnsembleAverage_compute(ea, a, h, d);
  REACH("exit");
}

/* =====================================================================================================================
 * WHAT IS PROVED (for all inputs satisfying the stated type invariants; default arithmetic = every double operation an
 * uninterpreted function, so "=" below means: the same expression tree over the machine operations), WHAT IS NOT
 *
 * h_DMP_getAverageEnergy: result = ((0 + w_0 E_0) + w_1 E_1) + ... + w_{n-1} E_{n-1}: every addition made inside the function
 *   adds weights(s)*Eigenvalues(s) for one s (read at both places), s strictly increasing, an arbitrary state (ghost g_q) exactly
 *   once, the last one is n-1; the accumulator starts at 0 and is changed by nothing else; getEigenValue (extracted) never throws
 *   (hpart computed); every vector access in range (one weight per eigenvalue); termination.
 * h_DMP_getAverageOccupancy / _i / h_DMP_getAverageDoubleOccupancy: result = fold over (s, fi) in lexicographic order of
 *   w_s * x(f) * |U(fi,s) U(fi,s)| with f = the Fock state stored at (block of the part, fi), x(f) = popcount(f) / bit_i(f) /
 *   bit_i(f) * bit_j(f): every addition adds exactly that expression for ONE pair (s,fi) used at all three places (weight, Fock
 *   state, eigenvector component); pairs strictly increasing (each at most once), an arbitrary pair (g_q,g_f) exactly once;
 *   getEigenState(s): s is a column of H; CurrentEigenState(fi) inside the column; getFockState(block, fi) never throws (fi < block
 *   size, block exists); test(i) / operator[](i), [j] inside the bitset; termination of both loops.
 * h_DM_getAverage*: exStatusMismatch (and no part asked) before compute(); otherwise result = fold, in vector order, of the
 *   corresponding part function over ALL parts, every part exactly once (ghost part), arguments i, j handed through unchanged;
 *   iterator safety; termination.
 * h_EA_compute: result_part = fold over n of coeff(n,n) * getWeight(n), n = 0 .. dim-1 each exactly once, only diagonal elements,
 *   imaginary part 0 (real build); coeff(row,col) inside the matrix, weights(n) inside the vector; termination.
 *   Together with h_EA_prepare (specs/ensavg.c): <A> = sum over retained diagonal blocks b of sum_n A_b[n,n] w_b,n.
 * NOT proved: that these folds equal the full-Fock-space traces Tr(rho X) numerically (needs orthonormality of U and C07's
 *   partition: accuracy/algebra, not decided); anything about rounding.  In UF arithmetic |x*x| is not simplified to x*x.
 *
 * ASSUMPTIONS / TRUSTED MODELS introduced here: eigenvector matrix = function (row, col) -> double with dimensions; a copied
 *   column holds that column (Eigen col() + copy ctor); HamiltonianPart::getBlockNumber() = field Block (C07 lookup of QN);
 *   StatesClassification::getFockState contract (states.c) + every stored state has IndexSize bits and no bits beyond (C07);
 *   SparseMatrix::coeff = opaque function of (row,col) (Eigen: stored value or 0); std::complex += double adds to the real part;
 *   std::vector iteration model of specs/densmat.c; dynamic_bitset model stubs/bitset.h (<= 64 bits).
 * TYPE INVARIANTS used as pre-conditions: weights.size() == Eigenvalues.size() == H.rows() == H.cols() == size of the block
 *   (DensityMatrixPart constructor + HamiltonianPart::prepare/compute, C03); hpart and S computed; block number inside S;
 *   for EnsembleAverage::compute: A is dim x dim and DMpart has dim weights (same diagonal block: ensavg.c).
 * REMARKS
 * 1. getAverageOccupancy(i) / getAverageDoubleOccupancy(i,j) (both classes, public) do not test i, j; dynamic_bitset::test and
 *    operator[] are unchecked under NDEBUG.  `i, j < IndexSize` is therefore a PRE-condition here (dropping it fails
 *    Bitset_test.assertion.1 / Bitset_checked_pos.assertion.1): an index >= 64*ceil(IndexSize/64) reads outside the bitset's block
 *    vector.  Obligation on callers; no caller inside the library.
 * 2. DM-level loops: goto-instrument gives the loop-invariant checks of these four functions the anonymous names
 *    `<fn>_wrapped_for_contract_checking.N` (N = 5,6,7: invariant clauses 1-3 after a step) because the iterator stubs are
 *    statement expressions; same in specs/densmat.c.
 *
 * MUTANTS (scratch worktree, re-extracted; obligation that failed)
 *   DMP::getAverageEnergy:  E += getEigenValue(s) (weight dropped)     -> acc_E.assertion.1/.2/.4, loop_invariant_step.2/.3
 *                           E = 1.                                     -> postcondition.1, acc_E.assertion.3, loop_invariant_base.2
 *                           getEigenValue(0)                           -> acc_E.assertion.1
 *                           if (s > 0) E += ...                        -> loop_invariant_step.2/.3
 *   DMP::getAverageOccupancy():  getFockState(block, s)                -> acc_N.assertion.2/.5
 *                                weights(fi)                           -> acc_N.assertion.1
 *   DMP::getAverageOccupancy(i): test(i+1)                             -> Bitset_test.assertion.1, acc_N.assertion.5
 *                                inner loop from fi = 1                -> loop_invariant_base.3/.6, loop_invariant_step.9
 *   DMP::getAverageDoubleOccupancy: [j] -> [i]                         -> acc_N.assertion.5
 *                                abs(C(fi)) instead of abs(C(fi)*C(fi)) -> acc_N.assertion.5
 *   DM::getAverageEnergy:   E = instead of E +=                        -> wrapped_for_contract_checking.6/.7 (invariant step: accumulator == model, ghost hits)
 *   DM::getAverageOccupancy(): first part skipped                      -> wrapped_for_contract_checking.6/.7
 *   DM::getAverageOccupancy(i): parts' getAverageOccupancy() called    -> acc_DM.assertion.1/.4
 *   DM::getAverageDoubleOccupancy: (j,i)                               -> acc_DM.assertion.1/.4
 *   EA::compute:            coeff(index1, 0)                           -> acc_EA.assertion.1
 *                           index1 <= outerSize                        -> coeff in-range assertion, RealVector_call.assertion.1, loop_invariant_step.1
 *                           getWeight(0)                               -> acc_EA.assertion.2
 *                           index1 = 1                                 -> postcondition.2, loop_invariant_base.2
 */
