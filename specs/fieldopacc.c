/* FieldOperator: look-ups and compute(comm); FieldOperatorPart: getLeftIndex / getRightIndex / transpose().     Property C10.
 *
 * Documentation used (include/pomerol/FieldOperator.h, FieldOperatorPart.h):
 *   getPartFromRightIndex(b) "Returns a FieldOperatorPart based on its right BlockNumber", ...LeftIndex likewise (+ QuantumNumbers overloads)
 *   getLeftIndex(r)  "Returns a left BlockNumber for a given right BlockNumber",  getRightIndex(l) the converse
 *   compute(comm)    "Computes all world-lines"
 *   FieldOperatorPart::getRightIndex / getLeftIndex "Returns the right / left hand side index" (HFrom = right, HTo = left)
 *   AnnihilationOperatorPart::transpose "Construct the CreationOperatorPart from the class (transpose it)", and conversely.
 *
 * What is proved
 *   getPartFrom{Right,Left}Index(b): throws exStatusMismatch unless prepared; otherwise returns parts[map[b]].  The code dereferences
 *       map.find(b) WITHOUT comparing it with end(): "b is a key" is therefore a PRE-CONDITION (nothing is documented for an absent
 *       key; it is undefined behaviour), discharged at the call sites from prepare()'s contract (specs/fieldopprep.c).  With the
 *       operator invariant established by prepare() -- the part registered under key b is the one created for block b -- the
 *       returned part's right (left) block IS b.
 *   QuantumNumbers overloads: the same with b = S.getBlockNumber(qn) (callee contract); an unknown qn gives ERROR_BLOCK_NUMBER,
 *       which is not a key: excluded by the same pre-condition.
 *   getLeftIndex(r) / getRightIndex(l): throws unless prepared; the partner of r (l) in the block bimap, ERROR_BLOCK_NUMBER (-1)
 *       iff there is none (ghost relation: arbitrary).
 *   compute(comm): throws unless prepared, no-op when computed; otherwise FieldOperatorPart::compute() is called on parts[0],
 *       parts[1], ... in this order, each stored part exactly once (ghost ordinal), Status = Computed, nothing else is written.
 *       Every rank does the same: the communicator is only asked for its rank (for a progress message); no message is sent or
 *       received (any other communicator operation has no stub here and would make the check UNDECIDED).
 *   (FieldOperatorPart::getLeftIndex/getRightIndex and the two transpose() functions: specs/fieldoppart.c)
 */
#include "../stubs/common.h"
#include "../stubs/sparse.h"
#include "../stubs/bimap.h"
//@include types_common.inc
//@include types_bimap.inc
//@type std::vector<(Pomerol::)?FieldOperatorPart \*(, std::allocator<.*>)?> => VecPart ptr
//@type std::map<unsigned long, (Pomerol::)?BlockNumber(, std::less<unsigned long>, std::allocator<.*>)?> => MapSB ptr
//@type std::map<unsigned long, (Pomerol::)?BlockNumber.*>::(const_)?iterator|std::_Rb_tree_(const_)?iterator<std::pair<const unsigned long, Pomerol::BlockNumber> ?>(::(iterator|_Self))? => MapSBIt val
//@type (Pomerol::)?QuantumNumbers|(Pomerol::)?Symmetrizer::QuantumNumbers => QNum val
//@type boost::mpi::communicator => MpiComm ptr
//@type (const )?Eigen::Transpose<.*> => TrView val
//@record Pomerol::CreationOperator => struct FieldOperator ptr
//@record Pomerol::AnnihilationOperator => struct FieldOperator ptr
//@record Pomerol::CreationOperatorPart => struct FieldOperatorPart ptr
//@record Pomerol::AnnihilationOperatorPart => struct FieldOperatorPart ptr
//@tu src/pomerol/FieldOperator.cpp
//@enum ComputableObject::
const BlockNumber ERROR_BLOCK_NUMBER = { -1 };      /* StatesClassification.h:142 */
#define BlockNumber_conv_int(b) ((b)->number)        /* BlockNumber::operator int (StatesClassification.h:130), mirrored */
typedef struct QNum { long id; } QNum;               /* QuantumNumbers: opaque identity */
typedef struct MpiComm { int rank; } MpiComm;
static inline int MpiComm_rank(MpiComm *c) { return c->rank; }

/* ---- std::vector<FieldOperatorPart*>: array + size */
struct FieldOperatorPart;
typedef struct VecPart { unsigned long size; struct FieldOperatorPart **data; } VecPart;
#define VP_MAX 1000000UL
#define VecPart_wf(v) ((v)->size <= VP_MAX && __CPROVER_is_fresh((v)->data, (v)->size * sizeof(struct FieldOperatorPart *)))
static inline unsigned long VecPart_size(VecPart *v) { return v->size; }
static inline struct FieldOperatorPart **VecPart_at(VecPart *v, unsigned long i)
{ __CPROVER_assert(i < v->size, "std::vector<FieldOperatorPart*>::operator[]: index inside the vector"); return &v->data[i]; }

/* ---- std::map<size_t,BlockNumber> (mapPartsFromRight / mapPartsFromLeft: block -> internal number of the part): ghost-key model.
 * find(k): exact w.r.t. the ghost key; for every other key the answer (present or not, mapped value) is arbitrary.
 * ASSERTED: the iterator returned by find() is dereferenced only if it is not end(). */
typedef struct MapSB { unsigned long gkey; _Bool has; BlockNumber gval; } MapSB;
typedef struct MapSBPair { unsigned long first; BlockNumber second; } MapSBPair;
typedef struct MapSBIt { _Bool at_end; MapSBPair cur; } MapSBIt;
static inline MapSBIt mapsb_find(MapSB *m, unsigned long key)
{
  MapSBIt it; it.cur.first = key;
  if (key == m->gkey) { it.at_end = !m->has; it.cur.second = m->gval; }
  else { it.at_end = nondet_bool(); it.cur.second.number = nondet_int(); }
  return it;
}
#define MapSB_find(m, key) (*(MapSBIt[1]){ mapsb_find((m), (key)) })
static inline MapSBPair *MapSBIt_arrow(MapSBIt *it)
{ __CPROVER_assert(!it->at_end, "std::map::find(): the result is dereferenced only if it is not end()"); return &it->cur; }

/* ---- StatesClassification::getBlockNumber(QuantumNumbers): callee contract (specs/qnumbers.c, states.c): the block of these
 * quantum numbers or ERROR_BLOCK_NUMBER; throws unless computed.  Here: an opaque function of the quantum numbers. */
struct StatesClassification { unsigned int Status; int nblocks; };
int __CPROVER_uninterpreted_qn_block(long id);
static inline BlockNumber sc_block_of_qn(struct StatesClassification *S, QNum q)
{
  BlockNumber b; b.number = __CPROVER_uninterpreted_qn_block(q.id);
  if (S->Status < Computed) { VERIF_THROW("exStatusMismatch"); return b; }
  __CPROVER_assume(-1 <= b.number && b.number < S->nblocks);
  return b;
}
#define StatesClassification_getBlockNumber(S, q) (*(BlockNumber[1]){ sc_block_of_qn((S), (q)) })

/* ---- parts.  Ghost fields right/left = block numbers of HFrom / HTo (what FieldOperatorPart::getRightIndex/getLeftIndex return) */
//@struct Pomerol::FieldOperatorPart only=Status
//@extra
int right, left;                     /* ghost */
//@end
//@struct Pomerol::FieldOperator only=Status,Index,parts,mapPartsFromRight,mapPartsFromLeft,LeftRightBlocks,S embed=S

/* OPERATOR INVARIANT established by prepare() (specs/fieldopprep.c), instantiated at the ghost key of a map: the key's entry
 * holds the internal number p of the part created for that block, p < parts.size(), and parts[p] is that part. */
#define OP_INV_RIGHT(self) (!(self)->mapPartsFromRight.has || (0 <= (self)->mapPartsFromRight.gval.number && \
    (unsigned long)(self)->mapPartsFromRight.gval.number < (self)->parts.size && \
    __CPROVER_is_fresh((self)->parts.data[(self)->mapPartsFromRight.gval.number], sizeof(struct FieldOperatorPart)) && \
    (unsigned long)(self)->parts.data[(self)->mapPartsFromRight.gval.number]->right == (self)->mapPartsFromRight.gkey))
#define OP_INV_LEFT(self) (!(self)->mapPartsFromLeft.has || (0 <= (self)->mapPartsFromLeft.gval.number && \
    (unsigned long)(self)->mapPartsFromLeft.gval.number < (self)->parts.size && \
    __CPROVER_is_fresh((self)->parts.data[(self)->mapPartsFromLeft.gval.number], sizeof(struct FieldOperatorPart)) && \
    (unsigned long)(self)->parts.data[(self)->mapPartsFromLeft.gval.number]->left == (self)->mapPartsFromLeft.gkey))
#define OP_BASE(self) (__CPROVER_is_fresh(self, sizeof(*self)) && !VERIF_thrown && (self)->Status <= Computed && VecPart_wf(&(self)->parts))

/* ------------------------------------------------------------------------------------------ getPartFromRightIndex / LeftIndex */
//@function Pomerol::FieldOperator::getPartFromRightIndex(Pomerol::BlockNumber) const as FO_getPartFromRightIndex
//@contract
__CPROVER_requires(OP_BASE(self) && OP_INV_RIGHT(self))
/* the argument is the ghost key (arbitrary); PRE-CONDITION: it is a key (the code does not test find() against end()) */
__CPROVER_requires((unsigned long)in.number == self->mapPartsFromRight.gkey && (self->Status >= Prepared ==> self->mapPartsFromRight.has))
__CPROVER_assigns(VERIF_thrown)
__CPROVER_ensures(VERIF_thrown == (self->Status < Prepared))
__CPROVER_ensures(!VERIF_thrown ==> (__CPROVER_return_value == self->parts.data[self->mapPartsFromRight.gval.number] && __CPROVER_return_value->right == in.number))
//@end
//@harness h_FO_getPartFromRightIndex enforce=FO_getPartFromRightIndex props=C10 min_obl=198 reach=2 timeout=120
void h_FO_getPartFromRightIndex(void)
{ struct FieldOperator *op; BlockNumber b; FO_getPartFromRightIndex(op, b); if (VERIF_thrown) REACH("thrown"); else REACH("part"); }

//@function Pomerol::FieldOperator::getPartFromLeftIndex(Pomerol::BlockNumber) const as FO_getPartFromLeftIndex
//@contract
__CPROVER_requires(OP_BASE(self) && OP_INV_LEFT(self))
__CPROVER_requires((unsigned long)in.number == self->mapPartsFromLeft.gkey && (self->Status >= Prepared ==> self->mapPartsFromLeft.has))
__CPROVER_assigns(VERIF_thrown)
__CPROVER_ensures(VERIF_thrown == (self->Status < Prepared))
__CPROVER_ensures(!VERIF_thrown ==> (__CPROVER_return_value == self->parts.data[self->mapPartsFromLeft.gval.number] && __CPROVER_return_value->left == in.number))
//@end
//@harness h_FO_getPartFromLeftIndex enforce=FO_getPartFromLeftIndex props=C10 min_obl=198 reach=2 timeout=120
void h_FO_getPartFromLeftIndex(void)
{ struct FieldOperator *op; BlockNumber b; FO_getPartFromLeftIndex(op, b); if (VERIF_thrown) REACH("thrown"); else REACH("part"); }

/* QuantumNumbers overloads: b = S.getBlockNumber(qn) */
//@maythrow sc_block_of_qn
//@function Pomerol::FieldOperator::getPartFromRightIndex(Pomerol::Symmetrizer::QuantumNumbers const&) const as FO_getPartFromRightIndex_qn
//@contract
__CPROVER_requires(OP_BASE(self) && OP_INV_RIGHT(self) && self->S.Status == Computed && self->S.nblocks >= 0)
__CPROVER_requires((unsigned long)__CPROVER_uninterpreted_qn_block(in.id) == self->mapPartsFromRight.gkey && (self->Status >= Prepared ==> self->mapPartsFromRight.has))
__CPROVER_assigns(VERIF_thrown)
__CPROVER_ensures(VERIF_thrown == (self->Status < Prepared))
__CPROVER_ensures(!VERIF_thrown ==> (__CPROVER_return_value == self->parts.data[self->mapPartsFromRight.gval.number] && __CPROVER_return_value->right == __CPROVER_uninterpreted_qn_block(in.id)))
//@end
//@harness h_FO_getPartFromRightIndex_qn enforce=FO_getPartFromRightIndex_qn props=C10 min_obl=223 reach=2 timeout=120
void h_FO_getPartFromRightIndex_qn(void)
{ struct FieldOperator *op; QNum q; FO_getPartFromRightIndex_qn(op, q); if (VERIF_thrown) REACH("thrown"); else REACH("part"); }

//@function Pomerol::FieldOperator::getPartFromLeftIndex(Pomerol::Symmetrizer::QuantumNumbers const&) const as FO_getPartFromLeftIndex_qn
//@contract
__CPROVER_requires(OP_BASE(self) && OP_INV_LEFT(self) && self->S.Status == Computed && self->S.nblocks >= 0)
__CPROVER_requires((unsigned long)__CPROVER_uninterpreted_qn_block(in.id) == self->mapPartsFromLeft.gkey && (self->Status >= Prepared ==> self->mapPartsFromLeft.has))
__CPROVER_assigns(VERIF_thrown)
__CPROVER_ensures(VERIF_thrown == (self->Status < Prepared))
__CPROVER_ensures(!VERIF_thrown ==> (__CPROVER_return_value == self->parts.data[self->mapPartsFromLeft.gval.number] && __CPROVER_return_value->left == __CPROVER_uninterpreted_qn_block(in.id)))
//@end
//@harness h_FO_getPartFromLeftIndex_qn enforce=FO_getPartFromLeftIndex_qn props=C10 min_obl=223 reach=2 timeout=120
void h_FO_getPartFromLeftIndex_qn(void)
{ struct FieldOperator *op; QNum q; FO_getPartFromLeftIndex_qn(op, q); if (VERIF_thrown) REACH("thrown"); else REACH("part"); }

/* ------------------------------------------------------------------------------------------ getLeftIndex / getRightIndex */
#define RV(self) ((self)->LeftRightBlocks.right)
#define LV(self) ((self)->LeftRightBlocks.left)
//@function Pomerol::FieldOperator::getLeftIndex(Pomerol::BlockNumber) const as FO_getLeftIndex
//@contract
__CPROVER_requires(__CPROVER_is_fresh(self, sizeof(*self)) && !VERIF_thrown && self->Status <= Computed && BlocksBimap_wf(&self->LeftRightBlocks))
__CPROVER_assigns(VERIF_thrown, self->LeftRightBlocks.right.last_pos)
__CPROVER_ensures(VERIF_thrown == (self->Status < Prepared))
/* the ghost relation (arbitrary) has this right block: its left block is returned */
__CPROVER_ensures((!VERIF_thrown && RV(self).gpos >= 0 && RV(self).e[RV(self).gpos].first.number == RightIndex.number) ==>
                  __CPROVER_return_value.number == RV(self).e[RV(self).gpos].second.number)
/* a block is returned only if it is the partner of RightIndex in a stored relation; otherwise ERROR_BLOCK_NUMBER */
__CPROVER_ensures((!VERIF_thrown && __CPROVER_return_value.number != -1) ==>
                  (0 <= RV(self).last_pos && RV(self).last_pos < RV(self).n && RV(self).e[RV(self).last_pos].first.number == RightIndex.number &&
                   RV(self).e[RV(self).last_pos].second.number == __CPROVER_return_value.number))
__CPROVER_ensures((!VERIF_thrown && __CPROVER_return_value.number == -1 && RV(self).gpos >= 0) ==> RV(self).e[RV(self).gpos].first.number != RightIndex.number)
//@end
//@harness h_FO_getLeftIndex enforce=FO_getLeftIndex props=C10 min_obl=532 reach=3 timeout=120
void h_FO_getLeftIndex(void)
{ struct FieldOperator *op; BlockNumber b; BlockNumber r = FO_getLeftIndex(op, b); if (VERIF_thrown) REACH("thrown"); else if (r.number == -1) REACH("none"); else REACH("found"); }

//@function Pomerol::FieldOperator::getRightIndex(Pomerol::BlockNumber) const as FO_getRightIndex
//@contract
__CPROVER_requires(__CPROVER_is_fresh(self, sizeof(*self)) && !VERIF_thrown && self->Status <= Computed && BlocksBimap_wf(&self->LeftRightBlocks))
__CPROVER_assigns(VERIF_thrown, self->LeftRightBlocks.left.last_pos)
__CPROVER_ensures(VERIF_thrown == (self->Status < Prepared))
__CPROVER_ensures((!VERIF_thrown && LV(self).gpos >= 0 && LV(self).e[LV(self).gpos].first.number == LeftIndex.number) ==>
                  __CPROVER_return_value.number == LV(self).e[LV(self).gpos].second.number)
__CPROVER_ensures((!VERIF_thrown && __CPROVER_return_value.number != -1) ==>
                  (0 <= LV(self).last_pos && LV(self).last_pos < LV(self).n && LV(self).e[LV(self).last_pos].first.number == LeftIndex.number &&
                   LV(self).e[LV(self).last_pos].second.number == __CPROVER_return_value.number))
__CPROVER_ensures((!VERIF_thrown && __CPROVER_return_value.number == -1 && LV(self).gpos >= 0) ==> LV(self).e[LV(self).gpos].first.number != LeftIndex.number)
//@end
//@harness h_FO_getRightIndex enforce=FO_getRightIndex props=C10 min_obl=532 reach=3 timeout=120
void h_FO_getRightIndex(void)
{ struct FieldOperator *op; BlockNumber b; BlockNumber r = FO_getRightIndex(op, b); if (VERIF_thrown) REACH("thrown"); else if (r.number == -1) REACH("none"); else REACH("found"); }

/* ------------------------------------------------------------------------------------------ compute(comm) */
unsigned long g_ncalls;            /* number of FieldOperatorPart::compute() calls so far */
unsigned long g_i, g_hits;         /* ghost ordinal of a stored part; calls made on it */
/* FieldOperatorPart::compute(): callee contract (specs/fieldop.c); here the monitor of "which part, in which order".  The macro
 * hands the caller's own parts vector to the monitor (a ghost POINTER to it would not be resolved by CBMC's points-to analysis). */
static inline void fo_part_compute_monitor(struct FieldOperatorPart *p, struct FieldOperatorPart **data, unsigned long n)
{
  __CPROVER_assert(g_ncalls < n && p == data[g_ncalls], "C10: the k-th call computes the k-th stored part");
  if (g_ncalls == g_i) { g_hits++; REACH("compute-ghost-part"); }
  g_ncalls++;
}
#define FieldOperatorPart_compute(p) fo_part_compute_monitor((p), self->parts.data, self->parts.size)
//@function Pomerol::FieldOperator::compute(boost::mpi::communicator const&) as FO_compute
//@contract
__CPROVER_requires(__CPROVER_is_fresh(self, sizeof(*self)) && !VERIF_thrown && self->Status <= Computed && VecPart_wf(&self->parts))
__CPROVER_requires(__CPROVER_is_fresh(comm, sizeof(MpiComm)) && g_ncalls == 0 && g_hits == 0 && g_i < self->parts.size)
/* frame: nothing unless prepared-and-not-computed; then only Status (and the monitor's counters) -- on every rank */
__CPROVER_assigns(VERIF_thrown; self->Status == Prepared: self->Status, g_ncalls, g_hits)
__CPROVER_ensures(VERIF_thrown == (__CPROVER_old(self->Status) < Prepared))
__CPROVER_ensures(__CPROVER_old(self->Status) == Prepared ==> (self->Status == Computed && g_ncalls == self->parts.size && g_hits == 1))
__CPROVER_ensures(__CPROVER_old(self->Status) != Prepared ==> (self->Status == __CPROVER_old(self->Status) && g_ncalls == 0))
//@loop 1
__CPROVER_assigns(BlockIn, g_ncalls, g_hits)
__CPROVER_loop_invariant(BlockIn <= Size && Size == self->parts.size && g_ncalls == BlockIn && g_hits == (BlockIn > g_i ? 1UL : 0UL))
__CPROVER_decreases(Size - BlockIn)
//@end
//@harness h_FO_compute enforce=FO_compute props=C10 min_obl=207 reach=4 timeout=200
void h_FO_compute(void)
{ struct FieldOperator *op; MpiComm *c; FO_compute(op, c); if (VERIF_thrown) REACH("thrown"); else if (g_ncalls == 0) REACH("no-op"); else REACH("computed"); }

/* getParts() "Returns a vector of all underlying parts", getIndex() "Returns acting ParticleIndex of current operator" */
//@function Pomerol::FieldOperator::getParts() as FO_getParts
//@contract
__CPROVER_requires(__CPROVER_is_fresh(self, sizeof(*self)))
__CPROVER_assigns()
__CPROVER_ensures(__CPROVER_return_value == &self->parts)
//@end
//@function Pomerol::FieldOperator::getIndex() const as FO_getIndex
//@contract
__CPROVER_requires(__CPROVER_is_fresh(self, sizeof(*self)))
__CPROVER_assigns()
__CPROVER_ensures(__CPROVER_return_value == self->Index)
//@end
//@harness h_FO_getParts enforce=FO_getParts props=C10 min_obl=22 reach=1 timeout=60
void h_FO_getParts(void) { struct FieldOperator *op; FO_getParts(op); REACH("exit"); }
//@harness h_FO_getIndex enforce=FO_getIndex props=C10 min_obl=33 reach=1 timeout=60
void h_FO_getIndex(void) { struct FieldOperator *op; FO_getIndex(op); REACH("exit"); }

/* ---- mutation record (tools/try_mutant.py; every mutant KILLED, first failing obligations listed) ---------------------------------
 * h_FO_getPartFromRightIndex:    mapPartsFromRight.find(in) -> mapPartsFromLeft.find(in)      postcondition.2, MapSBIt_arrow.assertion.1, VecPart_at.assertion.1
 *                                Status guard removed                                          postcondition.1/.2
 * h_FO_getPartFromLeftIndex:     *parts[map...->second] -> *parts[0]                           postcondition.2
 *                                Status guard removed                                          postcondition.1/.2
 * h_FO_getPartFromRightIndex_qn: mapPartsFromRight -> mapPartsFromLeft                         postcondition.2, MapSBIt_arrow.assertion.1
 *                                *parts[...] -> *parts[0]                                      postcondition.2
 * h_FO_getPartFromLeftIndex_qn:  mapPartsFromLeft -> mapPartsFromRight                         postcondition.2, MapSBIt_arrow.assertion.1
 *                                *parts[...] -> *parts[0]                                      postcondition.2
 * h_FO_getLeftIndex:             it->second -> it->first                                       postcondition.2/.3
 *                                it != end() -> it == end()                                    postcondition.2/.3/.4, "bimap: iterator dereferenced only before end()"
 * h_FO_getRightIndex:            it->second -> it->first                                       postcondition.2/.3
 *                                ERROR_BLOCK_NUMBER -> LeftIndex                               postcondition.3
 * h_FO_compute:                  BlockIn = 0 -> 1                                              postcondition.2, fo_part_compute_monitor.assertion.1, loop_invariant_base.2
 *                                parts[BlockIn]->compute() -> parts[0]->compute()              fo_part_compute_monitor.assertion.1
 *                                `if (Status >= Computed) return;` removed                     postcondition.3, assigns.4, loop_assigns.2
 * h_FO_getIndex:                 Index -> Index+1                                              postcondition.1
 * h_FO_getParts:                 (single field return, no meaningful textual mutant)
 */
