/* Operator (symbolic fermionic algebra) -- C05, C04 (actRight is shared), C17 (safety projection).
 *   Operator::actRight(monomial, ket)            Jordan-Wigner action of one monomial on a Fock state
 *   OperatorPresets::N::N, Sz::generateTerms     the polynomials the presets build (monitor of operator+=/-=)
 *   N::getMatrixElement, Sz::getMatrixElement    shortcut diagonal values == generic diagonal value of those polynomials
 */
#include "../stubs/common.h"
#include "../stubs/bitset.h"
//@include types_common.inc
//@type boost::dynamic_bitset<.*>::reference => BitRef val
//@type boost::dynamic_bitset<[^:]*>|(Pomerol::)?FockState => Bitset val
//@type (Pomerol::)?Operator::monomial_t|std::vector<boost::tuples::tuple<Pomerol::Operator::op_type, unsigned int.*> => Monomial ptr
//@type boost::tuple<(Pomerol::)?FockState, (Pomerol::)?MelemType>|boost::tuples::tuple<boost::dynamic_bitset<.*>, double(, boost::tuples::null_type)*> => StateMelem val
//@type boost::tuples::tuple<boost::dynamic_bitset<.*>, int(, boost::tuples::null_type)*> => StateInt val
//@type boost::tuples::tuple<bool ?&, unsigned int ?&.*> => TieBU val
//@free make_tuple(Bitset,double) => make_tuple_sd
//@free make_tuple(Bitset,int) => make_tuple_si
//@tu src/pomerol/Operator.cpp
//@enum Operator::op_type

/* ---- Misc.h: const FockState ERROR_FOCK_STATE = FockState();  "A state with the size==0 is an error state" */
const Bitset ERROR_FOCK_STATE = {0UL, 0UL};

/* ---- composite_index_t = boost::tuple<op_type, ParticleIndex>;  monomial_t = std::vector<composite_index_t> */
typedef struct CompIdx { int type; unsigned int index; } CompIdx;
#define MONO_MAXLEN 1000000UL
typedef struct Monomial {
  unsigned long size; CompIdx *e;
  /* ghost */
  unsigned long nmodes;     /* TYPE INVARIANT of a monomial over nmodes modes: every factor's index < nmodes, type in {creation, annihilation} */
  _Bool monitored;          /* the Jordan-Wigner monitor below follows the reads of this monomial */
  unsigned long id;         /* identity as a map KEY (ASSUMED: equal ids <=> equal monomials; id 0 = the empty monomial) */
} Monomial;
static inline _Bool Monomial_wf(Monomial *m)
{ return m->size <= MONO_MAXLEN && __CPROVER_is_fresh(m->e, m->size * sizeof(CompIdx)); }
static inline unsigned long Monomial_size(Monomial *m) { return m->size; }

/* ---- SPEC (property statement C05 / C04, textbook Jordan-Wigner): a monomial acts factor by factor, right to left.
 * A factor on mode k annihilates the state if the occupation forbids it (c^+ on an occupied, c on an empty mode);
 * otherwise the amplitude is multiplied by (-1)^(number of occupied modes below k) and bit k flips. */
typedef struct JW { Bitset state; int sign; _Bool dead; } JW;
static inline JW jw_apply(JW s, CompIdx f)
{
  if (s.dead) return s;
  unsigned long k = f.index;
  _Bool occ = (s.state.w >> k) & 1UL;
  if ((f.type == creation && occ) || (f.type == annihilation && !occ)) { s.dead = 1; return s; }
  if (__builtin_popcountl(s.state.w & ((1UL << k) - 1UL)) & 1) s.sign = -s.sign;
  s.state.w ^= (1UL << k);
  return s;
}
/* the running value of the specification: fold of jw_apply over the factors read so far */
JW g_jw;
long g_next;     /* position of the factor that must be read next (size-1 down to 0; -1 = all factors consumed) */

/* std::vector<composite_index_t>::operator[] -- also the MONITOR of actRight: each read of a factor of the monitored
 * monomial must be the next one in right-to-left order; it advances the specification by that factor. */
static inline CompIdx *Monomial_at(Monomial *m, unsigned long i)
{
  __CPROVER_assert(i < m->size, "vector<composite_index_t>::operator[]: index < size()");
  /* ASSUMED: type invariant of the monomial (see struct Monomial), instantiated at the element that is read;
   * the element is arbitrary, hence equivalent to the quantified pre-condition. */
  __CPROVER_assume(m->e[i].index < m->nmodes && (m->e[i].type == creation || m->e[i].type == annihilation));
  if (m->monitored) {
    __CPROVER_assert((long)i == g_next, "C05: factors are applied right to left, each exactly once");
    g_jw = jw_apply(g_jw, m->e[i]);
    g_next--;
    REACH("factor");
  }
  return &m->e[i];
}

/* ---- boost::tie(op, ind) = in[i]  (element-wise converting assignment: bool <- op_type, unsigned <- unsigned) */
/* The printed form is `TieBU_assign(&tie(&op, &ind), Monomial_at(in, i))`.  The two macros cooperate so that the stores are
 * DIRECT assignments to the locals (`*(&op) = ...`): a store through a pointer kept in a temporary tuple object is rejected
 * by the loop write-set instrumentation for variables declared inside the loop body.  `tie` is only usable as the first
 * argument of TieBU_assign. */
typedef struct TieBU { int unused; } TieBU;
#define tie(a_, b_) _tie_tmp, *(a_) = (_Bool)(_s->type != 0), *(b_) = _s->index
#define TieBU_assign(t, src) ({ CompIdx *_s = (src); TieBU _tie_tmp; (void)(t); })
/* ---- boost::tuple<FockState, MelemType> and the tuple<FockState,int> made by make_tuple(ERROR_FOCK_STATE, 0) */
typedef struct StateMelem { Bitset s; double m; } StateMelem;
typedef struct StateInt { Bitset s; int m; } StateInt;
#define make_tuple_sd(s_, m_) ((StateMelem){ (s_), (m_) })
#define make_tuple_si(s_, m_) ((StateInt){ (s_), (m_) })
static inline StateMelem StateMelem_id(StateMelem x) { return x; }
static inline StateMelem StateMelem_from_si(StateInt *x) { StateMelem r; r.s = x->s; r.m = (double)x->m; return r; }
#define StateMelem_ctor1(x) _Generic((x), StateMelem: StateMelem_id, StateInt *: StateMelem_from_si)(x)

/* twins for the other spelling of an increment (`++it` for `it++` and vice versa): same effect.  X_inc yields the iterator after the step
 * (exact); X_postinc made from X_inc is void, so a use of its value does not compile (UNDECIDED) instead of being modelled wrongly */
#define UVecIt_inc(it_) (UVecIt_postinc(it_), (it_))      /* pre-increment: the iterator itself, after the step */
#define MonoIt_postinc(it_) ((void)MonoIt_inc(it_))
//@function Pomerol::Operator::actRight(std::vector<boost::tuples::tuple<Pomerol::Operator::op_type, unsigned int, boost::tuples::null_type, boost::tuples::null_type, boost::tuples::null_type, boost::tuples::null_type, boost::tuples::null_type, boost::tuples::null_type, boost::tuples::null_type, boost::tuples::null_type>, std::allocator<boost::tuples::tuple<Pomerol::Operator::op_type, unsigned int, boost::tuples::null_type, boost::tuples::null_type, boost::tuples::null_type, boost::tuples::null_type, boost::tuples::null_type, boost::tuples::null_type, boost::tuples::null_type, boost::tuples::null_type> > > const&, boost::dynamic_bitset<unsigned long, std::allocator<unsigned long> > const&) as Operator_actRight
//@contract
__CPROVER_requires(__CPROVER_is_fresh(in, sizeof(*in)) && Monomial_wf(in) && Bitset_wf(ket))
/* OBLIGATION ON THE CALLER (type invariant linking the two arguments): every mode index of the monomial < size of the bitset */
__CPROVER_requires(in->nmodes <= ket.size)
/* the specification starts at (ket, +1) with all factors still to be applied */
__CPROVER_requires(in->monitored && g_next == (long)in->size - 1)
__CPROVER_requires(g_jw.state.w == ket.w && g_jw.state.size == ket.size && g_jw.sign == 1 && !g_jw.dead)
__CPROVER_assigns(g_jw, g_next)
/* result = (ERROR_FOCK_STATE, 0) exactly when the specification annihilates the state ... */
__CPROVER_ensures(g_jw.dead ==> (__CPROVER_return_value.s.size == 0 && __CPROVER_return_value.s.w == 0 && __CPROVER_return_value.m == 0.0))
/* ... otherwise every factor has been applied and state and sign equal the specification's */
__CPROVER_ensures(!g_jw.dead ==> (g_next == -1 && __CPROVER_return_value.s.size == ket.size && __CPROVER_return_value.s.w == g_jw.state.w))
__CPROVER_ensures(!g_jw.dead ==> (__CPROVER_return_value.m == (g_jw.sign == 1 ? 1.0 : -1.0) && (g_jw.sign == 1 || g_jw.sign == -1)))
__CPROVER_ensures(!g_jw.dead ==> (__CPROVER_return_value.s.size == 64 || (__CPROVER_return_value.s.w >> __CPROVER_return_value.s.size) == 0))
//@loop 1
__CPROVER_assigns(i, bra, sign, g_jw, g_next)
__CPROVER_loop_invariant(-1 <= i && i < (int)N && N == in->size && prev_pos_ == 0)
__CPROVER_loop_invariant(g_next == i && !g_jw.dead)
__CPROVER_loop_invariant(bra.size == ket.size && bra.w == g_jw.state.w && g_jw.state.size == ket.size)
__CPROVER_loop_invariant(bra.size == 64 || (bra.w >> bra.size) == 0)
__CPROVER_loop_invariant(sign == g_jw.sign && (sign == 1 || sign == -1))
__CPROVER_decreases(i + 1)
//@loop 2
/* sign counting below the mode: after j steps the sign has flipped once per occupied mode below j */
__CPROVER_assigns(j, sign)
__CPROVER_loop_invariant(prev_pos_ == 0 && j <= ind && ind < bra.size && bra.size <= 64)
__CPROVER_loop_invariant((sign == 1 || sign == -1) && (__CPROVER_loop_entry(sign) == 1 || __CPROVER_loop_entry(sign) == -1))
__CPROVER_loop_invariant((sign == __CPROVER_loop_entry(sign)) == ((__builtin_popcountl(bra.w & ((1UL << j) - 1UL)) & 1) == 0))
__CPROVER_decreases(ind - j)
//@loop 3
/* dead code as long as prev_pos_ == 0 (the loop would count downwards from prev_pos_) */
__CPROVER_assigns(j, sign)
__CPROVER_loop_invariant(j == 0 && ind == 0)
__CPROVER_decreases(j)
//@end

//@harness h_actRight enforce=Operator_actRight props=C05,C04,C17 min_obl=530 reach=4 timeout=180
void h_actRight(void)
{
  Monomial *in; Bitset ket;
  g_next = nondet_long(); g_jw.state.w = nondet_ulong(); g_jw.state.size = nondet_ulong(); g_jw.sign = nondet_int(); g_jw.dead = nondet_bool();
  StateMelem r = Operator_actRight(in, ket);
  REACH("exit");
  if (g_jw.dead) REACH("annihilated"); else REACH("survived");
}

/* Cross-check of the ghost formulation against the closed form, without any contract: for monomials of length <= 4 over <= 8 modes the
 * extracted function (all loops unwound) returns exactly the right-to-left fold of jw_apply over the factors. */
//@harness h_actRight_closed enforce=none loops=0 unwind=9 props=C05 bounded=monomial_length<=4,modes<=8 min_obl=939 reach=2 timeout=300
void h_actRight_closed(void)
{
  CompIdx e[4]; Monomial m; Bitset ket;
  m.e = e; m.size = nondet_ulong(); m.monitored = 0; m.nmodes = ket.size;
  if (!(m.size <= 4 && Bitset_wf(ket) && ket.size <= 8)) return;
  StateMelem r = Operator_actRight(&m, ket);
  JW s; s.state = ket; s.sign = 1; s.dead = 0;
  for (long k = (long)m.size - 1; k >= 0; k--) s = jw_apply(s, e[k]);
  if (s.dead) { __CPROVER_assert(r.s.size == 0 && r.s.w == 0 && r.m == 0.0, "C05: annihilated <=> (ERROR_FOCK_STATE, 0)"); REACH("annihilated"); }
  else { __CPROVER_assert(r.s.size == ket.size && r.s.w == s.state.w && r.m == (double)s.sign, "C05: state and sign equal the Jordan-Wigner fold"); REACH("survived"); }
}

/* =====================================================================================================================
 * OperatorPresets::N and ::Sz  (C05: "the specialised particle-number and S_z operators act on every Fock state exactly
 * like their generic polynomial forms").  Two steps:
 *  (a) the constructors build the documented polynomials  N = sum_{i<Nmodes} n_i,  S_z = sum_g (1/2 n_{up[g]} - 1/2 n_{down[g]})
 *      -- the calls of Operator::operator+= / -= go to a MONITOR that pins the k-th call to the k-th documented term;
 *  (b) getMatrixElement(ket) equals the generic diagonal value  sum_i coeff_i * bit_i(ket)  of these polynomials
 *      (<ket| n_i |ket> = bit_i: a special case of the Jordan-Wigner action proved above).
 * ===================================================================================================================== */
/* std::vector<ParticleIndex>.  Ghost `bound`: TYPE INVARIANT "every entry < bound" (mode indices of a Fock space with
 * `bound` modes), instantiated at each element that is read through an iterator. */
#define UVEC_MAXLEN 1000000UL
typedef struct UVec { unsigned long size; unsigned int *e; unsigned long bound; } UVec;
typedef struct UVecIt { UVec *v; unsigned long pos; } UVecIt;
static inline _Bool UVec_wf(UVec *v) { return v->size <= UVEC_MAXLEN && __CPROVER_is_fresh(v->e, v->size * sizeof(unsigned int)); }
static inline unsigned long UVec_size(UVec *v) { return v->size; }
static inline unsigned int *UVec_at(UVec *v, unsigned long i)
{ __CPROVER_assert(i < v->size, "vector<ParticleIndex>::operator[]: index < size()"); return &v->e[i]; }
#define UVec_begin(v_) ((UVecIt){ (v_), 0UL })
#define UVec_end(v_) ((UVecIt){ (v_), (v_)->size })
#define op_ne_UVecIt_UVecIt(a, b) ((a)->pos != (b)->pos)
#define UVecIt_postinc(it) ((it)->pos++)
/* MONITOR of Sz::getMatrixElement: every read of an up (down) index must be the next one in order; it adds that mode's
 * occupation to the running generic diagonal value  2*S_z = sum_g bit(up[g]) - sum_g bit(down[g])  (an integer). */
UVec *g_up, *g_down;
Bitset g_ket;
unsigned long g_next_up, g_next_down; long g_spec_up, g_spec_down;
static inline unsigned int *UVecIt_mul(UVecIt *it)
{
  __CPROVER_assert(it->pos < it->v->size, "vector<ParticleIndex>::const_iterator dereferenced before end()");
  /* ASSUMED: type invariant of the index vector, instantiated at the element read */
  __CPROVER_assume(it->v->e[it->pos] < it->v->bound);
  if (it->v == g_up) {
    __CPROVER_assert(it->pos == g_next_up, "C05: Sz: each up index is read exactly once, in order");
    g_spec_up += (long)((g_ket.w >> it->v->e[it->pos]) & 1UL); g_next_up++; REACH("up");
  } else if (it->v == g_down) {
    __CPROVER_assert(it->pos == g_next_down, "C05: Sz: each down index is read exactly once, in order");
    g_spec_down += (long)((g_ket.w >> it->v->e[it->pos]) & 1UL); g_next_down++; REACH("down");
  }
  return &it->v->e[it->pos];
}

/* ---- the operator values handed to += / -= : tokens  coeff * n_index  (OperatorPresets::n(i) = c^+_i c_i with coefficient 1,
 * Operator.h lines 361-371; `op * x` = copy, then operator*=(x): the coefficient is multiplied, see MONOMAP section) */
struct OpToken { unsigned int index; double coeff; };
//@record Pomerol::Operator => struct OpToken ptr
//@free n => preset_n
#define preset_n(i_) ((struct OpToken){ (i_), 1.0 })
#define op_mul_OpToken_double(t_, x_) ((struct OpToken){ (t_)->index, D_MUL((t_)->coeff, (x_)) })
static inline void OpToken_ctor0(struct OpToken *self) { (void)self; }      /* Operator(): the empty polynomial */
/* MONITOR of Operator::operator+=(Operator const&) and operator-=(Operator const&) on the object under construction */
unsigned long g_n_add, g_n_sub;          /* number of += / -= calls so far */
unsigned int g_N_nmodes; _Bool g_mon_is_N;
void *nondet_ptr(void);
static inline struct OpToken *OpToken_addassign(struct OpToken *self, struct OpToken *t)
{
  if (g_mon_is_N) {
    __CPROVER_assert(g_n_add < g_N_nmodes && t->index == g_n_add && t->coeff == 1.0, "C05: N: the k-th term added is n_k, k < Nmodes");
  } else {
    __CPROVER_assert(g_n_add == g_n_sub && g_n_add < g_up->size, "C05: Sz: one up term, then one down term, per pair");
    __CPROVER_assert(t->index == g_up->e[g_n_add] && t->coeff == 0.5, "C05: Sz: the g-th term added is 1/2 n_{up[g]}");
  }
  g_n_add++;
  REACH("add");
  return self;
}
static inline struct OpToken *OpToken_subassign(struct OpToken *self, struct OpToken *t)
{
  __CPROVER_assert(!g_mon_is_N, "C05: N has no negative terms");
  __CPROVER_assert(g_n_sub + 1 == g_n_add && g_n_sub < g_down->size, "C05: Sz: one up term, then one down term, per pair");
  __CPROVER_assert(t->index == g_down->e[g_n_sub] && t->coeff == 0.5, "C05: Sz: the g-th term subtracted is 1/2 n_{down[g]}");
  g_n_sub++;
  REACH("sub");
  return self;
}
//@tu src/pomerol/OperatorPresets.cpp
//@type std::vector<(Pomerol::)?ParticleIndex>::const_iterator|__gnu_cxx::__normal_iterator<const unsigned int \*, std::vector<unsigned int.*>> => UVecIt val
//@type std::vector<(Pomerol::)?ParticleIndex>|std::vector<unsigned int(, std::allocator<unsigned int> ?)?> => UVec ptr
//@struct Pomerol::OperatorPresets::N skip=monomials
//@struct Pomerol::OperatorPresets::Sz skip=monomials

//@function Pomerol::OperatorPresets::N::N(unsigned int) as N_ctor1
//@contract
__CPROVER_requires(__CPROVER_is_fresh(self, sizeof(*self)))
__CPROVER_requires(g_mon_is_N && g_N_nmodes == Nmodes && g_n_add == 0 && g_n_sub == 0)
__CPROVER_assigns(self->Nmodes, g_n_add)
/* N = sum_{k<Nmodes} n_k : the monitor saw n_0, n_1, ... in this order; all Nmodes of them, nothing else */
__CPROVER_ensures(self->Nmodes == Nmodes && g_n_add == Nmodes && g_n_sub == 0)
//@loop 1
__CPROVER_assigns(index, g_n_add)
__CPROVER_loop_invariant(index <= Nmodes && g_n_add == index)
__CPROVER_decreases(Nmodes - index)
//@end
//@harness h_N_ctor enforce=N_init1 props=C05 defs=-DVERIF_FP_IEEE min_obl=111 reach=2 timeout=120
void h_N_ctor(void)
{
  struct OperatorPresets_N *p; unsigned int nm;
  g_mon_is_N = 1; g_N_nmodes = nm; g_n_add = 0; g_n_sub = 0;
  N_init1(p, nm);
  REACH("exit");
}

/* generic diagonal value of N = sum_{i<Nmodes} 1 * n_i on |ket> */
static inline unsigned long diag_N(unsigned int nmodes, Bitset ket)
{
  unsigned long v = 0;
  for (unsigned int i = 0; i < 64; i++) if (i < nmodes && ((ket.w >> i) & 1UL)) v += 1;
  return v;
}
//@function Pomerol::OperatorPresets::N::getMatrixElement(boost::dynamic_bitset<unsigned long, std::allocator<unsigned long> > const&) const as N_getMatrixElement
//@contract
__CPROVER_requires(__CPROVER_is_fresh(self, sizeof(*self)) && Bitset_wf(ket))
/* the operator acts on states of its own Fock space */
__CPROVER_requires(ket.size == self->Nmodes)
__CPROVER_assigns()
__CPROVER_ensures(__CPROVER_return_value == (double)diag_N(self->Nmodes, ket))
//@end
//@harness h_N_melem enforce=N_getMatrixElement props=C05 unwind=65 min_obl=41 reach=1 timeout=120
void h_N_melem(void)
{
  struct OperatorPresets_N *p; Bitset ket;
  double r = N_getMatrixElement(p, ket);
  REACH("exit");
}

//@function Pomerol::OperatorPresets::Sz::generateTerms() as Sz_generateTerms
//@contract
__CPROVER_requires(__CPROVER_is_fresh(self, sizeof(*self)))
/* established by both constructors before the call: as many up as down indices */
__CPROVER_requires(UVec_wf(&self->SpinUpIndices) && UVec_wf(&self->SpinDownIndices) && self->SpinUpIndices.size == self->SpinDownIndices.size)
__CPROVER_requires(!g_mon_is_N && g_up == &self->SpinUpIndices && g_down == &self->SpinDownIndices && g_n_add == 0 && g_n_sub == 0)
__CPROVER_assigns(g_n_add, g_n_sub)
/* S_z = sum_g 1/2 n_{up[g]} - 1/2 n_{down[g]} : the monitor saw exactly these terms, in this order */
__CPROVER_ensures(g_n_add == self->SpinUpIndices.size && g_n_sub == self->SpinUpIndices.size)
//@loop 1
__CPROVER_assigns(i, g_n_add, g_n_sub)
__CPROVER_loop_invariant(i <= self->SpinUpIndices.size && g_n_add == i && g_n_sub == i)
__CPROVER_decreases(self->SpinUpIndices.size - i)
//@end
//@harness h_Sz_terms enforce=Sz_generateTerms props=C05 defs=-DVERIF_FP_IEEE min_obl=269 reach=3 timeout=120
void h_Sz_terms(void)
{
  struct OperatorPresets_Sz *p;
  g_mon_is_N = 0; g_n_add = 0; g_n_sub = 0; g_up = nondet_ptr(); g_down = nondet_ptr();
  Sz_generateTerms(p);
  REACH("exit");
}

/* each of the two sums counts occupied modes among the indices read: between 0 and the number of indices */
#define SPEC_IN_RANGE(self) (0 <= g_spec_up && g_spec_up <= (long)(self)->SpinUpIndices.size && 0 <= g_spec_down && g_spec_down <= (long)(self)->SpinDownIndices.size)
//@function Pomerol::OperatorPresets::Sz::getMatrixElement(boost::dynamic_bitset<unsigned long, std::allocator<unsigned long> > const&) const as Sz_getMatrixElement
//@contract
__CPROVER_requires(__CPROVER_is_fresh(self, sizeof(*self)) && Bitset_wf(ket) && UVec_wf(&self->SpinUpIndices) && UVec_wf(&self->SpinDownIndices))
/* TYPE INVARIANT: the indices are modes of the Fock space the operator acts on (OBLIGATION on whoever builds an Sz) */
__CPROVER_requires(self->SpinUpIndices.bound <= ket.size && self->SpinDownIndices.bound <= ket.size)
/* the running generic value starts at 0 with all indices still to be read */
__CPROVER_requires(g_up == &self->SpinUpIndices && g_down == &self->SpinDownIndices && g_ket.w == ket.w && g_ket.size == ket.size)
__CPROVER_requires(g_next_up == 0 && g_next_down == 0 && g_spec_up == 0 && g_spec_down == 0)
__CPROVER_assigns(g_next_up, g_next_down, g_spec_up, g_spec_down)
/* every up and every down index contributed once; the result is 1/2 * (integer 2*S_z of the generic polynomial)
 * -- half-integers are exact in binary floating point */
__CPROVER_ensures(g_next_up == self->SpinUpIndices.size && g_next_down == self->SpinDownIndices.size)
__CPROVER_ensures(SPEC_IN_RANGE(self) && __CPROVER_return_value == 0.5 * (double)(g_spec_up - g_spec_down))
//@loop 1
__CPROVER_assigns(it_up.pos, up_value, g_next_up, g_spec_up)
__CPROVER_loop_invariant(it_up.v == &self->SpinUpIndices && it_up.pos <= self->SpinUpIndices.size && it_up.pos == g_next_up)
__CPROVER_loop_invariant(0 <= up_value && (unsigned long)up_value <= it_up.pos && (long)up_value == g_spec_up)
__CPROVER_decreases(self->SpinUpIndices.size - it_up.pos)
//@loop 2
__CPROVER_assigns(it_down.pos, down_value, g_next_down, g_spec_down)
__CPROVER_loop_invariant(it_down.v == &self->SpinDownIndices && it_down.pos <= self->SpinDownIndices.size && it_down.pos == g_next_down)
__CPROVER_loop_invariant(0 <= down_value && (unsigned long)down_value <= it_down.pos && (long)down_value == g_spec_down)
__CPROVER_decreases(self->SpinDownIndices.size - it_down.pos)
//@end
//@harness h_Sz_melem enforce=Sz_getMatrixElement props=C05 defs=-DVERIF_FP_IEEE min_obl=400 reach=3 timeout=120
void h_Sz_melem(void)
{
  struct OperatorPresets_Sz *p; Bitset ket;
  g_up = nondet_ptr(); g_down = nondet_ptr(); g_ket.w = nondet_ulong(); g_ket.size = nondet_ulong();
  g_next_up = 0; g_next_down = 0; g_spec_up = 0; g_spec_down = 0;
  double r = Sz_getMatrixElement(p, ket);
  REACH("exit");
}

/* ---- two-argument forms  <bra| N |ket>, <bra| S_z |ket>  (OperatorPresets.h: both operators are diagonal in the Fock basis --
 * "actRight" returns the single state |ket> --, so the matrix element is 0 unless bra == ket, and then it is the diagonal value
 * proved above; the one-argument versions are used through their CONTRACTS).  Both states are states of the operator's Fock space.
 * For Sz the diagonal value is stated through the ghost of the one-argument contract: when bra == ket every up and down index was
 * read once and the result is 1/2*(g_spec_up - g_spec_down); when bra != ket the result is +0 and nothing is read. */
//@rename op_ne_Bitset_Bitset => Bitset_ne_p
static inline _Bool Bitset_ne_p(const Bitset *a, const Bitset *b) { return op_ne_Bitset_Bitset(*a, *b); }
//@rename op_eq_Bitset_Bitset => Bitset_eq_p
static inline _Bool Bitset_eq_p(const Bitset *a, const Bitset *b) { return op_eq_Bitset_Bitset(*a, *b); }
//@rename OperatorPresets_N_getMatrixElement/1 => N_getMatrixElement
//@rename OperatorPresets_Sz_getMatrixElement/1 => Sz_getMatrixElement
#define SAME_STATE(a, b) ((a).size == (b).size && (a).w == (b).w)
//@function Pomerol::OperatorPresets::N::getMatrixElement(boost::dynamic_bitset<unsigned long, std::allocator<unsigned long> > const&, boost::dynamic_bitset<unsigned long, std::allocator<unsigned long> > const&) const as N_getMatrixElement2
//@contract
__CPROVER_requires(__CPROVER_is_fresh(self, sizeof(*self)) && Bitset_wf(bra) && Bitset_wf(ket))
__CPROVER_requires(ket.size == self->Nmodes && bra.size == self->Nmodes)
__CPROVER_assigns()
__CPROVER_ensures(SAME_STATE(bra, ket) ? __CPROVER_return_value == (double)diag_N(self->Nmodes, ket)
                                       : *(unsigned long *)&__CPROVER_return_value == 0UL)
//@end
//@harness h_N_melem2 enforce=N_getMatrixElement2 replace=N_getMatrixElement props=C05 unwind=65 min_obl=81 reach=2 timeout=120
void h_N_melem2(void)
{
  struct OperatorPresets_N *p; Bitset bra, ket;
  double r = N_getMatrixElement2(p, bra, ket);
  if (SAME_STATE(bra, ket)) REACH("diagonal"); else REACH("off_diagonal");
}

//@function Pomerol::OperatorPresets::Sz::getMatrixElement(boost::dynamic_bitset<unsigned long, std::allocator<unsigned long> > const&, boost::dynamic_bitset<unsigned long, std::allocator<unsigned long> > const&) const as Sz_getMatrixElement2
//@contract
__CPROVER_requires(__CPROVER_is_fresh(self, sizeof(*self)) && Bitset_wf(bra) && Bitset_wf(ket) && UVec_wf(&self->SpinUpIndices) && UVec_wf(&self->SpinDownIndices))
__CPROVER_requires(bra.size == ket.size && self->SpinUpIndices.bound <= ket.size && self->SpinDownIndices.bound <= ket.size)
__CPROVER_requires(g_up == &self->SpinUpIndices && g_down == &self->SpinDownIndices && g_ket.w == ket.w && g_ket.size == ket.size)
__CPROVER_requires(g_next_up == 0 && g_next_down == 0 && g_spec_up == 0 && g_spec_down == 0)
__CPROVER_assigns(g_next_up, g_next_down, g_spec_up, g_spec_down)
__CPROVER_ensures(SAME_STATE(bra, ket)
    ? (g_next_up == self->SpinUpIndices.size && g_next_down == self->SpinDownIndices.size && SPEC_IN_RANGE(self) && __CPROVER_return_value == 0.5 * (double)(g_spec_up - g_spec_down))
    : (*(unsigned long *)&__CPROVER_return_value == 0UL && g_next_up == 0 && g_next_down == 0))
//@end
//@harness h_Sz_melem2 enforce=Sz_getMatrixElement2 replace=Sz_getMatrixElement props=C05 defs=-DVERIF_FP_IEEE min_obl=164 reach=2 timeout=120
void h_Sz_melem2(void)
{
  struct OperatorPresets_Sz *p; Bitset bra, ket;
  g_up = nondet_ptr(); g_down = nondet_ptr(); g_ket.w = nondet_ulong(); g_ket.size = nondet_ulong();
  g_next_up = 0; g_next_down = 0; g_spec_up = 0; g_spec_down = 0;
  double r = Sz_getMatrixElement2(p, bra, ket);
  if (SAME_STATE(bra, ket)) REACH("diagonal"); else REACH("off_diagonal");
}

/* =====================================================================================================================
 * Equality:  operator==(monomials_map_t::value_type, value_type)  and  operator==(Operator, Operator)      (C05, C17)
 * SPEC (property statement / DESIGN C05): true <=> same length and pairwise equal factors and coefficients within
 * 100*epsilon;  two operators: same number of monomials and pairwise equal entries.  No read past either monomial.
 * ===================================================================================================================== */
#include "../stubs/cplx.h"   /* d_abs */
//@free abs(double) => d_abs
#define epsilon() 2.220446049250313e-16      /* std::numeric_limits<double>::epsilon() */
#define TOL100 D_MUL(((double)(100)), epsilon())
static inline _Bool CompIdx_same(CompIdx a, CompIdx b) { return a.type == b.type && a.index == b.index; }   /* boost::tuple operator== */
typedef struct MonoEntry { Monomial first; double second; } MonoEntry;     /* std::pair<const monomial_t, MelemType> */
typedef struct MonIt { Monomial *m; unsigned long pos; } MonIt;            /* monomial_t::const_iterator */
#define Monomial_begin(m_) ((MonIt){ (m_), 0UL })
#define Monomial_end(m_) ((MonIt){ (m_), (m_)->size })

/* ghost indices: an ARBITRARY factor position (soundness direction) and the WITNESS of a mismatch (completeness direction) */
unsigned long g_k, g_mis_k;

/* std::equal(first1, last1, first2) over factors (3-argument form): CONTRACT of the dependency.
 *  ASSERTED at the call (requires): [first1,last1) is a valid range and the second range has at least as many elements
 *     -- std::equal reads first2[0 .. last1-first1) without any check.
 *  result true  => the ranges agree at every position (stated at the arbitrary position g_k)
 *  result false => they differ at some position (witness g_mis_k) */
_Bool equal_factors(MonIt first1, MonIt last1, MonIt first2)
__CPROVER_requires(first1.m == last1.m && first1.pos <= last1.pos && last1.pos <= first1.m->size)
__CPROVER_requires(first2.pos <= first2.m->size && last1.pos - first1.pos <= first2.m->size - first2.pos)
__CPROVER_assigns(g_mis_k)
__CPROVER_ensures(__CPROVER_return_value ==> (g_k < last1.pos - first1.pos ==> CompIdx_same(first1.m->e[first1.pos + g_k], first2.m->e[first2.pos + g_k])))
__CPROVER_ensures(!__CPROVER_return_value ==> (g_mis_k < last1.pos - first1.pos && !CompIdx_same(first1.m->e[first1.pos + g_mis_k], first2.m->e[first2.pos + g_mis_k])))
;
//@free equal(MonIt,MonIt,MonIt) => equal_factors
//@record Pomerol::Operator => struct Operator ptr
//@type (const )?((Pomerol::)?Operator::)?monomials_map_t::value_type|std::pair<const std::vector<boost::tuples::tuple<Pomerol::Operator::op_type, unsigned int.*>, double> => MonoEntry ptr
//@type ((Pomerol::)?Operator::)?monomial_t::const_iterator|__gnu_cxx::__normal_iterator<const boost::tuples::tuple<Pomerol::Operator::op_type, unsigned int.*> => MonIt val
//@tu src/pomerol/Operator.cpp

#define ENTRY_CLOSE(l, r) D_LT(d_abs(D_SUB((r)->second, (l)->second)), TOL100)
//@function Pomerol::operator==(std::pair<std::vector<boost::tuples::tuple<Pomerol::Operator::op_type, unsigned int, boost::tuples::null_type, boost::tuples::null_type, boost::tuples::null_type, boost::tuples::null_type, boost::tuples::null_type, boost::tuples::null_type, boost::tuples::null_type, boost::tuples::null_type>, std::allocator<boost::tuples::tuple<Pomerol::Operator::op_type, unsigned int, boost::tuples::null_type, boost::tuples::null_type, boost::tuples::null_type, boost::tuples::null_type, boost::tuples::null_type, boost::tuples::null_type, boost::tuples::null_type, boost::tuples::null_type> > > const, double> const&, std::pair<std::vector<boost::tuples::tuple<Pomerol::Operator::op_type, unsigned int, boost::tuples::null_type, boost::tuples::null_type, boost::tuples::null_type, boost::tuples::null_type, boost::tuples::null_type, boost::tuples::null_type, boost::tuples::null_type, boost::tuples::null_type>, std::allocator<boost::tuples::tuple<Pomerol::Operator::op_type, unsigned int, boost::tuples::null_type, boost::tuples::null_type, boost::tuples::null_type, boost::tuples::null_type, boost::tuples::null_type, boost::tuples::null_type, boost::tuples::null_type, boost::tuples::null_type> > > const, double> const&) as MonoEntry_eq
//@contract
__CPROVER_requires(__CPROVER_is_fresh(lhs, sizeof(*lhs)) && Monomial_wf(&lhs->first))
__CPROVER_requires(__CPROVER_is_fresh(rhs, sizeof(*rhs)) && Monomial_wf(&rhs->first))
__CPROVER_assigns(g_mis_k)
/* true => same length, equal factor at the arbitrary position g_k, coefficients within 100 eps */
__CPROVER_ensures(__CPROVER_return_value ==> (lhs->first.size == rhs->first.size && ENTRY_CLOSE(lhs, rhs) &&
                  (g_k < lhs->first.size ==> CompIdx_same(lhs->first.e[g_k], rhs->first.e[g_k]))))
/* false => different length, or coefficients not within 100 eps, or a position (witness g_mis_k) where the factors differ */
__CPROVER_ensures(!__CPROVER_return_value ==> (lhs->first.size != rhs->first.size || !ENTRY_CLOSE(lhs, rhs) ||
                  (g_mis_k < lhs->first.size && !CompIdx_same(lhs->first.e[g_mis_k], rhs->first.e[g_mis_k]))))
//@end
//@harness h_MonoEntry_eq enforce=MonoEntry_eq replace=equal_factors props=C05,C17 min_obl=233 reach=3 timeout=120
void h_MonoEntry_eq(void)
{
  MonoEntry *l, *r;
  g_k = nondet_ulong(); g_mis_k = nondet_ulong();
  _Bool b = MonoEntry_eq(l, r);
  REACH("exit");
  if (b) REACH("equal"); else REACH("different");
}

/* ---- std::map<monomial_t, MelemType>  (Operator::monomials) -- ONE-ENTRY GHOST VIEW (DESIGN 3.2/3.3).
 * The map exposes its size and ONE entry `gentry`; everything proved about it holds for every entry because the choice
 * is arbitrary.  Two readings, fixed by the pre-conditions of the function under verification:
 *   ghost POSITION (operator==):  gentry = the entry at position gpos of the iteration order;  has <=> gpos < size
 *   ghost KEY (operator+=, -=, *=, erase_zero_monomial): gentry.first.id == g_key, has <=> that key is present,
 *        gpos = its (arbitrary) position in the iteration order
 * Monomials as KEYS are compared through their ghost identity `id` (ASSUMED: equal ids <=> equal monomials). */
#define MAP_MAXLEN 1000000UL
typedef struct MonoMap {
  unsigned long size;
  int has;                  /* 0 / 1 (int, not _Bool: a _Bool inside a nondeterministic object may hold a non-canonical byte) */
  unsigned long gpos; MonoEntry gentry;
  MonoEntry other;          /* scratch: an entry that is not the ghost entry (contents unknown) */
} MonoMap;
typedef struct MonoIt { MonoMap *m; unsigned long pos; int ghost; /* 0 / 1 */ } MonoIt;
static inline unsigned long MonoMap_size(MonoMap *m) { return m->size; }
#define MonoMap_begin(m_) ((MonoIt){ (m_), 0UL, 0 })
#define MonoMap_end(m_) ((MonoIt){ (m_), (m_)->size, 0 })
//@type ((Pomerol::)?Operator::)?monomials_map_t|std::map<std::vector<boost::tuples::tuple<Pomerol::Operator::op_type, unsigned int.*>, double.*> => MonoMap ptr
//@type ((Pomerol::)?Operator::)?monomials_map_t::(const_)?iterator|((Pomerol::)?Operator::)?const_iterator|std::_Rb_tree_(const_)?iterator<std::pair<const std::vector<boost::tuples::tuple<Pomerol::Operator::op_type.*> => MonoIt val
//@struct Pomerol::Operator
//@function Pomerol::Operator::begin() const as Operator_begin
//@end
//@function Pomerol::Operator::end() const as Operator_end
//@end

/* an entry pair is "equal at factor position k" / "different with witness k" in the sense proved for MonoEntry_eq above */
#define ENTRY_EQ_AT(l, r, k) ((l)->first.size == (r)->first.size && ENTRY_CLOSE((l), (r)) && ((k) < (l)->first.size ==> CompIdx_same((l)->first.e[(k)], (r)->first.e[(k)])))
#define ENTRY_NE_AT(l, r, k) ((l)->first.size != (r)->first.size || !ENTRY_CLOSE((l), (r)) || ((k) < (l)->first.size && !CompIdx_same((l)->first.e[(k)], (r)->first.e[(k)])))
#define BOTH_AT(a, b, p) ((a)->has && (b)->has && (a)->gpos == (p) && (b)->gpos == (p))
unsigned long g_mis_p;       /* WITNESS: position of the first pair of entries that differ */
/* std::equal(first1, last1, first2) over map entries with pomerol's operator==(value_type, value_type) as the element test
 * (found by ADL; non-template, hence preferred over std::operator== for pairs): CONTRACT of the dependency.
 *  ASSERTED at the call: [first1,last1) = [begin, end) of the first map, first2 = begin of the second map, and the second
 *     map has at least as many entries -- std::equal walks first2 without any check.
 *  true  => the entries at every position are equal (stated at the arbitrary ghost position, factor position g_k)
 *  false => at the witness position g_mis_p the entries differ (factor witness g_mis_k); because the ghost position is
 *           arbitrary, the case g_mis_p == ghost position says what "differ" means. */
_Bool equal_entries(MonoIt first1, MonoIt last1, MonoIt first2)
__CPROVER_requires(first1.m == last1.m && first1.pos == 0 && last1.pos == first1.m->size && first2.pos == 0)
__CPROVER_requires(first1.m->size <= first2.m->size)
__CPROVER_assigns(g_mis_p, g_mis_k)
__CPROVER_ensures(__CPROVER_return_value ==> (BOTH_AT(first1.m, first2.m, first1.m->gpos) ==> ENTRY_EQ_AT(&first1.m->gentry, &first2.m->gentry, g_k)))
__CPROVER_ensures(!__CPROVER_return_value ==> (g_mis_p < first1.m->size && (BOTH_AT(first1.m, first2.m, g_mis_p) ==> ENTRY_NE_AT(&first1.m->gentry, &first2.m->gentry, g_mis_k))))
;
//@free equal(MonoIt,MonoIt,MonoIt) => equal_entries
static inline _Bool MonoMap_wf_pos(MonoMap *m)
{ return m->size <= MAP_MAXLEN && m->has == (m->gpos < m->size ? 1 : 0) && Monomial_wf(&m->gentry.first); }

//@function Pomerol::operator==(Pomerol::Operator const&, Pomerol::Operator const&) as Operator_eq
//@contract
__CPROVER_requires(__CPROVER_is_fresh(lhs, sizeof(*lhs)) && MonoMap_wf_pos(&lhs->monomials))
__CPROVER_requires(__CPROVER_is_fresh(rhs, sizeof(*rhs)) && MonoMap_wf_pos(&rhs->monomials))
__CPROVER_assigns(g_mis_p, g_mis_k)
/* true => same number of monomials, and the entries at the arbitrary common position are equal */
__CPROVER_ensures(__CPROVER_return_value ==> (lhs->monomials.size == rhs->monomials.size &&
     (BOTH_AT(&lhs->monomials, &rhs->monomials, lhs->monomials.gpos) ==> ENTRY_EQ_AT(&lhs->monomials.gentry, &rhs->monomials.gentry, g_k))))
/* false => different numbers of monomials, or the entries at the witness position differ */
__CPROVER_ensures(!__CPROVER_return_value ==> (lhs->monomials.size != rhs->monomials.size ||
     (g_mis_p < lhs->monomials.size && (BOTH_AT(&lhs->monomials, &rhs->monomials, g_mis_p) ==> ENTRY_NE_AT(&lhs->monomials.gentry, &rhs->monomials.gentry, g_mis_k)))))
//@end
//@harness h_Operator_eq enforce=Operator_eq replace=equal_entries props=C05,C17 min_obl=397 reach=3 timeout=120
void h_Operator_eq(void)
{
  struct Operator *l, *r;
  g_k = nondet_ulong(); g_mis_k = nondet_ulong(); g_mis_p = nondet_ulong();
  _Bool b = Operator_eq(l, r);
  REACH("exit");
  if (b) REACH("equal"); else REACH("different");
}

/* =====================================================================================================================
 * Term collection:  erase_zero_monomial, operator+=(Operator), operator-=(Operator), operator+=(alpha), operator-=(alpha),
 * operator*=(alpha)  under the ghost-KEY reading of the map (C05).
 * SPEC (DESIGN C05; the tolerance 100*epsilon is the one erase_zero_monomial documents): for an ARBITRARY monomial K
 * (ghost key g_key) the coefficient after the call is the sum / difference / product of the coefficients before it
 * (absent = 0: a new entry takes the other operand's coefficient as it is), and a sum or difference of two stored
 * coefficients whose magnitude is below 100*epsilon is erased.
 * CLASS INVARIANT "no stored coefficient is below 100*epsilon" (what erase_zero_monomial exists for): assumed of the
 * operands, demanded of the result when g_check_inv is set (separate harnesses *_inv, see the findings at the end).
 * ===================================================================================================================== */
unsigned long g_key;              /* the ghost key K */
int g_old_has, g_exp_has; double g_old_val, g_exp_val;    /* K's entry before the call / as the specification demands */
_Bool g_check_inv;
#define SMALL(x) D_LT(d_abs(x), TOL100)
static inline _Bool MonoMap_wf_key(MonoMap *m)
{ return m->size <= MAP_MAXLEN && (m->has == 0 || m->has == 1) && (m->has ==> (m->gpos < m->size && m->gentry.first.id == g_key)) && m->other.first.id != g_key; }
#define HAS_VAL(m, h, v) ((m)->has == (h) && ((h) ==> D_SAME((m)->gentry.second, (v))))
/* the same for loop invariants (no function calls allowed there): bit equality of two double LVALUES */
#define D_SAME_LV(a, b) (*(unsigned long *)&(a) == *(unsigned long *)&(b))
#define HAS_VAL_LV(m, h, v) ((m)->has == (h) && ((h) ==> D_SAME_LV((m)->gentry.second, v)))

typedef struct InsRes { MonoIt first; _Bool second; } InsRes;      /* std::pair<iterator, bool> */
#define MonoIt_ctor0() ((MonoIt){ (MonoMap *)0, 0UL, 0 })
#define Monomial_ctor1(n_) ((Monomial){ (n_), (CompIdx *)0, 0UL, 0, 0UL })     /* monomial_t(0): the empty monomial, id 0 */
#define make_pair_md(k_, v_) (&(MonoEntry){ *(k_), (v_) })
//@free make_pair(Monomial,double) => make_pair_md
//@free tie(Bool,uint) => tie
//@free tie(MonoIt,Bool) => tie_ib
//@free erase_zero_monomial => Operator_erase_zero_monomial
//@type boost::tuples::tuple<std::_Rb_tree_iterator<std::pair<const std::vector<boost::tuples::tuple<Pomerol::Operator::op_type, unsigned int>>, double>> ?&, bool ?&.*> => TieIB val
//@type std::pair<std::_Rb_tree_iterator<std::pair<const std::vector<boost::tuples::tuple<Pomerol::Operator::op_type, unsigned int.*>, double>>, bool> => InsRes val
/* boost::tie(it, is_new) = map.insert(..): same cooperating macros as for TieBU (direct stores to the two locals) */
typedef struct TieIB { int unused; } TieIB;
#define tie_ib(a_, b_) _tie_tmp, *(a_) = _s->first, *(b_) = _s->second
#define TieIB_assign(t, src) ({ InsRes *_s = (src); TieIB _tie_tmp; (void)(t); })
/* map::insert(value): ASSUMED (std::map): does not overwrite; returns (position of the key, inserted?) */
static inline InsRes MonoMap_insert_fn(MonoMap *m, MonoEntry *e)
{
  InsRes r; r.first.m = m; r.first.pos = 0;
  if (e->first.id == g_key) {
    r.first.ghost = 1;
    if (m->has) r.second = 0;
    else { m->has = 1; m->gentry = *e; m->size++; m->gpos = nondet_ulong(); __CPROVER_assume(m->gpos < m->size); r.second = 1; REACH("insert-new-ghost"); }
  } else {
    r.first.ghost = 0; r.second = nondet_bool();
    if (r.second) m->size++;
    else __CPROVER_assume(m->size > (m->has ? 1UL : 0UL));     /* ASSUMED (consistency of the view): an existing other key is counted in size */
  }
  return r;
}
#define MonoMap_insert(m_, e_) (((InsRes[1]){ MonoMap_insert_fn((m_), (e_)) })[0])
/* iterator->  : the ghost entry, or an entry with unknown contents (reads nondeterministic, writes lost) */
static inline MonoEntry *MonoIt_arrow(MonoIt *it)
{
  if (it->ghost) { __CPROVER_assert(it->m->has, "map iterator dereferenced after its entry was erased"); return &it->m->gentry; }
  it->m->other.second = nondet_double();
  return &it->m->other;
}
/* iteration (BOOST_FOREACH): position pos of the iteration order holds the ghost entry iff has && pos == gpos;
 * ASSUMED (std::map: keys are unique): every other position holds a key different from K */
#define MonoMap_foreach_more(m_, it_) ((it_)->pos < (m_)->size)
#define MonoIt_inc(it_) ((it_)->pos++)
static inline MonoEntry *MonoIt_mul(MonoIt *it)
{
  __CPROVER_assert(it->pos < it->m->size, "map iterator dereferenced before end()");
  it->ghost = it->m->has && it->pos == it->m->gpos;
  if (it->ghost) { REACH("visit-ghost"); return &it->m->gentry; }
  it->m->other.second = nondet_double(); it->m->other.first.id = nondet_ulong();
  __CPROVER_assume(it->m->other.first.id != g_key);
  return &it->m->other;
}
static inline void MonoMap_erase(MonoMap *m, MonoIt it)
{
  __CPROVER_assert(it.m == m && m->size > 0, "map::erase(iterator): a valid iterator of this map");
  if (it.ghost) { __CPROVER_assert(m->has, "map::erase(iterator): the entry exists"); m->has = 0; REACH("erase-ghost"); }
  m->size--;
}
static inline void MonoMap_clear(MonoMap *m) { m->has = 0; m->size = 0; }

//@function Pomerol::Operator::erase_zero_monomial(std::map<std::vector<boost::tuples::tuple<Pomerol::Operator::op_type, unsigned int, boost::tuples::null_type, boost::tuples::null_type, boost::tuples::null_type, boost::tuples::null_type, boost::tuples::null_type, boost::tuples::null_type, boost::tuples::null_type, boost::tuples::null_type>, std::allocator<boost::tuples::tuple<Pomerol::Operator::op_type, unsigned int, boost::tuples::null_type, boost::tuples::null_type, boost::tuples::null_type, boost::tuples::null_type, boost::tuples::null_type, boost::tuples::null_type, boost::tuples::null_type, boost::tuples::null_type> > >, double, std::less<std::vector<boost::tuples::tuple<Pomerol::Operator::op_type, unsigned int, boost::tuples::null_type, boost::tuples::null_type, boost::tuples::null_type, boost::tuples::null_type, boost::tuples::null_type, boost::tuples::null_type, boost::tuples::null_type, boost::tuples::null_type>, std::allocator<boost::tuples::tuple<Pomerol::Operator::op_type, unsigned int, boost::tuples::null_type, boost::tuples::null_type, boost::tuples::null_type, boost::tuples::null_type, boost::tuples::null_type, boost::tuples::null_type, boost::tuples::null_type, boost::tuples::null_type> > > >, std::allocator<std::pair<std::vector<boost::tuples::tuple<Pomerol::Operator::op_type, unsigned int, boost::tuples::null_type, boost::tuples::null_type, boost::tuples::null_type, boost::tuples::null_type, boost::tuples::null_type, boost::tuples::null_type, boost::tuples::null_type, boost::tuples::null_type>, std::allocator<boost::tuples::tuple<Pomerol::Operator::op_type, unsigned int, boost::tuples::null_type, boost::tuples::null_type, boost::tuples::null_type, boost::tuples::null_type, boost::tuples::null_type, boost::tuples::null_type, boost::tuples::null_type, boost::tuples::null_type> > > const, double> > >&, std::_Rb_tree_iterator<std::pair<std::vector<boost::tuples::tuple<Pomerol::Operator::op_type, unsigned int, boost::tuples::null_type, boost::tuples::null_type, boost::tuples::null_type, boost::tuples::null_type, boost::tuples::null_type, boost::tuples::null_type, boost::tuples::null_type, boost::tuples::null_type>, std::allocator<boost::tuples::tuple<Pomerol::Operator::op_type, unsigned int, boost::tuples::null_type, boost::tuples::null_type, boost::tuples::null_type, boost::tuples::null_type, boost::tuples::null_type, boost::tuples::null_type, boost::tuples::null_type, boost::tuples::null_type> > > const, double> >&) as Operator_erase_zero_monomial
//@end
/* erase_zero_monomial(map, it): the entry `it` points to is erased iff its coefficient is below 100 eps in magnitude; no
 * other entry changes.  Checked directly (no contract: an iterator argument that points INTO the map argument cannot be
 * described by is_fresh pre-conditions); the function is inlined into its callers below. */
//@harness h_erase_zero enforce=none loops=0 props=C05 min_obl=937 reach=5 timeout=120
void h_erase_zero(void)
{
  MonoMap m; MonoIt it;
  g_key = nondet_ulong();
  it.m = &m;
  /* pre: a well-formed view, `it` points to the ghost entry or to another existing entry */
  if (!(MonoMap_wf_key(&m) && m.size > 0 && (it.ghost == 0 || it.ghost == 1) && (it.ghost ==> m.has) && (!it.ghost ==> m.size > (m.has ? 1UL : 0UL)))) return;
  int old_has = m.has; double old_val = m.gentry.second; unsigned long old_size = m.size;
  Operator_erase_zero_monomial(&m, &it);
  if (it.ghost) {
    __CPROVER_assert(m.has == (SMALL(old_val) ? 0 : 1), "C05: the entry is erased iff |coefficient| < 100 eps");
    __CPROVER_assert(m.size == old_size - (m.has ? 0UL : 1UL), "C05: size follows the erasure");
    if (m.has) REACH("kept"); else REACH("erased");
  } else {
    __CPROVER_assert(m.has == old_has, "C05: erasing another entry leaves the ghost entry alone");
    REACH("other");
  }
  __CPROVER_assert(D_SAME(m.gentry.second, old_val), "C05: no coefficient is modified");
  REACH("exit");
}

/* specification of the ghost key's entry after  A += B / A -= B  (a = A's entry, b = B's entry, before the call) */
#define SPEC_ADD_HAS(ah, av, bh, bv) (!(bh) ? (ah) : (!(ah) ? 1 : (SMALL(D_ADD((av), (bv))) ? 0 : 1)))
#define SPEC_ADD_VAL(ah, av, bh, bv) (!(bh) ? (av) : (!(ah) ? (bv) : D_ADD((av), (bv))))
#define SPEC_SUB_HAS(ah, av, bh, bv) (!(bh) ? (ah) : (!(ah) ? 1 : (SMALL(D_SUB((av), (bv))) ? 0 : 1)))
#define SPEC_SUB_VAL(ah, av, bh, bv) (!(bh) ? (av) : (!(ah) ? D_NEG(bv) : D_SUB((av), (bv))))
/* scalar versions: the constant term after A += alpha / A -= alpha is stored iff it is not negligible (also when it is new) */
#define SPEC_ADDC_HAS(ah, av, alpha) (!(ah) ? (SMALL(alpha) ? 0 : 1) : (SMALL(D_ADD((av), (alpha))) ? 0 : 1))
#define SPEC_SUBC_HAS(ah, av, alpha) (!(ah) ? (SMALL(D_NEG(alpha)) ? 0 : 1) : (SMALL(D_SUB((av), (alpha))) ? 0 : 1))
#define SELFM (&self->monomials)
#define OPM (&op->monomials)

//@function Pomerol::Operator::operator+=(Pomerol::Operator const&) as Operator_addassign
//@contract
__CPROVER_requires(__CPROVER_is_fresh(self, sizeof(*self)) && MonoMap_wf_key(SELFM))
__CPROVER_requires(__CPROVER_is_fresh(op, sizeof(*op)) && MonoMap_wf_key(OPM))         /* A += A (aliasing) is not covered */
/* class invariant of both operands at the ghost key */
__CPROVER_requires((SELFM->has ==> !SMALL(SELFM->gentry.second)) && (OPM->has ==> !SMALL(OPM->gentry.second)))
__CPROVER_requires(g_old_has == SELFM->has && D_SAME(g_old_val, SELFM->gentry.second))
__CPROVER_requires(g_exp_has == SPEC_ADD_HAS(SELFM->has, SELFM->gentry.second, OPM->has, OPM->gentry.second))
__CPROVER_requires(D_SAME(g_exp_val, SPEC_ADD_VAL(SELFM->has, SELFM->gentry.second, OPM->has, OPM->gentry.second)))
__CPROVER_assigns(self->monomials, op->monomials.other)
__CPROVER_ensures(__CPROVER_return_value == self)
/* coefficient of K = a + b (absent = 0); erased iff both were stored and |a + b| < 100 eps */
__CPROVER_ensures(HAS_VAL(SELFM, g_exp_has, g_exp_val))
__CPROVER_ensures(g_check_inv ==> (SELFM->has ==> !SMALL(SELFM->gentry.second)))
//@loop 1
__CPROVER_assigns(_foreach_it1, it, is_new_monomial, self->monomials, op->monomials.other)
__CPROVER_loop_invariant(_foreach_it1.m == OPM && _foreach_it1.pos <= OPM->size)
__CPROVER_loop_invariant((SELFM->has == 0 || SELFM->has == 1) && (SELFM->has ==> SELFM->gentry.first.id == g_key) && SELFM->other.first.id != g_key && SELFM->size >= (unsigned long)SELFM->has && SELFM->size <= MAP_MAXLEN + _foreach_it1.pos)
__CPROVER_loop_invariant((OPM->has && _foreach_it1.pos > OPM->gpos) ? HAS_VAL_LV(SELFM, g_exp_has, g_exp_val) : HAS_VAL_LV(SELFM, g_old_has, g_old_val))
__CPROVER_decreases(OPM->size - _foreach_it1.pos)
//@end
//@harness h_Operator_addassign enforce=Operator_addassign props=C05 min_obl=842 reach=4 timeout=180
void h_Operator_addassign(void)
{
  struct Operator *a, *b;
  g_key = nondet_ulong(); g_old_has = nondet_int(); g_exp_has = nondet_int(); g_old_val = nondet_double(); g_exp_val = nondet_double(); g_check_inv = 1;
  Operator_addassign(a, b);
  REACH("exit");
}

//@function Pomerol::Operator::operator-=(Pomerol::Operator const&) as Operator_subassign
//@contract
__CPROVER_requires(__CPROVER_is_fresh(self, sizeof(*self)) && MonoMap_wf_key(SELFM))
__CPROVER_requires(__CPROVER_is_fresh(op, sizeof(*op)) && MonoMap_wf_key(OPM))
__CPROVER_requires((SELFM->has ==> !SMALL(SELFM->gentry.second)) && (OPM->has ==> !SMALL(OPM->gentry.second)))
__CPROVER_requires(g_old_has == SELFM->has && D_SAME(g_old_val, SELFM->gentry.second))
__CPROVER_requires(g_exp_has == SPEC_SUB_HAS(SELFM->has, SELFM->gentry.second, OPM->has, OPM->gentry.second))
__CPROVER_requires(D_SAME(g_exp_val, SPEC_SUB_VAL(SELFM->has, SELFM->gentry.second, OPM->has, OPM->gentry.second)))
__CPROVER_assigns(self->monomials, op->monomials.other)
__CPROVER_ensures(__CPROVER_return_value == self)
/* coefficient of K = a - b (absent = 0: a new entry gets -b); erased iff both were stored and |a - b| < 100 eps */
__CPROVER_ensures(HAS_VAL(SELFM, g_exp_has, g_exp_val))
__CPROVER_ensures(g_check_inv ==> (SELFM->has ==> !SMALL(SELFM->gentry.second)))
//@loop 1
__CPROVER_assigns(_foreach_it1, it, is_new_monomial, self->monomials, op->monomials.other)
__CPROVER_loop_invariant(_foreach_it1.m == OPM && _foreach_it1.pos <= OPM->size)
__CPROVER_loop_invariant((SELFM->has == 0 || SELFM->has == 1) && (SELFM->has ==> SELFM->gentry.first.id == g_key) && SELFM->other.first.id != g_key && SELFM->size >= (unsigned long)SELFM->has && SELFM->size <= MAP_MAXLEN + _foreach_it1.pos)
__CPROVER_loop_invariant((OPM->has && _foreach_it1.pos > OPM->gpos) ? HAS_VAL_LV(SELFM, g_exp_has, g_exp_val) : HAS_VAL_LV(SELFM, g_old_has, g_old_val))
__CPROVER_decreases(OPM->size - _foreach_it1.pos)
//@end
//@harness h_Operator_subassign enforce=Operator_subassign props=C05 min_obl=862 reach=4 timeout=180
void h_Operator_subassign(void)
{
  struct Operator *a, *b;
  g_key = nondet_ulong(); g_old_has = nondet_int(); g_exp_has = nondet_int(); g_old_val = nondet_double(); g_exp_val = nondet_double(); g_check_inv = 1;
  Operator_subassign(a, b);
  REACH("exit");
}

/* ---- scalar operations.  alpha acts on the constant term = the entry of the EMPTY monomial (id 0). */
#define K_IS_CONST (g_key == 0UL)
//@function Pomerol::Operator::operator+=(double) as Operator_addassign_d
//@contract
__CPROVER_requires(__CPROVER_is_fresh(self, sizeof(*self)) && MonoMap_wf_key(SELFM))
__CPROVER_requires(SELFM->has ==> !SMALL(SELFM->gentry.second))
__CPROVER_requires(g_old_has == SELFM->has && D_SAME(g_old_val, SELFM->gentry.second))
__CPROVER_assigns(self->monomials)
__CPROVER_ensures(__CPROVER_return_value == self)
/* K is not the constant term: untouched;  K is the constant term: a + alpha (absent: alpha), erased iff stored and |a + alpha| < 100 eps */
__CPROVER_ensures(!K_IS_CONST ==> HAS_VAL(SELFM, g_old_has, g_old_val))
__CPROVER_ensures(K_IS_CONST ==> HAS_VAL(SELFM, SPEC_ADDC_HAS(g_old_has, g_old_val, alpha), SPEC_ADD_VAL(g_old_has, g_old_val, 1, alpha)))
/* class invariant of the result (D15: failed before fix a98252f for a new constant term with |alpha| < 100 eps, e.g. A += 0.0) */
__CPROVER_ensures(g_check_inv ==> (SELFM->has ==> !SMALL(SELFM->gentry.second)))
//@end
//@harness h_Operator_addassign_d enforce=Operator_addassign_d props=C05 min_obl=306 reach=3 timeout=120
void h_Operator_addassign_d(void)
{
  struct Operator *a; double alpha;
  g_key = nondet_ulong(); g_old_has = nondet_int(); g_old_val = nondet_double(); g_check_inv = 0;
  Operator_addassign_d(a, alpha);
  REACH("exit");
}
//@harness h_Operator_addassign_d_inv enforce=Operator_addassign_d props=C05 min_obl=306 reach=3 timeout=120
void h_Operator_addassign_d_inv(void)
{
  struct Operator *a; double alpha;
  g_key = nondet_ulong(); g_old_has = nondet_int(); g_old_val = nondet_double(); g_check_inv = 1;
  Operator_addassign_d(a, alpha);
  REACH("exit");
}

//@function Pomerol::Operator::operator-=(double) as Operator_subassign_d
//@contract
__CPROVER_requires(__CPROVER_is_fresh(self, sizeof(*self)) && MonoMap_wf_key(SELFM))
__CPROVER_requires(SELFM->has ==> !SMALL(SELFM->gentry.second))
__CPROVER_requires(g_old_has == SELFM->has && D_SAME(g_old_val, SELFM->gentry.second))
__CPROVER_assigns(self->monomials)
__CPROVER_ensures(__CPROVER_return_value == self)
__CPROVER_ensures(!K_IS_CONST ==> HAS_VAL(SELFM, g_old_has, g_old_val))
__CPROVER_ensures(K_IS_CONST ==> HAS_VAL(SELFM, SPEC_SUBC_HAS(g_old_has, g_old_val, alpha), SPEC_SUB_VAL(g_old_has, g_old_val, 1, alpha)))
__CPROVER_ensures(g_check_inv ==> (SELFM->has ==> !SMALL(SELFM->gentry.second)))
//@end
//@harness h_Operator_subassign_d enforce=Operator_subassign_d props=C05 min_obl=306 reach=3 timeout=120
void h_Operator_subassign_d(void)
{
  struct Operator *a; double alpha;
  g_key = nondet_ulong(); g_old_has = nondet_int(); g_old_val = nondet_double(); g_check_inv = 0;
  Operator_subassign_d(a, alpha);
  REACH("exit");
}

//@harness h_Operator_subassign_d_inv enforce=Operator_subassign_d props=C05 min_obl=306 reach=3 timeout=120
void h_Operator_subassign_d_inv(void)
{
  struct Operator *a; double alpha;
  g_key = nondet_ulong(); g_old_has = nondet_int(); g_old_val = nondet_double(); g_check_inv = 1;
  Operator_subassign_d(a, alpha);
  REACH("exit");
}

//@function Pomerol::Operator::operator*=(double) as Operator_mulassign_d
//@contract
__CPROVER_requires(__CPROVER_is_fresh(self, sizeof(*self)) && MonoMap_wf_key(SELFM))
__CPROVER_requires(SELFM->has ==> !SMALL(SELFM->gentry.second))
__CPROVER_requires(g_old_has == SELFM->has && D_SAME(g_old_val, SELFM->gentry.second))
__CPROVER_requires(D_SAME(g_exp_val, D_MUL(SELFM->gentry.second, alpha)))
__CPROVER_assigns(self->monomials)
__CPROVER_ensures(__CPROVER_return_value == self)
/* |alpha| < 100 eps: the operator becomes 0;  otherwise every coefficient is multiplied by alpha */
__CPROVER_ensures(SMALL(alpha) ==> (SELFM->has == 0 && SELFM->size == 0))
__CPROVER_ensures(!SMALL(alpha) ==> (HAS_VAL(SELFM, g_old_has, g_exp_val) && SELFM->size == __CPROVER_old(SELFM->size)))
//@loop 1
__CPROVER_assigns(_foreach_it1, self->monomials.gentry.second, self->monomials.other)
__CPROVER_loop_invariant(_foreach_it1.m == SELFM && _foreach_it1.pos <= SELFM->size)
__CPROVER_loop_invariant((SELFM->has && _foreach_it1.pos > SELFM->gpos) ? D_SAME_LV(SELFM->gentry.second, g_exp_val) : D_SAME_LV(SELFM->gentry.second, g_old_val))
__CPROVER_decreases(SELFM->size - _foreach_it1.pos)
//@end
//@harness h_Operator_mulassign_d enforce=Operator_mulassign_d props=C05 min_obl=421 reach=2 timeout=120
void h_Operator_mulassign_d(void)
{
  struct Operator *a; double alpha;
  g_key = nondet_ulong(); g_old_has = nondet_int(); g_old_val = nondet_double(); g_exp_val = nondet_double(); g_check_inv = 0;
  Operator_mulassign_d(a, alpha);
  REACH("exit");
}
/* ---------------------------------------------------------------------------------------------------------------------
 * FINDINGS:
 *  D15 (repaired in /repo by fix: a98252f): h_Operator_addassign_d_inv / h_Operator_subassign_d_inv, postcondition.4 -- operator+=(alpha)
 *     and operator-=(alpha) inserted a NEW constant term without the near-zero test: `Operator A; A += 0.0;` gave isEmpty()==false,
 *     A==Operator() false (equality test disagreeing with matrix equality, C05).  Both harnesses pass on the repaired tree.
 *  Remark (not a finding of C05, no harness): operator*=(alpha) does not erase products below 100 eps (n(0)*1e-10*1e-10 keeps the
 *     coefficient 1e-20); the operator and its matrix are then genuinely non-zero, so equality tests still agree with matrix equality.
 * NOT DONE: Operator::normalize_and_insert / operator*=(Operator) (bounded stand-in per concrete operator string).
 *
 * MUTATION LOG (all killed unless noted):
 *  actRight: `j<ind` -> `j<=ind`                         Operator_actRight.loop_invariant_step.1/.6 (inner loop), undefined-shift.11
 *  actRight: `!bra[ind]` -> `bra[ind]` (annihilation)    Operator_actRight.postcondition.2/.3, loop_invariant_step.12/.15
 *  actRight: `bra[ind] = (op == creation)` negated       Operator_actRight.loop_invariant_step.13
 *  actRight: `i>=0` -> `i>0`                             Operator_actRight.postcondition.2
 *  actRight: ERROR value (.., 0) -> (.., 1)              Operator_actRight.postcondition.1
 *  actRight: `if (bra[j])` -> `if (!bra[j])`             Operator_actRight.loop_invariant_step.3/.8
 *  N::N: `index<Nmodes` -> `<=`                          OpToken_addassign.assertion.1, N_init1.loop_invariant_step.1/.2
 *  N::N: start at index=1                                N_init1.postcondition.1, OpToken_addassign.assertion.1
 *  N::getMatrixElement: count() -> size()                N_getMatrixElement.postcondition.1
 *  Sz::generateTerms: `-=` -> `+=` (down term)           OpToken_addassign.assertion.2/.3
 *  Sz::generateTerms: 0.5 -> 1.0                         OpToken_addassign.assertion.3
 *  Sz::getMatrixElement: up-down -> up+down              Sz_getMatrixElement.postcondition.2
 *  Sz::getMatrixElement: down loop reads *it_up          Sz_getMatrixElement.postcondition.1/.2, UVecIt_mul.assertion.1/.2
 *  Sz::getMatrixElement: it_down over SpinUpIndices      UVecIt_mul.assertion.1/.2
 *  N::getMatrixElement(bra,ket): guard bra.count()!=ket.count()   N_getMatrixElement2.postcondition.1
 *  Sz::getMatrixElement(bra,ket): guard bra.count()!=ket.count()  Sz_getMatrixElement2.postcondition.1
 *  Sz::getMatrixElement(bra,ket): bra==ket ? 0 : ...              Sz_getMatrixElement2.postcondition.1
 *  N::getMatrixElement(bra,ket): getMatrixElement(bra)            passes (equivalent: reached only when bra == ket)
 *  operator==(entry): pre-fix 8a738a7^                   equal_factors.precondition.2 (read past the shorter monomial), MonoEntry_eq.postcondition.1 (prefix equality)
 *  operator==(entry): `-` -> `+` in the tolerance test   MonoEntry_eq.postcondition.1/.2
 *  operator==(entry): `==` -> `<=` on the sizes          MonoEntry_eq.postcondition.1
 *  operator==(entry): drop the std::equal conjunct       UNDECIDED (goto-instrument: contract of equal_factors has no call left) -- not a pass
 *  operator==(Operator): drop the size test              Operator_eq.postcondition.1, equal_entries.precondition.2
 *  operator==(Operator): `==` -> `>=` on the sizes       Operator_eq.postcondition.1, equal_entries.precondition.2
 *  operator==(Operator): negate std::equal               Operator_eq.postcondition.1/.2
 *  erase_zero_monomial: `<` -> `>`                       h_erase_zero.assertion.1
 *  operator+=(Operator): `+=` -> `-=`                    Operator_addassign.loop_invariant_step.3
 *  operator+=(Operator): drop erase_zero_monomial        Operator_addassign.loop_invariant_step.3
 *  operator-=(Operator): insert +m.second                Operator_subassign.loop_invariant_step.3
 *  operator+=(alpha): `+=` -> `-=`                       Operator_addassign_d.postcondition.3
 *  operator-=(alpha): insert +alpha                      Operator_subassign_d.postcondition.3
 *  operator*=(alpha): `*=` -> `+=`                       Operator_mulassign_d.loop_invariant_step.2
 *  operator*=(alpha): `<` -> `>` in the clear test       Operator_mulassign_d.postcondition.2/.3
 * ------------------------------------------------------------------------------------------------------------------- */
