/* TwoParticleGFPart::compute -- "four-operator world-stripe enumeration with index chasing on sparse
 * rows/columns" (C02), memory safety of the index chasing (C17).
 *   <1|O1|2><2|O2|3><3|O3|4><4|CX4|1>: for all |1>,|3>: chase |4> (CX4 column 1 vs O3 row 3), chase |2> (O1 row 1 vs O2 column 3).
 * chaseIndices is used through its CONTRACT (specs/chase.c proves it), addMultiterm is a monitor
 * (specs/tpgfpart.c proves the real one). */
#include "../stubs/common.h"
#include "../stubs/cplx.h"
#define SPARSE_GHOSTS
#include "../stubs/sparse.h"
#include "../stubs/dense.h"
/* the walks call chaseIndices through its CONTRACT, so SpIt_index() -- where sparse.h instantiates the sortedness of a row/column against the
 * ghost position -- is not executed for the lagging iterator; the same ASSUMED type invariant is instantiated at operator bool() here */
#undef SpIt_conv_bool
#define SpIt_conv_bool(it) ({ \
  if ((it)->m->gpos >= 0 && (it)->m_outer == (it)->m->gouter && 0 <= (it)->m_id && (it)->m_id < (it)->m_end && (it)->m_end <= (it)->m->nnz) { \
    if ((it)->m_id < (it)->m->gpos) __CPROVER_assume((it)->m->inner[(it)->m_id] < (it)->m->inner[(it)->m->gpos]); \
    if ((it)->m_id > (it)->m->gpos) __CPROVER_assume((it)->m->inner[(it)->m_id] > (it)->m->inner[(it)->m->gpos]); } \
  (it)->m_id < (it)->m_end; })
//@include types_common.inc
//@type (Pomerol::)?RealVectorType|Eigen::Matrix<double, -1, 1(, 0)?(, -1, 1)?> => RealVector ptr
//@type (Pomerol::)?TermList<(Pomerol::)?TwoParticleGFPart::NonResonantTerm> => TermListNR ptr
//@type (Pomerol::)?TermList<(Pomerol::)?TwoParticleGFPart::ResonantTerm> => TermListR ptr
//@type std::vector<unsigned long(, std::allocator<unsigned long> ?)?>|std::vector<(Pomerol::)?InnerQuantumState(, std::allocator<.*>)?> => VecUL ptr
//@record Pomerol::Permutation3 => Permutation3 val
//@record Pomerol::CreationOperatorPart => struct FieldOperatorPart ptr
//@tu src/pomerol/TwoParticleGFPart.cpp
//@enum ComputableObject::
typedef struct Permutation3 Permutation3;
//@struct Pomerol::Permutation3
//@struct Pomerol::FieldOperatorPart only=elementsColMajor,elementsRowMajor,Status
//@struct Pomerol::HamiltonianPart only=Eigenvalues,Status
//@struct Pomerol::DensityMatrixPart only=weights,beta
typedef struct TermListNR { unsigned long n_clear, n_size; } TermListNR;
typedef struct TermListR { unsigned long n_clear, n_size; } TermListR;
#define TermListNR_clear(tl) ((tl)->n_clear++)
#define TermListR_clear(tl) ((tl)->n_clear++)

/* ---- std::vector<InnerQuantumState> Index4List: ghost-element model.
 * Every element written is ASSERTED below elem_bound; every element read is ASSUMED below elem_bound (container invariant).
 * One ghost element (position gpos, value gval): recorded by push_back when the harness-defined ghost event holds. */
typedef struct VecUL { long size; long gpos; unsigned long gval; unsigned long elem_bound; long last_at; unsigned long scratch; } VecUL;
struct TwoParticleGFPart;
struct TwoParticleGFPart *g_self;
static inline VecUL VecUL_ctor0(void) { VecUL v; v.size = 0; v.gpos = -1; v.gval = 0; v.elem_bound = 0; v.last_at = -1; return v; }
#define VecUL_reserve(v, n) ((void)0)
#define VecUL_clear(v) ((v)->size = 0, (v)->gpos = -1)
#define VecUL_empty(v) ((v)->size == 0)
#define VecUL_size(v) ((unsigned long)(v)->size)
static _Bool ghost_push_event(unsigned long x);
#define VecUL_push_back(v, x) do { unsigned long _x = (x); \
  __CPROVER_assert(_x < g_elem_bound, "C02/C17: every |4> index stored is a valid state of block 4"); \
  __CPROVER_assert((v)->size < SP_MAX, "Index4List stays within the number of stored elements"); \
  if (ghost_push_event(_x)) { (v)->gpos = (v)->size; (v)->gval = _x; } \
  (v)->size++; } while (0)
unsigned long g_elem_bound;
_Bool g_at_ghost;      /* the most recent Index4List[p4] read the ghost element */
long g_expected;
unsigned long nondet_ulong(void);
#define VecUL_at(v, p) ({ long _p = (long)(p); unsigned long _r; \
  __CPROVER_assert(0 <= _p && _p < (v)->size, "C17: Index4List[p4] inside the list"); \
  (v)->last_at = _p; g_at_ghost = (_p == (v)->gpos); \
  if (_p == (v)->gpos) _r = (v)->gval; else { _r = nondet_ulong(); __CPROVER_assume(_r < g_elem_bound); } \
  (v)->scratch = _r; &(v)->scratch; })

//@struct Pomerol::TwoParticleGFPart embed=O1,O2,O3,CX4,Hpart1,Hpart2,Hpart3,Hpart4,DMpart1,DMpart2,DMpart3,DMpart4

#define M_O1 (&self->O1.elementsRowMajor)
#define M_O2 (&self->O2.elementsColMajor)
#define M_O3 (&self->O3.elementsRowMajor)
#define M_X4 (&self->CX4.elementsColMajor)
#define G_O1 (&g_self->O1.elementsRowMajor)
#define G_O2 (&g_self->O2.elementsColMajor)
#define G_O3 (&g_self->O3.elementsRowMajor)
#define G_X4 (&g_self->CX4.elementsColMajor)
#define GI1 (M_O1->gouter)
#define GI3 (M_O3->gouter)
#define GHOST (M_O1->gpos >= 0)
#define EXPECTED_HITS ((GHOST && D_GE(D_ADD(D_ADD(D_ADD(self->DMpart1.weights.data[GI1], self->DMpart2.weights.data[M_O1->inner[M_O1->gpos]]), self->DMpart3.weights.data[GI3]), \
                        self->DMpart4.weights.data[M_O3->inner[M_O3->gpos]]), 1e-16)) ? 1 : 0)

/* Eigen SparseMatrix::coeff(row,col): the stored value or 0 (TRUSTED: binary search in the outer vector).
 * Modelled as an opaque function of (matrix, outer, inner), equal to values[gpos] at the ghost element.
 * ASSERTED: row/col inside the matrix (Eigen checks only without NDEBUG). */
double __CPROVER_uninterpreted_coeff(long, long, long);
#define SparseM_coeff_oi(m, id, o, i) ({ long _o = (long)(o), _i = (long)(i); \
  __CPROVER_assert(0 <= _o && _o < (m)->outerSize && 0 <= _i && _i < (m)->innerSize, "C17: SparseMatrix::coeff(row,col) inside the matrix"); \
  (m)->last_coeff_outer = _o; (m)->last_coeff_inner = _i; \
  ((m)->gpos >= 0 && _o == (m)->gouter && _i == (m)->inner[(m)->gpos]) ? (m)->values[(m)->gpos] : __CPROVER_uninterpreted_coeff((id), _o, _i); })
#define SparseRM_coeff(m, row, col) SparseM_coeff_oi((m), 3, (row), (col))
#define SparseCM_coeff(m, row, col) SparseM_coeff_oi((m), 4, (col), (row))

/* ghost event: the element pushed while walking column i1* of CX4 and row i3* of O3 at the ghost pair */
static _Bool ghost_push_event(unsigned long x)
{
  return G_X4->gpos >= 0 && G_X4->last_ctor_outer == G_X4->gouter && G_O3->last_ctor_outer == G_O3->gouter &&
         G_X4->last_index_pos == G_X4->gpos;
}

//@tu src/pomerol/FieldOperatorPart.cpp
//@function Pomerol::FieldOperatorPart::getRowMajorValue() const as FieldOperatorPart_getRowMajorValue
//@end
//@function Pomerol::FieldOperatorPart::getColMajorValue() const as FieldOperatorPart_getColMajorValue
//@end
//@tu src/pomerol/DensityMatrixPart.cpp
//@function Pomerol::DensityMatrixPart::getWeight(unsigned long) const as DensityMatrixPart_getWeight
//@end
//@tu src/pomerol/HamiltonianPart.cpp
//@maythrow HamiltonianPart_getEigenValue
//@function Pomerol::HamiltonianPart::getEigenValue(unsigned long) const as HamiltonianPart_getEigenValue
//@end
//@tu src/pomerol/TwoParticleGFPart.cpp

/* chaseIndices: contract only (proved in specs/chase.c; keep the two texts identical) */
_Bool chaseIndices(SpItR *index1_iter, SpItC *index2_iter)
__CPROVER_requires(0 <= index1_iter->m_id && index1_iter->m_id < index1_iter->m_end && index1_iter->m_end <= index1_iter->m->nnz)
__CPROVER_requires(0 <= index2_iter->m_id && index2_iter->m_id < index2_iter->m_end && index2_iter->m_end <= index2_iter->m->nnz)
__CPROVER_requires(0 <= index1_iter->m_outer && index1_iter->m_outer < index1_iter->m->outerSize && 0 <= index2_iter->m_outer && index2_iter->m_outer < index2_iter->m->outerSize)
__CPROVER_assigns(index1_iter->m_id, index2_iter->m_id)
__CPROVER_ensures(__CPROVER_return_value ==
   (__CPROVER_old(index1_iter->m->inner[index1_iter->m_id]) == __CPROVER_old(index2_iter->m->inner[index2_iter->m_id])))
__CPROVER_ensures(__CPROVER_return_value ==> (index1_iter->m_id == __CPROVER_old(index1_iter->m_id) && index2_iter->m_id == __CPROVER_old(index2_iter->m_id)))
__CPROVER_ensures(index1_iter->m_id >= __CPROVER_old(index1_iter->m_id) && index1_iter->m_id <= index1_iter->m_end)
__CPROVER_ensures(index2_iter->m_id >= __CPROVER_old(index2_iter->m_id) && index2_iter->m_id <= index2_iter->m_end)
__CPROVER_ensures(index1_iter->m_id == __CPROVER_old(index1_iter->m_id) || index2_iter->m_id == __CPROVER_old(index2_iter->m_id))
__CPROVER_ensures(!__CPROVER_return_value ==> (index1_iter->m_id != __CPROVER_old(index1_iter->m_id) || index2_iter->m_id != __CPROVER_old(index2_iter->m_id)))
__CPROVER_ensures((index1_iter->m->gpos >= 0 && index1_iter->m_outer == index1_iter->m->gouter && __CPROVER_old(index1_iter->m_id) <= index1_iter->m->gpos &&
                   index1_iter->m->inner[index1_iter->m->gpos] >= __CPROVER_old(index2_iter->m->inner[index2_iter->m_id])) ==> index1_iter->m_id <= index1_iter->m->gpos)
__CPROVER_ensures((index2_iter->m->gpos >= 0 && index2_iter->m_outer == index2_iter->m->gouter && __CPROVER_old(index2_iter->m_id) <= index2_iter->m->gpos &&
                   index2_iter->m->inner[index2_iter->m->gpos] >= __CPROVER_old(index1_iter->m->inner[index1_iter->m_id])) ==> index2_iter->m_id <= index2_iter->m->gpos)
;

/* ---- monitor for addMultiterm: soundness of EVERY call + hit counter of the ghost stripe.
 * SPEC (class documentation): the stripe <1|O1|2><2|O2|3><3|O3|4><4|CX4|1> contributes the multi-term with
 *   C = O1[1,2]*O2[2,3]*O3[3,4]*CX4[4,1]*sign(permutation), energies (E1,E2,E3,E4), weights (w1,w2,w3,w4), beta of the density matrix,
 *   iff w1+w2+w3+w4 >= 1e-16. */
long g_hits;
void TwoParticleGFPart_addMultiterm(struct TwoParticleGFPart *self, cplx Coeff, double beta,
       double Ei, double Ej, double Ek, double El, double Wi, double Wj, double Wk, double Wl);
//@function Pomerol::TwoParticleGFPart::compute() as TwoParticleGFPart_compute
//@contract
__CPROVER_requires(__CPROVER_is_fresh(self, sizeof(*self)) && g_self == self)
__CPROVER_requires(SparseM_wf(M_O1) && SparseM_wf(M_O2) && SparseM_wf(M_O3) && SparseM_wf(M_X4))
/* block sizes: |1> = rows of O1 = columns of CX4; |2> = cols of O1 = rows of O2; |3> = cols of O2 = rows of O3; |4> = cols of O3 = rows of CX4 */
__CPROVER_requires(M_O1->outerSize == M_X4->outerSize && M_O1->innerSize == M_O2->innerSize && M_O2->outerSize == M_O3->outerSize && M_O3->innerSize == M_X4->innerSize)
__CPROVER_requires(RealVector_wf(&self->Hpart1.Eigenvalues, SP_MAX) && RealVector_wf(&self->Hpart2.Eigenvalues, SP_MAX) && RealVector_wf(&self->Hpart3.Eigenvalues, SP_MAX) && RealVector_wf(&self->Hpart4.Eigenvalues, SP_MAX))
__CPROVER_requires(RealVector_wf(&self->DMpart1.weights, SP_MAX) && RealVector_wf(&self->DMpart2.weights, SP_MAX) && RealVector_wf(&self->DMpart3.weights, SP_MAX) && RealVector_wf(&self->DMpart4.weights, SP_MAX))
__CPROVER_requires(self->Hpart1.Eigenvalues.size == M_O1->outerSize && self->DMpart1.weights.size == M_O1->outerSize)
__CPROVER_requires(self->Hpart2.Eigenvalues.size == M_O1->innerSize && self->DMpart2.weights.size == M_O1->innerSize)
__CPROVER_requires(self->Hpart3.Eigenvalues.size == M_O3->outerSize && self->DMpart3.weights.size == M_O3->outerSize)
__CPROVER_requires(self->Hpart4.Eigenvalues.size == M_O3->innerSize && self->DMpart4.weights.size == M_O3->innerSize)
__CPROVER_requires(self->Hpart1.Status >= Computed && self->Hpart2.Status >= Computed && self->Hpart3.Status >= Computed && self->Hpart4.Status >= Computed)
__CPROVER_requires(D_SAME(self->CoefficientTolerance, 1e-16) && g_elem_bound == (unsigned long)M_X4->innerSize)
__CPROVER_requires(g_hits == 0 && !VERIF_thrown)
/* ghost stripe: ONE arbitrary stripe <1|O1|2><2|O2|3><3|O3|4><4|CX4|1> of stored elements (or none) */
__CPROVER_requires((M_O1->gpos >= 0) == (M_O2->gpos >= 0) && (M_O1->gpos >= 0) == (M_O3->gpos >= 0) && (M_O1->gpos >= 0) == (M_X4->gpos >= 0))
__CPROVER_requires(M_O1->gpos >= 0 ==> (M_O1->gouter == M_X4->gouter && M_O2->gouter == M_O3->gouter &&
                                         M_O1->inner[M_O1->gpos] == M_O2->inner[M_O2->gpos] && M_O3->inner[M_O3->gpos] == M_X4->inner[M_X4->gpos]))
__CPROVER_requires(g_expected == EXPECTED_HITS)
__CPROVER_assigns(VERIF_thrown, g_hits, g_at_ghost, self->Status, self->NonResonantTerms.n_clear, self->ResonantTerms.n_clear,
   self->O1.elementsRowMajor.last_value_pos, self->O1.elementsRowMajor.last_value_outer, self->O1.elementsRowMajor.last_index_pos, self->O1.elementsRowMajor.last_ctor_outer,
   self->O2.elementsColMajor.last_value_pos, self->O2.elementsColMajor.last_value_outer, self->O2.elementsColMajor.last_index_pos, self->O2.elementsColMajor.last_ctor_outer,
   self->O3.elementsRowMajor.last_index_pos, self->O3.elementsRowMajor.last_ctor_outer, self->O3.elementsRowMajor.last_coeff_outer, self->O3.elementsRowMajor.last_coeff_inner,
   self->CX4.elementsColMajor.last_index_pos, self->CX4.elementsColMajor.last_ctor_outer, self->CX4.elementsColMajor.last_coeff_outer, self->CX4.elementsColMajor.last_coeff_inner)
__CPROVER_ensures(!VERIF_thrown && self->Status == Computed)
/* completeness + uniqueness: the ghost stripe contributes exactly one multi-term iff w1+w2+w3+w4 >= 1e-16 */
__CPROVER_ensures(g_hits == g_expected)
__CPROVER_ensures(self->NonResonantTerms.n_clear == __CPROVER_old(self->NonResonantTerms.n_clear) + 1 && self->ResonantTerms.n_clear == __CPROVER_old(self->ResonantTerms.n_clear) + 1)
//@loop 1
__CPROVER_assigns(index1, index3, g_hits, g_at_ghost, VERIF_thrown, __CPROVER_object_whole(&Index4List),
   self->O1.elementsRowMajor.last_value_pos, self->O1.elementsRowMajor.last_value_outer, self->O1.elementsRowMajor.last_index_pos, self->O1.elementsRowMajor.last_ctor_outer,
   self->O2.elementsColMajor.last_value_pos, self->O2.elementsColMajor.last_value_outer, self->O2.elementsColMajor.last_index_pos, self->O2.elementsColMajor.last_ctor_outer,
   self->O3.elementsRowMajor.last_index_pos, self->O3.elementsRowMajor.last_ctor_outer, self->O3.elementsRowMajor.last_coeff_outer, self->O3.elementsRowMajor.last_coeff_inner,
   self->CX4.elementsColMajor.last_index_pos, self->CX4.elementsColMajor.last_ctor_outer, self->CX4.elementsColMajor.last_coeff_outer, self->CX4.elementsColMajor.last_coeff_inner)
__CPROVER_loop_invariant(index1 <= index1Max && index1Max == (unsigned long)M_X4->outerSize && index3Max == (unsigned long)M_O2->outerSize)
__CPROVER_loop_invariant(O1matrix == M_O1 && O2matrix == M_O2 && O3matrix == M_O3 && CX4matrix == M_X4 && !VERIF_thrown)
__CPROVER_loop_invariant((!GHOST || index1 <= (unsigned long)GI1) ? g_hits == 0 : g_hits == g_expected)
__CPROVER_decreases(index1Max - index1)
//@loop 2
__CPROVER_assigns(index3, g_hits, g_at_ghost, VERIF_thrown, __CPROVER_object_whole(&Index4List),
   self->O1.elementsRowMajor.last_value_pos, self->O1.elementsRowMajor.last_value_outer, self->O1.elementsRowMajor.last_index_pos, self->O1.elementsRowMajor.last_ctor_outer,
   self->O2.elementsColMajor.last_value_pos, self->O2.elementsColMajor.last_value_outer, self->O2.elementsColMajor.last_index_pos, self->O2.elementsColMajor.last_ctor_outer,
   self->O3.elementsRowMajor.last_index_pos, self->O3.elementsRowMajor.last_ctor_outer, self->O3.elementsRowMajor.last_coeff_outer, self->O3.elementsRowMajor.last_coeff_inner,
   self->CX4.elementsColMajor.last_index_pos, self->CX4.elementsColMajor.last_ctor_outer, self->CX4.elementsColMajor.last_coeff_outer, self->CX4.elementsColMajor.last_coeff_inner)
__CPROVER_loop_invariant(index3 <= index3Max && index1 < index1Max && !VERIF_thrown)
__CPROVER_loop_invariant((GHOST && index1 == (unsigned long)GI1) ? (index3 <= (unsigned long)GI3 ? g_hits == 0 : g_hits == g_expected) : g_hits == __CPROVER_loop_entry(g_hits))
__CPROVER_decreases(index3Max - index3)
//@loop 3
__CPROVER_assigns(index4bra_iter.m_id, index4ket_iter.m_id, __CPROVER_object_whole(&Index4List),
   self->CX4.elementsColMajor.last_index_pos)
__CPROVER_loop_invariant(index4bra_iter.m == M_X4 && index4ket_iter.m == M_O3 && index4bra_iter.m_outer == (long)index1 && index4ket_iter.m_outer == (long)index3)
__CPROVER_loop_invariant(0 <= index4bra_iter.m_id && __CPROVER_loop_entry(index4bra_iter.m_id) <= index4bra_iter.m_id && index4bra_iter.m_id <= index4bra_iter.m_end && index4bra_iter.m_end <= M_X4->nnz)
__CPROVER_loop_invariant(0 <= index4ket_iter.m_id && __CPROVER_loop_entry(index4ket_iter.m_id) <= index4ket_iter.m_id && index4ket_iter.m_id <= index4ket_iter.m_end && index4ket_iter.m_end <= M_O3->nnz)
__CPROVER_loop_invariant(0 <= Index4List.size && Index4List.size <= index4bra_iter.m_id - __CPROVER_loop_entry(index4bra_iter.m_id) && Index4List.gpos < Index4List.size)
__CPROVER_loop_invariant((GHOST && index1 == (unsigned long)GI1 && index3 == (unsigned long)GI3)
   ? ((Index4List.gpos == -1 && index4bra_iter.m_id <= M_X4->gpos && index4ket_iter.m_id <= M_O3->gpos) ||
      (Index4List.gpos >= 0 && Index4List.gval == (unsigned long)M_X4->inner[M_X4->gpos] && index4bra_iter.m_id > M_X4->gpos && index4ket_iter.m_id > M_O3->gpos))
   : Index4List.gpos == -1)
__CPROVER_decreases((index4bra_iter.m_end - index4bra_iter.m_id) + (index4ket_iter.m_end - index4ket_iter.m_id))
//@loop 4
__CPROVER_assigns(index2bra_iter.m_id, index2ket_iter.m_id, g_hits, g_at_ghost, VERIF_thrown, Index4List.last_at, Index4List.scratch,
   self->O1.elementsRowMajor.last_value_pos, self->O1.elementsRowMajor.last_value_outer, self->O1.elementsRowMajor.last_index_pos,
   self->O2.elementsColMajor.last_value_pos, self->O2.elementsColMajor.last_value_outer,
   self->O3.elementsRowMajor.last_coeff_outer, self->O3.elementsRowMajor.last_coeff_inner,
   self->CX4.elementsColMajor.last_coeff_outer, self->CX4.elementsColMajor.last_coeff_inner)
__CPROVER_loop_invariant(index2bra_iter.m == M_O2 && index2ket_iter.m == M_O1 && index2bra_iter.m_outer == (long)index3 && index2ket_iter.m_outer == (long)index1)
__CPROVER_loop_invariant(0 <= index2bra_iter.m_id && __CPROVER_loop_entry(index2bra_iter.m_id) <= index2bra_iter.m_id && index2bra_iter.m_id <= index2bra_iter.m_end && index2bra_iter.m_end <= M_O2->nnz)
__CPROVER_loop_invariant(0 <= index2ket_iter.m_id && __CPROVER_loop_entry(index2ket_iter.m_id) <= index2ket_iter.m_id && index2ket_iter.m_id <= index2ket_iter.m_end && index2ket_iter.m_end <= M_O1->nnz)
__CPROVER_loop_invariant(!VERIF_thrown)
__CPROVER_loop_invariant((GHOST && index1 == (unsigned long)GI1 && index3 == (unsigned long)GI3)
   ? ((g_hits == 0 && index2bra_iter.m_id <= M_O2->gpos && index2ket_iter.m_id <= M_O1->gpos) ||
      (g_hits == g_expected && index2bra_iter.m_id > M_O2->gpos && index2ket_iter.m_id > M_O1->gpos))
   : g_hits == __CPROVER_loop_entry(g_hits))
__CPROVER_decreases((index2bra_iter.m_end - index2bra_iter.m_id) + (index2ket_iter.m_end - index2ket_iter.m_id))
//@loop 5
__CPROVER_assigns(p4, g_hits, g_at_ghost, VERIF_thrown, Index4List.last_at, Index4List.scratch,
   self->O1.elementsRowMajor.last_value_pos, self->O1.elementsRowMajor.last_value_outer,
   self->O2.elementsColMajor.last_value_pos, self->O2.elementsColMajor.last_value_outer,
   self->O3.elementsRowMajor.last_coeff_outer, self->O3.elementsRowMajor.last_coeff_inner,
   self->CX4.elementsColMajor.last_coeff_outer, self->CX4.elementsColMajor.last_coeff_inner)
__CPROVER_loop_invariant(p4 <= (unsigned long)Index4List.size && !VERIF_thrown)
__CPROVER_loop_invariant((GHOST && index1 == (unsigned long)GI1 && index3 == (unsigned long)GI3 && index2ket_iter.m_id == M_O1->gpos && index2bra_iter.m_id == M_O2->gpos)
   ? ((long)p4 <= Index4List.gpos ? g_hits == 0 : g_hits == g_expected)
   : g_hits == __CPROVER_loop_entry(g_hits))
__CPROVER_decreases((unsigned long)Index4List.size - p4)
//@end

void TwoParticleGFPart_addMultiterm(struct TwoParticleGFPart *self, cplx Coeff, double beta,
       double Ei, double Ej, double Ek, double El, double Wi, double Wj, double Wk, double Wl)
{
  SparseM *o1 = G_O1, *o2 = G_O2, *o3 = G_O3, *x4 = G_X4;
  long p1 = o1->last_value_pos, p2 = o2->last_value_pos;
  long i1 = o1->last_value_outer, i3 = o2->last_value_outer;
  __CPROVER_assert(0 <= p1 && p1 < o1->nnz && 0 <= p2 && p2 < o2->nnz, "C02: a multi-term is added only while both |2> iterators are on stored elements");
  __CPROVER_assert(o1->inner[p1] == o2->inner[p2], "C02: O1[1,2] is paired with O2[2,3] (coincident |2>)");
  long i2 = o1->inner[p1];
  long i4 = o3->last_coeff_inner;
  __CPROVER_assert(o3->last_coeff_outer == i3 && x4->last_coeff_outer == i1 && x4->last_coeff_inner == i4, "C02: O3[3,4] and CX4[4,1] are read for the same |4>, |3>, |1>");
  __CPROVER_assert(x4->last_ctor_outer == i1 && o3->last_ctor_outer == i3, "C02: |4> list was built for the current |1>, |3>");
  __CPROVER_assert(D_SAME(Ei, g_self->Hpart1.Eigenvalues.data[i1]) && D_SAME(Ej, g_self->Hpart2.Eigenvalues.data[i2]) &&
                   D_SAME(Ek, g_self->Hpart3.Eigenvalues.data[i3]) && D_SAME(El, g_self->Hpart4.Eigenvalues.data[i4]), "C02: energies (E1,E2,E3,E4) of the stripe, in order");
  __CPROVER_assert(D_SAME(Wi, g_self->DMpart1.weights.data[i1]) && D_SAME(Wj, g_self->DMpart2.weights.data[i2]) &&
                   D_SAME(Wk, g_self->DMpart3.weights.data[i3]) && D_SAME(Wl, g_self->DMpart4.weights.data[i4]), "C02: weights (w1,w2,w3,w4) of the stripe, in order");
  __CPROVER_assert(D_SAME(beta, g_self->DMpart1.beta), "C02: beta of the density matrix");
  __CPROVER_assert(D_GE(D_ADD(D_ADD(D_ADD(Wi, Wj), Wk), Wl), 1e-16), "C02: only stripes with w1+w2+w3+w4 >= 1e-16 contribute");
  if (o1->gpos >= 0 && x4->last_ctor_outer == x4->gouter && o3->last_ctor_outer == o3->gouter && p1 == o1->gpos && p2 == o2->gpos && g_at_ghost) { g_hits++; REACH("ghost_stripe"); }
  REACH("addMultiterm");
}

//@harness h_TPGFP_compute_once enforce=TwoParticleGFPart_compute replace=chaseIndices props=C02,C17 min_obl=5000 timeout=3600 reach=3 mem=40 tier=thorough
void h_TPGFP_compute_once(void)
{
  struct TwoParticleGFPart *p;
  TwoParticleGFPart_compute(p);
  REACH("exit");
}
