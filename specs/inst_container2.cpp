// Explicit instantiation of the templates of include/pomerol/IndexContainer2.h for the element/source types the
// library uses (GFContainer): IndexContainer2<...>::operator() is called only from user code (prog/, tests), so no
// library TU contains its compiler-generated body.  Nothing but the real headers is compiled here.
#include "pomerol/GFContainer.h"
template class Pomerol::IndexContainer2<Pomerol::GreensFunction, Pomerol::GFContainer>;
