/* Symmetrizer::QuantumNumbers (src/pomerol/Symmetrizer.cpp) and its use as the key of StatesClassification::QuantumToBlock  (C07:
 * "quantum numbers per Fock state -> block index (hash-compared)").
 *
 *   QuantumNumbers(int), set(pos,val), operator<, operator==, operator!=, Symmetrizer::getQuantumNumbers()
 *   StatesClassification::compute(): two states are in the same block  <=>  their QuantumNumbers are equivalent under pomerol's own
 *   operator<  (neither is less than the other) -- the map std::map<QuantumNumbers,BlockNumber> is modelled as a ghost-key map whose
 *   key comparison IS the extracted operator<.
 *
 * NAMED HYPOTHESIS  H_qn : distinct quantum-number vectors have distinct boost::hash values (boost::hash<std::vector<MelemType>> is
 *   injective on the vectors that occur).  Nothing proves it; pomerol compares QuantumNumbers by their hash only.  It appears below ONLY
 *   as a `requires` of the statements that speak about the VECTORS ("equivalent <=> equal numbers"); every statement about blocks is in
 *   terms of operator< and does not need it.  A hash collision merges two sectors: the partition stays a partition (h_SC_compute, states.c)
 *   but the block is no longer a symmetry sector (C07 clause "no matrix element between blocks" is unaffected, "maps a block into at most
 *   one block" is not).
 */
#include "../stubs/common.h"
#include "../stubs/bitset.h"
//@include types_common.inc
//@type std::vector<(Pomerol::)?MelemType>|std::vector<double(, std::allocator<double> ?)?> => NumVec ptr
//@type boost::hash<std::vector<(Pomerol::)?MelemType> ?>|boost::hash<std::vector<double(, std::allocator<double> ?)?> ?> => HashGen ptr
//@type std::size_t => unsigned long scalar
//@record Pomerol::Symmetrizer::QuantumNumbers => QN ptr
//@record Pomerol::BlockNumber => BlockNumber val
//@type (boost::)?dynamic_bitset<(unsigned long, std::allocator<unsigned long> ?)?>|(boost::)?dynamic_bitset<Block, Allocator>|(Pomerol::)?FockState => Bitset val
//@type std::vector<(Pomerol::)?BlockNumber.*> => VecBN ptr
//@type std::vector<std::vector<(Pomerol::)?FockState.*|std::vector<std::vector<boost::dynamic_bitset<.*> => VecVecFS ptr
//@type std::vector<(Pomerol::)?FockState>|std::vector<boost::dynamic_bitset<[^:]*>(, std::allocator<boost::dynamic_bitset<[^:]*> ?>)?> => VecFS ptr
//@type boost::shared_ptr<(Pomerol::)?Operator> => OpPtr val
//@type std::vector<boost::shared_ptr<(Pomerol::)?Operator>.*> => VecOpPtr ptr
//@type std::map<(Pomerol::)?(Symmetrizer::)?QuantumNumbers, (Pomerol::)?BlockNumber>::iterator|std::_Rb_tree_iterator<std::pair<const Pomerol::Symmetrizer::QuantumNumbers, Pomerol::BlockNumber> ?> => MapQBIt val
//@type std::map<(Pomerol::)?(Symmetrizer::)?QuantumNumbers, (Pomerol::)?BlockNumber.*> => MapQB ptr
//@type std::map<(Pomerol::)?BlockNumber, (Pomerol::)?(Symmetrizer::)?QuantumNumbers.*> => MapBQ ptr
//@type std::pair<(Pomerol::)?BlockNumber, (Pomerol::)?(Symmetrizer::)?QuantumNumbers> => PairBQ val
//@tu src/pomerol/Symmetrizer.cpp
//@enum ComputableObject::

/* ---- std::vector<MelemType> numbers: an ABSTRACT VALUE.  `vid` names the mathematical value of the whole vector (length and all entries);
 * value constructors are uninterpreted functions:  ZEROVEC(n) = n zero entries,  UPD(v, pos, x) = v with entry pos replaced by x.
 * Congruence is all that is used: equal construction histories give equal values.  operator[] hands out a cell; the store through it is
 * folded into the value by the next reader (flush).  ASSERTED: operator[] inside the vector (unchecked in libstdc++ under NDEBUG). */
unsigned long __CPROVER_uninterpreted_zerovec(unsigned long n);
unsigned long __CPROVER_uninterpreted_upd(unsigned long vid, unsigned long pos, unsigned long bits);
unsigned long __CPROVER_uninterpreted_vechash(unsigned long vid);
#define ZEROVEC(n) __CPROVER_uninterpreted_zerovec(n)
#define UPD(v, p, x) __CPROVER_uninterpreted_upd((v), (p), d_bits(x))
#define VECHASH(v) __CPROVER_uninterpreted_vechash(v)
double __CPROVER_uninterpreted_elem(unsigned long vid, unsigned long pos);
#define ELEM(v, p) __CPROVER_uninterpreted_elem((v), (p))
typedef struct NumVec { unsigned long size, vid; _Bool pending; unsigned long ppos; double cell; } NumVec;
typedef struct HashGen { char stateless; } HashGen;       /* boost::hash<T>: an empty function object */
static inline HashGen HashGen_ctor0(void) { HashGen g; g.stateless = 0; return g; }
#define NV_MAX 1000000UL
static inline NumVec NumVec_ctor1(unsigned long n) { NumVec v; v.size = n; v.vid = ZEROVEC(n); v.pending = 0; v.ppos = 0; v.cell = 0.0; return v; }
static inline unsigned long NumVec_value(NumVec *v) { return v->pending ? UPD(v->vid, v->ppos, v->cell) : v->vid; }
static inline double *NumVec_at(NumVec *v, unsigned long pos)
{
  __CPROVER_assert(pos < v->size, "std::vector<MelemType>::operator[]: index inside the vector");
  _Bool same = v->pending && v->ppos == pos;
  if (v->pending) { v->vid = UPD(v->vid, v->ppos, v->cell); }
  /* a READ through the cell sees entry `pos` of the value: an uninterpreted function ELEM(value, pos) (nothing else is known about it),
   * unless the cell already holds that entry (vocabulary for code that reads the numbers; the current code only stores) */
  if (!same) v->cell = ELEM(v->vid, pos);
  v->pending = 1; v->ppos = pos;
  return &v->cell;
}
static inline unsigned long NumVec_size(NumVec *v) { return v->size; }
/* boost::hash<std::vector<MelemType>>::operator()(v): a FUNCTION of the vector's value (hash_range over the entries) */
static inline unsigned long HashGen_call(HashGen *g, NumVec *v) { (void)g; return VECHASH(NumVec_value(v)); }

typedef struct QN QN;
//@struct Pomerol::Symmetrizer::QuantumNumbers
/* CLASS INVARIANT of QuantumNumbers: as many numbers as `amount`; the stored hash is the hash of the stored numbers */
static inline _Bool QN_inv(QN q) { return q.amount >= 0 && q.numbers.size == (unsigned long)q.amount && q.NumbersHash == VECHASH(NumVec_value(&q.numbers)); }

//@function Pomerol::Symmetrizer::QuantumNumbers::QuantumNumbers(int) as QN_ctor1
//@contract
/* std::vector<MelemType>(amount) with a negative amount is std::length_error / bad_alloc: the caller's obligation */
__CPROVER_requires(__CPROVER_is_fresh(self, sizeof(*self)) && 0 <= amount && (unsigned long)amount <= NV_MAX)
__CPROVER_assigns(*self)
__CPROVER_ensures(self->amount == amount && QN_inv(*self) && NumVec_value(&self->numbers) == ZEROVEC((unsigned long)amount))
//@end
//@harness h_QN_ctor enforce=QN_init1 props=C07 min_obl=97 reach=1 timeout=60
void h_QN_ctor(void) { QN *q; int n; QN_init1(q, n); REACH("exit"); }

/* set(pos, val)  (Symmetrizer.h: "Set a quantum number at the given position to a value"): for 0 <= pos < amount the number is stored, the
 * hash is recomputed from the numbers (class invariant kept) and true is returned; for pos >= amount nothing changes and false is returned.
 * pos < 0 is NOT rejected by the code (`if (pos<amount)`): numbers[pos] would be written outside the vector -- the caller's obligation
 * (requires); the only caller, StatesClassification::compute, passes 0 <= n < NOperations == amount (checked there). */
unsigned long g_oldv, g_oldh;
//@function Pomerol::Symmetrizer::QuantumNumbers::set(int, double) as QN_set
//@contract
__CPROVER_requires(__CPROVER_is_fresh(self, sizeof(*self)) && QN_inv(*self) && (unsigned long)self->amount <= NV_MAX && pos >= 0)
__CPROVER_requires(g_oldv == NumVec_value(&self->numbers) && g_oldh == self->NumbersHash)
__CPROVER_assigns(self->numbers, self->NumbersHash)
__CPROVER_ensures(__CPROVER_return_value == (pos < self->amount) && QN_inv(*self))
__CPROVER_ensures(pos < self->amount ==> NumVec_value(&self->numbers) == UPD(g_oldv, (unsigned long)pos, val))
__CPROVER_ensures(pos >= self->amount ==> (NumVec_value(&self->numbers) == g_oldv && self->NumbersHash == g_oldh))
//@end
//@harness h_QN_set enforce=QN_set props=C07 min_obl=200 reach=2 timeout=60
void h_QN_set(void) { QN *q; int pos; double val; _Bool r = QN_set(q, pos, val); if (r) REACH("stored"); else REACH("rejected"); }

/* operator<, operator!= : pomerol compares the HASHES only (pins; no hypothesis).
 * operator== : under the class invariant and H_qn (requires) it decides equality of the quantum-number VECTORS. */
#define H_QN(a, b) (NumVec_value(&(a).numbers) == NumVec_value(&(b).numbers) || VECHASH(NumVec_value(&(a).numbers)) != VECHASH(NumVec_value(&(b).numbers)))
//@function Pomerol::Symmetrizer::QuantumNumbers::operator<(Pomerol::Symmetrizer::QuantumNumbers const&) const as QN_lt
//@contract
__CPROVER_requires(__CPROVER_is_fresh(self, sizeof(*self)) && __CPROVER_is_fresh(rhs, sizeof(*rhs)))
__CPROVER_assigns()
__CPROVER_ensures(__CPROVER_return_value == (self->NumbersHash < rhs->NumbersHash))
//@end
//@function Pomerol::Symmetrizer::QuantumNumbers::operator!=(Pomerol::Symmetrizer::QuantumNumbers const&) const as QN_ne
//@contract
__CPROVER_requires(__CPROVER_is_fresh(self, sizeof(*self)) && __CPROVER_is_fresh(rhs, sizeof(*rhs)))
__CPROVER_assigns()
__CPROVER_ensures(__CPROVER_return_value == (self->NumbersHash != rhs->NumbersHash))
//@end
//@function Pomerol::Symmetrizer::QuantumNumbers::operator==(Pomerol::Symmetrizer::QuantumNumbers const&) const as QN_eq
//@contract
__CPROVER_requires(__CPROVER_is_fresh(self, sizeof(*self)) && __CPROVER_is_fresh(rhs, sizeof(*rhs)) && QN_inv(*self) && QN_inv(*rhs))
/* H_qn for this pair */
__CPROVER_requires(H_QN(*self, *rhs))
__CPROVER_assigns()
__CPROVER_ensures(__CPROVER_return_value == (self->NumbersHash == rhs->NumbersHash))
__CPROVER_ensures(__CPROVER_return_value == (NumVec_value(&self->numbers) == NumVec_value(&rhs->numbers)))
//@end
//@harness h_QN_lt enforce=QN_lt props=C07 min_obl=45 reach=1 timeout=60
void h_QN_lt(void) { QN *a, *b; QN_lt(a, b); REACH("exit"); }
//@harness h_QN_ne enforce=QN_ne props=C07 min_obl=45 reach=1 timeout=60
void h_QN_ne(void) { QN *a, *b; QN_ne(a, b); REACH("exit"); }
//@harness h_QN_eq enforce=QN_eq props=C07 min_obl=87 reach=2 timeout=60
void h_QN_eq(void) { QN *a, *b; _Bool r = QN_eq(a, b); if (r) REACH("equal"); else REACH("different"); }

/* operator< is a STRICT WEAK ORDERING (the requirement of std::map on its comparator), and ==, != agree with the equivalence it induces:
 * the three extracted bodies run on three arbitrary QuantumNumbers objects (no hypothesis, no invariant needed). */
//@harness h_QN_order enforce=none props=C07 min_obl=46 reach=1 timeout=60
void h_QN_order(void)
{
  QN a, b, c;
  _Bool ab = QN_lt(&a, &b), ba = QN_lt(&b, &a), bc = QN_lt(&b, &c), cb = QN_lt(&c, &b), ac = QN_lt(&a, &c), ca = QN_lt(&c, &a);
  __CPROVER_assert(!QN_lt(&a, &a), "C07: operator< is irreflexive");
  __CPROVER_assert(!(ab && ba), "C07: operator< is asymmetric");
  __CPROVER_assert(!(ab && bc) || ac, "C07: operator< is transitive");
  __CPROVER_assert(!((!ab && !ba) && (!bc && !cb)) || (!ac && !ca), "C07: the equivalence induced by operator< is transitive");
  __CPROVER_assert(QN_eq(&a, &b) == (!ab && !ba), "C07: operator== is the equivalence induced by operator<");
  __CPROVER_assert(QN_ne(&a, &b) == !QN_eq(&a, &b), "C07: operator!= is the negation of operator==");
  REACH("exit");
}

/* Symmetrizer::getQuantumNumbers()  ("Get a sample QuantumNumbers. Their amount is set."): NSymmetries zero entries, class invariant.
 * TYPE INVARIANT of Symmetrizer (symm.c: NSymmetries == Operations.size() >= 0). */
struct Operator;
typedef struct OpPtr { struct Operator *p; } OpPtr;
/* ghost-element model: the operation at ONE arbitrary position gidx is the object gop; every other position yields `scratch` */
typedef struct VecOpPtr { unsigned long size; OpPtr scratch; unsigned long gidx; OpPtr gop; } VecOpPtr;
//@struct Pomerol::Symmetrizer only=NSymmetries,Operations
//@function Pomerol::Symmetrizer::getQuantumNumbers() const as Symmetrizer_getQuantumNumbers
//@contract
__CPROVER_requires(__CPROVER_is_fresh(self, sizeof(*self)) && 0 <= self->NSymmetries && (unsigned long)self->NSymmetries <= NV_MAX)
__CPROVER_assigns()
__CPROVER_ensures(__CPROVER_return_value.amount == self->NSymmetries && QN_inv(__CPROVER_return_value) &&
                  NumVec_value(&__CPROVER_return_value.numbers) == ZEROVEC((unsigned long)self->NSymmetries))
//@end
//@harness h_getQuantumNumbers enforce=Symmetrizer_getQuantumNumbers props=C07 min_obl=111 reach=1 timeout=60
void h_getQuantumNumbers(void) { struct Symmetrizer *s; QN q = Symmetrizer_getQuantumNumbers(s); REACH("exit"); }

/* =====================================================================================================================
 * StatesClassification::compute(): the block of a state is decided by pomerol's own operator< on QuantumNumbers.
 *   For two ARBITRARY states s, t:   StateBlockIndex[s] == StateBlockIndex[t]   <=>   !(Q(s) < Q(t)) && !(Q(t) < Q(s)),
 *   Q(u) = the QuantumNumbers object compute() builds for u (getQuantumNumbers() + one set() per symmetry operation), `<` = the EXTRACTED
 *   Symmetrizer::QuantumNumbers::operator< above.  (The partition bookkeeping itself -- valid block, appended exactly once -- is h_SC_compute
 *   in states.c; with H_qn and the contract of operator== above, the right-hand side means "equal quantum-number vectors".)
 *
 * std::map<QuantumNumbers,BlockNumber> QuantumToBlock: GHOST-KEY model keyed by the extracted comparator.  ONE ghost key K; a look-up key k
 * addresses the ghost entry iff k and K are equivalent under operator< (ASSUMED: std::map contract -- find/operator[] locate the element
 * whose key is equivalent to the argument under the map's comparator, which must be a strict weak ordering: h_QN_order).  Other keys: present
 * or not arbitrarily (nothing is found in an empty map); their values obey the INVARIANT "the value stored for the k-th inserted key is k"
 * (CHECKED by the monitor at every store, as in states.c): 0 <= value < size, and different from the ghost entry's value (distinct keys have
 * distinct ordinals).
 *
 * Callee contracts used here (proved above): getQuantumNumbers() -> amount == NSymmetries, the hash of the zero vector (g_h0);
 * set(n, v) with 0 <= n < amount (ASSERTED) stores v and recomputes the hash from the numbers.  The numbers after the LAST set for state u are
 * a function of u (the matrix elements <u|Op_n|u> are), hence so is the hash: ORACLE g_qhs[u].  Hashes in between are arbitrary.
 * ===================================================================================================================== */
//@tu src/pomerol/StatesClassification.cpp
typedef struct BlockNumber BlockNumber;
//@struct Pomerol::BlockNumber
#define VEC_MAXLEN (1UL << 40)
#define SYM_MAX 1000000UL
/* std::vector<BlockNumber> StateBlockIndex: TWO ghost indices (the states s and t) */
typedef struct VecBN { unsigned long size; unsigned long gidx, gidx2; BlockNumber gval, gval2; } VecBN;
static inline void VecBN_push_back(VecBN *v, BlockNumber b) { if (v->size == v->gidx) v->gval = b; if (v->size == v->gidx2) v->gval2 = b; v->size++; }
/* StatesContainer: only its number of blocks matters here (ASSERTED: operator[] inside) */
typedef struct VecFS { unsigned long size; } VecFS;
typedef struct VecVecFS { unsigned long size; VecFS scratch; } VecVecFS;
static inline VecFS *VecVecFS_at(VecVecFS *v, unsigned long i)
{ __CPROVER_assert(i < v->size, "vector<vector<FockState>>::operator[]: index < size()"); return &v->scratch; }
static inline VecFS VecFS_ctor1(unsigned long n) { VecFS v; v.size = n; return v; }
static inline void VecVecFS_push_back(VecVecFS *v, VecFS x) { (void)x; v->size++; }
static inline void VecFS_push_back(VecFS *v, Bitset state) { (void)v; (void)state; }
struct IndexClassification { unsigned int IndexSize; };
static inline unsigned int IndexClassification_getIndexSize(struct IndexClassification *ic) { return ic->IndexSize; }
static inline unsigned long VecOpPtr_size(VecOpPtr *v) { return v->size; }
static inline OpPtr *VecOpPtr_at(VecOpPtr *v, unsigned long i)
{ __CPROVER_assert(i < v->size, "vector<shared_ptr<Operator>>::operator[]: index < size()"); return i == v->gidx ? &v->gop : &v->scratch; }
static inline struct Operator *OpPtr_arrow(OpPtr *s) { return s->p; }
static inline VecOpPtr *Symmetrizer_getOperations(struct Symmetrizer *sy) { return &sy->Operations; }
/* the hash oracle */
unsigned long g_qhs[__CPROVER_constant_infinity_uint];   /* hash of Q(u) for a state u when there is at least one symmetry operation */
unsigned long g_h0;                                       /* hash of the zero-length / freshly constructed QuantumNumbers */
unsigned long g_cur_state; int g_nops;                    /* the state being classified; the number of symmetry operations */
/* the ghost PAIR (operation m, state v) -- both arbitrary -- and the ORACLE value <v|Op_m|v> (any value) */
struct Operator *g_mop; unsigned long g_mopn; unsigned long g_mstate; double g_melem;
/* virtual Operator::getMatrixElement(bra, ket): ORACLE, any value; for the ghost pair THE value g_melem */
static inline double Operator_getMatrixElement(struct Operator *o, Bitset bra, Bitset ket)
{
  __CPROVER_assert(bra.w == ket.w && bra.size == ket.size, "C07: a quantum number is the DIAGONAL matrix element <u|Op|u>"); g_cur_state = ket.w;
  if (o == g_mop && ket.w == g_mstate) { REACH("melem@ghost-pair"); return g_melem; }
  return nondet_double();
}
//@rename QN_set => QNc_set
//@rename Symmetrizer_getQuantumNumbers => Symmc_getQuantumNumbers
static inline QN Symmc_getQuantumNumbers(struct Symmetrizer *sy)
{ QN q; q.amount = sy->NSymmetries; q.numbers.size = (unsigned long)sy->NSymmetries; q.numbers.pending = 0; q.NumbersHash = g_h0; return q; }
static inline _Bool QNc_set(QN *q, int pos, double val)
{
  /* "quantum numbers per Fock state": number n of state u is the matrix element <u|Op_n|u> itself (checked at the ghost pair: an arbitrary pair) */
  if (pos >= 0 && (unsigned long)pos == g_mopn && g_cur_state == g_mstate)
    __CPROVER_assert(D_SAME(val, g_melem), "C07: the n-th quantum number stored for a state u is the matrix element <u|Op_n|u> of the n-th symmetry operation");
  __CPROVER_assert(0 <= pos && pos < q->amount, "C07: set(n, value) addresses one of the `amount` numbers (otherwise the value is dropped / written outside the vector)");
  q->NumbersHash = (pos + 1 == g_nops) ? g_qhs[g_cur_state] : nondet_ulong();
  return 1;
}
#define QHS(u) (g_nops == 0 ? g_h0 : g_qhs[u])
/* equivalence of two QuantumNumbers under pomerol's operator< -- computed by the EXTRACTED operator< */
static inline _Bool QN_equiv(QN *a, QN *b) { return !QN_lt(a, b) && !QN_lt(b, a); }
static inline _Bool hash_equiv(unsigned long ha, unsigned long hb) { QN a, b; a.NumbersHash = ha; b.NumbersHash = hb; return QN_equiv(&a, &b); }

typedef struct MapQBEntry { BlockNumber second; } MapQBEntry;
typedef struct MapQB { unsigned long size; unsigned long gkey_hash; _Bool gpresent; BlockNumber gval; BlockNumber slot; MapQBEntry found; _Bool last_missing, last_ghost; } MapQB;
typedef struct MapQBIt { MapQB *m; int at_end; } MapQBIt;
typedef struct MapBQ { unsigned long size; } MapBQ;
typedef struct PairBQ { int unused; } PairBQ;
BlockNumber *g_qb_slot; unsigned long g_qb_expect;
static inline MapQBIt MapQB_find(MapQB *m, QN *key)
{
  MapQBIt it; it.m = m;
  QN K; K.NumbersHash = m->gkey_hash;
  if (QN_equiv(key, &K)) {
    it.at_end = m->gpresent ? 0 : 1; m->last_ghost = 1;
    if (m->gpresent) { m->found.second = m->gval; REACH("known-qn@ghost"); }
  } else {
    it.at_end = (m->size == 0) ? 1 : (nondet_bool() ? 1 : 0); m->last_ghost = 0;
    if (!it.at_end) {
      m->found.second.number = nondet_int();
      /* ASSUMED: the invariant checked at every store (ordinal of the key) */
      __CPROVER_assume(m->found.second.number >= 0 && (unsigned long)m->found.second.number < m->size);
      __CPROVER_assume(!m->gpresent || m->found.second.number != m->gval.number);
      REACH("known-qn");
    }
  }
  m->last_missing = it.at_end;
  return it;
}
#define MapQB_end(m_) ((MapQBIt){ (m_), 1 })
#define op_eq_MapQBIt_MapQBIt(a, b) ((a)->at_end == (b)->at_end)
static inline MapQBEntry *MapQBIt_arrow(MapQBIt *it)
{ __CPROVER_assert(!it->at_end, "map iterator dereferenced before end()"); return &it->m->found; }
static inline BlockNumber *MapQB_at(MapQB *m, QN *key)
{
  QN K; K.NumbersHash = m->gkey_hash;
  __CPROVER_assert(m->last_missing && m->last_ghost == QN_equiv(key, &K), "MODEL: operator[] is applied to the key that find() has just not found (it inserts)");
  g_qb_expect = m->size; m->size++;
  if (QN_equiv(key, &K)) { m->gpresent = 1; g_qb_slot = &m->gval; REACH("new-qn@ghost"); return &m->gval; }
  g_qb_slot = &m->slot; REACH("new-qn");
  return &m->slot;
}
static inline BlockNumber *BlockNumber_assign(BlockNumber *dst, BlockNumber src)
{
  if (dst == g_qb_slot)
    __CPROVER_assert(src.number >= 0 && (unsigned long)src.number == g_qb_expect, "C07: the block number stored for the k-th new quantum-number key is k");
  *dst = src;
  return dst;
}
#define make_pair_bq(a_, b_) ((PairBQ){ 0 })
//@free make_pair => make_pair_bq
static inline void MapBQ_insert(MapBQ *m, PairBQ p) { (void)p; m->size++; }
static inline BlockNumber BlockNumber_ctor1(int n) { BlockNumber b; b.number = n; return b; }
//@function Pomerol::BlockNumber::operator int() const as BlockNumber_conv_int
//@end
//@function Pomerol::BlockNumber::operator++(int) as BlockNumber_postinc_real
//@end
#define BlockNumber_postinc(b_) BlockNumber_postinc_real((b_), 0)

//@struct Pomerol::StatesClassification only=Status,StateSize,IndexSize,StatesContainer,StateBlockIndex,QuantumToBlock,BlockToQuantum,IndexInfo,Symm embed=IndexInfo,Symm
#define SBI (&self->StateBlockIndex)
#define SCN (&self->StatesContainer)
#define QTB (&self->QuantumToBlock)
unsigned long g_s, g_t; _Bool g_eqv;
#define QTB_GHOSTS self->QuantumToBlock.size, self->QuantumToBlock.gpresent, self->QuantumToBlock.gval, self->QuantumToBlock.slot, self->QuantumToBlock.found, \
                   self->QuantumToBlock.last_missing, self->QuantumToBlock.last_ghost
/* state u has been classified: its block index is a block; it is the ghost entry's block iff Q(u) ~ K */
#define CLASSIFIED(val, eqv) ((val).number >= 0 && (unsigned long)(val).number < QTB->size && \
                              ((eqv) ? (QTB->gpresent && (val).number == QTB->gval.number) : (!QTB->gpresent || (val).number != QTB->gval.number)))
//@function Pomerol::StatesClassification::compute() as SC_compute_qn
//@contract
__CPROVER_requires(__CPROVER_is_fresh(self, sizeof(*self)) && !VERIF_thrown)
__CPROVER_requires(self->Status < Computed ==> (SBI->size == 0 && SCN->size == 0 && QTB->size == 0 && !QTB->gpresent && self->BlockToQuantum.size == 0))
__CPROVER_requires(self->IndexInfo.IndexSize <= 30 && self->Symm.Operations.size <= SYM_MAX)
/* TYPE INVARIANT of Symmetrizer (symm.c): one accepted operation per symmetry */
__CPROVER_requires(self->Symm.NSymmetries >= 0 && (unsigned long)self->Symm.NSymmetries == self->Symm.Operations.size && g_nops == self->Symm.NSymmetries)
/* the ghost pair (operation, state) of the matrix-element oracle: the ghost operation is an object of its own */
__CPROVER_requires(g_mop == self->Symm.Operations.gop.p && g_mopn == self->Symm.Operations.gidx && self->Symm.Operations.gop.p != self->Symm.Operations.scratch.p)
/* the ghost pair (s, t); the ghost key of the map is Q(s) */
__CPROVER_requires(SBI->gidx == g_s && SBI->gidx2 == g_t && QTB->gkey_hash == QHS(g_s) && g_eqv == hash_equiv(QHS(g_t), QHS(g_s)))
__CPROVER_assigns(self->Status, self->IndexSize, self->StateSize, self->StateBlockIndex.size, self->StateBlockIndex.gval, self->StateBlockIndex.gval2, self->StatesContainer, QTB_GHOSTS,
                  self->BlockToQuantum, g_qb_slot, g_qb_expect, g_cur_state)
__CPROVER_ensures(!VERIF_thrown && self->Status >= Computed)
/* C07: s and t are in the same block  <=>  their QuantumNumbers are equivalent under pomerol's operator< */
__CPROVER_ensures((__CPROVER_old(self->Status) < Computed && g_s < self->StateSize && g_t < self->StateSize) ==>
                  ((SBI->gval.number == SBI->gval2.number) == hash_equiv(QHS(g_s), QHS(g_t))))
/* both block indices are blocks */
__CPROVER_ensures((__CPROVER_old(self->Status) < Computed && g_s < self->StateSize && g_t < self->StateSize) ==>
                  (SBI->gval.number >= 0 && (unsigned long)SBI->gval.number < SCN->size && SBI->gval2.number >= 0 && (unsigned long)SBI->gval2.number < SCN->size))
//@loop 1
__CPROVER_assigns(FockStateIndex, block_index, self->StateBlockIndex.size, self->StateBlockIndex.gval, self->StateBlockIndex.gval2, self->StatesContainer, QTB_GHOSTS,
                  self->BlockToQuantum, g_qb_slot, g_qb_expect, g_cur_state)
__CPROVER_loop_invariant(FockStateIndex <= self->StateSize && self->StateSize == (1UL << self->IndexSize) && self->IndexSize <= 30 && NOperations == g_nops && NOperations >= 0)
__CPROVER_loop_invariant(SBI->size == FockStateIndex && self->BlockToQuantum.size <= FockStateIndex)
__CPROVER_loop_invariant(block_index.number >= 0 && (unsigned long)block_index.number == SCN->size && SCN->size == QTB->size && SCN->size <= FockStateIndex)
__CPROVER_loop_invariant(!QTB->gpresent || (QTB->gval.number >= 0 && (unsigned long)QTB->gval.number < QTB->size))
__CPROVER_loop_invariant(g_s >= FockStateIndex || CLASSIFIED(SBI->gval, 1))
__CPROVER_loop_invariant(g_t >= FockStateIndex || CLASSIFIED(SBI->gval2, g_eqv))
__CPROVER_decreases(self->StateSize - FockStateIndex)
//@loop 2
__CPROVER_assigns(n, QNumbers.NumbersHash, g_cur_state)
__CPROVER_loop_invariant(0 <= n && n <= NOperations && QNumbers.amount == g_nops)
__CPROVER_loop_invariant(n == 0 ? QNumbers.NumbersHash == g_h0 : (n < NOperations || QNumbers.NumbersHash == g_qhs[FockStateIndex]))
__CPROVER_decreases(NOperations - n)
//@end
//@harness h_SC_compute_qn enforce=SC_compute_qn props=C07 min_obl=1340 reach=7 timeout=120
void h_SC_compute_qn(void)
{
  struct StatesClassification *p;
  SC_compute_qn(p);
  if (g_eqv) REACH("exit-equivalent"); else REACH("exit-not-equivalent");
}

/* ---- what is / is not proved; remarks; mutation record -------------------------------------------------------------------------------------
 * MODEL: std::vector<MelemType> is an abstract value (uninterpreted constructors ZEROVEC / UPD), boost::hash an uninterpreted function of it
 *   (VECHASH); real build (MelemType = double).  In compute() set()/getQuantumNumbers() are contract stubs (their contracts are proved above),
 *   the hash of the finished QuantumNumbers of a state is an oracle of the state (g_qhs), the symmetry operators' matrix elements are arbitrary.
 * H_qn is a `requires` of operator== only (h_QN_eq: "== decides equality of the vectors").  NOT proved anywhere: H_qn itself.
 * REMARKS (not reported as defects): (1) QuantumNumbers::set does not reject pos < 0 (`if (pos<amount)`): numbers[pos] would be written outside the
 *   vector; public method, its only caller passes 0 <= n < NOperations (asserted in h_SC_compute_qn).  (2) The constructor's initialiser list
 *   calls numbers_hash_generator(numbers) BEFORE that member is constructed (it is declared after NumbersHash; visible in the extracted body);
 *   boost::hash is an empty stateless class, so this is harmless.  (3) If NSymmetries != Operations.size() the quantum numbers beyond `amount`
 *   are silently dropped (set returns false, compute() ignores it): the equality is a type invariant of Symmetrizer (symm.c) and a requires here.
 *
 * MUTANTS (tools/try_mutant.py; all killed)
 *  Symmetrizer.cpp  operator<: `<` -> `<=`                     h_QN_order.assertion.1/.2/.5 (irreflexive, asymmetric, == is the induced equivalence); h_QN_lt postcondition.1;
 *                                                               h_SC_compute_qn loop_invariant_step.9 (s is not found under its own key)
 *                   operator<: compares `amount`                h_QN_lt postcondition.1
 *                   operator==: `return true`                   h_QN_eq postcondition.1/.2
 *                   operator==: compares `amount`               h_QN_order.assertion.5/.6
 *                   operator!=: `==`                            h_QN_ne postcondition.1
 *                   set: hash not recomputed                    h_QN_set postcondition.1 (class invariant)
 *                   set: `pos<=amount`                          h_QN_set postcondition.1/.3, NumVec_at.assertion.1 (write outside the vector)
 *                   set: numbers[0] = val                       h_QN_set postcondition.2
 *                   ctor: amount+1 numbers                      h_QN_ctor postcondition.1
 *                   getQuantumNumbers: NSymmetries+1            h_getQuantumNumbers postcondition.1
 *  StatesClassification.cpp (h_SC_compute_qn)
 *                   known key: push_back(block_index)           loop_invariant_step.9/.10
 *                   QNumbers.set(0,Value)                       loop_invariant_step.2/.4 (hash after the last set)
 *                   QuantumToBlock[QNumbers]=0                  BlockNumber_assign monitor, loop_invariant_step.9/.10
 *                   last symmetry operation skipped             loop_invariant_step.9/.10
 *                   off-diagonal matrix element                 Operator_getMatrixElement.assertion.1, loop_invariant_step.4
 *                   `if (true)` (always a new block)            MapQB_at.assertion.1, loop_invariant_step.9/.10
 */
