/* GFContainer::createElement / TwoParticleGFContainer::createElement -- "the value is the same whether it is read from a
 * stand-alone object or from the container of all components" (C01), "the container returns the same value as a two-particle
 * Green's function constructed directly for that quadruple" (C13): the element created for (i,j) [(i,j,k,l)] is constructed from
 * annihilation operator(s) i [i,j] and creation operator(s) j [k,l] of the operator container and from the container's own S, H, DM
 * -- i.e. it is the same computation as the stand-alone object. */
#include "../stubs/common.h"
//@tu src/pomerol/GFContainer.cpp
//@record Pomerol::IndexCombination2 => IndexCombination2 val
//@record Pomerol::IndexCombination4 => IndexCombination4 val
typedef struct IndexCombination2 IndexCombination2; typedef struct IndexCombination4 IndexCombination4;
//@struct Pomerol::IndexCombination2
//@struct Pomerol::IndexCombination4
struct StatesClassification { int id; }; struct Hamiltonian { int id; }; struct DensityMatrix { int id; };
struct AnnihilationOperator { unsigned int Index; }; struct CreationOperator { unsigned int Index; };
struct FieldOperatorContainer { struct AnnihilationOperator an[2]; struct CreationOperator cr[2]; unsigned int asked_a[2], asked_c[2]; unsigned n_a, n_c; };
/* operator container: returns THE annihilation / creation operator of the requested index (TRUSTED contract of
 * FieldOperatorContainer::get*Operator; it throws for an unknown index, which is not modelled) */
static inline struct AnnihilationOperator *FieldOperatorContainer_getAnnihilationOperator(struct FieldOperatorContainer *c, unsigned int i)
{ unsigned k = c->n_a < 2 ? c->n_a : 1; c->asked_a[k] = i; c->an[k].Index = i; c->n_a++; return &c->an[k]; }
static inline struct CreationOperator *FieldOperatorContainer_getCreationOperator(struct FieldOperatorContainer *c, unsigned int i)
{ unsigned k = c->n_c < 2 ? c->n_c : 1; c->asked_c[k] = i; c->cr[k].Index = i; c->n_c++; return &c->cr[k]; }
/* monitors of the element constructors */
struct GreensFunction { struct StatesClassification *S; struct Hamiltonian *H; struct AnnihilationOperator *C; struct CreationOperator *CX; struct DensityMatrix *DM; };
struct TwoParticleGF { struct StatesClassification *S; struct Hamiltonian *H; struct AnnihilationOperator *C1, *C2; struct CreationOperator *CX3, *CX4; struct DensityMatrix *DM; };
struct GreensFunction g_gf; struct TwoParticleGF g_tpgf; unsigned g_new;
unsigned int g_i1, g_i2, g_i3, g_i4;   /* indices of the operators handed to the element constructor (scalar copies) */
static inline struct GreensFunction *GreensFunction_new5(struct StatesClassification *S, struct Hamiltonian *H, struct AnnihilationOperator *C, struct CreationOperator *CX, struct DensityMatrix *DM)
{ g_gf.S = S; g_gf.H = H; g_gf.C = C; g_gf.CX = CX; g_gf.DM = DM; g_i1 = C->Index; g_i2 = CX->Index; g_new++; return &g_gf; }
static inline struct TwoParticleGF *TwoParticleGF_new7(struct StatesClassification *S, struct Hamiltonian *H, struct AnnihilationOperator *C1, struct AnnihilationOperator *C2,
                                                       struct CreationOperator *CX3, struct CreationOperator *CX4, struct DensityMatrix *DM)
{ g_tpgf.S = S; g_tpgf.H = H; g_tpgf.C1 = C1; g_tpgf.C2 = C2; g_tpgf.CX3 = CX3; g_tpgf.CX4 = CX4; g_tpgf.DM = DM; g_i1 = C1->Index; g_i2 = C2->Index; g_i3 = CX3->Index; g_i4 = CX4->Index; g_new++; return &g_tpgf; }
//@struct Pomerol::GFContainer only=S,H,DM,Operators embed=S,H,DM,Operators

//@function Pomerol::GFContainer::createElement(Pomerol::IndexCombination2 const&) const as GFContainer_createElement
//@contract
__CPROVER_requires(__CPROVER_is_fresh(self, sizeof(*self)) && self->Operators.n_a == 0 && self->Operators.n_c == 0 && g_new == 0)
__CPROVER_assigns(g_gf, g_new, g_i1, g_i2, self->Operators)
/* exactly one element, built from annihilation operator Index1 and creation operator Index2 and the container's S, H, DM */
__CPROVER_ensures(g_new == 1 && __CPROVER_return_value == &g_gf)
__CPROVER_ensures(g_i1 == Indices.Index1 && g_i2 == Indices.Index2)
__CPROVER_ensures(g_gf.S == &self->S && g_gf.H == &self->H && g_gf.DM == &self->DM)
//@end
//@harness h_GFContainer_createElement enforce=GFContainer_createElement props=C01 min_obl=129 reach=1 timeout=120
void h_GFContainer_createElement(void)
{
  struct GFContainer *c; IndexCombination2 ix;
  struct GreensFunction *g = GFContainer_createElement(c, ix);
  REACH("exit");
}

//@tu src/pomerol/TwoParticleGFContainer.cpp
//@struct Pomerol::TwoParticleGFContainer only=S,H,DM,Operators embed=S,H,DM,Operators
//@function Pomerol::TwoParticleGFContainer::createElement(Pomerol::IndexCombination4 const&) const as TwoParticleGFContainer_createElement
//@contract
__CPROVER_requires(__CPROVER_is_fresh(self, sizeof(*self)) && self->Operators.n_a == 0 && self->Operators.n_c == 0 && g_new == 0)
__CPROVER_assigns(g_tpgf, g_new, g_i1, g_i2, g_i3, g_i4, self->Operators)
__CPROVER_ensures(g_new == 1 && __CPROVER_return_value == &g_tpgf)
/* chi_ijkl = <T c_i c_j c^+_k c^+_l>: operators (c_i, c_j, c^+_k, c^+_l) in this order */
__CPROVER_ensures(g_i1 == Indices.Index1 && g_i2 == Indices.Index2 && g_i3 == Indices.Index3 && g_i4 == Indices.Index4)
__CPROVER_ensures(g_tpgf.C1 != g_tpgf.C2 && g_tpgf.CX3 != g_tpgf.CX4)
__CPROVER_ensures(g_tpgf.S == &self->S && g_tpgf.H == &self->H && g_tpgf.DM == &self->DM)
//@end
//@harness h_TPGFContainer_createElement enforce=TwoParticleGFContainer_createElement props=C13,C02 min_obl=146 reach=1 timeout=120
void h_TPGFContainer_createElement(void)
{
  struct TwoParticleGFContainer *c; IndexCombination4 ix;
  struct TwoParticleGF *g = TwoParticleGFContainer_createElement(c, ix);
  REACH("exit");
}
