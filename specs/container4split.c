/* C13 -- TwoParticleGFContainer::computeAll_split  (src/pomerol/TwoParticleGFContainer.cpp), PER-RANK SEQUENTIAL VIEW: what ONE rank
 * (rank r of a communicator of `size` ranks) does.  Nothing is said about the interplay of the ranks (matching of the collectives,
 * that all ranks of a colour take the same branch): that is the paper composition of the per-rank statements (DESIGN.md, C06/C16).
 *
 * SPEC ("after a bulk computation every element the container lists is evaluable"; computeAll_nosplit in specs/container4.c is the
 * reference: every stored element computed exactly once with the arguments of the bulk call).  n = number of stored elements
 * (NonTrivialElements), ncolors = min(size, n); element number i has colour ECOL(i) = i*ncolors/n, rank p has colour
 * PCOL(p) = int(1.0*p / (1.0*size/ncolors)) (formula pins).  For ONE arbitrary stored element (position g, key g_X) and ONE arbitrary
 * part gq of it:
 *   P1  the communicator is split once, with this rank's colour PCOL(r);
 *       compute(clearTerms, freqs, <the split communicator>) is called on the element exactly once if ECOL(g) == PCOL(r), never otherwise;
 *   P2  both term lists of part gq are broadcast exactly once, over the WORLD communicator, from sender = color_roots[ECOL(g)],
 *       a rank of the communicator; the frequency table is broadcast from the same root;
 *   P3  the returned table has an entry for g_X iff the element has at least one part; on the sender rank that computed the element
 *       it is the vector compute() returned;
 *   P4  on every rank other than the sender the element is marked Computed (if it has a part).
 * NOT PROVED: that the sender's colour is the element's colour (color_roots is filled by plain assignments; needs the floating-point
 * monotonicity of PCOL), and REMARKS 1-2 at the end. */
#include "../stubs/common.h"
//@include types_common.inc
//@record Pomerol::IndexCombination4 => IC4 val
//@type boost::shared_ptr<(Pomerol::)?TwoParticleGF> => GF2Ptr val
//@type std::pair<(const )?(Pomerol::)?IndexCombination4, boost::shared_ptr<(Pomerol::)?TwoParticleGF> ?> => NPair val
//@type (typename )?std::map<(Pomerol::)?IndexCombination4, boost::shared_ptr<(Pomerol::)?TwoParticleGF> ?(, .*)?>::iterator|std::_Rb_tree_iterator<std::pair<const (Pomerol::)?IndexCombination4, boost::shared_ptr<(Pomerol::)?TwoParticleGF> ?> ?> => NMapIt val
//@type std::map<(Pomerol::)?IndexCombination4, boost::shared_ptr<(Pomerol::)?TwoParticleGF>(, .*)?> => NMap ptr
//@type std::vector<boost::(tuples::)?tuple<std::complex<double>, std::complex<double>, std::complex<double>.*|std::vector<boost::(tuples::)?tuple<(Pomerol::)?ComplexType, (Pomerol::)?ComplexType, (Pomerol::)?ComplexType> ?> => FreqVec ptr
//@type std::vector<std::complex<double>(, std::allocator<std::complex<double> ?>)?>|std::vector<(Pomerol::)?ComplexType(, .*)?> => CVecOut ptr
//@type std::map<(Pomerol::)?IndexCombination4, std::vector<.*> => OutMap ptr
//@type std::map<int, int(, .*)?> => IntMap ptr
//@type boost::mpi::communicator => Comm ptr
//@type std::vector<(Pomerol::)?TwoParticleGFPart \*(, std::allocator<.*>)?> => PartVec ptr
//@type (Pomerol::)?TermList<(Pomerol::)?TwoParticleGFPart::NonResonantTerm> => TermListNR ptr
//@type (Pomerol::)?TermList<(Pomerol::)?TwoParticleGFPart::ResonantTerm> => TermListR ptr
//@tu src/pomerol/TwoParticleGFContainer.cpp
//@enum ComputableObject::
typedef struct IC4 IC4;
//@struct Pomerol::IndexCombination4
#define KEQ(a, b) ((a).Index1 == (b).Index1 && (a).Index2 == (b).Index2 && (a).Index3 == (b).Index3 && (a).Index4 == (b).Index4)
#define NMAX 1000000UL
/* ---- communicators (boost::mpi::communicator): identity + this rank's rank/size */
typedef struct Comm { long id; int rank_, size_; } Comm;
static inline int Comm_rank(Comm *c) { return c->rank_; }
static inline int Comm_size(Comm *c) { return c->size_; }
static inline void Comm_barrier(Comm *c) { (void)c; }
long g_world_id, g_split_id; unsigned long g_splits; int g_split_color;
static inline Comm Comm_split(Comm *c, int color)
{
  Comm r; r.id = g_split_id; r.size_ = nondet_int(); r.rank_ = nondet_int();
  __CPROVER_assume(1 <= r.size_ && r.size_ <= c->size_ && 0 <= r.rank_ && r.rank_ < r.size_);   /* ASSUMED: a sub-communicator */
  g_splits++; g_split_color = color;
  REACH("split");
  return r;
}
#define min(a_, b_) ((int[1]){ ((a_) < (b_) ? (a_) : (b_)) })        /* std::min(int,int): printed as (*min(a,b)) */
/* ---- std::map<int,int> (proc_colors, elem_colors, color_roots): GHOST-KEY views; operator[] value-initialises a missing entry.
 * The ghost keys are fixed by the harness: this rank, the ghost element's number, the ghost element's colour. */
typedef struct IntMap { int gkey; int gpresent; int gval; int scratch; } IntMap;
int g_next_intmap; int g_key_pc, g_key_ec, g_key_cr;
static inline IntMap IntMap_ctor0(void)
{ IntMap m; m.gpresent = 0; m.gval = 0; m.scratch = 0; m.gkey = g_next_intmap == 0 ? g_key_pc : g_next_intmap == 1 ? g_key_ec : g_key_cr; g_next_intmap++; return m; }
static inline int *IntMap_at_v(IntMap *m, int k)
{
  if (k == m->gkey) { if (!m->gpresent) { m->gpresent = 1; m->gval = 0; } return &m->gval; }
  m->scratch = nondet_int(); return &m->scratch;
}
static inline int *IntMap_at_p(IntMap *m, int *k) { return IntMap_at_v(m, *k); }
#define IntMap_at(m_, k_) _Generic((k_), int: IntMap_at_v, int *: IntMap_at_p)((m_), (k_))

/* ---- the elements.  NonTrivialElements is VISITED in key order (TRUSTED iteration view: every entry once; the map is not modified):
 * n entries; the entry at position g is the ghost one (key g_X, element g_gel), any other position: another key, element g_oel. */
typedef struct TermListNR { unsigned long n_bcast; int root; long comm_id; } TermListNR;
typedef struct TermListR { unsigned long n_bcast; int root; long comm_id; } TermListR;
//@struct Pomerol::TwoParticleGFPart only=NonResonantTerms,ResonantTerms
typedef struct PartVec { unsigned long n; } PartVec;
//@struct Pomerol::TwoParticleGF only=Status,parts
struct ComputableObject { unsigned int Status; };
static inline void ComputableObject_setStatus(struct ComputableObject *o, unsigned int s) { o->Status = s; REACH("setStatus"); }
struct TwoParticleGF g_gel, g_oel;
struct TwoParticleGFPart g_part; struct TwoParticleGFPart *g_part_p;      /* the part object is never inspected: broadcasts are counted in scalars */
int g_cur_ghost_part;                 /* the part selected last is part gq of the ghost element */
unsigned long g_nr_bcasts, g_r_bcasts;     /* broadcasts of the two term lists of the ghost part */
unsigned long g_g, g_gq; IC4 g_X;
typedef struct GF2Ptr { struct TwoParticleGF *p; } GF2Ptr;
typedef struct NPair { IC4 first; GF2Ptr second; } NPair;
typedef struct NMap { unsigned long n; NPair cur; } NMap;
typedef struct NMapIt { NMap *m; unsigned long idx; } NMapIt;
static inline unsigned long NMap_size(NMap *m) { return m->n; }
IC4 nondet_ic4(void);
unsigned long g_cur_elem;             /* number of the element under the iterator */
static inline void nmap_load(NMap *m, unsigned long idx)
{
  g_cur_elem = idx;
  if (idx == g_g) { m->cur.first = g_X; m->cur.second.p = &g_gel; }
  else { m->cur.first = nondet_ic4(); __CPROVER_assume(!KEQ(m->cur.first, g_X)); /* ASSUMED (std::map): keys are pairwise different */
         m->cur.second.p = &g_oel; g_oel.Status = nondet_uint(); g_oel.parts.n = nondet_ulong(); __CPROVER_assume(g_oel.parts.n <= NMAX); }
}
unsigned int nondet_uint(void);
static inline NMapIt NMap_begin(NMap *m) { NMapIt it; it.m = m; it.idx = 0; nmap_load(m, 0); return it; }
#define NMap_end(m_) ((NMapIt){ (m_), (m_)->n })
#define op_ne_NMapIt_NMapIt(a, b) ((a)->idx != (b)->idx)
static inline void NMapIt_postinc(NMapIt *it) { it->idx++; nmap_load(it->m, it->idx); }
static inline NPair *NMapIt_arrow(NMapIt *it)
{ __CPROVER_assert(it->idx < it->m->n, "map<IndexCombination4, shared_ptr<TwoParticleGF>>::iterator dereferenced before end()"); return &it->m->cur; }
static inline struct TwoParticleGF *GF2Ptr_mul(GF2Ptr *s) { return s->p; }
static inline unsigned long PartVec_size(PartVec *v) { return v->n; }
static inline struct TwoParticleGFPart **PartVec_at_fn(unsigned long n, int of_ghost_element, unsigned long p)
{
  __CPROVER_assert(p < n, "vector<TwoParticleGFPart*>::operator[]: index < size()");
  g_cur_ghost_part = (of_ghost_element && p == g_gq) ? 1 : 0;
  return &g_part_p;
}
/* (a macro: the size is read at the call site, not through a pointer parameter -- CBMC 6.11 lost the value of parts.n behind the
 * pointer after the loop instrumentation had havocked the neighbouring member Status) */
#define PartVec_at(v_, p_) PartVec_at_fn((v_)->n, (v_) == &g_gel.parts, (p_))
/* ---- the tables: std::map<IndexCombination4, std::vector<ComplexType>>, ghost key g_X; a vector = its identity */
typedef struct FreqVec { long id; } FreqVec;
typedef struct CVecOut { unsigned long id; } CVecOut;
typedef struct OutMap { int gpresent; CVecOut g; CVecOut other; } OutMap;
static inline OutMap OutMap_ctor0(void) { OutMap m; m.gpresent = 0; m.g.id = 0; m.other.id = 0; return m; }
static inline CVecOut CVecOut_ctor0(void) { CVecOut v; v.id = 0; return v; }       /* the empty vector: identity 0 */
#define CVecOut_assign(d_, s_) (*(d_) = *(s_))
static inline CVecOut *OutMap_at(OutMap *m, IC4 *k)
{
  if (KEQ(*k, g_X)) { if (!m->gpresent) { m->gpresent = 1; m->g.id = 0; } return &m->g; }
  m->other.id = nondet_ulong(); return &m->other;
}
/* ---- MONITOR TwoParticleGF::compute(clear, freqs, comm) */
_Bool g_clear; long g_freqs_id;
unsigned long g_comp_hits, g_comp_seq, g_gres;
static inline CVecOut TwoParticleGF_compute_fn(struct TwoParticleGF *e, _Bool clear, FreqVec *freqs, Comm *c)
{
  __CPROVER_assert(clear == g_clear && freqs->id == g_freqs_id, "C13: every element is computed with the arguments of the bulk call");
  __CPROVER_assert(c->id == g_split_id && g_splits == 1, "C13: an element is computed on the communicator of its colour (the split one)");
  CVecOut r; g_comp_seq++; r.id = g_comp_seq;
  if (e == &g_gel) { g_comp_hits++; g_gres = r.id; REACH("compute_ghost"); }
  e->Status = Computed;
  return r;
}
#define TwoParticleGF_compute(e_, cl_, f_, c_) (((CVecOut[1]){ TwoParticleGF_compute_fn((e_), (cl_), (f_), (c_)) })[0])
/* ---- MONITORS boost::mpi::broadcast(comm, value, root) */
int g_sender; int g_have_sender;      /* the root used for the ghost element (recorded at its first broadcast) */
unsigned long g_fd_bcasts;            /* broadcasts of the frequency table while the ghost element is distributed */
static inline void bcast_check(Comm *c, int root)
{
  __CPROVER_assert(c->id == g_world_id, "C13: the results are distributed over the whole communicator");
  if (g_cur_elem == g_g) {
    __CPROVER_assert(0 <= root && root < c->size_, "C13/C17: the broadcast root is a rank of the communicator");
    if (!g_have_sender) { g_have_sender = 1; g_sender = root; }
    __CPROVER_assert(root == g_sender, "C13: all data of one element come from the same root");
  }
}
static inline void broadcast_nr(Comm *c, TermListNR *t, int root) { (void)t; bcast_check(c, root); if (g_cur_ghost_part) g_nr_bcasts++; }
static inline void broadcast_r(Comm *c, TermListR *t, int root) { (void)t; bcast_check(c, root); if (g_cur_ghost_part) g_r_bcasts++; }
static inline void broadcast_v(Comm *c, CVecOut *v, int root)
{ bcast_check(c, root); if (c->rank_ != root) v->id = nondet_ulong(); if (g_cur_elem == g_g) g_fd_bcasts++; }
#define broadcast(c_, v_, r_) _Generic((v_), TermListNR *: broadcast_nr, TermListR *: broadcast_r, CVecOut *: broadcast_v)((c_), (v_), (r_))
//@struct Pomerol::TwoParticleGFContainer only=NonTrivialElements

#define NTE (&self->NonTrivialElements)
#define SPEC_NCOLORS(size_, n_) ((unsigned long)((int)(size_) < (int)(n_) ? (int)(size_) : (int)(n_)))
int g_pcol, g_ecol; _Bool g_calc;      /* PCOL(r), ECOL(g), ECOL(g) == PCOL(r)  (spec values, fixed in the requires) */
unsigned int g_old_status;
#define HAS_GHOST (g_g < NTE->n)
#define DONE_PARTS(k) /* after k parts of the ghost element have been distributed */ \
   (g_nr_bcasts == ((k) > g_gq ? 1UL : 0UL) && g_r_bcasts == ((k) > g_gq ? 1UL : 0UL) && g_fd_bcasts == (k) && \
    ((k) > 0 ==> (g_have_sender && 0 <= g_sender && g_sender < comm->size_)))
//@function Pomerol::TwoParticleGFContainer::computeAll_split(bool, std::vector<boost::tuples::tuple<std::complex<double>, std::complex<double>, std::complex<double>, boost::tuples::null_type, boost::tuples::null_type, boost::tuples::null_type, boost::tuples::null_type, boost::tuples::null_type, boost::tuples::null_type, boost::tuples::null_type>, std::allocator<boost::tuples::tuple<std::complex<double>, std::complex<double>, std::complex<double>, boost::tuples::null_type, boost::tuples::null_type, boost::tuples::null_type, boost::tuples::null_type, boost::tuples::null_type, boost::tuples::null_type, boost::tuples::null_type> > > const&, boost::mpi::communicator const&) as TPGFC_computeAll_split
//@contract
__CPROVER_requires(__CPROVER_is_fresh(self, sizeof(*self)) && __CPROVER_is_fresh(freqs, sizeof(*freqs)) && __CPROVER_is_fresh(comm, sizeof(*comm)))
__CPROVER_requires(NTE->n <= NMAX && 1 <= comm->size_ && comm->size_ <= (int)NMAX && 0 <= comm->rank_ && comm->rank_ < comm->size_)
__CPROVER_requires(comm->id == g_world_id && g_split_id != g_world_id && g_splits == 0 && g_clear == clearTerms && g_freqs_id == freqs->id)
__CPROVER_requires(g_g <= NMAX && g_gq < NMAX && g_gel.parts.n <= NMAX && g_part_p == &g_part)
__CPROVER_requires(g_comp_hits == 0 && g_fd_bcasts == 0 && g_have_sender == 0 && g_nr_bcasts == 0 && g_r_bcasts == 0)
/* ghost keys of the three int maps, and the spec colours */
__CPROVER_requires(g_next_intmap == 0 && g_key_pc == comm->rank_ && g_key_ec == (int)g_g && g_key_cr == g_ecol)
__CPROVER_requires(HAS_GHOST ==> g_ecol == (int)((g_g * SPEC_NCOLORS(comm->size_, NTE->n)) / NTE->n))
__CPROVER_requires(g_pcol == (int)D_DIV(D_MUL(1.0, (double)(unsigned long)comm->rank_), D_DIV(D_MUL(1.0, (double)comm->size_), (double)SPEC_NCOLORS(comm->size_, NTE->n))))
__CPROVER_requires(g_calc == (g_ecol == g_pcol) && g_old_status == g_gel.Status)
__CPROVER_assigns(self->NonTrivialElements.cur, g_splits, g_split_color, g_next_intmap, g_gel.Status, g_oel, g_cur_ghost_part, g_nr_bcasts, g_r_bcasts, g_comp_hits, g_comp_seq, g_gres,
                  g_sender, g_have_sender, g_fd_bcasts, g_cur_elem)
/* P1 */
__CPROVER_ensures(g_splits == 1 && g_split_color == g_pcol)
__CPROVER_ensures(g_comp_hits == ((HAS_GHOST && g_calc) ? 1UL : 0UL))
/* P2 */
__CPROVER_ensures(HAS_GHOST ==> DONE_PARTS(g_gel.parts.n))
__CPROVER_ensures(!HAS_GHOST ==> (g_nr_bcasts == 0 && g_r_bcasts == 0 && g_fd_bcasts == 0))
/* P3 */
__CPROVER_ensures(__CPROVER_return_value.gpresent == ((HAS_GHOST && g_gel.parts.n > 0) ? 1 : 0))
__CPROVER_ensures((HAS_GHOST && g_gel.parts.n > 0 && comm->rank_ == g_sender && g_calc) ==> __CPROVER_return_value.g.id == g_gres)
/* P4 */
__CPROVER_ensures((HAS_GHOST && g_gel.parts.n > 0 && comm->rank_ != g_sender) ==> g_gel.Status == Computed)
__CPROVER_ensures((HAS_GHOST && g_calc) ==> g_gel.Status == Computed)
__CPROVER_ensures((!HAS_GHOST || (!g_calc && (g_gel.parts.n == 0 || comm->rank_ == g_sender))) ==> g_gel.Status == g_old_status)
//@loop 1
__CPROVER_assigns(p, proc_colors, color_roots)
__CPROVER_loop_invariant(p <= (unsigned long)comm->size_ && proc_colors.gkey == comm->rank_ && color_roots.gkey == g_ecol)
__CPROVER_loop_invariant(proc_colors.gpresent == (p > (unsigned long)comm->rank_ ? 1 : 0) && (proc_colors.gpresent ==> proc_colors.gval == g_pcol))
__CPROVER_loop_invariant((color_roots.gpresent == 0 || color_roots.gpresent == 1) && (color_roots.gpresent ==> (0 <= color_roots.gval && (unsigned long)color_roots.gval < p)))
__CPROVER_decreases((unsigned long)comm->size_ - p)
//@loop 2
__CPROVER_assigns(i, elem_colors)
__CPROVER_loop_invariant(i <= ncomponents && elem_colors.gkey == (int)g_g)
__CPROVER_loop_invariant(elem_colors.gpresent == (i > g_g ? 1 : 0) && (elem_colors.gpresent ==> elem_colors.gval == g_ecol))
__CPROVER_decreases(ncomponents - i)
//@loop 3
__CPROVER_assigns(i)
__CPROVER_loop_invariant(i <= ncomponents)
__CPROVER_decreases(ncomponents - i)
//@loop 4
__CPROVER_assigns(iter.idx, comp, self->NonTrivialElements.cur, storage, proc_colors.scratch, elem_colors.scratch, g_gel.Status, g_oel, g_comp_hits, g_comp_seq, g_gres, g_cur_elem)
__CPROVER_loop_invariant(iter.m == NTE && iter.idx <= NTE->n && comp >= 0 && (unsigned long)comp == iter.idx)
__CPROVER_loop_invariant(iter.idx < NTE->n ==> (iter.idx == g_g ? (KEQ(NTE->cur.first, g_X) && NTE->cur.second.p == &g_gel) : (!KEQ(NTE->cur.first, g_X) && NTE->cur.second.p == &g_oel)))
__CPROVER_loop_invariant(g_comp_hits == ((iter.idx > g_g && g_calc) ? 1UL : 0UL))
__CPROVER_loop_invariant((iter.idx > g_g && g_calc) ? (storage.gpresent == 1 && storage.g.id == g_gres && g_gel.Status == Computed) : (storage.gpresent == 0 && g_gel.Status == g_old_status))
__CPROVER_decreases(NTE->n - iter.idx)
//@loop 5
__CPROVER_assigns(iter.idx, comp, self->NonTrivialElements.cur, storage, out, elem_colors.scratch, color_roots, g_gel.Status, g_oel, g_cur_ghost_part, g_nr_bcasts, g_r_bcasts,
                  g_sender, g_have_sender, g_fd_bcasts, g_cur_elem)
__CPROVER_loop_invariant(iter.m == NTE && iter.idx <= NTE->n && comp >= 0 && (unsigned long)comp == iter.idx && color_roots.gkey == g_ecol && g_oel.parts.n <= NMAX && g_cur_elem == iter.idx)
__CPROVER_loop_invariant(iter.idx < NTE->n ==> (iter.idx == g_g ? (KEQ(NTE->cur.first, g_X) && NTE->cur.second.p == &g_gel) : (!KEQ(NTE->cur.first, g_X) && NTE->cur.second.p == &g_oel)))
__CPROVER_loop_invariant((color_roots.gpresent == 0 || color_roots.gpresent == 1) && (color_roots.gpresent ==> (0 <= color_roots.gval && color_roots.gval < comm->size_)))
__CPROVER_loop_invariant(iter.idx > g_g ? DONE_PARTS(g_gel.parts.n) : DONE_PARTS(0UL))
__CPROVER_loop_invariant(out.gpresent == ((iter.idx > g_g && g_gel.parts.n > 0) ? 1 : 0))
__CPROVER_loop_invariant((iter.idx > g_g && g_gel.parts.n > 0 && comm->rank_ == g_sender && g_calc) ==> out.g.id == g_gres)
__CPROVER_loop_invariant((g_calc || (iter.idx > g_g && g_gel.parts.n > 0 && comm->rank_ != g_sender)) ? g_gel.Status == Computed : g_gel.Status == g_old_status)
__CPROVER_loop_invariant(g_calc ? (storage.gpresent == 1 && storage.g.id == g_gres) : (iter.idx <= g_g ==> storage.gpresent == 0))
__CPROVER_decreases(NTE->n - iter.idx)
//@loop 6
__CPROVER_assigns(p, storage, out, g_gel.Status, g_oel.Status, g_cur_ghost_part, g_nr_bcasts, g_r_bcasts, g_sender, g_have_sender, g_fd_bcasts)
__CPROVER_loop_invariant(p <= chi->parts.n && (chi == &g_gel || chi == &g_oel) && (chi == &g_gel) == (iter.idx == g_g) && g_cur_elem == iter.idx)
__CPROVER_loop_invariant(chi == &g_gel ==> (DONE_PARTS(p) && out.gpresent == (p > 0 ? 1 : 0) && (p > 0 ==> sender == g_sender) &&
                         ((p > 0 && comm->rank_ == g_sender && g_calc) ==> out.g.id == g_gres) &&
                         ((g_calc || (p > 0 && comm->rank_ != sender)) ? g_gel.Status == Computed : g_gel.Status == g_old_status)))
__CPROVER_loop_invariant(chi == &g_gel ==> (0 <= sender && sender < comm->size_))
__CPROVER_loop_invariant(chi != &g_gel ==> (out.gpresent == __CPROVER_loop_entry(out.gpresent) && out.g.id == __CPROVER_loop_entry(out.g.id) && g_gel.Status == __CPROVER_loop_entry(g_gel.Status) &&
                         g_fd_bcasts == __CPROVER_loop_entry(g_fd_bcasts) && g_have_sender == __CPROVER_loop_entry(g_have_sender) && g_sender == __CPROVER_loop_entry(g_sender) &&
                         g_nr_bcasts == __CPROVER_loop_entry(g_nr_bcasts) && g_r_bcasts == __CPROVER_loop_entry(g_r_bcasts)))
__CPROVER_loop_invariant(g_calc ? (storage.gpresent == 1 && storage.g.id == g_gres) : ((iter.idx < g_g || (iter.idx == g_g && p == 0)) ==> storage.gpresent == 0))
__CPROVER_decreases(chi->parts.n - p)
//@end
//@harness h_TPGFC_computeAll_split enforce=TPGFC_computeAll_split props=C13 reach=5 timeout=1400
void h_TPGFC_computeAll_split(void)
{
  struct TwoParticleGFContainer *c; _Bool clear; FreqVec *f; Comm *m;
  g_g = nondet_ulong(); g_gq = nondet_ulong(); g_X = nondet_ic4();
  g_world_id = nondet_long(); g_split_id = nondet_long(); g_splits = 0; g_clear = clear; g_freqs_id = nondet_long();
  g_part_p = &g_part; g_comp_hits = 0; g_fd_bcasts = 0; g_have_sender = 0; g_nr_bcasts = 0; g_r_bcasts = 0; g_next_intmap = 0;
  g_key_pc = nondet_int(); g_key_ec = nondet_int(); g_key_cr = nondet_int(); g_pcol = nondet_int(); g_ecol = nondet_int(); g_calc = nondet_bool();
  g_gel.Status = nondet_uint(); g_gel.parts.n = nondet_ulong(); g_old_status = g_gel.Status;
  OutMap r = TPGFC_computeAll_split(c, clear, f, m);
  REACH("exit");
}
