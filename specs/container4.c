/* C13 -- the 2PGF container: aliases with permuted frequency arguments, request history.
 *   include/pomerol/IndexContainer4.h  (templates; instantiated for <TwoParticleGF,TwoParticleGFContainer> by
 *                                       specs/inst_container4.cpp, which contains nothing but the explicit instantiation)
 *   src/pomerol/Index.cpp              IndexCombination4 constructor, operator<, operator==
 *   src/pomerol/Misc.cpp               permutations4[24]
 *   src/pomerol/TwoParticleGFContainer.cpp   prepareAll, computeAll_nosplit, computeAll (section (c))
 *
 * History quantifier of C13: INV and INV2 below are pre- AND post-condition of every public operation
 * (set, operator(), isInContainer) from every state, and fill establishes them from ANY prior state; hence they
 * hold after every sequence of fill / lookup calls (induction over the operations, no enumeration of sequences).
 * Everything is stated for ONE ghost key g_X chosen before the call (arbitrary => for all keys).
 */
#include "../stubs/common.h"
#include "../stubs/cplx.h"
#include <stdlib.h>
//@include types_common.inc
//@type boost::shared_ptr<(Pomerol::)?TwoParticleGF> => GF2Ptr val
//@type (Pomerol::)?ElementWithPermFreq<(Pomerol::)?TwoParticleGF> => EWPF val
//@type (typename )?std::map<(Pomerol::)?IndexCombination4, (Pomerol::)?ElementWithPermFreq<(Pomerol::)?TwoParticleGF> ?(, .*)?>::iterator|std::_Rb_tree_iterator<std::pair<const (Pomerol::)?IndexCombination4, (Pomerol::)?ElementWithPermFreq<(Pomerol::)?TwoParticleGF> ?> ?> => EMapIt val
//@type std::pair<(const )?(Pomerol::)?IndexCombination4, (Pomerol::)?ElementWithPermFreq<(Pomerol::)?TwoParticleGF> ?> => EPair val
//@type std::pair<(const )?(Pomerol::)?IndexCombination4, boost::shared_ptr<(Pomerol::)?TwoParticleGF> ?> => NPair val
//@type std::pair<std::_Rb_tree_iterator<std::pair<const (Pomerol::)?IndexCombination4, (Pomerol::)?ElementWithPermFreq<(Pomerol::)?TwoParticleGF> ?> ?>, bool> => EInsRes val
//@type std::map<(Pomerol::)?IndexCombination4, (Pomerol::)?ElementWithPermFreq<(Pomerol::)?TwoParticleGF>(, .*)?> => EMap ptr
//@type std::map<(Pomerol::)?IndexCombination4, boost::shared_ptr<(Pomerol::)?TwoParticleGF>(, .*)?> => NMap ptr
//@type (typename )?std::set<(Pomerol::)?IndexCombination4(, .*)?>::(const_)?iterator|std::_Rb_tree_const_iterator<(Pomerol::)?IndexCombination4> => ISetIt val
//@type (const )?std::set<(Pomerol::)?IndexCombination4(, .*)?> => ISet ptr
//@type (Pomerol::)?IndexContainer4<(Pomerol::)?TwoParticleGF, ?(Pomerol::)?TwoParticleGFContainer> => struct TwoParticleGFContainer ptr
//@record Pomerol::ElementWithPermFreq => EWPF val
//@record Pomerol::IndexCombination4 => IC4 val
//@record Pomerol::Permutation4 => Permutation4 val
//@record Pomerol::IndexContainer4 => struct TwoParticleGFContainer ptr
//@rename TwoParticleGFContainer_set => IC4C_set
//@rename TwoParticleGFContainer_isInContainer/1 => IC4C_isInContainer
//@free make_pair => NPair_make
//@tu /verif/specs/inst_container4.cpp
typedef struct IC4 IC4;
typedef struct Permutation4 Permutation4;
typedef struct EWPF EWPF;
//@struct Pomerol::IndexCombination4
//@struct Pomerol::Permutation4

/* ---- TRUSTED MODEL: TwoParticleGF element objects and boost::shared_ptr<TwoParticleGF>.
 * An element is created by pSource->createElement(K) (monitor below); K is its "creator quadruple".  The
 * shared pointer carries a ghost copy of the creator quadruple of the object it points to (immutable after
 * construction), so that the invariants do not dereference element pointers. */
struct TwoParticleGF { IC4 creator;
  /* (addition for prepareAll / computeAll) the members the container's bulk calls write or depend on */
  double ReduceResonanceTolerance, CoefficientTolerance, MultiTermCoefficientTolerance; unsigned int Status; };
typedef struct GF2Ptr { struct TwoParticleGF *p; /* ghost */ IC4 creator; } GF2Ptr;
static inline GF2Ptr GF2Ptr_ctor1(struct TwoParticleGF *raw)
{
  __CPROVER_assert(raw != (void *)0, "shared_ptr constructed from a non-null element");
  GF2Ptr s; s.p = raw; s.creator = raw->creator; return s;
}
static inline struct TwoParticleGF *GF2Ptr_mul(GF2Ptr *s)
{
  __CPROVER_assert(s->p != (void *)0, "boost::shared_ptr::operator*: the pointer is not null");
  return s->p;
}
//@struct Pomerol::ElementWithPermFreq<Pomerol::TwoParticleGF>

//@tu src/pomerol/Index.cpp
/* twins for the other spelling of an increment (`++it` for `it++` and vice versa): same effect.  X_inc yields the iterator after the step
 * (exact); X_postinc made from X_inc is void, so a use of its value does not compile (UNDECIDED) instead of being modelled wrongly */
#define EMapIt_inc(it_) (EMapIt_postinc(it_), (it_))      /* pre-increment: the iterator itself, after the step */
#define ISetIt_inc(it_) (ISetIt_postinc(it_), (it_))      /* pre-increment: the iterator itself, after the step */
//@function Pomerol::IndexCombination4::IndexCombination4(unsigned int, unsigned int, unsigned int, unsigned int) as IC4_ctor4
//@end
//@function Pomerol::IndexCombination4::operator<(Pomerol::IndexCombination4 const&) const as IC4_lt
//@end
//@function Pomerol::IndexCombination4::operator==(Pomerol::IndexCombination4 const&) const as IC4_eq
//@end
//@tu src/pomerol/Misc.cpp
//@global permutations4

/* ======================= SPEC (property statement C13 / DESIGN.md) =======================
 * chi_jikl(w1,w2;w3) = -chi_ijkl(w2,w1;w3)              exchange of the annihilation indices  ("p = 6")
 * chi_ijlk(w1,w2;w3) = -chi_ijkl(w1,w2;w1+w2-w3)        exchange of the creation indices      ("p = 1")
 * and their composition  chi_jilk(w1,w2;w3) = +chi_ijkl(w2,w1;w1+w2-w3)                       ("p = 7")
 * An alias X of a stored element K with exchange p is evaluated by reading K at the permuted frequency
 * quadruple (w1,w2,w3,w4=w1+w2-w3)[perm] and multiplying with sign. */
#define KEQ(a, b) ((a).Index1 == (b).Index1 && (a).Index2 == (b).Index2 && (a).Index3 == (b).Index3 && (a).Index4 == (b).Index4)
static _Bool spec_perm_is(Permutation4 P, int p)
{
  if (p == 0) return P.perm[0] == 0 && P.perm[1] == 1 && P.perm[2] == 2 && P.perm[3] == 3 && P.sign == 1;
  if (p == 1) return P.perm[0] == 0 && P.perm[1] == 1 && P.perm[2] == 3 && P.perm[3] == 2 && P.sign == -1;
  if (p == 6) return P.perm[0] == 1 && P.perm[1] == 0 && P.perm[2] == 2 && P.perm[3] == 3 && P.sign == -1;
  if (p == 7) return P.perm[0] == 1 && P.perm[1] == 0 && P.perm[2] == 3 && P.perm[3] == 2 && P.sign == 1;
  return 0;
}
static IC4 spec_exchange(IC4 K, int p)
{
  IC4 r = K;
  if (p == 6 || p == 7) { r.Index1 = K.Index2; r.Index2 = K.Index1; }
  if (p == 1 || p == 7) { r.Index3 = K.Index4; r.Index4 = K.Index3; }
  return r;
}
/* entry X |-> (element created for K, permutation P) is consistent: P is one of the four exchanges and maps K to X */
static _Bool spec_alias_ok(IC4 X, IC4 K, Permutation4 P)
{
  return (spec_perm_is(P, 0) && KEQ(spec_exchange(K, 0), X)) || (spec_perm_is(P, 1) && KEQ(spec_exchange(K, 1), X)) ||
         (spec_perm_is(P, 6) && KEQ(spec_exchange(K, 6), X)) || (spec_perm_is(P, 7) && KEQ(spec_exchange(K, 7), X));
}

/* ghost key */
IC4 g_X;

/* ---- TRUSTED MODEL: std::map<IndexCombination4,V> / std::set<IndexCombination4>, ghost-key model (DESIGN.md 3.2).
 * State kept: presence bit and entry of the ONE ghost key g_X; entries of other keys land in `other` and nothing is
 * known about them (presence of a non-ghost key is nondeterministic at every query: over-approximation).
 * Key equivalence is the one std::map uses: !(a<b) && !(b<a) with the comparator AS WRITTEN IN POMEROL
 * (IC4_lt is extracted from src/pomerol/Index.cpp).
 * ASSUMED (guarantees of the standard containers): insert does not overwrite an existing entry; find/count are
 * exact; references/iterators to entries stay valid across inserts; the elements of a std::set are pairwise
 * inequivalent. */
static inline _Bool ic4_equiv(IC4 a, IC4 b) { return !IC4_lt(&a, b) && !IC4_lt(&b, a); }
static inline IC4 nondet_ic4(void) { IC4 k; k.Index1 = nondet_int(); k.Index2 = nondet_int(); k.Index3 = nondet_int(); k.Index4 = nondet_int(); return k; }
typedef struct EPair { IC4 first; EWPF second; } EPair;
typedef struct NPair { IC4 first; GF2Ptr second; } NPair;
typedef struct EMap { int gpresent; EPair g; EPair other; } EMap;      /* gpresent: 0 / 1 */
typedef struct NMap { int gpresent; NPair g; NPair other; } NMap;
typedef struct EMapIt { EMap *m; int pos; long idx; } EMapIt;  /* pos: 0 = end(), 1 = entry of the ghost key, 2 = entry of another key; idx: position in key order (iteration only) */
typedef struct EInsRes { EMapIt first; _Bool second; } EInsRes;
static inline IC4 ic4_of_val(IC4 x) { return x; }
static inline IC4 ic4_of_ptr(IC4 *x) { return *x; }
static inline EPair EPair_make(IC4 k, EWPF v) { EPair p; p.first = k; p.second = v; return p; }
/* the pair constructors of libstdc++ take the key by const& or by forwarding reference: both mean "a copy of the key" */
#define EPair_ctor2(k, v) EPair_make(_Generic((k), IC4: ic4_of_val, IC4 *: ic4_of_ptr)(k), (v))
static inline NPair NPair_make(IC4 k, GF2Ptr *v) { NPair p; p.first = k; p.second = *v; return p; }
static inline EPair nondet_epair(IC4 k)
{
  EPair p; p.first = k; p.second.pElement.p = (struct TwoParticleGF *)0; p.second.pElement.creator = nondet_ic4();
  p.second.FrequenciesPermutation.perm[0] = nondet_ulong(); p.second.FrequenciesPermutation.perm[1] = nondet_ulong();
  p.second.FrequenciesPermutation.perm[2] = nondet_ulong(); p.second.FrequenciesPermutation.perm[3] = nondet_ulong();
  p.second.FrequenciesPermutation.sign = nondet_int();
  return p;
}
static inline EInsRes EMap_insert(EMap *m, EPair p)
{
  EInsRes r; r.first.m = m;
  if (ic4_equiv(p.first, g_X)) {
    r.first.pos = 1; r.second = !m->gpresent;
    if (!m->gpresent) { m->gpresent = 1; m->g = p; }
  } else {
    r.first.pos = 2; r.second = nondet_bool();
    m->other = r.second ? p : nondet_epair(p.first);
  }
  return r;
}
static inline unsigned long EMap_count(EMap *m, IC4 k) { return ic4_equiv(k, g_X) ? (m->gpresent ? 1UL : 0UL) : (nondet_bool() ? 1UL : 0UL); }
static inline EMapIt EMap_find(EMap *m, IC4 k)
{
  EMapIt it; it.m = m;
  if (ic4_equiv(k, g_X)) it.pos = m->gpresent ? 1 : 0;
  else if (nondet_bool()) { it.pos = 2; m->other = nondet_epair(k); }
  else it.pos = 0;
  return it;
}
/* std::map::lower_bound(k): iterator to the FIRST entry whose key is not less than k (pomerol's comparator), end() when every key is less.
 * Ghost-key model: the ghost entry when it is present and equivalent to k (at most one entry per equivalence class); otherwise either an
 * entry of another key e (content arbitrary; ASSUMED: !(e < k) -- the definition; e not equivalent to the ghost key -- keys are pairwise
 * inequivalent; e < ghost key when the ghost entry is present and not less than k -- the FIRST such entry), or the ghost entry when it is
 * present and not less than k, or end() when the ghost entry is absent or less than k.  (Its position in iteration order is not modelled:
 * idx is arbitrary, so an increment of the result yields an arbitrary successor.) */
static inline EMapIt EMap_lower_bound(EMap *m, IC4 k)
{
  EMapIt it; it.m = m; it.idx = nondet_long();
  if (m->gpresent && ic4_equiv(k, g_X)) { it.pos = 1; return it; }
  _Bool g_ge = m->gpresent && !IC4_lt(&g_X, k);
  if (nondet_bool()) {
    IC4 e = nondet_ic4();
    __CPROVER_assume(!IC4_lt(&e, k));
    __CPROVER_assume(!ic4_equiv(e, g_X));
    __CPROVER_assume(!g_ge || IC4_lt(&e, g_X));
    m->other = nondet_epair(e); it.pos = 2;
  }
  else it.pos = g_ge ? 1 : 0;
  return it;
}
#define EMap_end(mp) ((EMapIt){(mp), 0})
static inline _Bool op_eq_EMapIt_EMapIt(EMapIt *a, EMapIt *b) { return a->pos == b->pos; }      /* used only against end() */
static inline _Bool op_ne_EMapIt_EMapIt(EMapIt *a, EMapIt *b) { return a->pos != b->pos; }
static inline EPair *EMapIt_arrow(EMapIt *it)
{
  __CPROVER_assert(it->pos == 1 || it->pos == 2, "std::map iterator dereferenced only when it points to an entry");
  return it->pos == 1 ? &it->m->g : &it->m->other;
}
static inline void EMap_clear(EMap *m) { m->gpresent = 0; }
static inline void NMap_insert(NMap *m, NPair p)
{
  if (ic4_equiv(p.first, g_X)) { if (!m->gpresent) { m->gpresent = 1; m->g = p; } }
  else m->other = p;
}
static inline void NMap_clear(NMap *m) { m->gpresent = 0; }
/* std::map::count on the map of stored elements (not called by the unchanged code): exact at the ghost key, arbitrary elsewhere */
static inline unsigned long NMap_count(NMap *m, IC4 k) { return ic4_equiv(k, g_X) ? (m->gpresent ? 1UL : 0UL) : (nondet_bool() ? 1UL : 0UL); }
/* std::set<IndexCombination4>: n elements in iteration order, the ghost key at position gpos iff ghas */
typedef struct ISet { long n; int ghas; long gpos; } ISet;
typedef struct ISetIt { ISet *s; long pos; } ISetIt;
IC4 iset_cur;                                                    /* the element the iterator was last dereferenced at */
static inline _Bool ISet_wf(ISet s) { return 0 <= s.n && s.n <= (1L << 40) && (s.ghas == 0 || s.ghas == 1) && (!s.ghas || (0 <= s.gpos && s.gpos < s.n)); }
static inline ISet ISet_ctor0(void) { ISet s; s.n = 0; s.ghas = 0; s.gpos = 0; return s; }
static inline unsigned long ISet_size(ISet *s) { return (unsigned long)s->n; }
static inline ISet *ISet_assign(ISet *a, ISet *b) { *a = *b; return a; }
#define ISet_begin(sp) ((ISetIt){(sp), 0})
#define ISet_end(sp)   ((ISetIt){(sp), (sp)->n})
#define op_ne_ISetIt_ISetIt(a, b) ((a)->pos != (b)->pos)
#define ISetIt_postinc(it) ((it)->pos++)
#define ISetIt_mul(it) ({ \
  __CPROVER_assert(0 <= (it)->pos && (it)->pos < (it)->s->n, "std::set iterator dereferenced before end()"); \
  if ((it)->s->ghas && (it)->pos == (it)->s->gpos) iset_cur = g_X; \
  else { iset_cur = nondet_ic4(); \
         /* ASSUMED: the elements of a set are pairwise inequivalent, and g_X is a member iff ghas */ \
         __CPROVER_assume(!ic4_equiv(iset_cur, g_X)); } \
  &iset_cur; })

//@tu /verif/specs/inst_container4.cpp
//@struct Pomerol::TwoParticleGFContainer only=pSource,ElementsMap,NonTrivialElements,ReduceResonanceTolerance,CoefficientTolerance,MultiTermCoefficientTolerance

/* MONITOR: pSource->createElement(K) -- `new TwoParticleGF(...)` for the quadruple K */
struct TwoParticleGFContainer *g_self;
unsigned long g_created;           /* number of elements created */
IC4 g_created_for;                 /* quadruple of the last creation */
struct TwoParticleGF *g_created_el;
struct TwoParticleGF *TwoParticleGFContainer_createElement(struct TwoParticleGFContainer *src, IC4 K)
{
  __CPROVER_assert(src == g_self, "C13: elements are created by the container's own source object");
  struct TwoParticleGF *e = malloc(sizeof(struct TwoParticleGF));
  __CPROVER_assume(e != (void *)0);   /* ASSUMED: operator new never returns null (allocation failure = std::bad_alloc is not modelled) */
  e->creator = K;
  g_created++; g_created_for = K; g_created_el = e;
  REACH("createElement");
  return e;
}
/* enumerateInitialIndices(): all combinations -- an arbitrary set here (its contents are not part of C13) */
ISet g_all;
#define TwoParticleGFContainer_enumerateInitialIndices(self) (*enumerate_stub())
static inline ISet *enumerate_stub(void) { g_all.n = nondet_long(); g_all.ghas = nondet_bool() ? 1 : 0; g_all.gpos = nondet_long(); __CPROVER_assume(ISet_wf(g_all)); return &g_all; }

//@function Pomerol::ElementWithPermFreq<Pomerol::TwoParticleGF>::ElementWithPermFreq(boost::shared_ptr<Pomerol::TwoParticleGF>, Pomerol::Permutation4) as EWPF_ctor2
//@end

/* ======================= (a) ElementWithPermFreq::operator() and the table permutations4 ======================= */
double __CPROVER_uninterpreted_chi_re(long, long, long);
double __CPROVER_uninterpreted_chi_im(long, long, long);
static inline cplx chi_uf(long n1, long n2, long n3)
{ cplx c = {__CPROVER_uninterpreted_chi_re(n1, n2, n3), __CPROVER_uninterpreted_chi_im(n1, n2, n3)}; return c; }
struct TwoParticleGF *g_elem; unsigned long g_evals; long g_e1, g_e2, g_e3;
cplx TwoParticleGF_call(struct TwoParticleGF *x, long n1, long n2, long n3)      /* MONITOR of (*pElement)(n1,n2,n3) */
{
  __CPROVER_assert(x == g_elem, "C13: the decorator evaluates the element it wraps");
  g_evals++; g_e1 = n1; g_e2 = n2; g_e3 = n3;
  REACH("element_eval");
  return chi_uf(n1, n2, n3);
}
static _Bool c_same(cplx a, cplx b) { return C_SAME(a, b); }
static _Bool perm_same(Permutation4 a, Permutation4 b)
{ return a.perm[0] == b.perm[0] && a.perm[1] == b.perm[1] && a.perm[2] == b.perm[2] && a.perm[3] == b.perm[3] && a.sign == b.sign; }
#define NBOX(n) (-(1L << 61) <= (n) && (n) <= (1L << 61))
int g_p;                           /* which table entry the decorator carries */
#define n1_ MatsubaraNumber1
#define n2_ MatsubaraNumber2
#define n3_ MatsubaraNumber3
#define EVAL_IS(a, b, c, sgn) (g_evals == 1 && g_e1 == (a) && g_e2 == (b) && g_e3 == (c) && c_same(__CPROVER_return_value, op_mul_cplx_double(chi_uf((a), (b), (c)), (sgn))))
//@function Pomerol::ElementWithPermFreq<Pomerol::TwoParticleGF>::operator()(long, long, long) const as EWPF_call
//@contract
__CPROVER_requires(__CPROVER_is_fresh(self, sizeof(*self)) && self->pElement.p != (void *)0 && g_elem == self->pElement.p && g_evals == 0)
__CPROVER_requires(NBOX(n1_) && NBOX(n2_) && NBOX(n3_))      /* n1+n2-n3 is computable */
__CPROVER_requires(0 <= g_p && g_p < 24 && perm_same(self->FrequenciesPermutation, permutations4[g_p]))
__CPROVER_assigns(g_evals, g_e1, g_e2, g_e3)
/* the four entries the container uses are the exchange identities of the property statement */
__CPROVER_ensures(g_p == 0 ==> EVAL_IS(n1_, n2_, n3_, 1.0))
__CPROVER_ensures(g_p == 1 ==> EVAL_IS(n1_, n2_, n1_ + n2_ - n3_, -1.0))
__CPROVER_ensures(g_p == 6 ==> EVAL_IS(n2_, n1_, n3_, -1.0))
__CPROVER_ensures(g_p == 7 ==> EVAL_IS(n2_, n1_, n1_ + n2_ - n3_, 1.0))
/* every entry: exactly one evaluation of the wrapped element */
__CPROVER_ensures(g_evals == 1)
//@end
//@harness h_EWPF_call enforce=EWPF_call props=C13 min_obl=91 reach=2 timeout=120
void h_EWPF_call(void)
{
  EWPF *e; long n1, n2, n3;
  cplx r = EWPF_call(e, n1, n2, n3);
  REACH("exit");
}
/* the whole table: every entry is a permutation of {0,1,2,3} with its parity as sign (so that the array accesses
 * of operator() are in range for every entry), and the four entries used by the container are the documented exchanges */
//@harness h_permutations4_table enforce=none props=C13 min_obl=561 reach=1 timeout=120 loops=0
void h_permutations4_table(void)
{
  int p = nondet_int();
  if (p < 0 || p >= 24) return;
  Permutation4 P = permutations4[p];
  __CPROVER_assert(P.perm[0] < 4 && P.perm[1] < 4 && P.perm[2] < 4 && P.perm[3] < 4, "C13: table entries index the frequency quadruple");
  __CPROVER_assert(P.perm[0] != P.perm[1] && P.perm[0] != P.perm[2] && P.perm[0] != P.perm[3] && P.perm[1] != P.perm[2] && P.perm[1] != P.perm[3] && P.perm[2] != P.perm[3],
                   "C13: table entries are permutations");
  int inv = (P.perm[0] > P.perm[1]) + (P.perm[0] > P.perm[2]) + (P.perm[0] > P.perm[3]) + (P.perm[1] > P.perm[2]) + (P.perm[1] > P.perm[3]) + (P.perm[2] > P.perm[3]);
  __CPROVER_assert(P.sign == ((inv % 2) ? -1 : 1), "C13: sign = parity of the permutation");
  __CPROVER_assert(spec_perm_is(permutations4[0], 0) && spec_perm_is(permutations4[1], 1) && spec_perm_is(permutations4[6], 6) && spec_perm_is(permutations4[7], 7),
                   "C13: entries 0,1,6,7 are identity, exchange of the creation indices, of the annihilation indices, both");
  REACH("exit");
}

/* ======================= (b) IndexContainer4: set, isInContainer, operator(), fill ======================= */
#define EM (self->ElementsMap)
#define NM (self->NonTrivialElements)
/* (macros, not functions: loop invariants must not contain calls) */
#define PERM_IS(P, a, b, c, d, sg) ((P).perm[0] == (a) && (P).perm[1] == (b) && (P).perm[2] == (c) && (P).perm[3] == (d) && (P).sign == (sg))
#define KEQ4(X, a, b, c, d) ((X).Index1 == (a) && (X).Index2 == (b) && (X).Index3 == (c) && (X).Index4 == (d))
#define ALIAS_OK(X, K, P) ((PERM_IS(P, 0, 1, 2, 3, 1)  && KEQ4(X, (K).Index1, (K).Index2, (K).Index3, (K).Index4)) || \
                           (PERM_IS(P, 0, 1, 3, 2, -1) && KEQ4(X, (K).Index1, (K).Index2, (K).Index4, (K).Index3)) || \
                           (PERM_IS(P, 1, 0, 2, 3, -1) && KEQ4(X, (K).Index2, (K).Index1, (K).Index3, (K).Index4)) || \
                           (PERM_IS(P, 1, 0, 3, 2, 1)  && KEQ4(X, (K).Index2, (K).Index1, (K).Index4, (K).Index3)))
/* INV  (g: key X): X |-> (e,P)  ==>  P in {0,1,6,7} and exchange_P(creator(e)) = X, e is an object */
#define PRES_WF(E, N) (((E).gpresent == 0 || (E).gpresent == 1) && ((N).gpresent == 0 || (N).gpresent == 1))
#define INV(E) (!(E).gpresent || (KEQ((E).g.first, g_X) && (E).g.second.pElement.p != (void *)0 && \
                ALIAS_OK(g_X, (E).g.second.pElement.creator, (E).g.second.FrequenciesPermutation)))
/* INV2 (g: key K): ElementsMap[K] = (e,0)  <=>  NonTrivialElements[K] = e   (same object) */
#define INV2(E, N) ((((E).gpresent && PERM_IS((E).g.second.FrequenciesPermutation, 0, 1, 2, 3, 1)) == (N).gpresent) && \
                    (!(N).gpresent || (KEQ((N).g.first, g_X) && (N).g.second.p == (E).g.second.pElement.p && KEQ((N).g.second.creator, (E).g.second.pElement.creator))))
static _Bool epair_same(EPair a, EPair b)
{ return KEQ(a.first, b.first) && a.second.pElement.p == b.second.pElement.p && KEQ(a.second.pElement.creator, b.second.pElement.creator) && perm_same(a.second.FrequenciesPermutation, b.second.FrequenciesPermutation); }
static _Bool npair_same(NPair a, NPair b) { return KEQ(a.first, b.first) && a.second.p == b.second.p && KEQ(a.second.creator, b.second.creator); }
/* which exchange of K (if any) produces X as a NEW alias:  0 = none */
static int spec_new_alias(IC4 K, IC4 X)
{
  _Bool sameC = K.Index1 == K.Index2, sameCX = K.Index3 == K.Index4;
  if (!sameC && KEQ(spec_exchange(K, 6), X)) return 6;
  if (!sameCX && KEQ(spec_exchange(K, 1), X)) return 1;
  if (!sameC && !sameCX && KEQ(spec_exchange(K, 7), X)) return 7;
  return 0;
}
/* the entry of the ghost key after set(K) on a container where K was absent */
static _Bool spec_after_set(IC4 K, _Bool was_present, EPair old_entry, EMap E, struct TwoParticleGF *e_new)
{
  if (KEQ(K, g_X)) return E.gpresent && E.g.second.pElement.p == e_new && KEQ(E.g.second.pElement.creator, K) && spec_perm_is(E.g.second.FrequenciesPermutation, 0);
  if (was_present) return E.gpresent && epair_same(E.g, old_entry);                 /* an existing entry is never overwritten */
  int p = spec_new_alias(K, g_X);
  if (p == 0) return !E.gpresent;                                                   /* nothing else is added */
  return E.gpresent && E.g.second.pElement.p == e_new && KEQ(E.g.second.pElement.creator, K) && spec_perm_is(E.g.second.FrequenciesPermutation, p);
}

//@function Pomerol::IndexContainer4<Pomerol::TwoParticleGF, Pomerol::TwoParticleGFContainer>::isInContainer(Pomerol::IndexCombination4 const&) const as IC4C_isInContainer
//@contract
__CPROVER_requires(__CPROVER_is_fresh(self, sizeof(*self)))
__CPROVER_assigns()
__CPROVER_ensures(KEQ(Indices, g_X) ==> __CPROVER_return_value == (EM.gpresent != 0))
//@end
//@harness h_IC4C_isInContainer enforce=IC4C_isInContainer props=C13 min_obl=92 reach=1 timeout=120
void h_IC4C_isInContainer(void)
{
  struct TwoParticleGFContainer *c; IC4 K;
  _Bool r = IC4C_isInContainer(c, K);
  REACH("exit");
}

//@function Pomerol::IndexContainer4<Pomerol::TwoParticleGF, Pomerol::TwoParticleGFContainer>::set(Pomerol::IndexCombination4 const&) as IC4C_set
//@contract
__CPROVER_requires(__CPROVER_is_fresh(self, sizeof(*self)) && self->pSource == self && g_self == self)
__CPROVER_requires(PRES_WF(EM, NM) && INV(EM) && INV2(EM, NM))
/* K is not in the container (every caller inside the library tests this first; see the remark at the end of the file) */
__CPROVER_requires(KEQ(Indices, g_X) ==> !EM.gpresent)
__CPROVER_assigns(EM, NM, g_created, g_created_for, g_created_el)
__CPROVER_ensures(PRES_WF(EM, NM) && INV(EM) && INV2(EM, NM))
/* exactly one element is created, for K */
__CPROVER_ensures(g_created == __CPROVER_old(g_created) + 1 && KEQ(g_created_for, Indices))
/* (g: key X) X = K is stored with the identity permutation; an existing entry is never overwritten; a missing exchanged
 * key becomes an alias of the new element with its exchange; nothing else changes */
__CPROVER_ensures(spec_after_set(Indices, __CPROVER_old(EM.gpresent), __CPROVER_old(EM.g), EM, g_created_el))
__CPROVER_ensures(KEQ(Indices, g_X) ==> (NM.gpresent && NM.g.second.p == g_created_el))
__CPROVER_ensures((!KEQ(Indices, g_X) && __CPROVER_old(NM.gpresent)) ==> (NM.gpresent && npair_same(NM.g, __CPROVER_old(NM.g))))
__CPROVER_ensures((!KEQ(Indices, g_X) && !__CPROVER_old(NM.gpresent)) ==> !NM.gpresent)
/* the result is the entry of K */
__CPROVER_ensures(KEQ(Indices, g_X) ==> __CPROVER_return_value == &EM.g.second)
//@end
//@harness h_IC4C_set enforce=IC4C_set props=C13 min_obl=1160 reach=2 timeout=300
void h_IC4C_set(void)
{
  struct TwoParticleGFContainer *c; IC4 K;
  EWPF *r = IC4C_set(c, K);
  REACH("exit");
}

//@function Pomerol::IndexContainer4<Pomerol::TwoParticleGF, Pomerol::TwoParticleGFContainer>::operator()(Pomerol::IndexCombination4 const&) as IC4C_call
//@contract
__CPROVER_requires(__CPROVER_is_fresh(self, sizeof(*self)) && self->pSource == self && g_self == self && g_created == 0)
__CPROVER_requires(PRES_WF(EM, NM) && INV(EM) && INV2(EM, NM))
__CPROVER_assigns(EM, NM, g_created, g_created_for, g_created_el)
__CPROVER_ensures(PRES_WF(EM, NM) && INV(EM) && INV2(EM, NM))
/* a key that is in the container: its entry is returned, nothing is created, nothing changes */
__CPROVER_ensures((KEQ(Indices, g_X) && __CPROVER_old(EM.gpresent)) ==>
                  (g_created == 0 && __CPROVER_return_value == &EM.g.second && EM.gpresent && epair_same(EM.g, __CPROVER_old(EM.g)) && NM.gpresent == __CPROVER_old(NM.gpresent)))
/* a key that is not: the result of set(K) */
__CPROVER_ensures((KEQ(Indices, g_X) && !__CPROVER_old(EM.gpresent)) ==>
                  (g_created == 1 && KEQ(g_created_for, Indices) && __CPROVER_return_value == &EM.g.second && spec_after_set(Indices, 0, EM.g, EM, g_created_el)))
/* other keys (g: X != K): unchanged, or a new alias of the element created for K */
__CPROVER_ensures((!KEQ(Indices, g_X) && __CPROVER_old(EM.gpresent)) ==> (EM.gpresent && epair_same(EM.g, __CPROVER_old(EM.g))))
__CPROVER_ensures((!KEQ(Indices, g_X) && !__CPROVER_old(EM.gpresent) && EM.gpresent) ==>
                  (g_created == 1 && spec_new_alias(Indices, g_X) != 0 && spec_after_set(Indices, 0, EM.g, EM, g_created_el)))
//@end
//@harness h_IC4C_call enforce=IC4C_call replace=IC4C_set props=C13 min_obl=2004 reach=3 timeout=300
void h_IC4C_call(void)
{
  struct TwoParticleGFContainer *c; IC4 K;
  EWPF *r = IC4C_call(c, K);
  if (g_created) REACH("miss"); else REACH("hit");
  REACH("exit");
}

//@function Pomerol::IndexContainer4<Pomerol::TwoParticleGF, Pomerol::TwoParticleGFContainer>::fill(std::set<Pomerol::IndexCombination4, std::less<Pomerol::IndexCombination4>, std::allocator<Pomerol::IndexCombination4> >) as IC4C_fill
//@contract
/* ANY prior state of the two maps: no invariant is required */
__CPROVER_requires(__CPROVER_is_fresh(self, sizeof(*self)) && self->pSource == self && g_self == self)
__CPROVER_requires(ISet_wf(InitialIndices))
__CPROVER_assigns(EM, NM, g_created, g_created_for, g_created_el, iset_cur, g_all)
__CPROVER_ensures(PRES_WF(EM, NM) && INV(EM) && INV2(EM, NM))
/* (g: key X) every requested key is in the container afterwards */
__CPROVER_ensures((InitialIndices.n != 0 && InitialIndices.ghas) ==> EM.gpresent)
//@loop 1
__CPROVER_assigns(iter.pos, EM, NM, g_created, g_created_for, g_created_el, iset_cur)
__CPROVER_loop_invariant(0 <= iter.pos && iter.pos <= II.n && iter.s == &II)
__CPROVER_loop_invariant(PRES_WF(EM, NM) && INV(EM) && INV2(EM, NM))
__CPROVER_loop_invariant((II.ghas && iter.pos > II.gpos) ==> EM.gpresent)
__CPROVER_decreases(II.n - iter.pos)
//@end
//@harness h_IC4C_fill enforce=IC4C_fill replace=IC4C_set props=C13 min_obl=2952 reach=1 timeout=300
void h_IC4C_fill(void)
{
  struct TwoParticleGFContainer *c; ISet s;
  IC4C_fill(c, s);
  REACH("exit");
}

/* ======================= (c) TwoParticleGFContainer::prepareAll, computeAll_nosplit, computeAll =======================
 * C13: "after a bulk computation every element the container lists is evaluable".  Stated for the entry of the ONE ghost key g_X
 * of ElementsMap (arbitrary => every entry):
 *   prepareAll(I):       the history invariants INV, INV2 hold afterwards; every key listed in I is in the container; the element
 *                        of entry X receives the container's three tolerances and is then prepared (prepare() returns normally,
 *                        Status >= Prepared), exactly once through this entry; if an operator is not prepared, prepare() throws
 *                        and prepareAll propagates the exception (invariants still hold).
 *   computeAll_nosplit:  compute(clearTerms, freqs, comm) is called exactly once on the element of entry X, with the arguments of
 *                        the bulk call; it is Computed afterwards; the returned table maps X to the vector that call returned
 *                        (and contains no key that is not in ElementsMap); the two maps are not modified (frame).
 *   computeAll:          split ? computeAll_split(same arguments) : computeAll_nosplit(same arguments), nothing else.
 *
 * Elements are NOT heap objects here (pointer-free ghost state): the element that the ghost entry's shared pointer refers to
 * is the ghost object g_gel, the element of the entry at any other position is the scratch object g_oel (refreshed at every
 * step).  The link is the extracted conversion operator ElementWithPermFreq::operator ElementType&() (`return *pElement`) with
 * shared_ptr::operator* modelled by el_deref below.  An element reachable through several entries (aliases) is written through
 * each of them; every such write/call is covered because it happens through SOME entry and the ghost entry is arbitrary.
 * TwoParticleGF::prepare / compute are MONITORS carrying the Status clauses of the contracts proved in specs/tpgf.c
 * (h_TPGF_prepare, h_TPGF_compute). */
//@type std::vector<boost::(tuples::)?tuple<std::complex<double>, std::complex<double>, std::complex<double>.*|std::vector<boost::(tuples::)?tuple<(Pomerol::)?ComplexType, (Pomerol::)?ComplexType, (Pomerol::)?ComplexType> ?> => FreqVec ptr
//@type std::vector<std::complex<double>(, std::allocator<std::complex<double> ?>)?>|std::vector<(Pomerol::)?ComplexType(, .*)?> => CVecOut val
//@type std::map<(Pomerol::)?IndexCombination4, std::vector<.*> => OutMap val
//@type std::pair<(const )?(Pomerol::)?IndexCombination4, std::vector<.*> => OPair val
//@type boost::mpi::communicator => Comm ptr
//@tu src/pomerol/TwoParticleGFContainer.cpp
//@enum ComputableObject::

/* ---- TRUSTED MODEL (addition): iteration over std::map<IndexCombination4,...>.  begin()/++ visit every entry exactly once in
 * key order.  View: emap_n entries, the entry of the ghost key (if present) at position emap_gpos; both unknown, drawn at
 * begin() and fixed afterwards (no insert/clear happens inside the loops of prepareAll / computeAll_nosplit: the frame
 * conditions show it).  Entries at other positions: key not equivalent to g_X, everything else nondeterministic. */
long emap_n, emap_gpos;
#define EMAP_MAXN (1L << 40)
#define EMAP_POS(m, i) ((i) >= emap_n ? 0 : (((m)->gpresent && (i) == emap_gpos) ? 1 : 2))
struct TwoParticleGF g_gel, g_oel;   /* the element of the ghost entry; the element of the entry at another position (scratch) */
static inline void emap_other_entry(EMap *m)
{
  IC4 k = nondet_ic4();
  __CPROVER_assume(!ic4_equiv(k, g_X));   /* ASSUMED (std::map): keys are pairwise inequivalent */
  m->other = nondet_epair(k);
  g_oel.ReduceResonanceTolerance = nondet_double(); g_oel.CoefficientTolerance = nondet_double();
  g_oel.MultiTermCoefficientTolerance = nondet_double(); g_oel.Status = nondet_uint();
}
static inline EMapIt EMap_begin(EMap *m)
{
  emap_n = nondet_long(); emap_gpos = nondet_long();
  __CPROVER_assume(0 <= emap_n && emap_n <= EMAP_MAXN && (m->gpresent ? (0 <= emap_gpos && emap_gpos < emap_n) : emap_gpos == -1));
  EMapIt it; it.m = m; it.idx = 0; it.pos = EMAP_POS(m, 0);
  if (it.pos == 2) emap_other_entry(m);
  return it;
}
#define EMapIt_postinc(it) ({ \
  __CPROVER_assert((it)->pos != 0, "std::map: end() is not incremented"); \
  (it)->idx++; (it)->pos = EMAP_POS((it)->m, (it)->idx); \
  if ((it)->pos == 2) emap_other_entry((it)->m); })
/* boost::shared_ptr<TwoParticleGF>::operator*: ASSERTED non-null for the ghost entry (INV); the object it yields: see above */
static inline struct TwoParticleGF *el_deref(GF2Ptr *s)
{
  if (s == &g_self->ElementsMap.g.second.pElement) {
    __CPROVER_assert(s->p != (void *)0, "boost::shared_ptr::operator*: the pointer of a listed entry is not null");
    return &g_gel;
  }
  return &g_oel;
}
//@rename GF2Ptr_mul => el_deref
//@function Pomerol::ElementWithPermFreq<Pomerol::TwoParticleGF>::operator Pomerol::TwoParticleGF&() as EWPF_conv_Pomerol_TwoParticleGF
//@end
//@rename GF2Ptr_mul => GF2Ptr_mul

/* MONITOR TwoParticleGF::prepare(): contract of specs/tpgf.c (already prepared: nothing; an operator that is not prepared:
 * exStatusMismatch, status unchanged; otherwise Status = Prepared).  ASSERTED: at the call the element carries the container's
 * tolerances (prepare() hands them to the parts it creates). */
double g_tol_rr, g_tol_c, g_tol_mt;      /* ghost copies of the container's tolerances */
unsigned long g_prep_hits, g_prep_calls;
void TwoParticleGF_prepare(struct TwoParticleGF *e)
{
  __CPROVER_assert(D_SAME(e->ReduceResonanceTolerance, g_tol_rr) && D_SAME(e->CoefficientTolerance, g_tol_c) && D_SAME(e->MultiTermCoefficientTolerance, g_tol_mt),
                   "C13: an element is prepared with the three tolerances of the container");
  g_prep_calls++;
  if (e == &g_gel) { g_prep_hits++; REACH("prepare_ghost"); }
  if (e->Status >= Prepared) return;
  if (nondet_bool()) { VERIF_THROW("exStatusMismatch"); return; }
  e->Status = Prepared;
}
#define D_SAME_LV(a, b) (*(const unsigned long *)&(a) == *(const unsigned long *)&(b))
#define TOLS_COPIED(el, c) (D_SAME_LV((el).ReduceResonanceTolerance, (c)->ReduceResonanceTolerance) && D_SAME_LV((el).CoefficientTolerance, (c)->CoefficientTolerance) && \
                            D_SAME_LV((el).MultiTermCoefficientTolerance, (c)->MultiTermCoefficientTolerance))
#define GHOST_TOLS(c) (D_SAME(g_tol_rr, (c)->ReduceResonanceTolerance) && D_SAME(g_tol_c, (c)->CoefficientTolerance) && D_SAME(g_tol_mt, (c)->MultiTermCoefficientTolerance))
//@maythrow TwoParticleGF_prepare TwoParticleGF_compute
//@rename TwoParticleGFContainer_fill => IC4C_fill
//@function Pomerol::TwoParticleGFContainer::prepareAll(std::set<Pomerol::IndexCombination4, std::less<Pomerol::IndexCombination4>, std::allocator<Pomerol::IndexCombination4> > const&) as TPGFC_prepareAll
//@contract
/* ANY prior state of the two maps (as for fill) */
__CPROVER_requires(__CPROVER_is_fresh(self, sizeof(*self)) && self->pSource == self && g_self == self)
__CPROVER_requires(__CPROVER_is_fresh(InitialIndices, sizeof(*InitialIndices)) && ISet_wf(*InitialIndices))
__CPROVER_requires(!VERIF_thrown && g_prep_hits == 0 && GHOST_TOLS(self))
__CPROVER_assigns(EM, NM, g_created, g_created_for, g_created_el, iset_cur, g_all, emap_n, emap_gpos, g_gel, g_oel, g_prep_hits, g_prep_calls, VERIF_thrown)
/* history invariants (also on the exceptional exit) */
__CPROVER_ensures(PRES_WF(EM, NM) && INV(EM) && INV2(EM, NM))
/* (g: key X) every requested key is in the container afterwards */
__CPROVER_ensures((InitialIndices->n != 0 && InitialIndices->ghas) ==> EM.gpresent)
/* (g: entry X) its element has the container's tolerances and has been prepared, once through this entry */
__CPROVER_ensures((!VERIF_thrown && EM.gpresent) ==> (g_prep_hits == 1 && g_gel.Status >= Prepared && TOLS_COPIED(g_gel, self)))
__CPROVER_ensures(!EM.gpresent ==> g_prep_hits == 0)
//@loop 1
__CPROVER_assigns(iter.idx, iter.pos, EM.other, g_gel, g_oel, g_prep_hits, g_prep_calls, VERIF_thrown)
__CPROVER_loop_invariant(iter.m == &EM && 0 <= iter.idx && iter.idx <= emap_n && iter.pos == EMAP_POS(&EM, iter.idx) && !VERIF_thrown)
/* the entry at another position has another key */
__CPROVER_loop_invariant(iter.pos == 2 ==> !KEQ(EM.other.first, g_X))
__CPROVER_loop_invariant(g_prep_hits == ((EM.gpresent && iter.idx > emap_gpos) ? 1UL : 0UL))
__CPROVER_loop_invariant((EM.gpresent && iter.idx > emap_gpos) ==> (g_gel.Status >= Prepared && TOLS_COPIED(g_gel, self)))
__CPROVER_decreases(emap_n - iter.idx)
//@end
//@harness h_TPGFC_prepareAll enforce=TPGFC_prepareAll replace=IC4C_fill props=C13 min_obl=1532 reach=4 timeout=300
void h_TPGFC_prepareAll(void)
{
  struct TwoParticleGFContainer *c; ISet *s;
  TPGFC_prepareAll(c, s);
  if (VERIF_thrown) REACH("exit_thrown"); else if (g_prep_hits) REACH("exit_prepared"); else REACH("exit_absent");
}

/* ---- computeAll_nosplit.  Models: FreqVec / Comm opaque (identity = id); std::vector<ComplexType> returned by compute(): identity
 * (sequence number of the compute() call) + size; the returned std::map<IndexCombination4, std::vector<ComplexType>>: ghost-key
 * model (presence of g_X and the identity of its vector; ASSUMED as above: insert does not overwrite). */
typedef struct FreqVec { long id; } FreqVec;
typedef struct Comm { long id; } Comm;
typedef struct CVecOut { unsigned long id; long size; } CVecOut;
typedef struct OPair { IC4 first; CVecOut second; } OPair;
typedef struct OutMap { int gpresent; unsigned long gval; } OutMap;
static inline OutMap OutMap_ctor0(void) { OutMap m; m.gpresent = 0; m.gval = 0; return m; }
static inline OPair OPair_make(IC4 k, CVecOut v) { OPair p; p.first = k; p.second = v; return p; }
static inline void OutMap_insert(OutMap *m, OPair p)
{ if (ic4_equiv(p.first, g_X) && !m->gpresent) { m->gpresent = 1; m->gval = p.second.id; } }
/* MONITOR TwoParticleGF::compute(clear, freqs, comm): contract of specs/tpgf.c (Status < Prepared: exStatusMismatch; already
 * computed: an EMPTY table, status unchanged; otherwise Status = Computed). */
_Bool g_clear; long g_freqs_id, g_comm_id;       /* the arguments of the bulk call */
unsigned long g_comp_hits, g_comp_seq, g_gres;   /* compute() calls on the ghost element, all calls, identity of the ghost element's vector */
CVecOut TwoParticleGF_compute(struct TwoParticleGF *e, _Bool clear, FreqVec *freqs, Comm *comm)
{
  __CPROVER_assert(clear == g_clear && freqs->id == g_freqs_id && comm->id == g_comm_id, "C13: every element is computed with the arguments of the bulk call");
  CVecOut r; g_comp_seq++; r.id = g_comp_seq; r.size = nondet_long();
  if (e == &g_gel) { g_comp_hits++; g_gres = r.id; REACH("compute_ghost"); }
  if (e->Status < Prepared) { VERIF_THROW("exStatusMismatch"); return r; }
  if (e->Status >= Computed) { r.size = 0; return r; }
  e->Status = Computed;
  return r;
}
unsigned int g_old_status;    /* Status of the ghost element before the call (old() of a global in an implication) */
//@free make_pair => OPair_make
//@function Pomerol::TwoParticleGFContainer::computeAll_nosplit(bool, std::vector<boost::tuples::tuple<std::complex<double>, std::complex<double>, std::complex<double>, boost::tuples::null_type, boost::tuples::null_type, boost::tuples::null_type, boost::tuples::null_type, boost::tuples::null_type, boost::tuples::null_type, boost::tuples::null_type>, std::allocator<boost::tuples::tuple<std::complex<double>, std::complex<double>, std::complex<double>, boost::tuples::null_type, boost::tuples::null_type, boost::tuples::null_type, boost::tuples::null_type, boost::tuples::null_type, boost::tuples::null_type, boost::tuples::null_type> > > const&, boost::mpi::communicator const&) as TPGFC_computeAll_nosplit
//@contract
__CPROVER_requires(__CPROVER_is_fresh(self, sizeof(*self)) && g_self == self)
__CPROVER_requires(__CPROVER_is_fresh(freqs, sizeof(*freqs)) && __CPROVER_is_fresh(comm, sizeof(*comm)))
__CPROVER_requires(PRES_WF(EM, NM) && INV(EM) && INV2(EM, NM))
__CPROVER_requires(!VERIF_thrown && g_comp_hits == 0 && g_clear == clearTerms && g_freqs_id == freqs->id && g_comm_id == comm->id && g_old_status == g_gel.Status)
/* frame: the ghost entry, presence bits and NonTrivialElements are not written => INV, INV2 are preserved */
__CPROVER_assigns(EM.other, emap_n, emap_gpos, g_gel.Status, g_oel, g_comp_hits, g_comp_seq, g_gres, VERIF_thrown)
/* (g: entry X) computed exactly once through this entry, with the arguments of the call; the table maps X to that result */
__CPROVER_ensures((!VERIF_thrown && EM.gpresent) ==> (g_comp_hits == 1 && g_gel.Status >= Computed && __CPROVER_return_value.gpresent && __CPROVER_return_value.gval == g_gres))
__CPROVER_ensures((!VERIF_thrown && !EM.gpresent) ==> (g_comp_hits == 0 && !__CPROVER_return_value.gpresent))
/* an element that has not been prepared: exStatusMismatch */
__CPROVER_ensures((EM.gpresent && g_old_status < Prepared) ==> VERIF_thrown)
//@loop 1
__CPROVER_assigns(iter.idx, iter.pos, EM.other, out, g_gel.Status, g_oel, g_comp_hits, g_comp_seq, g_gres, VERIF_thrown)
__CPROVER_loop_invariant(iter.m == &EM && 0 <= iter.idx && iter.idx <= emap_n && iter.pos == EMAP_POS(&EM, iter.idx) && !VERIF_thrown)
/* the entry at another position has another key */
__CPROVER_loop_invariant(iter.pos == 2 ==> !KEQ(EM.other.first, g_X))
__CPROVER_loop_invariant(g_comp_hits == ((EM.gpresent && iter.idx > emap_gpos) ? 1UL : 0UL))
__CPROVER_loop_invariant((EM.gpresent && iter.idx > emap_gpos) ? (g_gel.Status >= Computed && g_old_status >= Prepared && out.gpresent == 1 && out.gval == g_gres) : (out.gpresent == 0 && g_gel.Status == g_old_status))
__CPROVER_decreases(emap_n - iter.idx)
//@end
//@free make_pair => NPair_make
//@harness h_TPGFC_computeAll_nosplit enforce=TPGFC_computeAll_nosplit props=C13 min_obl=880 reach=4 timeout=300
void h_TPGFC_computeAll_nosplit(void)
{
  struct TwoParticleGFContainer *c; _Bool clear; FreqVec *f; Comm *m;
  OutMap r = TPGFC_computeAll_nosplit(c, clear, f, m);
  if (VERIF_thrown) REACH("exit_thrown"); else if (g_comp_hits) REACH("exit_computed"); else REACH("exit_absent");
}

/* ---- computeAll: the dispatch.  computeAll_split is a MONITOR here (not under contract: see REMARKS). */
unsigned long g_split_calls;
OutMap TwoParticleGFContainer_computeAll_split(struct TwoParticleGFContainer *self, _Bool clearTerms, FreqVec *freqs, Comm *comm)
{
  __CPROVER_assert(self == g_self && clearTerms == g_clear && freqs->id == g_freqs_id && comm->id == g_comm_id, "C13: computeAll hands its arguments to computeAll_split unchanged");
  g_split_calls++;
  REACH("split");
  OutMap m; m.gpresent = nondet_bool() ? 1 : 0; m.gval = nondet_ulong(); return m;
}
//@rename TwoParticleGFContainer_computeAll_nosplit => TPGFC_computeAll_nosplit
//@function Pomerol::TwoParticleGFContainer::computeAll(bool, std::vector<boost::tuples::tuple<std::complex<double>, std::complex<double>, std::complex<double>, boost::tuples::null_type, boost::tuples::null_type, boost::tuples::null_type, boost::tuples::null_type, boost::tuples::null_type, boost::tuples::null_type, boost::tuples::null_type>, std::allocator<boost::tuples::tuple<std::complex<double>, std::complex<double>, std::complex<double>, boost::tuples::null_type, boost::tuples::null_type, boost::tuples::null_type, boost::tuples::null_type, boost::tuples::null_type, boost::tuples::null_type, boost::tuples::null_type> > > const&, boost::mpi::communicator const&, bool) as TPGFC_computeAll
//@contract
__CPROVER_requires(__CPROVER_is_fresh(self, sizeof(*self)) && g_self == self)
__CPROVER_requires(__CPROVER_is_fresh(freqs, sizeof(*freqs)) && __CPROVER_is_fresh(comm, sizeof(*comm)))
__CPROVER_requires(PRES_WF(EM, NM) && INV(EM) && INV2(EM, NM))
__CPROVER_requires(!VERIF_thrown && g_comp_hits == 0 && g_split_calls == 0 && g_clear == clearTerms && g_freqs_id == freqs->id && g_comm_id == comm->id && g_old_status == g_gel.Status)
__CPROVER_assigns(EM.other, emap_n, emap_gpos, g_gel.Status, g_oel, g_comp_hits, g_comp_seq, g_gres, VERIF_thrown, g_split_calls)
__CPROVER_ensures(split ==> (g_split_calls == 1 && g_comp_hits == 0 && !VERIF_thrown))
__CPROVER_ensures(!split ==> g_split_calls == 0)
__CPROVER_ensures((!split && !VERIF_thrown && EM.gpresent) ==> (g_comp_hits == 1 && g_gel.Status >= Computed && __CPROVER_return_value.gpresent && __CPROVER_return_value.gval == g_gres))
__CPROVER_ensures((!split && !VERIF_thrown && !EM.gpresent) ==> (g_comp_hits == 0 && !__CPROVER_return_value.gpresent))
//@end
//@harness h_TPGFC_computeAll enforce=TPGFC_computeAll replace=TPGFC_computeAll_nosplit props=C13 min_obl=982 reach=3 timeout=300
void h_TPGFC_computeAll(void)
{
  struct TwoParticleGFContainer *c; _Bool clear, split; FreqVec *f; Comm *m;
  OutMap r = TPGFC_computeAll(c, clear, f, m, split);
  if (split) REACH("exit_split"); else REACH("exit_nosplit");
}

/* ======================= REMARKS =======================
 * 1. set() is public.  Its contract requires that K is not in the container (fill and operator() test this before
 *    they call it).  Called directly for a key that is present as an ALIAS (permutation 1, 6 or 7), set() leaves the
 *    ElementsMap entry alone (insert does not overwrite) but adds K to NonTrivialElements with a new, otherwise unused
 *    element: INV2 (<=) is then violated at K.  No library code does this; it is a latent hazard of the public API,
 *    not reachable through fill / operator() / prepareAll (proved: they establish the pre-condition).
 * 2. prepareAll / computeAll_nosplit / computeAll (section (c)): elements are pointer-free ghost objects there (the earlier attempt to
 *    carry "the ghost entry's element is a live heap object" through the replaced contracts of fill/set did not close).  What is
 *    TRUSTED in addition: the iteration view of std::map (every entry once, in key order; number of entries and position of the
 *    ghost entry unknown but fixed while the map is not modified) and the Status clauses of TwoParticleGF::prepare / compute
 *    (proved in specs/tpgf.c).  NOT under contract: computeAll_split (communicator split, broadcast from the colour roots).
 * 3. computeAll_nosplit iterates ElementsMap, i.e. aliases too: an element that is reachable through k entries has compute() called
 *    k times; from the second call on compute() returns an EMPTY vector (already computed, contract of specs/tpgf.c), so in the
 *    returned table only the entry visited first (smallest key) of each element carries the frequency table, the other keys of
 *    that element map to empty vectors (and no permutation of the frequency arguments is applied to the table).  The returned
 *    table is not mentioned in C13; evaluability through operator() is not affected.  Reported as a remark, not as a defect.
 *
 * ======================= MUTATION RECORD (scratch copy of /repo; all killed) =======================
 * pre-fix D13 (`NonTrivialElements.clear()` removed from fill): h_IC4C_fill fails IC4C_fill.postcondition.1 (INV2),
 *      IC4C_set.precondition.2 (INV2 at the call in the loop), loop-invariant base
 * ElementWithPermFreq::operator() (h_EWPF_call): perm[0] -> perm[3]: EWPF_call.postcondition.1-4; `*RealType(sign)` dropped:
 *      postcondition.1-4; `n1+n2-n3` -> `n1-n2+n3`: postcondition.2/.4
 * permutations4 (Misc.cpp): entry 6 sign -1 -> +1: h_permutations4_table assertion "sign = parity", "entries 0,1,6,7 ...";
 *      EWPF_call.postcondition.3; IC4C_set.postcondition.1/.3
 * IndexContainer4::set (h_IC4C_set): permutations4[6] -> [1] for the first alias: postcondition.1 (INV) /.3; Indices2134 built as
 *      (2,1,4,3): postcondition.1/.3; NonTrivialElements.insert removed: postcondition.1 (INV2) /.4;
 *      SameCIndices = (Index1==Index3): postcondition.3
 * IndexCombination4::operator< (Index.cpp) last clause `Index4 < rhs.Index4` -> `Index3 < rhs.Index4`: IC4C_set.postcondition.1/.3/.4/.6/.7,
 *      IC4C_isInContainer.postcondition.1
 * IndexContainer4::operator() (h_IC4C_call): `iter == end()` -> `!=`: IC4C_call.postcondition.2/.3, IC4C_set.precondition.3, EMapIt_arrow.assertion
 * IndexContainer4::fill (h_IC4C_fill): `if(!isInContainer(*iter))` -> `if(isInContainer(*iter))`: IC4C_set.precondition.3, loop invariant step
 * (equivalent, not counted: removing the `if(!isInContainer(alias))` guards in set -- insert does not overwrite;
 *  `!SameCIndices && !SameCXIndices` -> `||` -- the extra key was inserted by the preceding branch)
 * TwoParticleGFContainer::prepareAll (h_TPGFC_prepareAll): CoefficientTolerance = ReduceResonanceTolerance: TwoParticleGF_prepare.assertion.1 +
 *      invariant step (anonymous name TPGFC_prepareAll_wrapped_for_contract_checking.8: tolerances of the ghost element);
 *      MultiTermCoefficientTolerance assignment removed: same two; prepare() call removed: ..._wrapped_for_contract_checking.7/.8
 *      (ghost hits / Status >= Prepared); fill() call removed: TPGFC_prepareAll.postcondition.1 (INV/INV2) /.2 (listed => present), el_deref.assertion.1
 * computeAll_nosplit (h_TPGFC_computeAll_nosplit): compute(false, ...): TwoParticleGF_compute.assertion.1; result not inserted into the
 *      table: invariant step (..._wrapped_for_contract_checking.8: table maps X to the result of its element)
 * computeAll (h_TPGFC_computeAll): `if (!split)`: TPGFC_computeAll.postcondition.1-.4; computeAll_nosplit(!clearTerms, ...):
 *      TPGFC_computeAll_nosplit.precondition.4
 * (not decisive, no model: `if (ElementsMap.size()==0) fill(...)`, `++iter != end()` in the loop header -> undefined-function obligations fail)
 */
