/* TwoParticleGFPart: multi-term of Hafermann et al. (addMultiterm), frequency permutation and term
 * evaluation (operator()), resonant / non-resonant term values.  Property C02. */
#include "../stubs/common.h"
#include "../stubs/cplx.h"
#include "../stubs/sparse.h"
#include "../stubs/dense.h"
//@include types_common.inc
//@type (Pomerol::)?RealVectorType|Eigen::Matrix<double, -1, 1(, 0)?(, -1, 1)?> => RealVector ptr
//@type (Pomerol::)?TermList<(Pomerol::)?TwoParticleGFPart::NonResonantTerm> => TermListNR ptr
//@type (Pomerol::)?TermList<(Pomerol::)?TwoParticleGFPart::ResonantTerm> => TermListR ptr
//@record Pomerol::TwoParticleGFPart::NonResonantTerm => NRTerm val
//@record Pomerol::TwoParticleGFPart::ResonantTerm => RTerm val
//@record Pomerol::TwoParticleGFPart::NonResonantTerm::IsNegligible => NRIsNegligible val
//@record Pomerol::TwoParticleGFPart::ResonantTerm::IsNegligible => RIsNegligible val
//@record Pomerol::TwoParticleGFPart::NonResonantTerm::Compare => NRCompare val
//@record Pomerol::TwoParticleGFPart::ResonantTerm::Compare => RCompare val
//@record Pomerol::Permutation3 => Permutation3 val
//@record Pomerol::CreationOperatorPart => struct FieldOperatorPart ptr
//@tu src/pomerol/TwoParticleGFPart.cpp
//@enum ComputableObject::
typedef struct NRTerm NRTerm; typedef struct RTerm RTerm; typedef struct Permutation3 Permutation3;
//@struct Pomerol::TwoParticleGFPart::NonResonantTerm
//@struct Pomerol::TwoParticleGFPart::ResonantTerm
//@struct Pomerol::Permutation3
typedef struct NRIsNegligible NRIsNegligible; typedef struct RIsNegligible RIsNegligible; typedef struct NRCompare NRCompare; typedef struct RCompare RCompare;
//@struct Pomerol::TwoParticleGFPart::NonResonantTerm::IsNegligible
//@struct Pomerol::TwoParticleGFPart::ResonantTerm::IsNegligible
//@struct Pomerol::TwoParticleGFPart::NonResonantTerm::Compare
//@struct Pomerol::TwoParticleGFPart::ResonantTerm::Compare
//@struct Pomerol::FieldOperatorPart only=elementsColMajor,elementsRowMajor,Status
//@struct Pomerol::HamiltonianPart only=Eigenvalues,Status
//@struct Pomerol::DensityMatrixPart only=weights,beta

/* ---- monitors for the two term lists: record the first two add_term calls and the arguments of the
 * evaluation call (the container TermList<> itself is verified in termlist.c) */
typedef struct TermListNR { unsigned long n_calls; NRTerm rec[2]; unsigned long n_eval; cplx ez1, ez2, ez3; } TermListNR;
typedef struct TermListR  { unsigned long n_calls; RTerm rec[2];  unsigned long n_eval; cplx ez1, ez2, ez3; double etol; } TermListR;
static inline void TermListNR_add_term(TermListNR *tl, NRTerm t) { if (tl->n_calls < 2) tl->rec[tl->n_calls] = t; tl->n_calls++; }
static inline void TermListR_add_term(TermListR *tl, RTerm t) { if (tl->n_calls < 2) tl->rec[tl->n_calls] = t; tl->n_calls++; }
static inline void TermListNR_clear(TermListNR *tl) { tl->n_calls = 0; }
static inline void TermListR_clear(TermListR *tl) { tl->n_calls = 0; }
/* value of a term list = opaque function of the frequencies (and of the list, which is not modified) */
double __CPROVER_uninterpreted_nrval_re(double, double, double, double, double, double);
double __CPROVER_uninterpreted_nrval_im(double, double, double, double, double, double);
double __CPROVER_uninterpreted_rval_re(double, double, double, double, double, double, double);
double __CPROVER_uninterpreted_rval_im(double, double, double, double, double, double, double);
static inline cplx nr_value(cplx z1, cplx z2, cplx z3)
{ return cplx_ctor2(__CPROVER_uninterpreted_nrval_re(z1.re, z1.im, z2.re, z2.im, z3.re, z3.im), __CPROVER_uninterpreted_nrval_im(z1.re, z1.im, z2.re, z2.im, z3.re, z3.im)); }
static inline cplx r_value(cplx z1, cplx z2, cplx z3, double tol)
{ return cplx_ctor2(__CPROVER_uninterpreted_rval_re(z1.re, z1.im, z2.re, z2.im, z3.re, z3.im, tol), __CPROVER_uninterpreted_rval_im(z1.re, z1.im, z2.re, z2.im, z3.re, z3.im, tol)); }
static inline cplx TermListNR_call(TermListNR *tl, cplx z1, cplx z2, cplx z3)
{ tl->n_eval++; tl->ez1 = z1; tl->ez2 = z2; tl->ez3 = z3; return nr_value(z1, z2, z3); }
static inline cplx TermListR_call(TermListR *tl, cplx z1, cplx z2, cplx z3, double tol)
{ tl->n_eval++; tl->ez1 = z1; tl->ez2 = z2; tl->ez3 = z3; tl->etol = tol; return r_value(z1, z2, z3, tol); }
/* TermList<ResonantTerm>::operator()(z1,z2,z3) -- the THREE-argument call operator of TermList.h hands three arguments to every term, so
 * ResonantTerm::operator() runs with its documented default "KroneckerSymbolTolerance = 1e-16" (TwoParticleGFPart.h): the model records that. */
//@rename TermListR_call/3 => TermListR_call3
static inline cplx TermListR_call3(TermListR *tl, cplx z1, cplx z2, cplx z3)
{ tl->n_eval++; tl->ez1 = z1; tl->ez2 = z2; tl->ez3 = z3; tl->etol = 1e-16; return r_value(z1, z2, z3, 1e-16); }

//@struct Pomerol::TwoParticleGFPart embed=O1,O2,O3,CX4,Hpart1,Hpart2,Hpart3,Hpart4,DMpart1,DMpart2,DMpart3,DMpart4
//@free abs(cplx) => c_abs

//@function Pomerol::TwoParticleGFPart::NonResonantTerm::NonResonantTerm(std::complex<double>, double, double, double, bool) as NRTerm_ctor5
//@end
//@function Pomerol::TwoParticleGFPart::ResonantTerm::ResonantTerm(std::complex<double>, std::complex<double>, double, double, double, bool) as RTerm_ctor6
//@end

/* ---------------------------------------------------------------------------------------------
 * SPEC of the multi-term, from the documentation of addMultiterm in TwoParticleGFPart.h:
 *   P1 = Ej-Ei, P2 = Ek-Ej, P3 = El-Ek, C2 = -C(wj+wk), C4 = C(wi+wl),
 *   R12 = C beta wi, N12 = C(wk-wi), R23 = -C beta wj, N23 = C(wj-wl);
 *   non-resonant terms (C2; isz4=false) and (C4; isz4=true) kept iff |coefficient| > 1e-16,
 *   resonant terms (R12,N12; z1+z2) and (R23,N23; z2+z3) kept iff |R| > 1e-16 or |N| > 1e-16. */
#define TOL16 1e-16
static cplx spec_C2(cplx C, double Wj, double Wk) { return op_mul_cplx_double(op_sub_cplx(C), D_ADD(Wj, Wk)); }
static cplx spec_C4(cplx C, double Wi, double Wl) { return op_mul_cplx_double(C, D_ADD(Wi, Wl)); }
static cplx spec_R12(cplx C, double beta, double Wi) { return op_mul_cplx_double(op_mul_cplx_double(C, beta), Wi); }
static cplx spec_N12(cplx C, double Wk, double Wi) { return op_mul_cplx_double(C, D_SUB(Wk, Wi)); }
static cplx spec_R23(cplx C, double beta, double Wj) { return op_mul_cplx_double(op_mul_cplx_double(op_sub_cplx(C), beta), Wj); }
static cplx spec_N23(cplx C, double Wj, double Wl) { return op_mul_cplx_double(C, D_SUB(Wj, Wl)); }
static _Bool keep(cplx c) { return D_GT(c_abs(c), TOL16); }
static _Bool poles_ok(double P0, double P1, double P2, double Ei, double Ej, double Ek, double El)
{ return D_SAME(P0, D_SUB(Ej, Ei)) && D_SAME(P1, D_SUB(Ek, Ej)) && D_SAME(P2, D_SUB(El, Ek)); }
static _Bool nr_is(NRTerm t, cplx c, _Bool isz4, double Ei, double Ej, double Ek, double El)
{ return C_SAME(t.Coeff, c) && t.isz4 == isz4 && t.Weight == 1 && poles_ok(t.Poles[0], t.Poles[1], t.Poles[2], Ei, Ej, Ek, El); }
static _Bool r_is(RTerm t, cplx r, cplx n, _Bool isz1z2, double Ei, double Ej, double Ek, double El)
{ return C_SAME(t.ResCoeff, r) && C_SAME(t.NonResCoeff, n) && t.isz1z2 == isz1z2 && t.Weight == 1 && poles_ok(t.Poles[0], t.Poles[1], t.Poles[2], Ei, Ej, Ek, El); }

/* the documented multi-term, each quantity computed once per predicate */
static _Bool multiterm_nonresonant_ok(struct TwoParticleGFPart *p, cplx C, double Ei, double Ej, double Ek, double El, double Wi, double Wj, double Wk, double Wl)
{
  cplx C2 = spec_C2(C, Wj, Wk), C4 = spec_C4(C, Wi, Wl);
  _Bool k2 = keep(C2), k4 = keep(C4);
  TermListNR *nr = &p->NonResonantTerms;
  return nr->n_calls == (k2 ? 1UL : 0UL) + (k4 ? 1UL : 0UL) &&        /* emitted iff |coefficient| > 1e-16 */
         (!k2 || nr_is(nr->rec[0], C2, 0, Ei, Ej, Ek, El)) &&          /* C2 = -C(wj+wk), z2 form, first */
         (!k4 || nr_is(nr->rec[k2 ? 1 : 0], C4, 1, Ei, Ej, Ek, El));   /* C4 = C(wi+wl), z4 form */
}
static _Bool multiterm_resonant_ok(struct TwoParticleGFPart *p, cplx C, double beta, double Ei, double Ej, double Ek, double El, double Wi, double Wj, double Wk, double Wl)
{
  cplx R12 = spec_R12(C, beta, Wi), N12 = spec_N12(C, Wk, Wi), R23 = spec_R23(C, beta, Wj), N23 = spec_N23(C, Wj, Wl);
  _Bool k12 = keep(R12) || keep(N12), k23 = keep(R23) || keep(N23);
  TermListR *r = &p->ResonantTerms;
  return r->n_calls == (k12 ? 1UL : 0UL) + (k23 ? 1UL : 0UL) &&
         (!k12 || r_is(r->rec[0], R12, N12, 1, Ei, Ej, Ek, El)) &&            /* z1+z2 resonance */
         (!k23 || r_is(r->rec[k12 ? 1 : 0], R23, N23, 0, Ei, Ej, Ek, El));     /* z2+z3 resonance */
}
//@function Pomerol::TwoParticleGFPart::addMultiterm(std::complex<double>, double, double, double, double, double, double, double, double, double) as TwoParticleGFPart_addMultiterm
//@contract
__CPROVER_requires(__CPROVER_is_fresh(self, sizeof(*self)))
__CPROVER_requires(self->NonResonantTerms.n_calls == 0 && self->ResonantTerms.n_calls == 0)
__CPROVER_requires(D_SAME(self->CoefficientTolerance, TOL16))
__CPROVER_assigns(self->NonResonantTerms.n_calls, __CPROVER_object_upto(self->NonResonantTerms.rec, sizeof(self->NonResonantTerms.rec)),
                  self->ResonantTerms.n_calls, __CPROVER_object_upto(self->ResonantTerms.rec, sizeof(self->ResonantTerms.rec)))
/* C02: non-resonant terms C2 = -C(wj+wk) [z2 form], C4 = C(wi+wl) [z4 form], poles P1=Ej-Ei P2=Ek-Ej P3=El-Ek, kept iff |.| > 1e-16 */
__CPROVER_ensures(multiterm_nonresonant_ok(self, Coeff, Ei, Ej, Ek, El, Wi, Wj, Wk, Wl))
/* C02: resonant terms (R12 = C beta wi, N12 = C(wk-wi); z1+z2) and (R23 = -C beta wj, N23 = C(wj-wl); z2+z3), kept iff |R| or |N| > 1e-16 */
__CPROVER_ensures(multiterm_resonant_ok(self, Coeff, beta, Ei, Ej, Ek, El, Wi, Wj, Wk, Wl))
//@end

//@harness h_TPGFP_addMultiterm enforce=TwoParticleGFPart_addMultiterm props=C02 min_obl=270 reach=1 timeout=300
void h_TPGFP_addMultiterm(void)
{
  struct TwoParticleGFPart *p; cplx C; double beta, Ei, Ej, Ek, El, Wi, Wj, Wk, Wl;
  TwoParticleGFPart_addMultiterm(p, C, beta, Ei, Ej, Ek, El, Wi, Wj, Wk, Wl);
  REACH("exit");
}

/* ---------------------------------------------------------------------------------------------
 * operator()(z1,z2,z3): "sum over the 6 orderings ... with permuted frequencies (z1,z2,-z3)":
 * the term lists are evaluated at F[perm[0]], F[perm[1]], F[perm[2]] with F = (z1, z2, -z3);
 * evaluation of an uncomputed part throws. */
static cplx spec_freq(cplx z1, cplx z2, cplx z3, unsigned long k)
{ return k == 0 ? z1 : (k == 1 ? z2 : op_sub_cplx(z3)); }
//@function Pomerol::TwoParticleGFPart::operator()(std::complex<double>, std::complex<double>, std::complex<double>) const as TwoParticleGFPart_call3
//@contract
__CPROVER_requires(__CPROVER_is_fresh(self, sizeof(*self)))
/* type invariant of Permutation3: a permutation of {0,1,2} */
__CPROVER_requires(self->Permutation.perm[0] < 3 && self->Permutation.perm[1] < 3 && self->Permutation.perm[2] < 3)
__CPROVER_requires(self->NonResonantTerms.n_eval == 0 && self->ResonantTerms.n_eval == 0 && !VERIF_thrown)
__CPROVER_requires(D_SAME(self->ReduceResonanceTolerance, 1e-8))
__CPROVER_assigns(VERIF_thrown, self->NonResonantTerms.n_eval, self->NonResonantTerms.ez1, self->NonResonantTerms.ez2, self->NonResonantTerms.ez3,
                  self->ResonantTerms.n_eval, self->ResonantTerms.ez1, self->ResonantTerms.ez2, self->ResonantTerms.ez3, self->ResonantTerms.etol)
__CPROVER_ensures(VERIF_thrown == (self->Status != Computed))
__CPROVER_ensures(!VERIF_thrown ==> (self->NonResonantTerms.n_eval == 1 && self->ResonantTerms.n_eval == 1))
__CPROVER_ensures(!VERIF_thrown ==> (C_SAME(self->NonResonantTerms.ez1, spec_freq(z1, z2, z3, self->Permutation.perm[0])) &&
                                     C_SAME(self->NonResonantTerms.ez2, spec_freq(z1, z2, z3, self->Permutation.perm[1])) &&
                                     C_SAME(self->NonResonantTerms.ez3, spec_freq(z1, z2, z3, self->Permutation.perm[2]))))
__CPROVER_ensures(!VERIF_thrown ==> (C_SAME(self->ResonantTerms.ez1, spec_freq(z1, z2, z3, self->Permutation.perm[0])) &&
                                     C_SAME(self->ResonantTerms.ez2, spec_freq(z1, z2, z3, self->Permutation.perm[1])) &&
                                     C_SAME(self->ResonantTerms.ez3, spec_freq(z1, z2, z3, self->Permutation.perm[2])) &&
                                     D_SAME(self->ResonantTerms.etol, 1e-8)))
/* value = non-resonant sum + resonant sum at those frequencies */
__CPROVER_ensures(!VERIF_thrown ==> C_SAME(__CPROVER_return_value,
     op_add_cplx_cplx(nr_value(self->NonResonantTerms.ez1, self->NonResonantTerms.ez2, self->NonResonantTerms.ez3),
                      r_value(self->ResonantTerms.ez1, self->ResonantTerms.ez2, self->ResonantTerms.ez3, 1e-8))))
//@end

//@harness h_TPGFP_call3 enforce=TwoParticleGFPart_call3 props=C02 min_obl=372 reach=1 timeout=300
void h_TPGFP_call3(void)
{
  struct TwoParticleGFPart *p; cplx z1, z2, z3;
  cplx r = TwoParticleGFPart_call3(p, z1, z2, z3);
  REACH("exit");
}

/* ---------------------------------------------------------------------------------------------
 * clear(): "Purges all terms."  C02 ("both evaluation paths"): a purged part has no terms, so its on-demand value would be 0 -- it must
 * stop reporting Computed, so that operator() (contract above: throws iff Status != Computed) refuses instead of answering 0 for a
 * quadruple whose table entry is non-zero.  Both lists are emptied, nothing else is written. */
//@function Pomerol::TwoParticleGFPart::clear() as TwoParticleGFPart_clear
//@contract
__CPROVER_requires(__CPROVER_is_fresh(self, sizeof(*self)))
__CPROVER_assigns(self->NonResonantTerms.n_calls, self->ResonantTerms.n_calls, self->Status)
__CPROVER_ensures(self->NonResonantTerms.n_calls == 0 && self->ResonantTerms.n_calls == 0)
__CPROVER_ensures(self->Status == Constructed)
//@end
//@harness h_TPGFP_clear enforce=TwoParticleGFPart_clear props=C02 min_obl=67 reach=1 timeout=120
void h_TPGFP_clear(void)
{
  struct TwoParticleGFPart *p;
  TwoParticleGFPart_clear(p);
  REACH("exit");
}

/* ---------------------------------------------------------------------------------------------
 * Read accessors: the number of stored terms of EACH list is reported for that list (not the other one), the permutation returned is the
 * part's own member.  Nothing is written.  (The monitor's n_calls stands for the list's size: clear() above sets it to 0.) */
static inline unsigned long TermListNR_size(TermListNR *tl) { return tl->n_calls; }
static inline unsigned long TermListR_size(TermListR *tl) { return tl->n_calls; }
//@function Pomerol::TwoParticleGFPart::getNumNonResonantTerms() const as TwoParticleGFPart_getNumNonResonantTerms
//@contract
__CPROVER_requires(__CPROVER_is_fresh(self, sizeof(*self)))
__CPROVER_assigns()
__CPROVER_ensures(__CPROVER_return_value == self->NonResonantTerms.n_calls)
//@end
//@function Pomerol::TwoParticleGFPart::getNumResonantTerms() const as TwoParticleGFPart_getNumResonantTerms
//@contract
__CPROVER_requires(__CPROVER_is_fresh(self, sizeof(*self)))
__CPROVER_assigns()
__CPROVER_ensures(__CPROVER_return_value == self->ResonantTerms.n_calls)
//@end
//@function Pomerol::TwoParticleGFPart::getPermutation() const as TwoParticleGFPart_getPermutation
//@contract
__CPROVER_requires(__CPROVER_is_fresh(self, sizeof(*self)))
__CPROVER_assigns()
__CPROVER_ensures(__CPROVER_return_value == &self->Permutation)
//@end
//@harness h_TPGFP_getNumNR enforce=TwoParticleGFPart_getNumNonResonantTerms props=C02 min_obl=20 reach=1 timeout=120
void h_TPGFP_getNumNR(void)
{
  struct TwoParticleGFPart *p;
  unsigned long n = TwoParticleGFPart_getNumNonResonantTerms(p);
  REACH("exit");
}
//@harness h_TPGFP_getNumR enforce=TwoParticleGFPart_getNumResonantTerms props=C02 min_obl=20 reach=1 timeout=120
void h_TPGFP_getNumR(void)
{
  struct TwoParticleGFPart *p;
  unsigned long n = TwoParticleGFPart_getNumResonantTerms(p);
  REACH("exit");
}
//@harness h_TPGFP_getPermutation enforce=TwoParticleGFPart_getPermutation props=C02 min_obl=20 reach=1 timeout=120
void h_TPGFP_getPermutation(void)
{
  struct TwoParticleGFPart *p;
  const Permutation3 *r = TwoParticleGFPart_getPermutation(p);
  REACH("exit");
}

/* =============================================================================================
 * The two kinds of terms themselves (TwoParticleGFPart.h).  All pins: doubles are uninterpreted (congruence), the spec expression is
 * written in the operand order of the documentation.
 *
 * (a) IsNegligible ("Does term have a negligible residue?"):  resonant: |R| < Tol/div AND |N| < Tol/div;  non-resonant: |C| < Tol/div. */
static _Bool spec_small(cplx c, double tol, unsigned long divisor) { return D_LT(c_abs(c), D_DIV(tol, (double)divisor)); }
//@function Pomerol::TwoParticleGFPart::ResonantTerm::IsNegligible::operator()(Pomerol::TwoParticleGFPart::ResonantTerm const&, unsigned long) const as RIsNegligible_call
//@contract
__CPROVER_requires(__CPROVER_is_fresh(self, sizeof(*self)))
__CPROVER_assigns()
__CPROVER_ensures(__CPROVER_return_value == (spec_small(t.ResCoeff, self->Tolerance, ToleranceDivisor) && spec_small(t.NonResCoeff, self->Tolerance, ToleranceDivisor)))
//@end
//@function Pomerol::TwoParticleGFPart::NonResonantTerm::IsNegligible::operator()(Pomerol::TwoParticleGFPart::NonResonantTerm const&, unsigned long) const as NRIsNegligible_call
//@contract
__CPROVER_requires(__CPROVER_is_fresh(self, sizeof(*self)))
__CPROVER_assigns()
__CPROVER_ensures(__CPROVER_return_value == spec_small(t.Coeff, self->Tolerance, ToleranceDivisor))
//@end
//@harness h_RTerm_IsNegligible enforce=RIsNegligible_call props=C02 min_obl=45 reach=2 timeout=120
void h_RTerm_IsNegligible(void)
{
  RIsNegligible *p; RTerm t; unsigned long n;
  if (RIsNegligible_call(p, t, n)) REACH("negligible"); else REACH("kept");
}
//@harness h_NRTerm_IsNegligible enforce=NRIsNegligible_call props=C02 min_obl=33 reach=2 timeout=120
void h_NRTerm_IsNegligible(void)
{
  NRIsNegligible *p; NRTerm t; unsigned long n;
  if (NRIsNegligible_call(p, t, n)) REACH("negligible"); else REACH("kept");
}

/* (b) operator+= ("adds a term to this one; does not check the similarity"; Weight: "statistical weight of current term for averaging"):
 *   the weights add, every pole becomes the weighted average (W*P + W'*P')/(W+W'), the coefficients add, isz4 / isz1z2 are kept,
 *   *this is returned.  TYPE INVARIANT of a term: Weight >= 1 (constructor: 1; += only adds); LIMIT: Weight <= 2^61 (no overflow of W+W'). */
#define WEIGHT_OK(w) (1 <= (w) && (w) <= (1L << 61))
static double spec_avg_pole(long W, double P, long W2, double P2)
{ return D_DIV(D_ADD(D_MUL((double)W, P), D_MUL((double)W2, P2)), (double)(W + W2)); }
static _Bool nr_sum_is(NRTerm now, NRTerm old, NRTerm t)
{
  return now.Weight == old.Weight + t.Weight && now.isz4 == old.isz4 && C_SAME(now.Coeff, op_add_cplx_cplx(old.Coeff, t.Coeff)) &&
         D_SAME(now.Poles[0], spec_avg_pole(old.Weight, old.Poles[0], t.Weight, t.Poles[0])) &&
         D_SAME(now.Poles[1], spec_avg_pole(old.Weight, old.Poles[1], t.Weight, t.Poles[1])) &&
         D_SAME(now.Poles[2], spec_avg_pole(old.Weight, old.Poles[2], t.Weight, t.Poles[2]));
}
static _Bool r_sum_is(RTerm now, RTerm old, RTerm t)
{
  return now.Weight == old.Weight + t.Weight && now.isz1z2 == old.isz1z2 &&
         C_SAME(now.ResCoeff, op_add_cplx_cplx(old.ResCoeff, t.ResCoeff)) && C_SAME(now.NonResCoeff, op_add_cplx_cplx(old.NonResCoeff, t.NonResCoeff)) &&
         D_SAME(now.Poles[0], spec_avg_pole(old.Weight, old.Poles[0], t.Weight, t.Poles[0])) &&
         D_SAME(now.Poles[1], spec_avg_pole(old.Weight, old.Poles[1], t.Weight, t.Poles[1])) &&
         D_SAME(now.Poles[2], spec_avg_pole(old.Weight, old.Poles[2], t.Weight, t.Poles[2]));
}
/* ghost for the loop invariant (no calls there): bit patterns of the three poles before the call and of the three documented averages */
unsigned long g_old_pole[3], g_exp_pole[3];
#define PBITS(x) (*(unsigned long *)&(x))
#define POLE_GHOST(self, t, q) (g_old_pole[q] == d_bits((self)->Poles[q]) && g_exp_pole[q] == d_bits(spec_avg_pole((self)->Weight, (self)->Poles[q], (t).Weight, (t).Poles[q])))
#define POLE_INV(self, q) (PBITS((self)->Poles[q]) == (p > (q) ? g_exp_pole[q] : g_old_pole[q]))
//@function Pomerol::TwoParticleGFPart::NonResonantTerm::operator+=(Pomerol::TwoParticleGFPart::NonResonantTerm const&) as NRTerm_addassign
//@contract
__CPROVER_requires(__CPROVER_is_fresh(self, sizeof(*self)) && WEIGHT_OK(self->Weight) && WEIGHT_OK(AnotherTerm.Weight))
__CPROVER_requires(POLE_GHOST(self, AnotherTerm, 0) && POLE_GHOST(self, AnotherTerm, 1) && POLE_GHOST(self, AnotherTerm, 2))
__CPROVER_assigns(self->Weight, self->Coeff, __CPROVER_object_upto(self->Poles, sizeof(self->Poles)))
__CPROVER_ensures(__CPROVER_return_value == self)
__CPROVER_ensures(nr_sum_is(*self, __CPROVER_old(*self), AnotherTerm))
//@loop 1
__CPROVER_assigns(p, __CPROVER_object_upto(self->Poles, sizeof(self->Poles)))
__CPROVER_loop_invariant(p <= 3 && POLE_INV(self, 0) && POLE_INV(self, 1) && POLE_INV(self, 2))
__CPROVER_decreases(3 - (int)p)
//@end
//@function Pomerol::TwoParticleGFPart::ResonantTerm::operator+=(Pomerol::TwoParticleGFPart::ResonantTerm const&) as RTerm_addassign
//@contract
__CPROVER_requires(__CPROVER_is_fresh(self, sizeof(*self)) && WEIGHT_OK(self->Weight) && WEIGHT_OK(AnotherTerm.Weight))
__CPROVER_requires(POLE_GHOST(self, AnotherTerm, 0) && POLE_GHOST(self, AnotherTerm, 1) && POLE_GHOST(self, AnotherTerm, 2))
__CPROVER_assigns(self->Weight, self->ResCoeff, self->NonResCoeff, __CPROVER_object_upto(self->Poles, sizeof(self->Poles)))
__CPROVER_ensures(__CPROVER_return_value == self)
__CPROVER_ensures(r_sum_is(*self, __CPROVER_old(*self), AnotherTerm))
//@loop 1
__CPROVER_assigns(p, __CPROVER_object_upto(self->Poles, sizeof(self->Poles)))
__CPROVER_loop_invariant(p <= 3 && POLE_INV(self, 0) && POLE_INV(self, 1) && POLE_INV(self, 2))
__CPROVER_decreases(3 - (int)p)
//@end
//@harness h_NRTerm_addassign enforce=NRTerm_addassign props=C02 min_obl=271 reach=1 timeout=120
void h_NRTerm_addassign(void) { NRTerm *t; NRTerm u; NRTerm_addassign(t, u); REACH("exit"); }
//@harness h_RTerm_addassign enforce=RTerm_addassign props=C02 min_obl=271 reach=1 timeout=120
void h_RTerm_addassign(void) { RTerm *t; RTerm u; RTerm_addassign(t, u); REACH("exit"); }

/* (c) the value of one term -- the "resonance decision" of C02.
 *   non-resonant:  C/((z1-P1)(z2-P2)(z3-P3))                       [isz4 == false]
 *                  C/((z1-P1)(z1+z2+z3-P1-P2-P3)(z3-P3))           [isz4 == true]
 *   resonant:      ( |D| < tol ? R : N/D ) / ((z1-P1)(z3-P3)),  D = z1+z2-P1-P2 [isz1z2]  or  z2+z3-P2-P3 [otherwise]
 *                  ("R delta(D) + N (1-delta(D))/D": delta(D) = 1 iff |D| < KroneckerSymbolTolerance) */
static cplx spec_nr_value(NRTerm t, cplx z1, cplx z2, cplx z3)
{
  cplx a = op_sub_cplx_double(z1, t.Poles[0]), c = op_sub_cplx_double(z3, t.Poles[2]);
  cplx b = t.isz4 ? op_sub_cplx_double(op_sub_cplx_double(op_sub_cplx_double(op_add_cplx_cplx(op_add_cplx_cplx(z1, z2), z3), t.Poles[0]), t.Poles[1]), t.Poles[2])
                  : op_sub_cplx_double(z2, t.Poles[1]);
  return op_div_cplx_cplx(t.Coeff, op_mul_cplx_cplx(op_mul_cplx_cplx(a, b), c));
}
static cplx spec_r_value(RTerm t, cplx z1, cplx z2, cplx z3, double tol)
{
  cplx D = t.isz1z2 ? op_sub_cplx_double(op_sub_cplx_double(op_add_cplx_cplx(z1, z2), t.Poles[0]), t.Poles[1])
                    : op_sub_cplx_double(op_sub_cplx_double(op_add_cplx_cplx(z2, z3), t.Poles[1]), t.Poles[2]);
  cplx num = D_LT(c_abs(D), tol) ? t.ResCoeff : op_div_cplx_cplx(t.NonResCoeff, D);
  return op_div_cplx_cplx(num, op_mul_cplx_cplx(op_sub_cplx_double(z1, t.Poles[0]), op_sub_cplx_double(z3, t.Poles[2])));
}
//@rename NRTerm_call/3 => NRTerm_call
//@function Pomerol::TwoParticleGFPart::NonResonantTerm::operator()(std::complex<double>, std::complex<double>, std::complex<double>) const as NRTerm_call
//@contract
__CPROVER_requires(__CPROVER_is_fresh(self, sizeof(*self)))
__CPROVER_assigns()
__CPROVER_ensures(C_SAME(__CPROVER_return_value, spec_nr_value(*self, z1, z2, z3)))
//@end
//@function Pomerol::TwoParticleGFPart::ResonantTerm::operator()(std::complex<double>, std::complex<double>, std::complex<double>, double) const as RTerm_call
//@contract
__CPROVER_requires(__CPROVER_is_fresh(self, sizeof(*self)))
__CPROVER_assigns()
__CPROVER_ensures(C_SAME(__CPROVER_return_value, spec_r_value(*self, z1, z2, z3, KroneckerSymbolTolerance)))
//@end
//@harness h_NRTerm_call enforce=NRTerm_call props=C02 min_obl=105 reach=1 timeout=300
void h_NRTerm_call(void) { NRTerm *t; cplx z1, z2, z3; NRTerm_call(t, z1, z2, z3); REACH("exit"); }
//@harness h_RTerm_call enforce=RTerm_call props=C02 min_obl=128 reach=1 timeout=300
void h_RTerm_call(void) { RTerm *t; cplx z1, z2, z3; double tol; RTerm_call(t, z1, z2, z3, tol); REACH("exit"); }

/* (d) Compare ("Comparator object for terms"; TermList.h: "Like terms (equivalent w.r.t. TermType::Compare) are automatically collected"):
 *   terms of different kind (isz4 / isz1z2) are ordered by the flag (false first); terms of the same kind lexicographically by
 *   (P1, P2, P3) where two poles closer than Tolerance count as equal: the first pole pair with |P - P'| >= Tolerance decides by `<`,
 *   for the last pole "less" means P3' - P3 >= Tolerance.  Pin (uninterpreted doubles).  NOT proved here: the properties of the induced
 *   equivalence (strict weak order, like <=> all three poles within Tolerance) -- for the one-pole terms see termlist.c. */
//@free abs(double) => d_abs
//@function Pomerol::TwoParticleGFPart::NonResonantTerm::Compare::real_eq(double, double) const as NRCompare_real_eq
//@end
//@function Pomerol::TwoParticleGFPart::ResonantTerm::Compare::real_eq(double, double) const as RCompare_real_eq
//@end
static _Bool spec_close(double x1, double x2, double tol) { return D_LT(d_abs(D_SUB(x1, x2)), tol); }
static _Bool spec_poles_less(double a0, double a1, double a2, double b0, double b1, double b2, double tol)
{
  return !spec_close(a0, b0, tol) ? D_LT(a0, b0) : (!spec_close(a1, b1, tol) ? D_LT(a1, b1) : D_GE(D_SUB(b2, a2), tol));
}
//@function Pomerol::TwoParticleGFPart::NonResonantTerm::Compare::operator()(Pomerol::TwoParticleGFPart::NonResonantTerm const&, Pomerol::TwoParticleGFPart::NonResonantTerm const&) const as NRCompare_call
//@contract
__CPROVER_requires(__CPROVER_is_fresh(self, sizeof(*self)))
__CPROVER_assigns()
__CPROVER_ensures(__CPROVER_return_value == (t1.isz4 == t2.isz4 ? spec_poles_less(t1.Poles[0], t1.Poles[1], t1.Poles[2], t2.Poles[0], t2.Poles[1], t2.Poles[2], self->Tolerance)
                                                                   : (!t1.isz4 && t2.isz4)))
//@end
//@function Pomerol::TwoParticleGFPart::ResonantTerm::Compare::operator()(Pomerol::TwoParticleGFPart::ResonantTerm const&, Pomerol::TwoParticleGFPart::ResonantTerm const&) const as RCompare_call
//@contract
__CPROVER_requires(__CPROVER_is_fresh(self, sizeof(*self)))
__CPROVER_assigns()
__CPROVER_ensures(__CPROVER_return_value == (t1.isz1z2 == t2.isz1z2 ? spec_poles_less(t1.Poles[0], t1.Poles[1], t1.Poles[2], t2.Poles[0], t2.Poles[1], t2.Poles[2], self->Tolerance)
                                                                       : (!t1.isz1z2 && t2.isz1z2)))
//@end
//@harness h_NRTerm_Compare enforce=NRCompare_call props=C02 min_obl=39 reach=1 timeout=120
/* a C++ bool holds 0 or 1: the two flags are given canonical values (a nondeterministic struct may carry other bit patterns in a _Bool) */
void h_NRTerm_Compare(void) { NRCompare *c; NRTerm a, b; a.isz4 = nondet_int() != 0; b.isz4 = nondet_int() != 0; NRCompare_call(c, a, b); REACH("exit"); }
//@harness h_RTerm_Compare enforce=RCompare_call props=C02 min_obl=39 reach=1 timeout=120
void h_RTerm_Compare(void) { RCompare *c; RTerm a, b; a.isz1z2 = nondet_int() != 0; b.isz1z2 = nondet_int() != 0; RCompare_call(c, a, b); REACH("exit"); }

/* =============================================================================================
 * WAVE-2 ADDITIONS -- what is proved, mutants (tools/try_mutant.py; obligation that failed)
 * h_RTerm_IsNegligible / h_NRTerm_IsNegligible: negligible <=> |R| < Tol/div AND |N| < Tol/div  resp. |C| < Tol/div (pins).
 *     `&&` -> `||`                                    RIsNegligible_call.postcondition.1
 *     Tolerance / divisor -> Tolerance * divisor      NRIsNegligible_call.postcondition.1
 * h_NRTerm_addassign / h_RTerm_addassign: weights add, each pole := (W*P + W'*P')/(W+W'), coefficients add, kind flag kept, returns *this;
 *   frame Weight, coefficients, Poles.  Weights in [1, 2^61] (type invariant + LIMIT).
 *     Coeff = AnotherTerm.Coeff                       NRTerm_addassign.postcondition.2
 *     plain mean (P+P')/2                             NRTerm_addassign.loop_invariant_step.1/.2
 *     NonResCoeff += AnotherTerm.ResCoeff             RTerm_addassign.postcondition.2
 *     Weight not updated                              RTerm_addassign.postcondition.2
 * h_NRTerm_call / h_RTerm_call: value of one term = the documented form (z2 / z4 form; resonant: (|D| < tol ? R : N/D)/((z1-P1)(z3-P3)) with
 *   D = z1+z2-P1-P2 or z2+z3-P2-P3) -- the resonance decision of C02 for ONE term; pins, 25 s / 36 s.
 *     ternary branches swapped (z1+z2 form)           RTerm_call.postcondition.1
 *     z2+z3 form with P1+P2                           RTerm_call.postcondition.1
 *     (z3-Poles[1]) in the z2 form                    NRTerm_call.postcondition.1
 *     z1+z2-z3 in the z4 form                         NRTerm_call.postcondition.1
 * h_TPGFP_call3 (existing contract, new 3-argument model TermListR_call3 of TermList's call operator, etol = 1e-16 = documented default):
 *     ResonantTerms(z1,z2,z3) without ReduceResonanceTolerance    TwoParticleGFPart_call3.postcondition.4/.5 (etol == 1e-8; value)
 * h_NRTerm_Compare / h_RTerm_Compare: order by kind flag, then lexicographic by poles with tolerance (pin).
 *     isz4 `<` -> `>`                                 NRCompare_call.postcondition.1
 *     real_eq(t1.Poles[0], t2.Poles[1])               RCompare_call.postcondition.1
 *     last pole `>=` -> `>`                           NRCompare_call.postcondition.1
 * NOT covered: properties of the equivalence induced by Compare for three-pole terms; TermList<...>::add_term for these term types (the container
 *   is verified for GreensFunctionPart::Term in termlist.c); bit-precise behaviour of the term values near a pole.
 */
