/* TwoParticleGFPart: multi-term of Hafermann et al. (addMultiterm), frequency permutation and term
 * evaluation (operator()), resonant / non-resonant term values.  Property C02. */
#include "../stubs/common.h"
#include "../stubs/cplx.h"
#include "../stubs/sparse.h"
#include "../stubs/dense.h"
//@include types_common.inc
//@type (Pomerol::)?RealVectorType|Eigen::Matrix<double, -1, 1(, 0)?(, -1, 1)?> => RealVector ptr
//@type (Pomerol::)?TermList<(Pomerol::)?TwoParticleGFPart::NonResonantTerm> => TermListNR ptr
//@type (Pomerol::)?TermList<(Pomerol::)?TwoParticleGFPart::ResonantTerm> => TermListR ptr
//@record Pomerol::TwoParticleGFPart::NonResonantTerm => NRTerm val
//@record Pomerol::TwoParticleGFPart::ResonantTerm => RTerm val
//@record Pomerol::Permutation3 => Permutation3 val
//@record Pomerol::CreationOperatorPart => struct FieldOperatorPart ptr
//@tu src/pomerol/TwoParticleGFPart.cpp
//@enum ComputableObject::
typedef struct NRTerm NRTerm; typedef struct RTerm RTerm; typedef struct Permutation3 Permutation3;
//@struct Pomerol::TwoParticleGFPart::NonResonantTerm
//@struct Pomerol::TwoParticleGFPart::ResonantTerm
//@struct Pomerol::Permutation3
//@struct Pomerol::FieldOperatorPart only=elementsColMajor,elementsRowMajor,Status
//@struct Pomerol::HamiltonianPart only=Eigenvalues,Status
//@struct Pomerol::DensityMatrixPart only=weights,beta

/* ---- monitors for the two term lists: record the first two add_term calls and the arguments of the
 * evaluation call (the container TermList<> itself is verified in termlist.c) */
typedef struct TermListNR { unsigned long n_calls; NRTerm rec[2]; unsigned long n_eval; cplx ez1, ez2, ez3; } TermListNR;
typedef struct TermListR  { unsigned long n_calls; RTerm rec[2];  unsigned long n_eval; cplx ez1, ez2, ez3; double etol; } TermListR;
static inline void TermListNR_add_term(TermListNR *tl, NRTerm t) { if (tl->n_calls < 2) tl->rec[tl->n_calls] = t; tl->n_calls++; }
static inline void TermListR_add_term(TermListR *tl, RTerm t) { if (tl->n_calls < 2) tl->rec[tl->n_calls] = t; tl->n_calls++; }
static inline void TermListNR_clear(TermListNR *tl) { tl->n_calls = 0; }
static inline void TermListR_clear(TermListR *tl) { tl->n_calls = 0; }
/* value of a term list = opaque function of the frequencies (and of the list, which is not modified) */
double __CPROVER_uninterpreted_nrval_re(double, double, double, double, double, double);
double __CPROVER_uninterpreted_nrval_im(double, double, double, double, double, double);
double __CPROVER_uninterpreted_rval_re(double, double, double, double, double, double, double);
double __CPROVER_uninterpreted_rval_im(double, double, double, double, double, double, double);
static inline cplx nr_value(cplx z1, cplx z2, cplx z3)
{ return cplx_ctor2(__CPROVER_uninterpreted_nrval_re(z1.re, z1.im, z2.re, z2.im, z3.re, z3.im), __CPROVER_uninterpreted_nrval_im(z1.re, z1.im, z2.re, z2.im, z3.re, z3.im)); }
static inline cplx r_value(cplx z1, cplx z2, cplx z3, double tol)
{ return cplx_ctor2(__CPROVER_uninterpreted_rval_re(z1.re, z1.im, z2.re, z2.im, z3.re, z3.im, tol), __CPROVER_uninterpreted_rval_im(z1.re, z1.im, z2.re, z2.im, z3.re, z3.im, tol)); }
static inline cplx TermListNR_call(TermListNR *tl, cplx z1, cplx z2, cplx z3)
{ tl->n_eval++; tl->ez1 = z1; tl->ez2 = z2; tl->ez3 = z3; return nr_value(z1, z2, z3); }
static inline cplx TermListR_call(TermListR *tl, cplx z1, cplx z2, cplx z3, double tol)
{ tl->n_eval++; tl->ez1 = z1; tl->ez2 = z2; tl->ez3 = z3; tl->etol = tol; return r_value(z1, z2, z3, tol); }

//@struct Pomerol::TwoParticleGFPart embed=O1,O2,O3,CX4,Hpart1,Hpart2,Hpart3,Hpart4,DMpart1,DMpart2,DMpart3,DMpart4
//@free abs(cplx) => c_abs

//@function Pomerol::TwoParticleGFPart::NonResonantTerm::NonResonantTerm(std::complex<double>, double, double, double, bool) as NRTerm_ctor5
//@end
//@function Pomerol::TwoParticleGFPart::ResonantTerm::ResonantTerm(std::complex<double>, std::complex<double>, double, double, double, bool) as RTerm_ctor6
//@end

/* ---------------------------------------------------------------------------------------------
 * SPEC of the multi-term, from the documentation of addMultiterm in TwoParticleGFPart.h:
 *   P1 = Ej-Ei, P2 = Ek-Ej, P3 = El-Ek, C2 = -C(wj+wk), C4 = C(wi+wl),
 *   R12 = C beta wi, N12 = C(wk-wi), R23 = -C beta wj, N23 = C(wj-wl);
 *   non-resonant terms (C2; isz4=false) and (C4; isz4=true) kept iff |coefficient| > 1e-16,
 *   resonant terms (R12,N12; z1+z2) and (R23,N23; z2+z3) kept iff |R| > 1e-16 or |N| > 1e-16. */
#define TOL16 1e-16
static cplx spec_C2(cplx C, double Wj, double Wk) { return op_mul_cplx_double(op_sub_cplx(C), D_ADD(Wj, Wk)); }
static cplx spec_C4(cplx C, double Wi, double Wl) { return op_mul_cplx_double(C, D_ADD(Wi, Wl)); }
static cplx spec_R12(cplx C, double beta, double Wi) { return op_mul_cplx_double(op_mul_cplx_double(C, beta), Wi); }
static cplx spec_N12(cplx C, double Wk, double Wi) { return op_mul_cplx_double(C, D_SUB(Wk, Wi)); }
static cplx spec_R23(cplx C, double beta, double Wj) { return op_mul_cplx_double(op_mul_cplx_double(op_sub_cplx(C), beta), Wj); }
static cplx spec_N23(cplx C, double Wj, double Wl) { return op_mul_cplx_double(C, D_SUB(Wj, Wl)); }
static _Bool keep(cplx c) { return D_GT(c_abs(c), TOL16); }
static _Bool poles_ok(double P0, double P1, double P2, double Ei, double Ej, double Ek, double El)
{ return D_SAME(P0, D_SUB(Ej, Ei)) && D_SAME(P1, D_SUB(Ek, Ej)) && D_SAME(P2, D_SUB(El, Ek)); }
static _Bool nr_is(NRTerm t, cplx c, _Bool isz4, double Ei, double Ej, double Ek, double El)
{ return C_SAME(t.Coeff, c) && t.isz4 == isz4 && t.Weight == 1 && poles_ok(t.Poles[0], t.Poles[1], t.Poles[2], Ei, Ej, Ek, El); }
static _Bool r_is(RTerm t, cplx r, cplx n, _Bool isz1z2, double Ei, double Ej, double Ek, double El)
{ return C_SAME(t.ResCoeff, r) && C_SAME(t.NonResCoeff, n) && t.isz1z2 == isz1z2 && t.Weight == 1 && poles_ok(t.Poles[0], t.Poles[1], t.Poles[2], Ei, Ej, Ek, El); }

/* the documented multi-term, each quantity computed once per predicate */
static _Bool multiterm_nonresonant_ok(struct TwoParticleGFPart *p, cplx C, double Ei, double Ej, double Ek, double El, double Wi, double Wj, double Wk, double Wl)
{
  cplx C2 = spec_C2(C, Wj, Wk), C4 = spec_C4(C, Wi, Wl);
  _Bool k2 = keep(C2), k4 = keep(C4);
  TermListNR *nr = &p->NonResonantTerms;
  return nr->n_calls == (k2 ? 1UL : 0UL) + (k4 ? 1UL : 0UL) &&        /* emitted iff |coefficient| > 1e-16 */
         (!k2 || nr_is(nr->rec[0], C2, 0, Ei, Ej, Ek, El)) &&          /* C2 = -C(wj+wk), z2 form, first */
         (!k4 || nr_is(nr->rec[k2 ? 1 : 0], C4, 1, Ei, Ej, Ek, El));   /* C4 = C(wi+wl), z4 form */
}
static _Bool multiterm_resonant_ok(struct TwoParticleGFPart *p, cplx C, double beta, double Ei, double Ej, double Ek, double El, double Wi, double Wj, double Wk, double Wl)
{
  cplx R12 = spec_R12(C, beta, Wi), N12 = spec_N12(C, Wk, Wi), R23 = spec_R23(C, beta, Wj), N23 = spec_N23(C, Wj, Wl);
  _Bool k12 = keep(R12) || keep(N12), k23 = keep(R23) || keep(N23);
  TermListR *r = &p->ResonantTerms;
  return r->n_calls == (k12 ? 1UL : 0UL) + (k23 ? 1UL : 0UL) &&
         (!k12 || r_is(r->rec[0], R12, N12, 1, Ei, Ej, Ek, El)) &&            /* z1+z2 resonance */
         (!k23 || r_is(r->rec[k12 ? 1 : 0], R23, N23, 0, Ei, Ej, Ek, El));     /* z2+z3 resonance */
}
//@function Pomerol::TwoParticleGFPart::addMultiterm(std::complex<double>, double, double, double, double, double, double, double, double, double) as TwoParticleGFPart_addMultiterm
//@contract
__CPROVER_requires(__CPROVER_is_fresh(self, sizeof(*self)))
__CPROVER_requires(self->NonResonantTerms.n_calls == 0 && self->ResonantTerms.n_calls == 0)
__CPROVER_requires(D_SAME(self->CoefficientTolerance, TOL16))
__CPROVER_assigns(self->NonResonantTerms.n_calls, __CPROVER_object_upto(self->NonResonantTerms.rec, sizeof(self->NonResonantTerms.rec)),
                  self->ResonantTerms.n_calls, __CPROVER_object_upto(self->ResonantTerms.rec, sizeof(self->ResonantTerms.rec)))
/* C02: non-resonant terms C2 = -C(wj+wk) [z2 form], C4 = C(wi+wl) [z4 form], poles P1=Ej-Ei P2=Ek-Ej P3=El-Ek, kept iff |.| > 1e-16 */
__CPROVER_ensures(multiterm_nonresonant_ok(self, Coeff, Ei, Ej, Ek, El, Wi, Wj, Wk, Wl))
/* C02: resonant terms (R12 = C beta wi, N12 = C(wk-wi); z1+z2) and (R23 = -C beta wj, N23 = C(wj-wl); z2+z3), kept iff |R| or |N| > 1e-16 */
__CPROVER_ensures(multiterm_resonant_ok(self, Coeff, beta, Ei, Ej, Ek, El, Wi, Wj, Wk, Wl))
//@end

//@harness h_TPGFP_addMultiterm enforce=TwoParticleGFPart_addMultiterm props=C02 min_obl=270 reach=1 timeout=300
void h_TPGFP_addMultiterm(void)
{
  struct TwoParticleGFPart *p; cplx C; double beta, Ei, Ej, Ek, El, Wi, Wj, Wk, Wl;
  TwoParticleGFPart_addMultiterm(p, C, beta, Ei, Ej, Ek, El, Wi, Wj, Wk, Wl);
  REACH("exit");
}

/* ---------------------------------------------------------------------------------------------
 * operator()(z1,z2,z3): "sum over the 6 orderings ... with permuted frequencies (z1,z2,-z3)":
 * the term lists are evaluated at F[perm[0]], F[perm[1]], F[perm[2]] with F = (z1, z2, -z3);
 * evaluation of an uncomputed part throws. */
static cplx spec_freq(cplx z1, cplx z2, cplx z3, unsigned long k)
{ return k == 0 ? z1 : (k == 1 ? z2 : op_sub_cplx(z3)); }
//@function Pomerol::TwoParticleGFPart::operator()(std::complex<double>, std::complex<double>, std::complex<double>) const as TwoParticleGFPart_call3
//@contract
__CPROVER_requires(__CPROVER_is_fresh(self, sizeof(*self)))
/* type invariant of Permutation3: a permutation of {0,1,2} */
__CPROVER_requires(self->Permutation.perm[0] < 3 && self->Permutation.perm[1] < 3 && self->Permutation.perm[2] < 3)
__CPROVER_requires(self->NonResonantTerms.n_eval == 0 && self->ResonantTerms.n_eval == 0 && !VERIF_thrown)
__CPROVER_requires(D_SAME(self->ReduceResonanceTolerance, 1e-8))
__CPROVER_assigns(VERIF_thrown, self->NonResonantTerms.n_eval, self->NonResonantTerms.ez1, self->NonResonantTerms.ez2, self->NonResonantTerms.ez3,
                  self->ResonantTerms.n_eval, self->ResonantTerms.ez1, self->ResonantTerms.ez2, self->ResonantTerms.ez3, self->ResonantTerms.etol)
__CPROVER_ensures(VERIF_thrown == (self->Status != Computed))
__CPROVER_ensures(!VERIF_thrown ==> (self->NonResonantTerms.n_eval == 1 && self->ResonantTerms.n_eval == 1))
__CPROVER_ensures(!VERIF_thrown ==> (C_SAME(self->NonResonantTerms.ez1, spec_freq(z1, z2, z3, self->Permutation.perm[0])) &&
                                     C_SAME(self->NonResonantTerms.ez2, spec_freq(z1, z2, z3, self->Permutation.perm[1])) &&
                                     C_SAME(self->NonResonantTerms.ez3, spec_freq(z1, z2, z3, self->Permutation.perm[2]))))
__CPROVER_ensures(!VERIF_thrown ==> (C_SAME(self->ResonantTerms.ez1, spec_freq(z1, z2, z3, self->Permutation.perm[0])) &&
                                     C_SAME(self->ResonantTerms.ez2, spec_freq(z1, z2, z3, self->Permutation.perm[1])) &&
                                     C_SAME(self->ResonantTerms.ez3, spec_freq(z1, z2, z3, self->Permutation.perm[2])) &&
                                     D_SAME(self->ResonantTerms.etol, 1e-8)))
/* value = non-resonant sum + resonant sum at those frequencies */
__CPROVER_ensures(!VERIF_thrown ==> C_SAME(__CPROVER_return_value,
     op_add_cplx_cplx(nr_value(self->NonResonantTerms.ez1, self->NonResonantTerms.ez2, self->NonResonantTerms.ez3),
                      r_value(self->ResonantTerms.ez1, self->ResonantTerms.ez2, self->ResonantTerms.ez3, 1e-8))))
//@end

//@harness h_TPGFP_call3 enforce=TwoParticleGFPart_call3 props=C02 min_obl=372 reach=1 timeout=300
void h_TPGFP_call3(void)
{
  struct TwoParticleGFPart *p; cplx z1, z2, z3;
  cplx r = TwoParticleGFPart_call3(p, z1, z2, z3);
  REACH("exit");
}
