/* SusceptibilityPart -- the bosonic Lehmann sum over coincident non-zeros of a row of A and a column of B, with the
 * zero-energy pole collected separately (C14, C17); evaluation in frequency and imaginary time (C14).
 * Mutants and what is / is not proved: see the comment at the end of the file. */
#include "../stubs/common.h"
/* ONLY harness h_SPTerm_tau_range is built with -DVERIF_FP_IEEE (bit-precise + - < unary-minus): fprange.h then replaces
 * D_MUL / D_DIV / exp by contract models (assumptions M1, M2, E1 there); without the flag it defines nothing. */
#include "../stubs/fprange.h"
#include "../stubs/cplx.h"
#include "../stubs/sparse.h"
#include "../stubs/dense.h"
//@include types_common.inc
//@type (Pomerol::)?RealVectorType|Eigen::Matrix<double, -1, 1(, 0)?(, -1, 1)?> => RealVector ptr
//@type (Pomerol::)?TermList<(Pomerol::)?SusceptibilityPart::Term> => TermListSP ptr
//@record Pomerol::SusceptibilityPart::Term => SPTerm val
//@record Pomerol::QuadraticOperatorPart => struct FieldOperatorPart ptr
//@tu src/pomerol/SusceptibilityPart.cpp
//@enum ComputableObject::
typedef struct SPTerm SPTerm;
//@struct Pomerol::SusceptibilityPart::Term
//@struct Pomerol::FieldOperatorPart only=elementsColMajor,elementsRowMajor,Status
//@struct Pomerol::HamiltonianPart only=Eigenvalues,Status
//@struct Pomerol::DensityMatrixPart only=weights,beta,MatsubaraSpacing
//@struct Pomerol::Thermal

/* ---- TermList<Term>: monitor for add_term; Terms(z) / Terms(tau,beta) are opaque sums (the container itself -- merging of
 * like poles within 1e-8, dropping of negligible sums, the summation loop -- is TRUSTED here). */
typedef struct TermListSP { unsigned long n_calls; long id; double cmp_tol, neg_tol; /* tolerances of Term::Compare / Term::IsNegligible */ } TermListSP;
struct SusceptibilityPart;
struct SusceptibilityPart *g_self;   /* the object under verification (for the monitors) */
long g_hits;                          /* number of add_term calls at the ghost pair (p,q) */
long g_zp_hits;                       /* number of zero-pole accumulations at the ghost pair (p,q) */
long g_exp_term, g_exp_zp;            /* expected values of the two counters (pre-state; calls are not allowed in loop invariants) */
long g_last_a, g_last_b;              /* positions of the most recent index() read on the A / B iterator */
long g_last_ao, g_last_bo;            /* ... and the outer vectors (row of A / column of B) these iterators walk */
unsigned long g_zpw_bits;             /* MODEL of ZeroPoleWeight (bit pattern): updated by the abs(Pole) monitor with the documented addend */
void TermListSP_add_term(TermListSP *tl, SPTerm t);
/* the link between compute() and Term::operator()(tau,beta): every term handed to the list has |Pole| >= 1e-8 */
#define SPTERM_POLE_OK(P) (!D_LT(d_abs(P), 1e-8))
static inline void TermListSP_clear(TermListSP *tl) { tl->n_calls = 0; }

//@struct Pomerol::SusceptibilityPart embed=HpartInner,HpartOuter,DMpartInner,DMpartOuter,A,B

#define ZPW_BITS(s) (*(unsigned long *)&(s)->ZeroPoleWeight)

/* spec-local wrappers of the iterator stubs of sparse.h (same assertions / assumptions): construction and index() reads
 * additionally publish WHERE the iterator is (ghost globals for the monitors; cheaper than ghost fields behind pointers),
 * value() does not record anything (the monitors identify the pair by the index() positions and pin the values read
 * through the residue / addend formulas). */
#undef SpItR_ctor2
#undef SpItC_ctor2
#undef SpItR_index
#undef SpItC_index
#undef SpItR_value
#undef SpItC_value
#define SpItR_ctor2(mat, outer_) ({ g_last_ao = (outer_); SpIt_ctor2(mat, outer_); })
#define SpItC_ctor2(mat, outer_) ({ g_last_bo = (outer_); SpIt_ctor2(mat, outer_); })
#define SpItR_index(it) ({ g_last_a = (it)->m_id; SpIt_index(it); })
#define SpItC_index(it) ({ g_last_b = (it)->m_id; SpIt_index(it); })
#define SpItR_value(it) ({ \
  __CPROVER_assert(0 <= (it)->m_id && (it)->m_id < (it)->m->nnz, "InnerIterator::value(): read inside the value array"); \
  &(it)->m->values[(it)->m_id]; })
#define SpItC_value SpItR_value

/* SPEC (from the property statement C14 / bosonic Lehmann representation, SusceptibilityPart.h):
 *   for every stored A[n,m] and B[m,n] (n = row of A = state of the OUTER block, m = column of A = state of the INNER block):
 *     pole P = E_m - E_n;
 *     |P| <  1e-8 (ReduceResonanceTolerance): ZeroPoleWeight += A[n,m]*B[m,n]*w_n,  no term;
 *     otherwise: residue R = A[n,m]*B[m,n]*(w_n - w_m), term (R,P) kept iff |R| > 1e-8 (MatrixElementTolerance). */
static double spec_pole_at(long n, long ap)
{
  long m = g_self->A.elementsRowMajor.inner[ap];
  return D_SUB(g_self->HpartInner.Eigenvalues.data[m], g_self->HpartOuter.Eigenvalues.data[n]);
}
static _Bool spec_is_zero_pole(long n, long ap) { return D_LT(d_abs(spec_pole_at(n, ap)), 1e-8); }
static cplx spec_residue_at(long n, long ap, long bp)
{
  SparseM *Am = &g_self->A.elementsRowMajor, *Bm = &g_self->B.elementsColMajor;
  long m = Am->inner[ap];
  return cplx_ctor1(D_MUL(D_MUL(Am->values[ap], Bm->values[bp]), D_SUB(g_self->DMpartOuter.weights.data[n], g_self->DMpartInner.weights.data[m])));
}
static double spec_zero_pole_addend_at(long n, long ap, long bp)
{
  SparseM *Am = &g_self->A.elementsRowMajor, *Bm = &g_self->B.elementsColMajor;
  return D_MUL(D_MUL(Am->values[ap], Bm->values[bp]), g_self->DMpartOuter.weights.data[n]);
}

/* monitor of std::abs(double): the only call in compute() is abs(Pole), once per coincident pair, BEFORE the branch.
 * It (1) checks that the iterators are on a coincident pair of stored elements and that the argument is the documented pole,
 * (2) advances the MODEL of ZeroPoleWeight by the documented addend iff the documented zero-pole condition holds,
 * (3) counts the zero-pole accumulations at the ghost pair.  The loop invariants then force the real member to follow the model. */
double mon_abs_pole(double Pole)
{
  SparseM *Am = &g_self->A.elementsRowMajor, *Bm = &g_self->B.elementsColMajor;
  long ap = g_last_a, bp = g_last_b;
  __CPROVER_assert(0 <= ap && ap < Am->nnz && 0 <= bp && bp < Bm->nnz, "C14: the pole is examined only while both iterators are on stored elements");
  __CPROVER_assert(Am->inner[ap] == Bm->inner[bp], "C14: the pole is examined for A[n,m] with B[m,n] (coincident inner index)");
  long n = g_last_ao;
  __CPROVER_assert(n == g_last_bo && 0 <= n && n < Am->outerSize, "C14: row n of A is paired with column n of B");
  __CPROVER_assert(D_SAME(Pole, spec_pole_at(n, ap)), "C14: pole = E_m - E_n");
  __CPROVER_assert(ZPW_BITS(g_self) == g_zpw_bits, "C14: ZeroPoleWeight changes only by the documented zero-pole contributions");
  double r = d_abs(Pole);
  if (D_LT(r, 1e-8)) {
    g_zpw_bits = d_bits(D_ADD(g_self->ZeroPoleWeight, spec_zero_pole_addend_at(n, ap, bp)));
    if (ap == Am->gpos && bp == Bm->gpos) g_zp_hits++;
    REACH("zero_pole");
  }
  return r;
}
void TermListSP_add_term(TermListSP *tl, SPTerm t)
{
  SparseM *Am = &g_self->A.elementsRowMajor, *Bm = &g_self->B.elementsColMajor;
  long ap = g_last_a, bp = g_last_b;
  /* soundness: every term comes from a coincident pair of stored elements ... */
  __CPROVER_assert(0 <= ap && ap < Am->nnz && 0 <= bp && bp < Bm->nnz, "C14: a term is added only while both iterators are on stored elements");
  __CPROVER_assert(g_last_ao == g_last_bo, "C14: term pairs row n of A with column n of B");
  __CPROVER_assert(Am->inner[ap] == Bm->inner[bp], "C14: term pairs A[n,m] with B[m,n] (coincident inner index)");
  long n = g_last_ao;
  /* ... with the documented residue and pole, which is not a zero-energy pole */
  cplx r = spec_residue_at(n, ap, bp);
  __CPROVER_assert(C_SAME(t.Residue, r), "C14: residue = A[n,m]*B[m,n]*(w_n-w_m)");
  __CPROVER_assert(D_SAME(t.Pole, spec_pole_at(n, ap)), "C14: pole = E_m - E_n");
  __CPROVER_assert(D_GT(c_abs(r), 1e-8), "C14: only residues above 1e-8 are kept");
  __CPROVER_assert(SPTERM_POLE_OK(t.Pole), "C14: no term for a zero-energy pole: every stored term has |Pole| >= 1e-8 (pre-condition of Term::operator()(tau,beta))");
  if (ap == Am->gpos && bp == Bm->gpos) g_hits++;
  tl->n_calls++;
  REACH("add_term");
}

//@tu src/pomerol/FieldOperatorPart.cpp
//@function Pomerol::FieldOperatorPart::getRowMajorValue() const as FieldOperatorPart_getRowMajorValue
//@end
//@function Pomerol::FieldOperatorPart::getColMajorValue() const as FieldOperatorPart_getColMajorValue
//@end
//@tu src/pomerol/DensityMatrixPart.cpp
//@function Pomerol::DensityMatrixPart::getWeight(unsigned long) const as DensityMatrixPart_getWeight
//@end
//@tu src/pomerol/HamiltonianPart.cpp
//@maythrow HamiltonianPart_getEigenValue
//@function Pomerol::HamiltonianPart::getEigenValue(unsigned long) const as HamiltonianPart_getEigenValue
//@end
//@free abs(cplx) => c_abs
//@free abs(double) => mon_abs_pole
//@tu src/pomerol/SusceptibilityPart.cpp
//@function Pomerol::SusceptibilityPart::Term::Term(std::complex<double>, double) as SPTerm_ctor2
//@end

#define AM (&self->A.elementsRowMajor)
#define BM (&self->B.elementsColMajor)
#define GHOST_PAIR (AM->gpos >= 0 && BM->gpos >= 0)
#define EXPECTED_ZP ((GHOST_PAIR && spec_is_zero_pole(AM->gouter, AM->gpos)) ? 1 : 0)
#define EXPECTED_TERM ((GHOST_PAIR && !spec_is_zero_pole(AM->gouter, AM->gpos) && D_GT(c_abs(spec_residue_at(AM->gouter, AM->gpos, BM->gpos)), 1e-8)) ? 1 : 0)
//@function Pomerol::SusceptibilityPart::compute() as SusceptibilityPart_compute
//@contract
__CPROVER_requires(__CPROVER_is_fresh(self, sizeof(*self)) && g_self == self)
/* type invariants: compressed sorted sparse matrices, dimensions = block sizes */
__CPROVER_requires(SparseM_wf(AM) && SparseM_wf(BM))
__CPROVER_requires(AM->outerSize == BM->outerSize && AM->innerSize == BM->innerSize)
__CPROVER_requires(RealVector_wf(&self->HpartOuter.Eigenvalues, SP_MAX) && RealVector_wf(&self->HpartInner.Eigenvalues, SP_MAX))
__CPROVER_requires(RealVector_wf(&self->DMpartOuter.weights, SP_MAX) && RealVector_wf(&self->DMpartInner.weights, SP_MAX))
__CPROVER_requires(self->HpartOuter.Eigenvalues.size == AM->outerSize && self->DMpartOuter.weights.size == AM->outerSize)
__CPROVER_requires(self->HpartInner.Eigenvalues.size == AM->innerSize && self->DMpartInner.weights.size == AM->innerSize)
__CPROVER_requires(self->HpartInner.Status >= Computed && self->HpartOuter.Status >= Computed)
/* the constructor's tolerances (documented in SusceptibilityPart.h; checked on the constructor by h_SP_ctor) */
__CPROVER_requires(D_SAME(self->MatrixElementTolerance, 1e-8) && D_SAME(self->ReduceResonanceTolerance, 1e-8))
/* ghost pair (p,q): an arbitrary coincident pair A[n,m] (position p), B[m,n] (position q), or none */
__CPROVER_requires((AM->gpos >= 0) == (BM->gpos >= 0))
__CPROVER_requires(AM->gpos >= 0 ==> (AM->gouter == BM->gouter && AM->inner[AM->gpos] == BM->inner[BM->gpos]))
__CPROVER_requires(g_hits == 0 && g_zp_hits == 0 && !VERIF_thrown && g_exp_term == EXPECTED_TERM && g_exp_zp == EXPECTED_ZP)
/* the model of ZeroPoleWeight starts at the member's value (compute() accumulates on top of it; the constructor sets 0) */
__CPROVER_requires(g_zpw_bits == ZPW_BITS(self))
/* frame: besides the term list (monitor) only ZeroPoleWeight is written; the rest are ghosts of the stubs */
__CPROVER_assigns(self->Terms.n_calls, self->ZeroPoleWeight, g_hits, g_zp_hits, g_last_a, g_last_b, g_last_ao, g_last_bo, g_zpw_bits, VERIF_thrown)
__CPROVER_ensures(!VERIF_thrown)
/* completeness + uniqueness: the ghost pair contributes exactly once, to the zero-pole weight or (iff its residue is above 1e-8) to the term list */
/* (g_exp_term / g_exp_zp = EXPECTED_TERM / EXPECTED_ZP of the pre-state, see requires; nothing they depend on is assigned) */
__CPROVER_ensures(g_hits == g_exp_term)
__CPROVER_ensures(g_zp_hits == g_exp_zp)
/* the member equals the model: initial value (+) the documented addends of exactly the zero-pole pairs, in iteration order */
__CPROVER_ensures(ZPW_BITS(self) == g_zpw_bits)
//@loop 1
__CPROVER_assigns(index1, self->ZeroPoleWeight, g_hits, g_zp_hits, g_last_a, g_last_b, g_last_ao, g_last_bo, g_zpw_bits, self->Terms.n_calls)
__CPROVER_loop_invariant(0 <= index1 && index1 <= outerSize && outerSize == AM->outerSize && Amatrix == AM && Bmatrix == BM)
__CPROVER_loop_invariant(!VERIF_thrown)
__CPROVER_loop_invariant(ZPW_BITS(self) == g_zpw_bits)
__CPROVER_loop_invariant((AM->gpos < 0 || index1 <= (unsigned long)AM->gouter) ? (g_hits == 0 && g_zp_hits == 0) : (g_hits == g_exp_term && g_zp_hits == g_exp_zp))
__CPROVER_decreases(outerSize - index1)
//@loop 2
__CPROVER_assigns(Ainner.m_id, Binner.m_id, self->ZeroPoleWeight, g_hits, g_zp_hits, g_last_a, g_last_b, g_zpw_bits, self->Terms.n_calls)
__CPROVER_loop_invariant(Ainner.m == AM && Binner.m == BM && Ainner.m_outer == (long)index1 && Binner.m_outer == (long)index1)
__CPROVER_loop_invariant(g_last_ao == (long)index1 && g_last_bo == (long)index1)
__CPROVER_loop_invariant(0 <= Ainner.m_id && __CPROVER_loop_entry(Ainner.m_id) <= Ainner.m_id && Ainner.m_id <= Ainner.m_end && Ainner.m_end <= AM->nnz)
__CPROVER_loop_invariant(0 <= Binner.m_id && __CPROVER_loop_entry(Binner.m_id) <= Binner.m_id && Binner.m_id <= Binner.m_end && Binner.m_end <= BM->nnz)
__CPROVER_loop_invariant(!VERIF_thrown)
__CPROVER_loop_invariant(ZPW_BITS(self) == g_zpw_bits)
__CPROVER_loop_invariant((AM->gpos >= 0 && index1 == (unsigned long)AM->gouter)
     ? ((g_hits == 0 && g_zp_hits == 0 && Ainner.m_id <= AM->gpos && Binner.m_id <= BM->gpos) ||
        (g_hits == g_exp_term && g_zp_hits == g_exp_zp && Ainner.m_id > AM->gpos && Binner.m_id > BM->gpos))
     : (g_hits == __CPROVER_loop_entry(g_hits) && g_zp_hits == __CPROVER_loop_entry(g_zp_hits)))
__CPROVER_decreases((Ainner.m_end - Ainner.m_id) + (Binner.m_end - Binner.m_id))
//@loop 3
__CPROVER_assigns(Binner.m_id, g_last_b)
__CPROVER_loop_invariant(__CPROVER_loop_entry(Binner.m_id) <= Binner.m_id && Binner.m_id <= Binner.m_end)
__CPROVER_loop_invariant((AM->gpos >= 0 && index1 == (unsigned long)AM->gouter && __CPROVER_loop_entry(Binner.m_id) <= BM->gpos && Ainner.m_id <= AM->gpos) ==> Binner.m_id <= BM->gpos)
__CPROVER_decreases(Binner.m_end - Binner.m_id)
//@loop 4
__CPROVER_assigns(Ainner.m_id, g_last_a)
__CPROVER_loop_invariant(__CPROVER_loop_entry(Ainner.m_id) <= Ainner.m_id && Ainner.m_id <= Ainner.m_end)
__CPROVER_loop_invariant((AM->gpos >= 0 && index1 == (unsigned long)AM->gouter && __CPROVER_loop_entry(Ainner.m_id) <= AM->gpos && Binner.m_id <= BM->gpos) ==> Ainner.m_id <= AM->gpos)
__CPROVER_decreases(Ainner.m_end - Ainner.m_id)
//@end

//@harness h_SP_compute replay=sparsewalk:sp enforce=SusceptibilityPart_compute props=C14,C17 min_obl=4976 timeout=900 reach=3
void h_SP_compute(void)
{
  struct SusceptibilityPart *p;
  SusceptibilityPart_compute(p);
  REACH("exit");
}

/* ================================================================================================================
 * Evaluation.  Documented forms (SusceptibilityPart.h / Susceptibility.h / C14):
 *   Term(z)       = -Residue/(z - Pole)                         (bosonic sign: chi(tau) = <A(tau) B>)
 *   Part(z)       = Terms(z) + (|z| < 1e-15 ? ZeroPoleWeight*beta : 0)
 *   Part(n)       = Part(MatsubaraSpacing * (2n))               bosonic frequency W_n = 2n*pi/beta, MatsubaraSpacing = i*pi/beta
 *   Part.of_tau   = Terms(tau,beta) + ZeroPoleWeight
 *   Term(tau,beta)= R e^{-tau P}/(1 - e^{-beta P})  (P > 0),  R e^{(beta-tau)P}/(e^{beta P} - 1)  (P <= 0)
 *                   -- the function on [0,beta] whose transform int_0^beta e^{i W_n tau} . dtau is -R/(i W_n - P).
 * Terms(...) = sum over the stored terms of Term(...): TRUSTED container (TermList::operator()), opaque function of the
 * container's content (ghost id) and the arguments. */
double __CPROVER_uninterpreted_termsum_z_re(long, double, double);
double __CPROVER_uninterpreted_termsum_z_im(long, double, double);
double __CPROVER_uninterpreted_termsum_tau_re(long, double, double);
double __CPROVER_uninterpreted_termsum_tau_im(long, double, double);
static inline cplx TermListSP_call_z(TermListSP *tl, cplx z)
{ return cplx_ctor2(__CPROVER_uninterpreted_termsum_z_re(tl->id, z.re, z.im), __CPROVER_uninterpreted_termsum_z_im(tl->id, z.re, z.im)); }
static inline cplx TermListSP_call_tau(TermListSP *tl, double tau, double beta)
{ return cplx_ctor2(__CPROVER_uninterpreted_termsum_tau_re(tl->id, tau, beta), __CPROVER_uninterpreted_termsum_tau_im(tl->id, tau, beta)); }

#ifndef VERIF_FP_IEEE
/* formula pins: exp is an uninterpreted function */
double __CPROVER_uninterpreted_exp(double);
#define exp_c(x) __CPROVER_uninterpreted_exp(x)
static cplx spec_term_tau(SPTerm t, double tau, double beta)
{
  if (D_GT(t.Pole, 0.0))
    return op_div_cplx_double(op_mul_cplx_double(t.Residue, exp_c(D_MUL(D_NEG(tau), t.Pole))), D_SUB(1.0, exp_c(D_MUL(D_NEG(beta), t.Pole))));
  return op_div_cplx_double(op_mul_cplx_double(t.Residue, exp_c(D_MUL(D_SUB(beta, tau), t.Pole))), D_SUB(exp_c(D_MUL(beta, t.Pole)), 1.0));
}
#endif

//@free abs(double) => d_abs
//@free exp => exp_c
//@rename TermListSP_call/1 => TermListSP_call_z
//@rename TermListSP_call/2 => TermListSP_call_tau
//@rename SusceptibilityPart_call/1 => SusceptibilityPart_call_z
//@function Pomerol::SusceptibilityPart::Term::operator()(std::complex<double>) const as SPTerm_call_z
//@contract
__CPROVER_requires(__CPROVER_is_fresh(self, sizeof(*self)))
__CPROVER_assigns()
__CPROVER_ensures(C_SAME(__CPROVER_return_value, op_div_cplx_cplx(op_sub_cplx(self->Residue), op_sub_cplx_double(Frequency, self->Pole))))
//@end

//@function Pomerol::SusceptibilityPart::Term::operator()(double, double) const as SPTerm_call_tau
//@contract
__CPROVER_requires(__CPROVER_is_fresh(self, sizeof(*self)))
#ifdef VERIF_FP_IEEE
/* what compute() guarantees for every stored term (monitor assertion SPTERM_POLE_OK), for a finite pole */
__CPROVER_requires(d_finite(self->Pole) && SPTERM_POLE_OK(self->Pole))
/* the documented domain 0 <= tau <= beta; beta >= 1e-7 is a LIMIT of this claim (for beta*|Pole| below 1.1e-16 the
 * denominator is exactly 0 in double arithmetic) */
__CPROVER_requires(d_finite(tau) && d_finite(beta) && 0.0 <= tau && tau <= beta && beta >= 1e-7)
#endif
__CPROVER_assigns()
#ifndef VERIF_FP_IEEE
__CPROVER_ensures(C_SAME(__CPROVER_return_value, spec_term_tau(*self, tau, beta)))
#endif
//@end

#define SPEC_PART_Z(self, z) op_add_cplx_cplx(TermListSP_call_z(&(self)->Terms, (z)), cplx_ctor1(D_LT(c_abs(z), 1e-15) ? D_MUL((self)->ZeroPoleWeight, (self)->beta) : 0.0))
//@function Pomerol::SusceptibilityPart::operator()(std::complex<double>) const as SusceptibilityPart_call_z
//@contract
__CPROVER_requires(__CPROVER_is_fresh(self, sizeof(*self)))
__CPROVER_assigns()
__CPROVER_ensures(C_SAME(__CPROVER_return_value, SPEC_PART_Z(self, z)))
//@end

//@function Pomerol::SusceptibilityPart::operator()(long) const as SusceptibilityPart_call_n
//@contract
__CPROVER_requires(__CPROVER_is_fresh(self, sizeof(*self)))
/* LIMIT: 2*n must be representable (|n| < 2^62) */
__CPROVER_requires(-(1L << 62) <= MatsubaraNumber && MatsubaraNumber < (1L << 62))
__CPROVER_assigns()
__CPROVER_ensures(C_SAME(__CPROVER_return_value, SPEC_PART_Z(self, op_mul_cplx_double(self->MatsubaraSpacing, (double)(2 * MatsubaraNumber)))))
//@end

//@function Pomerol::SusceptibilityPart::of_tau(double) const as SusceptibilityPart_of_tau
//@contract
__CPROVER_requires(__CPROVER_is_fresh(self, sizeof(*self)))
__CPROVER_assigns()
__CPROVER_ensures(C_SAME(__CPROVER_return_value, op_add_cplx_double(TermListSP_call_tau(&self->Terms, tau, self->beta), self->ZeroPoleWeight)))
//@end

/* ---- constructor: establishes what compute() and the evaluation functions require (tolerances 1e-8 as documented in
 * SusceptibilityPart.h, ZeroPoleWeight = 0, empty term list with Compare(1e-8)/IsNegligible(1e-8), beta of the density matrix)
 * and stores each argument in the member of the same name (inner/outer are not swapped). */
static inline void Thermal_ctor1(struct Thermal *self, struct Thermal *o)   /* TRUSTED: implicit copy constructor of Thermal */
{ self->beta = o->beta; self->MatsubaraSpacing = o->MatsubaraSpacing; }
typedef struct SPTol { double Tolerance; } SPTol;                              /* Term::Compare / Term::IsNegligible: one double */
#define SusceptibilityPart_Term_Compare_ctor1(t) ((SPTol){ (t) })
#define SusceptibilityPart_Term_IsNegligible_ctor1(t) ((SPTol){ (t) })
static inline TermListSP TermListSP_ctor2(SPTol *c, SPTol *n)                   /* TRUSTED: TermList(compare, is_negligible): empty list */
{ TermListSP t; t.n_calls = 0; t.id = 0; t.cmp_tol = c->Tolerance; t.neg_tol = n->Tolerance; return t; }
//@function Pomerol::SusceptibilityPart::SusceptibilityPart(Pomerol::QuadraticOperatorPart const&, Pomerol::QuadraticOperatorPart const&, Pomerol::HamiltonianPart const&, Pomerol::HamiltonianPart const&, Pomerol::DensityMatrixPart const&, Pomerol::DensityMatrixPart const&) as SusceptibilityPart_ctor6
//@contract
__CPROVER_requires(__CPROVER_is_fresh(self, sizeof(*self)) && __CPROVER_is_fresh(A, sizeof(*A)) && __CPROVER_is_fresh(B, sizeof(*B)))
__CPROVER_requires(__CPROVER_is_fresh(HpartInner, sizeof(*HpartInner)) && __CPROVER_is_fresh(HpartOuter, sizeof(*HpartOuter)))
__CPROVER_requires(__CPROVER_is_fresh(DMpartInner, sizeof(*DMpartInner)) && __CPROVER_is_fresh(DMpartOuter, sizeof(*DMpartOuter)))
__CPROVER_assigns(*self)
__CPROVER_ensures(D_SAME(self->MatrixElementTolerance, 1e-8) && D_SAME(self->ReduceResonanceTolerance, 1e-8) && D_SAME(self->ReduceTolerance, 1e-8))
__CPROVER_ensures(ZPW_BITS(self) == 0)
__CPROVER_ensures(self->Terms.n_calls == 0 && D_SAME(self->Terms.cmp_tol, 1e-8) && D_SAME(self->Terms.neg_tol, 1e-8))
__CPROVER_ensures(D_SAME(self->beta, DMpartInner->beta) && C_SAME(self->MatsubaraSpacing, DMpartInner->MatsubaraSpacing))
__CPROVER_ensures(self->A.elementsRowMajor.values == A->elementsRowMajor.values && self->B.elementsColMajor.values == B->elementsColMajor.values)
__CPROVER_ensures(self->HpartInner.Eigenvalues.data == HpartInner->Eigenvalues.data && self->HpartOuter.Eigenvalues.data == HpartOuter->Eigenvalues.data)
__CPROVER_ensures(self->DMpartInner.weights.data == DMpartInner->weights.data && self->DMpartOuter.weights.data == DMpartOuter->weights.data)
//@end

//@harness h_SP_ctor enforce=SusceptibilityPart_init6 props=C14 min_obl=319 timeout=120 reach=1
void h_SP_ctor(void)
{
  struct SusceptibilityPart *p; struct FieldOperatorPart *a, *b; struct HamiltonianPart *hi, *ho; struct DensityMatrixPart *di, *dO;
  SusceptibilityPart_init6(p, a, b, hi, ho, di, dO);
  REACH("exit");
}

//@harness h_SPTerm_z enforce=SPTerm_call_z props=C14 min_obl=57 timeout=120 reach=1
void h_SPTerm_z(void) { SPTerm *t; cplx z; SPTerm_call_z(t, z); REACH("exit"); }

//@harness h_SPTerm_tau_pin enforce=SPTerm_call_tau props=C14 min_obl=74 timeout=120 reach=1
void h_SPTerm_tau_pin(void) { SPTerm *t; double tau, beta; SPTerm_call_tau(t, tau, beta); REACH("exit"); }

//@harness h_SPTerm_tau_range enforce=SPTerm_call_tau props=C14 defs=-DVERIF_FP_IEEE min_obl=69 timeout=120 reach=2
void h_SPTerm_tau_range(void) { SPTerm *t; double tau, beta; SPTerm_call_tau(t, tau, beta); REACH("exit"); }

//@harness h_SP_call_z enforce=SusceptibilityPart_call_z props=C14 min_obl=63 timeout=120 reach=1
void h_SP_call_z(void) { struct SusceptibilityPart *p; cplx z; SusceptibilityPart_call_z(p, z); REACH("exit"); }

//@harness h_SP_call_n enforce=SusceptibilityPart_call_n props=C14 min_obl=97 timeout=120 reach=1
void h_SP_call_n(void) { struct SusceptibilityPart *p; long n; SusceptibilityPart_call_n(p, n); REACH("exit"); }

//@harness h_SP_of_tau enforce=SusceptibilityPart_of_tau props=C14 min_obl=63 timeout=120 reach=1
void h_SP_of_tau(void) { struct SusceptibilityPart *p; double tau; SusceptibilityPart_of_tau(p, tau); REACH("exit"); }

/* =====================================================================================================================
 * WHAT IS PROVED (for all inputs satisfying the stated type invariants), WHAT IS NOT
 *
 * h_SP_compute  (SusceptibilityPart::compute, C14 + C17)
 *   safety: every InnerIterator index()/value() read is inside the tightly allocated arrays, every getWeight/getEigenValue
 *     index is inside its vector, no overflow, no exception; termination (decreases on all four loops);
 *   frame: only the term list (monitor counter) and ZeroPoleWeight are written (plus ghosts);
 *   soundness of the term list (monitor TermListSP_add_term, every call): iterators on a coincident pair A[n,m], B[m,n] of row n /
 *     column n; residue bit-equal to (A*B)*(w_n - w_m); pole bit-equal to E_m - E_n; |residue| > 1e-8; !(|pole| < 1e-8);
 *   soundness of the branch (monitor of std::abs(double) = mon_abs_pole, every call): called only on a coincident pair, with
 *     the argument bit-equal to E_m - E_n;
 *   ZeroPoleWeight: a MODEL (ghost g_zpw_bits) starts at the member's value and is advanced by the abs-monitor by
 *     model := model + (A[n,m]*B[m,n])*w_n exactly when |E_m - E_n| < 1e-8 at that pair; loop invariants + post-condition force
 *     the member to be bit-equal to the model at every loop head and at exit.  Hence: ZeroPoleWeight(after) = left fold, in
 *     iteration order, of the documented addend over exactly the zero-pole coincident pairs, starting from ZeroPoleWeight(before)
 *     (compute() does NOT reset the member: the constructor sets 0 -- h_SP_ctor -- and Susceptibility::compute calls it once);
 *   completeness + uniqueness (ghost pair = one arbitrary coincident pair): exactly one zero-pole accumulation iff |P| < 1e-8;
 *     otherwise exactly one add_term iff |residue| > 1e-8; never both.
 *   NOT proved: anything about TermList (merging of poles within 1e-8, dropping of small sums: trusted container); real-number
 *     meaning of the sums (doubles are uninterpreted: congruence only); that index()-positions exposed to the monitors are the
 *     iterators' positions is by construction of the spec-local wrappers of the sparse.h stubs.
 *   pre-fix tree (git -C /repo show c513d1d^:src/pomerol/SusceptibilityPart.cpp) FAILS: SusceptibilityPart_compute.assertion
 *     "InnerIterator::index(): read inside the index array" in both chase loops (+ the chase-loop invariants).
 * h_SP_ctor: tolerances 1e-8, ZeroPoleWeight = +0.0, empty term list with Compare(1e-8)/IsNegligible(1e-8), beta and
 *   MatsubaraSpacing of DMpartInner, every argument stored in the member of the same name.
 * h_SPTerm_z, h_SP_call_z, h_SP_call_n, h_SP_of_tau, h_SPTerm_tau_pin: formula pins (bit-equality with the documented expression,
 *   uninterpreted arithmetic, same association): (-R)/(z-P);  Terms(z) + (|z|<1e-15 ? ZPW*beta : 0);  z_n = MatsubaraSpacing*(double)(2n)
 *   for |n| < 2^62 (LIMIT: 2n must not overflow);  Terms(tau,beta) + ZPW;  the two-branch imaginary-time form.
 *   Terms(.) itself is an opaque function of the container (TRUSTED).
 * h_SPTerm_tau_range (IEEE, stubs/fprange.h): for finite Pole with !(|Pole| < 1e-8) -- which the add_term monitor asserts for every
 *   stored term --, finite 0 <= tau <= beta and beta >= 1e-7 (LIMIT): every argument of exp is a number <= 0 in both branches and
 *   both denominators are numbers != 0.  Under assumptions M1, M2 (IEEE product) and E1 (libm exp) of fprange.h.  NOT proved:
 *   the value (quotient not modelled there), beta < 1e-7 (for beta*|Pole| < 1.1e-16 the denominator IS 0 in double arithmetic:
 *   exp(-1e-17) == 1.0), tau outside [0,beta].
 *
 * MUTANTS (scratch copy of /repo, re-extracted; obligation that failed)
 *   compute: pre-fix chase loops          -> SusceptibilityPart_compute.assertion "InnerIterator::index(): read inside the index array"
 *            w_n - w_m -> w_n + w_m       -> TermListSP_add_term.assertion.4 (residue pin), .6
 *            zero-pole branch disabled    -> TermListSP_add_term.assertion.7 (no term for a zero-energy pole), loop_invariant_step (model, counters)
 *            ZPW addend with w_m          -> loop_invariant_step.14/.29 (ZeroPoleWeight == model)
 *            pole = E_n - E_m             -> mon_abs_pole.assertion.4, TermListSP_add_term.assertion.5 (pole = E_m - E_n)
 *            chase `<` -> `<=`            -> loop_invariant_step.2/.6/.17/.21 of the row loop (ghost pair skipped: counters != expected)
 *   ctor:    ReduceResonanceTolerance 1e-6 -> postcondition.1;  DMpartInner/Outer swapped -> postcondition.7;  ZeroPoleWeight(1) -> postcondition.2
 *   Term(z): -R -> R -> SPTerm_call_z.postcondition.1;   Part(z): drop *beta / flip < -> SusceptibilityPart_call_z.postcondition.1
 *   Part(n): 2n -> 2n+1 -> SusceptibilityPart_call_n.postcondition.1;   of_tau: +ZPW*beta -> SusceptibilityPart_of_tau.postcondition.1
 *   Term(tau): exp(-tau P) -> exp(tau P): pin postcondition.1 and range exp_c.assertion.1;  Pole>0 -> Pole<0: exp_c.assertion.1, div_c.assertion.1;
 *            exp(beta P)-1 -> 1-exp(beta P): pin postcondition.1 (survives the range harness: the denominator is still non-zero).
 */
