/* IndexClassification::IndexClassification(const Lattice::SiteMap&)  (C18)
 *
 * Header: "A link to a Lattice object.  const Lattice::SiteMap &Sites;" -- the classification does not own a site list, it LOOKS AT the
 * lattice's: prepare() enumerates the sites the lattice has when prepare() is called (specs/indexclass.c proves prepare() against
 * `Sites`).  The constructor therefore has to bind the member to the caller's map: a copy taken at construction time would make every
 * site added between construction and prepare() invisible (no index for a valid (site, orbital, spin) triple -- C18 "every triple of
 * the lattice has exactly one index").  Contract: after construction the member IS the argument (same object), IndexSize = 0 and both
 * tables are empty.
 * The reference member is printed type-directed: a pointer for `T&`, an embedded object for `T` -- SITES_ADDR yields the address of the
 * object the member denotes in both cases, so that a by-value member fails the post-condition instead of breaking the extraction. */
#include "../stubs/common.h"
#include "../stubs/strlabel.h"
//@include types_common.inc
//@include types_lattice.inc
//@type std::vector<(Pomerol::)?IndexClassification::IndexInfo \*> => InfoVec ptr
//@type std::map<(Pomerol::)?IndexClassification::IndexInfo, unsigned int> => InfoMap ptr
//@record Pomerol::IndexClassification::IndexInfo => struct IndexInfo ptr
//@tu src/pomerol/IndexClassification.cpp
//@struct Pomerol::Lattice::Site
#include "../stubs/sitemap.h"
typedef struct InfoVec { unsigned long size; } InfoVec;
typedef struct InfoMap { unsigned long size; } InfoMap;
#define InfoVec_ctor0() ((InfoVec){ 0 })
#define InfoMap_ctor0() ((InfoMap){ 0 })
//@struct Pomerol::IndexClassification
#define SITES_ADDR(self) _Generic((self)->Sites, SiteMap *: (const void *)(self)->Sites, const SiteMap *: (const void *)(self)->Sites, default: (const void *)&(self)->Sites)
//@function Pomerol::IndexClassification::IndexClassification(std::map<std::__cxx11::basic_string<char, std::char_traits<char>, std::allocator<char> >, Pomerol::Lattice::Site*, std::less<std::__cxx11::basic_string<char, std::char_traits<char>, std::allocator<char> > >, std::allocator<std::pair<std::__cxx11::basic_string<char, std::char_traits<char>, std::allocator<char> > const, Pomerol::Lattice::Site*> > > const&) as IndexClassification_ctor1
//@contract
__CPROVER_requires(__CPROVER_is_fresh(self, sizeof(*self)) && __CPROVER_is_fresh(Sites, sizeof(*Sites)))
__CPROVER_assigns(__CPROVER_object_whole(self))
__CPROVER_ensures(SITES_ADDR(self) == (const void *)Sites)
__CPROVER_ensures(self->IndexSize == 0 && self->InfoToIndices.size == 0 && self->IndicesToInfo.size == 0)
//@end
//@harness h_IC_ctor enforce=IndexClassification_init1 props=C18 min_obl=80 reach=1 timeout=60
void h_IC_ctor(void)
{
  struct IndexClassification *c; SiteMap *s;
  IndexClassification_init1(c, s);
  REACH("exit");
}
