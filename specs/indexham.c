/* IndexHamiltonian::prepare -- "translation of lattice terms into a normal-ordered polynomial" (C04): every stored lattice term
 * Value * (c^+|c)_{label_0,orb_0,spin_0} ... (c^+|c)_{label_{N-1},orb_{N-1},spin_{N-1}} is added to the polynomial exactly once, as the
 * PRODUCT, IN THE GIVEN ORDER, of the elementary operators on the single-particle indices getIndex(label_i,orb_i,spin_i), times Value.
 * The operator algebra itself (products, normal ordering, +=) is the subject of C05: here Operator is a recording monitor. */
#include "../stubs/common.h"
#include "../stubs/strlabel.h"
#include "../stubs/termvec.h"
//@include types_lattice.inc
//@type std::vector<bool> => VecBool ptr
//@type std::vector<std::(__cxx11::)?basic_string<char> ?>|std::vector<std::string> => VecLabel ptr
//@type std::vector<unsigned short> => VecUS ptr
//@type (Pomerol::)?Lattice::TermList|std::(__cxx11::)?list<(Pomerol::)?Lattice::Term \*(, std::allocator<.*>)?> => TList ptr
//@type (Pomerol::)?Lattice::TermList::const_iterator|std::_List_const_iterator<(Pomerol::)?Lattice::Term \*> => TListIt val
//@type std::_Bit_reference|std::vector<bool>::(const_)?reference => _Bool scalar
//@record Pomerol::Operator => OpM ptr
//@record Pomerol::Lattice::Term => struct Lattice_Term ptr
//@record Pomerol::Lattice::TermStorage => struct TermStorage ptr
//@tu src/pomerol/IndexHamiltonian.cpp
//@struct Pomerol::Lattice::Term only=N,OperatorSequence,SiteLabels,Spins,Orbitals,Value
/* ---- Operator as a recording monitor: the sequence of elementary factors, the scalar prefactor, and a flag "the product has
 * vanished" that a multiplication may set (c c = 0): isEmpty() is true for a default-constructed or vanished operator. */
typedef struct OpM { unsigned n; unsigned char cr[TV_MAX];   /* 1 = c^+, 0 = c (not _Bool: a havocked _Bool may hold a non-canonical byte) */
                     unsigned idx[TV_MAX]; double coeff; _Bool vanished; _Bool restarted; } OpM;
#define OpM_ctor0() ((OpM){ 0, {0}, {0}, 1.0, 0, 0 })
static inline OpM elem_op(_Bool cr, unsigned i) { OpM o = OpM_ctor0(); o.n = 1; o.cr[0] = cr; o.idx[0] = i; return o; }
#define c_dag(i) elem_op(1, (i))
#define c(i) elem_op(0, (i))
#define OpM_isEmpty(o) ((o)->n == 0 || (o)->vanished)
static inline OpM *OpM_assign(OpM *lhs, OpM *rhs)
{
  __CPROVER_assert(lhs->n == 0, "C04: operator= only starts the product (it never replaces a product that already has factors, e.g. one that has vanished)");
  OpM r = *rhs; if (lhs->n != 0) r.restarted = 1; *lhs = r; return lhs;
}
static inline OpM *OpM_mulassign(OpM *lhs, OpM *rhs)
{
  __CPROVER_assert(lhs->n < TV_MAX && rhs->n == 1, "model: products of at most 6 elementary operators");
  lhs->cr[lhs->n] = rhs->cr[0]; lhs->idx[lhs->n] = rhs->idx[0]; lhs->n++;
  if (nondet_bool()) lhs->vanished = 1;          /* the product may be identically zero from here on */
  return lhs;
}
static inline OpM opm_scale(double v, OpM *o) { OpM r = *o; r.coeff = v; return r; }
#define op_mul_double_OpM(v, o) (*(OpM[1]){ opm_scale((v), (o)) })
#define Bool_conv_bool(p) (*(p))
#undef VecBool_at
#define VecBool_at(v, i) (*(_Bool[1]){ *TV_AT(v, i) })   /* const vector<bool>::operator[] returns a bool VALUE */
struct TermStorage; struct Lattice { struct TermStorage *Terms; };
struct IndexClassification { unsigned IndexSize; };
/* IndexClassification::getIndex(label, orbital, spin): an opaque FUNCTION of its arguments (its contract: specs/indexclass.c) */
unsigned __CPROVER_uninterpreted_getindex(label_t, unsigned short, unsigned short);
#define IndexClassification_getIndex(ic, l, o, s) __CPROVER_uninterpreted_getindex((l), (o), (s))
/* ---- term storage: MaxTermOrder and, per order 1..6, a list of terms (an absent order = an empty list: getTerms returns a fresh empty list then).
 * GHOST: ONE arbitrary stored term: content g_term (arbitrary, well-formed), stored under order g_N at position g_p (or not stored at all:
 *   g_p beyond the list).  Arbitrary => the statements below hold for every stored term.
 * MODEL of std::list<Term*> + const_iterator: a list = (order, size); an iterator = (list, position).  The element the iterator stands at is
 *   ONE real object: g_term if the iterator stands at the ghost position, else g_elem, whose content is chosen afresh (nondeterministic,
 *   well-formed for the list's order) whenever an iterator is created by begin() or advanced by ++ ; a dereference is a plain read of that
 *   object (no function of (order, position) is materialised per dereference -- that made the first attempt run out of 30 GB).
 *   Exact for code that keeps ONE iterator alive and dereferences only the iterator it moved last: ASSERTED at every dereference (g_cs).
 * ASSUMED (type invariant of the storage, established by Lattice::TermStorage::addTerm / Lattice::addTerm: specs/lattice.c; Term::Term(N) sizes
 *   the four vectors to N): a term stored under order N has N operators. */
#define TS_MAXLEN 1000000UL
typedef struct TList { unsigned order; unsigned long size; } TList;
typedef struct TListIt { TList *l; unsigned long pos; } TListIt;
struct TermStorage { unsigned MaxTermOrder; TList lists[TV_MAX + 1]; };
#define TERM_WF_N(T, n) ((T).N == (n) && (T).OperatorSequence.size == (n) && (T).SiteLabels.size == (n) && (T).Spins.size == (n) && (T).Orbitals.size == (n))
unsigned g_N; unsigned long g_p; struct Lattice_Term g_term;       /* the ghost term: constant during the call */
unsigned g_gidx[TV_MAX];                                           /* g_gidx[k] = getIndex(label_k, orbital_k, spin_k) of the ghost term (pinned in `requires`) */
struct Lattice_Term g_elem; struct Lattice_Term nondet_Term(void);
struct CS { unsigned order; unsigned long pos; } g_cs;             /* where the iterator moved last stands */
#define CS_IS_GHOST (g_cs.order == g_N && g_cs.pos == g_p)
static inline struct TermStorage *Lattice_getTermStorage(struct Lattice *L) { return L->Terms; }
static inline unsigned TermStorage_getMaxTermOrder(struct TermStorage *ts) { return ts->MaxTermOrder; }
static inline TList *TermStorage_getTerms(struct TermStorage *ts, unsigned N)
{ __CPROVER_assert(1 <= N && N <= TV_MAX, "model: term orders 1..6"); return &ts->lists[N]; }
#define ELEM_LOAD(o_, p_) { struct CS c_ = { (o_), (p_) }; g_cs = c_; g_elem = nondet_Term(); __CPROVER_assume(TERM_WF_N(g_elem, (o_))); /* ASSUMED: storage invariant */ }
#define TList_size(l) ((l)->size)
#define TList_begin(l_) ({ TList *b_ = (l_); ELEM_LOAD(b_->order, 0UL) (TListIt){ b_, 0 }; })
#define TList_end(l_) ((TListIt){ (l_), (l_)->size })
#define op_ne_TListIt_TListIt(a, b) ((a)->pos != (b)->pos)
#define TListIt_inc(it) ({ __CPROVER_assert((it)->pos < (it)->l->size, "std::list: end() is not incremented"); (it)->pos++; ELEM_LOAD((it)->l->order, (it)->pos) (it); })
#define TListIt_mul(it) (__CPROVER_assert((it)->pos < (it)->l->size, "std::list: iterator dereferenced only before end()"), \
   __CPROVER_assert((it)->l->order == g_cs.order && (it)->pos == g_cs.pos, "model: the iterator dereferenced is the one that moved last"), \
   &(struct Lattice_Term *){ CS_IS_GHOST ? &g_term : &g_elem })
//@struct Pomerol::IndexHamiltonian only=L,IndexInfo embed=IndexInfo
unsigned long g_hits;
#define IS_CREATION(k) ((int)g_term.OperatorSequence.d[k] == 1 /* Lattice::Term::creation */)
/* SPEC (C04, "translation of lattice terms into a normal-ordered polynomial"): the operator added for a stored term is
 *   Value * prod_{k<N} (OperatorSequence_k ? c^+ : c)_{getIndex(label_k, orbital_k, spin_k)}, the factors in this order, the product built once.
 * The monitor attributes every addition to the stored term the iterator stands at (a valid position: asserted) and checks the product for the ghost term. */
static void OpM_addassign_mon(struct IndexHamiltonian *self, OpM *xp)
{
  OpM x = *xp; struct CS cs = g_cs;
  __CPROVER_assert(1 <= cs.order && cs.order <= TV_MAX && cs.order <= self->L->Terms->MaxTermOrder && cs.pos < self->L->Terms->lists[cs.order <= TV_MAX ? cs.order : 0].size,
                   "C04: every addition belongs to a stored term (the one the iterator stands at)");
  if (cs.order == g_N && cs.pos == g_p) {
    __CPROVER_assert(x.n == g_N, "C04: the product has one elementary operator per operator of the lattice term");
    __CPROVER_assert(!x.restarted, "C04: the product is built once, left to right, and never restarted");
#define FACTOR(k) __CPROVER_assert(k < g_N ==> (x.cr[k] == IS_CREATION(k) && x.idx[k] == g_gidx[k]), "C04: factor k is c^+ iff OperatorSequence[k] == creation and acts on getIndex(label_k, orbital_k, spin_k)");
    FACTOR(0) FACTOR(1) FACTOR(2) FACTOR(3) FACTOR(4) FACTOR(5)
    __CPROVER_assert(D_SAME(x.coeff, g_term.Value), "C04: amplitude of the lattice term");
    g_hits++;
    REACH("add_ghost");
  }
  REACH("add");
}
#define IndexHamiltonian_addassign(self, x) OpM_addassign_mon((self), (x))
#define OpM_addassign(self, x) OpM_addassign_mon((struct IndexHamiltonian *)(self), (x))
//@enum op_type
unsigned long g_expected;
#define GIDX_PIN(k) (g_gidx[k] == __CPROVER_uninterpreted_getindex(g_term.SiteLabels.d[k], g_term.Orbitals.d[k], g_term.Spins.d[k]))
/* the recorded product agrees with the ghost term up to factor i (loop 3) */
#define FACT_UPTO(k, i) ((k) < (i) ==> (tmp.cr[k] == IS_CREATION(k) && tmp.idx[k] == g_gidx[k]))
#define LST (self->L->Terms)
/* twins for the other spelling of an increment (`++it` for `it++` and vice versa): same effect.  X_inc yields the iterator after the step
 * (exact); X_postinc made from X_inc is void, so a use of its value does not compile (UNDECIDED) instead of being modelled wrongly */
#define TListIt_postinc(it_) ((void)TListIt_inc(it_))
//@function Pomerol::IndexHamiltonian::prepare() as IndexHamiltonian_prepare
//@contract
__CPROVER_requires(__CPROVER_is_fresh(self, sizeof(*self)) && __CPROVER_is_fresh(self->L, sizeof(struct Lattice)) && __CPROVER_is_fresh(self->L->Terms, sizeof(struct TermStorage)))
__CPROVER_requires(LST->MaxTermOrder <= TV_MAX)
__CPROVER_requires(LST->lists[1].order == 1 && LST->lists[2].order == 2 && LST->lists[3].order == 3 && LST->lists[4].order == 4 && LST->lists[5].order == 5 && LST->lists[6].order == 6)
__CPROVER_requires(LST->lists[1].size <= TS_MAXLEN && LST->lists[2].size <= TS_MAXLEN && LST->lists[3].size <= TS_MAXLEN && LST->lists[4].size <= TS_MAXLEN && LST->lists[5].size <= TS_MAXLEN && LST->lists[6].size <= TS_MAXLEN)
/* ghost term: stored under order g_N at position g_p (or not stored at all); storage invariant: it has g_N operators */
__CPROVER_requires(1 <= g_N && g_N <= TV_MAX && TERM_WF_N(g_term, g_N))
__CPROVER_requires(GIDX_PIN(0) && GIDX_PIN(1) && GIDX_PIN(2) && GIDX_PIN(3) && GIDX_PIN(4) && GIDX_PIN(5))
__CPROVER_requires(g_hits == 0 && g_expected == ((g_N <= LST->MaxTermOrder && g_p < LST->lists[g_N].size) ? 1UL : 0UL))
__CPROVER_assigns(g_hits, g_elem, g_cs)
/* every stored term is added exactly once (as the documented product: monitor) */
__CPROVER_ensures(g_hits == g_expected)
//@loop 1
__CPROVER_assigns(N, g_hits, g_elem, g_cs)
__CPROVER_loop_invariant(N <= LST->MaxTermOrder)
__CPROVER_loop_invariant(N >= g_N ? g_hits == 0 : g_hits == g_expected)
__CPROVER_decreases(N)
//@loop 2
__CPROVER_assigns(current.pos, g_hits, g_elem, g_cs)
__CPROVER_loop_invariant(current.l == &LST->lists[N] && current.pos <= current.l->size && 1 <= N && N <= TV_MAX && N <= LST->MaxTermOrder)
__CPROVER_loop_invariant(g_cs.order == N && g_cs.pos == current.pos && TERM_WF_N(g_elem, N))
__CPROVER_loop_invariant(N > g_N ? g_hits == 0 : (N < g_N ? g_hits == g_expected : ((g_hits == 0 && current.pos <= g_p) || (g_hits == 1 && current.pos > g_p && g_expected == 1))))
__CPROVER_decreases(current.l->size - current.pos)
//@loop 3
__CPROVER_assigns(i, tmp)
__CPROVER_loop_invariant(i <= N && tmp.n == i && !tmp.restarted && (i == 0 ==> !tmp.vanished))
__CPROVER_loop_invariant(CS_IS_GHOST ==> (FACT_UPTO(0, i) && FACT_UPTO(1, i) && FACT_UPTO(2, i) && FACT_UPTO(3, i) && FACT_UPTO(4, i) && FACT_UPTO(5, i)))
__CPROVER_decreases(N - i)
//@end
//@harness h_IndexHamiltonian_prepare enforce=IndexHamiltonian_prepare props=C04 min_obl=3771 reach=3 objbits=8 timeout=180
void h_IndexHamiltonian_prepare(void)
{
  struct IndexHamiltonian *h;
  IndexHamiltonian_prepare(h);
  REACH("exit");
}
/* MUTATION RECORD (src/pomerol/IndexHamiltonian.cpp; all killed; 24 s, 0.8 GB on the unchanged tree):
 *  I1 `if (i==0) tmp=t1` -> `if (tmp.isEmpty()) tmp=t1`  (= the tree before fix 379e1da, defect D8)   OpM_assign.assertion.1 ("operator= only starts the product"),
 *                                                                                                     IndexHamiltonian_prepare.loop_invariant_step.1-4/.8-11
 *  I2 getIndex(label, Spins[i], Orbitals[i])                       IndexHamiltonian_prepare.loop_invariant_step.2/.4/.9/.11 (factor index of the ghost term)
 *  I3 c_dag / c swapped                                            IndexHamiltonian_prepare.loop_invariant_step.2/.4/.9/.11
 *  I4 factor loop `i<N-1`                                          OpM_addassign_mon.assertion.2 (one factor per operator), .4-.9
 *  I5 `(*this)+=tmp` (amplitude dropped)                           OpM_addassign_mon.assertion.10 (amplitude)
 *  I6 order loop starts at getMaxTermOrder()-1                     IndexHamiltonian_prepare.postcondition.1, OpM_addassign_mon.assertion.1, ...
 *  I7 `if (i<=1) tmp=t1`                                           OpM_assign.assertion.1, loop_invariant_step.*
 *  I8 order loop `N>1` (order 1 skipped)                           IndexHamiltonian_prepare.postcondition.1
 * ASSUMPTIONS: storage invariant (a term stored under order N has N operators; ELEM_LOAD and `requires` for the ghost term); getIndex is a function
 *   of (label, orbital, spin); Operator::operator*= appends one factor and may make the product vanish (nondeterministic); terms of at most 6 operators. */
