// Explicit instantiation of the templates of include/pomerol/IndexContainer4.h for the element/source types the
// library uses (TwoParticleGFContainer): ElementWithPermFreq<TwoParticleGF>::operator() and
// IndexContainer4<...>::operator() are called only from user code (prog/, tests), so no library TU contains
// their compiler-generated bodies.  Nothing but the real headers is compiled here.
#include "pomerol/TwoParticleGFContainer.h"
template struct Pomerol::ElementWithPermFreq<Pomerol::TwoParticleGF>;
template class Pomerol::IndexContainer4<Pomerol::TwoParticleGF, Pomerol::TwoParticleGFContainer>;
