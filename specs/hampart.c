/* HamiltonianPart -- one block of the Hamiltonian: fill (prepare), diagonalise (compute), accessors.   Property C03
 * (block-wise diagonalisation), C07 clause "row index of a matrix element looked up inside the ket's block".
 *
 * What is proved here (per function, see the contracts):
 *   prepare : H is BlockSize x BlockSize; for an arbitrary column r and an arbitrary entry (bra, melem) of the map
 *             F.actRight(ket_r):  H(pos(bra), r) == melem;  an arbitrary cell (i, r) that no entry of that map addresses
 *             is 0;  every write is inside H -- the latter under the NAMED HYPOTHESIS HYP_BLOCKDIAG (below).
 *   compute : 1x1 block: eigenvalue = H(0,0), eigenvector = (1);  otherwise the ASSUMED contract of Eigen's solver is
 *             handed through (ascending, finite);  frame H / Eigenvalues / Status;  no-op when already computed.
 *   getEigenValue, getMinimumEigenvalue, getSize: documented values, exceptional exits.
 *
 * NAMED HYPOTHESIS  HYP_BLOCKDIAG  ("actRight maps the block into itself" = block-diagonality of H, C07):
 *   every key of F.actRight(ket) is a Fock state of the same block as ket.  It is ASSUMED in fm_entry() (the model of the
 *   returned map) and in the requires clause for the ghost entry; it is what C07's partition contract
 *   (StatesClassification::compute + Symmetrizer) has to deliver.  Without it `H(left_st,right_st)` writes outside H
 *   (getInnerState returns the position inside the bra's OWN block).  REACH label "hyp-blockdiag-used".
 */
#include "../stubs/common.h"
#include "../stubs/dense.h"
#include "../stubs/eigsolver.h"
#include "../stubs/bitset.h"
//@include types_common.inc
//@type (Pomerol::)?RealVectorType|Eigen::Matrix<double, -1, 1(, 0)?(, -1, 1)?> => RealVector ptr
//@type (Pomerol::)?(Real)?MatrixType|Eigen::Matrix<double, -1, -1(, 1)?(, -1, -1)?> => RealMatrix ptr
//@type (Pomerol::)?FockState|boost::dynamic_bitset<.*> => Bitset val
//@type std::map<(Pomerol::)?FockState, (Pomerol::)?MelemType.*>|std::map<boost::dynamic_bitset<.*>, double.*> => FockMap ptr
//@type std::map<(Pomerol::)?FockState, (Pomerol::)?MelemType.*>::(const_)?iterator|std::_Rb_tree_(const_)?iterator<std::pair<const boost::dynamic_bitset<.*>, double> ?>(::(iterator|_Self))?|std::map<boost::dynamic_bitset<.*>, double.*>::(const_)?iterator => FockMapIt val
//@type Eigen::SelfAdjointEigenSolver<.*> => EigSolver ptr
//@type (const )?Eigen::Diagonal<(const )?Eigen::Matrix<double, -1, -1(, 1)?(, -1, -1)?>(, 0)?> => DiagView val
/* `vector = matrix.diagonal()` (not used by the current code; stubs/dense.h) */
//@rename RealVector_assign(DiagView) => RealVector_assign_diag
//@record Pomerol::BlockNumber => BlockNumber val
//@record Pomerol::IndexHamiltonian => struct Operator ptr
//@tu src/pomerol/HamiltonianPart.cpp
//@enum ComputableObject::
typedef struct BlockNumber BlockNumber;
//@struct Pomerol::BlockNumber
struct Operator { int opaque; };     /* the symbolic Hamiltonian: only actRight() is used, modelled below */
//@struct Pomerol::StatesClassification only=StateSize,IndexSize,Status
//@extra
long nblocks;                        /* ghost: StatesContainer.size() */
//@end

/* ---- StatesClassification: callee contracts (the functions themselves are C07 / pkgE's).  The classification is the
 * abstract partition  state -> (block, position)  given by uninterpreted functions; what is ASSUMED about it is exactly
 * C07's "every Fock state belongs to exactly one block and is recovered from its (block, position) address". */
unsigned long __CPROVER_uninterpreted_sc_size(long block);                    /* number of states of a block */
long          __CPROVER_uninterpreted_sc_block(unsigned long w);              /* block of a Fock state */
unsigned long __CPROVER_uninterpreted_sc_pos(unsigned long w);                /* position inside its block */
unsigned long __CPROVER_uninterpreted_sc_state(long block, unsigned long pos);/* the state at (block, position) */
#define sc_size  __CPROVER_uninterpreted_sc_size
#define sc_block __CPROVER_uninterpreted_sc_block
#define sc_pos   __CPROVER_uninterpreted_sc_pos
#define sc_state __CPROVER_uninterpreted_sc_state
#define SC_MAXSTATES (1UL << 30)     /* pomerol computes 1<<IndexSize in int: IndexSize <= 30 */
static inline _Bool StatesClassification_wf(struct StatesClassification *S)
{ return S->nblocks >= 0 && S->nblocks <= (long)SC_MAXSTATES && S->StateSize <= SC_MAXSTATES && S->IndexSize <= 30 &&
         S->Status <= Computed; }
static inline unsigned long StatesClassification_getBlockSize(struct StatesClassification *S, BlockNumber in)
{
  if (S->Status < Computed) { VERIF_THROW("exStatusMismatch"); return nondet_ulong(); }
  /* the real function indexes StatesContainer[in] unchecked: ASSERTED */
  __CPROVER_assert(0 <= in.number && in.number < S->nblocks, "StatesClassification::getBlockSize: block number inside StatesContainer");
  unsigned long r = sc_size(in.number);
  __CPROVER_assume(1 <= r && r <= S->StateSize);   /* ASSUMED (C07): a block is created with its first state; blocks partition the StateSize states */
  return r;
}
static inline Bitset StatesClassification_getFockState(struct StatesClassification *S, BlockNumber in, unsigned long m)
{
  Bitset r = { nondet_ulong(), nondet_ulong() };
  if (S->Status < Computed) { VERIF_THROW("exStatusMismatch"); return r; }
  if (0 <= in.number && in.number < S->nblocks && m < sc_size(in.number)) {
    r.w = sc_state(in.number, m); r.size = S->IndexSize;
    /* ASSUMED (C07, address recovery): the state stored at (block, m) has block `block` and position m */
    __CPROVER_assume(r.w < S->StateSize && sc_block(r.w) == in.number && sc_pos(r.w) == m);
    return r;
  }
  VERIF_THROW("exWrongState"); return r;
}
static inline unsigned long StatesClassification_getInnerState(struct StatesClassification *S, Bitset state)
{
  if (S->Status < Computed) { VERIF_THROW("exStatusMismatch"); return nondet_ulong(); }
  if (state.w >= S->StateSize || state.size != S->IndexSize) { VERIF_THROW("exWrongState"); return S->StateSize; }
  long b = sc_block(state.w);
  unsigned long n = sc_pos(state.w);
  /* ASSUMED (C07): every state < StateSize has a block, and is found at its position inside that block */
  __CPROVER_assume(0 <= b && b < S->nblocks && n < sc_size(b) && sc_state(b, n) == state.w);
  return n;
}

/* ---- std::map<FockState,MelemType> returned by Operator::actRight(ket): "a map of states and corresponding matrix
 * elements, which are the result of an action" (Operator.h).  Model: the map is a FUNCTION of the ket (uninterpreted
 * ar_n / ar_key / ar_val), iterated in key order.  Ghost entry: ordinal g_e of the map of the ghost column's ket. */
unsigned long __CPROVER_uninterpreted_ar_n(unsigned long ket);
unsigned long __CPROVER_uninterpreted_ar_key(unsigned long ket, long pos);
double        __CPROVER_uninterpreted_ar_val(unsigned long ket, long pos);
#define ar_n   __CPROVER_uninterpreted_ar_n
#define ar_key __CPROVER_uninterpreted_ar_key
#define ar_val __CPROVER_uninterpreted_ar_val
typedef struct FockPair { Bitset first; double second; } FockPair;
typedef struct FockMap { Bitset ket; long n; } FockMap;
typedef struct FockMapIt { Bitset ket; long n, pos; FockPair cur; } FockMapIt;
/* ghosts, fixed by the contract's requires clause */
unsigned long g_StateSize;   /* = S.StateSize */
long   g_r;                  /* ghost column */
Bitset g_ket;                /* = S.getFockState(Block, g_r) */
long   g_e;                  /* ordinal of the ghost entry in actRight(g_ket), or -1: no ghost entry */
Bitset g_bra; double g_melem;/* the ghost entry */
long   g_p;                  /* = position of g_bra in the block */
long   g_i;                  /* ghost row for the "zero elsewhere" clause */
_Bool  g_rowhit;             /* monitor: an entry of actRight(g_ket) whose position is g_i has been visited */
#define FM_MAX 1000000L
static inline FockMap Operator_actRight(struct Operator *F, Bitset ket)
{
  FockMap m; m.ket = ket; m.n = (long)ar_n(ket.w);
  __CPROVER_assume(0 <= m.n && m.n <= FM_MAX);          /* ASSUMED: size() is a count (at most one entry per monomial) */
  return m;
}
static inline FockPair fm_entry(Bitset ket, long pos)
{
  FockPair p; p.first.w = ar_key(ket.w, pos); p.first.size = ket.size; p.second = ar_val(ket.w, pos);
  /* ASSUMED (std::map): iteration in strictly increasing key order -- point-wise against the ghost entry */
  if (ket.w == g_ket.w && g_e >= 0) {
    if (pos < g_e) __CPROVER_assume(p.first.w < g_bra.w);
    if (pos > g_e) __CPROVER_assume(p.first.w > g_bra.w);
  }
  /* NAMED HYPOTHESIS HYP_BLOCKDIAG (C07): the operator maps the block into itself */
  __CPROVER_assume(p.first.w < g_StateSize && sc_block(p.first.w) == sc_block(ket.w));
  REACH("hyp-blockdiag-used");
  /* monitor for the "zero elsewhere" clause */
  if (ket.w == g_ket.w && sc_pos(p.first.w) == (unsigned long)g_i) g_rowhit = 1;
  return p;
}
#define FockMapIt_ctor0() ((FockMapIt){ {0UL, 0UL}, 0L, 0L, { {0UL, 0UL}, 0.0 } })
#define FockMap_size(m) ((unsigned long)(m)->n)          /* std::map::size(): number of components of the image */
#define FockMap_empty(m) ((m)->n == 0)
#define FockMap_begin(m) ((FockMapIt){ (m)->ket, (m)->n, 0L, { {0UL, 0UL}, 0.0 } })
#define FockMap_end(m)   ((FockMapIt){ (m)->ket, (m)->n, (m)->n, { {0UL, 0UL}, 0.0 } })
#define FockMapIt_assign(a, b) (*(a) = (b))
#define op_ne_FockMapIt_FockMapIt(a, b) ((a).pos != (b).pos)
#define FockMapIt_postinc(it) ((it)->pos++)
#define FockMapIt_arrow(it) ({ \
  __CPROVER_assert(0 <= (it)->pos && (it)->pos < (it)->n, "std::map iterator dereferenced only before end()"); \
  (it)->cur = fm_entry((it)->ket, (it)->pos); &(it)->cur; })

//@struct Pomerol::HamiltonianPart skip=IndexInfo,QN embed=F,S

#define HP_BLOCKSIZE(self) sc_size((self)->Block.number)
#define HCELL(self, i, j) ((self)->H.data[DENSE_IDX(i, j)])
#define LVBITS(x) (*(const unsigned long *)&(x))   /* bit pattern of a double lvalue (loop invariants must not call functions) */
unsigned long g_bs;          /* ghost: the block size (calls are not allowed in loop invariants) */
//@maythrow StatesClassification_getBlockSize StatesClassification_getFockState StatesClassification_getInnerState
/* twins for the other spelling of an increment (`++it` for `it++` and vice versa): same effect.  X_inc yields the iterator after the step
 * (exact); X_postinc made from X_inc is void, so a use of its value does not compile (UNDECIDED) instead of being modelled wrongly */
#define FockMapIt_inc(it_) (FockMapIt_postinc(it_), (it_))      /* pre-increment: the iterator itself, after the step */
//@function Pomerol::HamiltonianPart::prepare() as HamiltonianPart_prepare
//@contract
__CPROVER_requires(__CPROVER_is_fresh(self, sizeof(*self)))
__CPROVER_requires(StatesClassification_wf(&self->S) && self->S.Status == Computed && g_StateSize == self->S.StateSize)
/* the part was constructed for an existing block */
__CPROVER_requires(0 <= self->Block.number && self->Block.number < self->S.nblocks)
/* the block matrix can be allocated (a 2^20 x 2^20 matrix of doubles is 8 TB) */
__CPROVER_requires(HP_BLOCKSIZE(self) <= DENSE_MAXDIM && g_bs == HP_BLOCKSIZE(self))
/* ghost column r, its ket, ghost entry (bra, melem) of actRight(ket_r) -- or no entry (g_e == -1) */
__CPROVER_requires(0 <= g_r && (unsigned long)g_r < HP_BLOCKSIZE(self))
__CPROVER_requires(g_ket.w == sc_state(self->Block.number, (unsigned long)g_r) && g_ket.size == self->S.IndexSize)
/* (C07 address recovery for the ghost ket, the same clause that getFockState's contract delivers for every ket) */
__CPROVER_requires(g_ket.w < self->S.StateSize && sc_block(g_ket.w) == self->Block.number && sc_pos(g_ket.w) == (unsigned long)g_r)
__CPROVER_requires(-1 <= g_e && g_e < (long)ar_n(g_ket.w))
__CPROVER_requires(g_e >= 0 ==> (g_bra.w == ar_key(g_ket.w, g_e) && g_bra.size == g_ket.size && D_SAME(g_melem, ar_val(g_ket.w, g_e))))
/* HYP_BLOCKDIAG for the ghost entry + C07 address recovery for it */
__CPROVER_requires(g_e >= 0 ==> (g_bra.w < self->S.StateSize && sc_block(g_bra.w) == self->Block.number &&
                                 g_p == (long)sc_pos(g_bra.w) && 0 <= g_p && (unsigned long)g_p < HP_BLOCKSIZE(self) &&
                                 sc_state(self->Block.number, (unsigned long)g_p) == g_bra.w))
/* (g_p is not used without a ghost entry; fixed to 0 so that the loop-entry snapshots of the invariants are defined) */
__CPROVER_requires(g_e < 0 ==> g_p == 0)
/* ghost row for the zero clause */
__CPROVER_requires(0 <= g_i && (unsigned long)g_i < HP_BLOCKSIZE(self) && !g_rowhit && !VERIF_thrown)
__CPROVER_assigns(self->H.rows, self->H.cols, self->H.data, self->Status, VERIF_thrown, g_rowhit)
__CPROVER_ensures(!VERIF_thrown && self->Status == Prepared)
__CPROVER_ensures(self->H.rows == (long)HP_BLOCKSIZE(self) && self->H.cols == (long)HP_BLOCKSIZE(self))
/* C03: <bra|H|ket_r> of the symbolic Hamiltonian is stored at (position of bra, r) */
__CPROVER_ensures(g_e >= 0 ==> D_SAME(HCELL(self, g_p, g_r), g_melem))
/* ... and a cell that no entry of actRight(ket_r) addresses is zero */
__CPROVER_ensures(!g_rowhit ==> D_SAME(HCELL(self, g_i, g_r), 0.0))
//@loop 1
__CPROVER_assigns(right_st, melem_it, g_rowhit, VERIF_thrown, __CPROVER_object_whole(self->H.data))
__CPROVER_loop_invariant(right_st <= BlockSize && BlockSize == g_bs && self->H.rows == (long)BlockSize && self->H.cols == (long)BlockSize)
__CPROVER_loop_invariant(!VERIF_thrown)
__CPROVER_loop_invariant(right_st <= (unsigned long)g_r ==> (!g_rowhit && LVBITS(HCELL(self, g_i, g_r)) == 0UL && (g_e >= 0 ==> LVBITS(HCELL(self, g_p, g_r)) == 0UL)))
__CPROVER_loop_invariant(right_st > (unsigned long)g_r ==> ((g_e >= 0 ==> LVBITS(HCELL(self, g_p, g_r)) == LVBITS(g_melem)) && (!g_rowhit ==> LVBITS(HCELL(self, g_i, g_r)) == 0UL)))
__CPROVER_decreases(BlockSize - right_st)
//@loop 2
__CPROVER_assigns(melem_it, g_rowhit, VERIF_thrown, __CPROVER_object_whole(self->H.data))
__CPROVER_loop_invariant(melem_it.ket.w == ket.w && melem_it.ket.size == ket.size && melem_it.n == mapStates.n && 0 <= melem_it.pos && melem_it.pos <= melem_it.n)
__CPROVER_loop_invariant(!VERIF_thrown)
__CPROVER_loop_invariant(right_st != (unsigned long)g_r ==>
    (g_rowhit == __CPROVER_loop_entry(g_rowhit) && LVBITS(HCELL(self, g_i, g_r)) == __CPROVER_loop_entry(LVBITS(HCELL(self, g_i, g_r))) &&
     (g_e >= 0 ==> LVBITS(HCELL(self, g_p, g_r)) == __CPROVER_loop_entry(LVBITS(HCELL(self, g_p, g_r))))))
__CPROVER_loop_invariant(right_st == (unsigned long)g_r ==>
    ((!g_rowhit ==> LVBITS(HCELL(self, g_i, g_r)) == 0UL) &&
     ((g_e >= 0 && melem_it.pos > g_e) ==> LVBITS(HCELL(self, g_p, g_r)) == LVBITS(g_melem))))
__CPROVER_decreases(melem_it.n - melem_it.pos)
//@end

//@harness h_HP_prepare enforce=HamiltonianPart_prepare props=C03,C07 min_obl=1375 timeout=600 reach=3
void h_HP_prepare(void)
{
  struct HamiltonianPart *p;
  HamiltonianPart_prepare(p);
  if (g_e >= 0) REACH("exit-with-ghost-entry"); else REACH("exit-without-ghost-entry");
}

/* ---------------------------------------------------------------------------------------------- compute */
//@function Pomerol::HamiltonianPart::compute() as HamiltonianPart_compute
//@contract
__CPROVER_requires(__CPROVER_is_fresh(self, sizeof(*self)))
__CPROVER_requires(self->Status <= Computed)
/* type invariant after prepare(): H square, 1 <= BlockSize */
__CPROVER_requires(RealMatrix_wf(&self->H, DENSE_MAXDIM) && self->H.rows == self->H.cols && self->H.rows >= 1)
__CPROVER_requires(RealVector_wf(&self->Eigenvalues, DENSE_MAXDIM))
__CPROVER_requires(self->Status >= Computed ==> self->Eigenvalues.size == self->H.rows)
/* frame: nothing at all when already computed; otherwise H, Eigenvalues, Status only */
__CPROVER_assigns(self->Status < Computed: self->H.rows, self->H.cols, self->H.data, __CPROVER_object_whole(self->H.data),
                  self->Eigenvalues.size, self->Eigenvalues.data, self->Status)
__CPROVER_ensures(self->Status == Computed)
__CPROVER_ensures(self->H.rows == __CPROVER_old(self->H.rows) && self->H.cols == __CPROVER_old(self->H.cols) && self->Eigenvalues.size == self->H.rows)
/* one-dimensional block: eigenvalue = the matrix element, eigenvector = (1) */
__CPROVER_ensures((__CPROVER_old(self->Status) < Computed && self->H.rows == 1) ==>
                  (D_SAME(self->Eigenvalues.data[0], __CPROVER_old(self->H.data[0])) && D_SAME(self->H.data[0], 1.0)))
/* larger block: what Eigen guarantees is what the part stores -- ascending (ghost pair), finite for finite input */
__CPROVER_ensures((__CPROVER_old(self->Status) < Computed && self->H.rows > 1 && 0 <= eig_g_a && eig_g_a <= eig_g_b && eig_g_b < self->Eigenvalues.size) ==>
                  D_LE(self->Eigenvalues.data[eig_g_a], self->Eigenvalues.data[eig_g_b]))
__CPROVER_ensures((__CPROVER_old(self->Status) < Computed && self->H.rows > 1 && eig_g_input_finite && 0 <= eig_g_b && eig_g_b < self->Eigenvalues.size) ==>
                  d_finite(self->Eigenvalues.data[eig_g_b]))
//@end

//@harness h_HP_compute enforce=HamiltonianPart_compute props=C03 min_obl=528 timeout=300 reach=3 defs=-DVERIF_FP_IEEE
void h_HP_compute(void)
{
  struct HamiltonianPart *p;
  HamiltonianPart_compute(p);
  REACH("exit");
}

/* ---------------------------------------------------------------------------------------------- accessors */
//@maythrow HamiltonianPart_getEigenValue HamiltonianPart_getMinimumEigenvalue
//@function Pomerol::HamiltonianPart::getEigenValue(unsigned long) const as HamiltonianPart_getEigenValue
//@contract
__CPROVER_requires(__CPROVER_is_fresh(self, sizeof(*self)) && RealVector_wf(&self->Eigenvalues, DENSE_MAXDIM) && !VERIF_thrown)
/* Eigen does not check the index: the caller's obligation */
__CPROVER_requires(self->Status >= Computed ==> state < (unsigned long)self->Eigenvalues.size)
__CPROVER_assigns(VERIF_thrown)
__CPROVER_ensures(VERIF_thrown == (self->Status < Computed))
__CPROVER_ensures(!VERIF_thrown ==> D_SAME(__CPROVER_return_value, self->Eigenvalues.data[state]))
//@end
//@harness h_HP_getEigenValue enforce=HamiltonianPart_getEigenValue props=C03 min_obl=101 reach=2 timeout=60
void h_HP_getEigenValue(void)
{
  struct HamiltonianPart *p; unsigned long s;
  HamiltonianPart_getEigenValue(p, s);
  if (VERIF_thrown) REACH("thrown"); else REACH("value");
}

/* "Return the lowest Eigenvalue of the current part": not greater than any stored eigenvalue (ghost k) and one of them;
 * consistent with the solver contract: for an ascending vector it is the FIRST eigenvalue. */
//@function Pomerol::HamiltonianPart::getMinimumEigenvalue() const as HamiltonianPart_getMinimumEigenvalue
//@contract
__CPROVER_requires(__CPROVER_is_fresh(self, sizeof(*self)) && RealVector_wf(&self->Eigenvalues, DENSE_MAXDIM) && !VERIF_thrown)
/* type invariant of a computed part: BlockSize >= 1 eigenvalues, none NaN (solver contract A4), ascending (A3, instantiated
 * at the pair (0, dense_g_minpos) -- dense_g_minpos is arbitrary) */
__CPROVER_requires(self->Status >= Computed ==> (self->Eigenvalues.size >= 1 && dense_g_nonan && !dense_g_minpos_used))
__CPROVER_requires((self->Status >= Computed && 0 <= dense_g_k && dense_g_k < self->Eigenvalues.size) ==> self->Eigenvalues.data[dense_g_k] == self->Eigenvalues.data[dense_g_k])
__CPROVER_requires((self->Status >= Computed && 0 <= dense_g_minpos && dense_g_minpos < self->Eigenvalues.size) ==>
                   D_LE(self->Eigenvalues.data[0], self->Eigenvalues.data[dense_g_minpos]))
/* ... and at the pair (0, dense_g_k), so that the contract does not depend on HOW the minimum is found (minCoeff or "the first one") */
__CPROVER_requires((self->Status >= Computed && 0 <= dense_g_k && dense_g_k < self->Eigenvalues.size) ==>
                   D_LE(self->Eigenvalues.data[0], self->Eigenvalues.data[dense_g_k]))
__CPROVER_assigns(VERIF_thrown, dense_g_minpos_used)
__CPROVER_ensures(VERIF_thrown == (self->Status < Computed))
__CPROVER_ensures((!VERIF_thrown && 0 <= dense_g_k && dense_g_k < self->Eigenvalues.size) ==> D_LE(__CPROVER_return_value, self->Eigenvalues.data[dense_g_k]))
/* "one of them": the instance dense_g_k == 0 of the arbitrary ghost position gives  result == Eigenvalues[0]  (a witness position
 * supplied by the minCoeff stub was demanded here before: that rejected the equivalent implementation `return Eigenvalues(0)`) */
__CPROVER_ensures((!VERIF_thrown && dense_g_k == 0) ==> D_EQ(__CPROVER_return_value, self->Eigenvalues.data[0]))
//@end
//@harness h_HP_getMinimumEigenvalue enforce=HamiltonianPart_getMinimumEigenvalue props=C03 min_obl=209 reach=2 defs=-DVERIF_FP_IEEE timeout=60
void h_HP_getMinimumEigenvalue(void)
{
  struct HamiltonianPart *p;
  HamiltonianPart_getMinimumEigenvalue(p);
  if (VERIF_thrown) REACH("thrown"); else REACH("value");
}

/* "Return the total dimensionality of the H matrix. This corresponds to the one in StatesClassfication." */
//@function Pomerol::HamiltonianPart::getSize() const as HamiltonianPart_getSize
//@contract
__CPROVER_requires(__CPROVER_is_fresh(self, sizeof(*self)) && StatesClassification_wf(&self->S) && !VERIF_thrown)
__CPROVER_requires(0 <= self->Block.number && self->Block.number < self->S.nblocks)
__CPROVER_assigns(VERIF_thrown)
__CPROVER_ensures(VERIF_thrown == (self->S.Status < Computed))
__CPROVER_ensures(!VERIF_thrown ==> __CPROVER_return_value == HP_BLOCKSIZE(self))
//@end
//@harness h_HP_getSize enforce=HamiltonianPart_getSize props=C03 min_obl=113 reach=2 timeout=60
void h_HP_getSize(void)
{
  struct HamiltonianPart *p;
  HamiltonianPart_getSize(p);
  if (VERIF_thrown) REACH("thrown"); else REACH("value");
}

/* ---- mutation record (each mutant applied to a private copy of the tree, re-extracted, harness re-run) --------------------
 * h_HP_prepare:  H(left_st,right_st)=melem -> H(right_st,left_st)=melem   FAIL prepare.loop_invariant_step.3/.4/.7 (ghost cells)
 *                H.setZero() removed                                       FAIL prepare.loop_invariant_base.3/.4 (zero clause)
 *                right_st=0 -> right_st=1                                  FAIL prepare.postcondition.3 (H(pos(bra),r)==melem), loop_invariant_base.4
 * h_HP_compute:  H(0,0)=1 -> H(0,0)=0                                      FAIL compute.postcondition.3 (1x1: eigenvector = 1)
 *                H.rows()==1 -> H.rows()==2                                FAIL compute.postcondition.2/.3/.4/.5
 *                `if (Status >= Computed) return;` removed                 FAIL RealVector_assign.assigns.*, RealMatrix_assign.assigns.* (frame of the no-op path)
 *                `Status >= Computed` -> `Status > Computed` (compute() twice diagonalises the eigenvector matrix again)
 *                                                                          FAIL HamiltonianPart_compute.assigns.1, RealVector_resize/_assign.assigns.*, RealMatrix_assign.assigns.* (same frame)
 *                Eigenvalues = -Solver.eigenvalues()                       UNDECIDED (extraction break: unary minus on a vector has no model)
 * h_HP_getEigenValue:       Eigenvalues(state) -> Eigenvalues(0)           FAIL getEigenValue.postcondition.2
 * h_HP_getMinimumEigenvalue: Status<Computed -> Status<Prepared            FAIL getMinimumEigenvalue.postcondition.1/.2
 * h_HP_getSize:             getBlockSize(Block) -> getBlockSize(0)         UNDECIDED (goto-cc: BlockNumber(int) not extracted in this spec)
 */
