#include "../stubs/common.h"
#include "../stubs/dense.h"
//@include types_common.inc
//@type (Pomerol::)?RealVectorType|Eigen::Matrix<double, -1, 1(, 0)?(, -1, 1)?> => RealVector ptr
//@type (Pomerol::)?(Real)?MatrixType|Eigen::Matrix<double, -1, -1(, 1)?(, -1, -1)?> => RealMatrix ptr
//@type (Pomerol::)?FockState|boost::dynamic_bitset<.*> => FockState val
//@type std::map<(Pomerol::)?FockState, (Pomerol::)?MelemType.*>|std::map<boost::dynamic_bitset<.*>, double.*> => FockMap ptr
//@type std::map<(Pomerol::)?FockState, (Pomerol::)?MelemType.*>::(const_)?iterator|std::_Rb_tree_(const_)?iterator<std::pair<const boost::dynamic_bitset<.*>, double> ?>(::(iterator|_Self))?|std::map<boost::dynamic_bitset<.*>, double.*>::(const_)?iterator => FockMapIt val
//@type Eigen::SelfAdjointEigenSolver<.*> => EigSolver ptr
//@record Pomerol::BlockNumber => BlockNumber val
//@record Pomerol::IndexHamiltonian => struct Operator ptr
//@tu src/pomerol/HamiltonianPart.cpp
//@enum ComputableObject::
//@struct Pomerol::BlockNumber
//@struct Pomerol::HamiltonianPart skip=IndexInfo,QN embed=F,S
//@function Pomerol::HamiltonianPart::prepare() as HamiltonianPart_prepare
//@end
//@function Pomerol::HamiltonianPart::compute() as HamiltonianPart_compute
//@end
//@function Pomerol::HamiltonianPart::getEigenValue(unsigned long) const as HamiltonianPart_getEigenValue
//@end
//@function Pomerol::HamiltonianPart::getMinimumEigenvalue() const as HamiltonianPart_getMinimumEigenvalue
//@end
//@function Pomerol::HamiltonianPart::getSize() const as HamiltonianPart_getSize
//@end
//@function Pomerol::HamiltonianPart::getBlockNumber() const as HamiltonianPart_getBlockNumber
//@end
