/* Operator: whole-operator action, matrix elements, commutation test (C05); N::actRight, Sz::actRight.
 *   Operator::actRight(ket)                 sum over the monomials, collected per result state, near-zero entries dropped
 *   Operator::getMatrixElement(bra, ket)    the entry of actRight(ket) at bra, 0 if there is none
 *   Operator::commutes(rhs)                 (*this)*rhs == rhs*(*this)   (operator== and operator* are under contract elsewhere)
 *   OperatorPresets::N::actRight, Sz::actRight
 * The single-monomial action Operator::actRight(monomial, ket) (under contract in specs/operator.c) is an ORACLE here.
 * Mutation record and remarks at the end. */
#include "../stubs/common.h"
#ifdef VERIF_FP_AXIOM
#include "../stubs/fp_axiom.h"     /* comparisons and + bit-precise; * uninterpreted with the proved sign/magnitude lemmas */
#endif
#include "../stubs/cplx.h"
#include "../stubs/bitset.h"
//@include types_common.inc
//@type (boost::)?dynamic_bitset<(unsigned long, std::allocator<unsigned long> ?)?>|(boost::)?dynamic_bitset<Block, Allocator>|(Pomerol::)?FockState => Bitset val
//@type (Pomerol::)?Operator::monomial_t|std::vector<boost::tuples::tuple<Pomerol::Operator::op_type, unsigned int.*> => Monomial ptr
//@type boost::tuple<(Pomerol::)?FockState, (Pomerol::)?MelemType>|boost::tuples::tuple<boost::dynamic_bitset<.*>, double(, boost::tuples::null_type)*> => StateMelem val
//@type boost::tuples::tuple<boost::dynamic_bitset<[^&]*> ?&, double ?&.*> => TieSM val
//@type std::pair<(Pomerol::)?FockState, (Pomerol::)?MelemType>|std::pair<boost::dynamic_bitset<[^&]*>, double> => PairFM val
//@type std::map<(Pomerol::)?FockState, (Pomerol::)?MelemType>::(const_)?iterator|std::_Rb_tree_(const_)?iterator<std::pair<const boost::dynamic_bitset<.*>, double> ?> => MapFMIt val
//@type std::map<(Pomerol::)?FockState, ?(Pomerol::)?MelemType>|std::map<boost::dynamic_bitset<.*>, double.*> => MapFM val
//@type std::map<(Pomerol::)?Operator::monomial_t, ?(Pomerol::)?MelemType>::const_iterator|std::_Rb_tree_const_iterator<std::pair<const std::vector<boost::tuples::tuple<Pomerol::Operator::op_type.*> => MonoIt val
//@type ((Pomerol::)?Operator::)?monomials_map_t|std::map<std::vector<boost::tuples::tuple<Pomerol::Operator::op_type, unsigned int.*>, double.*> => MonoMap ptr
//@type std::insert_iterator<std::map<boost::dynamic_bitset<.*>, double.*> => MapFMIns val
//@free abs(double) => d_abs
//@tu src/pomerol/Operator.cpp
const Bitset ERROR_FOCK_STATE = {0UL, 0UL};          /* Misc.h: FockState() */
#define epsilon() 2.220446049250313e-16               /* std::numeric_limits<RealType>::epsilon() */

/* ---- the operator: its monomials are VISITED in key order; a monomial is an opaque key (identity id) with a coefficient.
 * std::map<monomial_t, MelemType> iteration view (TRUSTED: begin()/++ visit every entry exactly once; the map is not modified
 * meanwhile): `size` entries; the entry under the iterator is `cur`, arbitrary, refreshed at every step. */
typedef struct Monomial { unsigned long id; } Monomial;
typedef struct MonoEntry { Monomial first; double second; } MonoEntry;
#define MAP_MAXLEN 1000000UL
typedef struct MonoMap { unsigned long size; MonoEntry cur; } MonoMap;
typedef struct MonoIt { MonoMap *m; unsigned long pos; } MonoIt;
static inline MonoIt MonoMap_begin(MonoMap *m)
{ MonoIt it; it.m = m; it.pos = 0; m->cur.first.id = nondet_ulong(); m->cur.second = nondet_double(); return it; }
#define MonoMap_end(m_) ((MonoIt){ (m_), (m_)->size })
#define op_ne_MonoIt_MonoIt(a, b) ((a)->pos != (b)->pos)
static inline void MonoIt_postinc(MonoIt *it)
{ it->pos++; it->m->cur.first.id = nondet_ulong(); it->m->cur.second = nondet_double(); }
static inline MonoEntry *MonoIt_arrow(MonoIt *it)
{ __CPROVER_assert(it->pos < it->m->size, "map<monomial_t,MelemType>::const_iterator dereferenced before end()"); return &it->m->cur; }
//@struct Pomerol::Operator
//@extra
unsigned long id;       /* ghost: identity of the polynomial as a value (for the oracles of operator* and operator==) */
//@end

/* ---- ORACLE Operator::actRight(monomial, ket)  (contract proved in specs/operator.c, h_actRight):
 * (ERROR_FOCK_STATE, 0) if the monomial annihilates ket, otherwise (a well-formed state of ket's size, +1 or -1). */
typedef struct StateMelem { Bitset s; double m; } StateMelem;
unsigned long __CPROVER_uninterpreted_mact_state(unsigned long id, unsigned long w, unsigned long size);
int __CPROVER_uninterpreted_mact_sign(unsigned long id, unsigned long w, unsigned long size);
#define ACT_W(id, k) __CPROVER_uninterpreted_mact_state((id), (k).w, (k).size)
#define ACT_SGN(id, k) __CPROVER_uninterpreted_mact_sign((id), (k).w, (k).size)

/* ---- SPEC (C05: "the Fock-space matrices ... equal the Jordan-Wigner matrices"; header of Operator::actRight: "a map of states and
 * corresponding matrix elements"):  O|ket> = sum over the monomials m of  coeff_m * m|ket>.  For ONE arbitrary result state g_B the
 * running sum of the contributions that land on g_B, in the order of the monomials; g_has: some monomial has contributed.
 * The monitor lives in the oracle: it is called exactly once per monomial visited. */
Bitset g_B;
int g_has; double g_sum;
unsigned long g_calls;         /* monomials processed so far */
static inline StateMelem actRight_fn(Monomial *m, Bitset ket)
{
  StateMelem r;
  double coeff = ((MonoEntry *)m)->second;          /* the entry this key belongs to (first member of the pair) */
  int sg = ACT_SGN(m->id, ket);
  if (sg == 0) { r.s = ERROR_FOCK_STATE; r.m = 0.0; }
  else {
    /* ASSUMED (contract of actRight(monomial, ket)): sign +-1, result state well formed, of ket's size */
    __CPROVER_assume(sg == 1 || sg == -1);
    r.s.w = ACT_W(m->id, ket); r.s.size = ket.size; r.m = (double)sg;
    __CPROVER_assume(Bitset_wf(r.s) && ket.size > 0);
    if (r.s.w == g_B.w && r.s.size == g_B.size) {
      g_sum = D_ADD(g_has ? g_sum : 0.0, D_MUL(r.m, coeff));
      g_has = 1;
      REACH("contribution");
    }
  }
  g_calls++;
  return r;
}
#define actRight(m_, k_) (((StateMelem[1]){ actRight_fn((m_), (k_)) })[0])
/* boost::tie(bra, melem) = tuple: direct stores to the two locals (cf. specs/operator.c) */
typedef struct TieSM { int unused; } TieSM;
#define tie(a_, b_) _tie_tmp, *(a_) = _s->s, *(b_) = _s->m
#define TieSM_assign(t, src) ({ StateMelem *_s = (src); TieSM _tie_tmp; (void)(t); })

/* ---- std::map<FockState, MelemType>: GHOST-KEY model, key g_B.  ASSUMED (std::map): operator[] value-initialises a missing
 * entry (0.0) and returns a reference to the mapped value; find is exact. */
typedef struct MapFM { int has; double val; double scratch; } MapFM;
typedef struct MapFMIt { MapFM *m; int at_end; } MapFMIt;
typedef struct MapFMIns { MapFM *m; } MapFMIns;
typedef struct PairFM { Bitset first; double second; } PairFM;
static inline MapFM MapFM_ctor0(void) { MapFM r; r.has = 0; r.val = 0.0; r.scratch = 0.0; return r; }
static inline double *MapFM_at(MapFM *m, Bitset *k)
{
  if (k->w == g_B.w && k->size == g_B.size) { if (!m->has) { m->has = 1; m->val = 0.0; } return &m->val; }
  m->scratch = nondet_double();
  return &m->scratch;
}
#define MapFM_begin(m_) ((MapFMIt){ (m_), 0 })
#define MapFM_end(m_) ((MapFMIt){ (m_), 1 })
#define inserter(m_, it_) ((MapFMIns){ (m_) })
/* std::remove_copy_if(first, last, out, pred): ASSUMED: copies exactly the elements for which pred is false (here: inserts them into
 * the empty map behind `out`) */
#define remove_copy_if(b_, e_, ins_, pred_) ({ MapFM *_src = (b_).m; MapFM *_dst = (ins_).m; \
  if (_src->has && !pred_((PairFM){ g_B, _src->val })) { _dst->has = 1; _dst->val = _src->val; REACH("kept"); } (void)0; })
/* twins for the other spelling of an increment (`++it` for `it++` and vice versa): same effect.  X_inc yields the iterator after the step
 * (exact); X_postinc made from X_inc is void, so a use of its value does not compile (UNDECIDED) instead of being modelled wrongly */
#define MonoIt_inc(it_) (MonoIt_postinc(it_), (it_))      /* pre-increment: the iterator itself, after the step */
//@function bool Pomerol::__is_zero<double>(std::pair<boost::dynamic_bitset<unsigned long, std::allocator<unsigned long> >, double>) as __is_zero
//@end

#define SMALL_EPS(x) D_LT(d_abs(x), epsilon())
#define D_SAME_LV(a, b) (*(const unsigned long *)&(a) == *(const unsigned long *)&(b))
//@function Pomerol::Operator::actRight(boost::dynamic_bitset<unsigned long, std::allocator<unsigned long> > const&) const as Operator_actRight_ket
//@contract
__CPROVER_requires(__CPROVER_is_fresh(self, sizeof(*self)) && self->monomials.size <= MAP_MAXLEN && Bitset_wf(ket))
__CPROVER_requires(g_has == 0 && g_calls == 0 && Bitset_wf(g_B) && g_B.size > 0)
__CPROVER_assigns(self->monomials.cur, g_has, g_sum, g_calls)
/* every monomial is applied exactly once */
__CPROVER_ensures(g_calls == self->monomials.size)
/* the entry of the arbitrary result state g_B: present iff some monomial maps ket onto it and the collected amplitude is not below
 * epsilon in magnitude; its value is the sum of coeff * sign over those monomials */
__CPROVER_ensures(__CPROVER_return_value.has == ((g_has && !SMALL_EPS(g_sum)) ? 1 : 0))
__CPROVER_ensures(__CPROVER_return_value.has ==> D_SAME(__CPROVER_return_value.val, g_sum))
//@loop 1
__CPROVER_assigns(it.pos, self->monomials.cur, result1, g_has, g_sum, g_calls)
__CPROVER_loop_invariant(it.m == &self->monomials && it.pos <= self->monomials.size && g_calls == it.pos)
__CPROVER_loop_invariant((g_has == 0 || g_has == 1) && result1.has == g_has && (g_has ==> D_SAME_LV(result1.val, g_sum)))
__CPROVER_decreases(self->monomials.size - it.pos)
//@end
//@harness h_Operator_actRight_ket enforce=Operator_actRight_ket props=C05 defs=-DVERIF_FP_IEEE,-DVERIF_FP_AXIOM reach=3 timeout=240 min_obl=352
void h_Operator_actRight_ket(void)
{
  struct Operator *o; Bitset ket;
  g_has = 0; g_calls = 0; g_sum = nondet_double();
  MapFM r = Operator_actRight_ket(o, ket);
  REACH("exit");
}

/* ---- getMatrixElement(bra, ket): "Returns a matrix element of the operator": <bra|O|ket> = the amplitude of |bra> in O|ket>,
 * i.e. (ghost state g_B = bra) the collected sum above, 0 if no monomial maps ket to bra or the sum is below epsilon.
 * actRight(ket) is replaced by its contract. */
#define MapFM_find(m_, k_) ((MapFMIt){ (m_), (((k_).w == g_B.w && (k_).size == g_B.size) ? ((m_)->has ? 0 : 1) : (nondet_bool() ? 1 : 0)) })
#define op_eq_MapFMIt_MapFMIt(a, b) ((a)->at_end == (b)->at_end)
#define op_ne_MapFMIt_MapFMIt(a, b) ((a)->at_end != (b)->at_end)
//@rename Operator_actRight/1 => Operator_actRight_ket
//@function Pomerol::Operator::getMatrixElement(boost::dynamic_bitset<unsigned long, std::allocator<unsigned long> > const&, boost::dynamic_bitset<unsigned long, std::allocator<unsigned long> > const&) const as Operator_getMatrixElement
//@contract
__CPROVER_requires(__CPROVER_is_fresh(self, sizeof(*self)) && self->monomials.size <= MAP_MAXLEN && Bitset_wf(ket) && Bitset_wf(bra) && bra.size > 0)
__CPROVER_requires(g_has == 0 && g_calls == 0 && g_B.w == bra.w && g_B.size == bra.size)
__CPROVER_assigns(self->monomials.cur, g_has, g_sum, g_calls)
__CPROVER_ensures(g_calls == self->monomials.size)
__CPROVER_ensures(D_SAME(__CPROVER_return_value, (g_has && !SMALL_EPS(g_sum)) ? g_sum : 0.0))
//@end
//@harness h_Operator_getMatrixElement enforce=Operator_getMatrixElement replace=Operator_actRight_ket props=C05 defs=-DVERIF_FP_IEEE,-DVERIF_FP_AXIOM reach=3 timeout=120 min_obl=139
void h_Operator_getMatrixElement(void)
{
  struct Operator *o; Bitset bra, ket;
  g_has = 0; g_calls = 0; g_sum = nondet_double(); g_B = bra;
  double r = Operator_getMatrixElement(o, bra, ket);
  REACH("exit");
  if (g_has) REACH("some-monomial"); else REACH("no-monomial");
}

/* ---- commutes(rhs): "Checks if current operator commutes with a given one" / C05 "equality and commutation tests agree with matrix
 * equality":  true <=> the product (*this)*rhs equals the product rhs*(*this) in the sense of operator==(Operator, Operator)
 * (entry-wise within 100 eps, specs/operator.c h_Operator_eq), i.e. the commutator vanishes.  operator* (copy, then operator*=(Operator):
 * normal ordering, specs/normalorder.c) and operator== are ORACLES: uninterpreted functions of the operands' identities. */
unsigned long __CPROVER_uninterpreted_op_prod(unsigned long a, unsigned long b);
_Bool __CPROVER_uninterpreted_op_equal(unsigned long a, unsigned long b);
#define OP_PROD(a, b) __CPROVER_uninterpreted_op_prod((a), (b))
#define OP_EQUAL(a, b) __CPROVER_uninterpreted_op_equal((a), (b))
static inline struct Operator op_mul_fn(struct Operator *a, struct Operator *b)
{ struct Operator r; r.monomials.size = nondet_ulong(); r.id = OP_PROD(a->id, b->id); REACH("product"); return r; }
#define op_mul_Operator_Operator(a_, b_) (((struct Operator[1]){ op_mul_fn((a_), (b_)) })[0])
static inline _Bool op_eq_Operator_Operator(struct Operator *a, struct Operator *b) { return OP_EQUAL(a->id, b->id); }
//@function Pomerol::Operator::commutes(Pomerol::Operator const&) const as Operator_commutes
//@contract
__CPROVER_requires(__CPROVER_is_fresh(self, sizeof(*self)) && __CPROVER_is_fresh(rhs, sizeof(*rhs)))
__CPROVER_assigns()
__CPROVER_ensures(__CPROVER_return_value == OP_EQUAL(OP_PROD(self->id, rhs->id), OP_PROD(rhs->id, self->id)))
//@end
//@harness h_Operator_commutes enforce=Operator_commutes props=C05 reach=2 timeout=60 min_obl=57
void h_Operator_commutes(void)
{
  struct Operator *a, *b;
  _Bool r = Operator_commutes(a, b);
  REACH("exit");
}

/* ---- OperatorPresets::N::actRight, Sz::actRight  (no header documentation; C05: "the specialised particle-number and S_z operators
 * act on every Fock state exactly like their generic polynomial forms").  Both operators are diagonal: the result has the single
 * entry ket -> getMatrixElement(ket) (value proved equal to the generic diagonal value in specs/operator.c; an ORACLE here).
 * Like the generic Operator::actRight, no entry is stored for an amplitude below epsilon (defect D18, repaired: see REMARK 1). */
//@record Pomerol::OperatorPresets::N => struct PresetN ptr
//@record Pomerol::OperatorPresets::Sz => struct PresetSz ptr
//@type std::vector<(Pomerol::)?ParticleIndex>|std::vector<unsigned int(, std::allocator<unsigned int> ?)?> => UVecOpaque ptr
typedef struct UVecOpaque { unsigned long size; } UVecOpaque;
//@tu src/pomerol/OperatorPresets.cpp
//@struct Pomerol::OperatorPresets::N skip=monomials
//@struct Pomerol::OperatorPresets::Sz skip=monomials
double __CPROVER_uninterpreted_diag_value(unsigned long which, unsigned long w, unsigned long size);
#define DIAG_N(k) __CPROVER_uninterpreted_diag_value(1UL, (k).w, (k).size)
#define DIAG_SZ(k) __CPROVER_uninterpreted_diag_value(2UL, (k).w, (k).size)
static inline double PresetN_getMatrixElement(struct PresetN *self, Bitset ket) { (void)self; REACH("value"); return DIAG_N(ket); }
static inline double PresetSz_getMatrixElement(struct PresetSz *self, Bitset ket) { (void)self; REACH("value"); return DIAG_SZ(ket); }
#define KET_IS_B (ket.w == g_B.w && ket.size == g_B.size)
//@function Pomerol::OperatorPresets::N::actRight(boost::dynamic_bitset<unsigned long, std::allocator<unsigned long> > const&) const as N_actRight
//@contract
__CPROVER_requires(__CPROVER_is_fresh(self, sizeof(*self)) && Bitset_wf(ket))
__CPROVER_assigns()
/* (g_B arbitrary) the only entry is the one of ket itself, with the diagonal value */
__CPROVER_ensures(!KET_IS_B ==> !__CPROVER_return_value.has)
__CPROVER_ensures(KET_IS_B ==> (__CPROVER_return_value.has ==> D_SAME(__CPROVER_return_value.val, DIAG_N(ket))))
/* C05 "exactly like their generic polynomial forms": Operator::actRight stores no entry for an amplitude below epsilon */
__CPROVER_ensures(KET_IS_B ==> (__CPROVER_return_value.has == (SMALL_EPS(DIAG_N(ket)) ? 0 : 1)))
//@end
//@harness h_N_actRight enforce=N_actRight props=C05 reach=2 timeout=60 min_obl=73
void h_N_actRight(void)
{
  struct PresetN *o; Bitset ket;
  MapFM r = N_actRight(o, ket);
  REACH("exit");
}
//@function Pomerol::OperatorPresets::Sz::actRight(boost::dynamic_bitset<unsigned long, std::allocator<unsigned long> > const&) const as Sz_actRight
//@contract
__CPROVER_requires(__CPROVER_is_fresh(self, sizeof(*self)) && Bitset_wf(ket))
__CPROVER_assigns()
__CPROVER_ensures(!KET_IS_B ==> !__CPROVER_return_value.has)
__CPROVER_ensures(KET_IS_B ==> (__CPROVER_return_value.has ==> D_SAME(__CPROVER_return_value.val, DIAG_SZ(ket))))
/* C05 "exactly like their generic polynomial forms": Operator::actRight stores no entry for an amplitude below epsilon */
__CPROVER_ensures(KET_IS_B ==> (__CPROVER_return_value.has == (SMALL_EPS(DIAG_SZ(ket)) ? 0 : 1)))
//@end
//@harness h_Sz_actRight enforce=Sz_actRight props=C05 reach=2 timeout=60 min_obl=73
void h_Sz_actRight(void)
{
  struct PresetSz *o; Bitset ket;
  MapFM r = Sz_actRight(o, ket);
  REACH("exit");
}

/* ======================= REMARKS / FINDINGS =======================
 * 1. DEFECT D18 (found by this contract: N_actRight.postcondition.4, Sz_actRight.postcondition.4; reproduced natively; repaired in /repo by fix: d6754c7):
 *    N::actRight and Sz::actRight always returned the entry ket -> value, also when the value is 0, whereas the generic Operator::actRight
 *    of the same polynomial drops amplitudes below epsilon:  N(2).actRight(|00>).size() == 1 but (n(0)+n(1)).actRight(|00>).size() == 0;
 *    Sz(2,{0}).actRight(|11>).size() == 1, generic 0.  C05 says the presets "act on every Fock state exactly like their generic polynomial
 *    forms".  No library code calls actRight on an N or Sz object (FieldOperator::mapsTo / FieldOperatorPart / HamiltonianPart call it on
 *    C, Cdag, N_offdiag and the Hamiltonian), so nothing downstream is affected today; a caller that tests `result.size() > 0` (as mapsTo does)
 *    would see a "non-annihilated" state.  Minimal patch: `if (std::abs(v) > epsilon) output[ket] = v;` in both functions.
 * 2. Operator::actRight(ket): the amplitude of a result state is accumulated in the order of the monomials (std::map order); the test that
 *    drops an entry is |sum| < epsilon (not 100 epsilon as in operator+=).  The per-monomial filter `std::abs(melem) > epsilon` never fires
 *    (melem is +-1).
 * 3. commutes(): product and comparison are oracles here; what is proved is the wiring (A*B against B*A, in this order, through operator==).
 *
 * ======================= MUTATION RECORD (tools/try_mutant.py; all killed) =======================
 * actRight(ket): `+=` -> `-=`                                   Operator_actRight_ket_wrapped_for_contract_checking.6 (loop-invariant step: value of the ghost entry)
 * actRight(ket): __is_zero `<` -> `>`                           Operator_actRight_ket.postcondition.2
 * actRight(ket): `std::abs(melem) > eps` -> `<`                 Operator_actRight_ket_wrapped_for_contract_checking.5/.6
 * getMatrixElement(bra,ket): `== end()` -> `!= end()`           Operator_getMatrixElement.postcondition.2
 * getMatrixElement(bra,ket): `output[bra]` -> `output[ket]`     Operator_getMatrixElement.postcondition.2
 * commutes: second product `(*this)*rhs`                        Operator_commutes.postcondition.1
 * commutes: result negated                                      Operator_commutes.postcondition.1
 * N::actRight: value negated                                    N_actRight.postcondition.2
 * N::actRight: stored under ERROR_FOCK_STATE                    N_actRight.postcondition.1/.3
 * Sz::actRight: value doubled                                   Sz_actRight.postcondition.2
 * Sz::actRight: assignment removed                              Sz_actRight.postcondition.3
 */
