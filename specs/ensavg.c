/* EnsembleAverage::prepare / EnsembleAverage::compute -- "the ensemble average of c^+_i c_j equals the trace of the density matrix
 * with the operator" (C09): only diagonal blocks <b|A|b> contribute, each RETAINED diagonal block exactly once (C19 clause), with
 * sum_n A[n,n] w_n; a second prepare() does not add the trace again (C14: the third way of supplying <A>,<B> to
 * Susceptibility::subtractDisconnected calls prepare() on averages that may already be prepared). */
#include "../stubs/common.h"
#include "../stubs/cplx.h"
#include "../stubs/sparse.h"
#include "../stubs/dense.h"
#include "../stubs/bimap.h"
//@include types_common.inc
//@include types_bimap.inc
//@type (Pomerol::)?RealVectorType|Eigen::Matrix<double, -1, 1(, 0)?(, -1, 1)?> => RealVector ptr
//@record Pomerol::QuadraticOperator => struct FieldOperator ptr
//@record Pomerol::QuadraticOperatorPart => struct FieldOperatorPart ptr
//@tu src/pomerol/EnsembleAverage.cpp
//@enum ComputableObject::
struct HamiltonianPart { char opaque; };
struct Hamiltonian { long nblocks; struct HamiltonianPart ghost_parts[1]; };
//@struct Pomerol::DensityMatrixPart only=weights,beta
struct DensityMatrix { double beta; long nblocks; struct DensityMatrixPart ghost_parts[1]; };
//@struct Pomerol::FieldOperatorPart only=elementsRowMajor,Status
struct StatesClassification;
//@struct Pomerol::FieldOperator only=Status,LeftRightBlocks
//@extra
struct FieldOperatorPart ghost_parts_by_left[1];
//@end
#define PART_BY_LEFT(op, l) (&(op)->ghost_parts_by_left[0] + (l))
#define H_PART(h, b) (&(h)->ghost_parts[0] + (b))
#define DM_PART(d, b) (&(d)->ghost_parts[0] + (b))
//@struct Pomerol::EnsembleAverage embed=A,H,DM

struct EnsembleAverage *g_self;
_Bool __CPROVER_uninterpreted_retained(int);
static inline _Bool DensityMatrix_isRetained(struct DensityMatrix *dm, BlockNumber in)
{ __CPROVER_assert(0 <= in.number && in.number < dm->nblocks, "DensityMatrix::isRetained: block number inside parts[]"); return __CPROVER_uninterpreted_retained(in.number); }
static inline struct DensityMatrixPart *DensityMatrix_getPart(struct DensityMatrix *dm, BlockNumber in)
{ __CPROVER_assert(0 <= in.number && in.number < dm->nblocks, "DensityMatrix::getPart: block number inside parts[]"); return DM_PART(dm, in.number); }
static inline struct HamiltonianPart *Hamiltonian_getPart(struct Hamiltonian *h, BlockNumber in)
{ __CPROVER_assert(0 <= in.number && in.number < h->nblocks, "Hamiltonian::getPart: block number inside parts[]"); return H_PART(h, in.number); }
static inline struct FieldOperatorPart *FieldOperator_getPartFromLeftIndex(struct FieldOperator *op, BlockNumber in)
{
  BiView *v = &op->LeftRightBlocks.left;
  __CPROVER_assert(0 <= v->last_pos && v->last_pos < v->n && v->e[v->last_pos].first.number == in.number, "FieldOperator::getPartFromLeftIndex: the argument is a left block of the operator");
  return PART_BY_LEFT(op, in.number);
}
static inline BlocksBimap *FieldOperator_getBlockMapping(struct FieldOperator *op) { return &op->LeftRightBlocks; }

/* ---- monitor of the per-block trace (the real EnsembleAverage::compute is proved below): value = opaque function of the block */
double __CPROVER_uninterpreted_trace_re(int); double __CPROVER_uninterpreted_trace_im(int);
static inline cplx block_trace(int b) { return cplx_ctor2(__CPROVER_uninterpreted_trace_re(b), __CPROVER_uninterpreted_trace_im(b)); }
long g_hits; unsigned long g_n_compute; cplx g_model;   /* g_model: fold, in iteration order, of the traces of the contributing blocks */
#define D_SAME_LV(a, b) (*(unsigned long *)&(a) == *(unsigned long *)&(b))
#define AL (&g_self->A.LeftRightBlocks.left)
cplx EnsembleAverage_compute_mon(struct EnsembleAverage *self, struct FieldOperatorPart *Apart, struct HamiltonianPart *Hpart, struct DensityMatrixPart *DMpart)
{
  long p = AL->last_pos;
  __CPROVER_assert(0 <= p && p < AL->n, "C09: a block trace is taken only while the iterator is on a relation of A");
  int b = AL->e[p].first.number;
  __CPROVER_assert(AL->e[p].second.number == b, "C09: only diagonal blocks <b|A|b> contribute to the average");
  __CPROVER_assert(__CPROVER_uninterpreted_retained(b), "C19: only retained blocks contribute");
  __CPROVER_assert(Apart == PART_BY_LEFT(&g_self->A, b) && Hpart == H_PART(&g_self->H, b) && DMpart == DM_PART(&g_self->DM, b), "C09: operator part, Hamiltonian part and density-matrix part of the same block b");
  if (p == AL->gpos) g_hits++;
  g_n_compute++;
  cplx v = block_trace(b);
  g_model = op_add_cplx_cplx(g_model, v);
  REACH("block_trace");
  return v;
}
//@rename EnsembleAverage_compute/3 => EnsembleAverage_compute_mon
//@tu src/pomerol/StatesClassification.cpp
//@function Pomerol::BlockNumber::operator==(Pomerol::BlockNumber const&) const as BlockNumber_eq
//@end
//@tu src/pomerol/EnsembleAverage.cpp
#define SAL (&self->A.LeftRightBlocks.left)
#define GHOST_CONTRIB (SAL->gpos >= 0 && SAL->e[SAL->gpos].first.number == SAL->e[SAL->gpos].second.number && __CPROVER_uninterpreted_retained(SAL->e[SAL->gpos].first.number))
long g_expected;
//@function Pomerol::EnsembleAverage::prepare() as EnsembleAverage_prepare
//@contract
__CPROVER_requires(__CPROVER_is_fresh(self, sizeof(*self)) && g_self == self)
__CPROVER_requires(BiView_wf(SAL) && SAL->kmax == self->H.nblocks && self->H.nblocks == self->DM.nblocks)
__CPROVER_requires(g_hits == 0 && g_n_compute == 0 && !VERIF_thrown && C_SAME(g_model, self->result) && g_expected == (GHOST_CONTRIB ? 1 : 0))
__CPROVER_assigns(self->result, self->Status, g_hits, g_n_compute, g_model, self->A.LeftRightBlocks.left.last_pos)
/* already prepared: NOTHING happens -- in particular the trace is not added a second time */
__CPROVER_ensures(__CPROVER_old(self->Status) >= Prepared ==> (g_n_compute == 0 && C_SAME(self->result, __CPROVER_old(self->result)) && self->Status == __CPROVER_old(self->Status)))
/* otherwise: every retained diagonal block contributes exactly once (ghost relation), nothing else does (monitor), result = old + fold of the traces */
__CPROVER_ensures(__CPROVER_old(self->Status) < Prepared ==> (g_hits == g_expected && self->Status == Prepared && C_SAME(self->result, g_model)))
__CPROVER_ensures(!VERIF_thrown)
//@loop 1
__CPROVER_assigns(Aiter.pos, self->result, g_hits, g_n_compute, g_model, self->A.LeftRightBlocks.left.last_pos)
__CPROVER_loop_invariant(Aiter.v == SAL && ANontrivialBlocks == &self->A.LeftRightBlocks && 0 <= Aiter.pos && Aiter.pos <= SAL->n)
__CPROVER_loop_invariant(D_SAME_LV(self->result.re, g_model.re) && D_SAME_LV(self->result.im, g_model.im))
__CPROVER_loop_invariant(SAL->gpos >= 0 ? ((g_hits == 0 && Aiter.pos <= SAL->gpos) || (g_hits == g_expected && Aiter.pos > SAL->gpos)) : g_hits == 0)
__CPROVER_decreases(SAL->n - Aiter.pos)
//@end
//@harness h_EA_prepare enforce=EnsembleAverage_prepare props=C09,C14,C19 min_obl=1145 reach=3 timeout=300
void h_EA_prepare(void)
{
  struct EnsembleAverage *ea;
  EnsembleAverage_prepare(ea);
  if (g_n_compute == 0) REACH("nothing_added"); else REACH("added");
}

//@struct Pomerol::Thermal
//@tu src/pomerol/Thermal.cpp
//@global I
//@function Pomerol::Thermal::Thermal(double) as Thermal_ctor1x
//@end
#define Thermal_ctor1(base_, beta_) Thermal_init1x((base_), (beta_))
//@tu src/pomerol/EnsembleAverage.cpp
/* ---- copy constructor (EnsembleAverage.h "Copy-constructor. \param[in] EA EnsembleAverage object to be copied."; a copy is an
 * independent object in the same state): Status and result of the copy are the source's -- a copy of a prepared average IS prepared and
 * carries the value, so prepare() on it adds nothing (h_EA_prepare, first post-condition) --, beta / MatsubaraSpacing are the source's
 * (MatsubaraSpacing given the Thermal invariant I*pi/beta of the source), the references refer to the same objects; the source is not modified.
 * TRUSTED: the implicit copy constructor of ComputableObject copies Status (its only member); the model asserts that the object
 * handed to it is the source. */
#define SPEC_PI 3.14159265358979323846
#define ComputableObject_ctor1(base_, src_) ({ \
  __CPROVER_assert((void *)(src_) == (void *)EA, "ComputableObject(const ComputableObject&): the object copied is the source EA"); \
  (void)(self->Status = EA->Status); })
#define ComputableObject_ctor0(base_) ((void)(self->Status = Constructed))
//@function Pomerol::EnsembleAverage::EnsembleAverage(Pomerol::EnsembleAverage const&) as EnsembleAverage_ctor1
//@contract
__CPROVER_requires(__CPROVER_is_fresh(self, sizeof(*self)) && __CPROVER_is_fresh(EA, sizeof(*EA)))
__CPROVER_requires(C_SAME(EA->MatsubaraSpacing, op_div_cplx_double(op_mul_cplx_double(I, SPEC_PI), EA->beta)))
__CPROVER_assigns(*self)
__CPROVER_ensures(self->Status == EA->Status)
__CPROVER_ensures(C_SAME(self->result, EA->result))
__CPROVER_ensures(D_SAME(self->beta, EA->beta) && C_SAME(self->MatsubaraSpacing, EA->MatsubaraSpacing))
__CPROVER_ensures(self->S == EA->S && self->H.nblocks == EA->H.nblocks && self->DM.nblocks == EA->DM.nblocks && D_SAME(self->DM.beta, EA->DM.beta))
__CPROVER_ensures(self->A.Status == EA->A.Status && self->A.LeftRightBlocks.left.e == EA->A.LeftRightBlocks.left.e && self->A.LeftRightBlocks.left.n == EA->A.LeftRightBlocks.left.n)
//@end
//@harness h_EA_copy enforce=EnsembleAverage_init1 props=C09,C14 min_obl=303 reach=1 timeout=120
void h_EA_copy(void)
{
  struct EnsembleAverage *ea, *src;
  EnsembleAverage_init1(ea, src);
  REACH("exit");
}
/* MUTANTS h_EA_copy: drop `result(EA.result)` / `result(0)` -> EnsembleAverage_init1.postcondition.2;
 *   `ComputableObject(EA)` -> `ComputableObject()` -> EnsembleAverage_init1.postcondition.1 */
