/* EnsembleAverage::prepare / EnsembleAverage::compute -- "the ensemble average of c^+_i c_j equals the trace of the density matrix
 * with the operator" (C09): only diagonal blocks <b|A|b> contribute, each RETAINED diagonal block exactly once (C19 clause), with
 * sum_n A[n,n] w_n; a second prepare() does not add the trace again (C14: the third way of supplying <A>,<B> to
 * Susceptibility::subtractDisconnected calls prepare() on averages that may already be prepared). */
#include "../stubs/common.h"
#include "../stubs/cplx.h"
#include "../stubs/sparse.h"
#include "../stubs/dense.h"
#include "../stubs/bimap.h"
//@include types_common.inc
//@include types_bimap.inc
//@type (Pomerol::)?RealVectorType|Eigen::Matrix<double, -1, 1(, 0)?(, -1, 1)?> => RealVector ptr
//@record Pomerol::QuadraticOperator => struct FieldOperator ptr
//@record Pomerol::QuadraticOperatorPart => struct FieldOperatorPart ptr
//@tu src/pomerol/EnsembleAverage.cpp
//@enum ComputableObject::
struct HamiltonianPart { char opaque; };
struct Hamiltonian { long nblocks; struct HamiltonianPart ghost_parts[1]; };
//@struct Pomerol::DensityMatrixPart only=weights,beta
struct DensityMatrix { double beta; long nblocks; struct DensityMatrixPart ghost_parts[1]; };
//@struct Pomerol::FieldOperatorPart only=elementsRowMajor,Status
struct StatesClassification;
//@struct Pomerol::FieldOperator only=Status,LeftRightBlocks
//@extra
struct FieldOperatorPart ghost_parts_by_left[1];
//@end
#define PART_BY_LEFT(op, l) (&(op)->ghost_parts_by_left[0] + (l))
#define H_PART(h, b) (&(h)->ghost_parts[0] + (b))
#define DM_PART(d, b) (&(d)->ghost_parts[0] + (b))
//@struct Pomerol::EnsembleAverage embed=A,H,DM,S skip=S

struct EnsembleAverage *g_self;
_Bool __CPROVER_uninterpreted_retained(int);
static inline _Bool DensityMatrix_isRetained(struct DensityMatrix *dm, BlockNumber in)
{ __CPROVER_assert(0 <= in.number && in.number < dm->nblocks, "DensityMatrix::isRetained: block number inside parts[]"); return __CPROVER_uninterpreted_retained(in.number); }
static inline struct DensityMatrixPart *DensityMatrix_getPart(struct DensityMatrix *dm, BlockNumber in)
{ __CPROVER_assert(0 <= in.number && in.number < dm->nblocks, "DensityMatrix::getPart: block number inside parts[]"); return DM_PART(dm, in.number); }
static inline struct HamiltonianPart *Hamiltonian_getPart(struct Hamiltonian *h, BlockNumber in)
{ __CPROVER_assert(0 <= in.number && in.number < h->nblocks, "Hamiltonian::getPart: block number inside parts[]"); return H_PART(h, in.number); }
static inline struct FieldOperatorPart *FieldOperator_getPartFromLeftIndex(struct FieldOperator *op, BlockNumber in)
{
  BiView *v = &op->LeftRightBlocks.left;
  __CPROVER_assert(0 <= v->last_pos && v->last_pos < v->n && v->e[v->last_pos].first.number == in.number, "FieldOperator::getPartFromLeftIndex: the argument is a left block of the operator");
  return PART_BY_LEFT(op, in.number);
}
static inline BlocksBimap *FieldOperator_getBlockMapping(struct FieldOperator *op) { return &op->LeftRightBlocks; }

/* ---- monitor of the per-block trace (the real EnsembleAverage::compute is proved below): value = opaque function of the block */
double __CPROVER_uninterpreted_trace_re(int); double __CPROVER_uninterpreted_trace_im(int);
static inline cplx block_trace(int b) { return cplx_ctor2(__CPROVER_uninterpreted_trace_re(b), __CPROVER_uninterpreted_trace_im(b)); }
long g_hits; unsigned long g_n_compute; cplx g_model;   /* g_model: fold, in iteration order, of the traces of the contributing blocks */
#define D_SAME_LV(a, b) (*(unsigned long *)&(a) == *(unsigned long *)&(b))
#define AL (&g_self->A.LeftRightBlocks.left)
cplx EnsembleAverage_compute_mon(struct EnsembleAverage *self, struct FieldOperatorPart *Apart, struct HamiltonianPart *Hpart, struct DensityMatrixPart *DMpart)
{
  long p = AL->last_pos;
  __CPROVER_assert(0 <= p && p < AL->n, "C09: a block trace is taken only while the iterator is on a relation of A");
  int b = AL->e[p].first.number;
  __CPROVER_assert(AL->e[p].second.number == b, "C09: only diagonal blocks <b|A|b> contribute to the average");
  __CPROVER_assert(__CPROVER_uninterpreted_retained(b), "C19: only retained blocks contribute");
  __CPROVER_assert(Apart == PART_BY_LEFT(&g_self->A, b) && Hpart == H_PART(&g_self->H, b) && DMpart == DM_PART(&g_self->DM, b), "C09: operator part, Hamiltonian part and density-matrix part of the same block b");
  if (p == AL->gpos) g_hits++;
  g_n_compute++;
  cplx v = block_trace(b);
  g_model = op_add_cplx_cplx(g_model, v);
  REACH("block_trace");
  return v;
}
//@rename EnsembleAverage_compute/3 => EnsembleAverage_compute_mon
//@tu src/pomerol/StatesClassification.cpp
//@function Pomerol::BlockNumber::operator==(Pomerol::BlockNumber const&) const as BlockNumber_eq
//@end
//@tu src/pomerol/EnsembleAverage.cpp
#define SAL (&self->A.LeftRightBlocks.left)
#define GHOST_CONTRIB (SAL->gpos >= 0 && SAL->e[SAL->gpos].first.number == SAL->e[SAL->gpos].second.number && __CPROVER_uninterpreted_retained(SAL->e[SAL->gpos].first.number))
long g_expected;
//@function Pomerol::EnsembleAverage::prepare() as EnsembleAverage_prepare
//@contract
__CPROVER_requires(__CPROVER_is_fresh(self, sizeof(*self)) && g_self == self)
__CPROVER_requires(BiView_wf(SAL) && SAL->kmax == self->H.nblocks && self->H.nblocks == self->DM.nblocks)
__CPROVER_requires(g_hits == 0 && g_n_compute == 0 && !VERIF_thrown && C_SAME(g_model, self->result) && g_expected == (GHOST_CONTRIB ? 1 : 0))
__CPROVER_assigns(self->result, self->Status, g_hits, g_n_compute, g_model, self->A.LeftRightBlocks.left.last_pos)
/* already prepared: NOTHING happens -- in particular the trace is not added a second time */
__CPROVER_ensures(__CPROVER_old(self->Status) >= Prepared ==> (g_n_compute == 0 && C_SAME(self->result, __CPROVER_old(self->result)) && self->Status == __CPROVER_old(self->Status)))
/* otherwise: every retained diagonal block contributes exactly once (ghost relation), nothing else does (monitor), result = old + fold of the traces */
__CPROVER_ensures(__CPROVER_old(self->Status) < Prepared ==> (g_hits == g_expected && self->Status == Prepared && C_SAME(self->result, g_model)))
__CPROVER_ensures(!VERIF_thrown)
//@loop 1
__CPROVER_assigns(Aiter.pos, self->result, g_hits, g_n_compute, g_model, self->A.LeftRightBlocks.left.last_pos)
__CPROVER_loop_invariant(Aiter.v == SAL && ANontrivialBlocks == &self->A.LeftRightBlocks && 0 <= Aiter.pos && Aiter.pos <= SAL->n)
__CPROVER_loop_invariant(D_SAME_LV(self->result.re, g_model.re) && D_SAME_LV(self->result.im, g_model.im))
__CPROVER_loop_invariant(SAL->gpos >= 0 ? ((g_hits == 0 && Aiter.pos <= SAL->gpos) || (g_hits == g_expected && Aiter.pos > SAL->gpos)) : g_hits == 0)
__CPROVER_decreases(SAL->n - Aiter.pos)
//@end
//@harness h_EA_prepare enforce=EnsembleAverage_prepare props=C09,C14,C19 min_obl=1145 reach=3 timeout=300
void h_EA_prepare(void)
{
  struct EnsembleAverage *ea;
  EnsembleAverage_prepare(ea);
  if (g_n_compute == 0) REACH("nothing_added"); else REACH("added");
}
