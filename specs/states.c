/* StatesClassification (C07, C17): state label -> (block, position) -> state.
 *   getBlockNumber(QuantumState), getBlockNumber(FockState), getInnerState(FockState), getInnerState(QuantumState),
 *   getFockState(BlockNumber, InnerQuantumState), getFockStates(BlockNumber)
 */
#include "../stubs/common.h"
#include "../stubs/bitset.h"
//@include types_common.inc
//@type boost::dynamic_bitset<.*>::reference => BitRef val
//@type (boost::)?dynamic_bitset<(unsigned long, std::allocator<unsigned long> ?)?>|(boost::)?dynamic_bitset<Block, Allocator>|(Pomerol::)?FockState => Bitset val
//@record Pomerol::BlockNumber => BlockNumber val
//@type std::vector<(Pomerol::)?BlockNumber.*> => VecBN ptr
//@type std::vector<std::vector<(Pomerol::)?FockState.*|std::vector<std::vector<boost::dynamic_bitset<.*> => VecVecFS ptr
//@type std::vector<(Pomerol::)?FockState>|std::vector<boost::dynamic_bitset<[^:]*>(, std::allocator<boost::dynamic_bitset<[^:]*> ?>)?> => VecFS ptr
//@tu src/pomerol/StatesClassification.cpp
//@enum ComputableObject::
typedef struct BlockNumber BlockNumber;
//@struct Pomerol::BlockNumber
const Bitset ERROR_FOCK_STATE = {0UL, 0UL};     /* Misc.h: FockState() */

/* ---- containers: ONE-ELEMENT GHOST VIEWS (DESIGN 3.2/3.3).  Each container knows its size and the element at ONE ghost
 * index chosen by the harness (arbitrary => statements hold for every index); every other element is unknown: a read
 * returns a nondeterministic value.
 * ASSERTED (obligations on pomerol): operator[] index < size()  (unchecked in libstdc++ under NDEBUG: out of range = UB). */
#define VEC_MAXLEN (1UL << 40)
#define NOPOS (~0UL)
/* std::vector<BlockNumber> StateBlockIndex */
typedef struct VecBN { unsigned long size; unsigned long gidx; BlockNumber gval; BlockNumber scratch; } VecBN;
static inline BlockNumber *VecBN_at(VecBN *v, unsigned long i)
{
  __CPROVER_assert(i < v->size, "vector<BlockNumber>::operator[]: index < size()");
  if (i == v->gidx) return &v->gval;
  v->scratch.number = nondet_int();
  return &v->scratch;
}
/* std::vector<FockState>: ghost position gpos (or NOPOS) holds gstate.
 * `excl`: REPRESENTATION INVARIANT supplied by the owner (pre-condition of the function under verification): the state
 * `excl` occurs at no position other than gpos -- ASSUMED at each read of another position (point-wise instance). */
typedef struct VecFS { unsigned long size; unsigned long gpos; Bitset gstate; Bitset scratch; int has_excl; Bitset excl;
  int has_bits; unsigned long bits;   /* TYPE INVARIANT supplied by the owner: every stored state is a well-formed bitset of `bits` bits (ASSUMED at each read) */
} VecFS;
unsigned long g_last_pos;   /* ghost: position of the most recent element read (for monitors) */
static inline unsigned long VecFS_size(VecFS *v) { return v->size; }
static inline Bitset *VecFS_at(VecFS *v, unsigned long n)
{
  __CPROVER_assert(n < v->size, "vector<FockState>::operator[]: index < size()");
  if (n == v->gpos) return &v->gstate;
  v->scratch.w = nondet_ulong(); v->scratch.size = nondet_ulong();
  if (v->has_excl) __CPROVER_assume(!(v->scratch.w == v->excl.w && v->scratch.size == v->excl.size));
  if (v->has_bits) __CPROVER_assume(v->scratch.size == v->bits && Bitset_wf(v->scratch));
  return &v->scratch;
}
/* std::vector<std::vector<FockState>> StatesContainer: ghost block gblock is gvec; any other block is `scratch`
 * (unknown size and contents, inheriting the exclusion) */
typedef struct VecVecFS { unsigned long size; unsigned long gblock; VecFS gvec; VecFS scratch; unsigned long scratch_idx; int has_excl; Bitset excl; } VecVecFS;
static inline unsigned long VecVecFS_size(VecVecFS *v) { return v->size; }
static inline VecFS *VecVecFS_at(VecVecFS *v, unsigned long i)
{
  __CPROVER_assert(i < v->size, "vector<vector<FockState>>::operator[]: index < size()");
  if (i == v->gblock) return &v->gvec;
  /* `scratch` stands for block scratch_idx: its size is stable as long as the same block is accessed again */
  if (i != v->scratch_idx) { v->scratch.size = nondet_ulong(); v->scratch_idx = i; }
  v->scratch.gpos = NOPOS; v->scratch.has_excl = v->has_excl; v->scratch.excl = v->excl; v->scratch.has_bits = 0;
  __CPROVER_assume(v->scratch.size <= VEC_MAXLEN);
  return &v->scratch;
}

/* types of the remaining members (used by compute() at the end of this file) */
struct Operator;
//@record Pomerol::Symmetrizer::QuantumNumbers => QN ptr
//@type boost::shared_ptr<(Pomerol::)?Operator> => OpPtr val
//@type std::vector<boost::shared_ptr<(Pomerol::)?Operator>.*> => VecOpPtr ptr
//@type std::map<(Pomerol::)?(Symmetrizer::)?QuantumNumbers, (Pomerol::)?BlockNumber>::iterator|std::_Rb_tree_iterator<std::pair<const Pomerol::Symmetrizer::QuantumNumbers, Pomerol::BlockNumber> ?> => MapQBIt val
//@type std::map<(Pomerol::)?(Symmetrizer::)?QuantumNumbers, (Pomerol::)?BlockNumber.*> => MapQB ptr
//@type std::map<(Pomerol::)?BlockNumber, (Pomerol::)?(Symmetrizer::)?QuantumNumbers.*> => MapBQ ptr
//@type std::pair<(Pomerol::)?BlockNumber, (Pomerol::)?(Symmetrizer::)?QuantumNumbers> => PairBQ val
typedef struct QN { unsigned long hash; } QN;
typedef struct OpPtr { struct Operator *p; } OpPtr;
/* ghost-element model: the operation at ONE arbitrary position gidx is the object gop; every other position yields `scratch` */
typedef struct VecOpPtr { unsigned long size; OpPtr scratch; unsigned long gidx; OpPtr gop; } VecOpPtr;
struct IndexClassification { unsigned int IndexSize; };
struct Symmetrizer { VecOpPtr Operations; };
typedef struct MapQBEntry { BlockNumber second; } MapQBEntry;
typedef struct MapQB { unsigned long size; BlockNumber slot; MapQBEntry found; } MapQB;
typedef struct MapQBIt { MapQB *m; int at_end; } MapQBIt;
typedef struct MapBQ { unsigned long size; } MapBQ;
typedef struct PairBQ { int unused; } PairBQ;
//@struct Pomerol::StatesClassification only=Status,StateSize,IndexSize,StatesContainer,StateBlockIndex,QuantumToBlock,BlockToQuantum,IndexInfo,Symm embed=IndexInfo,Symm
/* twins for the other spelling of an increment (`++it` for `it++` and vice versa): same effect.  X_inc yields the iterator after the step
 * (exact); X_postinc made from X_inc is void, so a use of its value does not compile (UNDECIDED) instead of being modelled wrongly */
#define VecFSIt_inc(it_) (VecFSIt_postinc(it_), (it_))      /* pre-increment: the iterator itself, after the step */
//@function Pomerol::BlockNumber::operator int() const as BlockNumber_conv_int
//@end

#define SBI (&self->StateBlockIndex)
#define SCN (&self->StatesContainer)
/* TYPE INVARIANT of a computed StatesClassification (post-condition of compute, see below): one block index per state */
#define SC_WF (self->StateBlockIndex.size == self->StateSize)
/* REPRESENTATION INVARIANT at the ghost state s (post-condition of compute for an arbitrary state): its block index b is a
 * valid block, s occurs in block b at position gpos and nowhere else (neither in block b nor in another block) */
#define SC_REP(sw, ssize) (SBI->gidx == (sw) && SBI->gval.number >= 0 && (unsigned long)SBI->gval.number < SCN->size && \
   SCN->gblock == (unsigned long)SBI->gval.number && SCN->gvec.size <= VEC_MAXLEN && SCN->gvec.gpos < SCN->gvec.size && \
   SCN->gvec.gstate.w == (sw) && SCN->gvec.gstate.size == (ssize) && \
   SCN->gvec.has_excl == 1 && SCN->gvec.excl.w == (sw) && SCN->gvec.excl.size == (ssize) && \
   SCN->has_excl == 1 && SCN->excl.w == (sw) && SCN->excl.size == (ssize))

//@function Pomerol::StatesClassification::getBlockNumber(unsigned long) const as SC_getBlockNumber_q
//@contract
__CPROVER_requires(__CPROVER_is_fresh(self, sizeof(*self)) && SC_WF && !VERIF_thrown)
__CPROVER_assigns(VERIF_thrown, self->StateBlockIndex.scratch)
/* rejected exactly: not computed, or a label >= StateSize */
__CPROVER_ensures(VERIF_thrown == (self->Status < Computed || in >= self->StateSize))
/* otherwise the stored block index of that state (stated at the ghost state) */
__CPROVER_ensures((!VERIF_thrown && in == SBI->gidx) ==> __CPROVER_return_value.number == SBI->gval.number)
//@end
//@harness h_getBlockNumber_q enforce=SC_getBlockNumber_q props=C07,C17 min_obl=101 reach=3 timeout=120
void h_getBlockNumber_q(void)
{
  struct StatesClassification *p; unsigned long s;
  BlockNumber b = SC_getBlockNumber_q(p, s);
  REACH("exit");
  if (VERIF_thrown) REACH("rejected"); else REACH("accepted");
}

//@function Pomerol::StatesClassification::getBlockNumber(boost::dynamic_bitset<unsigned long, std::allocator<unsigned long> >) const as SC_getBlockNumber_f
//@contract
__CPROVER_requires(__CPROVER_is_fresh(self, sizeof(*self)) && SC_WF && !VERIF_thrown && Bitset_wf(in))
__CPROVER_assigns(VERIF_thrown, self->StateBlockIndex.scratch)
__CPROVER_ensures(VERIF_thrown == (self->Status < Computed || in.w >= self->StateSize))
__CPROVER_ensures((!VERIF_thrown && in.w == SBI->gidx) ==> __CPROVER_return_value.number == SBI->gval.number)
//@end
//@harness h_getBlockNumber_f enforce=SC_getBlockNumber_f props=C07,C17 min_obl=108 reach=3 timeout=120
void h_getBlockNumber_f(void)
{
  struct StatesClassification *p; Bitset s;
  BlockNumber b = SC_getBlockNumber_f(p, s);
  REACH("exit");
  if (VERIF_thrown) REACH("rejected"); else REACH("accepted");
}

//@rename StatesClassification_getBlockNumber => SC_getBlockNumber_f
//@maythrow SC_getBlockNumber_f SC_getInnerState_f
//@function Pomerol::StatesClassification::getInnerState(boost::dynamic_bitset<unsigned long, std::allocator<unsigned long> >) const as SC_getInnerState_f
//@contract
__CPROVER_requires(__CPROVER_is_fresh(self, sizeof(*self)) && SC_WF && !VERIF_thrown && Bitset_wf(state))
__CPROVER_requires((self->Status >= Computed && state.w < self->StateSize) ==> SC_REP(state.w, state.size))
__CPROVER_assigns(VERIF_thrown, self->StateBlockIndex.scratch, self->StatesContainer.scratch, self->StatesContainer.scratch_idx, self->StatesContainer.gvec.scratch)
__CPROVER_ensures(VERIF_thrown == (self->Status < Computed || state.w >= self->StateSize))
/* the position of the state inside its block */
__CPROVER_ensures(!VERIF_thrown ==> __CPROVER_return_value == SCN->gvec.gpos)
//@loop 1
__CPROVER_assigns(n, self->StatesContainer.gvec.scratch)
__CPROVER_loop_invariant(n <= SCN->gvec.gpos && !VERIF_thrown && block.number == SBI->gval.number)
__CPROVER_decreases(SCN->gvec.gpos - n)
//@end
//@harness h_getInnerState_f enforce=SC_getInnerState_f props=C07,C17 min_obl=453 reach=3 timeout=240
void h_getInnerState_f(void)
{
  struct StatesClassification *p; Bitset s;
  unsigned long n = SC_getInnerState_f(p, s);
  REACH("exit");
  if (VERIF_thrown) REACH("rejected"); else REACH("accepted");
}

//@rename StatesClassification_getInnerState => SC_getInnerState_f
//@function Pomerol::StatesClassification::getInnerState(unsigned long) const as SC_getInnerState_q
//@contract
__CPROVER_requires(__CPROVER_is_fresh(self, sizeof(*self)) && SC_WF && !VERIF_thrown)
/* TYPE INVARIANT: StateSize = 2^IndexSize, IndexSize <= 30 (compute) */
__CPROVER_requires(self->IndexSize <= 30 && self->StateSize == (1UL << self->IndexSize))
__CPROVER_requires((self->Status >= Computed && state < self->StateSize) ==> SC_REP(state, (unsigned long)self->IndexSize))
__CPROVER_assigns(VERIF_thrown, self->StateBlockIndex.scratch, self->StatesContainer.scratch, self->StatesContainer.scratch_idx, self->StatesContainer.gvec.scratch)
__CPROVER_ensures(VERIF_thrown == (self->Status < Computed || state >= self->StateSize))
__CPROVER_ensures(!VERIF_thrown ==> __CPROVER_return_value == SCN->gvec.gpos)
//@end
//@harness h_getInnerState_q enforce=SC_getInnerState_q replace=SC_getInnerState_f props=C07,C17 min_obl=361 reach=3 timeout=120
void h_getInnerState_q(void)
{
  struct StatesClassification *p; unsigned long s;
  unsigned long n = SC_getInnerState_q(p, s);
  REACH("exit");
  if (VERIF_thrown) REACH("rejected"); else REACH("accepted");
}

//@function Pomerol::StatesClassification::getFockState(Pomerol::BlockNumber, unsigned long) const as SC_getFockState
//@contract
__CPROVER_requires(__CPROVER_is_fresh(self, sizeof(*self)) && !VERIF_thrown && SCN->size <= VEC_MAXLEN && SCN->gvec.size <= VEC_MAXLEN)
__CPROVER_assigns(VERIF_thrown, self->StatesContainer.scratch, self->StatesContainer.scratch_idx, self->StatesContainer.gvec.scratch)
/* not computed, or not a block: rejected */
__CPROVER_ensures((self->Status < Computed || in.number < 0 || (unsigned long)in.number >= SCN->size) ==> VERIF_thrown)
/* a position of the (arbitrary) ghost block: the stored state; beyond its size: rejected */
__CPROVER_ensures((self->Status >= Computed && in.number >= 0 && (unsigned long)in.number < SCN->size && (unsigned long)in.number == SCN->gblock) ==>
                  (VERIF_thrown == (m >= SCN->gvec.size) &&
                   ((!VERIF_thrown && m == SCN->gvec.gpos) ==> (__CPROVER_return_value.w == SCN->gvec.gstate.w && __CPROVER_return_value.size == SCN->gvec.gstate.size))))
//@end
//@harness h_getFockState enforce=SC_getFockState props=C07,C17 min_obl=263 reach=3 timeout=120
void h_getFockState(void)
{
  struct StatesClassification *p; BlockNumber b; unsigned long m;
  Bitset r = SC_getFockState(p, b, m);
  REACH("exit");
  if (VERIF_thrown) REACH("rejected"); else REACH("accepted");
}

/* getFockStates(BlockNumber): NO bounds check in the code (unlike getFockState): `in` must be a block -- stated as a
 * pre-condition (obligation on the callers getBlockSize / getFockStates(QuantumNumbers) / HamiltonianPart). */
//@function Pomerol::StatesClassification::getFockStates(Pomerol::BlockNumber) const as SC_getFockStates
//@contract
__CPROVER_requires(__CPROVER_is_fresh(self, sizeof(*self)) && !VERIF_thrown)
__CPROVER_requires(self->Status >= Computed ==> (in.number >= 0 && (unsigned long)in.number < SCN->size))
__CPROVER_assigns(VERIF_thrown, self->StatesContainer.scratch, self->StatesContainer.scratch_idx)
__CPROVER_ensures(VERIF_thrown == (self->Status < Computed))
__CPROVER_ensures((!VERIF_thrown && (unsigned long)in.number == SCN->gblock) ==> __CPROVER_return_value == &SCN->gvec)
//@end
//@harness h_getFockStates enforce=SC_getFockStates props=C07,C17 min_obl=139 reach=3 timeout=120
void h_getFockStates(void)
{
  struct StatesClassification *p; BlockNumber b;
  VecFS *r = SC_getFockStates(p, b);
  REACH("exit");
  if (VERIF_thrown) REACH("rejected"); else REACH("accepted");
}

/* ROUND TRIP (C07: "every Fock state ... is recovered from its (block, position) address"): for an arbitrary state s of a
 * classification that satisfies the representation invariant at s:  getFockState(getBlockNumber(s), getInnerState(s)) == s.
 * The three extracted functions run in sequence (no contract replaced). */
//@harness h_roundtrip enforce=none props=C07 min_obl=429 reach=1 timeout=300
void h_roundtrip(void)
{
  struct StatesClassification sc; struct StatesClassification *self = &sc; Bitset s;
  VERIF_thrown = 0;
  if (!(Bitset_wf(s) && sc.Status >= Computed && s.w < sc.StateSize && SC_WF && SC_REP(s.w, s.size) && SCN->size <= VEC_MAXLEN)) return;
  BlockNumber b = SC_getBlockNumber_f(&sc, s);
  unsigned long p = SC_getInnerState_f(&sc, s);
  Bitset r = SC_getFockState(&sc, b, p);
  __CPROVER_assert(!VERIF_thrown, "C07: no state of the classification is rejected");
  __CPROVER_assert(r.w == s.w && r.size == s.size, "C07: getFockState(getBlockNumber(s), getInnerState(s)) == s");
  REACH("exit");
}

/* =====================================================================================================================
 * FieldOperator::mapsTo(BlockNumber)  (C07: "every single creation, annihilation or c^+_i c_j operator maps all states of a
 * block into at most one block").  The code takes the image block from the FIRST state that is not annihilated; that is
 * correct under the pre-condition
 *   SingleTarget(O, block, T):  every state of the block that O does not annihilate is mapped into block T
 * stated for the ARBITRARY ghost state of the block (position gpos of the ghost block).  Establishing it is the duty of
 * prepare() from what Symmetrizer / StatesClassification guarantee -- known finding D9 lives there, not here.
 * Operator::actRight(state) is an ORACLE (number of result states, smallest result state), its algebra is specs/operator.c;
 * S.getFockStates and S.getBlockNumber are the extracted functions above, inlined.
 * ===================================================================================================================== */
//@type std::vector<(Pomerol::)?FockState>::const_iterator|__gnu_cxx::__normal_iterator<const boost::dynamic_bitset<.*> => VecFSIt val
//@type std::map<(Pomerol::)?FockState, (Pomerol::)?MelemType>::(const_)?iterator|std::_Rb_tree_(const_)?iterator<std::pair<const boost::dynamic_bitset<.*>, double> ?> => MapFMIt val
//@type std::map<(Pomerol::)?FockState, (Pomerol::)?MelemType>|std::map<boost::dynamic_bitset<.*>, double.*> => MapFM ptr
//@rename StatesClassification_getFockStates => SC_getFockStates
//@maythrow SC_getFockStates
const BlockNumber ERROR_BLOCK_NUMBER = { -1 };
typedef struct VecFSIt { VecFS *v; unsigned long pos; } VecFSIt;
#define VecFS_begin(v_) ((VecFSIt){ (v_), 0UL })
#define VecFS_end(v_) ((VecFSIt){ (v_), (v_)->size })
#define op_ne_VecFSIt_VecFSIt(a, b) ((a)->pos != (b)->pos)
#define VecFSIt_postinc(it) ((it)->pos++)
static inline Bitset *VecFSIt_mul(VecFSIt *it)
{
  __CPROVER_assert(it->pos < it->v->size, "vector<FockState>::const_iterator dereferenced before end()");
  g_last_pos = it->pos;
  return VecFS_at(it->v, it->pos);
}
/* std::map<FockState, MelemType>: number of entries and the smallest key */
typedef struct MapFM { unsigned long size; Bitset first; } MapFM;
typedef struct MapFMIt { MapFM *m; } MapFMIt;
static inline MapFM MapFM_ctor0(void) { MapFM r; r.size = 0; r.first.w = 0; r.first.size = 0; return r; }
#define MapFM_assign(dst, src) (*(dst) = *(src))
static inline unsigned long MapFM_size(MapFM *m) { return m->size; }
#define MapFM_begin(m_) ((MapFMIt){ (m_) })
static inline MapFM *MapFMIt_arrow(MapFMIt *it)
{ __CPROVER_assert(it->m->size > 0, "map::begin() dereferenced: the map is not empty"); return it->m; }
/* ORACLE  O->actRight(state): uninterpreted functions of the state */
unsigned long __CPROVER_uninterpreted_act_size(unsigned long, unsigned long);
unsigned long __CPROVER_uninterpreted_act_first(unsigned long, unsigned long);
#define ACT_SIZE(s) __CPROVER_uninterpreted_act_size((s).w, (s).size)
#define ACT_FIRST(s) __CPROVER_uninterpreted_act_first((s).w, (s).size)
_Bool g_found; unsigned long g_found_pos;       /* MONITOR: the first state with a non-empty image, and its position */
static inline MapFM Operator_actRight_fn(struct Operator *o, Bitset state)
{
  MapFM r; (void)o;
  r.size = ACT_SIZE(state); r.first.w = ACT_FIRST(state); r.first.size = state.size;
  /* ASSUMED (contract of Operator::actRight, specs/operator.c: a result state has the ket's size; OBLIGATION behind it:
   * the operator's mode indices are < the number of modes): the result states are well-formed states of the same space */
  __CPROVER_assume(Bitset_wf(r.first));
  if (r.size > 0 && !g_found) { g_found = 1; g_found_pos = g_last_pos; REACH("image"); }
  return r;
}
#define Operator_actRight(o_, s_) (((MapFM[1]){ Operator_actRight_fn((o_), (s_)) })[0])

//@tu src/pomerol/FieldOperator.cpp
//@struct Pomerol::FieldOperator only=S,O,Status embed=S
#undef SBI
#undef SCN
#define SBI (&self->S.StateBlockIndex)
#define SCN (&self->S.StatesContainer)
int g_T;                       /* the target block of SingleTarget */
_Bool g_img_g; unsigned long g_first_g;    /* ghost copies of ACT_SIZE(s_g) > 0 and ACT_FIRST(s_g) (no calls in loop invariants) */
//@function Pomerol::FieldOperator::mapsTo(Pomerol::BlockNumber) const as FieldOperator_mapsTo
//@contract
__CPROVER_requires(__CPROVER_is_fresh(self, sizeof(*self)) && !VERIF_thrown && !g_found)
/* a computed classification of 2^IndexSize states; RightIndex is one of its blocks -- the ghost block */
__CPROVER_requires(self->S.Status >= Computed && self->S.IndexSize <= 30 && self->S.StateSize == (1UL << self->S.IndexSize) && SBI->size == self->S.StateSize)
__CPROVER_requires(RightIndex.number >= 0 && (unsigned long)RightIndex.number < SCN->size && SCN->gblock == (unsigned long)RightIndex.number)
__CPROVER_requires(SCN->gvec.size <= VEC_MAXLEN && SCN->gvec.has_bits == 1 && SCN->gvec.bits == self->S.IndexSize && SCN->gvec.has_excl == 0)
__CPROVER_requires(SCN->gvec.gpos < SCN->gvec.size ==> (SCN->gvec.gstate.size == self->S.IndexSize && Bitset_wf(SCN->gvec.gstate)))
__CPROVER_requires(g_img_g == (ACT_SIZE(SCN->gvec.gstate) > 0) && g_first_g == ACT_FIRST(SCN->gvec.gstate))
/* SingleTarget at the ghost state: if O does not annihilate it, its image lies in block g_T (a valid block) */
__CPROVER_requires((SCN->gvec.gpos < SCN->gvec.size && g_img_g) ==> (SBI->gidx == g_first_g && SBI->gval.number == g_T && g_T >= 0))
__CPROVER_assigns(VERIF_thrown, g_found, g_found_pos, g_last_pos, self->S.StateBlockIndex.scratch, self->S.StatesContainer.scratch, self->S.StatesContainer.scratch_idx, self->S.StatesContainer.gvec.scratch)
__CPROVER_ensures(!VERIF_thrown)
/* ERROR_BLOCK_NUMBER exactly when every state of the block is annihilated (stated at the ghost state) ... */
__CPROVER_ensures(!g_found ==> (__CPROVER_return_value.number == -1 && (SCN->gvec.gpos < SCN->gvec.size ==> !g_img_g)))
/* ... otherwise the block of the image of the first surviving state, which is T when that state is the ghost state
 * (arbitrary => always) */
__CPROVER_ensures(g_found ==> (g_found_pos < SCN->gvec.size && (g_found_pos == SCN->gvec.gpos ==> (g_img_g && __CPROVER_return_value.number == g_T))))
//@loop 1
__CPROVER_assigns(state_it.pos, found, result, g_found, g_found_pos, g_last_pos, self->S.StatesContainer.gvec.scratch)
__CPROVER_loop_invariant(state_it.v == &SCN->gvec && states == &SCN->gvec && state_it.pos <= SCN->gvec.size && !VERIF_thrown && found == g_found)
__CPROVER_loop_invariant(!found ==> (SCN->gvec.gpos < state_it.pos ==> !g_img_g))
__CPROVER_loop_invariant(found ==> (result.size > 0 && g_found_pos < SCN->gvec.size && g_found_pos + 1 == state_it.pos && result.first.size == self->S.IndexSize &&
                                    (result.first.size == 64 || (result.first.w >> result.first.size) == 0) &&
                                    (g_found_pos == SCN->gvec.gpos ==> (g_img_g && result.first.w == g_first_g))))
__CPROVER_decreases(SCN->gvec.size - state_it.pos + (found ? 0UL : 1UL))
//@end
//@harness h_mapsTo enforce=FieldOperator_mapsTo props=C07 min_obl=625 reach=4 timeout=400
void h_mapsTo(void)
{
  struct FieldOperator *f; BlockNumber b;
  g_found = 0; VERIF_thrown = 0; g_T = nondet_int(); g_img_g = nondet_bool(); g_first_g = nondet_ulong();
  BlockNumber r = FieldOperator_mapsTo(f, b);
  REACH("exit");
  if (g_found) REACH("found"); else REACH("all-annihilated");
}

/* =====================================================================================================================
 * StatesClassification::compute()  (C07, C17): every one of the 2^IndexSize states gets a valid block index and is appended
 * exactly once, to that block and to no other.  Stated for the ARBITRARY ghost state g_s; the quantum numbers of a state
 * are arbitrary here (any symmetry operations, any matrix elements): the partition property does not depend on them.
 * `1 << IndexSize` is computed in int: pre-condition IndexSize <= 30 (see the remark at the end of this file).
 * ===================================================================================================================== */
#undef SBI
#undef SCN
#define SBI (&self->StateBlockIndex)
#define SCN (&self->StatesContainer)
//@rename VecVecFS_at => VecVecFS_at_mon
//@tu src/pomerol/StatesClassification.cpp
//@free make_pair => make_pair_bq
#define SYM_MAX 1000000UL
/* quantum numbers: opaque (compared through their hash by Symmetrizer::QuantumNumbers::operator<, the map's comparator) */
static inline unsigned long VecOpPtr_size(VecOpPtr *v) { return v->size; }
static inline OpPtr *VecOpPtr_at(VecOpPtr *v, unsigned long i)
{ __CPROVER_assert(i < v->size, "vector<shared_ptr<Operator>>::operator[]: index < size()"); return i == v->gidx ? &v->gop : &v->scratch; }
static inline struct Operator *OpPtr_arrow(OpPtr *s) { return s->p; }
/* the ghost PAIR (operation m, state v) -- both arbitrary -- and the ORACLE value <v|Op_m|v> (any value); the state of the latest evaluation */
struct Operator *g_mop; unsigned long g_mopn; unsigned long g_mstate; double g_melem; unsigned long g_cur_state;
/* virtual Operator::getMatrixElement(bra, ket): ORACLE, any value; for the ghost pair THE value g_melem */
static inline double Operator_getMatrixElement(struct Operator *o, Bitset bra, Bitset ket)
{
  (void)bra; g_cur_state = ket.w;
  if (o == g_mop && ket.w == g_mstate) { REACH("melem@ghost-pair"); return g_melem; }
  return nondet_double();
}
/* "quantum numbers per Fock state": number n of state u is the matrix element <u|Op_n|u> itself (checked at the ghost pair: an arbitrary pair) */
static inline _Bool QN_set(QN *q, int pos, double val)
{
  if (pos >= 0 && (unsigned long)pos == g_mopn && g_cur_state == g_mstate)
    __CPROVER_assert(D_SAME(val, g_melem), "C07: the n-th quantum number stored for a state u is the matrix element <u|Op_n|u> of the n-th symmetry operation");
  q->hash = nondet_ulong(); return 1;
}
static inline unsigned int IndexClassification_getIndexSize(struct IndexClassification *ic) { return ic->IndexSize; }
static inline VecOpPtr *Symmetrizer_getOperations(struct Symmetrizer *sy) { return &sy->Operations; }
static inline QN Symmetrizer_getQuantumNumbers(struct Symmetrizer *sy) { QN q; (void)sy; q.hash = nondet_ulong(); return q; }

/* std::map<QuantumNumbers, BlockNumber> QuantumToBlock.  View: the number of keys, and the INVARIANT "the value stored for the
 * k-th inserted key is k" -- CHECKED by the monitor at every store (BlockNumber_assign through the slot operator[] returned),
 * USED (assumed) for the value found under an arbitrary key: 0 <= value < size.  Whether a key is present is arbitrary
 * (the quantum numbers are arbitrary), except that nothing is found in an empty map. */
BlockNumber *g_qb_slot; unsigned long g_qb_expect;
static inline MapQBIt MapQB_find(MapQB *m, QN *key)
{
  MapQBIt it; it.m = m; (void)key;
  it.at_end = (m->size == 0) ? 1 : (nondet_bool() ? 1 : 0);
  if (!it.at_end) {
    m->found.second.number = nondet_int();
    /* ASSUMED: the invariant checked at every store (see above) */
    __CPROVER_assume(m->found.second.number >= 0 && (unsigned long)m->found.second.number < m->size);
    REACH("known-qn");
  } else REACH("new-qn");
  return it;
}
#define MapQB_end(m_) ((MapQBIt){ (m_), 1 })
#define op_eq_MapQBIt_MapQBIt(a, b) ((a)->at_end == (b)->at_end)
static inline MapQBEntry *MapQBIt_arrow(MapQBIt *it)
{ __CPROVER_assert(!it->at_end, "map iterator dereferenced before end()"); return &it->m->found; }
static inline BlockNumber *MapQB_at(MapQB *m, QN *key)      /* operator[] for a key that find() did not find: inserts it */
{ (void)key; g_qb_expect = m->size; m->size++; g_qb_slot = &m->slot; return &m->slot; }
static inline BlockNumber *BlockNumber_assign(BlockNumber *dst, BlockNumber src)
{
  if (dst == g_qb_slot)
    __CPROVER_assert(src.number >= 0 && (unsigned long)src.number == g_qb_expect, "C07: the block number stored for the k-th new quantum-number key is k");
  *dst = src;
  return dst;
}
#define make_pair_bq(a_, b_) ((PairBQ){ 0 })
static inline void MapBQ_insert(MapBQ *m, PairBQ p) { (void)p; m->size++; }
static inline BlockNumber BlockNumber_ctor1(int n) { BlockNumber b; b.number = n; return b; }
//@function Pomerol::BlockNumber::operator++(int) as BlockNumber_postinc_real
//@end
#define BlockNumber_postinc(b_) BlockNumber_postinc_real((b_), 0)      /* the printer drops the dummy int of a postfix call */

/* MONITORS of the appends */
unsigned long g_s;                 /* the ghost state (its label) */
unsigned long g_hits;              /* how often the ghost state has been appended to any block */
unsigned long g_hit_block;         /* ... and to which block */
unsigned long g_last_block;        /* block selected by the most recent StatesContainer[..] */
static inline VecFS *VecVecFS_at_mon(VecVecFS *v, unsigned long i)
{
  __CPROVER_assert(i < v->size, "vector<vector<FockState>>::operator[]: index < size()");
  g_last_block = i;
  return &v->scratch;
}
static inline VecFS VecFS_ctor1(unsigned long n) { VecFS v; v.size = n; v.gpos = NOPOS; v.has_excl = 0; v.has_bits = 0; return v; }
static inline void VecVecFS_push_back(VecVecFS *v, VecFS x) { (void)x; v->size++; }
static inline void VecFS_push_back(VecFS *v, Bitset state)
{
  (void)v;
  if (state.w == g_s) { g_hits++; g_hit_block = g_last_block; REACH("ghost-appended"); }
}
static inline void VecBN_push_back(VecBN *v, BlockNumber b) { if (v->size == v->gidx) v->gval = b; v->size++; }

#define GHOST_DONE (g_hits == 1 && SBI->gval.number >= 0 && (unsigned long)SBI->gval.number == g_hit_block && g_hit_block < SCN->size)
//@function Pomerol::StatesClassification::compute() as SC_compute
//@contract
__CPROVER_requires(__CPROVER_is_fresh(self, sizeof(*self)) && !VERIF_thrown)
/* a constructed, not yet computed object: all containers empty */
__CPROVER_requires(self->Status < Computed ==> (SBI->size == 0 && SCN->size == 0 && self->QuantumToBlock.size == 0 && self->BlockToQuantum.size == 0))
/* TYPE INVARIANT / OBLIGATION on the caller: at most 30 single-particle indices (1 << IndexSize is an int) */
__CPROVER_requires(self->IndexInfo.IndexSize <= 30 && self->Symm.Operations.size <= SYM_MAX)
__CPROVER_requires(SBI->gidx == g_s && g_hits == 0)
/* the ghost pair (operation, state) of the matrix-element oracle: the ghost operation is an object of its own */
__CPROVER_requires(g_mop == self->Symm.Operations.gop.p && g_mopn == self->Symm.Operations.gidx && self->Symm.Operations.gop.p != self->Symm.Operations.scratch.p)
__CPROVER_assigns(self->Status, self->IndexSize, self->StateSize, self->StateBlockIndex, self->StatesContainer, self->QuantumToBlock, self->BlockToQuantum,
                  g_hits, g_hit_block, g_last_block, g_qb_slot, g_qb_expect, g_cur_state)
__CPROVER_ensures(!VERIF_thrown && self->Status >= Computed)
__CPROVER_ensures(__CPROVER_old(self->Status) < Computed ==> (self->IndexSize == self->IndexInfo.IndexSize && self->StateSize == (1UL << self->IndexSize) && SBI->size == self->StateSize))
/* the ghost state: a valid block index; appended exactly once, to that block */
__CPROVER_ensures((__CPROVER_old(self->Status) < Computed && g_s < self->StateSize) ==> GHOST_DONE)
//@loop 1
__CPROVER_assigns(FockStateIndex, block_index, self->StateBlockIndex, self->StatesContainer, self->QuantumToBlock, self->BlockToQuantum,
                  g_hits, g_hit_block, g_last_block, g_qb_slot, g_qb_expect, g_cur_state)
__CPROVER_loop_invariant(FockStateIndex <= self->StateSize && self->StateSize == (1UL << self->IndexSize) && self->IndexSize <= 30 && NOperations >= 0)
__CPROVER_loop_invariant(SBI->size == FockStateIndex && SBI->gidx == g_s && self->BlockToQuantum.size <= FockStateIndex)
__CPROVER_loop_invariant(block_index.number >= 0 && (unsigned long)block_index.number == SCN->size && SCN->size == self->QuantumToBlock.size && SCN->size <= FockStateIndex)
__CPROVER_loop_invariant(g_s < FockStateIndex ? GHOST_DONE : g_hits == 0)
__CPROVER_decreases(self->StateSize - FockStateIndex)
//@loop 2
__CPROVER_assigns(n, QNumbers, g_cur_state)
__CPROVER_loop_invariant(0 <= n && n <= NOperations)
__CPROVER_decreases(NOperations - n)
//@end
//@harness h_SC_compute enforce=SC_compute props=C07,C17 min_obl=806 reach=5 timeout=180
void h_SC_compute(void)
{
  struct StatesClassification *p;
  VERIF_thrown = 0; g_hits = 0; g_s = nondet_ulong();
  SC_compute(p);
  REACH("exit");
}

/* ---------------------------------------------------------------------------------------------------------------------
 * REMARK (C17, `1 << IndexSize`): compute() evaluates `1<<IndexSize` in int and nothing in pomerol bounds IndexSize.
 * With the pre-condition relaxed to IndexSize <= 33 the harness h_SC_compute fails SC_compute.overflow.1 ("arithmetic
 * overflow on signed shl", IndexSize == 31) and SC_compute.undefined-shift.2 (IndexSize >= 32).  IndexSize <= 30 is
 * therefore a pre-condition of compute() that the callers (the user's lattice) must meet; it is not checked at run time.
 * REMARK: getFockStates(BlockNumber) indexes StatesContainer without any test of its argument (contract: pre-condition).
 *
 * MUTATION LOG (scratch copy of /repo, one textual change each; all killed):
 *  pre-fix 58a0a52^ (`> StateSize`)          h_getBlockNumber_q/_f: VecBN_at.assertion.1 (index StateSize read) + postcondition.1;
 *                                            h_getInnerState_f: postcondition.1/.2, VecVecFS_at.assertion.1; h_getInnerState_q: postcondition.1,
 *                                            SC_getInnerState_f.precondition.2
 *  getInnerState: `return n` -> `return n+1`                    SC_getInnerState_f.postcondition.2
 *  getFockState: `int(in) <` -> `<=`                            SC_getFockState.postcondition.1, VecVecFS_at.assertion.1
 *  getFockState: `m <` -> `m <=`                                SC_getFockState.postcondition.2, VecFS_at.assertion.1
 *  getFockState: `[in][m]` -> `[in][0]` (h_roundtrip)           h_roundtrip.assertion.2
 *  mapsTo: drop `&& !found`                                     FieldOperator_mapsTo_wrapped_for_contract_checking.5-8 (loop step checks)
 *  mapsTo: return RightIndex instead of the image's block       FieldOperator_mapsTo.postcondition.3
 *  mapsTo: `size()>0` -> `size()>1`                             FieldOperator_mapsTo_wrapped_for_contract_checking.5/.6
 *  compute: new block: StateBlockIndex.push_back(0)             SC_compute.loop_invariant_step.8
 *  compute: drop block_index++                                  SC_compute.loop_invariant_step.7
 *  compute: known block: extra StatesContainer[0].push_back     SC_compute.loop_invariant_step.8
 *  compute: loop from FockStateIndex=1                          SC_compute.postcondition.2/.3, loop_invariant_base.4
 * ------------------------------------------------------------------------------------------------------------------- */
