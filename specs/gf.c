/* GreensFunction -- selection of the block pairs <l|c|r><r|c^+|l> by a merge walk over C.left and CX.right (C01, C19),
 * compute() (every part computed exactly once), summation over the parts in frequency and imaginary time (C01, C11).
 * The structure follows specs/susc.c (pkgB1): same bimap model (stubs/bimap.h), same kind of opaque part handles.
 * What is / is not proved and the mutants: comment at the end of the file. */
#include "../stubs/common.h"
#include "../stubs/cplx.h"
#include "../stubs/bimap.h"
//@include types_common.inc
//@include types_bimap.inc
//@type std::list<(Pomerol::)?GreensFunctionPart \*(, std::allocator<.*>)?> => PartList ptr
//@type std::list<(Pomerol::)?GreensFunctionPart \*(, std::allocator<.*>)?>::(const_)?iterator|std::_List_(const_)?iterator<(Pomerol::)?GreensFunctionPart \*> => PartListIt val
//@record Pomerol::AnnihilationOperator => struct FieldOperator ptr
//@record Pomerol::CreationOperator => struct FieldOperator ptr
//@record Pomerol::AnnihilationOperatorPart => struct FieldOperatorPart ptr
//@record Pomerol::CreationOperatorPart => struct FieldOperatorPart ptr
//@tu src/pomerol/GreensFunction.cpp
//@enum ComputableObject::

/* ---- opaque part handles.  The parts themselves are not touched by prepare(); a handle is an injective function of
 * (owner, block number): base address of a one-element ghost array inside the owner + block number (never dereferenced). */
struct FieldOperatorPart { char opaque; };
struct HamiltonianPart { char opaque; };
struct DensityMatrixPart { char opaque; };
struct GreensFunctionPart { char opaque; };
struct Hamiltonian { long nblocks; struct HamiltonianPart ghost_parts[1]; };
struct DensityMatrix { double beta; long nblocks; struct DensityMatrixPart ghost_parts[1]; };
struct StatesClassification;
//@struct Pomerol::FieldOperator only=Status,LeftRightBlocks
//@extra
struct FieldOperatorPart ghost_parts_by_left[1];    /* handle of the part whose LEFT block is l:  &ghost_parts_by_left[0] + l  */
struct FieldOperatorPart ghost_parts_by_right[1];   /* handle of the part whose RIGHT block is r: &ghost_parts_by_right[0] + r */
//@end
#define PART_BY_LEFT(op, l) (&(op)->ghost_parts_by_left[0] + (l))
#define PART_BY_RIGHT(op, r) (&(op)->ghost_parts_by_right[0] + (r))
#define H_PART(h, b) (&(h)->ghost_parts[0] + (b))
#define DM_PART(d, b) (&(d)->ghost_parts[0] + (b))

/* ---- std::list<GreensFunctionPart*> (TRUSTED: push_back appends, size() counts, iteration visits the elements in order).
 * Part handles are opaque and never dereferenced, so the list is modelled by its length: the element at position k is the
 * canonical handle &g_new_parts[0] + k.  push_back asserts that what is appended is the handle of the part created last,
 * and prepare() keeps `number of elements == number of parts created`, so after prepare() the element at position k IS the
 * k-th created part; for compute() / evaluation on an arbitrary list the names of the handles are immaterial.  Iterator = index. */
#define PL_MAX 1000000L
struct GreensFunctionPart g_new_parts[1];   /* handles: &g_new_parts[0] + ordinal */
#define PART_AT(k) (&g_new_parts[0] + (k))
typedef struct PartList {
  unsigned long n;
  struct GreensFunctionPart *cur;   /* slot that `*it` refers to */
  /* ghost */ long gidx;      /* ONE arbitrary position (or -1) */
  long last_pos;              /* position of the most recent dereference */
} PartList;
typedef struct PartListIt { PartList *l; long pos; } PartListIt;
struct GreensFunctionPart *g_last_new;   /* result of the most recent `new GreensFunctionPart(...)` */
unsigned long g_n_new;                   /* number of parts created */
static inline void PartList_push_back(PartList *l, struct GreensFunctionPart *p)
{
  __CPROVER_assert(p == g_last_new && l->n + 1 == g_n_new, "C01: what is appended to the list is the part just created");
  l->n++;
}
static inline unsigned long PartList_size(PartList *l) { return l->n; }
static inline _Bool PartList_wf(PartList *l) { return l->n <= PL_MAX && l->gidx >= -1; }
#define PartList_begin(l_) ((PartListIt){ (l_), 0 })
#define PartList_end(l_) ((PartListIt){ (l_), (long)(l_)->n })
#define op_ne_PartListIt_PartListIt(a, b) ((a)->pos != (b)->pos)
#define PartListIt_postinc(it) ({ __CPROVER_assert(0 <= (it)->pos && (it)->pos < (long)(it)->l->n, "std::list: end() is not incremented"); (it)->pos++; })
#define PartListIt_mul(it) ({ \
  __CPROVER_assert(0 <= (it)->pos && (it)->pos < (long)(it)->l->n, "std::list: iterator dereferenced only before end()"); \
  (it)->l->last_pos = (it)->pos; (it)->l->cur = PART_AT((it)->pos); \
  &(it)->l->cur; })

//@struct Pomerol::GreensFunction embed=C,CX,H,DM

struct GreensFunction *g_self;   /* the object under verification (for the monitors) */
long g_hits;                     /* number of parts created for the ghost pair of relations */
long g_expected;                 /* expected value of g_hits (pre-state) */

/* C19: retained(b) is an opaque oracle of the block number (DensityMatrix::isRetained(b) = parts[b]->isRetained(); under
 * contract in densmat.c; not modified by prepare()) */
_Bool __CPROVER_uninterpreted_retained(int);
/* callee contracts (their pre-conditions are obligations of prepare()):
 *   DensityMatrix::isRetained(b), DensityMatrix::getPart(b), Hamiltonian::getPart(b) index `parts[b]`: b must be a block number. */
static inline _Bool DensityMatrix_isRetained(struct DensityMatrix *dm, BlockNumber in)
{
  __CPROVER_assert(0 <= in.number && in.number < dm->nblocks, "DensityMatrix::isRetained: block number inside parts[]");
  return __CPROVER_uninterpreted_retained(in.number);
}
static inline struct DensityMatrixPart *DensityMatrix_getPart(struct DensityMatrix *dm, BlockNumber in)
{
  __CPROVER_assert(0 <= in.number && in.number < dm->nblocks, "DensityMatrix::getPart: block number inside parts[]");
  return DM_PART(dm, in.number);
}
static inline struct HamiltonianPart *Hamiltonian_getPart(struct Hamiltonian *h, BlockNumber in)
{
  __CPROVER_assert(0 <= in.number && in.number < h->nblocks, "Hamiltonian::getPart: block number inside parts[]");
  return H_PART(h, in.number);
}
/*   FieldOperator::getPartFromLeftIndex(l) = *parts[mapPartsFromLeft.find(l)->second]: l must be a LEFT key of LeftRightBlocks
 *   (find() is dereferenced unchecked); witness: the relation the left iterator was dereferenced at last.  Same for Right.
 *   Both throw exStatusMismatch when the operator is not prepared. */
static inline struct FieldOperatorPart *FieldOperator_getPartFromLeftIndex(struct FieldOperator *op, BlockNumber in)
{
  if (op->Status < Prepared) { VERIF_THROW("exStatusMismatch"); return (struct FieldOperatorPart *)0; }
  BiView *v = &op->LeftRightBlocks.left;
  __CPROVER_assert(0 <= v->last_pos && v->last_pos < v->n && v->e[v->last_pos].first.number == in.number,
                   "FieldOperator::getPartFromLeftIndex: the argument is a left block of the operator");
  return PART_BY_LEFT(op, in.number);
}
static inline struct FieldOperatorPart *FieldOperator_getPartFromRightIndex(struct FieldOperator *op, BlockNumber in)
{
  if (op->Status < Prepared) { VERIF_THROW("exStatusMismatch"); return (struct FieldOperatorPart *)0; }
  BiView *v = &op->LeftRightBlocks.right;
  __CPROVER_assert(0 <= v->last_pos && v->last_pos < v->n && v->e[v->last_pos].first.number == in.number,
                   "FieldOperator::getPartFromRightIndex: the argument is a right block of the operator");
  return PART_BY_RIGHT(op, in.number);
}

/* SPEC (GreensFunction.h "A pair of parts, one part of an annihilation operator and another from a creation operator,
 * corresponds to a part of the Green's function"; GreensFunctionPart.h constructor doc; Lehmann sum, C01/C19):
 * for every relation <l|c|r> of C and <r'|c^+|l'> of CX with l' == l and r' == r, exactly one part
 *   GreensFunctionPart(C-part with left block l, CX-part with right block l, H(r), H(l), DM(r), DM(l))
 * -- inner block = r (columns of c, the inner index of the part's double loop), outer block = l (rows of c) --
 * iff the block l or the block r is retained; nothing else. */
#define CL (&g_self->C.LeftRightBlocks.left)
#define XR (&g_self->CX.LeftRightBlocks.right)
#define MATCH(p, q) (CL->e[p].first.number == XR->e[q].first.number && CL->e[p].second.number == XR->e[q].second.number)
struct GreensFunctionPart *GreensFunctionPart_new6(struct FieldOperatorPart *Cpart, struct FieldOperatorPart *CXpart,
    struct HamiltonianPart *HInner, struct HamiltonianPart *HOuter, struct DensityMatrixPart *DMInner, struct DensityMatrixPart *DMOuter)
{
  long p = CL->last_pos, q = XR->last_pos;
  /* soundness: a part is created only while the iterators are on a matching pair of relations ... */
  __CPROVER_assert(0 <= p && p < CL->n && 0 <= q && q < XR->n, "C01: a part is created only while both iterators are on relations");
  __CPROVER_assert(MATCH(p, q), "C01: a part is created only for <l|c|r><r|c^+|l>");
  int l = CL->e[p].first.number, r = CL->e[p].second.number;
  /* ... of which at least one block is retained ... */
  __CPROVER_assert(__CPROVER_uninterpreted_retained(l) || __CPROVER_uninterpreted_retained(r), "C19: no part for a stripe of discarded blocks");
  /* ... from the documented constituents */
  __CPROVER_assert(Cpart == PART_BY_LEFT(&g_self->C, l), "C01: first argument = part of C with left block l");
  __CPROVER_assert(CXpart == PART_BY_RIGHT(&g_self->CX, l), "C01: second argument = part of CX with right block l");
  __CPROVER_assert(HInner == H_PART(&g_self->H, r) && HOuter == H_PART(&g_self->H, l), "C01: Hamiltonian parts: inner = r, outer = l");
  __CPROVER_assert(DMInner == DM_PART(&g_self->DM, r) && DMOuter == DM_PART(&g_self->DM, l), "C01: density-matrix parts: inner = r, outer = l");
  if (p == CL->gpos && q == XR->gpos) g_hits++;
  g_last_new = PART_AT(g_n_new);
  g_n_new++;
  REACH("new_part");
  return g_last_new;
}

//@tu src/pomerol/StatesClassification.cpp
/* twins for the other spelling of an increment (`++it` for `it++` and vice versa): same effect.  X_inc yields the iterator after the step
 * (exact); X_postinc made from X_inc is void, so a use of its value does not compile (UNDECIDED) instead of being modelled wrongly */
#define PartListIt_inc(it_) (PartListIt_postinc(it_), (it_))      /* pre-increment: the iterator itself, after the step */
//@function Pomerol::BlockNumber::operator==(Pomerol::BlockNumber const&) const as BlockNumber_eq
//@end
//@function Pomerol::BlockNumber::operator int() const as BlockNumber_conv_int
//@end
//@tu src/pomerol/FieldOperator.cpp
//@maythrow FieldOperator_getBlockMapping FieldOperator_getPartFromLeftIndex FieldOperator_getPartFromRightIndex
//@function Pomerol::FieldOperator::getBlockMapping() const as FieldOperator_getBlockMapping
//@end
//@tu src/pomerol/GreensFunction.cpp

#define SCL (&self->C.LeftRightBlocks.left)
#define SXR (&self->CX.LeftRightBlocks.right)
#define GHOST_MATCH (SCL->gpos >= 0 && SXR->gpos >= 0 && MATCH(SCL->gpos, SXR->gpos))
#define EXPECTED_HITS ((GHOST_MATCH && (__CPROVER_uninterpreted_retained(SCL->e[SCL->gpos].first.number) || __CPROVER_uninterpreted_retained(SCL->e[SCL->gpos].second.number))) ? 1 : 0)
#define PREPARE_FRAME self->parts.n, self->Vanishing, self->Status, g_hits, g_n_new, g_last_new, VERIF_thrown, \
                      self->C.LeftRightBlocks.left.last_pos, self->CX.LeftRightBlocks.right.last_pos
//@function Pomerol::GreensFunction::prepare() as GreensFunction_prepare
//@contract
__CPROVER_requires(__CPROVER_is_fresh(self, sizeof(*self)) && g_self == self)
/* type invariants: the two views that are walked; every stored number is a block number of the model (bimap.h B3) */
__CPROVER_requires(BiView_wf(SCL) && BiView_wf(SXR))
__CPROVER_requires(self->H.nblocks == self->DM.nblocks && SCL->kmax == self->H.nblocks && SXR->kmax == self->H.nblocks)
/* state after the constructor (or after an earlier prepare()) */
__CPROVER_requires(self->Status >= Prepared || (self->Vanishing && self->parts.n == 0))
/* ghost pair: ONE arbitrary relation of C (left view) and ONE arbitrary relation of CX (right view), matching or not */
__CPROVER_requires(g_hits == 0 && g_n_new == 0 && !VERIF_thrown && g_expected == EXPECTED_HITS)
__CPROVER_assigns(PREPARE_FRAME)
/* already prepared: nothing happens */
__CPROVER_ensures(__CPROVER_old(self->Status) >= Prepared ==>
    (!VERIF_thrown && g_n_new == 0 && self->Status == __CPROVER_old(self->Status) && !self->Vanishing == !__CPROVER_old(self->Vanishing) && self->parts.n == __CPROVER_old(self->parts.n)))
/* an operator that is not prepared: exStatusMismatch, nothing created, status unchanged */
__CPROVER_ensures(__CPROVER_old(self->Status) < Prepared ==> (VERIF_thrown == (self->C.Status < Prepared || self->CX.Status < Prepared)))
__CPROVER_ensures(VERIF_thrown ==> (g_n_new == 0 && self->parts.n == 0 && self->Vanishing && self->Status == __CPROVER_old(self->Status)))
/* normal exit */
__CPROVER_ensures((__CPROVER_old(self->Status) < Prepared && !VERIF_thrown) ==> self->Status == Prepared)
/* completeness + uniqueness + C19: the ghost pair yields exactly one part iff it matches and l or r is retained */
__CPROVER_ensures((__CPROVER_old(self->Status) < Prepared && !VERIF_thrown) ? g_hits == g_expected : g_hits == 0)
/* every created part is in the list, and Vanishing <=> no part */
__CPROVER_ensures((__CPROVER_old(self->Status) < Prepared && !VERIF_thrown) ==> (self->parts.n == g_n_new && !self->Vanishing == (self->parts.n != 0)))
/* at most one part per relation of C and per relation of CX */
__CPROVER_ensures((__CPROVER_old(self->Status) < Prepared && !VERIF_thrown) ==> (self->parts.n <= (unsigned long)SCL->n && self->parts.n <= (unsigned long)SXR->n))
//@loop 1
__CPROVER_assigns(Citer.pos, CXiter.pos, self->parts.n, g_hits, g_n_new, g_last_new, VERIF_thrown,
                  self->C.LeftRightBlocks.left.last_pos, self->CX.LeftRightBlocks.right.last_pos)
__CPROVER_loop_invariant(Citer.v == SCL && CXiter.v == SXR && CNontrivialBlocks == &self->C.LeftRightBlocks && CXNontrivialBlocks == &self->CX.LeftRightBlocks)
__CPROVER_loop_invariant(0 <= Citer.pos && Citer.pos <= SCL->n && 0 <= CXiter.pos && CXiter.pos <= SXR->n)
__CPROVER_loop_invariant(!VERIF_thrown)
__CPROVER_loop_invariant(self->parts.n == g_n_new && g_n_new <= (unsigned long)Citer.pos && g_n_new <= (unsigned long)CXiter.pos)
__CPROVER_loop_invariant(GHOST_MATCH
     ? ((g_hits == 0 && Citer.pos <= SCL->gpos && CXiter.pos <= SXR->gpos) ||
        (g_hits == g_expected && Citer.pos > SCL->gpos && CXiter.pos > SXR->gpos))
     : g_hits == 0)
__CPROVER_decreases((SCL->n - Citer.pos) + (SXR->n - CXiter.pos))
//@end

//@harness h_GF_prepare enforce=GreensFunction_prepare props=C01,C11,C19 min_obl=2299 timeout=300 reach=4
void h_GF_prepare(void)
{
  struct GreensFunction *gf;
  GreensFunction_prepare(gf);
  if (VERIF_thrown) REACH("thrown");
  else if (g_n_new == 0) REACH("exit_vanishing");
  else REACH("exit_parts");
}

/* ================================================================================================================
 * compute() (GreensFunction.h: "Actually computes the parts"): nothing if already computed; prepare() first if needed (its
 * CONTRACT is used at the call); then GreensFunctionPart::compute() (under contract in gfpart.c) on every part of the list
 * exactly once (monitor: the part computed is the list element the iterator is on, positions strictly increase; ghost
 * position: computed exactly once); Status = Computed.  If prepare() throws (an operator is not prepared) nothing is computed
 * and the status is unchanged. */
long g_computes;         /* compute() calls on the part at the ghost position */
long g_last_computed;    /* position of the part computed last */
unsigned long g_n_computes;
void GreensFunctionPart_compute(struct GreensFunctionPart *part)
{
  PartList *l = &g_self->parts; long k = l->last_pos;
  __CPROVER_assert(0 <= k && k < (long)l->n && part == PART_AT(k), "C01: the part computed is the list element the iterator is on");
  __CPROVER_assert(k > g_last_computed, "C01: every part is computed at most once");
  g_last_computed = k; g_n_computes++;
  if (k == l->gidx) g_computes++;
  REACH("part_compute");
}
//@maythrow GreensFunction_prepare
//@function Pomerol::GreensFunction::compute() as GreensFunction_compute
//@contract
__CPROVER_requires(__CPROVER_is_fresh(self, sizeof(*self)) && g_self == self)
/* pre-conditions of prepare() (only needed when Status < Prepared) */
__CPROVER_requires(BiView_wf(SCL) && BiView_wf(SXR))
__CPROVER_requires(self->H.nblocks == self->DM.nblocks && SCL->kmax == self->H.nblocks && SXR->kmax == self->H.nblocks)
__CPROVER_requires(self->Status >= Prepared || (self->Vanishing && self->parts.n == 0))
__CPROVER_requires(g_hits == 0 && g_n_new == 0 && !VERIF_thrown && g_expected == EXPECTED_HITS)
__CPROVER_requires(PartList_wf(&self->parts) && g_computes == 0 && g_n_computes == 0 && g_last_computed == -1)
__CPROVER_assigns(PREPARE_FRAME, self->parts.cur, self->parts.last_pos, g_computes, g_n_computes, g_last_computed)
/* already computed: nothing happens */
__CPROVER_ensures(__CPROVER_old(self->Status) >= Computed ==>
    (!VERIF_thrown && g_n_new == 0 && g_n_computes == 0 && self->Status == __CPROVER_old(self->Status) && self->parts.n == __CPROVER_old(self->parts.n)))
/* prepare() is run iff the object was not prepared (then its post-conditions hold: g_hits == g_expected etc.) */
__CPROVER_ensures(__CPROVER_old(self->Status) >= Prepared ==> (!VERIF_thrown && g_n_new == 0 && self->parts.n == __CPROVER_old(self->parts.n)))
__CPROVER_ensures(__CPROVER_old(self->Status) < Prepared ==> (VERIF_thrown == (self->C.Status < Prepared || self->CX.Status < Prepared)))
__CPROVER_ensures((__CPROVER_old(self->Status) < Prepared && !VERIF_thrown) ==> (g_hits == g_expected && self->parts.n == g_n_new && !self->Vanishing == (self->parts.n != 0)))
__CPROVER_ensures(VERIF_thrown ==> (g_n_computes == 0 && self->Status == __CPROVER_old(self->Status)))
/* every part of the list is computed exactly once */
__CPROVER_ensures((__CPROVER_old(self->Status) < Computed && !VERIF_thrown) ==>
    (self->Status == Computed && g_n_computes == self->parts.n && g_computes == ((0 <= self->parts.gidx && self->parts.gidx < (long)self->parts.n) ? 1 : 0)))
//@loop 1
__CPROVER_assigns(iter.pos, self->parts.cur, self->parts.last_pos, g_computes, g_n_computes, g_last_computed)
__CPROVER_loop_invariant(iter.l == &self->parts && 0 <= iter.pos && iter.pos <= (long)self->parts.n)
__CPROVER_loop_invariant(g_last_computed == iter.pos - 1 && g_n_computes == (unsigned long)iter.pos)
__CPROVER_loop_invariant(g_computes == ((0 <= self->parts.gidx && self->parts.gidx < iter.pos) ? 1 : 0))
__CPROVER_decreases((long)self->parts.n - iter.pos)
//@end

//@harness h_GF_compute enforce=GreensFunction_compute replace=GreensFunction_prepare props=C01,C11 min_obl=1081 timeout=120 reach=5
void h_GF_compute(void)
{
  struct GreensFunction *gf;
  GreensFunction_compute(gf);
  if (VERIF_thrown) REACH("thrown");
  else if (g_n_computes == 0) REACH("exit_nothing_computed");
  else if (g_n_new == 0) REACH("exit_computed_prepared_before");
  else REACH("exit_computed_after_prepare");
}

/* ================================================================================================================
 * Evaluation (GreensFunction.h, C01 F3/F4, C11):
 *   G(z)    = sum over the parts of part(z)          (0 if Vanishing)
 *   G(n)    = G(MatsubaraSpacing * (2n+1))            fermionic frequency, "\omega_n = \pi(2n+1)/\beta"
 *   G(tau)  = sum over the parts of part.of_tau(tau)
 * The value of ONE part (GreensFunctionPart::operator()(z) / of_tau, under contract in gfterm.c) is an opaque function of
 * (position in the list, argument).  The sum is stated through a MODEL g_sum that the part-evaluation monitor advances by
 * `sum := sum + value` at every call; the loop invariant forces the function's accumulator to equal the model (bit pattern),
 * the ghost position proves that an arbitrary part is evaluated exactly once (none if Vanishing). */
double __CPROVER_uninterpreted_partval_re(long, double, double);
double __CPROVER_uninterpreted_partval_im(long, double, double);
double __CPROVER_uninterpreted_parttau_re(long, double);
double __CPROVER_uninterpreted_parttau_im(long, double);
cplx g_sum;                       /* model of the running sum */
cplx g_z; double g_tau;           /* the argument every part must be evaluated at */
long g_evals;                     /* evaluations of the part at the ghost position */
long g_last_eval;                 /* position evaluated last */
#define BITS(x) (*(unsigned long *)&(x))
#define C_SAMEL(a, b) (BITS((a).re) == BITS((b).re) && BITS((a).im) == BITS((b).im))
//@rename GreensFunctionPart_call/1 => GreensFunctionPart_call_z
cplx GreensFunctionPart_call_z(struct GreensFunctionPart *part, cplx z)
{
  PartList *l = &g_self->parts; long k = l->last_pos;
  __CPROVER_assert(0 <= k && k < (long)l->n && part == PART_AT(k), "C01: the part evaluated is the list element the iterator is on");
  __CPROVER_assert(k > g_last_eval, "C01: every part is evaluated at most once");
  __CPROVER_assert(C_SAME(z, g_z), "C01: every part is evaluated at the frequency z");
  cplx r = cplx_ctor2(__CPROVER_uninterpreted_partval_re(k, z.re, z.im), __CPROVER_uninterpreted_partval_im(k, z.re, z.im));
  g_sum = op_add_cplx_cplx(g_sum, r);
  g_last_eval = k;
  if (k == l->gidx) g_evals++;
  REACH("part_z");
  return r;
}
cplx GreensFunctionPart_of_tau(struct GreensFunctionPart *part, double tau)
{
  PartList *l = &g_self->parts; long k = l->last_pos;
  __CPROVER_assert(0 <= k && k < (long)l->n && part == PART_AT(k), "C11: the part evaluated is the list element the iterator is on");
  __CPROVER_assert(k > g_last_eval, "C11: every part is evaluated at most once");
  __CPROVER_assert(D_SAME(tau, g_tau), "C11: every part is evaluated at the time tau");
  cplx r = cplx_ctor2(__CPROVER_uninterpreted_parttau_re(k, tau), __CPROVER_uninterpreted_parttau_im(k, tau));
  g_sum = op_add_cplx_cplx(g_sum, r);
  g_last_eval = k;
  if (k == l->gidx) g_evals++;
  REACH("part_tau");
  return r;
}
#define SUM_IS_ZERO (BITS(g_sum.re) == 0 && BITS(g_sum.im) == 0)
#define EVAL_FRAME g_sum, g_evals, g_last_eval, self->parts.last_pos, self->parts.cur
#define EVAL_PRE(self) (PartList_wf(&self->parts) && g_evals == 0 && g_last_eval == -1 && SUM_IS_ZERO)
#define EXPECTED_EVALS(self) ((!(self)->Vanishing && 0 <= (self)->parts.gidx && (self)->parts.gidx < (long)(self)->parts.n) ? 1 : 0)
/* result = the model sum; the model is +0 when the function vanishes (no part evaluated at all) */
#define EVAL_POST(self) (g_evals == EXPECTED_EVALS(self) && C_SAME(__CPROVER_return_value, g_sum) && \
                         (self->Vanishing ? (SUM_IS_ZERO && g_last_eval == -1) : g_last_eval == (long)self->parts.n - 1))

//@rename GreensFunction_call(long) => GreensFunction_call_n
//@rename GreensFunction_call/1 => GreensFunction_call_z
//@function Pomerol::GreensFunction::operator()(std::complex<double>) const as GreensFunction_call_z
//@contract
__CPROVER_requires(__CPROVER_is_fresh(self, sizeof(*self)) && g_self == self)
__CPROVER_requires(EVAL_PRE(self) && C_SAME(g_z, z))
__CPROVER_assigns(EVAL_FRAME)
__CPROVER_ensures(EVAL_POST(self))
//@loop 1
__CPROVER_assigns(iter.pos, Value, EVAL_FRAME)
__CPROVER_loop_invariant(iter.l == &self->parts && 0 <= iter.pos && iter.pos <= (long)self->parts.n)
__CPROVER_loop_invariant(C_SAMEL(Value, g_sum) && g_last_eval == iter.pos - 1)
__CPROVER_loop_invariant(g_evals == ((0 <= self->parts.gidx && self->parts.gidx < iter.pos) ? 1 : 0))
__CPROVER_decreases((long)self->parts.n - iter.pos)
//@end

//@function Pomerol::GreensFunction::of_tau(double) const as GreensFunction_of_tau
//@contract
__CPROVER_requires(__CPROVER_is_fresh(self, sizeof(*self)) && g_self == self)
__CPROVER_requires(EVAL_PRE(self) && D_SAME(g_tau, tau))
__CPROVER_assigns(EVAL_FRAME)
__CPROVER_ensures(EVAL_POST(self))
//@loop 1
__CPROVER_assigns(iter.pos, Value, EVAL_FRAME)
__CPROVER_loop_invariant(iter.l == &self->parts && 0 <= iter.pos && iter.pos <= (long)self->parts.n)
__CPROVER_loop_invariant(C_SAMEL(Value, g_sum) && g_last_eval == iter.pos - 1)
__CPROVER_loop_invariant(g_evals == ((0 <= self->parts.gidx && self->parts.gidx < iter.pos) ? 1 : 0))
__CPROVER_decreases((long)self->parts.n - iter.pos)
//@end

/* G(n): z_n = MatsubaraSpacing*(2n+1); MatsubaraSpacing = i*pi/beta is the type invariant of Thermal (constructor under
 * contract in gfterm.c, h_Thermal_ctor), so z_n = i*pi*(2n+1)/beta.  LIMIT: 2n+1 must be representable (|n| < 2^61). */
#define SPEC_PI 3.14159265358979323846
static cplx spec_matsubara_point(double beta, long n)
{ return op_mul_cplx_double(op_div_cplx_double(op_mul_cplx_double(cplx_ctor2(0.0, 1.0), SPEC_PI), beta), (double)(2 * n + 1)); }
//@function Pomerol::GreensFunction::operator()(long) const as GreensFunction_call_n
//@contract
__CPROVER_requires(__CPROVER_is_fresh(self, sizeof(*self)) && g_self == self)
__CPROVER_requires(-(1L << 61) < MatsubaraNumber && MatsubaraNumber < (1L << 61))
__CPROVER_requires(C_SAME(self->MatsubaraSpacing, op_div_cplx_double(op_mul_cplx_double(cplx_ctor2(0.0, 1.0), SPEC_PI), self->beta)))
__CPROVER_requires(EVAL_PRE(self) && C_SAME(g_z, spec_matsubara_point(self->beta, MatsubaraNumber)))
__CPROVER_assigns(EVAL_FRAME)
__CPROVER_ensures(EVAL_POST(self))
//@end

//@harness h_GF_call_z enforce=GreensFunction_call_z props=C01,C11 min_obl=393 timeout=120 reach=3
void h_GF_call_z(void) { struct GreensFunction *gf; cplx z; GreensFunction_call_z(gf, z); if (g_last_eval == -1) REACH("exit_none"); else REACH("exit_some"); }

//@harness h_GF_call_n enforce=GreensFunction_call_n replace=GreensFunction_call_z props=C01,C11 min_obl=201 timeout=120 reach=1
void h_GF_call_n(void) { struct GreensFunction *gf; long n; GreensFunction_call_n(gf, n); REACH("exit"); }

//@harness h_GF_of_tau enforce=GreensFunction_of_tau props=C11 min_obl=393 timeout=120 reach=3
void h_GF_of_tau(void) { struct GreensFunction *gf; double tau; GreensFunction_of_tau(gf, tau); if (g_last_eval == -1) REACH("exit_none"); else REACH("exit_some"); }

/* ---- constructor: establishes the state prepare() starts from (Status = Constructed, Vanishing, no parts), beta /
 * MatsubaraSpacing of the density matrix, and stores each argument in the member of the same name. */
//@struct Pomerol::Thermal
//@tu src/pomerol/Thermal.cpp
//@global I
//@function Pomerol::Thermal::Thermal(double) as Thermal_ctor1x
//@end
/* the base-class initialiser `Thermal(DM.beta)` is printed as the in-place form Thermal_ctor1(base, beta) */
#define Thermal_ctor1(base_, beta_) Thermal_init1x((base_), (beta_))
//@tu src/pomerol/GreensFunction.cpp
/* TRUSTED: ComputableObject() sets Status = Constructed (ComputableObject.h); the base sub-object is flattened into the C
 * struct, so the model writes the member of the object under construction */
#define ComputableObject_ctor0(base_) ((void)(self->Status = Constructed))
static inline PartList PartList_ctor0(void) { PartList l; l.n = 0; l.cur = 0; l.gidx = -1; l.last_pos = -1; return l; }
//@function Pomerol::GreensFunction::GreensFunction(Pomerol::StatesClassification const&, Pomerol::Hamiltonian const&, Pomerol::AnnihilationOperator const&, Pomerol::CreationOperator const&, Pomerol::DensityMatrix const&) as GreensFunction_ctor5
//@contract
__CPROVER_requires(__CPROVER_is_fresh(self, sizeof(*self)) && __CPROVER_is_fresh(H, sizeof(*H)) && __CPROVER_is_fresh(C, sizeof(*C)) && __CPROVER_is_fresh(CX, sizeof(*CX)) && __CPROVER_is_fresh(DM, sizeof(*DM)))
__CPROVER_assigns(*self)
__CPROVER_ensures(self->Status == Constructed && self->Vanishing && self->parts.n == 0)
__CPROVER_ensures(D_SAME(self->beta, DM->beta) && C_SAME(self->MatsubaraSpacing, op_div_cplx_double(op_mul_cplx_double(I, SPEC_PI), DM->beta)))
__CPROVER_ensures(self->S == S && self->H.nblocks == H->nblocks && self->DM.nblocks == DM->nblocks)
__CPROVER_ensures(self->C.Status == C->Status && self->C.LeftRightBlocks.left.e == C->LeftRightBlocks.left.e && self->CX.Status == CX->Status && self->CX.LeftRightBlocks.right.e == CX->LeftRightBlocks.right.e)
//@end

//@harness h_GF_ctor enforce=GreensFunction_init5 props=C01 min_obl=257 timeout=120 reach=1
void h_GF_ctor(void)
{
  struct GreensFunction *gf; struct StatesClassification *S; struct Hamiltonian *H; struct FieldOperator *C, *CX; struct DensityMatrix *DM;
  GreensFunction_init5(gf, S, H, C, CX, DM);
  REACH("exit");
}

/* ---- copy constructor (GreensFunction.h "Copy-constructor. \param[in] GF GreensFunction object to be copied."; a copy is an
 * independent object in the same state): every scalar member equals the source's -- Status included --, the references refer to
 * the same objects, and the parts are deep-copied: one `new GreensFunctionPart(**iter)` per source part, in order, each appended
 * to the copy's own list (monitor + ghost position of the SOURCE list: copied exactly once).
 * TRUSTED: the implicit copy constructor of ComputableObject copies Status (its only member); the model asserts that the object
 * handed to it is the source. Handles of the copied parts: &g_copy_parts[0] + ordinal (distinct from every source handle). */
struct GreensFunctionPart g_copy_parts[1];
long g_copies;                    /* copies made of the source part at the ghost position */
#define ComputableObject_ctor1(base_, src_) ({ \
  __CPROVER_assert((void *)(src_) == (void *)GF, "ComputableObject(const ComputableObject&): the object copied is the source GF"); \
  (void)(self->Status = GF->Status); })
static inline struct GreensFunctionPart *GFPart_copy_monitor(PartList *src, struct GreensFunctionPart *from)
{
  long k = src->last_pos;
  __CPROVER_assert(0 <= k && k < (long)src->n && from == PART_AT(k), "C01 copy: the part copied is the source-list element the iterator is on");
  __CPROVER_assert((unsigned long)k == g_n_new, "C01 copy: one new part per source part, in order");
  if (k == src->gidx) g_copies++;
  g_last_new = &g_copy_parts[0] + g_n_new;
  g_n_new++;
  REACH("copy_part");
  return g_last_new;
}
#define GreensFunctionPart_new1(from_) GFPart_copy_monitor(&GF->parts, (from_))
//@function Pomerol::GreensFunction::GreensFunction(Pomerol::GreensFunction const&) as GreensFunction_ctor1
//@contract
__CPROVER_requires(__CPROVER_is_fresh(self, sizeof(*self)) && __CPROVER_is_fresh(GF, sizeof(*GF)))
/* type invariants of the source: list, Status, MatsubaraSpacing = I*pi/beta (Thermal, h_Thermal_ctor in gfterm.c) */
__CPROVER_requires(PartList_wf(&GF->parts) && GF->Status <= Computed)
__CPROVER_requires(C_SAME(GF->MatsubaraSpacing, op_div_cplx_double(op_mul_cplx_double(I, SPEC_PI), GF->beta)))
__CPROVER_requires(g_n_new == 0 && g_copies == 0)
__CPROVER_assigns(*self, GF->parts.cur, GF->parts.last_pos, g_n_new, g_last_new, g_copies)
/* same state: Status, Vanishing, beta, MatsubaraSpacing */
__CPROVER_ensures(self->Status == GF->Status)
__CPROVER_ensures(!self->Vanishing == !GF->Vanishing)
__CPROVER_ensures(D_SAME(self->beta, GF->beta) && C_SAME(self->MatsubaraSpacing, GF->MatsubaraSpacing))
/* same referenced objects */
__CPROVER_ensures(self->S == GF->S && self->H.nblocks == GF->H.nblocks && self->DM.nblocks == GF->DM.nblocks && D_SAME(self->DM.beta, GF->DM.beta))
__CPROVER_ensures(self->C.Status == GF->C.Status && self->C.LeftRightBlocks.left.e == GF->C.LeftRightBlocks.left.e && self->CX.Status == GF->CX.Status && self->CX.LeftRightBlocks.right.e == GF->CX.LeftRightBlocks.right.e)
/* deep copy of the parts: as many as the source has, all new, the source part at the ghost position copied exactly once; source list unchanged */
__CPROVER_ensures(self->parts.n == GF->parts.n && g_n_new == GF->parts.n && GF->parts.n == __CPROVER_old(GF->parts.n))
__CPROVER_ensures(g_copies == ((0 <= GF->parts.gidx && GF->parts.gidx < (long)GF->parts.n) ? 1 : 0))
//@loop 1
__CPROVER_assigns(iter.pos, self->parts.n, GF->parts.cur, GF->parts.last_pos, g_n_new, g_last_new, g_copies)
__CPROVER_loop_invariant(iter.l == &GF->parts && 0 <= iter.pos && iter.pos <= (long)GF->parts.n)
__CPROVER_loop_invariant(self->parts.n == (unsigned long)iter.pos && g_n_new == (unsigned long)iter.pos)
__CPROVER_loop_invariant(g_copies == ((0 <= GF->parts.gidx && GF->parts.gidx < iter.pos) ? 1 : 0))
__CPROVER_decreases((long)GF->parts.n - iter.pos)
//@end

//@harness h_GF_copy enforce=GreensFunction_init1 props=C01,C17 min_obl=662 timeout=120 reach=2
void h_GF_copy(void)
{
  struct GreensFunction *gf, *src;
  GreensFunction_init1(gf, src);
  REACH("exit");
}

/* ---- read accessors: isVanishing() is the Vanishing flag that prepare() establishes (Vanishing <=> no part); getIndex(0) is the index of
 * the annihilation operator C, getIndex(1) the index of the creation operator CX (not the other way round); nothing is written. */
//@function Pomerol::GreensFunction::isVanishing() const as GreensFunction_isVanishing
//@contract
__CPROVER_requires(__CPROVER_is_fresh(self, sizeof(*self)))
__CPROVER_assigns()
__CPROVER_ensures(__CPROVER_return_value == self->Vanishing)
//@end
//@harness h_GF_isVanishing enforce=GreensFunction_isVanishing props=C01 min_obl=15 timeout=120 reach=1
void h_GF_isVanishing(void)
{
  struct GreensFunction *gf;
  _Bool v = GreensFunction_isVanishing(gf);
  REACH("exit");
}

/* =====================================================================================================================
 * WHAT IS PROVED (for all inputs satisfying the stated type invariants), WHAT IS NOT
 *
 * h_GF_prepare (GreensFunction::prepare, C01 F2 + C19), bimap model stubs/bimap.h (assumptions B1-B3 there):
 *   safety (iterators dereferenced / incremented only before end(); block numbers handed to H.getPart / DM.getPart / DM.isRetained
 *     inside parts[]; getPartFromLeftIndex / getPartFromRightIndex called with an existing left / right block), termination;
 *   Status >= Prepared on entry: nothing changes;  an operator that is not prepared: exStatusMismatch, nothing created;
 *   soundness (monitor of `new GreensFunctionPart(...)`, every call): the iterators are on relations <l|c|r> of C.left and <r|c^+|l> of
 *     CX.right; l or r is retained; arguments = (part of C with left block l, part of CX with right block l, H(r), H(l), DM(r), DM(l)),
 *     i.e. inner = r, outer = l; the created part is what is appended to the list;
 *   completeness + uniqueness + C19 (ghost pair = ONE arbitrary relation of C.left and ONE of CX.right): exactly one part iff the pair
 *     matches and (retained(l) || retained(r)) -- a part is skipped only when both blocks of its stripe are discarded; no part for a
 *     non-matching pair;  #list elements = #parts created <= #relations of C, of CX;  Vanishing <=> no part;  Status = Prepared.
 *   retained() is an opaque oracle of the block number (DensityMatrix::isRetained, densmat.c).  Part handles are opaque.
 * h_GF_compute (GreensFunction::compute; prepare() replaced by its contract): already computed -> nothing; not prepared -> prepare() runs
 *   (its post-conditions hold) or throws (then nothing is computed, status unchanged); GreensFunctionPart::compute() on every list element
 *   exactly once, in order (ghost position); Status = Computed.
 * h_GF_call_z / h_GF_of_tau: result = MODEL sum (0, then sum := sum + part_k(arg) at every evaluation: monitor; accumulator bit-equal to the
 *   model at every loop head); every part evaluated at the function's own argument, exactly once, in order; Vanishing -> +0 and no evaluation.
 * h_GF_call_n (operator()(long), GreensFunction_call_z replaced by its contract): the frequency handed on is MatsubaraSpacing*(2n+1) =
 *   (i*pi/beta)*(2n+1), |n| < 2^61 LIMIT (2n+1 in long).
 * h_GF_ctor: Status = Constructed, Vanishing, no parts, beta / MatsubaraSpacing = I*pi/beta of DM, arguments stored in the members of the same name.
 * h_GF_copy (copy constructor): Status / Vanishing / beta / MatsubaraSpacing of the copy = the source's (MatsubaraSpacing given the Thermal
 *   invariant of the source); same S, H, C, CX, DM; one `new GreensFunctionPart(*source part)` per source part, in order, appended to the copy's
 *   list (monitor), ghost position of the source list copied exactly once; sizes equal; source list not modified.
 *   TRUSTED: implicit ComputableObject copy constructor copies Status; the copy of ONE part (GreensFunctionPart's implicit copy) is opaque.
 * h_GF_isVanishing: the accessor returns the Vanishing flag, writes nothing.
 * getIndex: specs/tpgfmisc.c (h_GF_getIndex).  NOT covered: destructor; the value of one part is opaque here (gfterm.c / gfpart.c).
 *
 * ASSUMPTIONS introduced here: std::list model (push_back appends, size counts, iteration in order; handles canonical); callee stubs
 *   DensityMatrix::isRetained/getPart, Hamiltonian::getPart, FieldOperator::getPartFromLeft/RightIndex (their pre-conditions are asserted);
 *   ComputableObject() sets Status = Constructed; the bimap assumptions B1-B3 of stubs/bimap.h.
 *
 * MUTANTS (scratch copy of /repo, re-extracted; obligation that failed)
 *   prepare: drop `|| isRetained(Cright)` / `||` -> `&&`  -> GreensFunction_prepare.loop_invariant_step.5 (ghost pair not created)
 *            H.getPart(Cleft),H.getPart(Cright) swapped     -> GreensFunctionPart_new6.assertion.6;  DM parts swapped -> assertion.7
 *            match test without Cright == CXleft            -> GreensFunctionPart_new6.assertion.2, loop_invariant_step.5
 *            `<=` -> `<` in the C advance                    -> loop_invariant_step.4/.5
 *            parts.size() > 1                                -> postcondition.6 (Vanishing <=> no part)
 *            CX.getPartFromLeftIndex(CXleft)                 -> FieldOperator_getPartFromLeftIndex.assertion.1, GreensFunctionPart_new6.assertion.5
 *            no early return                                 -> postcondition.1/.3/.5, PartList_push_back.assertion.1
 *   compute: skip prepare() -> postcondition.3/.4;  Status = Prepared at the end -> postcondition.6;  no early return -> postcondition.1
 *   call_z:  !Vanishing -> postcondition.1;  Value -= part -> loop invariant (accumulator != model)
 *   call_n:  2n -> GreensFunction_call_z.precondition.2;   of_tau: of_tau(-tau) -> GreensFunctionPart_of_tau.assertion.3
 *   ctor:    Vanishing(false) -> postcondition.1   (C(CX),CX(C) does not compile)
 *   copy:    ComputableObject(GF) -> ComputableObject() -> GreensFunction_init1.postcondition.1;  Vanishing(true) -> postcondition.2
 *            parts.push_back(*iter) (shallow) -> PartList_push_back.assertion.1;  loop stops after 2 parts -> postcondition.6/.7
 */
