/* GreensFunctionPart::compute -- the Lehmann sum over coincident non-zeros of a row of c and a
 * column of c^+ (C01, C17).  Also: Term evaluation in frequency and imaginary time (C01, C11). */
#include "../stubs/common.h"
#include "../stubs/cplx.h"
#include "../stubs/sparse.h"
#include "../stubs/dense.h"
//@include types_common.inc
//@type (Pomerol::)?RealVectorType|Eigen::Matrix<double, -1, 1(, 0)?(, -1, 1)?> => RealVector ptr
//@type (Pomerol::)?TermList<(Pomerol::)?GreensFunctionPart::Term> => TermListGF ptr
//@record Pomerol::GreensFunctionPart::Term => GFTerm val
//@record Pomerol::AnnihilationOperatorPart => struct FieldOperatorPart ptr
//@record Pomerol::CreationOperatorPart => struct FieldOperatorPart ptr
//@tu src/pomerol/GreensFunctionPart.cpp
//@enum ComputableObject::
typedef struct GFTerm GFTerm;
//@struct Pomerol::GreensFunctionPart::Term
//@struct Pomerol::FieldOperatorPart only=elementsColMajor,elementsRowMajor,Status
//@struct Pomerol::HamiltonianPart only=Eigenvalues,Status
//@struct Pomerol::DensityMatrixPart only=weights,beta

/* ---- TermList<Term> : monitor (the container itself -- merging of like poles within 1e-8 and
 * dropping of negligible sums -- is verified separately in termlist.c) */
typedef struct TermListGF { unsigned long n_calls; } TermListGF;
struct GreensFunctionPart;
struct GreensFunctionPart *g_self;   /* the object under verification (for the monitor) */
long g_hits;                          /* number of add_term calls at the ghost pair (p,q) */
long g_expected;                      /* = EXPECTED_HITS of the pre-state (calls are not allowed in loop invariants) */
void TermListGF_add_term(TermListGF *tl, GFTerm t);
static inline void TermListGF_clear(TermListGF *tl) { tl->n_calls = 0; }

//@struct Pomerol::GreensFunctionPart embed=HpartInner,HpartOuter,DMpartInner,DMpartOuter,C,CX

/* SPEC (from the property statement / Lehmann representation):
 *   for every stored C[n,m] and CX[m,n]:  residue = C[n,m]*CX[m,n]*(w_n + w_m),  pole = E_m - E_n,
 *   kept iff |residue| > 1e-8.   n = row of C (outer block), m = column of C (inner block). */
static cplx spec_residue_at(long n, long cp, long xp)
{
  SparseM *Cm = &g_self->C.elementsRowMajor, *Xm = &g_self->CX.elementsColMajor;
  long m = Cm->inner[cp];
  return cplx_ctor1(D_MUL(D_MUL(Cm->values[cp], Xm->values[xp]), D_ADD(g_self->DMpartOuter.weights.data[n], g_self->DMpartInner.weights.data[m])));
}
void TermListGF_add_term(TermListGF *tl, GFTerm t)
{
  SparseM *Cm = &g_self->C.elementsRowMajor, *Xm = &g_self->CX.elementsColMajor;
  long cp = Cm->last_value_pos, xp = Xm->last_value_pos;
  /* soundness: every term comes from a coincident pair of stored elements ... */
  __CPROVER_assert(0 <= cp && cp < Cm->nnz && 0 <= xp && xp < Xm->nnz, "C01: a term is added only while both iterators are on stored elements");
  __CPROVER_assert(Cm->last_value_outer == Xm->last_value_outer, "C01: term pairs row n of c with column n of c^+");
  __CPROVER_assert(Cm->inner[cp] == Xm->inner[xp], "C01: term pairs C[n,m] with CX[m,n] (coincident inner index)");
  long n = Cm->last_value_outer, m = Cm->inner[cp];
  /* ... with the documented residue and pole */
  cplx r = spec_residue_at(n, cp, xp);
  __CPROVER_assert(C_SAME(t.Residue, r), "C01: residue = C[n,m]*CX[m,n]*(w_n+w_m)");
  __CPROVER_assert(D_SAME(t.Pole, D_SUB(g_self->HpartInner.Eigenvalues.data[m], g_self->HpartOuter.Eigenvalues.data[n])), "C01: pole = E_m - E_n");
  __CPROVER_assert(D_GT(c_abs(r), 1e-8), "C01: only residues above 1e-8 are kept");
  if (cp == Cm->gpos && xp == Xm->gpos) g_hits++;
  tl->n_calls++;
  REACH("add_term");
}

//@tu src/pomerol/FieldOperatorPart.cpp
//@function Pomerol::FieldOperatorPart::getRowMajorValue() const as FieldOperatorPart_getRowMajorValue
//@end
//@function Pomerol::FieldOperatorPart::getColMajorValue() const as FieldOperatorPart_getColMajorValue
//@end
//@tu src/pomerol/DensityMatrixPart.cpp
//@function Pomerol::DensityMatrixPart::getWeight(unsigned long) const as DensityMatrixPart_getWeight
//@end
//@tu src/pomerol/HamiltonianPart.cpp
//@maythrow HamiltonianPart_getEigenValue
//@function Pomerol::HamiltonianPart::getEigenValue(unsigned long) const as HamiltonianPart_getEigenValue
//@end
//@free abs(cplx) => c_abs
//@tu src/pomerol/GreensFunctionPart.cpp
//@function Pomerol::GreensFunctionPart::Term::Term(std::complex<double>, double) as GFTerm_ctor2
//@end

#define CM (&self->C.elementsRowMajor)
#define XM (&self->CX.elementsColMajor)
#define EXPECTED_HITS ((CM->gpos >= 0 && XM->gpos >= 0 && D_GT(c_abs(spec_residue_at(CM->gouter, CM->gpos, XM->gpos)), 1e-8)) ? 1 : 0)
//@function Pomerol::GreensFunctionPart::compute() as GreensFunctionPart_compute
//@contract
__CPROVER_requires(__CPROVER_is_fresh(self, sizeof(*self)) && g_self == self)
/* type invariants: compressed sorted sparse matrices, dimensions = block sizes */
__CPROVER_requires(SparseM_wf(CM) && SparseM_wf(XM))
__CPROVER_requires(CM->outerSize == XM->outerSize && CM->innerSize == XM->innerSize)
__CPROVER_requires(RealVector_wf(&self->HpartOuter.Eigenvalues, SP_MAX) && RealVector_wf(&self->HpartInner.Eigenvalues, SP_MAX))
__CPROVER_requires(RealVector_wf(&self->DMpartOuter.weights, SP_MAX) && RealVector_wf(&self->DMpartInner.weights, SP_MAX))
__CPROVER_requires(self->HpartOuter.Eigenvalues.size == CM->outerSize && self->DMpartOuter.weights.size == CM->outerSize)
__CPROVER_requires(self->HpartInner.Eigenvalues.size == CM->innerSize && self->DMpartInner.weights.size == CM->innerSize)
__CPROVER_requires(self->HpartInner.Status >= Computed && self->HpartOuter.Status >= Computed)
__CPROVER_requires(D_SAME(self->MatrixElementTolerance, 1e-8))
/* ghost pair (p,q): an arbitrary coincident pair C[n,m] (position p), CX[m,n] (position q), or none */
__CPROVER_requires((CM->gpos >= 0) == (XM->gpos >= 0))
__CPROVER_requires(CM->gpos >= 0 ==> (CM->gouter == XM->gouter && CM->inner[CM->gpos] == XM->inner[XM->gpos]))
__CPROVER_requires(g_hits == 0 && !VERIF_thrown && g_expected == EXPECTED_HITS)
__CPROVER_assigns(self->Terms.n_calls, g_hits, VERIF_thrown,
                  self->C.elementsRowMajor.last_value_pos, self->C.elementsRowMajor.last_value_outer,
                  self->CX.elementsColMajor.last_value_pos, self->CX.elementsColMajor.last_value_outer)
__CPROVER_ensures(!VERIF_thrown)
/* completeness + uniqueness: the ghost pair contributes exactly once iff its residue is above 1e-8 */
__CPROVER_ensures(g_hits == EXPECTED_HITS)
//@loop 1
__CPROVER_assigns(index1, g_hits, self->Terms.n_calls,
                  self->C.elementsRowMajor.last_value_pos, self->C.elementsRowMajor.last_value_outer,
                  self->CX.elementsColMajor.last_value_pos, self->CX.elementsColMajor.last_value_outer)
__CPROVER_loop_invariant(0 <= index1 && index1 <= outerSize && outerSize == CM->outerSize && Cmatrix == CM && CXmatrix == XM)
__CPROVER_loop_invariant(!VERIF_thrown)
__CPROVER_loop_invariant((CM->gpos < 0 || index1 <= (unsigned long)CM->gouter) ? g_hits == 0 : g_hits == g_expected)
__CPROVER_decreases(outerSize - index1)
//@loop 2
__CPROVER_assigns(Cinner.m_id, CXinner.m_id, g_hits, self->Terms.n_calls,
                  self->C.elementsRowMajor.last_value_pos, self->C.elementsRowMajor.last_value_outer,
                  self->CX.elementsColMajor.last_value_pos, self->CX.elementsColMajor.last_value_outer)
__CPROVER_loop_invariant(Cinner.m == CM && CXinner.m == XM && Cinner.m_outer == (long)index1 && CXinner.m_outer == (long)index1)
__CPROVER_loop_invariant(0 <= Cinner.m_id && __CPROVER_loop_entry(Cinner.m_id) <= Cinner.m_id && Cinner.m_id <= Cinner.m_end && Cinner.m_end <= CM->nnz)
__CPROVER_loop_invariant(0 <= CXinner.m_id && __CPROVER_loop_entry(CXinner.m_id) <= CXinner.m_id && CXinner.m_id <= CXinner.m_end && CXinner.m_end <= XM->nnz)
__CPROVER_loop_invariant(!VERIF_thrown)
__CPROVER_loop_invariant((CM->gpos >= 0 && index1 == (unsigned long)CM->gouter)
     ? ((g_hits == 0 && Cinner.m_id <= CM->gpos && CXinner.m_id <= XM->gpos) ||
        (g_hits == g_expected && Cinner.m_id > CM->gpos && CXinner.m_id > XM->gpos))
     : g_hits == __CPROVER_loop_entry(g_hits))
__CPROVER_decreases((Cinner.m_end - Cinner.m_id) + (CXinner.m_end - CXinner.m_id))
//@loop 3
__CPROVER_assigns(CXinner.m_id)
__CPROVER_loop_invariant(__CPROVER_loop_entry(CXinner.m_id) <= CXinner.m_id && CXinner.m_id <= CXinner.m_end)
__CPROVER_loop_invariant((CM->gpos >= 0 && index1 == (unsigned long)CM->gouter && __CPROVER_loop_entry(CXinner.m_id) <= XM->gpos && Cinner.m_id <= CM->gpos) ==> CXinner.m_id <= XM->gpos)
__CPROVER_decreases(CXinner.m_end - CXinner.m_id)
//@loop 4
__CPROVER_assigns(Cinner.m_id)
__CPROVER_loop_invariant(__CPROVER_loop_entry(Cinner.m_id) <= Cinner.m_id && Cinner.m_id <= Cinner.m_end)
__CPROVER_loop_invariant((CM->gpos >= 0 && index1 == (unsigned long)CM->gouter && __CPROVER_loop_entry(Cinner.m_id) <= CM->gpos && CXinner.m_id <= XM->gpos) ==> Cinner.m_id <= CM->gpos)
__CPROVER_decreases(Cinner.m_end - Cinner.m_id)
//@end

//@harness h_GFP_compute enforce=GreensFunctionPart_compute replay=sparsewalk:gfp props=C01,C11,C17 min_obl=4584 timeout=900 reach=2
void h_GFP_compute(void)
{
  struct GreensFunctionPart *p;
  GreensFunctionPart_compute(p);
  REACH("exit");
}

