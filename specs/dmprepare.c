/* DensityMatrix::prepare()  (src/pomerol/DensityMatrix.cpp; DensityMatrix.h: "Allocates resources for the parts"; "every part corresponds to
 * a part of the Hamiltonian") -- C09 mechanism "weights exp(-beta(E-E_ground))": the shift that keeps the weights finite (h_DMP_computeUnnormalized,
 * densmat.c) is the GroundEnergy member of each part; here it is pinned that the value handed to EVERY part is H.getGroundEnergy(), together with
 * the part's own Hamiltonian block, the classification and the inverse temperature of the density matrix; one part per block, in block order.
 */
#include "../stubs/common.h"
//@include types_common.inc
//@type std::vector<(Pomerol::)?DensityMatrixPart \*(, std::allocator<.*>)?> => DMPartVec ptr
//@record Pomerol::BlockNumber => BlockNumber val
//@tu src/pomerol/DensityMatrix.cpp
//@enum ComputableObject::
typedef struct BlockNumber BlockNumber;
//@struct Pomerol::BlockNumber
//@function Pomerol::BlockNumber::BlockNumber(int) as BlockNumber_ctor1
//@end
//@function Pomerol::BlockNumber::operator int() const as BlockNumber_conv_int
//@end
//@function Pomerol::BlockNumber::operator++(int) as BlockNumber_postinc2
//@end
#define BlockNumber_postinc(p) BlockNumber_postinc2((p), 0)    /* the call site `n++` is printed without the dummy int argument */
//@tu src/pomerol/StatesClassification.cpp
//@function Pomerol::BlockNumber::operator<(Pomerol::BlockNumber const&) const as BlockNumber_lt
//@end
//@tu src/pomerol/DensityMatrix.cpp
#define DM_MAXBLOCKS (1L << 30)
struct StatesClassification { long nblocks; };
static inline BlockNumber SC_NumberOfBlocks_v(struct StatesClassification *S) { BlockNumber b; b.number = (int)S->nblocks; return b; }
#define StatesClassification_NumberOfBlocks(S) (*(BlockNumber[1]){ SC_NumberOfBlocks_v(S) })
/* Hamiltonian: opaque part handles (injective in the block number, never dereferenced) and the ground energy (C03: ham.c) */
struct HamiltonianPart { char opaque; };
struct Hamiltonian { long nblocks; double GroundEnergy; struct HamiltonianPart ghost_parts[1]; };
#define H_PART(h, b) (&(h)->ghost_parts[0] + (b))
static inline struct HamiltonianPart *Hamiltonian_getPart(struct Hamiltonian *h, BlockNumber in)
{ __CPROVER_assert(0 <= in.number && in.number < h->nblocks, "Hamiltonian::getPart: block number inside parts[] (unchecked operator[])"); return H_PART(h, in.number); }
static inline double Hamiltonian_getGroundEnergy(struct Hamiltonian *h) { return h->GroundEnergy; }    /* Hamiltonian::getGroundEnergy() = the member (extracted in ham.c's TU: `return GroundEnergy;`) */

/* std::vector<DensityMatrixPart*>: ghost-element model (the element at ONE arbitrary index gidx is kept, stores to other indices are forgotten) */
struct DensityMatrixPart { char opaque; };
typedef struct DMPartVec { unsigned long n; long gidx; struct DensityMatrixPart *gitem, *scratch; unsigned long g_stores; } DMPartVec;
long g_gidx;
static inline DMPartVec DMPartVec_ctor1_(unsigned long n) { DMPartVec v; v.n = n; v.gidx = g_gidx; v.gitem = (struct DensityMatrixPart *)0; v.scratch = v.gitem; v.g_stores = 0; return v; }   /* n null pointers */
/* printed `&DMPartVec_ctor1(n)`: the temporary must be addressable */
#define DMPartVec_ctor1(n_) (*(DMPartVec[1]){ DMPartVec_ctor1_(n_) })
#define DMPartVec_assign(dst_, src_) (*(dst_) = *(src_))
static inline unsigned long DMPartVec_size(DMPartVec *v) { return v->n; }
static inline struct DensityMatrixPart **DMPartVec_at(DMPartVec *v, unsigned long i)
{
  __CPROVER_assert(i < v->n, "std::vector<DensityMatrixPart*>::operator[]: index inside the vector");
  if ((long)i == v->gidx) { v->g_stores++; return &v->gitem; }
  return &v->scratch;
}
//@struct Pomerol::DensityMatrix only=beta,Status,S,H,parts embed=S,H

/* MONITOR of `new DensityMatrixPart(S, hpart, beta, GroundEnergy)` (DensityMatrixPart.h: "S ...; hpart A reference to a part of the Hamiltonian;
 * beta The inverse temperature; GroundEnergy The ground state energy of the Hamiltonian"). */
struct DensityMatrix *g_self;
struct DensityMatrixPart g_new_ghost, g_new_other;
unsigned long g_n_new, g_new_hits;
static inline struct DensityMatrixPart *DensityMatrixPart_new4(struct StatesClassification *S, struct HamiltonianPart *hpart, double beta, double GroundEnergy)
{
  __CPROVER_assert(S == &g_self->S, "C09: a part is built on the density matrix's own classification");
  __CPROVER_assert(hpart == H_PART(&g_self->H, (long)g_n_new), "C09: the k-th part is built on the k-th part of the Hamiltonian");
  __CPROVER_assert(D_SAME(beta, g_self->beta), "C09: every part gets the inverse temperature of the density matrix");
  __CPROVER_assert(D_SAME(GroundEnergy, g_self->H.GroundEnergy), "C09: the energy shift handed to every part is H.getGroundEnergy()");
  _Bool ghost = (long)g_n_new == g_gidx;
  g_n_new++;
  if (ghost) { g_new_hits++; REACH("new part@ghost"); return &g_new_ghost; }
  REACH("new part");
  return &g_new_other;
}

#define HAS_G (g_gidx >= 0)
//@function Pomerol::DensityMatrix::prepare() as DensityMatrix_prepare
//@contract
__CPROVER_requires(__CPROVER_is_fresh(self, sizeof(*self)) && g_self == self)
/* one Hamiltonian part per block (C03: hammpi.c, parts.size() == NumberOfBlocks); block numbers are `int` */
__CPROVER_requires(self->S.nblocks >= 1 && self->S.nblocks <= DM_MAXBLOCKS && self->H.nblocks == self->S.nblocks && self->Status <= Computed)
__CPROVER_requires((g_gidx == -1 || (0 <= g_gidx && g_gidx < self->S.nblocks)) && g_n_new == 0 && g_new_hits == 0)
__CPROVER_assigns(self->Status, self->parts, g_n_new, g_new_hits)
/* already prepared: nothing happens */
__CPROVER_ensures(__CPROVER_old(self->Status) >= Prepared ==> (self->Status == __CPROVER_old(self->Status) && g_n_new == 0 && self->parts.n == __CPROVER_old(self->parts.n)))
/* otherwise one part per block, created in block order (monitor: built from S, H.getPart(k), beta, H.getGroundEnergy()); parts[g] is the part created for block g */
__CPROVER_ensures(__CPROVER_old(self->Status) < Prepared ==> (self->Status == Prepared && self->parts.n == (unsigned long)self->S.nblocks && g_n_new == (unsigned long)self->S.nblocks &&
                  g_new_hits == (HAS_G ? 1UL : 0UL)))
__CPROVER_ensures((__CPROVER_old(self->Status) < Prepared && HAS_G) ==> (self->parts.gitem == &g_new_ghost && self->parts.g_stores == 1))
//@loop 1
__CPROVER_assigns(n, self->parts.gitem, self->parts.scratch, self->parts.g_stores, g_n_new, g_new_hits)
__CPROVER_loop_invariant(0 <= n.number && n.number <= NumOfBlocks.number && NumOfBlocks.number == (int)self->S.nblocks && self->parts.n == (unsigned long)self->S.nblocks && self->parts.gidx == g_gidx)
__CPROVER_loop_invariant(g_n_new == (unsigned long)n.number && *(unsigned long *)&GroundEnergy == *(unsigned long *)&self->H.GroundEnergy)
__CPROVER_loop_invariant(g_new_hits == ((HAS_G && (long)n.number > g_gidx) ? 1UL : 0UL) && self->parts.g_stores == g_new_hits)
__CPROVER_loop_invariant(!(HAS_G && (long)n.number > g_gidx) || self->parts.gitem == &g_new_ghost)
__CPROVER_decreases(NumOfBlocks.number - n.number)
//@end
//@harness h_DM_prepare enforce=DensityMatrix_prepare props=C09 min_obl=438 reach=4 timeout=120
void h_DM_prepare(void)
{
  struct DensityMatrix *d;
  DensityMatrix_prepare(d);
  if (g_n_new) REACH("exit-prepared"); else REACH("exit-noop");
}

/* ---- notes ---------------------------------------------------------------------------------------------------------------------------------
 * Hamiltonian parts / density-matrix parts are opaque handles (as in ensavg.c); Hamiltonian::getGroundEnergy() returns the member GroundEnergy
 * whose meaning (minimum over the blocks) is h_Ham_computeGroundEnergy (ham.c).  `new` is assumed to succeed.  NOT proved here: that H has been
 * computed when prepare() is called (no Status test in the code: GroundEnergy of an uncomputed Hamiltonian is an uninitialised double -- the
 * caller's obligation); DensityMatrixPart's constructor (weights(hpart.getSize()), retained(true)).
 * MUTANTS (tools/try_mutant.py, src/pomerol/DensityMatrix.cpp; all killed)
 *   GroundEnergy -> 0 (shift dropped)                 DensityMatrixPart_new4.assertion.4
 *   beta and GroundEnergy swapped                     DensityMatrixPart_new4.assertion.3/.4
 *   H.getPart(BlockNumber(0)) for every part          DensityMatrixPart_new4.assertion.2
 *   loop from block 1                                 postcondition.2/.3, new4.assertion.2, loop_invariant_base
 *   parts[0] = new ...                                loop_invariant_step.3/.4
 *   `if (Status >= Prepared) return` dropped          postcondition.1
 */
