/* Hamiltonian -- the container of the blocks: ground energy, concatenated spectrum, look-up by state label.  Property C03:
 * "The reported ground-state energy is the minimum over all blocks and the eigenvalue looked up for any state label is
 *  the one stored for its block and position."
 *
 *   computeGroundEnergy : GroundEnergy <= getMinimumEigenvalue() of an arbitrary block and equal to that of one block.
 *   getEigenValues      : out[offset(b)+k] == eigenvalue k of block b (arbitrary b,k), offset(b) = sum of the sizes of the
 *                         blocks before b; length = number of states; every copy stays inside `out`.
 *   getEigenValue(state): the value stored at (block(state), position(state)); exceptional exits.
 *   getPart(BlockNumber): the part stored at that index (index safety is the caller's obligation: unchecked operator[]).
 * The MPI parts of Hamiltonian::prepare/compute are not covered here.
 *
 * Model of `std::vector<boost::shared_ptr<HamiltonianPart>> parts` (ghost-element idiom, as stubs/gvec.h): the element at
 * ONE arbitrary index gidx is a real object (fixed by the requires clause); an access to any other index yields a part
 * about which only the container's invariant is known (PART INVARIANT below, the quantified pre-condition "every part is
 * computed / has the size of its block" instantiated at the accessed index) and whose contents are fresh on every switch.
 */
#include "../stubs/common.h"
#include "../stubs/dense.h"
#include "../stubs/bitset.h"
//@include types_common.inc
//@type (Pomerol::)?RealVectorType|Eigen::Matrix<double, -1, 1(, 0)?(, -1, 1)?> => RealVector ptr
//@type (Pomerol::)?(Real)?MatrixType|Eigen::Matrix<double, -1, -1(, 1)?(, -1, -1)?> => RealMatrix ptr
//@type (Pomerol::)?FockState|boost::dynamic_bitset<.*> => Bitset val
//@type std::vector<boost::shared_ptr<(Pomerol::)?HamiltonianPart> ?.*> => PartVec ptr
//@type boost::shared_ptr<(Pomerol::)?HamiltonianPart> => PartPtr ptr
//@record Pomerol::BlockNumber => BlockNumber val
//@rename RealVector_call/2 => RealVector_call2
//@free copy => dense_copy
//@tu src/pomerol/Hamiltonian.cpp
//@enum ComputableObject::
typedef struct BlockNumber BlockNumber;
//@struct Pomerol::BlockNumber
//@struct Pomerol::StatesClassification only=StateSize,IndexSize,Status
//@extra
long nblocks;                        /* ghost: StatesContainer.size() */
//@end
//@struct Pomerol::HamiltonianPart only=Status,Eigenvalues
//@extra
double gmin;                         /* ghost: the value getMinimumEigenvalue() returns for this part (contract proved in hampart.c) */
//@end

/* ---- BlockNumber: the real inline members */
//@function Pomerol::BlockNumber::BlockNumber(int) as BlockNumber_ctor1
//@end
//@function Pomerol::BlockNumber::operator int() const as BlockNumber_conv_int
//@end
//@function Pomerol::BlockNumber::operator++(int) as BlockNumber_postinc_impl
//@end
#define BlockNumber_postinc(p) BlockNumber_postinc_impl((p), 0)   /* call sites are printed without the dummy int */
//@tu src/pomerol/StatesClassification.cpp
//@function Pomerol::BlockNumber::operator<(Pomerol::BlockNumber const&) const as BlockNumber_lt
//@end

/* ---- StatesClassification: callee contracts (C07 / pkgE), same abstract partition as in hampart.c */
long          __CPROVER_uninterpreted_sc_block(unsigned long w);
unsigned long __CPROVER_uninterpreted_sc_pos(unsigned long w);
#define sc_block __CPROVER_uninterpreted_sc_block
#define sc_pos   __CPROVER_uninterpreted_sc_pos
#define SC_MAXSTATES (1UL << 30)
long *ham_offs;    /* ghost array [0..nblocks]: ham_offs[b] = number of states in the blocks before b; size(b) = ham_offs[b+1]-ham_offs[b] */
#define HAM_SIZE(b) (ham_offs[(b) + 1] - ham_offs[(b)])
long ham_nblocks, ham_g;  /* ghost copies of S.nblocks and of the ghost block index for the helper below */
/* size of block b, 0 <= b < nblocks.  ASSUMED (C07): every block has at least one state, i.e. the offsets increase, and
 * (transitive form) stay within [0, ham_offs[nblocks]] = [0, StateSize]; monotone also against the ghost block */
static inline long ham_size(long b)
{
  __CPROVER_assume(0 <= ham_offs[b] && ham_offs[b] < ham_offs[b + 1] && ham_offs[b + 1] <= ham_offs[ham_nblocks]);
  if (0 <= ham_g && ham_g < ham_nblocks) {
    if (b < ham_g) __CPROVER_assume(ham_offs[b + 1] <= ham_offs[ham_g]);
    if (b > ham_g) __CPROVER_assume(ham_offs[ham_g + 1] <= ham_offs[b]);
  }
  return ham_offs[b + 1] - ham_offs[b];
}
static inline _Bool StatesClassification_wf(struct StatesClassification *S)
{ return S->nblocks >= 1 && S->nblocks <= (long)SC_MAXSTATES && S->StateSize >= 1 && S->StateSize <= SC_MAXSTATES && S->IndexSize <= 30 &&
         S->Status <= Computed && ham_nblocks == S->nblocks &&
         __CPROVER_is_fresh(ham_offs, (size_t)(S->nblocks + 1) * sizeof(long)) && ham_offs[0] == 0 &&
         /* ASSUMED (C07): the blocks partition the StateSize Fock states */
         ham_offs[S->nblocks] == (long)S->StateSize; }
static inline unsigned long StatesClassification_getNumberOfStates(struct StatesClassification *S) { return S->StateSize; }
static inline BlockNumber SC_NumberOfBlocks_v(struct StatesClassification *S) { BlockNumber b; b.number = (int)S->nblocks; return b; }
#define StatesClassification_NumberOfBlocks(S) (*(BlockNumber[1]){ SC_NumberOfBlocks_v(S) })
static inline unsigned long StatesClassification_getInnerState(struct StatesClassification *S, unsigned long state)
{
  if (S->Status < Computed) { VERIF_THROW("exStatusMismatch"); return nondet_ulong(); }
  if (state >= S->StateSize) { VERIF_THROW("exWrongState"); return S->StateSize; }
  long b = sc_block(state);
  unsigned long n = sc_pos(state);
  /* ASSUMED (C07): every state < StateSize has a block and a position inside that block */
  __CPROVER_assume(0 <= b && b < S->nblocks);
  __CPROVER_assume(n < (unsigned long)ham_size(b));
  return n;
}
static inline BlockNumber StatesClassification_getBlockNumber(struct StatesClassification *S, unsigned long state)
{
  BlockNumber r; r.number = nondet_int();
  if (S->Status < Computed) { VERIF_THROW("exStatusMismatch"); return r; }
  if (state >= S->StateSize) { VERIF_THROW("exWrongState"); return r; }
  long b = sc_block(state);
  __CPROVER_assume(0 <= b && b < S->nblocks);        /* ASSUMED (C07) */
  r.number = (int)b;
  return r;
}

/* ---- parts */
typedef struct PartPtr { struct HamiltonianPart *px; } PartPtr;      /* boost::shared_ptr<HamiltonianPart> */
typedef struct PartVec {
  long size;
  long gidx; PartPtr g;                 /* ghost index and the element stored there */
  PartPtr otherp; struct HamiltonianPart other;   /* landing place for every other element: re-havocked at each access */
  double *other_ev;                     /* ghost buffer for the eigenvalues of `other` (allocation inside loops is not available) */
} PartVec;
/* ghost lower bound: when ham_lb_on is set, ham_lb is a number that is <= the lowest eigenvalue of EVERY block (hypothesis: required of
 * the ghost block, ASSUMED of every other block where it is looked at) -- "for every L: all block minima >= L  ==>  ground energy >= L",
 * the witness-free half of "the ground energy IS the minimum over the blocks" */
double ham_lb; _Bool ham_lb_on;
static inline unsigned long PartVec_size(PartVec *v) { return (unsigned long)v->size; }
static inline PartPtr *PartVec_at(PartVec *v, unsigned long i)
{
  __CPROVER_assert(i < (unsigned long)v->size, "std::vector<shared_ptr<HamiltonianPart>>::operator[]: index inside the vector");
  if ((long)i == v->gidx) return &v->g;
  /* PART INVARIANT instantiated at index i (ASSUMED = the quantified pre-condition of the caller):
   * computed, as many eigenvalues as the block has states, lowest eigenvalue not NaN; contents arbitrary */
  v->other.Status = Computed;
  v->other.Eigenvalues.size = ham_size((long)i);
  v->other.Eigenvalues.data = v->other_ev;
  __CPROVER_havoc_slice(v->other_ev, (size_t)v->other.Eigenvalues.size * 8UL);
  v->other.gmin = nondet_double();
  __CPROVER_assume(v->other.gmin == v->other.gmin);
  if (ham_lb_on) __CPROVER_assume(ham_lb <= v->other.gmin);      /* hypothesis of the lower-bound clause, instantiated at block i */
  v->otherp.px = &v->other;
  return &v->otherp;
}
static inline struct HamiltonianPart *PartPtr_arrow(PartPtr *p)
{ __CPROVER_assert(p->px != (struct HamiltonianPart *)0, "shared_ptr::operator->: not empty"); return p->px; }
static inline struct HamiltonianPart *PartPtr_mul(PartPtr *p)
{ __CPROVER_assert(p->px != (struct HamiltonianPart *)0, "shared_ptr::operator*: not empty"); return p->px; }
/* PART INVARIANT for the ghost element (requires clauses) */
static inline _Bool Part_inv(struct HamiltonianPart *p, long b)
{ return p->Status == Computed && 0 <= ham_offs[b] && ham_offs[b] < ham_offs[b + 1] && ham_offs[b + 1] <= ham_offs[ham_nblocks] &&
         RealVector_wf(&p->Eigenvalues, (long)SC_MAXSTATES) && p->Eigenvalues.size == HAM_SIZE(b) && p->gmin == p->gmin; }

/* HamiltonianPart::getMinimumEigenvalue -- callee contract (proved: hampart.c, h_HP_getMinimumEigenvalue): throws unless
 * computed, otherwise returns the lowest eigenvalue of the part, here the ghost field gmin. */
static inline double HamiltonianPart_getMinimumEigenvalue(struct HamiltonianPart *self)
{
  if (self->Status < Computed) { VERIF_THROW("exStatusMismatch"); return nondet_double(); }
  return self->gmin;
}
//@tu src/pomerol/HamiltonianPart.cpp
//@maythrow HamiltonianPart_getEigenValue HamiltonianPart_getEigenValues HamiltonianPart_getMinimumEigenvalue
//@function Pomerol::HamiltonianPart::getEigenValue(unsigned long) const as HamiltonianPart_getEigenValue
//@end
//@function Pomerol::HamiltonianPart::getEigenValues() const as HamiltonianPart_getEigenValues
//@end
//@tu src/pomerol/Hamiltonian.cpp
//@struct Pomerol::Hamiltonian skip=IndexInfo,F embed=S

#define LVBITS(x) (*(const unsigned long *)&(x))
#define HAM_WF(self) (__CPROVER_is_fresh(self, sizeof(*self)) && StatesClassification_wf(&self->S) && self->S.Status == Computed && \
   self->parts.size == self->S.nblocks && 0 <= self->parts.gidx && self->parts.gidx < self->parts.size && ham_g == self->parts.gidx && __CPROVER_is_fresh(self->parts.other_ev, (size_t)self->S.StateSize * 8UL) && \
   __CPROVER_is_fresh(self->parts.g.px, sizeof(struct HamiltonianPart)) && Part_inv(self->parts.g.px, self->parts.gidx) && !VERIF_thrown)
#define HAM_GHOST_CACHE(self) self->parts.otherp, self->parts.other, __CPROVER_object_whole(self->parts.other_ev)

/* ---------------------------------------------------------------------------------------------- computeGroundEnergy */
//@function Pomerol::Hamiltonian::computeGroundEnergy() as Hamiltonian_computeGroundEnergy
//@contract
/* type invariant of a Hamiltonian whose parts are computed: one part per block */
__CPROVER_requires(HAM_WF(self))
/* the ghost block is also the ghost position of minCoeff's contract; the lowest eigenvalues are not NaN (PART INVARIANT) */
__CPROVER_requires(dense_g_k == self->parts.gidx && dense_g_nonan && !dense_g_minpos_used)
__CPROVER_requires(ham_lb_on ==> (ham_lb == ham_lb && ham_lb <= self->parts.g.px->gmin))
__CPROVER_assigns(self->GroundEnergy, VERIF_thrown, dense_g_minpos_used, HAM_GHOST_CACHE(self))
__CPROVER_ensures(!VERIF_thrown)
/* C03: not above the lowest eigenvalue of an arbitrary block ... */
__CPROVER_ensures(D_LE(self->GroundEnergy, self->parts.g.px->gmin))
/* ... and equal to the lowest eigenvalue of one block (the witness block dense_g_minpos; checked when it is the ghost block).
 * The witness is supplied by the minCoeff contract; an implementation that finds the minimum differently has no witness
 * (dense_g_minpos_used stays false) and only the upper-bound clause above is decided for it -- demanding the witness unconditionally
 * rejected a correct running-minimum rewrite. */
__CPROVER_ensures(dense_g_minpos_used ==> (0 <= dense_g_minpos && dense_g_minpos < self->S.nblocks))
__CPROVER_ensures((dense_g_minpos_used && dense_g_minpos == self->parts.gidx) ==> D_SAME(self->GroundEnergy, self->parts.g.px->gmin))
/* ... and, independently of how the minimum is found: not below any number that is a lower bound of all block minima */
__CPROVER_ensures(ham_lb_on ==> ham_lb <= self->GroundEnergy)
//@loop 1
__CPROVER_assigns(CurrentBlock, VERIF_thrown, HAM_GHOST_CACHE(self), __CPROVER_object_whole(LEV.data))
__CPROVER_loop_invariant(0 <= CurrentBlock.number && CurrentBlock.number <= NumberOfBlocks.number && NumberOfBlocks.number == (int)self->parts.size && LEV.size == self->S.nblocks)
__CPROVER_loop_invariant(!VERIF_thrown)
__CPROVER_loop_invariant(CurrentBlock.number > self->parts.gidx ==> LVBITS(LEV.data[self->parts.gidx]) == LVBITS(self->parts.g.px->gmin))
/* the entry at the (prophesied) witness position of minCoeff respects the lower bound once it has been written */
__CPROVER_loop_invariant((ham_lb_on && 0 <= dense_g_minpos && dense_g_minpos < (long)CurrentBlock.number) ==> ham_lb <= LEV.data[dense_g_minpos])
__CPROVER_decreases(NumberOfBlocks.number - CurrentBlock.number)
//@end
//@harness h_Ham_computeGroundEnergy enforce=Hamiltonian_computeGroundEnergy props=C03 min_obl=760 reach=3 timeout=300 defs=-DVERIF_FP_IEEE
void h_Ham_computeGroundEnergy(void)
{
  struct Hamiltonian *p;
  Hamiltonian_computeGroundEnergy(p);
  if (dense_g_minpos == dense_g_k) REACH("exit-witness-is-ghost"); else REACH("exit-witness-other");
  if (ham_lb_on) REACH("exit-with-lower-bound");
}

/* ---------------------------------------------------------------------------------------------- getEigenValues */
long g_k;   /* ghost eigenvalue number inside the ghost block */
//@function Pomerol::Hamiltonian::getEigenValues() const as Hamiltonian_getEigenValues
//@contract
__CPROVER_requires(HAM_WF(self))
__CPROVER_requires(0 <= g_k && g_k < self->parts.g.px->Eigenvalues.size && dense_g_copyk == g_k)
__CPROVER_assigns(VERIF_thrown, HAM_GHOST_CACHE(self))
__CPROVER_ensures(!VERIF_thrown)
/* "total length = number of states" */
__CPROVER_ensures(__CPROVER_return_value.size == (long)self->S.StateSize)
/* C03: the spectrum is the concatenation of the blocks' spectra in block order */
__CPROVER_ensures(D_SAME(__CPROVER_return_value.data[ham_offs[self->parts.gidx] + g_k], self->parts.g.px->Eigenvalues.data[g_k]))
//@loop 1
__CPROVER_assigns(CurrentBlock, i, VERIF_thrown, HAM_GHOST_CACHE(self), __CPROVER_object_whole(out.data))
__CPROVER_loop_invariant(0 <= CurrentBlock.number && CurrentBlock.number <= (int)self->S.nblocks && out.size == (long)self->S.StateSize)
__CPROVER_loop_invariant(i == (unsigned long)ham_offs[CurrentBlock.number])
__CPROVER_loop_invariant(!VERIF_thrown)
__CPROVER_loop_invariant(CurrentBlock.number > self->parts.gidx ==> LVBITS(out.data[ham_offs[self->parts.gidx] + g_k]) == LVBITS(self->parts.g.px->Eigenvalues.data[g_k]))
__CPROVER_decreases(self->S.nblocks - CurrentBlock.number)
//@end
//@harness h_Ham_getEigenValues enforce=Hamiltonian_getEigenValues props=C03 min_obl=786 reach=1 timeout=450
void h_Ham_getEigenValues(void)
{
  struct Hamiltonian *p;
  Hamiltonian_getEigenValues(p);
  REACH("exit");
}

/* ---------------------------------------------------------------------------------------------- getPart / getEigenValue */
//@function Pomerol::Hamiltonian::getPart(Pomerol::BlockNumber) const as Hamiltonian_getPart
//@contract
__CPROVER_requires(HAM_WF(self))
/* unchecked operator[]: the caller's obligation */
__CPROVER_requires(0 <= in.number && in.number < self->S.nblocks)
__CPROVER_assigns(HAM_GHOST_CACHE(self))
__CPROVER_ensures(in.number == self->parts.gidx ==> __CPROVER_return_value == self->parts.g.px)
//@end
//@harness h_Ham_getPart enforce=Hamiltonian_getPart props=C03 min_obl=398 reach=1 timeout=60
void h_Ham_getPart(void)
{
  struct Hamiltonian *p; BlockNumber b;
  Hamiltonian_getPart(p, b);
  REACH("exit");
}

/* getEigenValue(state): getPart is inlined (the extracted body above) */
long g_block; unsigned long g_pos;   /* ghost: block and position of `state` (calls are allowed in requires) */
//@maythrow StatesClassification_getInnerState StatesClassification_getBlockNumber
//@function Pomerol::Hamiltonian::getEigenValue(unsigned long) const as Hamiltonian_getEigenValue
//@contract
__CPROVER_requires(HAM_WF(self))
/* the ghost part is the part of the state's block (arbitrary state => arbitrary block) */
__CPROVER_requires(state < self->S.StateSize ==> (g_block == sc_block(state) && g_pos == sc_pos(state) && self->parts.gidx == g_block))
__CPROVER_assigns(VERIF_thrown, HAM_GHOST_CACHE(self))
/* an unknown state label is rejected */
__CPROVER_ensures(VERIF_thrown == (state >= self->S.StateSize))
/* C03: "the eigenvalue looked up for any state label is the one stored for its block and position" */
__CPROVER_ensures(!VERIF_thrown ==> D_SAME(__CPROVER_return_value, self->parts.g.px->Eigenvalues.data[g_pos]))
//@end
//@harness h_Ham_getEigenValue enforce=Hamiltonian_getEigenValue props=C03 min_obl=486 reach=2 timeout=90
void h_Ham_getEigenValue(void)
{
  struct Hamiltonian *p; unsigned long s;
  Hamiltonian_getEigenValue(p, s);
  if (VERIF_thrown) REACH("thrown"); else REACH("value");
}

/* ---- mutation record -----------------------------------------------------------------------------------------------------
 * h_Ham_computeGroundEnergy: LEV(CurrentBlock,0) = parts[CurrentBlock]->.. -> parts[0]->..   FAIL computeGroundEnergy.loop_invariant_step.3
 *                            CurrentBlock=0 -> CurrentBlock=1                                 FAIL computeGroundEnergy.postcondition.2/.4, minCoeff no-NaN check, loop_invariant_base
 * h_Ham_getEigenValues:      i+=tmp.size() -> i+=1                                            FAIL getEigenValues.loop_invariant_step.2 (i == offset(CurrentBlock))
 *                            out.data()+i -> out.data()                                       FAIL getEigenValues.loop_invariant_step.4 (ghost element overwritten)
 * h_Ham_getEigenValue:       getPart(S.getBlockNumber(state)) -> getPart(BlockNumber(0))      FAIL getEigenValue.postcondition.2, RealVector_call.assertion.1
 *                            getEigenValue(InnerState) -> getEigenValue(0)                    FAIL getEigenValue.postcondition.2
 * h_Ham_getPart:             *parts[in] -> *parts[0]                                          FAIL getPart.postcondition.1
 */
