/* IndexClassification -- the map between (site label, orbital, spin) and the single-particle index
 * (C18: bijection onto 0..N-1, forward and inverse lookups; C17: every slot of IndicesToInfo is written
 * before it is dereferenced).
 *
 * Ghosts (all arbitrary, fixed before the call; arbitrary => for all):
 *   ghost triple gt = (Sites.glabel, g_t_orb, g_t_spin); Sites.gk = position of that label in the site map or -1
 *   ghost slot   gs = IndicesToInfo.gs  (ghost-slot model of std::vector<IndexInfo*>: slot gs is modelled
 *                exactly, reads of other slots return a valid pointer to an object with arbitrary content,
 *                so a null / unwritten slot j is detected by the instance gs == j)
 *   ghost key    InfoToIndices.g.first = gt with hash STRHASH(glabel) (ghost-key model of std::map<IndexInfo,ParticleIndex>,
 *                equivalence of keys decided by the EXTRACTED IndexInfo::operator<)
 * operator new IndexInfo: allocation number gs returns the dedicated object g_obj (fresh: nothing else refers to it),
 *   every other allocation a scratch object whose content is never relied upon.
 */
#include "../stubs/common.h"
#include "../stubs/strlabel.h"
//@include types_common.inc
//@include types_lattice.inc
//@type std::vector<(Pomerol::)?IndexClassification::IndexInfo \*> => InfoVec ptr
//@type std::map<(Pomerol::)?IndexClassification::IndexInfo, unsigned int> => InfoMap ptr
//@type std::map<(Pomerol::)?IndexClassification::IndexInfo, unsigned int>::const_iterator|std::_Rb_tree_const_iterator<std::pair<const Pomerol::IndexClassification::IndexInfo, unsigned int> ?> => InfoMapIt val
//@type boost::hash<std::(__cxx11::)?basic_string<char> ?> => strhash_t val
//@record Pomerol::IndexClassification::IndexInfo => struct IndexInfo ptr
//@rename IndexClassification_getIndex/1 => IndexClassification_getIndex1
//@tu src/pomerol/IndexClassification.cpp
//@struct Pomerol::Lattice::Site
#include "../stubs/sitemap.h"
//@struct Pomerol::IndexClassification::IndexInfo

/* ---- std::vector<IndexInfo*>: ghost-slot model */
typedef struct InfoVec {
  unsigned long size;
  unsigned long gs;              /* ghost slot (arbitrary) */
  struct IndexInfo *gslot;       /* content of slot gs */
} InfoVec;
struct IndexInfo nondet_IndexInfo(void);
#define InfoVec_resize(v, n_) ((v)->size = (n_), (v)->gslot = (struct IndexInfo *)0)  /* value-initialised: null pointers */
/* any other slot: a temporary cell holding a valid pointer to an object with arbitrary content (no heap write).
 * A plain expression, not a statement expression: the temporaries must outlive the full expression. */
#define InfoVec_at(v, i_) \
  (__CPROVER_assert((unsigned long)(i_) < (v)->size, "std::vector operator[]: index inside the vector"), \
   ((unsigned long)(i_) == (v)->gs) ? &(v)->gslot : &(struct IndexInfo *){ &(struct IndexInfo[1]){ nondet_IndexInfo() }[0] })

/* ---- std::map<IndexInfo, ParticleIndex>: ghost-key model */
typedef struct InfoPair { struct IndexInfo first; unsigned int second; } InfoPair;
typedef struct InfoMap { InfoPair g; _Bool gpresent; InfoPair other; } InfoMap;
typedef struct InfoMapIt { InfoPair *p; } InfoMapIt;
_Bool IndexInfo_lt(struct IndexInfo *self, struct IndexInfo *rhs);
#define INFO_EQUIV(a, b) (!IndexInfo_lt((a), (b)) && !IndexInfo_lt((b), (a)))
unsigned int nondet_uint(void);
static inline unsigned int *InfoMap_at(InfoMap *m, struct IndexInfo *key)      /* operator[]: inserts a default value */
{
  if (INFO_EQUIV(key, &m->g.first)) {
    if (!m->gpresent) { m->gpresent = 1; m->g.second = 0; }
    return &m->g.second;
  }
  m->other.second = nondet_uint();
  return &m->other.second;
}
static inline InfoMapIt InfoMap_find(InfoMap *m, struct IndexInfo *key)        /* exact w.r.t. the extracted comparator */
{
  InfoMapIt it;
  if (INFO_EQUIV(key, &m->g.first)) it.p = m->gpresent ? &m->g : (InfoPair *)0;
  else if (nondet_bool()) { m->other.first = *key; m->other.second = nondet_uint(); it.p = &m->other; }
  else it.p = (InfoPair *)0;
  return it;
}
/* std::map::lower_bound(key): iterator to the FIRST element whose key is not less than `key` (w.r.t. the extracted comparator),
 * end() when every key is less.  In the ghost-key model the result is
 *   - the ghost element when it is present and equivalent to `key` (a map holds at most one element per equivalence class);
 *   - otherwise either some other element e (arbitrary content, ASSUMED: !(e < key) -- the definition of lower_bound; e is not
 *     equivalent to the ghost key -- `other` elements never are; e < ghost element when the ghost element is present and not
 *     less than key -- the FIRST such element), or the ghost element when it is present and not less than key, or end() when
 *     the ghost element is absent / less than key (end() is impossible while a present ghost element is not less than key). */
static inline InfoMapIt InfoMap_lower_bound(InfoMap *m, struct IndexInfo *key)
{
  InfoMapIt it;
  if (m->gpresent && INFO_EQUIV(key, &m->g.first)) { it.p = &m->g; return it; }
  _Bool g_ge = m->gpresent && !IndexInfo_lt(&m->g.first, key);
  if (nondet_bool()) {
    m->other.first = nondet_IndexInfo(); m->other.second = nondet_uint();
    __CPROVER_assume(!IndexInfo_lt(&m->other.first, key));
    __CPROVER_assume(!INFO_EQUIV(&m->other.first, &m->g.first));
    __CPROVER_assume(!g_ge || IndexInfo_lt(&m->other.first, &m->g.first));
    it.p = &m->other;
  }
  else if (g_ge) it.p = &m->g;
  else it.p = (InfoPair *)0;
  return it;
}
#define InfoMap_end(m) ((InfoMapIt){ (InfoPair *)0 })
#define op_ne_InfoMapIt_InfoMapIt(a, b) ((a)->p != (b)->p)
#define InfoMapIt_mul(it) ({ __CPROVER_assert((it)->p != (InfoPair *)0, "std::map iterator dereferenced only before end()"); (it)->p; })

//@struct Pomerol::IndexClassification embed=Sites

/* ---- ghost state of the monitors */
struct IndexClassification *g_self;
unsigned short g_t_orb, g_t_spin;      /* ghost triple = (g_self->Sites.glabel, g_t_orb, g_t_spin) */
/* ONE struct, updated by ONE assignment per monitor call (every instrumented write costs a write-set check
 * per enclosing loop contract) */
struct Mon {
  unsigned long hits;          /* number of IndexInfo objects created with the ghost triple */
  unsigned long hit_slot;      /* allocation number (= slot) of the most recent one */
  unsigned long new_count;     /* number of `new IndexInfo` so far */
  struct IndexInfo obj;        /* the object of allocation number gs (fresh: nothing else refers to it) */
  long obj_pos;                /* position of its site in the site map */
  _Bool obj_hash_ok;           /* obj.SiteLabelHash == STRHASH(obj.SiteLabel) */
} g_mon;
struct IndexInfo g_scratch;    /* every other allocation (never written, content never relied upon) */
#define g_hits g_mon.hits
#define g_hit_slot g_mon.hit_slot
#define g_new_count g_mon.new_count
#define g_obj g_mon.obj
#define g_obj_pos g_mon.obj_pos
#define g_obj_hash_ok g_mon.obj_hash_ok

//@function Pomerol::IndexClassification::IndexInfo::IndexInfo(std::__cxx11::basic_string<char, std::char_traits<char>, std::allocator<char> > const&, unsigned short, unsigned short) as IndexInfo_mk_ctor3
//@end
#define IndexInfo_ctor3(l, o, s) (*(struct IndexInfo[1]){ IndexInfo_mk_ctor3((l), (o), (s)) })   /* a temporary */
#define IndexInfo_ctor1(x) (x)                                                                  /* copy */
//@function Pomerol::IndexClassification::IndexInfo::operator<(Pomerol::IndexClassification::IndexInfo const&) const as IndexInfo_lt
//@end

#define SM (&g_self->Sites)
#define GT_VALID (SM->gk >= 0 && g_t_orb < SM_orb(SM->gk) && g_t_spin < SM_spin(SM->gk))
/* `new IndexInfo(label, orbital, spin)`: allocator model + monitor (soundness: only valid triples of the site
 * the iterator stands on are created; completeness: counts the creations of the ghost triple) */
struct IndexInfo *IndexInfo_new3(label_t l, unsigned short o, unsigned short s)
{
  SiteMap *m = SM; InfoVec *v = &g_self->IndicesToInfo;
  __CPROVER_assert(0 <= SITEPOS(l) && SITEPOS(l) < m->n && l == SM_label(SITEPOS(l)), "C18: an index is created for a site of the lattice");
  __CPROVER_assert(o < SM_orb(SITEPOS(l)) && s < SM_spin(SITEPOS(l)), "C18: every index holds a valid (orbital, spin) of its site");
  __CPROVER_assert(g_new_count < v->size, "C18: no more indices are created than IndexSize");
  struct Mon t = g_mon;
  _Bool is_gs = (t.new_count == v->gs);
  if (is_gs) { t.obj = IndexInfo_mk_ctor3(l, o, s); t.obj_pos = SITEPOS(l); t.obj_hash_ok = (t.obj.SiteLabelHash == STRHASH(l)); REACH("new_ghost_slot"); }
  if (l == m->glabel && o == g_t_orb && s == g_t_spin) { t.hits++; t.hit_slot = t.new_count; REACH("new_ghost_triple"); }
  t.new_count++;
  g_mon = t;
  return is_gs ? &g_mon.obj : &g_scratch;
}

#define M (&self->Sites)
#define V (&self->IndicesToInfo)
#define MAP (&self->InfoToIndices)
#define ORB(k) ((unsigned long)SM_orb(k))
#define SPIN(k) ((unsigned long)SM_spin(k))
#define OBJ_IS_GT (g_obj.SiteLabel == M->glabel && g_obj.Orbital == g_t_orb && g_obj.Spin == g_t_spin)
#define OBJ_VALID (0 <= g_obj_pos && g_obj_pos < M->n && g_obj.SiteLabel == SM_label(g_obj_pos) && \
                   g_obj.Orbital < SM_orb(g_obj_pos) && g_obj.Spin < SM_spin(g_obj_pos) && g_obj_hash_ok)
#define OBJ_EQUIV_KEY (g_obj.SiteLabelHash == MAP->g.first.SiteLabelHash && g_obj.Orbital == MAP->g.first.Orbital && g_obj.Spin == MAP->g.first.Spin)
/* facts that every construction loop maintains */
#define INV_COMMON \
  (!VERIF_thrown && g_self == self && V->size == self->IndexSize && g_new_count == currentIndex && g_hits <= 1 && \
   (V->gs < currentIndex ? (V->gslot == &g_obj && OBJ_VALID) : V->gslot == (struct IndexInfo *)0) && \
   (g_hits == 1 ==> g_hit_slot < currentIndex) && \
   (V->gs < currentIndex ==> (OBJ_IS_GT == (g_hits == 1 && g_hit_slot == V->gs))))
#define ASSIGNS_COMMON currentIndex, g_mon, self->IndicesToInfo.gslot
#ifdef SM_NO_SQ
#define INV_L1_SQ 1
#else   /* layers above the largest spin count are empty */
#define INV_L1_SQ ((MaxSpinSize <= 0 ==> SM_sq0[0] == SM_sq0[it1.pos]) && (MaxSpinSize <= 1 ==> SM_sq1[0] == SM_sq1[it1.pos]) && \
                   (MaxSpinSize <= 2 ==> SM_sq2[0] == SM_sq2[it1.pos]) && (MaxSpinSize <= 3 ==> SM_sq3[0] == SM_sq3[it1.pos]))
#endif
#define GHOST01(before) ((g_hits == 0 && (before)) || (g_hits == 1 && !(before)))

//@function Pomerol::IndexClassification::prepare(bool) as IndexClassification_prepare
//@contract
__CPROVER_requires(__CPROVER_is_fresh(self, sizeof(*self)) && g_self == self)
/* a freshly constructed object: no indices yet, empty containers */
__CPROVER_requires(self->IndexSize == 0 && V->size == 0 && !MAP->gpresent && !VERIF_thrown)
/* arbitrary site table; total number of indices <= 2^16 (SiteMap_wf) */
__CPROVER_requires(SiteMap_wf(M))
/* DOMAIN: sites with at most SM_SMAX (4) spin components (C18 quantifies over 1..3): keeps every product
 * orbitals*spins narrow (SAT cannot relate two 16x16-bit multipliers) and makes the spin-major sums finite */
__CPROVER_requires(M->smax_on)
/* ghost key of the map = the ghost triple, constructed the way pomerol constructs keys */
__CPROVER_requires(MAP->g.first.SiteLabel == M->glabel && MAP->g.first.Orbital == g_t_orb && MAP->g.first.Spin == g_t_spin &&
                   MAP->g.first.SiteLabelHash == STRHASH(M->glabel))
__CPROVER_requires(g_hits == 0 && g_new_count == 0)
__CPROVER_assigns(self->IndexSize, self->IndicesToInfo.size, self->IndicesToInfo.gslot, self->InfoToIndices, VERIF_thrown,
                  g_mon)
__CPROVER_ensures(!VERIF_thrown)
/* C18: IndexSize = SUM orbitals*spins */
__CPROVER_ensures((unsigned long)self->IndexSize == SM_suf[0])
/* C18/C17: exactly IndexSize index infos are created, number j is stored in slot j: every slot is written exactly once */
__CPROVER_ensures(V->size == self->IndexSize && g_new_count == self->IndexSize)
/* C18 (ghost triple): a valid triple is created exactly once, an invalid one never */
__CPROVER_ensures(g_hits == (GT_VALID ? 1UL : 0UL))
__CPROVER_ensures(GT_VALID ==> g_hit_slot < self->IndexSize)
/* C18/C17 (ghost slot): the slot holds a live object with a valid triple of the lattice ... */
__CPROVER_ensures(V->gs < self->IndexSize ==> (V->gslot == &g_obj && OBJ_VALID))
/* ... and it holds the ghost triple iff it is the slot where that triple was created (no second slot holds it) */
__CPROVER_ensures(V->gs < self->IndexSize ==> (OBJ_IS_GT == (g_hits == 1 && g_hit_slot == V->gs)))
/* C18 (reverse map, ghost key x ghost slot): the key of slot gs is present with a value >= gs; a stored value
 * refers to a slot whose key is equivalent to the ghost key (F1, F2 in the derivation at the end of this file) */
__CPROVER_ensures(MAP->gpresent ==> MAP->g.second < self->IndexSize)
__CPROVER_ensures((MAP->gpresent && MAP->g.second == V->gs) ==> OBJ_EQUIV_KEY)
__CPROVER_ensures((V->gs < self->IndexSize && OBJ_EQUIV_KEY) ==> (MAP->gpresent && MAP->g.second >= V->gs))
//@loop 1
__CPROVER_assigns(it1, self->IndexSize, MaxSpinSize)
__CPROVER_loop_invariant(it1.m == M && 0 <= it1.pos && it1.pos <= M->n)
__CPROVER_loop_invariant((unsigned long)self->IndexSize + SM_suf[it1.pos] == SM_suf[0] && SM_suf[it1.pos] <= SM_TOTAL_MAX)
__CPROVER_loop_invariant((M->gk >= 0 && it1.pos > M->gk) ==> MaxSpinSize >= SPIN(M->gk))
__CPROVER_loop_invariant(M->smax_on ==> MaxSpinSize <= SM_SMAX)
__CPROVER_loop_invariant(INV_L1_SQ)
__CPROVER_decreases(M->n - it1.pos)
//@loop 2
__CPROVER_assigns(z, ASSIGNS_COMMON)
__CPROVER_loop_invariant(z <= MaxSpinSize && INV_COMMON)
__CPROVER_loop_invariant((unsigned long)currentIndex + SM_SQTAIL(0, z) == self->IndexSize)
__CPROVER_loop_invariant(GT_VALID ? GHOST01(z <= g_t_spin) : g_hits == 0)
__CPROVER_decreases(MaxSpinSize - z)
//@loop 3
__CPROVER_assigns(it1, ASSIGNS_COMMON)
__CPROVER_loop_invariant(it1.m == M && 0 <= it1.pos && it1.pos <= M->n && INV_COMMON)
__CPROVER_loop_invariant((unsigned long)currentIndex + SM_SQ(z, it1.pos) + SM_SQTAIL(0, z + 1) == self->IndexSize && SM_SQ(z, it1.pos) <= SM_TOTAL_MAX)
__CPROVER_loop_invariant((GT_VALID && z == g_t_spin) ? GHOST01(it1.pos <= M->gk) : g_hits == __CPROVER_loop_entry(g_hits))
__CPROVER_decreases(M->n - it1.pos)
//@loop 4
__CPROVER_assigns(i, SM_IT_CURSOR(it1), ASSIGNS_COMMON)
__CPROVER_loop_invariant(i <= ORB(it1.pos) && INV_COMMON)
__CPROVER_loop_invariant((unsigned long)currentIndex + (ORB(it1.pos) - i) + SM_SQ(z, it1.pos + 1) + SM_SQTAIL(0, z + 1) == self->IndexSize)
__CPROVER_loop_invariant((GT_VALID && z == g_t_spin && it1.pos == M->gk) ? GHOST01(i <= g_t_orb) : g_hits == __CPROVER_loop_entry(g_hits))
__CPROVER_decreases(ORB(it1.pos) - i)
//@loop 5
__CPROVER_assigns(it1, ASSIGNS_COMMON)
__CPROVER_loop_invariant(it1.m == M && 0 <= it1.pos && it1.pos <= M->n && INV_COMMON)
__CPROVER_loop_invariant((unsigned long)currentIndex + SM_suf[it1.pos] == self->IndexSize && SM_suf[it1.pos] <= SM_TOTAL_MAX)
__CPROVER_loop_invariant(GT_VALID ? GHOST01(it1.pos <= M->gk) : g_hits == 0)
__CPROVER_decreases(M->n - it1.pos)
//@loop 6
__CPROVER_assigns(i, SM_IT_CURSOR(it1), ASSIGNS_COMMON)
__CPROVER_loop_invariant(i <= ORB(it1.pos) && INV_COMMON)
__CPROVER_loop_invariant((unsigned long)currentIndex + (ORB(it1.pos) - i) * SPIN(it1.pos) + SM_suf[it1.pos + 1] == self->IndexSize)
__CPROVER_loop_invariant((GT_VALID && it1.pos == M->gk) ? GHOST01(i <= g_t_orb) : g_hits == __CPROVER_loop_entry(g_hits))
__CPROVER_decreases(ORB(it1.pos) - i)
//@loop 7
__CPROVER_assigns(z, SM_IT_CURSOR(it1), ASSIGNS_COMMON)
__CPROVER_loop_invariant(z <= SPIN(it1.pos) && INV_COMMON)
__CPROVER_loop_invariant((unsigned long)currentIndex + (SPIN(it1.pos) - z) + (ORB(it1.pos) - i - 1) * SPIN(it1.pos) + SM_suf[it1.pos + 1] == self->IndexSize)
__CPROVER_loop_invariant((GT_VALID && it1.pos == M->gk && i == g_t_orb) ? GHOST01(z <= g_t_spin) : g_hits == __CPROVER_loop_entry(g_hits))
__CPROVER_decreases(SPIN(it1.pos) - z)
//@loop 8
__CPROVER_assigns(i, self->InfoToIndices)
__CPROVER_loop_invariant(i <= self->IndexSize && !VERIF_thrown)
__CPROVER_loop_invariant(MAP->g.first.SiteLabelHash == __CPROVER_loop_entry(MAP->g.first.SiteLabelHash) && MAP->g.first.Orbital == g_t_orb && MAP->g.first.Spin == g_t_spin)
__CPROVER_loop_invariant(MAP->gpresent ==> MAP->g.second < i)
__CPROVER_loop_invariant((MAP->gpresent && MAP->g.second == V->gs) ==> OBJ_EQUIV_KEY)
__CPROVER_loop_invariant((V->gs < i && OBJ_EQUIV_KEY) ==> (MAP->gpresent && MAP->g.second >= V->gs))
__CPROVER_decreases(self->IndexSize - i)
//@end

/* lemma L1 of stubs/sitemap.h (SUM_z sq_z[0] == suf[0]), proved by induction */
//@harness h_lemma_sitemap_sqsum enforce=SiteMap_lemma_sqsum props=C18 min_obl=388 timeout=300 reach=1 objbits=8
void h_lemma_sitemap_sqsum(void)
{
  SiteMap *m;
  SiteMap_lemma_sqsum(m);
  REACH("exit");
}
//@harness h_IC_prepare_sites enforce=IndexClassification_prepare props=C18,C17 min_obl=12135 timeout=900 reach=3 defs=-DSM_NO_SQ objbits=8
void h_IC_prepare_sites(void)
{
  struct IndexClassification *p;
  IndexClassification_prepare(p, 0);     /* default ordering: site-major */
  REACH("exit");
}
//@harness h_IC_prepare_spins enforce=IndexClassification_prepare props=C18,C17 min_obl=12929 timeout=900 reach=3 objbits=8
void h_IC_prepare_spins(void)
{
  struct IndexClassification *p;
  IndexClassification_prepare(p, 1);     /* order_spins: spin-major */
  REACH("exit");
}

/* ================= lookups on a prepared object =================
 * PREPARED(self): the state prepare() leaves behind, for the ghost triple gt / ghost key (= gt with its hash) and the
 * ghost slot gs.  It follows from the post-conditions of prepare (proved above for ALL gt, gs) under the named
 * hypothesis
 *   H_label: no two different strings among (labels of the lattice, labels passed to getIndex) have the same
 *            boost::hash value                       (IndexInfo::operator< compares hashes, not labels)
 * Derivation (N = IndexSize, P3..P6/F1/F2 = post-conditions of prepare, slot(j) = content of slot j):
 *   M1  gpresent <=> gt valid.   "<=": gt valid => hits == 1, p := hit_slot < N (P3,P4); P6 at gs := p: slot(p) = gt, so
 *       its key is equivalent to the ghost key; F2 at gs := p: gpresent.   "=>": gpresent => gval < N (F1a); F1b at
 *       gs := gval: key(slot(gval)) ~ ghost key, i.e. equal hashes, orbital, spin; H_label: equal labels; slot(gval) is a
 *       valid triple (P5), hence gt is valid.
 *   M4  gs < N and gpresent => (slot(gs) = gt <=> gval == gs).   "=>": F2: gval >= gs; P6: hit_slot == gs; F1b at
 *       gs' := gval and H_label: slot(gval) = gt; P6 at gs': hit_slot == gval; so gval == gs.   "<=": F1b and H_label.
 *   M3  gs < N => slot gs holds a live object with a valid triple whose hash field is the hash of its label (P5).
 */
#define OBJ_WELLFORMED (OBJ_VALID && g_obj.SiteLabelHash == STRHASH(g_obj.SiteLabel) && g_obj_pos == SITEPOS(g_obj.SiteLabel))
#define GT_VALID_S (M->gk >= 0 && g_t_orb < SM_orb(M->gk) && g_t_spin < SM_spin(M->gk))
#define PREPARED \
  (__CPROVER_is_fresh(self, sizeof(*self)) && g_self == self && !VERIF_thrown && SiteMap_wf_nosums(M) && V->size == self->IndexSize && \
   MAP->g.first.SiteLabel == M->glabel && MAP->g.first.Orbital == g_t_orb && MAP->g.first.Spin == g_t_spin && \
   MAP->g.first.SiteLabelHash == STRHASH(M->glabel) && \
   MAP->gpresent == GT_VALID_S &&                                                                   /* M1 */ \
   (MAP->gpresent ==> MAP->g.second < self->IndexSize) && \
   (V->gs < self->IndexSize ==> (V->gslot == &g_obj && OBJ_WELLFORMED)) &&                          /* M3 */ \
   ((V->gs < self->IndexSize && MAP->gpresent) ==> (OBJ_IS_GT == (MAP->g.second == V->gs))))        /* M4 */
#define INFO_IS(x, l, o, s) ((x).SiteLabel == (l) && (x).Orbital == (o) && (x).Spin == (s))

//@function Pomerol::IndexClassification::getIndexSize() const as IndexClassification_getIndexSize
//@end
//@function Pomerol::IndexClassification::checkIndex(unsigned int) as IndexClassification_checkIndex
//@contract
__CPROVER_requires(__CPROVER_is_fresh(self, sizeof(*self)))
__CPROVER_assigns()
__CPROVER_ensures(__CPROVER_return_value == (in < self->IndexSize))
//@end
//@maythrow IndexClassification_getInfo
//@function Pomerol::IndexClassification::getInfo(unsigned int) const as IndexClassification_getInfo
//@contract
__CPROVER_requires(PREPARED)
__CPROVER_assigns(VERIF_thrown)
/* C18: getInfo(i >= N) throws, otherwise returns the content of slot i (instance i == gs) */
__CPROVER_ensures(VERIF_thrown == (in >= self->IndexSize))
__CPROVER_ensures((!VERIF_thrown && in == V->gs) ==> (INFO_IS(__CPROVER_return_value, g_obj.SiteLabel, g_obj.Orbital, g_obj.Spin) && __CPROVER_return_value.SiteLabelHash == g_obj.SiteLabelHash))
//@end
//@function Pomerol::IndexClassification::getIndex(Pomerol::IndexClassification::IndexInfo const&) const as IndexClassification_getIndex1
//@contract
__CPROVER_requires(PREPARED)
/* the argument is (a key equal to) the ghost triple, built by IndexInfo's constructor */
__CPROVER_requires(__CPROVER_is_fresh(in, sizeof(*in)) && INFO_IS(*in, M->glabel, g_t_orb, g_t_spin) && in->SiteLabelHash == STRHASH(in->SiteLabel))
__CPROVER_assigns(self->InfoToIndices.other)
/* C18: the index of a valid triple (< N), IndexSize for an unknown triple */
__CPROVER_ensures(__CPROVER_return_value == (GT_VALID_S ? MAP->g.second : self->IndexSize))
__CPROVER_ensures(GT_VALID_S == (__CPROVER_return_value < self->IndexSize))
//@end
//@function Pomerol::IndexClassification::getIndex(std::__cxx11::basic_string<char, std::char_traits<char>, std::allocator<char> > const&, unsigned short const&, unsigned short const&) const as IndexClassification_getIndex3
//@contract
__CPROVER_requires(PREPARED)
__CPROVER_requires(Site == M->glabel && Orbital == g_t_orb && Spin == g_t_spin)
__CPROVER_assigns(self->InfoToIndices.other)
__CPROVER_ensures(__CPROVER_return_value == (GT_VALID_S ? MAP->g.second : self->IndexSize))
__CPROVER_ensures(GT_VALID_S == (__CPROVER_return_value < self->IndexSize))
//@end

/* round trips (C18: forward and inverse lookups are mutual inverses): two-line clients of the extracted lookups */
unsigned int IC_roundtrip_index(struct IndexClassification *self, unsigned int i)
__CPROVER_requires(PREPARED)
/* i = the ghost slot, the ghost triple = the triple stored in that slot */
__CPROVER_requires(i == V->gs && i < self->IndexSize && OBJ_IS_GT)
__CPROVER_assigns(VERIF_thrown, self->InfoToIndices.other)
__CPROVER_ensures(!VERIF_thrown && __CPROVER_return_value == i)              /* getIndex(getInfo(i)) == i */
{
  struct IndexInfo info = IndexClassification_getInfo(self, i);
  if (VERIF_thrown) return 0;
  return IndexClassification_getIndex1(self, &info);
}
struct IndexInfo IC_roundtrip_info(struct IndexClassification *self, label_t l, unsigned short o, unsigned short s)
__CPROVER_requires(PREPARED)
/* (l,o,s) = the ghost triple, valid; the ghost slot = its index */
__CPROVER_requires(l == M->glabel && o == g_t_orb && s == g_t_spin && GT_VALID_S && V->gs == MAP->g.second)
__CPROVER_assigns(VERIF_thrown, self->InfoToIndices.other)
__CPROVER_ensures(!VERIF_thrown && INFO_IS(__CPROVER_return_value, l, o, s))  /* getInfo(getIndex(t)) == t */
{
  unsigned int idx = IndexClassification_getIndex3(self, l, o, s);
  return IndexClassification_getInfo(self, idx);
}

//@harness h_IC_checkIndex enforce=IndexClassification_checkIndex props=C18 min_obl=33 reach=1 objbits=8 timeout=60
void h_IC_checkIndex(void) { struct IndexClassification *p; unsigned int i; IndexClassification_checkIndex(p, i); REACH("exit"); }
//@harness h_IC_getInfo enforce=IndexClassification_getInfo props=C18,C17 min_obl=287 reach=1 objbits=8 timeout=60
void h_IC_getInfo(void) { struct IndexClassification *p; unsigned int i; IndexClassification_getInfo(p, i); REACH("exit"); }
//@harness h_IC_getIndex1 enforce=IndexClassification_getIndex1 props=C18 min_obl=388 reach=1 objbits=8 timeout=60
void h_IC_getIndex1(void) { struct IndexClassification *p; struct IndexInfo *k; IndexClassification_getIndex1(p, k); REACH("exit"); }
//@harness h_IC_getIndex3 enforce=IndexClassification_getIndex3 props=C18 min_obl=387 reach=1 objbits=8 timeout=60
void h_IC_getIndex3(void) { struct IndexClassification *p; label_t l; unsigned short o, s; IndexClassification_getIndex3(p, l, o, s); REACH("exit"); }
//@harness h_IC_roundtrip_index enforce=IC_roundtrip_index props=C18 min_obl=365 reach=1 objbits=8 timeout=60
void h_IC_roundtrip_index(void) { struct IndexClassification *p; unsigned int i; IC_roundtrip_index(p, i); REACH("exit"); }
//@harness h_IC_roundtrip_info enforce=IC_roundtrip_info props=C18 min_obl=407 reach=1 objbits=8 timeout=60
void h_IC_roundtrip_info(void) { struct IndexClassification *p; label_t l; unsigned short o, s; IC_roundtrip_info(p, l, o, s); REACH("exit"); }

/* MUTATION RECORD (tools/try_mutant.py, src/pomerol/IndexClassification.cpp):
 *  getInfo `in >= IndexSize` -> `>`                      IndexClassification_getInfo.postcondition.1/.2, "std::vector operator[]: index inside the vector", pointer_dereference (null slot)
 *  getIndex `return IndexSize` -> `IndexSize-1`          IndexClassification_getIndex1.postcondition.1/.2
 *  getIndex(label,orb,spin) passes (Spin,Orbital)        IndexClassification_getIndex3.postcondition.1/.2
 *  operator< `Spin < rhs.Spin` -> `<=`                   IC_roundtrip_info.postcondition.1
 *  operator< `Orbital < rhs.Orbital` -> `<=` (guarded by `!=`: an EQUIVALENT mutant, survives as it must)
 *  checkIndex `<` -> `<=`                                IndexClassification_checkIndex.postcondition.1
 *  prepare(order_spins) `continue` -> `break` (= the pre-fix tree, git 92c6b11^): see the final report of the session (h_IC_prepare_spins)
 */
